//! Token ops (C07 token part, C11):
//!   `tokenc <tok>,<tok>,...` -> `<hex> len=<sum of minicbor::len(token)>`   (bytes written by `Encoder::tokens`)
//!   `tokdec <hex>`           -> `<tok>,<tok>,... end pos=<n>` | `<tok>,... err:<class> pos=<n>`  (`Decoder::tokens()`)
//! The empty token list is written `-`.  Token syntax: see `show` / `parse` below.
use crate::util::*;
use minicbor::data::{Int, Tag, Token};
use minicbor::{Decoder, Encoder};

pub enum OTok {
    Bool(bool), U8(u8), U16(u16), U32(u32), U64(u64), I8(i8), I16(i16), I32(i32), I64(i64), Int(Int),
    F16(f32), F32(f32), F64(f64), Bytes(Vec<u8>), String(String), Array(u64), Map(u64), Tag(Tag), Simple(u8),
    Break, Null, Undefined, BeginBytes, BeginString, BeginArray, BeginMap
}

impl OTok {
    pub fn borrow(&self) -> Token<'_> {
        match self {
            OTok::Bool(x) => Token::Bool(*x), OTok::U8(x) => Token::U8(*x), OTok::U16(x) => Token::U16(*x),
            OTok::U32(x) => Token::U32(*x), OTok::U64(x) => Token::U64(*x), OTok::I8(x) => Token::I8(*x),
            OTok::I16(x) => Token::I16(*x), OTok::I32(x) => Token::I32(*x), OTok::I64(x) => Token::I64(*x),
            OTok::Int(x) => Token::Int(*x), OTok::F16(x) => Token::F16(*x), OTok::F32(x) => Token::F32(*x),
            OTok::F64(x) => Token::F64(*x), OTok::Bytes(x) => Token::Bytes(x), OTok::String(x) => Token::String(x),
            OTok::Array(x) => Token::Array(*x), OTok::Map(x) => Token::Map(*x), OTok::Tag(x) => Token::Tag(*x),
            OTok::Simple(x) => Token::Simple(*x), OTok::Break => Token::Break, OTok::Null => Token::Null,
            OTok::Undefined => Token::Undefined, OTok::BeginBytes => Token::BeginBytes, OTok::BeginString => Token::BeginString,
            OTok::BeginArray => Token::BeginArray, OTok::BeginMap => Token::BeginMap
        }
    }
}

fn bits(a: &str, digits: usize) -> Option<u64> {
    let h = a.strip_prefix('x')?;
    if h.len() != digits || !h.bytes().all(|c| matches!(c, b'0'..=b'9' | b'a'..=b'f')) { return None }
    u64::from_str_radix(h, 16).ok()
}

pub fn parse(t: &str) -> Option<OTok> {
    let (k, a) = match t.split_once(':') { Some((k, a)) => (k, a), None => (t, "") };
    Some(match k {
        "bool" => match a { "T" => OTok::Bool(true), "F" => OTok::Bool(false), _ => return None },
        "u8" => OTok::U8(a.parse().ok()?), "u16" => OTok::U16(a.parse().ok()?), "u32" => OTok::U32(a.parse().ok()?),
        "u64" => OTok::U64(a.parse().ok()?), "i8" => OTok::I8(a.parse().ok()?), "i16" => OTok::I16(a.parse().ok()?),
        "i32" => OTok::I32(a.parse().ok()?), "i64" => OTok::I64(a.parse().ok()?),
        "int" => OTok::Int(Int::try_from(a.parse::<i128>().ok()?).ok()?),
        "f16" => OTok::F16(f32::from_bits(bits(a, 8)? as u32)),
        "f32" => OTok::F32(f32::from_bits(bits(a, 8)? as u32)),
        "f64" => OTok::F64(f64::from_bits(bits(a, 16)?)),
        "bytes" => OTok::Bytes(unhex(a.strip_prefix('h')?)?),
        "string" => OTok::String(String::from_utf8(unhex(a.strip_prefix('s')?)?).ok()?),
        "array" => OTok::Array(a.parse().ok()?), "map" => OTok::Map(a.parse().ok()?),
        "tag" => OTok::Tag(Tag::new(a.parse().ok()?)), "simple" => OTok::Simple(a.parse().ok()?),
        "break" if a.is_empty() => OTok::Break, "null" if a.is_empty() => OTok::Null,
        "undefined" if a.is_empty() => OTok::Undefined, "beginbytes" if a.is_empty() => OTok::BeginBytes,
        "beginstring" if a.is_empty() => OTok::BeginString, "beginarray" if a.is_empty() => OTok::BeginArray,
        "beginmap" if a.is_empty() => OTok::BeginMap,
        _ => return None
    })
}

pub fn show(t: &Token<'_>) -> String {
    match t {
        Token::Bool(x) => format!("bool:{}", if *x { 'T' } else { 'F' }),
        Token::U8(x) => format!("u8:{}", x), Token::U16(x) => format!("u16:{}", x), Token::U32(x) => format!("u32:{}", x),
        Token::U64(x) => format!("u64:{}", x), Token::I8(x) => format!("i8:{}", x), Token::I16(x) => format!("i16:{}", x),
        Token::I32(x) => format!("i32:{}", x), Token::I64(x) => format!("i64:{}", x),
        Token::Int(x) => format!("int:{}", i128::from(*x)),
        Token::F16(x) => format!("f16:x{:08x}", x.to_bits()), Token::F32(x) => format!("f32:x{:08x}", x.to_bits()),
        Token::F64(x) => format!("f64:x{:016x}", x.to_bits()),
        Token::Bytes(x) => format!("bytes:h{}", hex(x)), Token::String(x) => format!("string:s{}", hex(x.as_bytes())),
        Token::Array(x) => format!("array:{}", x), Token::Map(x) => format!("map:{}", x),
        Token::Tag(x) => format!("tag:{}", x.as_u64()), Token::Simple(x) => format!("simple:{}", x),
        Token::Break => "break".into(), Token::Null => "null".into(), Token::Undefined => "undefined".into(),
        Token::BeginBytes => "beginbytes".into(), Token::BeginString => "beginstring".into(),
        Token::BeginArray => "beginarray".into(), Token::BeginMap => "beginmap".into()
    }
}

/// `Token: PartialEq` is what a user's `assert_eq!(decoded, original)` goes through: a token equals a copy of itself (NaN payloads aside,
/// where `f32: PartialEq` says otherwise)
fn neq_self(t: &Token<'_>) -> bool {
    let nan = match t { Token::F16(x) | Token::F32(x) => x.is_nan(), Token::F64(x) => x.is_nan(), _ => false };
    let c = t.clone();
    !nan && !(*t == c && c == *t)
}

pub fn run_enc(w: &[&str]) -> String {
    if w.len() != 1 { return "bad-op".into() }
    let owned: Option<Vec<OTok>> = if w[0] == "-" { Some(Vec::new()) } else { w[0].split(',').map(parse).collect() };
    let owned = match owned { Some(o) => o, None => return "bad-op".into() };
    let toks: Vec<Token<'_>> = owned.iter().map(OTok::borrow).collect();
    let n: usize = toks.iter().map(|t| minicbor::len(t)).sum();
    if let Some(t) = toks.iter().find(|t| neq_self(t)) { return format!("neq-self {}", show(t)) }
    let mut e = Encoder::new(Vec::new());
    match e.tokens(toks.iter()) {
        Ok(()) => format!("{} len={}", hex(e.writer()), n),
        Err(x) => format!("err {} len={}", eclass(&x), n)
    }
}

/// `tokencs <tok>,<tok>,...`: the SAME calls as `tokenc`, but issued as several calls on one Encoder: fragments of 2, 1, 3, 2, 1, 3 …
/// tokens, the fragments of length != 1 through `Encoder::tokens`, the single ones through `Encoder::encode(&token)`.
/// A balanced call sequence denotes the same items however it is split over calls.
pub fn run_enc_split(w: &[&str]) -> String {
    if w.len() != 1 { return "bad-op".into() }
    let owned: Option<Vec<OTok>> = if w[0] == "-" { Some(Vec::new()) } else { w[0].split(',').map(parse).collect() };
    let owned = match owned { Some(o) => o, None => return "bad-op".into() };
    let toks: Vec<Token<'_>> = owned.iter().map(OTok::borrow).collect();
    let n: usize = toks.iter().map(|t| minicbor::len(t)).sum();
    let mut e = Encoder::new(Vec::new());
    let (mut i, mut k) = (0usize, 0usize);
    let sizes = [2usize, 1, 3];
    while i < toks.len() {
        let j = (i + sizes[k % 3]).min(toks.len());
        k += 1;
        let r = if j - i == 1 { e.encode(&toks[i]).map(|_| ()) } else { e.tokens(toks[i .. j].iter()) };
        if let Err(x) = r { return format!("err {} len={}", eclass(&x), n) }
        i = j;
    }
    format!("{} len={}", hex(e.writer()), n)
}

pub fn run_dec(w: &[&str]) -> String {
    let input = match w.first().and_then(|h| unhex(h)) { Some(b) if w.len() == 1 => b, _ => return "bad-op".into() };
    let mut d = Decoder::new(&input);
    let mut items = Vec::new();
    let mut tail = " end".to_string();
    for t in d.tokens() {
        match t {
            Ok(t) => { if neq_self(&t) { return format!("neq-self {}", show(&t)) } items.push(show(&t)) }
            Err(e) => { tail = format!(" err:{}", dclass(&e)); break }
        }
    }
    let list = if items.is_empty() { "-".to_string() } else { items.join(",") };
    format!("{}{} pos={}", list, tail, d.position())
}


/// `tokdec2 <pos> <hex>`: the three ways to obtain a tokenizer over the same bytes from position `pos`:
/// `Decoder::tokens()` of a decoder set to `pos`, `Tokenizer::new(&bytes[pos..])`, `Tokenizer::from(decoder)`;
/// `<transcript> | <transcript> | <transcript>` (token lists, then `end` or `err:<class>`; no positions).
pub fn run_dec2(w: &[&str]) -> String {
    use minicbor::decode::Tokenizer;
    if w.len() != 2 { return "bad-op".into() }
    let pos = match w[0].parse::<usize>() { Ok(p) => p, Err(_) => return "bad-op".into() };
    let input = match unhex(w[1]) { Some(b) => b, None => return "bad-op".into() };
    if pos > input.len() + 64 { return "bad-op".into() }      // a position beyond the end is legal (`set_position` does not check)
    fn drain<'a, 'b>(it: impl Iterator<Item = Result<minicbor::data::Token<'b>, minicbor::decode::Error>>) -> String {
        let mut items = Vec::new();
        let mut tail = " end".to_string();
        for t in it {
            match t {
                Ok(t) => items.push(show(&t)),
                Err(e) => { tail = format!(" err:{}", dclass(&e)); break }
            }
            if items.len() > 1 << 20 { break }
        }
        format!("{}{}", if items.is_empty() { "-".to_string() } else { items.join(",") }, tail)
    }
    let mut d = Decoder::new(&input);
    d.set_position(pos);
    let a = drain(d.tokens());
    let b = drain(Tokenizer::new(&input[pos.min(input.len()) ..]));
    let mut d2 = Decoder::new(&input);
    d2.set_position(pos);
    let c = drain(Tokenizer::from(d2));
    // a clone taken after k tokens continues where the original stands (both kinds of tokenizer): k tokens ++ the clone's == the whole
    for k in [0usize, 1, 2, 5] {
        let mut d3 = Decoder::new(&input);
        d3.set_position(pos);
        for owned in [false, true] {
            let mut head = Vec::new();
            let mut t: Tokenizer<'_, '_> = if owned { let mut d4 = Decoder::new(&input); d4.set_position(pos); Tokenizer::from(d4) } else { d3.set_position(pos); d3.tokens() };
            let mut failed = false;
            for _ in 0 .. k { match t.next() { Some(Ok(x)) => head.push(show(&x)), Some(Err(_)) => { failed = true; break } None => break } }
            if failed { continue }
            let rest = drain(t.clone());
            let joined = if head.is_empty() { rest.clone() } else if rest.starts_with("- ") { format!("{}{}", head.join(","), &rest[1..]) } else { format!("{},{}", head.join(","), rest) };
            if joined != a { return format!("{} | {} | clone-after-{}{} {}", a, b, k, if owned { "-owned" } else { "" }, joined) }
        }
    }
    // tokenising in two steps through the same decoder: k tokens pulled with `Tokenizer::token()` (the public method `next` is made of),
    // the tokenizer dropped, `Decoder::tokens()` once more: the decoder stands behind the k tokens, the two parts make the whole
    for k in [1usize, 2, 3, 5] {
        for style in 0 .. 2 {
            let mut d5 = Decoder::new(&input);
            d5.set_position(pos);
            let mut head = Vec::new();
            let mut failed = false;
            {
                let mut t = d5.tokens();
                for i in 0 .. k {
                    let r = if style == 0 || i % 2 == 0 { t.token() } else { match t.next() { Some(r) => r, None => { failed = true; break } } };
                    match r { Ok(x) => head.push(show(&x)), Err(_) => { failed = true; break } }
                }
            }
            if failed { continue }
            let rest = drain(d5.tokens());
            let joined = if rest.starts_with("- ") { format!("{}{}", head.join(","), &rest[1..]) } else { format!("{},{}", head.join(","), rest) };
            if joined != a { return format!("{} | {} | split-after-{}-style{} {}", a, b, k, style, joined) }
        }
    }
    format!("{} | {} | {}", a, b, c)
}

/// `tokcont <vec|deque|list|arr|tup|map|boxed> <tok>,<tok>,...`: `Token` as an ELEMENT type of the built-in containers — the trait
/// impls `Encode for Token` / `Decode for Token` / `CborLen for Token` behind `Vec`, `VecDeque`, `LinkedList`, `[Token; N]`
/// (N = 1..4), a tuple (N = 2, 3), `BTreeMap<u8, Token>` and `Box<Token>` (one token): `<hex> len=<minicbor::len> rt=<ok|diff:..|err:class> pos=<n>`.
/// Equality is by `show` with integer tokens compared by numeric value (the decoder answers with the narrowest integer token).
pub fn run_cont(w: &[&str]) -> String {
    use std::collections::{BTreeMap, LinkedList, VecDeque};
    if w.len() != 2 { return "bad-op".into() }
    let owned: Option<Vec<OTok>> = if w[1] == "-" { Some(Vec::new()) } else { w[1].split(',').map(parse).collect() };
    let owned = match owned { Some(o) => o, None => return "bad-op".into() };
    let toks: Vec<Token<'_>> = owned.iter().map(OTok::borrow).collect();
    fn norm(t: &Token<'_>) -> String {
        match t {
            Token::U8(x) => format!("n:{}", x), Token::U16(x) => format!("n:{}", x), Token::U32(x) => format!("n:{}", x), Token::U64(x) => format!("n:{}", x),
            Token::I8(x) => format!("n:{}", x), Token::I16(x) => format!("n:{}", x), Token::I32(x) => format!("n:{}", x), Token::I64(x) => format!("n:{}", x),
            Token::Int(x) => format!("n:{}", i128::from(*x)),
            _ => show(t)
        }
    }
    fn cmp(x: Vec<String>, y: Vec<String>) -> String {
        if x == y { "ok".into() } else { format!("diff:{}", if y.is_empty() { "-".to_string() } else { y.join(",") }) }
    }
    macro_rules! go {
        ($v:expr, $t:ty, $iter:expr) => {{
            let v: $t = $v;
            let n = minicbor::len(&v);
            match minicbor::to_vec(&v) {
                Err(x) => format!("err {} len={}", eclass(&x), n),
                Ok(bytes) => {
                    let mut d = Decoder::new(&bytes);
                    let rt = match d.decode::<$t>() {
                        Ok(back) => { let f = $iter; cmp(f(&v), f(&back)) }
                        Err(e) => format!("err:{}", dclass(&e))
                    };
                    format!("{} len={} rt={} pos={}", hex(&bytes), n, rt, d.position())
                }
            }
        }}
    }
    match (w[0], toks.len()) {
        ("vec", _) => go!(toks.clone(), Vec<Token<'_>>, |c: &Vec<Token<'_>>| c.iter().map(norm).collect::<Vec<_>>()),
        ("deque", _) => {
            // built by pushes at both ends so that the ring buffer is not contiguous, then rotated into the order of the op text
            let mut q: VecDeque<Token<'_>> = VecDeque::with_capacity(4);
            for t in toks.iter().rev() { q.push_front(*t) }
            go!(q, VecDeque<Token<'_>>, |c: &VecDeque<Token<'_>>| c.iter().map(norm).collect::<Vec<_>>())
        }
        ("list", _) => go!(toks.iter().cloned().collect(), LinkedList<Token<'_>>, |c: &LinkedList<Token<'_>>| c.iter().map(norm).collect::<Vec<_>>()),
        ("arr", 1) => go!([toks[0]], [Token<'_>; 1], |c: &[Token<'_>; 1]| c.iter().map(norm).collect::<Vec<_>>()),
        ("arr", 2) => go!([toks[0], toks[1]], [Token<'_>; 2], |c: &[Token<'_>; 2]| c.iter().map(norm).collect::<Vec<_>>()),
        ("arr", 3) => go!([toks[0], toks[1], toks[2]], [Token<'_>; 3], |c: &[Token<'_>; 3]| c.iter().map(norm).collect::<Vec<_>>()),
        ("arr", 4) => go!([toks[0], toks[1], toks[2], toks[3]], [Token<'_>; 4], |c: &[Token<'_>; 4]| c.iter().map(norm).collect::<Vec<_>>()),
        ("tup", 2) => go!((toks[0], toks[1]), (Token<'_>, Token<'_>), |c: &(Token<'_>, Token<'_>)| vec![norm(&c.0), norm(&c.1)]),
        ("tup", 3) => go!((toks[0], toks[1], toks[2]), (Token<'_>, Token<'_>, Token<'_>), |c: &(Token<'_>, Token<'_>, Token<'_>)| vec![norm(&c.0), norm(&c.1), norm(&c.2)]),
        ("map", n) if n <= 200 => go!(toks.iter().cloned().enumerate().map(|(i, t)| (i as u8, t)).collect(), BTreeMap<u8, Token<'_>>,
                                      |c: &BTreeMap<u8, Token<'_>>| c.iter().map(|(k, t)| format!("{}={}", k, norm(t))).collect::<Vec<_>>()),
        ("boxed", 1) => go!(Box::new(toks[0]), Box<Token<'_>>, |c: &Box<Token<'_>>| vec![norm(c)]),
        _ => "bad-op".into()
    }
}
