//! `enc <method> [arg]` -> hex of the bytes the Encoder method writes into a Vec.
use crate::util::*;
use minicbor::{Encoder, data::{Int, Tag}};

pub fn run(w: &[&str]) -> String {
    let mut e = Encoder::new(Vec::new());
    let a = w.get(1).copied().unwrap_or("");
    macro_rules! num { ($t:ty) => { match a.parse::<$t>() { Ok(x) => x, Err(_) => return "bad-op".into() } } }
    macro_rules! bits { ($t:ty) => { match <$t>::from_str_radix(a, 16) { Ok(x) => x, Err(_) => return "bad-op".into() } } }
    let r = match w[0] {
        "u8"  => e.u8(num!(u8)).map(|_| ()),
        "u16" => e.u16(num!(u16)).map(|_| ()),
        "u32" => e.u32(num!(u32)).map(|_| ()),
        "u64" => e.u64(num!(u64)).map(|_| ()),
        "i8"  => e.i8(num!(i8)).map(|_| ()),
        "i16" => e.i16(num!(i16)).map(|_| ()),
        "i32" => e.i32(num!(i32)).map(|_| ()),
        "i64" => e.i64(num!(i64)).map(|_| ()),
        "int" => {
            let v = num!(i128);
            let i = match Int::try_from(v) { Ok(i) => i, Err(_) => return "bad-op".into() };
            e.int(i).map(|_| ())
        }
        "simple" => e.simple(num!(u8)).map(|_| ()),
        "f16" => e.f16(f32::from_bits(bits!(u32))).map(|_| ()),
        "f32" => e.f32(f32::from_bits(bits!(u32))).map(|_| ()),
        "f64" => e.f64(f64::from_bits(bits!(u64))).map(|_| ()),
        "bool" => e.bool(a == "1").map(|_| ()),
        "char" => match char::from_u32(num!(u32)) { Some(c) => e.char(c).map(|_| ()), None => return "bad-op".into() },
        "tag" => e.tag(Tag::new(num!(u64))).map(|_| ()),
        "bytes" => match unhex(a) { Some(b) => e.bytes(&b).map(|_| ()), None => return "bad-op".into() },
        "str" => match unhex(a).and_then(|b| String::from_utf8(b).ok()) { Some(s) => e.str(&s).map(|_| ()), None => return "bad-op".into() },
        "array" => e.array(num!(u64)).map(|_| ()),
        "map" => e.map(num!(u64)).map(|_| ()),
        "null" => e.null().map(|_| ()),
        "undefined" => e.undefined().map(|_| ()),
        "begin_array" => e.begin_array().map(|_| ()),
        "begin_bytes" => e.begin_bytes().map(|_| ()),
        "begin_map" => e.begin_map().map(|_| ()),
        "begin_str" => e.begin_str().map(|_| ()),
        "end" => e.end().map(|_| ()),
        _ => return "bad-op".into()
    };
    match r {
        Ok(()) => hex(e.writer()),
        Err(x) => format!("err {}", eclass(&x))
    }
}

/// `enciter <array|map> <exact|loose|even|open> <n1,n2,...|->`: `encode::ArrayIter` / `MapIter` over iterators
/// whose size hint is exact, loose (upper bound only), over-estimating (filter drops the odd items) or open-ended.
pub fn run_iter(w: &[&str]) -> String {
    use minicbor::encode::{ArrayIter, MapIter};
    let vals: Vec<u32> = match w.get(2).copied().unwrap_or("-") {
        "-" => Vec::new(),
        s => match s.split(',').map(|x| x.parse::<u32>()).collect::<Result<Vec<_>, _>>() { Ok(v) => v, Err(_) => return "bad-op".into() }
    };
    let pairs: Vec<(u32, u32)> = vals.iter().enumerate().map(|(i, v)| (i as u32, *v)).collect();
    let r = match (w[0], w[1]) {
        ("array", "exact") => minicbor::to_vec(ArrayIter::new(vals.iter())),
        ("array", "loose") => minicbor::to_vec(ArrayIter::new(vals.iter().filter(|_| true))),
        ("array", "even")  => minicbor::to_vec(ArrayIter::new(vals.iter().filter(|x| **x % 2 == 0))),
        ("array", "open")  => minicbor::to_vec(ArrayIter::new(vals.iter().copied().chain(std::iter::from_fn(|| None::<u32>)))),
        ("map", "exact") => minicbor::to_vec(MapIter::new(pairs.iter().map(|p| (p.0, p.1)))),
        ("map", "loose") => minicbor::to_vec(MapIter::new(pairs.iter().map(|p| (p.0, p.1)).filter(|_| true))),
        ("map", "even")  => minicbor::to_vec(MapIter::new(pairs.iter().map(|p| (p.0, p.1)).filter(|p| p.1 % 2 == 0))),
        ("map", "open")  => minicbor::to_vec(MapIter::new(pairs.iter().map(|p| (p.0, p.1)).chain(std::iter::from_fn(|| None::<(u32, u32)>)))),
        _ => return "bad-op".into()
    };
    match r { Ok(b) => hex(&b), Err(x) => format!("err {}", eclass(&x)) }
}
