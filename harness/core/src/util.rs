//! Shared helpers: hex, error classes, panic capture.
use std::fmt::Write as _;

pub fn hex(b: &[u8]) -> String {
    if b.is_empty() { return "-".into() }
    let mut s = String::with_capacity(b.len() * 2);
    for x in b { write!(s, "{:02x}", x).unwrap(); }
    s
}

pub fn unhex(s: &str) -> Option<Vec<u8>> {
    if s == "-" { return Some(Vec::new()) }
    if s.len() % 2 != 0 { return None }
    (0 .. s.len() / 2).map(|i| u8::from_str_radix(s.get(2*i .. 2*i+2)?, 16).ok()).collect()
}

/// The class of a decode error, as in the model's `Err`.
pub fn dclass(e: &minicbor::decode::Error) -> &'static str {
    if e.is_end_of_input() { return "eoi" }
    if e.is_type_mismatch() { return "type" }
    if e.is_tag_mismatch() { return "tag" }
    if e.is_unknown_variant() { return "variant" }
    if e.is_missing_value() { return "missing" }
    if e.is_message() { return "message" }
    if e.is_custom() { return "custom" }
    let s = e.to_string();
    if s.starts_with("invalid char") { return "char" }
    if s.starts_with("invalid utf-8") { return "utf8" }
    if s.contains("overflows target type") { return "overflow" }
    "other"
}

pub fn eclass<E>(e: &minicbor::encode::Error<E>) -> &'static str {
    if e.is_write() { "write" } else if e.is_message() { "message" } else if e.is_custom() { "custom" } else { "other" }
}

/// Run `f`, turning a panic into `None`.
pub fn guard<R>(f: impl FnOnce() -> R) -> Option<R> {
    std::panic::catch_unwind(std::panic::AssertUnwindSafe(f)).ok()
}
