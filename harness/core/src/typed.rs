//! Typed ops of docs/TYPES_PROTOCOL.md: `tenc <rustname> <val>`, `tdec <rustname> <hex>`, `hcore tlist`.
//!
//! Every built-in Encode/Decode/CborLen impl of minicbor is reached through at least one concrete
//! instantiation of the registry at the bottom of this file.  A value is parsed from / printed in the
//! protocol's value syntax by the trait `V`; the op itself only calls `minicbor::to_vec`,
//! `minicbor::len` and `Decoder::decode`.
use crate::util::*;
use minicbor::bytes::{ByteArray, ByteSlice, ByteVec};
use minicbor::data::{Int, Tag, Tagged};
use minicbor::{CborLen, Decode, Decoder, Encode};
use std::borrow::Cow;
use std::cell::{Cell, RefCell};
use std::collections::{BTreeMap, BTreeSet, BinaryHeap, HashMap, HashSet, LinkedList, VecDeque};
use std::ffi::{CStr, CString};
use std::fmt::Write as _;
use std::marker::PhantomData;
use std::net::{IpAddr, Ipv4Addr, Ipv6Addr, SocketAddr, SocketAddrV4, SocketAddrV6};
use std::num::*;
use std::ops::{Bound, Range, RangeFrom, RangeInclusive, RangeTo, RangeToInclusive};
use std::path::{Path, PathBuf};
use std::sync::atomic::*;
use std::time::{Duration, SystemTime, UNIX_EPOCH};

/// `true` (agreed with the model side): BinaryHeap<T> has descriptor `ubag(T)`, its decode output is
/// sorted but NOT de-duplicated (multiset).  `false` would be the literal first reading of
/// TYPES_PROTOCOL.md (`uset(T)`, de-duplicated).  See "Implementation notes" in the protocol file.
pub const BINARY_HEAP_BAG: bool = true;

// ------------------------------------------------------------------------------------------ arena
// Borrowing types (&str, &ByteSlice, &CStr, &Path) are instantiated at 'static; what they borrow from
// (the decoder input, parsed string contents) lives in this per-op arena, freed when the op is over.

thread_local! { static ARENA: RefCell<Vec<*mut [u8]>> = const { RefCell::new(Vec::new()) }; }

fn arena_put(v: Vec<u8>) -> &'static [u8] {
    let p: *mut [u8] = Box::leak(v.into_boxed_slice());
    ARENA.with(|a| a.borrow_mut().push(p));
    unsafe { &*p }
}

/// Must only be called when no value parsed/decoded during the current op is alive any more.
fn arena_clear() {
    ARENA.with(|a| for p in a.borrow_mut().drain(..) { unsafe { drop(Box::from_raw(p)) } })
}

// ------------------------------------------------------------------------------------------ parser

pub struct P<'a> { s: &'a [u8], i: usize }

impl<'a> P<'a> {
    pub fn new(s: &'a str) -> Self { P { s: s.as_bytes(), i: 0 } }
    pub fn done(&self) -> bool { self.i == self.s.len() }
    fn peek(&self) -> Option<u8> { self.s.get(self.i).copied() }
    fn eat(&mut self, c: u8) -> Option<()> { if self.peek()? == c { self.i += 1; Some(()) } else { None } }
    fn int(&mut self) -> Option<i128> {
        let st = self.i;
        if self.peek() == Some(b'-') { self.i += 1 }
        let ds = self.i;
        while matches!(self.peek(), Some(b'0'..=b'9')) { self.i += 1 }
        if self.i == ds || self.i - ds > 38 { return None }
        std::str::from_utf8(&self.s[st..self.i]).ok()?.parse().ok()
    }
    fn hexdigit(&mut self) -> Option<u8> {
        let c = self.peek()?;
        let v = match c { b'0'..=b'9' => c - b'0', b'a'..=b'f' => c - b'a' + 10, _ => return None };
        self.i += 1;
        Some(v)
    }
    /// `-` (empty) or a maximal run of lowercase hex digit pairs.
    fn hexrun(&mut self) -> Option<Vec<u8>> {
        if self.peek() == Some(b'-') { self.i += 1; return Some(Vec::new()) }
        let mut v = Vec::new();
        while matches!(self.peek(), Some(b'0'..=b'9' | b'a'..=b'f')) {
            let h = self.hexdigit()?;
            let l = self.hexdigit()?;
            v.push(h * 16 + l);
        }
        if v.is_empty() { None } else { Some(v) }
    }
    fn bits(&mut self, digits: usize) -> Option<u64> {
        self.eat(b'x')?;
        let mut r = 0u64;
        for _ in 0..digits { r = r * 16 + self.hexdigit()? as u64 }
        Some(r)
    }
    fn tagged_hex(&mut self, c: u8) -> Option<Vec<u8>> { self.eat(c)?; self.hexrun() }
    /// `[v1,v2,...]` with a caller-supplied element parser.
    fn list<T>(&mut self, mut f: impl FnMut(&mut Self) -> Option<T>) -> Option<Vec<T>> {
        self.eat(b'[')?;
        let mut v = Vec::new();
        if self.peek() == Some(b']') { self.i += 1; return Some(v) }
        loop {
            v.push(f(self)?);
            if self.peek() == Some(b',') { self.i += 1 } else { break }
        }
        self.eat(b']')?;
        Some(v)
    }
    fn entries<K, W>(&mut self, mut f: impl FnMut(&mut Self) -> Option<(K, W)>) -> Option<Vec<(K, W)>> {
        self.eat(b'{')?;
        let mut v = Vec::new();
        if self.peek() == Some(b'}') { self.i += 1; return Some(v) }
        loop {
            v.push(f(self)?);
            if self.peek() == Some(b',') { self.i += 1 } else { break }
        }
        self.eat(b'}')?;
        Some(v)
    }
    /// `V<index>(` ; the caller parses the payload and then calls `close`.
    fn variant(&mut self) -> Option<u32> {
        self.eat(b'V')?;
        let n = u32::try_from(self.int()?).ok()?;
        self.eat(b'(')?;
        Some(n)
    }
    fn close(&mut self) -> Option<()> { self.eat(b')') }
}

fn show_hex(o: &mut String, tag: char, b: &[u8]) { o.push(tag); o.push_str(&hex(b)) }

fn show_list<'x, T: V + 'x>(o: &mut String, it: impl Iterator<Item = &'x T>) {
    o.push('[');
    for (i, x) in it.enumerate() { if i > 0 { o.push(',') } x.show(o) }
    o.push(']')
}

fn show_sorted(o: &mut String, mut items: Vec<String>, dedup: bool, open: char, close: char) {
    items.sort();
    if dedup { items.dedup() }
    o.push(open);
    o.push_str(&items.join(","));
    o.push(close)
}

/// Canonical form of the encoding of a top-level unordered collection: head, then the element
/// (items = 1) or entry (items = 2) encodings sorted bytewise.  Boundaries come from `Decoder::skip`.
fn canon_unordered(b: Vec<u8>, items: usize) -> Vec<u8> {
    let mut d = Decoder::new(&b);
    let n = match if items == 1 { d.array() } else { d.map() } { Ok(Some(n)) => n, _ => return b };
    let head = d.position();
    let mut parts: Vec<&[u8]> = Vec::new();
    for _ in 0..n {
        let s = d.position();
        for _ in 0..items { if d.skip().is_err() { return b } }
        parts.push(&b[s..d.position()]);
    }
    if d.position() != b.len() { return b }
    parts.sort();
    let mut out = b[..head].to_vec();
    for p in parts { out.extend_from_slice(p) }
    out
}

// ------------------------------------------------------------------------------------------ trait V

pub trait V: Sized {
    /// Model descriptor (`g = false`) or generation descriptor (`g = true`: `set(T)` for BTreeSet,
    /// `ubag(T)` for BinaryHeap).
    fn desc(g: bool) -> String;
    fn parse(p: &mut P) -> Option<Self>;
    fn show(&self, o: &mut String);
    fn canon(b: Vec<u8>) -> Vec<u8> { b }
}

macro_rules! v_int { ($($t:ty => $d:literal),* $(,)?) => {$(
    impl V for $t {
        fn desc(_: bool) -> String { $d.into() }
        fn parse(p: &mut P) -> Option<Self> { <$t>::try_from(p.int()?).ok() }
        fn show(&self, o: &mut String) { write!(o, "{}", self).unwrap() }
    }
)*}}
v_int!(u8 => "u8", u16 => "u16", u32 => "u32", u64 => "u64", i8 => "i8", i16 => "i16", i32 => "i32", i64 => "i64",
       usize => "u64", isize => "i64");

macro_rules! v_nonzero { ($($t:ty => $i:ty),* $(,)?) => {$(
    impl V for $t {
        fn desc(g: bool) -> String { format!("nz({})", <$i>::desc(g)) }
        fn parse(p: &mut P) -> Option<Self> { <$t>::new(<$i>::parse(p)?) }
        fn show(&self, o: &mut String) { self.get().show(o) }
    }
)*}}
v_nonzero!(NonZeroU8 => u8, NonZeroU16 => u16, NonZeroU32 => u32, NonZeroU64 => u64, NonZeroUsize => usize,
           NonZeroI8 => i8, NonZeroI16 => i16, NonZeroI32 => i32, NonZeroI64 => i64, NonZeroIsize => isize);

macro_rules! v_atomic { ($($t:ty => $i:ty),* $(,)?) => {$(
    impl V for $t {
        fn desc(g: bool) -> String { <$i>::desc(g) }
        fn parse(p: &mut P) -> Option<Self> { <$i>::parse(p).map(<$t>::new) }
        fn show(&self, o: &mut String) { self.load(Ordering::SeqCst).show(o) }
    }
)*}}
v_atomic!(AtomicBool => bool, AtomicU8 => u8, AtomicU16 => u16, AtomicU32 => u32, AtomicU64 => u64, AtomicUsize => usize,
          AtomicI8 => i8, AtomicI16 => i16, AtomicI32 => i32, AtomicI64 => i64, AtomicIsize => isize);

impl V for Int {
    fn desc(_: bool) -> String { "int".into() }
    fn parse(p: &mut P) -> Option<Self> { Int::try_from(p.int()?).ok() }
    fn show(&self, o: &mut String) { write!(o, "{}", i128::from(*self)).unwrap() }
}

impl V for Tag {
    fn desc(_: bool) -> String { "tag".into() }
    fn parse(p: &mut P) -> Option<Self> { u64::parse(p).map(Tag::new) }
    fn show(&self, o: &mut String) { self.as_u64().show(o) }
}

impl V for bool {
    fn desc(_: bool) -> String { "bool".into() }
    fn parse(p: &mut P) -> Option<Self> {
        if p.eat(b'T').is_some() { Some(true) } else { p.eat(b'F').map(|_| false) }
    }
    fn show(&self, o: &mut String) { o.push(if *self { 'T' } else { 'F' }) }
}

impl V for char {
    fn desc(_: bool) -> String { "char".into() }
    fn parse(p: &mut P) -> Option<Self> { char::from_u32(u32::try_from(p.int()?).ok()?) }
    fn show(&self, o: &mut String) { write!(o, "{}", *self as u32).unwrap() }
}

impl V for f32 {
    fn desc(_: bool) -> String { "f32".into() }
    fn parse(p: &mut P) -> Option<Self> { p.bits(8).map(|b| f32::from_bits(b as u32)) }
    fn show(&self, o: &mut String) { write!(o, "x{:08x}", self.to_bits()).unwrap() }
}

impl V for f64 {
    fn desc(_: bool) -> String { "f64".into() }
    fn parse(p: &mut P) -> Option<Self> { p.bits(16).map(f64::from_bits) }
    fn show(&self, o: &mut String) { write!(o, "x{:016x}", self.to_bits()).unwrap() }
}

// ---- text

fn parse_string(p: &mut P) -> Option<String> { String::from_utf8(p.tagged_hex(b's')?).ok() }

macro_rules! v_text { ($($t:ty : $from:expr, $bytes:expr);* $(;)?) => {$(
    impl V for $t {
        fn desc(_: bool) -> String { "str".into() }
        fn parse(p: &mut P) -> Option<Self> { let s = parse_string(p)?; let f: fn(String) -> Option<$t> = $from; f(s) }
        fn show(&self, o: &mut String) { let f: for<'a> fn(&'a $t) -> &'a [u8] = $bytes; show_hex(o, 's', f(self)) }
    }
)*}}
v_text! {
    String: |s| Some(s), |x| x.as_bytes();
    Box<str>: |s| Some(s.into_boxed_str()), |x| x.as_bytes();
    Cow<'static, str>: |s| Some(Cow::Owned(s)), |x| x.as_bytes();
    PathBuf: |s| Some(PathBuf::from(s)), |x| x.as_os_str().as_encoded_bytes();
    Box<Path>: |s| Some(PathBuf::from(s).into_boxed_path()), |x| x.as_os_str().as_encoded_bytes();
    Cow<'static, Path>: |s| Some(Cow::Owned(PathBuf::from(s))), |x| x.as_os_str().as_encoded_bytes();
    &'static str: |s| std::str::from_utf8(arena_put(s.into_bytes())).ok(), |x| x.as_bytes();
    &'static Path: |s| std::str::from_utf8(arena_put(s.into_bytes())).ok().map(Path::new), |x| x.as_os_str().as_encoded_bytes();
}

// ---- bytes

macro_rules! v_bytes { ($($t:ty : $from:expr, $bytes:expr);* $(;)?) => {$(
    impl V for $t {
        fn desc(_: bool) -> String { "bytes".into() }
        fn parse(p: &mut P) -> Option<Self> { let b = p.tagged_hex(b'h')?; let f: fn(Vec<u8>) -> $t = $from; Some(f(b)) }
        fn show(&self, o: &mut String) { let f: for<'a> fn(&'a $t) -> &'a [u8] = $bytes; show_hex(o, 'h', f(self)) }
    }
)*}}
v_bytes! {
    ByteVec: ByteVec::from, |x| x.as_slice();
    Cow<'static, ByteSlice>: |b| Cow::Owned(ByteVec::from(b)), |x| &x[..];
    &'static ByteSlice: |b| <&ByteSlice>::from(arena_put(b)), |x| &x[..];
}

impl<const N: usize> V for ByteArray<N> {
    fn desc(_: bool) -> String { format!("barr({})", N) }
    fn parse(p: &mut P) -> Option<Self> { <[u8; N]>::try_from(p.tagged_hex(b'h')?).ok().map(ByteArray::from) }
    fn show(&self, o: &mut String) { show_hex(o, 'h', &self[..]) }
}

impl V for Ipv4Addr {
    fn desc(_: bool) -> String { "barr(4)".into() }
    fn parse(p: &mut P) -> Option<Self> { <[u8; 4]>::try_from(p.tagged_hex(b'h')?).ok().map(Ipv4Addr::from) }
    fn show(&self, o: &mut String) { show_hex(o, 'h', &self.octets()) }
}

impl V for Ipv6Addr {
    fn desc(_: bool) -> String { "barr(16)".into() }
    fn parse(p: &mut P) -> Option<Self> { <[u8; 16]>::try_from(p.tagged_hex(b'h')?).ok().map(Ipv6Addr::from) }
    fn show(&self, o: &mut String) { show_hex(o, 'h', &self.octets()) }
}

// ---- C strings: the value is the contents WITHOUT the trailing NUL

impl V for CString {
    fn desc(_: bool) -> String { "cstr".into() }
    fn parse(p: &mut P) -> Option<Self> { CString::new(p.tagged_hex(b'h')?).ok() }
    fn show(&self, o: &mut String) { show_hex(o, 'h', self.to_bytes()) }
}

impl V for Cow<'static, CStr> {
    fn desc(_: bool) -> String { "cstr".into() }
    fn parse(p: &mut P) -> Option<Self> { CString::parse(p).map(Cow::Owned) }
    fn show(&self, o: &mut String) { show_hex(o, 'h', self.to_bytes()) }
}

impl V for &'static CStr {
    fn desc(_: bool) -> String { "cstr".into() }
    fn parse(p: &mut P) -> Option<Self> {
        let mut b = p.tagged_hex(b'h')?;
        b.push(0);
        CStr::from_bytes_with_nul(arena_put(b)).ok()
    }
    fn show(&self, o: &mut String) { show_hex(o, 'h', self.to_bytes()) }
}

// ---- unit

impl V for () {
    fn desc(_: bool) -> String { "unit".into() }
    fn parse(p: &mut P) -> Option<Self> { p.eat(b'U') }
    fn show(&self, o: &mut String) { o.push('U') }
}

impl<T> V for PhantomData<T> {
    fn desc(_: bool) -> String { "unit".into() }
    fn parse(p: &mut P) -> Option<Self> { p.eat(b'U').map(|_| PhantomData) }
    fn show(&self, o: &mut String) { o.push('U') }
}

// ---- option, enums

impl<T: V> V for Option<T> {
    fn desc(g: bool) -> String { format!("opt({})", T::desc(g)) }
    fn parse(p: &mut P) -> Option<Self> {
        if p.eat(b'N').is_some() { return Some(None) }
        p.eat(b'S')?; p.eat(b'(')?;
        let v = T::parse(p)?;
        p.close()?;
        Some(Some(v))
    }
    fn show(&self, o: &mut String) {
        match self { None => o.push('N'), Some(x) => { o.push_str("S("); x.show(o); o.push(')') } }
    }
}

fn show_variant(o: &mut String, idx: u32, f: impl FnOnce(&mut String)) {
    write!(o, "V{}(", idx).unwrap();
    f(o);
    o.push(')')
}

impl<T: V, E: V> V for Result<T, E> {
    fn desc(g: bool) -> String { format!("enum({},{})", T::desc(g), E::desc(g)) }
    fn parse(p: &mut P) -> Option<Self> {
        let r = match p.variant()? { 0 => Ok(T::parse(p)?), 1 => Err(E::parse(p)?), _ => return None };
        p.close()?;
        Some(r)
    }
    fn show(&self, o: &mut String) {
        match self { Ok(x) => show_variant(o, 0, |o| x.show(o)), Err(x) => show_variant(o, 1, |o| x.show(o)) }
    }
}

impl<T: V> V for Bound<T> {
    fn desc(g: bool) -> String { format!("bound({})", T::desc(g)) }
    fn parse(p: &mut P) -> Option<Self> {
        let r = match p.variant()? {
            0 => Bound::Included(T::parse(p)?),
            1 => Bound::Excluded(T::parse(p)?),
            2 => { p.eat(b'U')?; Bound::Unbounded }
            _ => return None
        };
        p.close()?;
        Some(r)
    }
    fn show(&self, o: &mut String) {
        match self {
            Bound::Included(x) => show_variant(o, 0, |o| x.show(o)),
            Bound::Excluded(x) => show_variant(o, 1, |o| x.show(o)),
            Bound::Unbounded => show_variant(o, 2, |o| o.push('U'))
        }
    }
}

impl V for IpAddr {
    fn desc(g: bool) -> String { format!("enum({},{})", Ipv4Addr::desc(g), Ipv6Addr::desc(g)) }
    fn parse(p: &mut P) -> Option<Self> {
        let r = match p.variant()? { 0 => IpAddr::V4(V::parse(p)?), 1 => IpAddr::V6(V::parse(p)?), _ => return None };
        p.close()?;
        Some(r)
    }
    fn show(&self, o: &mut String) {
        match self { IpAddr::V4(x) => show_variant(o, 0, |o| x.show(o)), IpAddr::V6(x) => show_variant(o, 1, |o| x.show(o)) }
    }
}

impl V for SocketAddr {
    fn desc(g: bool) -> String { format!("enum({},{})", SocketAddrV4::desc(g), SocketAddrV6::desc(g)) }
    fn parse(p: &mut P) -> Option<Self> {
        let r = match p.variant()? { 0 => SocketAddr::V4(V::parse(p)?), 1 => SocketAddr::V6(V::parse(p)?), _ => return None };
        p.close()?;
        Some(r)
    }
    fn show(&self, o: &mut String) {
        match self { SocketAddr::V4(x) => show_variant(o, 0, |o| x.show(o)), SocketAddr::V6(x) => show_variant(o, 1, |o| x.show(o)) }
    }
}

// ---- records decoded by decode_fields!

fn parse2<A: V, B: V>(p: &mut P) -> Option<(A, B)> {
    p.eat(b'[')?;
    let a = A::parse(p)?;
    p.eat(b',')?;
    let b = B::parse(p)?;
    p.eat(b']')?;
    Some((a, b))
}

fn parse1<A: V>(p: &mut P) -> Option<A> {
    p.eat(b'[')?;
    let a = A::parse(p)?;
    p.eat(b']')?;
    Some(a)
}

fn show2<A: V, B: V>(o: &mut String, a: &A, b: &B) { o.push('['); a.show(o); o.push(','); b.show(o); o.push(']') }
fn show1<A: V>(o: &mut String, a: &A) { o.push('['); a.show(o); o.push(']') }

impl V for SocketAddrV4 {
    fn desc(_: bool) -> String { "fields(barr(4),u16)".into() }
    fn parse(p: &mut P) -> Option<Self> { parse2::<Ipv4Addr, u16>(p).map(|(a, b)| SocketAddrV4::new(a, b)) }
    fn show(&self, o: &mut String) { show2(o, self.ip(), &self.port()) }
}

impl V for SocketAddrV6 {
    fn desc(_: bool) -> String { "fields(barr(16),u16)".into() }
    fn parse(p: &mut P) -> Option<Self> { parse2::<Ipv6Addr, u16>(p).map(|(a, b)| SocketAddrV6::new(a, b, if b % 3 == 0 { 0 } else { 0x01020304 }, if b % 2 == 0 { 0 } else { 3 + b as u32 })) }      // flow info and scope id are not part of the encoding
    fn show(&self, o: &mut String) { show2(o, self.ip(), &self.port()) }
}

impl<T: V> V for Range<T> {
    fn desc(g: bool) -> String { format!("fields({},{})", T::desc(g), T::desc(g)) }
    fn parse(p: &mut P) -> Option<Self> { parse2::<T, T>(p).map(|(start, end)| Range { start, end }) }
    fn show(&self, o: &mut String) { show2(o, &self.start, &self.end) }
}

impl<T: V> V for RangeInclusive<T> {
    fn desc(g: bool) -> String { format!("fields({},{})", T::desc(g), T::desc(g)) }
    fn parse(p: &mut P) -> Option<Self> { parse2::<T, T>(p).map(|(a, b)| RangeInclusive::new(a, b)) }
    fn show(&self, o: &mut String) { show2(o, self.start(), self.end()) }
}

impl<T: V> V for RangeFrom<T> {
    fn desc(g: bool) -> String { format!("fields({})", T::desc(g)) }
    fn parse(p: &mut P) -> Option<Self> { parse1::<T>(p).map(|start| RangeFrom { start }) }
    fn show(&self, o: &mut String) { show1(o, &self.start) }
}

impl<T: V> V for RangeTo<T> {
    fn desc(g: bool) -> String { format!("fields({})", T::desc(g)) }
    fn parse(p: &mut P) -> Option<Self> { parse1::<T>(p).map(|end| RangeTo { end }) }
    fn show(&self, o: &mut String) { show1(o, &self.end) }
}

impl<T: V> V for RangeToInclusive<T> {
    fn desc(g: bool) -> String { format!("fields({})", T::desc(g)) }
    fn parse(p: &mut P) -> Option<Self> { parse1::<T>(p).map(|end| RangeToInclusive { end }) }
    fn show(&self, o: &mut String) { show1(o, &self.end) }
}

// ---- time

impl V for Duration {
    fn desc(_: bool) -> String { "duration".into() }
    fn parse(p: &mut P) -> Option<Self> {
        let (s, n) = parse2::<u64, u32>(p)?;
        if n >= 1_000_000_000 { return None }
        Some(Duration::new(s, n))
    }
    fn show(&self, o: &mut String) { show2(o, &self.as_secs(), &self.subsec_nanos()) }
}

impl V for SystemTime {
    fn desc(_: bool) -> String { "systime".into() }
    fn parse(p: &mut P) -> Option<Self> { UNIX_EPOCH.checked_add(Duration::parse(p)?) }
    fn show(&self, o: &mut String) {
        match self.duration_since(UNIX_EPOCH) { Ok(d) => d.show(o), Err(_) => o.push_str("pre-epoch") }
    }
}

// ---- sequences

macro_rules! v_seq { ($($t:ident),*) => {$(
    impl<T: V> V for $t<T> {
        fn desc(g: bool) -> String { format!("seq({})", T::desc(g)) }
        fn parse(p: &mut P) -> Option<Self> { p.list(T::parse).map(|v| v.into_iter().collect()) }
        fn show(&self, o: &mut String) { show_list(o, self.iter()) }
    }
)*}}
v_seq!(Vec, LinkedList);

/// A `VecDeque` is built so that its ring buffer wraps around (the front half is pushed to the
/// front, the back half to the back): the logical order is the given one, the storage is not contiguous.
impl<T: V> V for VecDeque<T> {
    fn desc(g: bool) -> String { format!("seq({})", T::desc(g)) }
    fn parse(p: &mut P) -> Option<Self> {
        let v = p.list(T::parse)?;
        let n = v.len();
        let mut d = VecDeque::with_capacity(n.max(2));
        let mut front: Vec<T> = Vec::new();
        let mut back: Vec<T> = Vec::new();
        for (i, x) in v.into_iter().enumerate() { if i < n / 2 { front.push(x) } else { back.push(x) } }
        for x in back { d.push_back(x) }
        for x in front.into_iter().rev() { d.push_front(x) }
        Some(d)
    }
    fn show(&self, o: &mut String) { show_list(o, self.iter()) }
}

impl<T: V> V for Box<[T]> {
    fn desc(g: bool) -> String { format!("seq({})", T::desc(g)) }
    fn parse(p: &mut P) -> Option<Self> { p.list(T::parse).map(Vec::into_boxed_slice) }
    fn show(&self, o: &mut String) { show_list(o, self.iter()) }
}

impl<T: V + Clone> V for Cow<'static, [T]> {
    fn desc(g: bool) -> String { format!("seq({})", T::desc(g)) }
    fn parse(p: &mut P) -> Option<Self> { p.list(T::parse).map(Cow::Owned) }
    fn show(&self, o: &mut String) { show_list(o, self.iter()) }
}

impl<T: V + Ord> V for BTreeSet<T> {
    fn desc(g: bool) -> String { format!("{}({})", if g { "set" } else { "seq" }, T::desc(g)) }
    fn parse(p: &mut P) -> Option<Self> { p.list(T::parse).map(|v| v.into_iter().collect()) }
    fn show(&self, o: &mut String) { show_list(o, self.iter()) }
}

impl<T: V + Eq + std::hash::Hash> V for HashSet<T> {
    fn desc(g: bool) -> String { format!("uset({})", T::desc(g)) }
    fn parse(p: &mut P) -> Option<Self> { p.list(T::parse).map(|v| v.into_iter().collect()) }
    fn show(&self, o: &mut String) {
        show_sorted(o, self.iter().map(|x| { let mut s = String::new(); x.show(&mut s); s }).collect(), true, '[', ']')
    }
    fn canon(b: Vec<u8>) -> Vec<u8> { canon_unordered(b, 1) }
}

impl<T: V + Ord> V for BinaryHeap<T> {
    fn desc(g: bool) -> String { format!("{}({})", if g || BINARY_HEAP_BAG { "ubag" } else { "uset" }, T::desc(g)) }
    fn parse(p: &mut P) -> Option<Self> { p.list(T::parse).map(|v| v.into_iter().collect()) }
    fn show(&self, o: &mut String) {
        show_sorted(o, self.iter().map(|x| { let mut s = String::new(); x.show(&mut s); s }).collect(), !BINARY_HEAP_BAG, '[', ']')
    }
    fn canon(b: Vec<u8>) -> Vec<u8> { canon_unordered(b, 1) }
}

impl<T: V, const N: usize> V for [T; N] {
    fn desc(g: bool) -> String { format!("arr({},{})", N, T::desc(g)) }
    fn parse(p: &mut P) -> Option<Self> { <[T; N]>::try_from(p.list(T::parse)?).ok() }
    fn show(&self, o: &mut String) { show_list(o, self.iter()) }
}

// ---- maps

fn parse_entry<K: V, W: V>(p: &mut P) -> Option<(K, W)> {
    let k = K::parse(p)?;
    p.eat(b':')?;
    let v = W::parse(p)?;
    Some((k, v))
}

fn show_entry<K: V, W: V>(o: &mut String, k: &K, v: &W) { k.show(o); o.push(':'); v.show(o) }

impl<K: V + Ord, W: V> V for BTreeMap<K, W> {
    fn desc(g: bool) -> String { format!("map({},{})", K::desc(g), W::desc(g)) }
    fn parse(p: &mut P) -> Option<Self> { p.entries(parse_entry::<K, W>).map(|v| v.into_iter().collect()) }
    fn show(&self, o: &mut String) {
        o.push('{');
        for (i, (k, v)) in self.iter().enumerate() { if i > 0 { o.push(',') } show_entry(o, k, v) }
        o.push('}')
    }
}

impl<K: V + Eq + std::hash::Hash, W: V> V for HashMap<K, W> {
    fn desc(g: bool) -> String { format!("umap({},{})", K::desc(g), W::desc(g)) }
    fn parse(p: &mut P) -> Option<Self> { p.entries(parse_entry::<K, W>).map(|v| v.into_iter().collect()) }
    fn show(&self, o: &mut String) {
        // entries sorted by their whole printed text `k:v`; keys are unique already
        show_sorted(o, self.iter().map(|(k, v)| { let mut s = String::new(); show_entry(&mut s, k, v); s }).collect(), false, '{', '}')
    }
    fn canon(b: Vec<u8>) -> Vec<u8> { canon_unordered(b, 2) }
}

// ---- tuples

macro_rules! v_tuple { ($($T:ident $i:tt),+) => {
    impl<$($T: V),+> V for ($($T,)+) {
        fn desc(g: bool) -> String { let v: Vec<String> = vec![$($T::desc(g)),+]; format!("tup({})", v.join(",")) }
        #[allow(unused_assignments)]
        fn parse(p: &mut P) -> Option<Self> {
            p.eat(b'[')?;
            let mut first = true;
            let r = ($({ if !first { p.eat(b',')? } first = false; $T::parse(p)? },)+);
            p.eat(b']')?;
            Some(r)
        }
        #[allow(unused_assignments)]
        fn show(&self, o: &mut String) {
            o.push('[');
            let mut first = true;
            $( if !first { o.push(',') } first = false; self.$i.show(o); )+
            o.push(']')
        }
    }
}}
v_tuple!(A 0);
v_tuple!(A 0, B 1);
v_tuple!(A 0, B 1, C 2);
v_tuple!(A 0, B 1, C 2, D 3);
v_tuple!(A 0, B 1, C 2, D 3, E 4);
v_tuple!(A 0, B 1, C 2, D 3, E 4, F 5);
v_tuple!(A 0, B 1, C 2, D 3, E 4, F 5, G 6);
v_tuple!(A 0, B 1, C 2, D 3, E 4, F 5, G 6, H 7);
v_tuple!(A 0, B 1, C 2, D 3, E 4, F 5, G 6, H 7, I 8);
v_tuple!(A 0, B 1, C 2, D 3, E 4, F 5, G 6, H 7, I 8, J 9);
v_tuple!(A 0, B 1, C 2, D 3, E 4, F 5, G 6, H 7, I 8, J 9, K 10);
v_tuple!(A 0, B 1, C 2, D 3, E 4, F 5, G 6, H 7, I 8, J 9, K 10, L 11);
v_tuple!(A 0, B 1, C 2, D 3, E 4, F 5, G 6, H 7, I 8, J 9, K 10, L 11, M 12);
v_tuple!(A 0, B 1, C 2, D 3, E 4, F 5, G 6, H 7, I 8, J 9, K 10, L 11, M 12, N 13);
v_tuple!(A 0, B 1, C 2, D 3, E 4, F 5, G 6, H 7, I 8, J 9, K 10, L 11, M 12, N 13, O 14);
v_tuple!(A 0, B 1, C 2, D 3, E 4, F 5, G 6, H 7, I 8, J 9, K 10, L 11, M 12, N 13, O 14, Q 15);

// ---- tagged, transparent wrappers

impl<const N: u64, T: V> V for Tagged<N, T> {
    fn desc(g: bool) -> String { format!("tagged({},{})", N, T::desc(g)) }
    fn parse(p: &mut P) -> Option<Self> { T::parse(p).map(Tagged::new) }
    fn show(&self, o: &mut String) { self.value().show(o) }
}

impl<T: V> V for Box<T> {
    fn desc(g: bool) -> String { T::desc(g) }
    fn parse(p: &mut P) -> Option<Self> { T::parse(p).map(Box::new) }
    fn show(&self, o: &mut String) { (**self).show(o) }
}

impl<T: V> V for Wrapping<T> {
    fn desc(g: bool) -> String { T::desc(g) }
    fn parse(p: &mut P) -> Option<Self> { T::parse(p).map(Wrapping) }
    fn show(&self, o: &mut String) { self.0.show(o) }
}

impl<T: V + Copy> V for Cell<T> {
    fn desc(g: bool) -> String { T::desc(g) }
    fn parse(p: &mut P) -> Option<Self> { T::parse(p).map(Cell::new) }
    fn show(&self, o: &mut String) { self.get().show(o) }
}

impl<T: V> V for RefCell<T> {
    fn desc(g: bool) -> String { T::desc(g) }
    fn parse(p: &mut P) -> Option<Self> { T::parse(p).map(RefCell::new) }
    fn show(&self, o: &mut String) { self.borrow().show(o) }
}

// ------------------------------------------------------------------------------------------ ops

fn tenc_t<T: V + Encode<()> + CborLen<()>>(val: &str) -> String {
    let mut p = P::new(val);
    let v = match T::parse(&mut p) { Some(v) if p.done() => v, _ => return "bad-op".into() };
    let n = minicbor::len(&v);
    match minicbor::to_vec(&v) {
        Ok(b) => format!("{} len={}", hex(&T::canon(b)), n),
        Err(e) => format!("err {} len={}", eclass(&e), n)
    }
}

/// `tretry <type> <value>`: ONE object encoded again and again, failed attempts in between (slices that end after 0, 1, 2, .. bytes, at
/// every cut up to 24 and at len-1): `same <hex>` when every complete encoding of the object equals the first and every short slice was
/// refused, else what differed.  (Values with interior mutability — Cell, RefCell, atomics — are where an attempt could leave a trace.)
fn tretry_t<T: V + Encode<()> + CborLen<()>>(val: &str) -> String {
    let mut p = P::new(val);
    let v = match T::parse(&mut p) { Some(v) if p.done() => v, _ => return "bad-op".into() };
    let first = match minicbor::to_vec(&v) { Ok(b) => b, Err(e) => return format!("err {}", eclass(&e)) };
    let n = first.len();
    let mut cuts: Vec<usize> = (0 .. n.min(24)).collect();
    if n > 0 { cuts.push(n - 1) }
    for c in cuts {
        let mut buf = vec![0u8; c];
        if minicbor::encode(&v, &mut buf[..]).is_ok() { return format!("short-accepted cut={}", c) }
        match minicbor::to_vec(&v) {
            Ok(b) if b == first => {}
            Ok(b) => return format!("diff cut={} {} was {}", c, hex(&b), hex(&first)),
            Err(e) => return format!("err-after cut={} {}", c, eclass(&e))
        }
        if minicbor::len(&v) != n { return format!("len-diff cut={} {}", c, minicbor::len(&v)) }
    }
    format!("same {}", hex(&T::canon(first)))
}

/// `tsink <type> <value>`: the value's `Encode` impl into bounded sinks of every capacity 0 ..= len + 1 (all of them up to 48 bytes, then a
/// sample): a plain `&mut [u8]` and a `Cursor<&mut [u8]>`.  It must succeed exactly when the capacity is at least the length of the
/// encoding; a failure must be a WRITE error; what was accepted is a prefix of the encoding, nothing beyond the capacity is touched.
/// `fits <len>` or the first discrepancy.
fn tsink_t<T: V + Encode<()> + CborLen<()>>(val: &str) -> String {
    use minicbor::encode::write::Cursor;
    let mut p = P::new(val);
    let v = match T::parse(&mut p) { Some(v) if p.done() => v, _ => return "bad-op".into() };
    let full = match minicbor::to_vec(&v) { Ok(b) => b, Err(e) => return format!("err {}", eclass(&e)) };
    let n = full.len();
    let mut caps: Vec<usize> = (0 ..= n.min(48)).collect();
    for c in [n / 2, n.saturating_sub(2), n.saturating_sub(1), n, n + 1] { if !caps.contains(&c) { caps.push(c) } }
    for cap in caps {
        // plain slice (fills what fits? no: all or nothing per write call; whatever it does, the written part is a prefix)
        let mut buf = vec![0xEEu8; cap + 8];
        let (head, canary) = buf.split_at_mut(cap);
        let mut sl: &mut [u8] = head;
        let r = minicbor::encode(&v, &mut sl);
        let room = sl.len();
        let written = cap - room;
        if canary.iter().any(|b| *b != 0xEE) { return format!("canary slice cap={}", cap) }
        match r {
            Ok(()) => { if cap < n || written != n || buf[.. n] != full[..] { return format!("slice cap={} accepted although {} bytes are needed / wrote {}", cap, n, written) } }
            Err(e) => {
                if cap >= n { return format!("slice cap={} refused although {} bytes fit: {}", cap, n, eclass(&e)) }
                if !e.is_write() { return format!("slice cap={} not-a-write-error {}", cap, eclass(&e)) }
                if written > cap || buf[.. written] != full[.. written] { return format!("slice cap={} accepted bytes are not a prefix ({} written)", cap, written) }
            }
        }
        let mut buf = vec![0xEEu8; cap + 8];
        let (head, canary) = buf.split_at_mut(cap);
        let mut cur = Cursor::new(&mut head[..]);
        let r = minicbor::encode(&v, &mut cur);
        let pos = cur.position();
        if canary.iter().any(|b| *b != 0xEE) { return format!("canary cursor cap={}", cap) }
        match r {
            Ok(()) => { if cap < n || pos != n || buf[.. n] != full[..] { return format!("cursor cap={} accepted although {} bytes are needed / position {}", cap, n, pos) } }
            Err(e) => {
                if cap >= n { return format!("cursor cap={} refused although {} bytes fit: {}", cap, n, eclass(&e)) }
                if !e.is_write() { return format!("cursor cap={} not-a-write-error {}", cap, eclass(&e)) }
                if pos > cap || buf[.. pos] != full[.. pos] { return format!("cursor cap={} accepted bytes are not a prefix (position {})", cap, pos) }
            }
        }
    }
    format!("fits {}", n)
}

thread_local! { pub static PLAIN: std::cell::Cell<bool> = std::cell::Cell::new(false); }

fn tdec_t<T: V + Decode<'static, ()>>(h: &str) -> String {
    let input = match unhex(h) { Some(b) => arena_put(b), None => return "bad-op".into() };
    let mut d = Decoder::new(input);
    let (res, brief) = match d.decode::<T>() {
        Ok(v) => { let mut s = String::new(); v.show(&mut s); (format!("ok {} {}", s, d.position()), format!("ok {}", s)) }
        Err(e) => (format!("err {} {}", dclass(&e), d.position()), format!("err {}", dclass(&e)))
    };
    if PLAIN.with(|p| p.get()) { return res }      // `tdecm` measures the allocations of ONE decode
    // the one-shot entry points are the same decode on a fresh decoder: same value or same error class
    let via = |r: Result<T, minicbor::decode::Error>| match r {
        Ok(v) => { let mut s = String::new(); v.show(&mut s); format!("ok {}", s) }
        Err(e) => format!("err {}", dclass(&e))
    };
    let a = via(minicbor::decode::<T>(input));
    if a != brief { return format!("entry-mismatch minicbor::decode {} vs {}", a, res) }
    let b = via(minicbor::decode_with::<(), T>(input, &mut ()));
    if b != brief { return format!("entry-mismatch minicbor::decode_with {} vs {}", b, res) }
    res
}

fn no_dec(_: &str) -> String { "bad-op".into() }

fn rustname(s: &str) -> String {
    s.chars().filter(|c| !c.is_whitespace()).collect::<String>().replace("'static,", "").replace("'static", "")
}

pub struct Entry { pub name: String, pub desc: String, pub gdesc: String, pub flags: &'static str, enc: fn(&str) -> String, dec: fn(&str) -> String, retry: fn(&str) -> String, sink: fn(&str) -> String }

macro_rules! registry {
    ($( $(#[$flag:ident])? $t:ty;)*) => {
        pub fn registry() -> Vec<Entry> { vec![$( registry!(@entry $($flag)? ; $t) ),*] }
    };
    (@entry ; $t:ty) => { Entry { name: rustname(stringify!($t)), desc: <$t as V>::desc(false), gdesc: <$t as V>::desc(true), flags: "-", enc: tenc_t::<$t>, dec: tdec_t::<$t>, retry: tretry_t::<$t>, sink: tsink_t::<$t> } };
    (@entry enconly ; $t:ty) => { Entry { name: rustname(stringify!($t)), desc: <$t as V>::desc(false), gdesc: <$t as V>::desc(true), flags: "enconly", enc: tenc_t::<$t>, dec: no_dec, retry: tretry_t::<$t>, sink: tsink_t::<$t> } };
}

type Big16 = (u8, u16, u32, u64, i8, i16, i32, i64, bool, char, String, (), Option<u8>, Vec<u8>, Int, Tag);

registry! {
    // integers, scalars
    u8; u16; u32; u64; i8; i16; i32; i64; usize; isize; Int; bool; char; f32; f64; Tag; (); PhantomData<u8>;
    NonZeroU8; NonZeroU16; NonZeroU32; NonZeroU64; NonZeroUsize; NonZeroI8; NonZeroI16; NonZeroI32; NonZeroI64; NonZeroIsize;
    AtomicBool; AtomicU8; AtomicU16; AtomicU32; AtomicU64; AtomicUsize; AtomicI8; AtomicI16; AtomicI32; AtomicI64; AtomicIsize;
    // text
    String; Box<str>; Cow<'static, str>; PathBuf; Box<Path>; Cow<'static, Path>; &'static str; &'static Path;
    // bytes
    ByteVec; Cow<'static, ByteSlice>; &'static ByteSlice;
    ByteArray<0>; ByteArray<1>; ByteArray<4>; ByteArray<16>; ByteArray<23>; ByteArray<24>; ByteArray<32>; ByteArray<256>;
    ByteArray<255>; ByteArray<65535>; ByteArray<65536>; ByteArray<70000>;            // (whatever is computed from N at compile time)
    CString; Cow<'static, CStr>; &'static CStr;
    // transparent wrappers
    (u8, Option<u8>); (Option<u32>,); (u8, (Option<u8>,)); Vec<(u8, Option<bool>)>; (Option<u8>, Option<String>, Option<bool>); (u8, Option<u8>, u8, Option<u8>);
    Wrapping<u16>; Wrapping<i64>; Wrapping<u8>; Wrapping<i8>; Wrapping<u32>; Wrapping<i32>; Wrapping<i16>; Wrapping<u64>; Wrapping<usize>; Wrapping<isize>; Cell<u32>; Cell<Option<i8>>; RefCell<String>; RefCell<Vec<u8>>; Box<u64>; Box<Vec<Option<bool>>>;
    Cow<'static, [u8]>; Box<Cell<Wrapping<i16>>>;
    // option / result
    Option<u8>; Option<u64>; Option<i32>; Option<bool>; Option<String>; Option<Vec<u8>>; Option<()>; Option<f64>; Option<Option<u8>>;
    Option<Tagged<7, u8>>; Option<&'static str>; Option<Duration>; Option<SocketAddr>; Option<ByteVec>;
    // nil-capable values behind wrappers that are not themselves nil (a tag between two Options keeps them apart)
    Option<Tagged<1, Option<u8>>>; Vec<Option<Tagged<7, Option<bool>>>>; Tagged<2, Option<Tagged<3, Option<u16>>>>; (Option<Tagged<9, Option<String>>>, u8);
    BTreeMap<u8, Option<Tagged<4, Option<i8>>>>; Result<Option<Tagged<5, Option<u8>>>, Tagged<6, Option<u8>>>;
    Result<u8, String>; Result<(), Int>; Result<Vec<u16>, Option<bool>>; Result<Result<u8, i8>, u64>;
    // sequences
    Vec<u8>; Vec<u64>; Vec<i16>; Vec<bool>; Vec<String>; Vec<Option<u8>>; Vec<Vec<u8>>; Vec<Duration>; Vec<f32>; Vec<(u8, i8)>;
    Vec<&'static str>; Vec<IpAddr>; Vec<SystemTime>; Vec<BTreeSet<u8>>;
    VecDeque<u32>; VecDeque<Option<String>>; LinkedList<i64>; LinkedList<ByteVec>;
    BTreeSet<u8>; BTreeSet<i32>; BTreeSet<String>; BTreeSet<Int>; BTreeSet<(u8, bool)>; BTreeSet<ByteVec>; BTreeSet<char>;
    #[enconly] Box<[u16]>;
    // zero-sized elements (whatever a collection computes from size_of::<T>() or pre-allocates per element)
    Vec<()>; VecDeque<PhantomData<u8>>; LinkedList<()>; BinaryHeap<()>; Vec<[u8; 0]>; Vec<[(); 2]>; [(); 3]; [PhantomData<u8>; 2];
    BTreeMap<u8, ()>; HashMap<u16, ()>; Option<Vec<()>>; HashSet<()>; BTreeSet<()>; HashMap<(), ()>; BTreeMap<(), u8>; BinaryHeap<PhantomData<u8>>;
    // unordered (top level only)
    HashSet<i32>; HashSet<String>; HashSet<u64>; HashSet<(u8, bool)>;
    BinaryHeap<u8>; BinaryHeap<i64>; BinaryHeap<String>;
    HashMap<u16, String>; HashMap<String, Vec<u8>>; HashMap<i8, Option<u32>>; HashMap<ByteVec, bool>;
    // fixed-size arrays
    [u8; 0]; [u8; 1]; [u16; 2]; [Option<u16>; 3]; [String; 4]; [u8; 16]; [i32; 25]; [Vec<u8>; 2]; [[u8; 2]; 3];
    // tuples, every arity
    (u8,); (u8, i8); (u8, (i8, String), Vec<bool>); (u8, u16, u32, u64); (i8, i16, i32, i64, bool);
    (bool, char, f32, f64, String, ByteVec); (u8, i8, u16, i16, u32, i32, u64);
    (Option<u8>, Option<u16>, Option<u32>, Option<u64>, Option<i8>, Option<i16>, Option<i32>, Option<i64>);
    (u8, u8, u8, u8, u8, u8, u8, u8, u8); (u64, i64, u64, i64, u64, i64, u64, i64, u64, i64);
    (bool, u8, bool, u8, bool, u8, bool, u8, bool, u8, bool);
    (String, u8, String, u8, String, u8, String, u8, String, u8, String, u8);
    (i8, i8, i8, i8, i8, i8, i8, i8, i8, i8, i8, i8, i8);
    (u16, (), u16, (), u16, (), u16, (), u16, (), u16, (), u16, ());
    (Option<bool>, u32, Option<bool>, u32, Option<bool>, u32, Option<bool>, u32, Option<bool>, u32, Option<bool>, u32, Option<bool>, u32, Option<bool>);
    Big16;
    // maps
    BTreeMap<u8, u8>; BTreeMap<String, u64>; BTreeMap<i32, Vec<String>>;
    BTreeMap<String, Vec<Option<(u8, Tagged<5, String>)>>>; BTreeMap<u64, BTreeMap<u8, bool>>; BTreeMap<(u8, u8), String>;
    BTreeMap<Int, Int>; BTreeMap<&'static str, &'static ByteSlice>; BTreeMap<String, BTreeSet<u8>>;
    // tagged
    Tagged<0, String>; Tagged<5, u8>; Tagged<23, Vec<u8>>; Tagged<24, bool>; Tagged<1000, Option<u8>>; Tagged<4294967296, (u8, u8)>;
    Tagged<18446744073709551615, u8>; Tagged<55799, u32>; Option<Tagged<55799, String>>; Tagged<55799, Tagged<55799, Vec<u8>>>; (Tag, u8); Tagged<5, Tagged<6, u16>>; Tagged<65536, &'static CStr>; Tagged<7, Tagged<7, u8>>; Tagged<7, Option<Tagged<7, u8>>>; Tagged<24, Tag>; Tagged<32, (Tag, Tag)>; Tagged<1, Box<Tagged<1, String>>>; Tagged<6, Tagged<5, Tagged<6, bool>>>;
    // ranges, bounds
    Range<i64>; Range<u8>; Range<Option<u8>>; RangeFrom<u32>; RangeTo<i16>; RangeToInclusive<u64>; RangeInclusive<i8>; RangeInclusive<String>;
    Bound<u32>; Bound<String>; Bound<()>; Bound<Option<u8>>;
    // time, net
    Duration; SystemTime; Ipv4Addr; Ipv6Addr; IpAddr; SocketAddrV4; SocketAddrV6; SocketAddr;
}

thread_local! { static REG: HashMap<String, (fn(&str) -> String, fn(&str) -> String, fn(&str) -> String, fn(&str) -> String)> =
    registry().into_iter().map(|e| (e.name, (e.enc, e.dec, e.retry, e.sink))).collect(); }

/// `hcore tlist`: `<rustname> <desc> <gendesc> <flags>` per registered instantiation.
pub fn tlist() {
    for e in registry() { println!("{} {} {} {}", e.name, e.desc, e.gdesc, e.flags) }
}

/// builds the registry (lazily initialised) so that its own allocations are not attributed to the first measured operation
pub fn warm() { REG.with(|r| { let _ = r.len(); }) }
pub fn run_enc(w: &[&str]) -> String { run(w, 0) }
pub fn run_dec(w: &[&str]) -> String { run(w, 1) }
pub fn run_retry(w: &[&str]) -> String { run(w, 2) }
pub fn run_sink(w: &[&str]) -> String { run(w, 3) }

fn run(w: &[&str], which: u8) -> String {
    if w.len() != 2 { return "bad-op".into() }
    let f = match REG.with(|r| r.get(w[0]).copied()) { Some((e, d, t, k)) => match which { 0 => e, 1 => d, 2 => t, _ => k }, None => return "bad-op".into() };
    arena_clear();
    let r = f(w[1]);
    arena_clear();
    r
}

/// `tencpath <PathBuf|BoxPath|RefPath|VecPathBuf> <hex>`: a path made from RAW bytes (not necessarily UTF-8) through
/// `OsString::from_vec`, encoded with `to_vec` next to `minicbor::len`: `<hex> len=<n>` or `err <class> len=<n>`.
pub fn run_encpath(w: &[&str]) -> String {
    use std::os::unix::ffi::OsStringExt;
    if w.len() != 2 { return "bad-op".into() }
    let raw = match unhex(w[1]) { Some(b) => b, None => return "bad-op".into() };
    let pb = PathBuf::from(std::ffi::OsString::from_vec(raw));
    fn go<T: minicbor::Encode<()> + minicbor::CborLen<()>>(x: &T) -> String {
        let n = minicbor::len(x);
        match minicbor::to_vec(x) { Ok(b) => format!("{} len={}", hex(&b), n), Err(e) => format!("err {} len={}", eclass(&e), n) }
    }
    match w[0] {
        "PathBuf" => go(&pb),
        "BoxPath" => go(&pb.clone().into_boxed_path()),
        "RefPath" => go(&pb.as_path()),
        "VecPathBuf" => go(&vec![PathBuf::from("/etc/hosts"), pb]),
        "OptPathBuf" => go(&Some(pb)),
        _ => "bad-op".into()
    }
}
