#!/usr/bin/env python3
"""development aid: writes one prompt per property for a fresh seeding sub-agent.
usage: tools/gen_seed_prompts.py <round-tag> [ids…]     -> /tmp/prompts<tag>/<id>.txt, creates worktrees /tmp/wt<tag>/<id>
The prompt contains the property's text only (from properties.jsonl) and one-line descriptions of the changes already
tried for it (so that a new round looks elsewhere); nothing else from /verif is shown to the agent."""
import json, os, subprocess, sys, glob

tag = sys.argv[1]
ids = sys.argv[2:]
ROOT = os.path.dirname(os.path.dirname(os.path.abspath(__file__)))
props = {p["id"]: p for p in map(json.loads, open(os.path.join(ROOT, "properties.jsonl")))}
ids = ids or sorted(props)
os.makedirs(f"/tmp/prompts{tag}", exist_ok=True)
FOCUS = ("a MULTI-STEP sequence of operations on one object (state carried from one call to the next, including what a FAILED call leaves behind), TWO COOPERATING SITES that each "
         "look fine alone (e.g. a helper changed in one file and a caller relying on the old behaviour in another), an interaction between two features / attributes / type parameters / "
         "nesting levels that only appears in combination, a dependence on the amount or shape of data seen earlier in the same document or on the same thread, a rarely used public entry "
         "point (a second API for the same thing, an iterator adaptor, a `_with` variant, a constructor variant, a trait impl for an uncommon std type or for a reference / smart pointer), "
         "a different cargo feature configuration, an arithmetic edge that needs a particular magnitude AND a particular position in the data, "
         "a rarely used attribute / option / trait method of the public API in combination with an ordinary one, a generic parameter instantiated with an unusual "
         "but legal type (zero-sized, a reference, a wrapper, a type with a lifetime), or behaviour that only shows when an object is used AGAIN after an error, "
         "a cancellation, a partial iteration or a reconfiguration (set_* / into_parts / with_* / probe / set_position), a trait impl OTHER than Encode / Decode that the "
         "property silently relies on (PartialEq / Ord / Hash / Clone / Default / From / TryFrom / Display / size_hint / AsRef / Deref of the library's own types), "
         "something that differs between a debug and a release build, or a piece of state kept OUTSIDE the object (thread-local, static, the sink) that survives a failed call")
for i in ids:
    p = props[i]
    wt = f"/tmp/wt{tag}/{i}"
    out = f"/tmp/seed{tag}/{i}"
    if not os.path.isdir(wt):
        os.makedirs(os.path.dirname(wt), exist_ok=True)
        subprocess.run(["git", "-C", "/repo", "worktree", "add", "-q", "--detach", wt, "HEAD"], check=True)
    for k in (1, 2):
        os.makedirs(f"{out}/{k}", exist_ok=True)
    tried = []
    for d in sorted(glob.glob(os.path.join(ROOT, "seeded", i + "-*"))):
        try:
            tried.append(json.load(open(os.path.join(d, "meta.json")))["summary"][:330].replace("\n", " "))
        except Exception:
            pass
    tried_txt = " ".join(f"({n + 1}) {t}…" for n, t in enumerate(tried))
    text = f"""You are helping to evaluate a verification effort by playing the role of a developer who introduces a subtle regression. Work ONLY inside the scratch git worktree {wt} (a checkout of the Rust repository twittner/minicbor: CBOR encoder/decoder with derive macros, I/O helpers and a serde bridge). Do NOT read or write anything under /verif or /repo, and do not look at other directories under /tmp except the ones named here. There is no network; always build with `CARGO_NET_OFFLINE=true CARGO_TARGET_DIR={wt}/target cargo ... --offline`.

The semantic property (this is everything you are told about it):

-----
{i} — {p['title']}

{p['statement']}

Quantification: {p['quantifier']['text']}

Code anchors: {json.dumps(p['anchors'])}
-----

TASK. Produce TWO different, independent changes to the library source (each one a separate patch against the clean HEAD of the worktree) such that each change:
 1. breaks the property above (for some inputs / sequences / schedules the property no longer holds on the patched code);
 2. still compiles, and the existing test suite still passes: `cargo test --workspace --no-fail-fast --offline` must give 0 failures with the patch applied (it passes on the clean tree: 54 unit/integration tests + 15 doc tests);
 3. looks like a plausible, realistic edit a maintainer could make (an optimisation, refactoring, 'simplification', clean-up, a well-meant strictness or leniency change, a new convenience), not sabotage; doc comments may be adjusted to match;
 4. needs something SPECIFIC to manifest. Earlier rounds already used plain boundary values and single unusual inputs; this time prefer the harder kinds: {FOCUS}. Most inputs and most usage must still behave exactly as before;
 5. is different in mechanism and location from these changes that were already tried for this property: {tried_txt}
 Also make the two changes different from each other (different functions / different mechanisms).

For each change k in {{1,2}} write into {out}/k/ :
 - patch.diff : output of `git diff` in the worktree (must apply with `git apply` to the clean HEAD);
 - demo.rs : ONE self-contained Rust integration-test file (with #[test] functions) that FAILS with the patch and PASSES without it. It will be copied to minicbor-tests/tests/seed_demo.rs and run with `cargo test -p minicbor-tests --features std,derive --test seed_demo --offline`. It can use the crate's dev-dependencies only (for minicbor-io / minicbor-serde behaviour put the file into that crate's tests/ directory instead, say so in "demo", and give the exact command). The demo should state the property instance it checks (expected vs got) in its assertion message;
 - meta.json : a JSON object with string fields "summary" (what was changed, where, the cover story, and why it breaks the property), "needs" (exactly what input / sequence / schedule / configuration is needed for the breakage to manifest, and what still behaves as before), "demo" (must contain the path of the tests directory used and the command), and "ran" (array of strings: the commands you actually ran and their observed results).

You must actually verify, for each change: (a) clean tree: demo passes; (b) patched tree: workspace suite passes with 0 failures AND demo fails. Record that in "ran". When finished, leave the worktree clean (`git checkout -- .` and delete the untracked demo test file you added; keeping {wt}/target is fine). Your final answer should be a short summary of the two changes and the verification results (it is read by a tool, keep it factual)."""
    open(f"/tmp/prompts{tag}/{i}.txt", "w").write(text)
    print(i, len(text), len(tried))
