#!/usr/bin/env python3
"""Confirms seeded changes (development aid): for each /tmp/seed/<P>/<k> given on the command line
  * apply patch.diff to a scratch worktree of /repo (never /repo itself),
  * the workspace test suite must still pass,
  * the demonstration must FAIL with the patch and PASS without it,
then copies patch.diff, demo.rs and an extended meta.json to /verif/seeded/<P>-<k>/."""
import json, os, shutil, subprocess, sys
WT = os.environ.get("SEED_CONFIRM_WT", "/tmp/wt/confirm")
ENV = dict(os.environ, CARGO_NET_OFFLINE="true", CARGO_TARGET_DIR=WT + "-target")

def sh(cmd, cwd=WT):
    p = subprocess.run(cmd, cwd=cwd, env=ENV, shell=True, stdout=subprocess.PIPE, stderr=subprocess.STDOUT, text=True)
    return p.returncode, p.stdout

def counts(out):
    p = f = 0
    for l in out.splitlines():
        if l.startswith("test result:"):
            w = l.split()
            p += int(w[3]); f += int(w[5])
    return p, f

def main():
    if not os.path.exists(WT):
        subprocess.run(["git", "-C", "/repo", "worktree", "add", "-q", "--detach", WT, "HEAD"], check=True)
    for sd in sys.argv[1:]:
        P, k = sd.rstrip("/").split("/")[-2:]
        sh("git checkout -q -- . && git clean -fdq")
        meta = json.load(open(os.path.join(sd, "meta.json")))
        rc, out = sh(f"git apply {sd}/patch.diff")
        if rc != 0:
            print(P, k, "PATCH DOES NOT APPLY", out[-300:]); continue
        rc, out = sh("cargo test --workspace --no-fail-fast --offline 2>&1")
        sp, sf = counts(out)
        compiled = "error: could not compile" not in out
        demo_txt = json.dumps(meta)
        runsh = os.path.join(sd, "demo", "run.sh")
        if os.path.exists(runsh):
            # a stand-alone demonstration program with its own run script (written against the seeding worktree /tmp/wt/<P>)
            owt = os.environ.get("SEED_WT_BASE", "/tmp/wt") + f"/{P}"
            sh("git checkout -q -- .", cwd=owt); sh(f"git apply {sd}/patch.diff", cwd=owt)
            rc1, out1 = sh(f"sh {runsh} 2>&1", cwd=os.path.dirname(runsh)); p1 = f1 = 0
            sh("git checkout -q -- .", cwd=owt)
            rc2, out2 = sh(f"sh {runsh} 2>&1", cwd=os.path.dirname(runsh)); p2 = f2 = 0
            democmd = f"sh {runsh} (builds the program against /tmp/wt/{P} in three feature configurations and diffs the transcripts)"
        else:
            if "minicbor-derive/tests" in demo_txt:
                dst_demo, democmd = "minicbor-derive/tests/seed_demo.rs", "cargo test -p minicbor-derive --test seed_demo --offline"
            elif "minicbor/tests" in demo_txt and "minicbor-tests" not in demo_txt.split("minicbor/tests")[0][-12:]:
                dst_demo, democmd = "minicbor/tests/seed_demo.rs", "cargo test -p minicbor --test seed_demo --offline"
            elif "minicbor-io/tests" in demo_txt:
                dst_demo, democmd = "minicbor-io/tests/seed_demo.rs", "cargo test -p minicbor-io --test seed_demo --offline"
            elif "minicbor-serde/tests" in demo_txt:
                dm = meta.get("demo", "")
                import re
                m = re.search(r"-p minicbor-serde --features ([a-z,]+)", dm)
                feats = (f"--features {m.group(1)} " if m else
                         "" if ("without features" in dm or "no features" in dm or "no-alloc" in dm) and "--features std" not in dm else "--features std ")
                dst_demo, democmd = "minicbor-serde/tests/seed_demo.rs", f"cargo test -p minicbor-serde {feats}--test seed_demo --offline"
            else:
                dst_demo, democmd = "minicbor-tests/tests/seed_demo.rs", "cargo test -p minicbor-tests --features std,derive --test seed_demo --offline"
            if os.environ.get("SEED_DEMO_CMD"):       # a demonstration that needs its own command (release build, other features)
                dst_demo, democmd = os.environ["SEED_DEMO_DST"], os.environ["SEED_DEMO_CMD"]
            os.makedirs(os.path.dirname(os.path.join(WT, dst_demo)), exist_ok=True)
            shutil.copy(os.path.join(sd, "demo.rs"), os.path.join(WT, dst_demo))
            rc1, out1 = sh(democmd + " 2>&1")
            p1, f1 = counts(out1)
            sh("git checkout -q -- .")      # the demo file is untracked and stays
            rc2, out2 = sh(democmd + " 2>&1")
            p2, f2 = counts(out2)
        ok = compiled and sf == 0 and sp >= 54 and rc1 != 0 and rc2 == 0
        print(f"{P}/{k}: suite {sp} passed {sf} failed; demo with patch rc={rc1} ({p1} passed, {f1} failed); without rc={rc2} ({p2} passed, {f2} failed) -> {'CONFIRMED' if ok else 'NOT CONFIRMED'}", flush=True)
        if ok:
            dst = f"/verif/seeded/{P}-{int(k) + int(os.environ.get('SEED_OFFSET', '0'))}"
            os.makedirs(dst, exist_ok=True)
            shutil.copy(os.path.join(sd, "patch.diff"), dst)
            shutil.copy(os.path.join(sd, "demo.rs"), dst)
            if os.path.isdir(os.path.join(sd, "demo")):
                shutil.copytree(os.path.join(sd, "demo"), os.path.join(dst, "demo"), dirs_exist_ok=True, ignore=shutil.ignore_patterns("target"))
            meta["property"] = P
            meta["confirmed_by_lead"] = {
                "worktree": "scratch git worktree of /repo at its HEAD (removed afterwards)",
                "ran": [f"git apply patch.diff; cargo test --workspace --no-fail-fast --offline -> {sp} passed, {sf} failed",
                        f"demo.rs copied to {dst_demo}; {democmd} with the patch -> exit {rc1} ({p1} passed, {f1} failed)",
                        f"same command after `git checkout -- .` (patch removed) -> exit {rc2} ({p2} passed, {f2} failed)"]}
            json.dump(meta, open(os.path.join(dst, "meta.json"), "w"), indent=1)
    sh("git checkout -q -- . && git clean -fdq")

main()
