#!/bin/sh
# usage: tools/clean_override.sh <worktree path used as VERIF_REPO>   removes the cargo target dirs the runner made for it
TAG=$(python3 -c "import hashlib,sys;print(hashlib.sha1(sys.argv[1].encode()).hexdigest()[:8])" "$1")
find /verif/harness -maxdepth 3 -type d -name "*-override-$TAG" -prune -exec rm -rf {} + 2>/dev/null
exit 0
