#!/usr/bin/env python3
"""For every confirmed seeded change under /verif/seeded/<P>-<k>/ run the quick check of its own property (and of the
properties listed in RELATED) against a scratch worktree with the patch applied (VERIF_REPO; /repo is never touched),
record which checks report a VIOLATION in meta.json ("detected_by") and write seeded/README.md."""
import json, os, re, subprocess, sys
ROOT = "/verif"
RELATED = {"C01": ["C11"], "C02": ["C04"], "C03": ["C13"], "C04": ["C02"], "C05": ["C11"], "C06": ["C02"], "C07": ["C13"], "C11": ["C13", "C03"], "C09": ["C08"], "C10": ["C08", "C06", "C09"], "C12": ["C11", "C20", "C17"], "C17": ["C18"], "C18": ["C17", "C20"], "C20": ["C06", "C13"]}

def run(cmd, **kw):
    return subprocess.run(cmd, shell=True, stdout=subprocess.PIPE, stderr=subprocess.STDOUT, text=True, **kw)

def main():
    only = sys.argv[1:]
    rows = []
    for d in sorted(os.listdir(f"{ROOT}/seeded")):
        sd = f"{ROOT}/seeded/{d}"
        if not os.path.isdir(sd) or not os.path.exists(f"{sd}/patch.diff"):
            continue
        meta = json.load(open(f"{sd}/meta.json"))
        P = d.split("-")[0]
        if not only or d in only or P in only:
            wt = f"/tmp/wt/matrix-{d}"
            run(f"git -C /repo worktree remove --force {wt}")
            run(f"git -C /repo worktree add -q --detach {wt} HEAD")
            ap = run(f"git apply {sd}/patch.diff", cwd=wt)
            det = {}
            if ap.returncode == 0:
                for c in [P] + RELATED.get(P, []):
                    for attempt in range(2):
                        r = run(f"VERIF_REPO={wt} ./check {c} quick", cwd=ROOT)
                        v = [l for l in r.stdout.splitlines() if l.startswith("VIOLATION")]
                        if r.returncode == 0 or v:
                            break         # a non-zero exit without a VIOLATION line is the machinery falling over (e.g. edited while it ran): once more
                        print(d, c, "exit", r.returncode, "without a verdict:", r.stdout[-400:], flush=True)
                    det[c] = {"exit": r.returncode, "violations": len(v), "with_failing_input": sum(1 for l in v if "no-failing-input-found" not in l),
                              "example": (v[0] if v else "")}
            else:
                det["patch"] = {"error": ap.stdout[-300:]}
            run(f"git -C /repo worktree remove --force {wt}")
            run(f"/verif/tools/clean_override.sh {wt}")
            meta["detected_by"] = det
            json.dump(meta, open(f"{sd}/meta.json", "w"), indent=1)
            print(d, {k: (v.get("violations"), v.get("with_failing_input")) for k, v in det.items()}, flush=True)
        rows.append((d, meta))
    import io
    with io.StringIO() as f:
        f.write("# Seeded changes and the checks that report them\n\nEach change compiles, passes the existing suite, and has a demonstration that fails with it and passes without "
                "(confirmed in a scratch worktree, see `confirmed_by_lead` in each meta.json). `detected_by` = quick checks run with the patch applied to a scratch worktree "
                "(`tools/seed_matrix.py`): number of VIOLATION lines / of those with a concrete failing input as replay.\n\n| seed | what | needs | detected by |\n|---|---|---|---|\n")
        for d, m in rows:
            det = m.get("detected_by", {})
            ds = "; ".join(f"{c}: {v.get('violations')} ({v.get('with_failing_input')} with input)" for c, v in det.items() if v.get("violations")) or "—"
            f.write(f"| {d} | {str(m.get('summary',''))[:260].replace('|','/')} | {str(m.get('needs',''))[:200].replace('|','/')} | {ds} |\n")

main()
