#!/bin/sh
# usage: tools/seedtest.sh <seed-dir-with-patch.diff> <check-id>...   (development aid)
# Applies the patch to a scratch worktree of /repo (never to /repo itself), runs the given checks with
# VERIF_REPO pointing at it, prints their verdict lines, and removes the worktree again.
set -u
SEED=$1; shift
WT=/tmp/wt/seedtest-$$
git -C /repo worktree add -q --detach $WT HEAD || exit 2
(cd $WT && git apply "$SEED/patch.diff") || { echo "PATCH DOES NOT APPLY"; git -C /repo worktree remove --force $WT; exit 2; }
for c in "$@"; do
  echo "== $c on $(basename $(dirname $SEED))/$(basename $SEED)"
  (cd /verif && VERIF_REPO=$WT ./check $c quick 2>&1 | grep -E "^VIOLATION|^KNOWN|\] (quick|thorough)" | cut -c1-300 | head -12)
done
git -C /repo worktree remove --force $WT
/verif/tools/clean_override.sh $WT
