/-
  C09 — re-framings of a derived encoding, as an executable relation on wire trees.

  `rf t v w = true`: the wire tree `w` (Wire.lean) is a *re-framing* of the derived encoding of
  the value `v` of type `t`: the same items in the same order, but
    * every head (integers, string / array / map lengths, tags, map keys, the variant index) at
      ANY width (validity of `w` — each argument fits its width — is a separate hypothesis),
    * every struct body, variant body and `Vec` given as a definite OR an indefinite-length
      array / map (`9f … ff`, `bf … ff`),
    * the two-element wrapper `[index, body]` of an enum likewise definite or indefinite (the
      generated enum decoder rejected the indefinite form until the repair of K8),
  with one restriction that the generated decoders impose:
    * strings stay definite (`String` / `&str` / byte strings are decoded with the definite
      accessors; chunked strings are rejected by design).
  Absent optional fields must be absent exactly as the encoder leaves them out (array: the array
  ends at the highest present index, gaps and nil fields are `null`; map: exactly the present
  fields, ascending) — this is `value w = specTy t v`, not a framing choice.

  Everything here is computable (`decide` works on concrete instances).
-/
import Minicbor.Derive

namespace Minicbor.Derive

/-- strip the expected tag (head of any width). -/
def untagW : Option Nat → WItem → Option WItem
  | none, w => some w
  | some t, .tag _ n x => if n == t then some x else none
  | some _, _ => none

def isNullW : WItem → Bool
  | .simple n => n == 22
  | _ => false

def isUintW (n : Nat) : WItem → Bool
  | .uint _ m => m == n
  | _ => false

def isIntW (i : Int) : WItem → Bool
  | .uint _ n => i == (n : Int)
  | .nint _ n => i == -1 - (n : Int)
  | _ => false

def isBoolW (b : Bool) : WItem → Bool
  | .simple n => n == (if b then 21 else 20)
  | _ => false

/-- strings: definite only, any head width. -/
def isTextW (b : Bytes) : WItem → Bool
  | .text _ b' => b == b'
  | _ => false

def isBytesW (b : Bytes) : WItem → Bool
  | .bytes _ b' => b == b'
  | _ => false

/-- the items of an array, definite (any width) or indefinite. -/
def arrItems : WItem → Option (List WItem)
  | .array _ xs => some xs
  | .arrayI xs => some xs
  | _ => none

def mapItems : WItem → Option (List WItem)
  | .map _ kvs => some kvs
  | .mapI kvs => some kvs
  | _ => none

/-- the entries of a map whose keys are unsigned integers: (key, key item, value item). -/
def entriesW : List WItem → Option (List (Nat × WItem × WItem))
  | [] => some []
  | .uint w n :: x :: rest => (entriesW rest).map ((n, .uint w n, x) :: ·)
  | _ => none

def all2 {α β : Type} (p : α → β → Bool) : List α → List β → Bool
  | [], [] => true
  | a :: as, b :: bs => p a b && all2 p as bs
  | _, _ => false

/-- the length of the array the encoder writes: up to the highest present index. -/
def arrLen (fs : Fields) (vs : List Val) : Nat :=
  match maxPresent (specFields fs vs) with
  | none => 0
  | some m => m + 1

/-- the keys of the map the encoder writes: the present fields, ascending. -/
def presentIdxs (fs : Fields) (vs : List Val) : List Nat :=
  ((sortP (encFields fs vs)).filter (fun p => !p.nil)).map (·.idx)

/-- positions of the array that belong to no field hold `null`. -/
def gapsNull (fs : Fields) (xs : List WItem) : Bool :=
  (List.range xs.length).all fun i =>
    (liveIdxs fs).contains i || (match xs[i]? with | some x => isNullW x | none => true)

/-- the container of a struct / variant body: shape, length / keys, gaps; returns the lookup
    "index ↦ item on the wire". -/
def bodyCells (enc : Encoding) (fs : Fields) (vs : List Val) (body : WItem) : Option (Nat → Option WItem) :=
  match enc with
  | .array =>
      (match arrItems body with
       | some xs => if xs.length == arrLen fs vs && gapsNull fs xs then some (fun i => xs[i]?) else none
       | none => none)
  | .map =>
      (match mapItems body with
       | some kvs =>
           (match entriesW kvs with
            | some es =>
                if es.map (·.1) == presentIdxs fs vs then some (fun i => (es.find? (fun e => e.1 == i)).map (·.2.2))
                else none
            | none => none)
       | none => none)

def isEmptyW (enc : Encoding) (body : WItem) : Bool :=
  match enc with
  | .array => (match arrItems body with | some [] => true | _ => false)
  | .map => (match mapItems body with | some [] => true | _ => false)

/-- the two items of an enum's wrapper `[index, body]`: a definite array of two (any head width) or —
    accepted since the repair of K8 — an indefinite-length one. -/
def pairItems : WItem → Option (WItem × WItem)
  | .array _ [kx, bx] => some (kx, bx)
  | .arrayI [kx, bx] => some (kx, bx)
  | _ => none

/-- the field's codec: the nil-aware custom codec writes `null` or an unsigned integer. -/
def rfWith (c : Codec) (rf : Val → WItem → Bool) (v : Val) (y : WItem) : Bool :=
  match c with
  | .nilu => (match v with
      | .int i => if i == 0 then isNullW y else isUintW i.toNat y
      | _ => false)
  | _ => rf v y

mutual
def rf : FTy → Val → WItem → Bool
  | .int _, .int i, w => isIntW i w
  | .bool, .bool b, w => isBoolW b w
  | .text _, .text b, w => isTextW b w
  | .blob _, .blob b, w => isBytesW b w
  | .option _, .none, w => isNullW w
  | .option t, .some v, w => !isNullW w && rf t v w
  | .vec t, .list vs, w =>
      (match arrItems w with
       | some xs => all2 (rf t) vs xs
       | none => false)
  | .struct a fs, .struct vs, w =>
      if a.transparent then rfOne fs vs w
      else (match untagW a.tag w with
        | some body =>
            (match bodyCells (a.enc.getD .array) fs vs body with
             | some cell => rfFields fs vs cell
             | none => false)
        | none => false)
  | .enum e vars, .enum k vs, w =>
      (match untagW e.tag w with
       | some w' => rfVars e vars k vs w'
       | none => false)
  | _, _, _ => false
termination_by structural t => t
/-- transparent struct: the single field, its codec, no tag. -/
def rfOne : Fields → List Val → WItem → Bool
  | [(a, t)], [v], w => rfWith a.codec (rf t) v w
  | _, _, _ => false
termination_by structural fs => fs
/-- every (non-skipped) field whose index is on the wire: its tag (any width), then its item. -/
def rfFields : Fields → List Val → (Nat → Option WItem) → Bool
  | (a, t) :: fs, v :: vs, cell =>
      (a.skip ||
        (match cell a.idx with
         | none => true
         | some x =>
             (match untagW a.tag x with
              | some y => rfWith a.codec (rf t) v y
              | none => false)))
      && rfFields fs vs cell
  | [], [], _ => true
  | _, _, _ => false
termination_by structural fs => fs
/-- the `k`-th variant: `index` alone (index_only), else the pair `[index, body]` (definite or indefinite). -/
def rfVars (e : EAttr) : Variants → Nat → List Val → WItem → Bool
  | [], _, _, _ => false
  | (va, fs) :: _, 0, vs, w =>
      if e.indexOnly then isUintW va.idx w
      else (match pairItems w with
        | some (kx, bx) =>
            isUintW va.idx kx &&
            (match untagW va.tag bx with
             | some body =>
                 (match va.shape with
                  | .unit => isEmptyW (va.enc.getD (e.enc.getD .array)) body
                  | _ =>
                      (match bodyCells (va.enc.getD (e.enc.getD .array)) fs vs body with
                       | some cell => rfFields fs vs cell
                       | none => false))
             | none => false)
        | none => false)
  | _ :: rest, k + 1, vs, w => rfVars e rest k vs w
termination_by structural vars => vars
end

/-! no indefinite-length (chunked) string anywhere in the tree -/
mutual
def noChunks : WItem → Bool
  | .bytesI _ => false
  | .textI _ => false
  | .array _ xs => noChunksAll xs
  | .arrayI xs => noChunksAll xs
  | .map _ kvs => noChunksAll kvs
  | .mapI kvs => noChunksAll kvs
  | .tag _ _ x => noChunks x
  | _ => true
def noChunksAll : List WItem → Bool
  | [] => true
  | x :: xs => noChunks x && noChunksAll xs
end

/-- `w` is a re-framing of the derived encoding of `v : t` (see the head of this file). -/
def reframes (t : FTy) (v : Val) (w : WItem) : Bool := rf t v w

end Minicbor.Derive
