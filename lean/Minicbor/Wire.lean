/-
  Wire: the RFC 8949 specification the theorems are stated against.
  * heads (major type, argument, width), the shortest ("preferred") head,
  * `WItem`: the parse tree of one well-formed encoded data item,
  * `encW`: the bytes of that parse tree,
  * `WItem.Valid`: which trees are well-formed encodings,
  * `Item` / `value`: the RFC 8949 §2 data model (widths / definiteness erased),
  * `encPref`: the preferred, definite-length serialisation (the reference encoder).
-/
import Minicbor.Prelude
import Minicbor.Utf8

namespace Minicbor

/-- how the argument of a head is carried: in the initial byte, or in 1/2/4/8 following bytes. -/
inductive Width where
  | w0 | w1 | w2 | w4 | w8
  deriving DecidableEq, Repr, Inhabited

namespace Width
def bytes : Width → Nat
  | w0 => 0 | w1 => 1 | w2 => 2 | w4 => 4 | w8 => 8
/-- additional information (low five bits of the initial byte). -/
def ai : Width → Nat → Nat
  | w0, n => n | w1, _ => 24 | w2, _ => 25 | w4, _ => 26 | w8, _ => 27
/-- the argument `n` is representable at this width. -/
def fits : Width → Nat → Bool
  | w0, n => n < 24
  | w1, n => n < 256
  | w2, n => n < 65536
  | w4, n => n < 4294967296
  | w8, n => n < 18446744073709551616
def all : List Width := [w0, w1, w2, w4, w8]
end Width

/-- a head: major type `maj` (0..7), argument `n`, carried at width `w`. -/
def headW (maj : Nat) (w : Width) (n : Nat) : Bytes :=
  u8 (maj * 32 + w.ai n) :: be w.bytes n

/-- the shortest width that can carry `n` (for `n < 2^64`). -/
def prefWidth (n : Nat) : Width :=
  if n < 24 then .w0 else if n < 256 then .w1 else if n < 65536 then .w2
  else if n < 4294967296 then .w4 else .w8

/-- the preferred (shortest) head. -/
def head (maj : Nat) (n : Nat) : Bytes := headW maj (prefWidth n) n

theorem prefWidth_fits (n : Nat) (h : n < 18446744073709551616) : (prefWidth n).fits n = true := by
  unfold prefWidth
  split
  · simp [Width.fits, *]
  · split
    · simp [Width.fits, *]
    · split
      · simp [Width.fits, *]
      · split <;> simp [Width.fits, *]

/-- the preferred head is the shortest head among all widths that fit. -/
theorem head_shortest (maj n : Nat) (w : Width) (h : w.fits n = true) :
    (head maj n).length ≤ (headW maj w n).length := by
  simp only [head, headW, List.length_cons, be_length]
  have : (prefWidth n).bytes ≤ w.bytes := by
    unfold prefWidth
    cases w <;> simp [Width.fits] at h <;> (repeat' split) <;> simp [Width.bytes] <;> omega
  omega

/-- One well-formed encoded data item, as a parse tree.  Maps carry their entries flattened
    (`k₁, v₁, k₂, v₂, …`); `Valid` demands an even number of them. -/
inductive WItem where
  | uint   (w : Width) (n : Nat)
  | nint   (w : Width) (n : Nat)
  | bytes  (w : Width) (b : Bytes)
  | bytesI (chunks : List (Width × Bytes))
  | text   (w : Width) (b : Bytes)
  | textI  (chunks : List (Width × Bytes))
  | array  (w : Width) (xs : List WItem)
  | arrayI (xs : List WItem)
  | map    (w : Width) (kvs : List WItem)
  | mapI   (kvs : List WItem)
  | tag    (w : Width) (n : Nat) (x : WItem)
  | simple (n : Nat)          -- 0..23 in the initial byte (20..23 = false/true/null/undefined), 32..255 after `f8`
  | f16    (bits : Nat)
  | f32    (bits : Nat)
  | f64    (bits : Nat)
  deriving Repr, Inhabited

def encChunks (maj : Nat) : List (Width × Bytes) → Bytes
  | [] => []
  | (w, b) :: cs => headW maj w b.length ++ b ++ encChunks maj cs

mutual
/-- the bytes of a parse tree. -/
def encW : WItem → Bytes
  | .uint w n    => headW 0 w n
  | .nint w n    => headW 1 w n
  | .bytes w b   => headW 2 w b.length ++ b
  | .bytesI cs   => 0x5f :: (encChunks 2 cs ++ [0xff])
  | .text w b    => headW 3 w b.length ++ b
  | .textI cs    => 0x7f :: (encChunks 3 cs ++ [0xff])
  | .array w xs  => headW 4 w xs.length ++ encWs xs
  | .arrayI xs   => 0x9f :: (encWs xs ++ [0xff])
  | .map w kvs   => headW 5 w (kvs.length / 2) ++ encWs kvs
  | .mapI kvs    => 0xbf :: (encWs kvs ++ [0xff])
  | .tag w n x   => headW 6 w n ++ encW x
  | .simple n    => if n < 24 then [u8 (0xe0 + n)] else [0xf8, u8 n]
  | .f16 b       => 0xf9 :: be 2 b
  | .f32 b       => 0xfa :: be 4 b
  | .f64 b       => 0xfb :: be 8 b
def encWs : List WItem → Bytes
  | []      => []
  | x :: xs => encW x ++ encWs xs
end

def chunksValid (utf8 : Bool) : List (Width × Bytes) → Bool
  | [] => true
  | (w, b) :: cs => w.fits b.length && (!utf8 || validUtf8 b) && chunksValid utf8 cs

mutual
/-- well-formedness of a parse tree (RFC 8949 §3 and Appendix C). -/
def WItem.valid : WItem → Bool
  | .uint w n    => w.fits n
  | .nint w n    => w.fits n
  | .bytes w b   => w.fits b.length
  | .bytesI cs   => chunksValid false cs
  | .text w b    => w.fits b.length && validUtf8 b
  | .textI cs    => chunksValid true cs
  | .array w xs  => w.fits xs.length && validAll xs
  | .arrayI xs   => validAll xs
  | .map w kvs   => kvs.length % 2 == 0 && w.fits (kvs.length / 2) && validAll kvs
  | .mapI kvs    => kvs.length % 2 == 0 && validAll kvs
  | .tag w n x   => w.fits n && x.valid
  | .simple n    => n < 24 || (32 ≤ n && n < 256)
  | .f16 b       => b < 65536
  | .f32 b       => b < 4294967296
  | .f64 b       => b < 18446744073709551616
def validAll : List WItem → Bool
  | []      => true
  | x :: xs => x.valid && validAll xs
end

abbrev WItem.Valid (w : WItem) : Prop := w.valid = true

/-- the RFC 8949 data model: what an encoded item *means*. -/
inductive Item where
  | uint   (n : Nat)
  | nint   (n : Nat)            -- the value -1 - n
  | bytes  (b : Bytes)
  | text   (b : Bytes)
  | array  (xs : List Item)
  | map    (kvs : List Item)    -- flattened entries
  | tag    (n : Nat) (x : Item)
  | simple (n : Nat)
  | f16 (bits : Nat) | f32 (bits : Nat) | f64 (bits : Nat)
  deriving Repr, Inhabited

def joinChunks : List (Width × Bytes) → Bytes
  | [] => []
  | (_, b) :: cs => b ++ joinChunks cs

mutual
/-- the data-model value of a parse tree: widths and definiteness erased, chunks concatenated. -/
def value : WItem → Item
  | .uint _ n    => .uint n
  | .nint _ n    => .nint n
  | .bytes _ b   => .bytes b
  | .bytesI cs   => .bytes (joinChunks cs)
  | .text _ b    => .text b
  | .textI cs    => .text (joinChunks cs)
  | .array _ xs  => .array (values xs)
  | .arrayI xs   => .array (values xs)
  | .map _ kvs   => .map (values kvs)
  | .mapI kvs    => .map (values kvs)
  | .tag _ n x   => .tag n (value x)
  | .simple n    => .simple n
  | .f16 b       => .f16 b
  | .f32 b       => .f32 b
  | .f64 b       => .f64 b
def values : List WItem → List Item
  | []      => []
  | x :: xs => value x :: values xs
end

mutual
/-- the preferred parse tree of a data-model value (shortest heads, definite lengths;
    floats keep their width, as the property states). -/
def prefTree : Item → WItem
  | .uint n    => .uint (prefWidth n) n
  | .nint n    => .nint (prefWidth n) n
  | .bytes b   => .bytes (prefWidth b.length) b
  | .text b    => .text (prefWidth b.length) b
  | .array xs  => .array (prefWidth xs.length) (prefTrees xs)
  | .map kvs   => .map (prefWidth (kvs.length / 2)) (prefTrees kvs)
  | .tag n x   => .tag (prefWidth n) n (prefTree x)
  | .simple n  => .simple n
  | .f16 b     => .f16 b
  | .f32 b     => .f32 b
  | .f64 b     => .f64 b
def prefTrees : List Item → List WItem
  | []      => []
  | x :: xs => prefTree x :: prefTrees xs
end

/-- the reference encoder: RFC 8949 §4.2.1 preferred, definite-length serialisation. -/
def encPref (i : Item) : Bytes := encW (prefTree i)
def encPrefs (is : List Item) : Bytes := encWs (prefTrees is)

theorem encWs_append (xs ys : List WItem) : encWs (xs ++ ys) = encWs xs ++ encWs ys := by
  induction xs with
  | nil => simp [encWs]
  | cons x xs ih => simp [encWs, ih]

theorem prefTrees_length (xs : List Item) : (prefTrees xs).length = xs.length := by
  induction xs with
  | nil => simp [prefTrees]
  | cons x xs ih => simp [prefTrees, ih]

theorem values_length (xs : List WItem) : (values xs).length = xs.length := by
  induction xs with
  | nil => simp [values]
  | cons x xs ih => simp [values, ih]

end Minicbor
