/-
  Balanced sequences of `Encoder` calls (property C03, "any balanced sequence of container calls").

  A sequence of calls on a `minicbor::Encoder` — `u8 … int`, `f16/f32/f64`, `bool`, `null`,
  `undefined`, `simple`, `bytes`, `str`, `tag`, `array n`, `map n`, `begin_array`, `begin_map`,
  `begin_bytes`, `begin_str`, `end` — is a `List Token`: `Token.enc` maps every token to the bytes of
  the `Encoder` method it stands for (Token.lean), and `encodeTokens` is the output of the sequence.

  This file says which call sequences are *balanced* and which sequence of complete data items a
  balanced sequence *denotes*:

  * `Balanced ts ws` — the specification, an inductive relation without fuel: a scalar call is an
    item; `array n` must be followed by exactly `n` items, `map n` by `2 n`, `tag` by one;
    `begin_array … end` encloses any number of items, `begin_map … end` an even number;
    `begin_bytes` / `begin_str` are followed by definite byte / text strings only, then `end`.
    Every head of the denoted parse tree has the shortest width (`prefWidth`): that is the claim
    about what the encoder writes, proved in `Thm/C03Ops.lean`.
  * `balanced ts : Option (List WItem)` — the executable decision procedure (used by the driver
    op `balanced`); `Lemmas/BalancedIff.lean` proves `balanced ts = some ws ↔ Balanced ts ws`.
-/
import Minicbor.Token
import Minicbor.Wire

namespace Minicbor

/-- the item an integer call denotes: `x ≥ 0` is the unsigned integer `x`, `x < 0` the negative
    integer with argument `-1 - x`; shortest head. -/
def intW (v : Int) : WItem :=
  if v ≥ 0 then .uint (prefWidth v.toNat) v.toNat
  else .nint (prefWidth (-1 - v).toNat) (-1 - v).toNat

/-- the item denoted by a call that is complete on its own (`none` for the structural calls
    `array`, `map`, `tag`, `begin_*`, `end`). -/
def scalarW : Token → Option WItem
  | .bool b => some (.simple (if b then 21 else 20))
  | .u8 n | .u16 n | .u32 n | .u64 n => some (.uint (prefWidth n) n)
  | .i8 v | .i16 v | .i32 v | .i64 v | .int v => some (intW v)
  | .f16 x => some (.f16 (f32ToF16 x))
  | .f32 x => some (.f32 x)
  | .f64 x => some (.f64 x)
  | .bytes b => some (.bytes (prefWidth b.length) b)
  | .string b => some (.text (prefWidth b.length) b)
  | .simple n => some (.simple n)
  | .null => some (.simple 22)
  | .undefined => some (.simple 23)
  | .array _ | .map _ | .tag _ | .brk | .beginBytes | .beginString | .beginArray | .beginMap => none

/-- the chunk list written by `bytes` / `str` calls between `begin_bytes` / `begin_str` and `end`. -/
def prefChunks (cs : List Bytes) : List (Width × Bytes) := cs.map fun b => (prefWidth b.length, b)

/-- **Balanced call sequences and the item sequence they denote** (the specification). -/
inductive Balanced : List Token → List WItem → Prop
  | nil : Balanced [] []
  /-- a call that is complete on its own, then the rest -/
  | scalar {t : Token} {w : WItem} {ts : List Token} {ws : List WItem} :
      scalarW t = some w → Balanced ts ws → Balanced (t :: ts) (w :: ws)
  /-- `array n`, then exactly `n` items -/
  | array {n : Nat} {xt ts : List Token} {xs ws : List WItem} :
      Balanced xt xs → xs.length = n → Balanced ts ws →
      Balanced (.array n :: (xt ++ ts)) (.array (prefWidth n) xs :: ws)
  /-- `map n`, then exactly `2 n` items -/
  | map {n : Nat} {xt ts : List Token} {kvs ws : List WItem} :
      Balanced xt kvs → kvs.length = 2 * n → Balanced ts ws →
      Balanced (.map n :: (xt ++ ts)) (.map (prefWidth n) kvs :: ws)
  /-- `tag n`, then exactly one item -/
  | tag {n : Nat} {xt ts : List Token} {x : WItem} {ws : List WItem} :
      Balanced xt [x] → Balanced ts ws →
      Balanced (.tag n :: (xt ++ ts)) (.tag (prefWidth n) n x :: ws)
  /-- `begin_array`, any number of items, `end` -/
  | arrayI {xt ts : List Token} {xs ws : List WItem} :
      Balanced xt xs → Balanced ts ws →
      Balanced (.beginArray :: (xt ++ .brk :: ts)) (.arrayI xs :: ws)
  /-- `begin_map`, an even number of items, `end` -/
  | mapI {xt ts : List Token} {kvs ws : List WItem} :
      Balanced xt kvs → kvs.length % 2 = 0 → Balanced ts ws →
      Balanced (.beginMap :: (xt ++ .brk :: ts)) (.mapI kvs :: ws)
  /-- `begin_bytes`, definite-length `bytes` calls only, `end` -/
  | bytesI {cs : List Bytes} {ts : List Token} {ws : List WItem} :
      Balanced ts ws →
      Balanced (.beginBytes :: (cs.map Token.bytes ++ .brk :: ts)) (.bytesI (prefChunks cs) :: ws)
  /-- `begin_str`, definite-length `str` calls only, `end` -/
  | textI {cs : List Bytes} {ts : List Token} {ws : List WItem} :
      Balanced ts ws →
      Balanced (.beginString :: (cs.map Token.string ++ .brk :: ts)) (.textI (prefChunks cs) :: ws)

/-! ### the decision procedure -/

/-- the chunks of an indefinite-length string up to the `end` call. -/
def balChunks (text : Bool) : List Token → Option (List Bytes × List Token)
  | .brk :: ts => some ([], ts)
  | .bytes b :: ts =>
    if text then none else (balChunks text ts).map fun (r : List Bytes × List Token) => (b :: r.1, r.2)
  | .string b :: ts =>
    if text then (balChunks text ts).map fun (r : List Bytes × List Token) => (b :: r.1, r.2) else none
  | _ => none

mutual
/-- one complete item from the front of a call sequence (fuel: nesting + length). -/
def balItem : Nat → List Token → Option (WItem × List Token)
  | 0, _ => none
  | _ + 1, [] => none
  | f + 1, t :: ts =>
    match scalarW t with
    | some w => some (w, ts)
    | none =>
      match t with
      | .array n => (balN f n ts).map fun r => (.array (prefWidth n) r.1, r.2)
      | .map n => (balN f (2 * n) ts).map fun r => (.map (prefWidth n) r.1, r.2)
      | .tag n => (balItem f ts).map fun r => (.tag (prefWidth n) n r.1, r.2)
      | .beginArray => (balUntil f ts).map fun r => (.arrayI r.1, r.2)
      | .beginMap =>
        match balUntil f ts with
        | some (kvs, r) => if kvs.length % 2 = 0 then some (.mapI kvs, r) else none
        | none => none
      | .beginBytes => (balChunks false ts).map fun r => (.bytesI (prefChunks r.1), r.2)
      | .beginString => (balChunks true ts).map fun r => (.textI (prefChunks r.1), r.2)
      | _ => none
/-- exactly `n` items. -/
def balN : Nat → Nat → List Token → Option (List WItem × List Token)
  | _, 0, ts => some ([], ts)
  | 0, _ + 1, _ => none
  | f + 1, n + 1, ts =>
    match balItem f ts with
    | none => none
    | some (x, r) => (balN f n r).map fun p => (x :: p.1, p.2)
/-- items up to the matching `end`. -/
def balUntil : Nat → List Token → Option (List WItem × List Token)
  | 0, _ => none
  | _ + 1, .brk :: ts => some ([], ts)
  | f + 1, ts =>
    match balItem f ts with
    | none => none
    | some (x, r) => (balUntil f r).map fun p => (x :: p.1, p.2)
end

/-- items up to the end of the call sequence. -/
def balTop : Nat → List Token → Option (List WItem)
  | _, [] => some []
  | 0, _ :: _ => none
  | f + 1, ts =>
    match balItem f ts with
    | none => none
    | some (x, r) => (balTop f r).map fun p => x :: p

/-- **the denotation of a call sequence**: `some ws` iff the sequence is balanced, and then `ws` are
    the complete items it writes (every head at the shortest width). -/
def balanced (ts : List Token) : Option (List WItem) := balTop (2 * ts.length + 1) ts

end Minicbor
