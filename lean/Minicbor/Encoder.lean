/-
  Model of `minicbor::encode::Encoder` (minicbor/src/encode/encoder.rs), method by method,
  arm by arm.  A method returns the bytes it hands to the sink (the order of `put` calls is
  the order of the bytes; sink behaviour is in Sink.lean).  Integer arguments are `Nat`/`Int`
  restricted to the Rust type's range by the callers / theorem hypotheses.
-/
import Minicbor.Prelude
import Minicbor.Float

namespace Minicbor
namespace Enc

def UNSIGNED : Nat := 0x00
def SIGNED   : Nat := 0x20
def BYTES    : Nat := 0x40
def TEXT     : Nat := 0x60
def ARRAY    : Nat := 0x80
def MAP      : Nat := 0xa0
def TAGGED   : Nat := 0xc0
def SIMPLE   : Nat := 0xe0

/-- `Encoder::u8` -/
def u8 (x : Nat) : Bytes :=
  if x ≤ 0x17 then [Minicbor.u8 x] else [24, Minicbor.u8 x]

/-- `Encoder::i8` -/
def i8 (x : Int) : Bytes :=
  if x ≥ 0 then u8 x.toNat
  else
    let n := (-1 - x).toNat
    if n ≤ 0x17 then [Minicbor.u8 (SIGNED + n)] else [Minicbor.u8 (SIGNED + 24), Minicbor.u8 n]

/-- `Encoder::u16` -/
def u16 (x : Nat) : Bytes :=
  if x ≤ 0x17 then [Minicbor.u8 x]
  else if x ≤ 0xff then [24, Minicbor.u8 x]
  else 25 :: be 2 x

/-- `Encoder::i16` -/
def i16 (x : Int) : Bytes :=
  if x ≥ 0 then u16 x.toNat
  else
    let n := (-1 - x).toNat
    if n ≤ 0x17 then [Minicbor.u8 (SIGNED + n)]
    else if n ≤ 0xff then [Minicbor.u8 (SIGNED + 24), Minicbor.u8 n]
    else Minicbor.u8 (SIGNED + 25) :: be 2 n

/-- `Encoder::u32` -/
def u32 (x : Nat) : Bytes :=
  if x ≤ 0x17 then [Minicbor.u8 x]
  else if x ≤ 0xff then [24, Minicbor.u8 x]
  else if x ≤ 0xffff then 25 :: be 2 x
  else 26 :: be 4 x

/-- `Encoder::i32` -/
def i32 (x : Int) : Bytes :=
  if x ≥ 0 then u32 x.toNat
  else
    let n := (-1 - x).toNat
    if n ≤ 0x17 then [Minicbor.u8 (SIGNED + n)]
    else if n ≤ 0xff then [Minicbor.u8 (SIGNED + 24), Minicbor.u8 n]
    else if n ≤ 0xffff then Minicbor.u8 (SIGNED + 25) :: be 2 n
    else Minicbor.u8 (SIGNED + 26) :: be 4 n

/-- `Encoder::u64` -/
def u64 (x : Nat) : Bytes :=
  if x ≤ 0x17 then [Minicbor.u8 x]
  else if x ≤ 0xff then [24, Minicbor.u8 x]
  else if x ≤ 0xffff then 25 :: be 2 x
  else if x ≤ 0xffffffff then 26 :: be 4 x
  else 27 :: be 8 x

/-- the negative arms shared by `Encoder::i64` and `Encoder::int` (argument `n = -1 - x`). -/
def negArms (n : Nat) : Bytes :=
  if n ≤ 0x17 then [Minicbor.u8 (SIGNED + n)]
  else if n ≤ 0xff then [Minicbor.u8 (SIGNED + 24), Minicbor.u8 n]
  else if n ≤ 0xffff then Minicbor.u8 (SIGNED + 25) :: be 2 n
  else if n ≤ 0xffffffff then Minicbor.u8 (SIGNED + 26) :: be 4 n
  else Minicbor.u8 (SIGNED + 27) :: be 8 n

/-- `Encoder::i64` -/
def i64 (x : Int) : Bytes :=
  if x ≥ 0 then u64 x.toNat else negArms (-1 - x).toNat

/-- `Encoder::int`; `Int` is (`neg`, `val`) denoting `val` or `-1 - val`. -/
def int (neg : Bool) (val : Nat) : Bytes :=
  if !neg then u64 val else negArms val

/-- `Encoder::type_len` -/
def typeLen (t : Nat) (x : Nat) : Bytes :=
  if x ≤ 0x17 then [Minicbor.u8 (t + x)]
  else if x ≤ 0xff then [Minicbor.u8 (t + 24), Minicbor.u8 x]
  else if x ≤ 0xffff then Minicbor.u8 (t + 25) :: be 2 x
  else if x ≤ 0xffffffff then Minicbor.u8 (t + 26) :: be 4 x
  else Minicbor.u8 (t + 27) :: be 8 x

def null : Bytes := [Minicbor.u8 (SIMPLE + 22)]
def undefined : Bytes := [Minicbor.u8 (SIMPLE + 23)]

/-- `Encoder::simple` -/
def simple (x : Nat) : Bytes :=
  if x < 0x14 then [Minicbor.u8 (SIMPLE + x)] else [Minicbor.u8 (SIMPLE + 24), Minicbor.u8 x]

/-- `Encoder::f16` (argument: the bits of the `f32`) -/
def f16 (bits32 : Nat) : Bytes := Minicbor.u8 (SIMPLE + 25) :: be 2 (f32ToF16 bits32)
/-- `Encoder::f32` -/
def f32 (bits : Nat) : Bytes := Minicbor.u8 (SIMPLE + 26) :: be 4 bits
/-- `Encoder::f64` -/
def f64 (bits : Nat) : Bytes := Minicbor.u8 (SIMPLE + 27) :: be 8 bits
/-- `Encoder::bool` -/
def bool (x : Bool) : Bytes := [Minicbor.u8 (SIMPLE + (if x then 0x15 else 0x14))]
/-- `Encoder::char` -/
def char (c : Nat) : Bytes := u32 c
/-- `Encoder::tag` -/
def tag (n : Nat) : Bytes := typeLen TAGGED n
/-- `Encoder::bytes` -/
def bytes (b : Bytes) : Bytes := typeLen BYTES b.length ++ b
/-- `Encoder::str` (argument: the UTF-8 bytes) -/
def str (b : Bytes) : Bytes := typeLen TEXT b.length ++ b
/-- `Encoder::array` -/
def array (n : Nat) : Bytes := typeLen ARRAY n
/-- `Encoder::map` -/
def map (n : Nat) : Bytes := typeLen MAP n
def beginArray : Bytes := [0x9f]
def beginBytes : Bytes := [0x5f]
def beginMap : Bytes := [0xbf]
def beginStr : Bytes := [0x7f]
def «end» : Bytes := [0xff]

/-- `encode::ArrayIter`: a definite head iff the iterator's size hint is exact
    (`Some(low) == up`, and then `low` is the number of items), otherwise indefinite + break.
    `items` are the encodings of the items the iterator yields. -/
def arrayIter (exact : Bool) (items : List Bytes) : Bytes :=
  if exact then array items.length ++ items.flatten
  else beginArray ++ items.flatten ++ «end»

/-- `encode::MapIter` (entries flattened: k₁, v₁, k₂, v₂, …). -/
def mapIter (exact : Bool) (kvs : List Bytes) : Bytes :=
  if exact then map (kvs.length / 2) ++ kvs.flatten
  else beginMap ++ kvs.flatten ++ «end»

end Enc
end Minicbor
