/-
  Model of `Decoder::skip` (minicbor/src/decode/decoder.rs), both the `alloc` version
  (counting mode that switches to an explicit stack when an indefinite array/map turns up
  inside a definite one) and the no-`alloc` version (counting only, refuses that nesting).

  State: `nr` = `nrounds`, `ir` = `irounds` (both `u64`, saturating), `stack` with the top
  of the Rust `Vec` at the head of the list.
-/
import Minicbor.Decoder

namespace Minicbor

def U64MAX : Nat := 18446744073709551615

@[inline] def satAdd (a b : Nat) : Nat := if a + b ≤ U64MAX then a + b else U64MAX
@[inline] def satMul2 (a : Nat) : Nat := if 2 * a ≤ U64MAX then 2 * a else U64MAX

structure SkipSt where
  nr    : Nat
  ir    : Nat
  stack : List (Option Nat)
  deriving Repr, DecidableEq

def SkipSt.init : SkipSt := ⟨1, 0, []⟩

/-- the state is "counting" (the code tests `nrounds == 0 && irounds == 0` for the opposite). -/
@[inline] def SkipSt.counting (s : SkipSt) : Bool := !(s.nr == 0 && s.ir == 0)

/-- outcome of the `match` in one loop iteration. -/
inductive SkipArm where
  | next (s : SkipSt)      -- fall through to the bookkeeping after the match
  | cont (s : SkipSt)      -- `continue` (tags)
  deriving Repr

namespace Dec

/-- drain `bytes_iter()` / `str_iter()` as `for v in … { v?; }` does. -/
def skipString (text : Bool) : Dec Unit := do
  let _ ← stringIter text
  pure ()

/-- a definite array/map head with `n` further items (`n` already doubled for maps). -/
def skipDefinite (alloc : Bool) (s : SkipSt) (n : Nat) : SkipSt :=
  if alloc && !s.counting then { s with stack := some n :: s.stack }
  else { s with nr := satAdd s.nr n }

/-- an indefinite array/map head. -/
def skipIndefinite (alloc : Bool) (s : SkipSt) : Dec SkipSt :=
  if alloc && !s.counting then pure { s with stack := none :: s.stack }
  else if s.nr < 2 then pure { s with ir := satAdd s.ir 1 }
  else if alloc then
    -- `for _ in 0 .. irounds { push(None) }; push(Some(nrounds - 1)); push(None)`
    pure { nr := 0, ir := 0, stack := none :: some (s.nr - 1) :: (List.replicate s.ir none ++ s.stack) }
  else fail .message

/-- the `match self.current()?` of one iteration. -/
def skipArm (alloc : Bool) (s : SkipSt) : Dec SkipArm := do
  let b ← current
  let n := b.toNat
  if n ≤ 0x1b then do
    let _ ← intAcc .u64; pure (.next s)
  else if 0x20 ≤ n && n ≤ 0x3b then do
    let _ ← intAcc .int; pure (.next s)
  else if 0x40 ≤ n && n ≤ 0x5f then do
    skipString false; pure (.next s)
  else if 0x60 ≤ n && n ≤ 0x7f then do
    skipString true; pure (.next s)
  else if 0x80 ≤ n && n ≤ 0x9f then do
    match (← array) with
    | some 0 => if alloc then pure (.next s) else pure (.next (skipDefinite alloc s 0))
    | some k => pure (.next (skipDefinite alloc s k))
    | none   => do let s' ← skipIndefinite alloc s; pure (.next s')
  else if 0xa0 ≤ n && n ≤ 0xbf then do
    match (← map) with
    | some 0 => if alloc then pure (.next s) else pure (.next (skipDefinite alloc s (satMul2 0)))
    | some k => pure (.next (skipDefinite alloc s (satMul2 k)))
    | none   => do let s' ← skipIndefinite alloc s; pure (.next s')
  else if 0xc0 ≤ n && n ≤ 0xdb then do
    let h ← read
    let _ ← unsigned (infoOf h)
    pure (.cont s)
  else if 0xe0 ≤ n && n ≤ 0xfb then do
    let h ← read
    let _ ← unsigned (infoOf h)
    pure (.next s)
  else if n == 0xff then do
    let _ ← read
    if alloc && !s.counting then
      match s.stack with
      | none :: rest => pure (.next { s with stack := rest })
      | _ => pure (.next s)
    else pure (.next { s with ir := s.ir - 1 })
  else typeMismatch b

/-- `while let Some(Some(0)) = stack.last() { stack.pop(); }` -/
def popZeros : List (Option Nat) → List (Option Nat)
  | some 0 :: rest => popZeros rest
  | st => st

/-- the bookkeeping after the match; `none` = `break` out of the loop.  `*n -= 1` on a
    `u64` that is `0` would be an arithmetic panic, hence the explicit `panic` arm (shown
    unreachable: `popZeros` never leaves a `Some(0)` on top). -/
def skipPost (alloc : Bool) (s : SkipSt) : Dec (Option SkipSt) :=
  if alloc && !s.counting then
    match popZeros s.stack with
    | some 0 :: _        => panic
    | some (k + 1) :: r  => pure (some { s with stack := some k :: r })
    | none :: r          => pure (some { s with stack := none :: r })
    | []                 => pure none
  else pure (some { s with nr := s.nr - 1 })

/-- the loop condition. -/
@[inline] def skipRunning (alloc : Bool) (s : SkipSt) : Bool :=
  s.nr > 0 || s.ir > 0 || (alloc && !s.stack.isEmpty)

/-- the `while` loop with a local fuel (exhaustion = `panic`, proved unreachable for
    `fuel = 2 * remaining + 2`: every iteration other than the last consumes a byte). -/
def skipLoop (alloc : Bool) : Nat → SkipSt → Dec Unit
  | 0, _ => panic
  | fuel + 1, s =>
    if !skipRunning alloc s then pure ()
    else do
      match (← skipArm alloc s) with
      | .cont s' => skipLoop alloc fuel s'
      | .next s' =>
        match (← skipPost alloc s') with
        | none     => pure ()
        | some s'' => skipLoop alloc fuel s''

/-- `Decoder::skip` -/
def skip (alloc : Bool := true) : Dec Unit := do
  let r ← remaining
  skipLoop alloc (r.length + 2) SkipSt.init

end Dec
end Minicbor
