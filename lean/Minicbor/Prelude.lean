/-
  Prelude: bytes, big-endian numbers, decoder outcome type and the decoder monad.
  Imports nothing, so that the driver executable links without Mathlib.
-/
namespace Minicbor

abbrev Bytes := List UInt8

/-- byte of a natural number (callers guarantee `n < 256` where it matters). -/
@[inline] def u8 (n : Nat) : UInt8 := UInt8.ofNat n

theorem u8_toNat {n : Nat} (h : n < 256) : (u8 n).toNat = n := by
  unfold u8; rw [UInt8.toNat_ofNat']; omega

@[simp] theorem u8_toNat_mod (n : Nat) : (u8 n).toNat = n % 256 := by
  unfold u8; rw [UInt8.toNat_ofNat']

theorem u8_eq_iff (n : Nat) (b : UInt8) : u8 n = b ↔ n % 256 = b.toNat := by
  rw [← UInt8.toNat_inj, u8_toNat_mod]

@[simp] theorem u8_toNat_self (b : UInt8) : u8 b.toNat = b := by
  unfold u8; exact UInt8.ofNat_toNat

/-- `k`-byte big-endian representation of `n` (exact when `n < 256^k`). -/
def be : Nat → Nat → Bytes
  | 0,     _ => []
  | k + 1, n => u8 (n / 256 ^ k) :: be k (n % 256 ^ k)

/-- value of a big-endian byte string. -/
def fromBe : Bytes → Nat
  | []      => 0
  | b :: bs => b.toNat * 256 ^ bs.length + fromBe bs

@[simp] theorem be_length (k n : Nat) : (be k n).length = k := by
  induction k generalizing n with
  | zero => rfl
  | succ k ih => simp [be, ih]

theorem pow256_pos (k : Nat) : 0 < 256 ^ k := Nat.pow_pos (by decide)

theorem fromBe_be (k n : Nat) (h : n < 256 ^ k) : fromBe (be k n) = n := by
  induction k generalizing n with
  | zero => simp [be, fromBe] at *; omega
  | succ k ih =>
    have hp := pow256_pos k
    have hd : n / 256 ^ k < 256 := by
      rw [Nat.div_lt_iff_lt_mul hp]; rw [Nat.pow_succ] at h; rw [Nat.mul_comm]; exact h
    have hm : n % 256 ^ k < 256 ^ k := Nat.mod_lt _ hp
    simp only [be, fromBe, be_length, u8_toNat hd, ih _ hm]
    have := Nat.div_add_mod n (256 ^ k)
    rw [Nat.mul_comm] at this; exact this

theorem fromBe_lt (bs : Bytes) : fromBe bs < 256 ^ bs.length := by
  induction bs with
  | nil => simp [fromBe]
  | cons b bs ih =>
    simp only [fromBe, List.length_cons, Nat.pow_succ]
    have hb := b.toNat_lt
    have : b.toNat * 256 ^ bs.length ≤ 255 * 256 ^ bs.length := Nat.mul_le_mul_right _ (by omega)
    omega

theorem be_fromBe (bs : Bytes) : be bs.length (fromBe bs) = bs := by
  induction bs with
  | nil => rfl
  | cons b bs ih =>
    have hp := pow256_pos bs.length
    have hlt := fromBe_lt bs
    simp only [List.length_cons, be, fromBe]
    have h1 : (b.toNat * 256 ^ bs.length + fromBe bs) / 256 ^ bs.length = b.toNat := by
      rw [Nat.mul_comm, Nat.mul_add_div hp, Nat.div_eq_of_lt hlt]; simp
    have h2 : (b.toNat * 256 ^ bs.length + fromBe bs) % 256 ^ bs.length = fromBe bs := by
      rw [Nat.mul_comm, Nat.mul_add_mod, Nat.mod_eq_of_lt hlt]
    rw [h1, h2, ih]; simp

/-- The error classes of `minicbor::decode::Error` (message texts are not modelled). -/
inductive Err where
  | eoi | type | overflow | char | utf8 | tag | variant | missing | message | custom
  deriving DecidableEq, Repr, Inhabited

def Err.name : Err → String
  | .eoi => "eoi" | .type => "type" | .overflow => "overflow" | .char => "char"
  | .utf8 => "utf8" | .tag => "tag" | .variant => "variant" | .missing => "missing"
  | .message => "message" | .custom => "custom"

/-- Outcome of a decoder call on the remaining input: a value or an error, each with the
    input that remains afterwards (the real accessors advance before failing), or a panic. -/
inductive Res (α : Type) where
  | ok    (a : α) (rest : Bytes)
  | err   (e : Err) (rest : Bytes)
  | panic
  deriving Repr

instance [Inhabited α] : Inhabited (Res α) := ⟨.panic⟩

/-- A decoder action on the remaining input. -/
def Dec (α : Type) := Bytes → Res α

namespace Dec

@[inline] def ret (a : α) : Dec α := fun bs => .ok a bs

@[inline] def bnd (m : Dec α) (f : α → Dec β) : Dec β := fun bs =>
  match m bs with
  | .ok a rest  => f a rest
  | .err e rest => .err e rest
  | .panic      => .panic

instance : Monad Dec where
  pure := Dec.ret
  bind := Dec.bnd

@[inline] def fail (e : Err) : Dec α := fun bs => .err e bs
@[inline] def panic : Dec α := fun _ => .panic

/-- `Decoder::current`. -/
@[inline] def current : Dec UInt8 := fun bs =>
  match bs with
  | []     => .err .eoi bs
  | b :: _ => .ok b bs

/-- `Decoder::read`. -/
@[inline] def read : Dec UInt8 := fun bs =>
  match bs with
  | []      => .err .eoi bs
  | b :: bs => .ok b bs

/-- `Decoder::peek`: the byte at `pos + 1`. -/
@[inline] def peek : Dec UInt8 := fun bs =>
  match bs with
  | _ :: b :: _ => .ok b bs
  | _           => .err .eoi bs

/-- `Decoder::read_slice` (and `read_array`). `n` is a `usize`; `checked_add` failing is the
    same outcome as the range being out of bounds. -/
@[inline] def readSlice (n : Nat) : Dec Bytes := fun bs =>
  if n ≤ bs.length then .ok (bs.take n) (bs.drop n) else .err .eoi bs

/-- the remaining input (for `position`). -/
@[inline] def remaining : Dec Bytes := fun bs => .ok bs bs

/-- run with a different remaining input (for `set_position` / `probe`). -/
@[inline] def setRemaining (r : Bytes) : Dec Unit := fun _ => .ok () r

end Dec

@[simp] theorem Dec.pure_run (a : α) (bs : Bytes) : (Pure.pure a : Dec α) bs = .ok a bs := rfl
@[simp] theorem Dec.fail_run (e : Err) (bs : Bytes) : (Dec.fail e : Dec α) bs = .err e bs := rfl

theorem Dec.bind_run (m : Dec α) (f : α → Dec β) (bs : Bytes) :
    (m >>= f) bs = match m bs with
      | .ok a rest  => f a rest
      | .err e rest => .err e rest
      | .panic      => .panic := rfl

@[simp] theorem Dec.bind_ok (m : Dec α) (f : α → Dec β) (bs : Bytes) (a : α) (r : Bytes)
    (h : m bs = .ok a r) : (m >>= f) bs = f a r := by
  rw [Dec.bind_run, h]

theorem Dec.bind_err (m : Dec α) (f : α → Dec β) (bs : Bytes) (e : Err) (r : Bytes)
    (h : m bs = .err e r) : (m >>= f) bs = .err e r := by
  rw [Dec.bind_run, h]

@[simp] theorem Dec.read_cons (b : UInt8) (bs : Bytes) : Dec.read (b :: bs) = .ok b bs := rfl
@[simp] theorem Dec.read_nil : Dec.read [] = .err .eoi [] := rfl
@[simp] theorem Dec.current_cons (b : UInt8) (bs : Bytes) : Dec.current (b :: bs) = .ok b (b :: bs) := rfl
@[simp] theorem Dec.current_nil : Dec.current [] = .err .eoi [] := rfl

theorem Dec.readSlice_append (xs rest : Bytes) :
    Dec.readSlice xs.length (xs ++ rest) = .ok xs rest := by
  simp [Dec.readSlice]

/-! hex helpers (driver side) -/

def hexDigit (n : Nat) : Char :=
  if n < 10 then Char.ofNat (48 + n) else Char.ofNat (87 + n)

def hexOfBytes (bs : Bytes) : String :=
  String.ofList (bs.flatMap fun b => [hexDigit (b.toNat / 16), hexDigit (b.toNat % 16)])

def hexVal (c : Char) : Option Nat :=
  if '0' ≤ c ∧ c ≤ '9' then some (c.toNat - 48)
  else if 'a' ≤ c ∧ c ≤ 'f' then some (c.toNat - 87)
  else if 'A' ≤ c ∧ c ≤ 'F' then some (c.toNat - 55)
  else none

def bytesOfHexChars : List Char → Option Bytes
  | [] => some []
  | a :: b :: cs => do
      let x ← hexVal a
      let y ← hexVal b
      let r ← bytesOfHexChars cs
      pure (u8 (x * 16 + y) :: r)
  | _ => none

/-- `-` denotes the empty byte string in the line protocol. -/
def bytesOfHex (s : String) : Option Bytes :=
  if s == "-" then some [] else bytesOfHexChars s.toList

def hexOrDash (bs : Bytes) : String := if bs.isEmpty then "-" else hexOfBytes bs

end Minicbor
