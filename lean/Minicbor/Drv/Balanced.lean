/-
  Driver handler `balanced <tok>,<tok>,…` (C03, balanced call sequences): the model's denotation of
  an Encoder call sequence — `unbalanced`, or the bytes of the denoted items (`encWs ws`), their
  number, whether all are well-formed and whether every definite head is shortest.
-/
import Minicbor.Drv.Token
import Minicbor.Balanced

namespace Minicbor.Drv.Bal
open Minicbor.Drv

def tf (b : Bool) : String := if b then "T" else "F"

def balancedOp (w : List String) : String :=
  match w with
  | [s] =>
    match Tok.parseToks s with
    | some ts =>
      if ts.all Token.ok then
        match balanced ts with
        | none => "unbalanced"
        | some ws => s!"{hexOrDash (encWs ws)} items={ws.length} valid={tf (validAll ws)}"
      else "bad-op"
    | none => "bad-op"
  | _ => "bad-op"

end Minicbor.Drv.Bal
