/-
  Driver handlers for the built-in codec universe: `tenc <desc> <val>`, `tdec <desc> <hex>`
  (docs/TYPES_PROTOCOL.md).  Parsing/printing only; the semantics are `encodeT` / `decodeT` /
  `lenT` from Types.lean.
-/
import Minicbor.Drv.Proto
import Minicbor.Types

namespace Minicbor.Drv.Typed
open Minicbor.Drv

abbrev P (α : Type) := List Char → Option (α × List Char)

def pNat : P Nat := fun cs =>
  let ds := cs.takeWhile Char.isDigit
  if ds.isEmpty then none else some (ds.foldl (fun a c => a * 10 + (c.toNat - 48)) 0, cs.drop ds.length)

def pInt : P Int := fun cs =>
  match cs with
  | '-' :: r => (pNat r).map fun (n, r) => (-(n : Int), r)
  | _ => (pNat cs).map fun (n, r) => ((n : Int), r)

def pChar (c : Char) : P Unit := fun cs =>
  match cs with
  | d :: r => if c == d then some ((), r) else none
  | [] => none

def pIdent : P String := fun cs =>
  let ds := cs.takeWhile (fun c => c.isAlphanum)
  if ds.isEmpty then none else some (String.ofList ds, cs.drop ds.length)

def intKind? : String → Option IntKind
  | "u8" => some .u8 | "u16" => some .u16 | "u32" => some .u32 | "u64" => some .u64
  | "i8" => some .i8 | "i16" => some .i16 | "i32" => some .i32 | "i64" => some .i64
  | "int" => some .int | _ => none

def sock4 : Ty := .fields [.barr 4, .int .u16]
def sock6 : Ty := .fields [.barr 16, .int .u16]

mutual
partial def pTy : P Ty := fun cs => do
  let (id, r) ← pIdent cs
  match intKind? id with
  | some k => pure (.int k, r)
  | none =>
  match id with
  | "bool" => pure (.bool, r) | "char" => pure (.char, r) | "f32" => pure (.f32, r) | "f64" => pure (.f64, r)
  | "str" => pure (.str, r) | "bytes" => pure (.bytes, r) | "cstr" => pure (.cstr, r) | "unit" => pure (.unit, r)
  | "tag" => pure (.tag, r) | "duration" => pure (.duration, r) | "systime" => pure (.systime, r)
  | "sock4" => pure (sock4, r) | "sock6" => pure (sock6, r)
  | "barr" => do let (_, r) ← pChar '(' r; let (n, r) ← pNat r; let (_, r) ← pChar ')' r; pure (.barr n, r)
  | "opt" => do let (_, r) ← pChar '(' r; let (t, r) ← pTy r; let (_, r) ← pChar ')' r; pure (.opt t, r)
  | "seq" | "uset" | "ubag" => do let (_, r) ← pChar '(' r; let (t, r) ← pTy r; let (_, r) ← pChar ')' r; pure (.seq t, r)
  | "bound" => do let (_, r) ← pChar '(' r; let (t, r) ← pTy r; let (_, r) ← pChar ')' r; pure (.enum [t, t, .skipUnit], r)
  | "nz" => do
      let (_, r) ← pChar '(' r; let (k, r) ← pIdent r; let (_, r) ← pChar ')' r
      let k ← intKind? k; pure (.nz k, r)
  | "arr" => do
      let (_, r) ← pChar '(' r; let (n, r) ← pNat r; let (_, r) ← pChar ',' r
      let (t, r) ← pTy r; let (_, r) ← pChar ')' r; pure (.arr n t, r)
  | "tagged" => do
      let (_, r) ← pChar '(' r; let (n, r) ← pNat r; let (_, r) ← pChar ',' r
      let (t, r) ← pTy r; let (_, r) ← pChar ')' r; pure (.tagged n t, r)
  | "map" | "umap" => do
      let (_, r) ← pChar '(' r; let (k, r) ← pTy r; let (_, r) ← pChar ',' r
      let (v, r) ← pTy r; let (_, r) ← pChar ')' r; pure (.map k v, r)
  | "tup" => do let (_, r) ← pChar '(' r; let (ts, r) ← pTys r; pure (.tup ts, r)
  | "enum" => do let (_, r) ← pChar '(' r; let (ts, r) ← pTys r; pure (.enum ts, r)
  | "fields" => do let (_, r) ← pChar '(' r; let (ts, r) ← pTys r; pure (.fields ts, r)
  | _ => none
/-- `T1,T2,…)` -/
partial def pTys : P (List Ty) := fun cs => do
  let (t, r) ← pTy cs
  match r with
  | ',' :: r => do let (ts, r) ← pTys r; pure (t :: ts, r)
  | ')' :: r => pure ([t], r)
  | _ => none
end

def parseTy (s : String) : Option Ty :=
  match pTy s.toList with
  | some (t, []) => some t
  | _ => none

def pHexBytes : P Bytes := fun cs =>
  match cs with
  | '-' :: r => some ([], r)
  | _ =>
    let ds := cs.takeWhile (fun c => (hexVal c).isSome)
    (bytesOfHexChars ds).map fun b => (b, cs.drop ds.length)

def pHexNat : P Nat := fun cs =>
  let ds := cs.takeWhile (fun c => (hexVal c).isSome)
  if ds.isEmpty then none
  else some (ds.foldl (fun a c => a * 16 + (hexVal c).getD 0) 0, cs.drop ds.length)

mutual
partial def pVal (t : Ty) : P Val := fun cs =>
  match t with
  | .int _ | .char | .tag | .nz _ => (pInt cs).map fun (v, r) => (.int v, r)
  | .bool => match cs with
      | 'T' :: r => some (.bool true, r) | 'F' :: r => some (.bool false, r) | _ => none
  | .f32 | .f64 => match cs with
      | 'x' :: r => (pHexNat r).map fun (n, r) => (.float n, r) | _ => none
  | .str => match cs with
      | 's' :: r => (pHexBytes r).map fun (b, r) => (.str b, r) | _ => none
  | .bytes | .barr _ | .cstr => match cs with
      | 'h' :: r => (pHexBytes r).map fun (b, r) => (.bytes b, r) | _ => none
  | .unit | .skipUnit => match cs with
      | 'U' :: r => some (.unit, r) | _ => none
  | .opt t => match cs with
      | 'N' :: r => some (.none, r)
      | 'S' :: '(' :: r => do let (v, r) ← pVal t r; let (_, r) ← pChar ')' r; pure (.some v, r)
      | _ => none
  | .seq t | .arr _ t => match cs with
      | '[' :: ']' :: r => some (.list [], r)
      | '[' :: r => do let (vs, r) ← pList t r; pure (.list vs, r)
      | _ => none
  | .tup ts | .fields ts => match cs with
      | '[' :: ']' :: r => if ts.isEmpty then some (.list [], r) else none
      | '[' :: r => do let (vs, r) ← pTup ts r; pure (.list vs, r)
      | _ => none
  | .duration | .systime => match cs with
      | '[' :: r => do let (vs, r) ← pTup [.int .u64, .int .u32] r; pure (.list vs, r)
      | _ => none
  | .map k v => match cs with
      | '{' :: '}' :: r => some (.map [], r)
      | '{' :: r => do let (kvs, r) ← pEntries k v r; pure (.map kvs, r)
      | _ => none
  | .tagged _ t => (pVal t cs).map fun (v, r) => (.tagged v, r)
  | .enum ts => match cs with
      | 'V' :: r => do
          let (i, r) ← pNat r
          let t ← ts[i]?
          let (_, r) ← pChar '(' r; let (v, r) ← pVal t r; let (_, r) ← pChar ')' r
          pure (.variant i v, r)
      | _ => none
partial def pList (t : Ty) : P (List Val) := fun cs => do
  let (v, r) ← pVal t cs
  match r with
  | ',' :: r => do let (vs, r) ← pList t r; pure (v :: vs, r)
  | ']' :: r => pure ([v], r)
  | _ => none
partial def pTup : List Ty → P (List Val)
  | [], _ => none
  | [t], cs => do let (v, r) ← pVal t cs; let (_, r) ← pChar ']' r; pure ([v], r)
  | t :: ts, cs => do
      let (v, r) ← pVal t cs; let (_, r) ← pChar ',' r
      let (vs, r) ← pTup ts r; pure (v :: vs, r)
partial def pEntries (k v : Ty) : P (List Val) := fun cs => do
  let (x, r) ← pVal k cs; let (_, r) ← pChar ':' r; let (y, r) ← pVal v r
  match r with
  | ',' :: r => do let (rest, r) ← pEntries k v r; pure (x :: y :: rest, r)
  | '}' :: r => pure ([x, y], r)
  | _ => none
end

def parseVal (t : Ty) (s : String) : Option Val :=
  match pVal t s.toList with
  | some (v, []) => some v
  | _ => none

def showBytesTok (p : String) (b : Bytes) : String := p ++ hexOrDash b

mutual
partial def showVal : Ty → Val → String
  | .f32, .float b => "x" ++ padHex 8 b
  | .f64, .float b => "x" ++ padHex 16 b
  | _, .float b => "x" ++ padHex 16 b
  | _, .int v => toString v
  | _, .bool b => if b then "T" else "F"
  | _, .str b => showBytesTok "s" b
  | _, .bytes b => showBytesTok "h" b
  | _, .unit => "U"
  | _, .none => "N"
  | .opt t, .some v => "S(" ++ showVal t v ++ ")"
  | .seq t, .list vs => "[" ++ ",".intercalate (vs.map (showVal t)) ++ "]"
  | .arr _ t, .list vs => "[" ++ ",".intercalate (vs.map (showVal t)) ++ "]"
  | .tup ts, .list vs => "[" ++ ",".intercalate (showTup ts vs) ++ "]"
  | .fields ts, .list vs => "[" ++ ",".intercalate (showTup ts vs) ++ "]"
  | _, .list vs => "[" ++ ",".intercalate (vs.map (showVal (.int .int))) ++ "]"
  | .map k v, .map kvs => "{" ++ ",".intercalate (showEntries k v kvs) ++ "}"
  | .tagged _ t, .tagged v => showVal t v
  | .enum ts, .variant i v => s!"V{i}(" ++ showVal (ts[i]?.getD .unit) v ++ ")"
  | _, _ => "?"
partial def showTup : List Ty → List Val → List String
  | t :: ts, v :: vs => showVal t v :: showTup ts vs
  | _, _ => []
partial def showEntries (k v : Ty) : List Val → List String
  | x :: y :: rest => (showVal k x ++ ":" ++ showVal v y) :: showEntries k v rest
  | _ => []
end

/-- canonical text of a decoded unordered collection (top level only). -/
def canonUnordered (desc : String) (t : Ty) (v : Val) : String :=
  let dedupSorted (xs : List String) : List String :=
    let sorted := xs.mergeSort (fun a b => a ≤ b)
    sorted.foldr (fun x acc => match acc with | y :: _ => if x == y then acc else x :: acc | [] => [x]) []
  match t, v with
  | .seq et, .list vs =>
      if desc.startsWith "uset(" then "[" ++ ",".intercalate (dedupSorted (vs.map (showVal et))) ++ "]"
      else if desc.startsWith "ubag(" then
        "[" ++ ",".intercalate ((vs.map (showVal et)).mergeSort (fun a b => a ≤ b)) ++ "]"
      else showVal t v
  | .map kt vt, .map kvs =>
      if desc.startsWith "umap(" then
        -- the last entry for a key wins
        let rec pairs : List Val → List (String × String)
          | x :: y :: rest => (showVal kt x, showVal vt y) :: pairs rest
          | _ => []
        let ps := pairs kvs
        let lastWins := ps.foldl (fun acc (p : String × String) => (acc.filter (fun q => q.1 != p.1)) ++ [p]) []
        let texts := lastWins.map fun p => p.1 ++ ":" ++ p.2
        "{" ++ ",".intercalate (texts.mergeSort (fun a b => a ≤ b)) ++ "}"
      else showVal t v
  | _, _ => showVal t v

def bytesLe : Bytes → Bytes → Bool
  | [], _ => true
  | _ :: _, [] => false
  | a :: as, b :: bs => if a < b then true else if a > b then false else bytesLe as bs

/-- canonical bytes of an encoded unordered collection: head, then element encodings sorted bytewise. -/
def canonUnorderedEnc (desc : String) (t : Ty) (v : Val) (bs : Bytes) : Bytes :=
  match t, v with
  | .seq et, .list vs =>
      if desc.startsWith "uset(" || desc.startsWith "ubag(" then
        let elems := vs.filterMap (encodeT et)
        let hd := Enc.array vs.length
        hd ++ (elems.mergeSort bytesLe).flatten
      else bs
  | .map kt vt, .map kvs =>
      if desc.startsWith "umap(" then
        let rec entries : List Val → List Bytes
          | x :: y :: rest => (((encodeT kt x).getD []) ++ ((encodeT vt y).getD [])) :: entries rest
          | _ => []
        Enc.map (kvs.length / 2) ++ ((entries kvs).mergeSort bytesLe).flatten
      else bs
  | _, _ => bs

def tencOp (w : List String) : String :=
  match w with
  | [d, vs] =>
    match parseTy d with
    | none => "bad-op"
    | some t =>
      match parseVal t vs with
      | none => "bad-op"
      | some v =>
        match encodeT t v with
        | some bs => s!"{hexOrDash (canonUnorderedEnc d t v bs)} len={lenT t v}"
        | none =>
          -- the encoder refuses (only `systime` before the epoch / out of range is generated this way)
          s!"err custom len={lenT t v}"
  | _ => "bad-op"

def tdecOp (w : List String) : String :=
  match w with
  | [d, h] =>
    match parseTy d, bytesOfHex h with
    | some t, some input => showRes (canonUnordered d t) input (decodeT t input)
    | _, _ => "bad-op"
  | _ => "bad-op"

end Minicbor.Drv.Typed
