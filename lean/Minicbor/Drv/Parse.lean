/-
  Driver handler for the reference parser (`wf parse <hex>`): the independent specification
  used by the C06 streams ("skip agrees with full decoding of the same item").
  Result: `ok () <position after the well-formed item> <tree valid> <indefinite array/map inside a definite one>` or `none`.
-/
import Minicbor.Drv.Proto
import Minicbor.Parse

namespace Minicbor.Drv

def wfOp (w : List String) : String :=
  match w with
  | ["parse", h] =>
    match bytesOfHex h with
    | none => "bad-op"
    | some input =>
      match parse input with
      | some (t, rest) =>
        s!"ok () {input.length - rest.length} {if t.valid then 1 else 0} {if t.indefInDef then 1 else 0}"
      | none => "none"
  | _ => "bad-op"

end Minicbor.Drv
