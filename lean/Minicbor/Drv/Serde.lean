/-
  Driver handlers for the serde bridge streams (C17, C18): value / type syntax parsers,
  canonical printers and the ops `ser de rt iser ide`.
  The value syntax is documented in harness/serde/src/sx.rs; type descriptors:

    bool u8…i64 f32 f64 char str bytes unit ustruct
    opt(T) nt(T) seq(T) useq(T) tup(T,…) ts(T,…) map(K,V) umap(K,V)
    st{f:T,…}  en{A,B(T),C(T,T),D{f:T}}  fl{pre|inner|post}  it(tag){…}  at(tag,content){…}  un{…}
    native:  vec(T) arr(n,T) tup(T,…) opt(T) map(K,V) and the scalars
-/
import Minicbor.Drv.Proto
import Minicbor.Serde

namespace Minicbor.Drv
open Minicbor.Serde

def strBytes (s : String) : Bytes := s.toUTF8.toList

def bytesStr (b : Bytes) : String := String.fromUTF8! (ByteArray.mk b.toArray)

/-! ### printing values -/

mutual
partial def showSVal : SVal → String
  | .bool b => if b then "b1" else "b0"
  | .int k v => s!"{k.name}:{v}"
  | .f32 b => "f32:" ++ padHex 8 b
  | .f64 b => "f64:" ++ padHex 16 b
  | .char c => s!"c:{c}"
  | .str s => "s:" ++ hexOrDash s
  | .bytes b => "y:" ++ hexOrDash b
  | .none => "n"
  | .some v => "S(" ++ showSVal v ++ ")"
  | .unit => "u"
  | .unitStruct => "US"
  | .unitVariant n => "UV:" ++ bytesStr n
  | .newtypeStruct v => "NS(" ++ showSVal v ++ ")"
  | .newtypeVariant n v => "NV:" ++ bytesStr n ++ "(" ++ showSVal v ++ ")"
  | .seq known xs => (if known then "[" else "[?") ++ showList xs ++ "]"
  | .tuple xs => "T(" ++ showList xs ++ ")"
  | .tupleStruct xs => "TS(" ++ showList xs ++ ")"
  | .tupleVariant n xs => "TV:" ++ bytesStr n ++ "(" ++ showList xs ++ ")"
  | .map known kvs => (if known then "M{" else "M?{") ++ showKvs kvs ++ "}"
  | .struct kvs => "R{" ++ showKvs kvs ++ "}"
  | .structVariant n kvs => "RV:" ++ bytesStr n ++ "{" ++ showKvs kvs ++ "}"
partial def showList (xs : List SVal) : String := ",".intercalate (xs.map showSVal)
partial def showKvs : List SVal → String
  | k :: v :: [] => showSVal k ++ "=" ++ showSVal v
  | k :: v :: rest => showSVal k ++ "=" ++ showSVal v ++ "," ++ showKvs rest
  | _ => ""
end

/-! ### parsing -/

def isWordChar (c : Char) : Bool := c.isAlphanum || c == '_' || c == '-'

def takeWord (cs : List Char) : String × List Char :=
  (String.ofList (cs.takeWhile isWordChar), cs.dropWhile isWordChar)

def eat (c : Char) : List Char → Option (List Char)
  | d :: cs => if c == d then some cs else none
  | [] => none

def kindOf? (s : String) : Option IntKind := IntKind.all.find? (fun k => k.name == s)

mutual
partial def pVal (cs : List Char) : Option (SVal × List Char) :=
  match cs with
  | '[' :: '?' :: cs => do let (xs, cs) ← pList ']' cs; pure (.seq false xs, cs)
  | '[' :: cs => do let (xs, cs) ← pList ']' cs; pure (.seq true xs, cs)
  | _ =>
    let (w, cs) := takeWord cs
    match w with
    | "b0" => some (.bool false, cs)
    | "b1" => some (.bool true, cs)
    | "n" => some (.none, cs)
    | "u" => some (.unit, cs)
    | "US" => some (.unitStruct, cs)
    | "S" => do let cs ← eat '(' cs; let (v, cs) ← pVal cs; let cs ← eat ')' cs; pure (.some v, cs)
    | "NS" => do let cs ← eat '(' cs; let (v, cs) ← pVal cs; let cs ← eat ')' cs; pure (.newtypeStruct v, cs)
    | "T" => do let cs ← eat '(' cs; let (xs, cs) ← pList ')' cs; pure (.tuple xs, cs)
    | "TS" => do let cs ← eat '(' cs; let (xs, cs) ← pList ')' cs; pure (.tupleStruct xs, cs)
    | "R" => do let cs ← eat '{' cs; let (kvs, cs) ← pKvs cs; pure (.struct kvs, cs)
    | "M" =>
      match cs with
      | '?' :: cs => do let cs ← eat '{' cs; let (kvs, cs) ← pKvs cs; pure (.map false kvs, cs)
      | _ => do let cs ← eat '{' cs; let (kvs, cs) ← pKvs cs; pure (.map true kvs, cs)
    | _ => do
      let cs ← eat ':' cs
      let (a, cs) := takeWord cs
      match kindOf? w with
      | some k => do
        let n ← a.toInt?
        if k.lo ≤ n && n ≤ k.hi then pure (.int k n, cs) else none
      | none =>
        match w with
        | "f32" => do if a.length != 8 then none else let b ← hexNat? a; pure (.f32 b, cs)
        | "f64" => do if a.length != 16 then none else let b ← hexNat? a; pure (.f64 b, cs)
        | "c" => do let n ← a.toNat?; if isScalar n then pure (.char n, cs) else none
        | "s" => do let b ← bytesOfHex a; if validUtf8 b then pure (.str b, cs) else none
        | "y" => do let b ← bytesOfHex a; pure (.bytes b, cs)
        | "UV" => some (.unitVariant (strBytes a), cs)
        | "NV" => do let cs ← eat '(' cs; let (v, cs) ← pVal cs; let cs ← eat ')' cs; pure (.newtypeVariant (strBytes a) v, cs)
        | "TV" => do let cs ← eat '(' cs; let (xs, cs) ← pList ')' cs; pure (.tupleVariant (strBytes a) xs, cs)
        | "RV" => do let cs ← eat '{' cs; let (kvs, cs) ← pKvs cs; pure (.structVariant (strBytes a) kvs, cs)
        | _ => none
partial def pList (close : Char) (cs : List Char) : Option (List SVal × List Char) :=
  match cs with
  | c :: rest =>
    if c == close then some ([], rest)
    else do
      let (v, cs) ← pVal cs
      match cs with
      | ',' :: cs => do let (vs, cs) ← pList close cs; if vs.isEmpty then none else pure (v :: vs, cs)
      | c :: cs => if c == close then pure ([v], cs) else none
      | [] => none
  | [] => none
partial def pKvs (cs : List Char) : Option (List SVal × List Char) :=
  match cs with
  | '}' :: rest => some ([], rest)
  | _ => do
    let (k, cs) ← pVal cs
    let cs ← eat '=' cs
    let (v, cs) ← pVal cs
    match cs with
    | ',' :: cs => do let (kvs, cs) ← pKvs cs; if kvs.isEmpty then none else pure (k :: v :: kvs, cs)
    | '}' :: cs => pure ([k, v], cs)
    | _ => none
end

def parseSVal (s : String) : Option SVal :=
  match pVal s.toList with
  | some (v, []) => some v
  | _ => none

/-- variant / field lists: `(names, shapes)`; fields also carry their `skip_serializing_if` marks
    (`name?:T` = `Option::is_none`, `name*:T` = `Vec::is_empty`) -/
structure Fields where
  names : List Bytes
  types : List SType
  skips : List SkipIf

def Fields.plain (f : Fields) : Bool := f.skips.all (· == .never)
def Fields.cons (n : Bytes) (t : SType) (k : SkipIf) (f : Fields) : Fields := ⟨n :: f.names, t :: f.types, k :: f.skips⟩
abbrev Variants := List Bytes × List VShape

mutual
partial def pType (cs : List Char) : Option (SType × List Char) :=
  let (w, cs) := takeWord cs
  match kindOf? w with
  | some k => some (.int k, cs)
  | none =>
    match w with
    | "bool" => some (.bool, cs)
    | "f32" => some (.f32, cs)
    | "f64" => some (.f64, cs)
    | "char" => some (.char, cs)
    | "str" => some (.str, cs)
    | "bytes" => some (.bytes, cs)
    | "unit" => some (.unit, cs)
    | "ustruct" => some (.unitStruct, cs)
    | "opt" => do let cs ← eat '(' cs; let (t, cs) ← pType cs; let cs ← eat ')' cs; pure (.option t, cs)
    | "nt" => do let cs ← eat '(' cs; let (t, cs) ← pType cs; let cs ← eat ')' cs; pure (.newtype t, cs)
    | "seq" => do let cs ← eat '(' cs; let (t, cs) ← pType cs; let cs ← eat ')' cs; pure (.seq true t, cs)
    | "useq" => do let cs ← eat '(' cs; let (t, cs) ← pType cs; let cs ← eat ')' cs; pure (.seq false t, cs)
    | "tup" => do let cs ← eat '(' cs; let (ts, cs) ← pTypes ')' cs; pure (.tuple ts, cs)
    | "ts" => do let cs ← eat '(' cs; let (ts, cs) ← pTypes ')' cs; pure (.tupleStruct ts, cs)
    | "map" => do
      let cs ← eat '(' cs; let (k, cs) ← pType cs; let cs ← eat ',' cs; let (v, cs) ← pType cs; let cs ← eat ')' cs
      pure (.map true k v, cs)
    | "umap" => do
      let cs ← eat '(' cs; let (k, cs) ← pType cs; let cs ← eat ',' cs; let (v, cs) ← pType cs; let cs ← eat ')' cs
      pure (.map false k v, cs)
    | "st" => do
      let cs ← eat '{' cs; let (f, cs) ← pFields '}' cs
      pure (if f.plain then .struct f.names f.types else .structS f.names f.types f.skips, cs)
    | "en" => do let cs ← eat '{' cs; let (v, cs) ← pVariants cs; pure (.enum v.1 v.2, cs)
    | "un" => do let cs ← eat '{' cs; let (v, cs) ← pVariants cs; pure (.untagged v.2, cs)
    | "fl" => do
      let cs ← eat '{' cs
      let (a, cs) ← pFields '|' cs
      let (b, cs) ← pFields '|' cs
      let (c, cs) ← pFields '}' cs
      pure (.flat a.names a.types b.names b.types c.names c.types, cs)
    | "it" => do
      let cs ← eat '(' cs; let (tag, cs) := takeWord cs; let cs ← eat ')' cs
      let cs ← eat '{' cs; let (v, cs) ← pVariants cs
      pure (.itag (strBytes tag) v.1 v.2, cs)
    | "at" => do
      let cs ← eat '(' cs; let (tag, cs) := takeWord cs; let cs ← eat ',' cs; let (ct, cs) := takeWord cs; let cs ← eat ')' cs
      let cs ← eat '{' cs; let (v, cs) ← pVariants cs
      pure (.atag (strBytes tag) (strBytes ct) v.1 v.2, cs)
    | _ => none
partial def pTypes (close : Char) (cs : List Char) : Option (List SType × List Char) :=
  match cs with
  | c :: rest =>
    if c == close then some ([], rest)
    else do
      let (t, cs) ← pType cs
      match cs with
      | ',' :: cs => do let (ts, cs) ← pTypes close cs; pure (t :: ts, cs)
      | c :: cs => if c == close then pure ([t], cs) else none
      | [] => none
  | [] => none
partial def pFields (close : Char) (cs : List Char) : Option (Fields × List Char) :=
  match cs with
  | c :: rest =>
    if c == close then some (⟨[], [], []⟩, rest)
    else do
      let (n, cs) := takeWord cs
      let (k, cs) := (match cs with
        | '?' :: cs => (SkipIf.isNone, cs)
        | '*' :: cs => (SkipIf.isEmpty, cs)
        | cs => (SkipIf.never, cs))
      let cs ← eat ':' cs
      let (t, cs) ← pType cs
      match cs with
      | ',' :: cs => do let (f, cs) ← pFields close cs; pure (f.cons (strBytes n) t k, cs)
      | c :: cs => if c == close then pure (⟨[strBytes n], [t], [k]⟩, cs) else none
      | [] => none
  | [] => none
partial def pVariant (cs : List Char) : Option ((Bytes × VShape) × List Char) :=
  let (n, cs) := takeWord cs
  match cs with
  | '(' :: cs => do
    let (ts, cs) ← pTypes ')' cs
    match ts with
    | [t] => pure ((strBytes n, .newtype t), cs)
    | ts => pure ((strBytes n, .tuple ts), cs)
  | '{' :: cs => do
    let (f, cs) ← pFields '}' cs
    pure ((strBytes n, if f.plain then .struct f.names f.types else .structS f.names f.types f.skips), cs)
  | _ => some ((strBytes n, .unit), cs)
partial def pVariants (cs : List Char) : Option (Variants × List Char) :=
  match cs with
  | '}' :: rest => some (([], []), rest)
  | _ => do
    let (v, cs) ← pVariant cs
    match cs with
    | ',' :: cs => do let (vs, cs) ← pVariants cs; pure ((v.1 :: vs.1, v.2 :: vs.2), cs)
    | '}' :: cs => pure (([v.1], [v.2]), cs)
    | _ => none
end

def parseSType (s : String) : Option SType :=
  match pType s.toList with
  | some (t, []) => some t
  | _ => none

mutual
partial def pNType (cs : List Char) : Option (NType × List Char) :=
  let (w, cs) := takeWord cs
  match kindOf? w with
  | some k => some (.int k, cs)
  | none =>
    match w with
    | "bool" => some (.bool, cs)
    | "f32" => some (.f32, cs)
    | "f64" => some (.f64, cs)
    | "char" => some (.char, cs)
    | "str" => some (.str, cs)
    | "unit" => some (.unit, cs)
    | "opt" => do let cs ← eat '(' cs; let (t, cs) ← pNType cs; let cs ← eat ')' cs; pure (.option t, cs)
    | "vec" => do let cs ← eat '(' cs; let (t, cs) ← pNType cs; let cs ← eat ')' cs; pure (.vec t, cs)
    | "arr" => do
      let cs ← eat '(' cs; let (n, cs) := takeWord cs; let n ← n.toNat?; let cs ← eat ',' cs
      let (t, cs) ← pNType cs; let cs ← eat ')' cs
      pure (.array n t, cs)
    | "tup" => do let cs ← eat '(' cs; let (ts, cs) ← pNTypes cs; pure (.tuple ts, cs)
    | "map" => do
      let cs ← eat '(' cs; let (k, cs) ← pNType cs; let cs ← eat ',' cs; let (v, cs) ← pNType cs; let cs ← eat ')' cs
      pure (.map k v, cs)
    | _ => none
partial def pNTypes (cs : List Char) : Option (List NType × List Char) :=
  match cs with
  | ')' :: rest => some ([], rest)
  | _ => do
    let (t, cs) ← pNType cs
    match cs with
    | ',' :: cs => do let (ts, cs) ← pNTypes cs; pure (t :: ts, cs)
    | ')' :: cs => pure ([t], cs)
    | _ => none
end

def parseNType (s : String) : Option NType :=
  match pNType s.toList with
  | some (t, []) => some t
  | _ => none

/-! ### ops -/

def showDe (input : Bytes) : Res SVal → String
  | .ok v rest => s!"ok {showSVal v} {input.length - rest.length}"
  | .err .custom _ => "unmodelled"
  | .err e rest => s!"err {e.name} {input.length - rest.length}"
  | .panic => "panic"

def serdeOp (w : List String) : String :=
  match w with
  | ["ser", _, v] =>
    match parseSVal v with
    | some v => hexOfBytes (ser v)
    | none => "bad-op"
  | ["de", t, h] =>
    match parseSType t, bytesOfHex h with
    | some t, some input => showDe input (de t input)
    | _, _ => "bad-op"
  | ["rt", t, v] =>
    match parseSType t, parseSVal v with
    | some t, some v =>
      let bs := ser v
      hexOfBytes bs ++ " " ++ showDe bs (de t bs)
    | _, _ => "bad-op"
  | ["iser", t, v] =>
    match parseNType t, parseSVal v with
    | some t, some v => hexOfBytes (natEnc t v) ++ " " ++ hexOfBytes (ser v)
    | _, _ => "bad-op"
  | ["ide", t, h] =>
    match parseNType t, bytesOfHex h with
    | some t, some input => showDe input (natDec t input) ++ " | " ++ showDe input (de t.toS input)
    | _, _ => "bad-op"
  | _ => "bad-op"

end Minicbor.Drv
