/-
  Driver handlers for C13: `sink <kind> <cap> <chunk-hex>…` (raw `write_all` sequence) and
  `sinkenc <kind> <cap> <method[:arg]>…` (calls chained on one Encoder over the sink), see
  harness/core/src/sinkop.rs for the protocol.  Runs `Sink.writeSeq` / `Sink.putAll` — the
  definitions the C13 theorems are about — on a buffer of `cap` bytes 0xEE between two 16-byte
  canary regions, with the put structure of `Enc.putsOfHead` / `Enc.putsString`.
-/
import Minicbor.Drv.Core
import Minicbor.Sink
import Minicbor.EncPuts

namespace Minicbor.Drv
open Minicbor.Sink

def canaryL : Bytes := (List.range 16).map fun i => Minicbor.u8 (0xA5 ^^^ i)
def canaryR : Bytes := (List.range 16).map fun i => Minicbor.u8 (0x5A ^^^ i)

/-- a fresh sink of the given kind; `none` = malformed. -/
def mkSink (kind : String) (cap : Nat) : Option Sink :=
  let b := freshBuf canaryL (List.replicate cap 0xEE) canaryR
  if cap > 1048576 then none else
  match kind with
  | "slice"  => some (.bounded .slice b)
  | "cslice" => some (.bounded .cursorSlice b)
  | "carray" => if cap ≤ 40 then some (.bounded .cursorArray b) else none
  | "cbox"   => some (.bounded .cursorBox b)
  | "vec"    => some (.vec [])
  | _ =>
    if kind.startsWith "io:" then (kind.drop 3).toString.toNat?.map fun st => .io b st else none

def showSink (status : String) (cap : Nat) (s : Sink) : String :=
  let (buf, ok) := match s with
    | .vec d => (d, true)
    | _ =>
      let m := s.memory
      ((m.drop 16).take cap, m.length == cap + 32 && m.take 16 == canaryL && m.drop (16 + cap) == canaryR)
  s!"{status} pos={s.position} buf={hexOrDash buf} canary={if ok then "ok" else "clobbered"}"

def sinkOp (w : List String) : String :=
  match w with
  | kind :: c :: chunks =>
    match c.toNat?, chunks.mapM bytesOfHex with
    | some cap, some cs =>
      match mkSink kind cap with
      | none => "bad-op"
      | some s =>
        match s.writeSeq cs with
        | none => "panic"
        | some (s', oks) =>
          let st := "seq:" ++ (if oks.isEmpty then "-" else ",".intercalate (oks.map fun o => if o then "ok" else "err"))
          showSink st cap s'
    | _, _ => "bad-op"
  | _ => "bad-op"

/-- the `put` chunks of one Encoder call `name[:arg]` (the bytes are those of `encOp`). -/
def putsOfCall (call : String) : Option (List Bytes) :=
  let (m, a) := match call.splitOn ":" with
    | [m, a] => (m, some a)
    | [m] => (m, none)
    | _ => ("", none)
  let flat := match a with
    | some a => bytesOfHex (encOp [m, a])
    | none => bytesOfHex (encOp [m])
  match flat with
  | none => none
  | some flat =>
    if m == "bytes" || m == "str" then
      match a.bind bytesOfHex with
      | some payload => some (Enc.putsOfHead (flat.take (flat.length - payload.length)) ++ [payload])
      | none => none
    else some (Enc.putsOfHead flat)

def sinkencOp (w : List String) : String :=
  match w with
  | kind :: c :: calls =>
    match c.toNat?, calls.mapM putsOfCall with
    | some cap, some pss =>
      match mkSink kind cap with
      | none => "bad-op"
      | some s =>
        match s.putAll pss.flatten with
        | .ok s' => showSink "ok" cap s'
        | .err s' => showSink "err write" cap s'
        | .panic => "panic"
    | _, _ => "bad-op"
  | _ => "bad-op"

/-- `encseq` (harness/cfg): the calls one after the other on ONE sink, carrying on after a failed call:
    `Sink.callSeq`, the definition `C13.call_script` is about. -/
def encseqOp (w : List String) : String :=
  match w with
  | kind :: c :: calls =>
    match c.toNat?, calls.mapM putsOfCall with
    | some cap, some pss =>
      let k := if kind == "carr" then "carray" else kind
      if kind == "carr" && cap != 12 then "bad-op" else
      if !(kind == "carr" || kind == "slice" || kind == "cslice" || kind == "cbox") || cap > 4096 then "bad-op" else
      match mkSink k cap with
      | none => "bad-op"
      | some s =>
        match s.callSeq pss with
        | none => "panic"
        | some (s', oks) =>
          let rs := oks.map fun o => if o then "ok" else "write"
          let buf := (s'.memory.drop 16).take cap
          s!"{if rs.isEmpty then "-" else ",".intercalate rs} pos={s'.position} buf={hexOrDash buf}"
    | _, _ => "bad-op"
  | _ => "bad-op"

end Minicbor.Drv
