/-
  Driver handlers for the Encoder / Decoder method streams (`enc`, `dec`).
-/
import Minicbor.Drv.Proto
import Minicbor.Encoder
import Minicbor.Decoder
import Minicbor.Skip
import Minicbor.Wire
import Minicbor.IntConv
import Minicbor.Info

namespace Minicbor.Drv

def inRange (lo hi : Int) (x : Int) : Bool := lo ≤ x && x ≤ hi

def encOp (w : List String) : String :=
  match w with
  | [m] =>
    match m with
    | "null" => hexOfBytes Enc.null
    | "undefined" => hexOfBytes Enc.undefined
    | "begin_array" => hexOfBytes Enc.beginArray
    | "begin_bytes" => hexOfBytes Enc.beginBytes
    | "begin_map" => hexOfBytes Enc.beginMap
    | "begin_str" => hexOfBytes Enc.beginStr
    | "end" => hexOfBytes Enc.end
    | _ => "bad-op"
  | [m, a] =>
    let int? := a.toInt?
    let num (lo hi : Int) (f : Int → Bytes) : String :=
      match int? with
      | some x => if inRange lo hi x then hexOfBytes (f x) else "bad-op"
      | none => "bad-op"
    match m with
    | "u8"  => num 0 255 (fun x => Enc.u8 x.toNat)
    | "u16" => num 0 65535 (fun x => Enc.u16 x.toNat)
    | "u32" => num 0 4294967295 (fun x => Enc.u32 x.toNat)
    | "u64" => num 0 18446744073709551615 (fun x => Enc.u64 x.toNat)
    | "i8"  => num (-128) 127 Enc.i8
    | "i16" => num (-32768) 32767 Enc.i16
    | "i32" => num (-2147483648) 2147483647 Enc.i32
    | "i64" => num (-9223372036854775808) 9223372036854775807 Enc.i64
    | "int" => num (-18446744073709551616) 18446744073709551615
                 (fun x => if x ≥ 0 then Enc.int false x.toNat else Enc.int true (-1 - x).toNat)
    | "simple" => num 0 255 (fun x => Enc.simple x.toNat)
    | "bool" => if a == "1" then hexOfBytes (Enc.bool true) else hexOfBytes (Enc.bool false)
    | "char" => match int? with
        | some x => if x ≥ 0 && isScalar x.toNat then hexOfBytes (Enc.char x.toNat) else "bad-op"
        | none => "bad-op"
    | "tag" => num 0 18446744073709551615 (fun x => Enc.tag x.toNat)
    | "array" => num 0 18446744073709551615 (fun x => Enc.array x.toNat)
    | "map" => num 0 18446744073709551615 (fun x => Enc.map x.toNat)
    | "f16" => match hexNat? a with | some b => hexOfBytes (Enc.f16 b) | none => "bad-op"
    | "f32" => match hexNat? a with | some b => hexOfBytes (Enc.f32 b) | none => "bad-op"
    | "f64" => match hexNat? a with | some b => hexOfBytes (Enc.f64 b) | none => "bad-op"
    | "bytes" => match bytesOfHex a with | some b => hexOfBytes (Enc.bytes b) | none => "bad-op"
    | "str" => match bytesOfHex a with
        | some b => if validUtf8 b then hexOfBytes (Enc.str b) else "bad-op"
        | none => "bad-op"
    | _ => "bad-op"
  | _ => "bad-op"

/-- the independent specification for `enc` operations: the RFC 8949 preferred serialisation
    of the data-model value the call denotes (`invalid` if there is none). -/
def encSpec (w : List String) : String :=
  let item (x : Int) : Item := if x ≥ 0 then .uint x.toNat else .nint (-1 - x).toNat
  match w with
  | [m] =>
    match m with
    | "null" => hexOfBytes (encPref (.simple 22))
    | "undefined" => hexOfBytes (encPref (.simple 23))
    | "begin_array" => "9f" | "begin_bytes" => "5f" | "begin_map" => "bf" | "begin_str" => "7f" | "end" => "ff"
    | _ => "bad-op"
  | [m, a] =>
    let int? := a.toInt?
    let num (lo hi : Int) (f : Int → Bytes) : String :=
      match int? with
      | some x => if inRange lo hi x then hexOfBytes (f x) else "bad-op"
      | none => "bad-op"
    match m with
    | "u8"  => num 0 255 (fun x => encPref (item x))
    | "u16" => num 0 65535 (fun x => encPref (item x))
    | "u32" => num 0 4294967295 (fun x => encPref (item x))
    | "u64" => num 0 18446744073709551615 (fun x => encPref (item x))
    | "i8"  => num (-128) 127 (fun x => encPref (item x))
    | "i16" => num (-32768) 32767 (fun x => encPref (item x))
    | "i32" => num (-2147483648) 2147483647 (fun x => encPref (item x))
    | "i64" => num (-9223372036854775808) 9223372036854775807 (fun x => encPref (item x))
    | "int" => num (-18446744073709551616) 18446744073709551615 (fun x => encPref (item x))
    | "simple" => match int? with
        | some x => if (WItem.simple x.toNat).valid && x ≥ 0 then hexOfBytes (encPref (.simple x.toNat)) else "invalid"
        | none => "bad-op"
    | "bool" => hexOfBytes (encPref (.simple (if a == "1" then 21 else 20)))
    | "char" => num 0 1114111 (fun x => encPref (item x))
    | "tag" => num 0 18446744073709551615 (fun x => head 6 x.toNat)
    | "array" => num 0 18446744073709551615 (fun x => head 4 x.toNat)
    | "map" => num 0 18446744073709551615 (fun x => head 5 x.toNat)
    | "f16" => match hexNat? a with | some b => hexOfBytes (encPref (.f16 (f32ToF16 b))) | none => "bad-op"
    | "f32" => match hexNat? a with | some b => hexOfBytes (encPref (.f32 b)) | none => "bad-op"
    | "f64" => match hexNat? a with | some b => hexOfBytes (encPref (.f64 b)) | none => "bad-op"
    | "bytes" => match bytesOfHex a with | some b => hexOfBytes (encPref (.bytes b)) | none => "bad-op"
    | "str" => match bytesOfHex a with | some b => hexOfBytes (encPref (.text b)) | none => "bad-op"
    | _ => "bad-op"
  | _ => "bad-op"

def intShow (x : Int) : String := toString x

/-- map the value of a result to its printed form. -/
def Res.mapStr (f : α → String) : Res α → Res String
  | .ok a r => .ok (f a) r
  | .err e r => .err e r
  | .panic => .panic

/-- one accessor call on the remaining input; the value is already printed. -/
def runAcc (acc : String) (input : Bytes) : Option (Res String) :=
  let i (t : Dec.IntTy) := some (Res.mapStr intShow (Dec.intAcc t input))
  match acc with
  | "bool" => some (Res.mapStr (fun b => if b then "1" else "0") (Dec.bool input))
  | "u8" => i .u8 | "u16" => i .u16 | "u32" => i .u32 | "u64" => i .u64
  | "i8" => i .i8 | "i16" => i .i16 | "i32" => i .i32 | "i64" => i .i64 | "int" => i .int
  | "f16" => some (Res.mapStr (padHex 8) (Dec.f16 input))
  | "f32" => some (Res.mapStr (padHex 8) (Dec.f32 true input))
  | "f64" => some (Res.mapStr (padHex 16) (Dec.f64 true input))
  | "f32_nohalf" => some (Res.mapStr (padHex 8) (Dec.f32 false input))
  | "f64_nohalf" => some (Res.mapStr (padHex 16) (Dec.f64 false input))
  | "char" => some (Res.mapStr toString (Dec.char input))
  | "bytes" => some (Res.mapStr hexOrDash (Dec.bytes input))
  | "str" => some (Res.mapStr hexOrDash (Dec.str input))
  | "bytes_iter" => some (Res.mapStr showChunks (Dec.bytesIter input))
  | "str_iter" => some (Res.mapStr showChunks (Dec.strIter input))
  | "array" => some (Res.mapStr showOpt (Dec.array input))
  | "map" => some (Res.mapStr showOpt (Dec.map input))
  | "tag" => some (Res.mapStr toString (Dec.tag input))
  | "null" => some (Res.mapStr (fun _ => "()") (Dec.null input))
  | "undefined" => some (Res.mapStr (fun _ => "()") (Dec.undefined input))
  | "simple" => some (Res.mapStr toString (Dec.simple input))
  | "datatype" => some (Res.mapStr CType.name (Dec.datatype input))
  | "skip" => some (Res.mapStr (fun _ => "()") (Dec.skip true input))
  | "skip_noalloc" => some (Res.mapStr (fun _ => "()") (Dec.skip false input))
  | _ => none

def decOp (w : List String) : String :=
  match w with
  | [acc, h] =>
    match bytesOfHex h with
    | none => "bad-op"
    | some input =>
      match runAcc acc input with
      | some r => showRes id input r
      | none => "bad-op"
  | _ => "bad-op"

/-- `seq <hex> <call> …`: calls on one decoder.  The model works on the remaining input; the
    driver keeps the position: a position beyond the end behaves like the empty remaining input
    and does not move (every call answers end-of-input there). -/
def seqOp (w : List String) : String :=
  match w with
  | h :: calls =>
    match bytesOfHex h with
    | none => "bad-op"
    | some input =>
      let len := input.length
      let step (st : Nat × List String × Bool) (c : String) : Nat × List String × Bool :=
        let (pos, out, bad) := st
        if bad then st else
        let rem := input.drop pos
        let newPos (r : Bytes) : Nat := if pos ≤ len then len - r.length else pos
        if c.startsWith "setpos:" then
          match (c.drop 7).toString.toNat? with
          | some n => (n, out ++ [s!"pos {n}"], false)
          | none => (pos, out, true)
        else if c.startsWith "probe:" then
          match runAcc (c.drop 6).toString rem with
          | some (.ok v r) => (pos, out ++ [s!"ok {v} {newPos r} {pos}"], false)
          | some (.err e r) => (pos, out ++ [s!"err {e.name} {newPos r} {pos}"], false)
          | some .panic => (pos, out ++ ["panic"], false)
          | none => (pos, out, true)
        else
          match runAcc c rem with
          | some (.ok v r) => (newPos r, out ++ [s!"ok {v} {newPos r}"], false)
          | some (.err e r) => (newPos r, out ++ [s!"err {e.name} {newPos r}"], false)
          | some .panic => (pos, out ++ ["panic"], false)
          | none => (pos, out, true)
      let (_, out, bad) := calls.foldl step (0, [], false)
      if bad then "bad-op" else ";".intercalate out
  | _ => "bad-op"

/-- `enciter <array|map> <exact|loose|even|open> <values>` (see harness/core/src/encop.rs).  The size hint of
    `slice::Iter` is exact; `filter` keeps only the upper bound (so it is exact only for an empty
    source); a chain with an open-ended iterator has no upper bound.  The second result is the
    specification: the preferred definite form when the hint was exact, else the indefinite form. -/
def enciterOp (w : List String) : String :=
  match w with
  | [kind, hint, vs] =>
    let vals? : Option (List Nat) := if vs == "-" then some [] else (vs.splitOn ",").mapM (·.toNat?)
    match vals? with
    | none => "bad-op"
    | some vals =>
      let src := vals.length
      let kept := if hint == "even" then vals.filter (· % 2 == 0) else vals
      let exact := if hint == "exact" then true else if hint == "open" then false else src == 0
      if kind == "array" then hexOfBytes (Enc.arrayIter exact (kept.map Enc.u32))
      else if kind == "map" then
        let idx := (List.range src).zip vals
        let keptP := if hint == "even" then idx.filter (·.2 % 2 == 0) else idx
        hexOfBytes (Enc.mapIter exact (keptP.flatMap fun p => [Enc.u32 p.1, Enc.u32 p.2]))
      else "bad-op"
  | _ => "bad-op"

/-- `size head <byte-hex>` / `size tail <hex>` -/
def sizeOp (w : List String) : String :=
  match w with
  | ["head", h] =>
    match bytesOfHex h with
    | some [b] => (match Size.headLen b with | .ok n => s!"ok {n}" | .error e => s!"err {e.name}")
    | _ => "bad-op"
  | ["tail", h] =>
    match bytesOfHex h with
    | some bs =>
      match Size.tail bs with
      | .ok .head => "ok head" | .ok (.bytes n) => s!"ok bytes:{n}" | .ok (.items n) => s!"ok items:{n}" | .ok .indef => "ok indef"
      | .error e => s!"err {e.name}"
    | none => "bad-op"
  | _ => "bad-op"

/-- `intconv to:<T> <v>` / `intconv from:<T> <v>` (see harness/core/src/intconv.rs). -/
def intconvOp (w : List String) : String :=
  match w with
  | [dt, a] =>
    match dt.splitOn ":", a.toInt? with
    | [dir, t], some v =>
      let showO (o : Option Int) : String := match o with | some x => s!"ok {x}" | none => "err"
      let nat (o : Option Nat) : Option Int := o.map (fun (n : Nat) => (n : Int))
      if dir == "to" then
        match CInt.ofI128 v with
        | none => "norep"
        | some c =>
          match t with
          | "u8" => showO (nat (c.toUnsigned 255)) | "u16" => showO (nat (c.toUnsigned 65535))
          | "u32" => showO (nat (c.toUnsigned 4294967295)) | "u64" => showO (nat c.toU64) | "u128" => showO (nat c.toU128)
          | "i8" => showO (c.toSigned (-128) 127) | "i16" => showO (c.toSigned (-32768) 32767)
          | "i32" => showO (c.toSigned (-2147483648) 2147483647) | "i64" => showO c.toI64
          | "i128" => s!"ok {c.toI128}"
          | _ => "bad-op"
      else if dir == "from" then
        let rng (lo hi : Int) (f : Int → Option CInt) : String :=
          if lo ≤ v && v ≤ hi then (match f v with | some c => s!"ok {c.toI128}" | none => "err") else "bad-op"
        match t with
        | "u8" => rng 0 255 (fun x => some (CInt.ofU64 x.toNat)) | "u16" => rng 0 65535 (fun x => some (CInt.ofU64 x.toNat))
        | "u32" => rng 0 4294967295 (fun x => some (CInt.ofU64 x.toNat))
        | "u64" => rng 0 18446744073709551615 (fun x => some (CInt.ofU64 x.toNat))
        | "i8" => rng (-128) 127 (fun x => some (CInt.ofI64 x)) | "i16" => rng (-32768) 32767 (fun x => some (CInt.ofI64 x))
        | "i32" => rng (-2147483648) 2147483647 (fun x => some (CInt.ofI64 x))
        | "i64" => rng (-9223372036854775808) 9223372036854775807 (fun x => some (CInt.ofI64 x))
        | "u128" => rng 0 340282366920938463463374607431768211455 (fun x => CInt.ofU128 x.toNat)
        | "i128" => rng (-170141183460469231731687303715884105728) 170141183460469231731687303715884105727 CInt.ofI128
        | _ => "bad-op"
      else "bad-op"
    | _, _ => "bad-op"
  | _ => "bad-op"

/-- `tovecs <call>…` (harness/cfg, alloc builds): successive `minicbor::to_vec` calls; a call's result does not depend on
    the calls before it: `f` fails, `u8:<n>` / `str:<hex>` give the encoding. -/
def tovecsOp (w : List String) : String :=
  let one (c : String) : Option String :=
    match c.splitOn ":" with
    | ["f"] => some "err"
    | ["u8", a] => match a.toNat? with
      | some n => if n < 256 then some (hexOfBytes (Enc.u8 n)) else none
      | none => none
    | ["str", a] => (bytesOfHex a).map fun b => hexOfBytes (Enc.str b)
    | _ => none
  match w.mapM one with
  | some rs => if rs.isEmpty then "-" else ",".intercalate rs
  | none => "bad-op"

end Minicbor.Drv
