/-
  Driver handlers for the Encoder / Decoder method streams (`enc`, `dec`).
-/
import Minicbor.Drv.Proto
import Minicbor.Encoder
import Minicbor.Decoder
import Minicbor.Skip
import Minicbor.Wire

namespace Minicbor.Drv

def inRange (lo hi : Int) (x : Int) : Bool := lo ≤ x && x ≤ hi

def encOp (w : List String) : String :=
  match w with
  | [m] =>
    match m with
    | "null" => hexOfBytes Enc.null
    | "undefined" => hexOfBytes Enc.undefined
    | "begin_array" => hexOfBytes Enc.beginArray
    | "begin_bytes" => hexOfBytes Enc.beginBytes
    | "begin_map" => hexOfBytes Enc.beginMap
    | "begin_str" => hexOfBytes Enc.beginStr
    | "end" => hexOfBytes Enc.end
    | _ => "bad-op"
  | [m, a] =>
    let int? := a.toInt?
    let num (lo hi : Int) (f : Int → Bytes) : String :=
      match int? with
      | some x => if inRange lo hi x then hexOfBytes (f x) else "bad-op"
      | none => "bad-op"
    match m with
    | "u8"  => num 0 255 (fun x => Enc.u8 x.toNat)
    | "u16" => num 0 65535 (fun x => Enc.u16 x.toNat)
    | "u32" => num 0 4294967295 (fun x => Enc.u32 x.toNat)
    | "u64" => num 0 18446744073709551615 (fun x => Enc.u64 x.toNat)
    | "i8"  => num (-128) 127 Enc.i8
    | "i16" => num (-32768) 32767 Enc.i16
    | "i32" => num (-2147483648) 2147483647 Enc.i32
    | "i64" => num (-9223372036854775808) 9223372036854775807 Enc.i64
    | "int" => num (-18446744073709551616) 18446744073709551615
                 (fun x => if x ≥ 0 then Enc.int false x.toNat else Enc.int true (-1 - x).toNat)
    | "simple" => num 0 255 (fun x => Enc.simple x.toNat)
    | "bool" => if a == "1" then hexOfBytes (Enc.bool true) else hexOfBytes (Enc.bool false)
    | "char" => match int? with
        | some x => if x ≥ 0 && isScalar x.toNat then hexOfBytes (Enc.char x.toNat) else "bad-op"
        | none => "bad-op"
    | "tag" => num 0 18446744073709551615 (fun x => Enc.tag x.toNat)
    | "array" => num 0 18446744073709551615 (fun x => Enc.array x.toNat)
    | "map" => num 0 18446744073709551615 (fun x => Enc.map x.toNat)
    | "f16" => match hexNat? a with | some b => hexOfBytes (Enc.f16 b) | none => "bad-op"
    | "f32" => match hexNat? a with | some b => hexOfBytes (Enc.f32 b) | none => "bad-op"
    | "f64" => match hexNat? a with | some b => hexOfBytes (Enc.f64 b) | none => "bad-op"
    | "bytes" => match bytesOfHex a with | some b => hexOfBytes (Enc.bytes b) | none => "bad-op"
    | "str" => match bytesOfHex a with
        | some b => if validUtf8 b then hexOfBytes (Enc.str b) else "bad-op"
        | none => "bad-op"
    | _ => "bad-op"
  | _ => "bad-op"

/-- the independent specification for `enc` operations: the RFC 8949 preferred serialisation
    of the data-model value the call denotes (`invalid` if there is none). -/
def encSpec (w : List String) : String :=
  let item (x : Int) : Item := if x ≥ 0 then .uint x.toNat else .nint (-1 - x).toNat
  match w with
  | [m] =>
    match m with
    | "null" => hexOfBytes (encPref (.simple 22))
    | "undefined" => hexOfBytes (encPref (.simple 23))
    | "begin_array" => "9f" | "begin_bytes" => "5f" | "begin_map" => "bf" | "begin_str" => "7f" | "end" => "ff"
    | _ => "bad-op"
  | [m, a] =>
    let int? := a.toInt?
    let num (lo hi : Int) (f : Int → Bytes) : String :=
      match int? with
      | some x => if inRange lo hi x then hexOfBytes (f x) else "bad-op"
      | none => "bad-op"
    match m with
    | "u8"  => num 0 255 (fun x => encPref (item x))
    | "u16" => num 0 65535 (fun x => encPref (item x))
    | "u32" => num 0 4294967295 (fun x => encPref (item x))
    | "u64" => num 0 18446744073709551615 (fun x => encPref (item x))
    | "i8"  => num (-128) 127 (fun x => encPref (item x))
    | "i16" => num (-32768) 32767 (fun x => encPref (item x))
    | "i32" => num (-2147483648) 2147483647 (fun x => encPref (item x))
    | "i64" => num (-9223372036854775808) 9223372036854775807 (fun x => encPref (item x))
    | "int" => num (-18446744073709551616) 18446744073709551615 (fun x => encPref (item x))
    | "simple" => match int? with
        | some x => if (WItem.simple x.toNat).valid && x ≥ 0 then hexOfBytes (encPref (.simple x.toNat)) else "invalid"
        | none => "bad-op"
    | "bool" => hexOfBytes (encPref (.simple (if a == "1" then 21 else 20)))
    | "char" => num 0 1114111 (fun x => encPref (item x))
    | "tag" => num 0 18446744073709551615 (fun x => head 6 x.toNat)
    | "array" => num 0 18446744073709551615 (fun x => head 4 x.toNat)
    | "map" => num 0 18446744073709551615 (fun x => head 5 x.toNat)
    | "f16" => match hexNat? a with | some b => hexOfBytes (encPref (.f16 (f32ToF16 b))) | none => "bad-op"
    | "f32" => match hexNat? a with | some b => hexOfBytes (encPref (.f32 b)) | none => "bad-op"
    | "f64" => match hexNat? a with | some b => hexOfBytes (encPref (.f64 b)) | none => "bad-op"
    | "bytes" => match bytesOfHex a with | some b => hexOfBytes (encPref (.bytes b)) | none => "bad-op"
    | "str" => match bytesOfHex a with | some b => hexOfBytes (encPref (.text b)) | none => "bad-op"
    | _ => "bad-op"
  | _ => "bad-op"

def intShow (x : Int) : String := toString x

def decOp (w : List String) : String :=
  match w with
  | [acc, h] =>
    match bytesOfHex h with
    | none => "bad-op"
    | some input =>
      let i (t : Dec.IntTy) := showRes intShow input (Dec.intAcc t input)
      match acc with
      | "bool" => showRes (fun b => if b then "1" else "0") input (Dec.bool input)
      | "u8" => i .u8 | "u16" => i .u16 | "u32" => i .u32 | "u64" => i .u64
      | "i8" => i .i8 | "i16" => i .i16 | "i32" => i .i32 | "i64" => i .i64 | "int" => i .int
      | "f16" => showRes (padHex 8) input (Dec.f16 input)
      | "f32" => showRes (padHex 8) input (Dec.f32 true input)
      | "f64" => showRes (padHex 16) input (Dec.f64 true input)
      | "f32_nohalf" => showRes (padHex 8) input (Dec.f32 false input)
      | "f64_nohalf" => showRes (padHex 16) input (Dec.f64 false input)
      | "char" => showRes toString input (Dec.char input)
      | "bytes" => showRes hexOrDash input (Dec.bytes input)
      | "str" => showRes hexOrDash input (Dec.str input)
      | "bytes_iter" => showRes showChunks input (Dec.bytesIter input)
      | "str_iter" => showRes showChunks input (Dec.strIter input)
      | "array" => showRes showOpt input (Dec.array input)
      | "map" => showRes showOpt input (Dec.map input)
      | "tag" => showRes toString input (Dec.tag input)
      | "null" => showRes (fun _ => "()") input (Dec.null input)
      | "undefined" => showRes (fun _ => "()") input (Dec.undefined input)
      | "simple" => showRes toString input (Dec.simple input)
      | "datatype" => showRes CType.name input (Dec.datatype input)
      | "skip" => showRes (fun _ => "()") input (Dec.skip true input)
      | "skip_noalloc" => showRes (fun _ => "()") input (Dec.skip false input)
      | _ => "bad-op"
  | _ => "bad-op"

end Minicbor.Drv
