/-
  Driver handlers for tokens and the diagnostic display: `tokenc`, `tokdec`, `display`.
-/
import Minicbor.Drv.Proto
import Minicbor.Token

namespace Minicbor.Drv.Tok
open Minicbor.Drv

def showTok : Token → String
  | .bool b => "bool:" ++ (if b then "T" else "F")
  | .u8 n => s!"u8:{n}" | .u16 n => s!"u16:{n}" | .u32 n => s!"u32:{n}" | .u64 n => s!"u64:{n}"
  | .i8 v => s!"i8:{v}" | .i16 v => s!"i16:{v}" | .i32 v => s!"i32:{v}" | .i64 v => s!"i64:{v}"
  | .int v => s!"int:{v}"
  | .f16 b => "f16:x" ++ padHex 8 b | .f32 b => "f32:x" ++ padHex 8 b | .f64 b => "f64:x" ++ padHex 16 b
  | .bytes b => "bytes:h" ++ hexOrDash b
  | .string b => "string:s" ++ hexOrDash b
  | .array n => s!"array:{n}" | .map n => s!"map:{n}" | .tag n => s!"tag:{n}" | .simple n => s!"simple:{n}"
  | .brk => "break" | .null => "null" | .undefined => "undefined"
  | .beginBytes => "beginbytes" | .beginString => "beginstring" | .beginArray => "beginarray" | .beginMap => "beginmap"

def parseTok (s : String) : Option Token :=
  match s.splitOn ":" with
  | ["break"] => some .brk | ["null"] => some .null | ["undefined"] => some .undefined
  | ["beginbytes"] => some .beginBytes | ["beginstring"] => some .beginString
  | ["beginarray"] => some .beginArray | ["beginmap"] => some .beginMap
  | [k, a] =>
    let nat? := a.toNat?
    let int? := a.toInt?
    let hexp (p : Char) : Option String := match a.toList with
      | c :: r => if c == p then some (String.ofList r) else none
      | [] => none
    match k with
    | "bool" => if a == "T" then some (.bool true) else if a == "F" then some (.bool false) else none
    | "u8" => nat?.map .u8 | "u16" => nat?.map .u16 | "u32" => nat?.map .u32 | "u64" => nat?.map .u64
    | "i8" => int?.map .i8 | "i16" => int?.map .i16 | "i32" => int?.map .i32 | "i64" => int?.map .i64
    | "int" => int?.map .int
    | "f16" => (hexp 'x').bind hexNat? |>.map .f16
    | "f32" => (hexp 'x').bind hexNat? |>.map .f32
    | "f64" => (hexp 'x').bind hexNat? |>.map .f64
    | "bytes" => (hexp 'h').bind bytesOfHex |>.map .bytes
    | "string" => (hexp 's').bind bytesOfHex |>.map .string
    | "array" => nat?.map .array | "map" => nat?.map .map | "tag" => nat?.map .tag | "simple" => nat?.map .simple
    | _ => none
  | _ => none

def parseToks (s : String) : Option (List Token) :=
  if s == "-" then some [] else (s.splitOn ",").mapM parseTok

def tokencOp (w : List String) : String :=
  match w with
  | [s] =>
    match parseToks s with
    | some ts =>
      if ts.all Token.ok then
        s!"{hexOrDash (encodeTokens ts)} len={(ts.map Token.len).foldl (· + ·) 0}"
      else "bad-op"
    | none => "bad-op"
  | _ => "bad-op"

def tokdecOp (w : List String) : String :=
  match w with
  | [h] =>
    match bytesOfHex h with
    | none => "bad-op"
    | some bs =>
      match tokens bs with
      | none => "panic"
      | some items =>
        let toks := items.filterMap fun | .tok t => some (showTok t) | .err _ => none
        let tail := match items.getLast? with
          | some (.err e) => s!"err:{e.name}"
          | _ => "end"
        let body := if toks.isEmpty then "-" else ",".intercalate toks
        s!"{body} {tail} pos={bs.length}"
  | _ => "bad-op"

def showPiece : Piece → String
  | .lit s => "l:" ++ hexOrDash s.toUTF8.toList
  | .raw b => "l:" ++ hexOrDash b
  | .flt32 b => "f32:" ++ padHex 8 b
  | .flt64 b => "f64:" ++ padHex 16 b
  | .errmsg e => "e:" ++ e.name

def displayOp (w : List String) : String :=
  match w with
  | [h] =>
    match bytesOfHex h with
    | none => "bad-op"
    | some bs =>
      match display bs with
      | none => "panic"
      | some ps => if ps.isEmpty then "-" else ",".intercalate (ps.map showPiece)
  | _ => "bad-op"

end Minicbor.Drv.Tok
