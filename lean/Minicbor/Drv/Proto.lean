/-
  Driver-side helpers for the line protocol (parsing arguments, printing results).
-/
import Minicbor.Prelude

namespace Minicbor.Drv

def hexNat? (s : String) : Option Nat :=
  s.toList.foldlM (fun acc c => do let d ← hexVal c; pure (acc * 16 + d)) 0

def padHex (width : Nat) (n : Nat) : String :=
  let ds := (Nat.toDigits 16 n)
  String.ofList (List.replicate (width - ds.length) '0' ++ ds)

def showRes (f : α → String) (input : Bytes) : Res α → String
  | .ok a rest  => s!"ok {f a} {input.length - rest.length}"
  | .err e rest => s!"err {e.name} {input.length - rest.length}"
  | .panic      => "panic"

def showChunks (cs : List Bytes) : String :=
  "[" ++ ",".intercalate (cs.map hexOrDash) ++ "]"

def showOpt : Option Nat → String
  | none => "none"
  | some n => s!"some:{n}"

end Minicbor.Drv
