/-
  Driver handler for `fblk <kind> <start-hex> <count> <stride>` (C12): block evaluation of the
  model's float paths (`Enc.f16/f32/f64`, `Dec.f32/f64` — the definitions the C12 theorems are
  about) over the binary32 patterns `(start + i*stride) mod 2^32`, `i < count`; prints the FNV-1a
  hash of all results in the format of harness/core/src/floatop.rs.  The harness additionally
  counts disagreements with its independent reference arithmetic (`bad=`); the model has no second
  opinion to offer — that it meets the reference is what the theorems say — so it prints `bad=0`.
-/
import Minicbor.Drv.Proto
import Minicbor.Encoder
import Minicbor.Decoder
import Minicbor.Narrow

namespace Minicbor.Drv

def splitmix (z : UInt64) : UInt64 :=
  let z := z + 0x9e3779b97f4a7c15
  let z := (z ^^^ (z >>> 30)) * 0xbf58476d1ce4e5b9
  let z := (z ^^^ (z >>> 27)) * 0x94d049bb133111eb
  z ^^^ (z >>> 31)

def fnvBytes (h : UInt64) (bs : Bytes) : UInt64 :=
  bs.foldl (fun h b => (h ^^^ b.toUInt64) * 0x00000100000001b3) h

/-- the result of one pattern as big-endian bytes (all-ones if the model reports an error). -/
def fblkOne (kind : String) (x64 : UInt64) : Option Bytes :=
  let x := x64.toNat % 4294967296
  match kind with
  | "enc16" => some ((Enc.f16 x).drop 1)
  | "dec64" => some (match Dec.f64 true (0xfa :: be 4 x) with | .ok v _ => be 8 v | _ => be 8 (2 ^ 64 - 1))
  | "dec32" => some (match Dec.f32 true (0xfa :: be 4 x) with | .ok v _ => be 4 v | _ => be 4 (2 ^ 32 - 1))
  | "rt32"  => some (match Dec.f32 true (Enc.f32 x) with | .ok v _ => be 4 v | _ => be 4 (2 ^ 32 - 1))
  | "rt64"  => some (match Dec.f64 true (Enc.f64 (splitmix x64).toNat) with | .ok v _ => be 8 v | _ => be 8 (2 ^ 64 - 1))
  | _ => none

def fblkLoop (kind : String) (stride : UInt64) : Nat → UInt64 → UInt64 → Option UInt64
  | 0, _, h => some h
  | n + 1, x, h =>
    match fblkOne kind x with
    | none => none
    | some bs => fblkLoop kind stride n (x + stride) (fnvBytes h bs)

def fblkOp (w : List String) : String :=
  match w with
  | [kind, s, c, st] =>
    match hexNat? s, c.toNat?, st.toNat? with
    | some start, some count, some stride =>
      match fblkLoop kind (UInt64.ofNat stride) count (UInt64.ofNat start) 0xcbf29ce484222325 with
      | some h => s!"blk h={padHex 16 h.toNat} bad=0 first=-"
      | none => "bad-op"
    | _, _, _ => "bad-op"
  | _ => "bad-op"

/-- `fnarrow <f64 bits hex>…`: `f64ToF32` (Narrow.lean) on each pattern. -/
def fnarrowOp (w : List String) : String :=
  let one (a : String) : Option String :=
    (bytesOfHex (if a.length % 2 == 1 then "0" ++ a else a)).bind fun bs =>
      if bs.length ≤ 8 then some (hexOfBytes (be 4 (f64ToF32 (fromBe bs)))) else none
  match w.mapM one with
  | some rs => if rs.isEmpty then "bad-op" else ",".intercalate rs
  | none => "bad-op"

end Minicbor.Drv
