/-
  `aiter <array|arrayc|map> <adaptor> <hex>`: the transcript of the typed iterators behind an `Iterator` adaptor
  (see harness/core/src/decop.rs `run_aiter`): items, errors, `none`, `|` after `take`, a count; then the position.
-/
import Minicbor.Drv.Proto
import Minicbor.Iter

namespace Minicbor.Drv
open Minicbor

def showEv (f : α → String) : Script.Ev α → String
  | .item a => f a | .error e => s!"E:{e.name}" | .none => "none" | .bar => "|" | .num n => toString n
  | .panic => "panic" | .diverged => "diverged"

def runAd (m : Dec α) (ad : String) (arg : Nat) (s : IterSt) : Option (List (Script.Ev α) × IterSt) :=
  let fuel := 2 * s.rest.length + arg + 64 + (match s.left with | some n => min n 100000 | none => 0)
  match ad with
  | "all" => some (Script.all m fuel s)
  | "allx" => some (Script.allx m 48 s)
  | "nth" => some (Script.nth m fuel arg s)
  | "skip" => some (Script.skip m fuel arg s)
  | "step" => if arg == 0 then none else some (Script.step m arg fuel 0 s)
  | "take" => some (Script.take m fuel arg s)
  | "fuse" => some (Script.fuse m fuel arg s)
  | "last" => some (Script.last m fuel none s)
  | "count" => some (Script.count m fuel 0 s)
  | _ => none

def aiterOp (w : List String) : String :=
  match w with
  | [kind, ad, h] =>
    match bytesOfHex h with
    | none => "bad-op"
    | some input =>
      let (adn, arg) := match ad.splitOn ":" with
        | [a, n] => (a, n.toNat?.getD 0)
        | _ => (ad, 0)
      let u8 : Dec Int := Dec.intAcc Dec.IntTy.u8
      let fin {α} (f : α → String) (r : Option (List (Script.Ev α) × IterSt)) : String :=
        match r with
        | none => "bad-op"
        | some (evs, s) =>
          let body := if evs.isEmpty then "-" else ",".intercalate (evs.map (showEv f))
          s!"{body} @{input.length - s.rest.length}"
      match kind with
      | "array" | "arrayc" =>
        (match arrayOpen input with
         | .ok s _ => fin (fun (v : Int) => toString v) (runAd u8 adn arg s)
         | .err e r => s!"open:E:{e.name} @{input.length - r.length}"
         | .panic => "panic")
      | "map" =>
        (match mapOpen input with
         | .ok s _ => fin (fun (kv : Int × Int) => s!"{kv.1}={kv.2}") (runAd (pairDec u8 u8) adn arg s)
         | .err e r => s!"open:E:{e.name} @{input.length - r.length}"
         | .panic => "panic")
      | _ => "bad-op"
  | _ => "bad-op"

end Minicbor.Drv
