/-
  Driver handlers for the minicbor-io scenarios (`fwrite`, `fread`, `aread`, `awrite`).
  One op line = one whole scenario; the result line is the canonical transcript.

    fwrite <maxlen> <vals> <script>                 blocking Writer, one write per value
    fread  <maxlen> <nreads> <streamhex> <script>   blocking Reader, nreads reads
    aread  <maxlen> <streamhex> <script> <acts>     AsyncReader; acts: string over p (poll) / d (drop)
    awrite <maxlen> <vals> <script> <acts>          AsyncWriter; acts: w<i> (write vals[i]) s (sync) p (poll) d (drop) c<i>/cs (call, drop unpolled)

  vals   : comma separated  u<dec> | b<hex or -> | x<hex or ->   (`-` = no values)
  script : comma separated  <dec> (transfer up to k) | z (Ok(0)) | i (Interrupted) | e (error) | p (Pending / WouldBlock)
-/
import Minicbor.Drv.Proto
import Minicbor.Frame

namespace Minicbor.Drv
open Minicbor.Frame

def splitList (s : String) : List String :=
  if s == "-" then [] else s.splitOn ","

def parseVal (s : String) : Option Val :=
  match s.toList with
  | 'u' :: r => (String.ofList r).toNat?.map Val.u
  | 'b' :: r => (bytesOfHex (String.ofList r)).map Val.b
  | 'x' :: r => (bytesOfHex (String.ofList r)).map Val.x
  | ['e'] => some Val.e
  | 't' :: r => (String.ofList r).toNat?.map Val.t
  | _ => none

def parseVals (s : String) : Option (List Val) := (splitList s).mapM parseVal

def parseEv (s : String) : Option Ev :=
  match s with
  | "z" => some .zero
  | "i" => some .intr
  | "e" => some .fail
  | "p" => some .pend
  | _ => s.toNat?.map Ev.io

def parseScript (s : String) : Option (List Ev) := (splitList s).mapM parseEv

def showVal : Val → String
  | .u n => s!"u{n}"
  | .b bs => "b" ++ hexOrDash bs
  | .x p => "x" ++ hexOrDash p
  | .e => "e"
  | .t n => s!"t{n}"

def showIo : IoKind → String
  | .unexpectedEof => "eof" | .writeZero => "zero" | .interrupted => "intr"
  | .wouldBlock => "block" | .other => "other"

def showFErr : FErr → String
  | .io k => "err:io:" ++ showIo k
  | .decode e => "err:decode:" ++ e.name
  | .encode => "err:encode"
  | .invalidLen => "err:len"

def showRead : Except FErr (Option Val) → String
  | .ok (some v) => "some:" ++ showVal v
  | .ok none => "none"
  | .error e => showFErr e

def showWrite : Except FErr Nat → String
  | .ok n => s!"ok:{n}"
  | .error e => showFErr e

def joinOrDash (xs : List String) : String :=
  if xs.isEmpty then "-" else ",".intercalate xs

/-- the `<maxlen>` argument: a number, or `d` = the constructors' default, 512 KiB of payload. -/
def parseMl (s : String) : Option Nat := if s == "d" then some 524288 else s.toNat?

def fwriteOp (w : List String) : String :=
  match w with
  | [ml, vs, sc] =>
    match parseMl ml, parseVals vs, parseScript sc with
    | some ml, some vs, some sc =>
      let (rs, wr) := Writer.writeAll valCodec vs ⟨⟨[], sc⟩, [], ml⟩
      s!"{joinOrDash (rs.map showWrite)} {hexOrDash wr.snk.out} buf={wr.buffer.length}"
    | _, _, _ => "bad-op"
  | _ => "bad-op"

def freadOp (w : List String) : String :=
  match w with
  | [ml, n, st, sc] =>
    match parseMl ml, n.toNat?, bytesOfHex st, parseScript sc with
    | some ml, some n, some st, some sc =>
      let (rs, rd) := Reader.readN valCodec n ⟨⟨st, sc⟩, [], ml⟩
      s!"{joinOrDash (rs.map showRead)} rem={rd.src.bytes.length} buf={rd.buffer.length}"
    | _, _, _, _ => "bad-op"
  | _ => "bad-op"

def parseRActs (s : String) : Option (List RAct) :=
  (if s == "-" then [] else s.toList).mapM fun c =>
    if c == 'p' then some .poll else if c == 'd' then some .drop else none

def showRPoll : Option (Poll (Except FErr (Option Val))) → String
  | none => "-"
  | some .pending => "P"
  | some (.ready x) => showRead x

def areadOp (w : List String) : String :=
  match w with
  | [ml, st, sc, acts] =>
    match parseMl ml, bytesOfHex st, parseScript sc, parseRActs acts with
    | some ml, some st, some sc, some acts =>
      let (os, s) := RSys.run valCodec acts ⟨AReader.init ml st sc, none⟩
      s!"{joinOrDash (os.map showRPoll)} rem={s.rd.src.bytes.length} buf={s.rd.core.buffer.length}"
    | _, _, _, _ => "bad-op"
  | _ => "bad-op"

/-- acts of `areadm`: the model's `RAct`s, or `m` = `set_max_len(k)` (needs `&mut self`: a pending future is dropped first). -/
inductive XRAct where
  | act (a : RAct)
  | setMax
  /-- `r` (the accessors `reader_mut()` / `reader()` are called) and `c` (`read()` is called, the future dropped without a poll): the reader's
      state is untouched; a future pending before is gone (the calls borrow the reader). -/
  | touch

def parseXRActs (s : String) : Option (List XRAct) :=
  (if s == "-" then [] else s.toList).mapM fun c =>
    if c == 'p' then some (.act .poll) else if c == 'd' then some (.act .drop) else if c == 'm' then some .setMax
    else if c == 'r' || c == 'c' then some .touch else none

def runXR (k : Nat) : List XRAct → RSys → List (Option (Poll (Except FErr (Option Val)))) × RSys
  | [], s => ([], s)
  | .act a :: r, s =>
    let (s', o) := s.act valCodec a
    let (os, s'') := runXR k r s'
    (o :: os, s'')
  | .setMax :: r, s =>
    let (os, s'') := runXR k r ⟨s.rd.setMaxLen k, none⟩
    (none :: os, s'')
  | .touch :: r, s =>
    let (os, s'') := runXR k r ⟨s.rd, none⟩
    (none :: os, s'')

def areadmOp (w : List String) : String :=
  match w with
  | [ml, st, sc, acts, k] =>
    match parseMl ml, bytesOfHex st, parseScript sc, parseXRActs acts, k.toNat? with
    | some ml, some st, some sc, some acts, some k =>
      let (os, s) := runXR k acts ⟨AReader.init ml st sc, none⟩
      s!"{joinOrDash (os.map showRPoll)} rem={s.rd.src.bytes.length} buf={s.rd.core.buffer.length}"
    | _, _, _, _, _ => "bad-op"
  | _ => "bad-op"

def parseWAct (vs : List Val) (s : String) : Option (WAct Val) :=
  match s.toList with
  | ['s'] => some .sync
  | ['p'] => some .poll
  | ['d'] => some .drop
  | 'w' :: r => do
    let i ← (String.ofList r).toNat?
    let v ← vs[i]?
    pure (.write v)
  | _ => none

def showWRet : WRet → String
  | .wrote r => "w:" ++ showWrite r
  | .synced (.ok ()) => "s:ok"
  | .synced (.error e) => "s:" ++ showFErr e

def showWPoll : Option (Poll WRet) → String
  | none => "-"
  | some .pending => "P"
  | some (.ready x) => showWRet x

/-- an act of the `awrite` script: one of the model's `WAct`s, or `m<k>` = `set_max_len(k)` (which, taking `&mut self`, can only be
    called when no future is alive: a pending one is dropped first). -/
inductive XAct where
  | act (a : WAct Val)
  | setMax (k : Nat)
  /-- `c<i>` / `cs`: `write(vals[i])` / `sync()` is called and the future dropped without a poll.  Futures are lazy: the writer is
      untouched (a future pending before is gone, the call needs `&mut self`). -/
  | create

def parseXAct (vs : List Val) (s : String) : Option XAct :=
  match s.toList with
  | 'm' :: r => (String.ofList r).toNat?.map .setMax
  | ['c', 's'] => some .create
  | ['g'] => some .create          -- the accessors `writer_mut()` / `writer()`: like a future that is never polled, nothing happens
  | 'c' :: r => do
    let i ← (String.ofList r).toNat?
    let _ ← vs[i]?
    pure .create
  | _ => (parseWAct vs s).map .act

def runX : List XAct → WSys → List (Option (Poll WRet)) × WSys
  | [], s => ([], s)
  | .act a :: r, s =>
    let (s', o) := s.act valCodec a
    let (os, s'') := runX r s'
    (o :: os, s'')
  | .setMax k :: r, s =>
    let (os, s'') := runX r ⟨s.wr.setMaxLen k, none⟩
    (none :: os, s'')
  | .create :: r, s =>
    let (os, s'') := runX r ⟨s.wr, none⟩
    (none :: os, s'')

def awriteOp (w : List String) : String :=
  match w with
  | [ml, vs, sc, acts] =>
    match parseMl ml, parseVals vs, parseScript sc with
    | some ml, some vs, some sc =>
      match (splitList acts).mapM (parseXAct vs) with
      | some acts =>
        let (os, s) := runX acts ⟨AWriter.init ml sc, none⟩
        s!"{joinOrDash (os.map showWPoll)} {hexOrDash s.wr.snk.out} buf={s.wr.core.buffer.length}"
      | none => "bad-op"
    | _, _, _ => "bad-op"
  | _ => "bad-op"

end Minicbor.Drv
