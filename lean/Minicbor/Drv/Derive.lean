/-
  Driver handlers for the derive streams (C07 derived part, C08, C09, C10).

  Schemas and values arrive in a compact text syntax without spaces (one protocol word each),
  emitted by verifkit/derivegen.py:

    type   := u8|u16|u32|u64|i8|i16|i32|i64|bool | string|str|cowstr
            | bytevec|byteslice|vecu8|sliceu8|cowu8 | opt(T) | vec(T)
            | st(ENC,TAG,FLAGS,F,…)        ENC = a|m|d   TAG = -|<n>   FLAGS = u|p|n [t]
            | en(ENC,TAG,FLAGS,V,…)        FLAGS = i|-
    F      := f(IDX,TAG,CODEC,T)           IDX = n<k>|b<k>|s   CODEC = d|b|x
    V      := v(IDX,ENC,TAG,SHAPE,F,…)     IDX = n<k>|b<k>     SHAPE = u|p|n
    value  := <int> | T | F | s<hex> | h<hex> | N | so(V) | l(V,…) | r(V,…) | e(K,V,…)
-/
import Minicbor.Drv.Proto
import Minicbor.Derive
import Minicbor.Compat

namespace Minicbor.Drv.Dv
open Minicbor.Derive

inductive Sx where
  | node (head : String) (args : List Sx)
  deriving Repr, Inhabited

/-- parse one `head` or `head(arg,…)`; returns the tree and the remaining characters. -/
partial def parseSx (cs : List Char) : Option (Sx × List Char) :=
  let isAtom (c : Char) : Bool := c.isAlphanum || c == '-' || c == '_'
  let head := cs.takeWhile isAtom
  let rest := cs.dropWhile isAtom
  match rest with
  | '(' :: ')' :: r => some (.node (String.ofList head) [], r)
  | '(' :: r =>
    let rec args (cs : List Char) (acc : List Sx) : Option (List Sx × List Char) :=
      match parseSx cs with
      | none => none
      | some (x, ',' :: r) => args r (x :: acc)
      | some (x, ')' :: r) => some ((x :: acc).reverse, r)
      | _ => none
    match args r [] with
    | some (as, r) => some (.node (String.ofList head) as, r)
    | none => none
  | r => some (.node (String.ofList head) [], r)

def sxOfString (s : String) : Option Sx :=
  match parseSx s.toList with
  | some (x, []) => some x
  | _ => none

def optNat? (s : String) : Option (Option Nat) :=
  if s == "-" then some none else s.toNat?.map some

def enc? (s : String) : Option (Option Encoding) :=
  match s with
  | "a" => some (some .array) | "m" => some (some .map) | "d" => some none | _ => none

def shape? (c : Char) : Option Shape :=
  match c with
  | 'u' => some .unit | 'p' => some .tuple | 'n' => some .named | _ => none

def idx? (s : String) : Option (Bool × Nat) :=
  match s.toList with
  | 'n' :: ds => (String.ofList ds).toNat?.map (false, ·)
  | 'b' :: ds => (String.ofList ds).toNat?.map (true, ·)
  | _ => none

mutual
partial def tyOfSx : Sx → Option FTy
  | .node "u8" [] => some (.int .u8) | .node "u16" [] => some (.int .u16)
  | .node "u32" [] => some (.int .u32) | .node "u64" [] => some (.int .u64)
  | .node "i8" [] => some (.int .i8) | .node "i16" [] => some (.int .i16)
  | .node "i32" [] => some (.int .i32) | .node "i64" [] => some (.int .i64)
  | .node "bool" [] => some .bool
  | .node "string" [] => some (.text .string) | .node "str" [] => some (.text .str)
  | .node "cowstr" [] => some (.text .cow)
  | .node "bytevec" [] => some (.blob .byteVec) | .node "byteslice" [] => some (.blob .byteSlice)
  | .node "vecu8" [] => some (.blob .vecU8) | .node "sliceu8" [] => some (.blob .sliceU8)
  | .node "cowu8" [] => some (.blob .cowU8)
  | .node "opt" [t] => (tyOfSx t).map .option
  | .node "vec" [t] => (tyOfSx t).map .vec
  | .node "st" (.node e [] :: .node tg [] :: .node fl [] :: fs) => do
      let enc ← enc? e
      let tag ← optNat? tg
      let shape ← shape? (fl.toList.headD 'n')
      let fields ← fs.mapM fieldOfSx
      pure (.struct { shape := shape, enc := enc, tag := tag, transparent := fl.toList.contains 't' } fields)
  | .node "en" (.node e [] :: .node tg [] :: .node fl [] :: vs) => do
      let enc ← enc? e
      let tag ← optNat? tg
      let vars ← vs.mapM varOfSx
      pure (.enum { enc := enc, tag := tag, indexOnly := fl == "i" } vars)
  | _ => none
partial def fieldOfSx : Sx → Option (FAttr × FTy)
  | .node "f" [.node ix [], .node tg [], .node cd [], t] => do
      let ty ← tyOfSx t
      let tag ← optNat? tg
      let codec ← (match cd with | "d" => some Codec.dflt | "b" => some .bytes | "x" => some .nilu | _ => none)
      if ix == "s" then pure ({ skip := true, tag := tag, codec := codec }, ty)
      else do
        let (b, i) ← idx? ix
        pure ({ idx := i, isB := b, tag := tag, codec := codec }, ty)
  | _ => none
partial def varOfSx : Sx → Option (VAttr × Fields)
  | .node "v" (.node ix [] :: .node e [] :: .node tg [] :: .node sh [] :: fs) => do
      let (b, i) ← idx? ix
      let enc ← enc? e
      let tag ← optNat? tg
      let shape ← shape? (sh.toList.headD 'u')
      let fields ← fs.mapM fieldOfSx
      pure ({ idx := i, isB := b, enc := enc, tag := tag, shape := shape }, fields)
  | _ => none
end

partial def valOfSx : Sx → Option Val
  | .node "T" [] => some (.bool true)
  | .node "F" [] => some (.bool false)
  | .node "N" [] => some .none
  | .node "so" [v] => (valOfSx v).map .some
  | .node "l" vs => (vs.mapM valOfSx).map .list
  | .node "r" vs => (vs.mapM valOfSx).map .struct
  | .node "e" (.node k [] :: vs) => do
      let k ← k.toNat?
      let vs ← vs.mapM valOfSx
      pure (.enum k vs)
  | .node a [] =>
      match a.toList with
      | 's' :: h => (bytesOfHexChars h).map .text
      | 'h' :: h => (bytesOfHexChars h).map .blob
      | _ => a.toInt?.map .int
  | _ => none

partial def showVal : Val → String
  | .int i => toString i
  | .bool b => if b then "T" else "F"
  | .text b => "s" ++ hexOfBytes b
  | .blob b => "h" ++ hexOfBytes b
  | .none => "N"
  | .some v => "so(" ++ showVal v ++ ")"
  | .list vs => "l(" ++ ",".intercalate (vs.map showVal) ++ ")"
  | .struct vs => "r(" ++ ",".intercalate (vs.map showVal) ++ ")"
  | .enum k vs => "e(" ++ ",".intercalate (toString k :: vs.map showVal) ++ ")"

/-- which string / byte-string leaves of a decoded value borrow from the input (`b`) and which
    own a copy (`o`), in traversal order; leaves of skipped fields are not listed.  `direct`
    = the type is the declared type of a `#[b(..)]` field (only then is a `Cow` borrowed). -/
partial def flagsTy (direct : Bool) : FTy → Val → String
  | .text .string, .text _ => "o"
  | .text .str, .text _ => "b"
  | .text .cow, .text _ => if direct then "b" else "o"
  | .blob .byteVec, .blob _ => "o"
  | .blob .vecU8, .blob _ => "o"
  | .blob .byteSlice, .blob _ => "b"
  | .blob .sliceU8, .blob _ => "b"
  | .blob .cowU8, .blob _ => if direct then "b" else "o"
  | .option t, .some v => flagsTy false t v
  | .vec t, .list vs => String.join (vs.map (flagsTy false t))
  | .struct _ fs, .struct vs => flagsFields fs vs
  | .enum _ vars, .enum k vs =>
      match vars[k]? with
      | some (_, fs) => flagsFields fs vs
      | none => ""
  | _, _ => ""
where
  flagsFields (fs : Fields) (vs : List Val) : String :=
    String.join ((fs.zip vs).map fun ((a, t), v) => if a.skip then "" else flagsTy a.isB t v)

def flagsOrDash (s : String) : String := if s.isEmpty then "-" else s

/-- the largest field index anywhere in the schema (the executable `specTy` enumerates
    `0 ..= max index` per struct, so the driver refuses absurd sizes). -/
partial def maxIdxIn : FTy → Nat
  | .option t => maxIdxIn t
  | .vec t => maxIdxIn t
  | .struct _ fs => fs.foldl (fun m (a, t) => max m (max (if a.skip then 0 else a.idx) (maxIdxIn t))) 0
  | .enum _ vars => vars.foldl (fun m (_, fs) =>
      fs.foldl (fun m (a, t) => max m (max (if a.skip then 0 else a.idx) (maxIdxIn t))) m) 0
  | _ => 0

def parseTV (ts vs : String) : Except String (FTy × Val) :=
  match sxOfString ts >>= tyOfSx, sxOfString vs >>= valOfSx with
  | some t, some v =>
    if !accepted t then .error "rejected"
    else if !hasTy t v then .error "illtyped"
    else .ok (t, v)
  | _, _ => .error "bad-op"

def showDec (t : FTy) (input : Bytes) : Res Val → String
  | .ok v rest  => s!"ok {showVal v} {input.length - rest.length} {flagsOrDash (flagsTy false t v)}"
  | .err e rest => s!"err {e.name} {input.length - rest.length}"
  | .panic      => "panic"

/-- `denc <schema> <value>` → `<hex> <len>` (derived `Encode` and derived `CborLen`). -/
def dencOp (w : List String) : String :=
  match w with
  | [ts, vs] =>
    match parseTV ts vs with
    | .ok (t, v) => s!"{hexOrDash (deriveEncode t v)} {deriveLen t v}"
    | .error e => e
  | _ => "bad-op"

/-- `dspec <schema> <value>` → the documented bytes (`encPref (specTy …)`). -/
def dspecOp (w : List String) : String :=
  match w with
  | [ts, vs] =>
    match parseTV ts vs with
    | .ok (t, v) => if maxIdxIn t > 300000 then "toolarge" else hexOrDash (specEncode t v)
    | .error e => e
  | _ => "bad-op"

/-- `ddec <schema> <hex>` -/
def ddecOp (w : List String) : String :=
  match w with
  | [ts, h] =>
    match sxOfString ts >>= tyOfSx, bytesOfHex h with
    | some t, some input => if !accepted t then "rejected" else showDec t input (deriveDecode t input)
    | _, _ => "bad-op"
  | _ => "bad-op"

/-- `dcompat <writer schema> <writer value> <reader schema>`: the reader's decoder on the
    writer's encoding. -/
def dcompatOp (w : List String) : String :=
  match w with
  | [ws, vs, rs] =>
    match parseTV ws vs, sxOfString rs >>= tyOfSx with
    | .ok (wt, v), some rt =>
        if !accepted rt then "rejected"
        else let input := deriveEncode wt v
             showDec rt input (deriveDecode rt input)
    | .error e, _ => e
    | _, _ => "bad-op"
  | _ => "bad-op"

/-- `dproject <writer schema> <writer value> <reader schema>`: what the documentation
    promises the reader sees (`project`), or `undef` where it promises nothing. -/
def dprojectOp (w : List String) : String :=
  match w with
  | [ws, vs, rs] =>
    match parseTV ws vs, sxOfString rs >>= tyOfSx with
    | .ok (wt, v), some rt =>
        if !accepted rt then "rejected"
        else if !compatible wt rt then "incompatible"
        else match project wt rt v with
          | .ok pv =>
            let hz := if !benignP true wt rt v then "k5" else "-"
            s!"ok {showVal pv} {(deriveEncode wt v).length} {flagsOrDash (flagsTy false rt pv)} {hz}"
          | .unknown => "err variant"
          | .bad => "undef"
    | .error e, _ => e
    | _, _ => "bad-op"
  | _ => "bad-op"

/-- `daccept <schema>` → `1` / `0` -/
def dacceptOp (w : List String) : String :=
  match w with
  | [ts] =>
    match sxOfString ts >>= tyOfSx with
    | some t => if accepted t then "1" else "0"
    | none => "bad-op"
  | _ => "bad-op"

end Minicbor.Drv.Dv
