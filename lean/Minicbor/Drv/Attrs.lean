/-
  Driver ops for the attribute front end (model: Minicbor/Attrs.lean).

    astruct <struct-attrs> <k> <field-attrs>×k
    aenum   <enum-attrs> <k> (<variant-attrs> <u|f> <j> <field-attrs>×j)×k
        → `ok <meaning>` | `err <Err>`      evaluated under the canonical AND the reversed iteration order
                                   (`ok|err X` style output would mean the two orders disagree:
                                   impossible by Thm/Attrs.lean, printed rather than hidden)

  attribute list  = `-` (none) or attributes joined by `;`
  attribute       = `n=<i>` | `b=<i>` | `other` | `cbor:` items joined by `|` (`cbor:` alone = `#[cbor()]`)
  item            = index_only transparent map array has_nil skip unknown
                    encode_with=<path> is_nil=<path> decode_with=<path> nil=<path> with=<path> cbor_len=<path>
                    n=<i> b=<i> tag=<t> encode_bound=<id>:<txt> decode_bound=<id>:<txt> bound=<id>:<txt>
                    context_bound=<b1>+<b2>…
  path            = segments joined by `.`
-/
import Minicbor.Attrs

namespace Minicbor.Drv.At
open Minicbor.Attrs

def splitOnce (s : String) (c : Char) : String × Option String :=
  match s.splitOn (String.singleton c) with
  | [a] => (a, none)
  | a :: rest => (a, some ((String.singleton c).intercalate rest))
  | [] => (s, none)

def pathOf (s : String) : Path := s.splitOn "."

def itemOf (s : String) : Option Item :=
  let (k, arg) := splitOnce s '='
  match k, arg with
  | "index_only", none => some .indexOnly
  | "transparent", none => some .transparent
  | "map", none => some .map
  | "array", none => some .array
  | "has_nil", none => some .hasNil
  | "skip", none => some .skip
  | "unknown", none => some .unknown
  | "encode_with", some p => some (.encodeWith (pathOf p))
  | "is_nil", some p => some (.isNil (pathOf p))
  | "decode_with", some p => some (.decodeWith (pathOf p))
  | "nil", some p => some (.nil (pathOf p))
  | "with", some p => some (.with_ (pathOf p))
  | "cbor_len", some p => some (.cborLen (pathOf p))
  | "n", some i => i.toNat?.map Item.n
  | "b", some i => i.toNat?.map Item.b
  | "tag", some t => t.toNat?.map Item.tag
  | "encode_bound", some x => let (i, t) := splitOnce x ':'; some (.encodeBound i (t.getD ""))
  | "decode_bound", some x => let (i, t) := splitOnce x ':'; some (.decodeBound i (t.getD ""))
  | "bound", some x => let (i, t) := splitOnce x ':'; some (.bound i (t.getD ""))
  | "context_bound", some x => some (.contextBound (x.splitOn "+"))
  | _, _ => none

def attrOf (s : String) : Option Attr :=
  if s == "other" then some .other
  else if s.startsWith "cbor:" then
    let body := (s.drop 5).toString
    if body == "" then some (.cbor [])
    else (body.splitOn "|").mapM itemOf |>.map Attr.cbor
  else
    let (k, arg) := splitOnce s '='
    match k, arg with
    | "n", some i => i.toNat?.map Attr.n
    | "b", some i => i.toNat?.map Attr.b
    | _, _ => none

def attrsOf (s : String) : Option (List Attr) :=
  if s == "-" then some [] else (s.splitOn ";").mapM attrOf

def errName : Attrs.Err → String
  | .notSupportedOnLevel => "notSupportedOnLevel" | .duplicate => "duplicate" | .duplicateTypeParam => "duplicateTypeParam"
  | .isNilNeedsEncodeWith => "isNilNeedsEncodeWith" | .nilNeedsDecodeWith => "nilNeedsDecodeWith" | .hasNilNeedsWith => "hasNilNeedsWith"
  | .tagIndexOnly => "tagIndexOnly" | .tagTransparent => "tagTransparent" | .skipAlone => "skipAlone" | .withCborLen => "withCborLen"
  | .cborLenWith => "cborLenWith" | .expectedU32 => "expectedU32" | .badTag => "badTag" | .unsupported => "unsupported"
  | .missingIndex => "missingIndex" | .duplicateIndex => "duplicateIndex" | .transparentOneField => "transparentOneField"
  | .indexOnlyFields => "indexOnlyFields"

def showR {α : Type} : Except Attrs.Err α → String
  | .ok _ => "ok"
  | .error e => s!"err {errName e}"

def showPath : Option Path → String
  | none => "-"
  | some p => ".".intercalate p

def showOptNat : Option Nat → String
  | none => "-"
  | some n => toString n

def showEnc : Option Enc → String
  | none => "d" | some .array => "a" | some .map => "m"

def showField (f : FieldSem) : String :=
  ",".intercalate [if f.skip then "s" else if f.isB then "b" else "n", toString f.idx, showOptNat f.tag, showPath f.encode, showPath f.isNil,
                   showPath f.decode, showPath f.nil, showPath f.cborLen]

/-- the meaning of an accepted struct: `ok S=<enc>,<tag>,<T|-> F=<field>;<field>…` -/
def showStruct : Except Attrs.Err StructSem → String
  | .error e => s!"err {errName e}"
  | .ok s => s!"ok S={showEnc s.enc},{showOptNat s.tag},{if s.transparent then "T" else "-"} F={";".intercalate (s.fields.map showField)}"

def showVariant (v : VariantSem) : String :=
  ",".intercalate [if v.isB then "b" else "n", toString v.idx, showEnc v.enc, showOptNat v.tag, if v.unit then "u" else "f"]
    ++ "[" ++ ";".intercalate (v.fields.map showField) ++ "]"

def showEnum : Except Attrs.Err EnumSem → String
  | .error e => s!"err {errName e}"
  | .ok s => s!"ok E={showEnc s.enc},{showOptNat s.tag},{if s.indexOnly then "I" else "-"} V={"/".intercalate (s.variants.map showVariant)}"

def both' {α : Type} [BEq α] (sh : Except Attrs.Err α → String) (f : Order → Except Attrs.Err α) : String :=
  let r1 := f Order.canonical
  let r2 := f (fun m => m.entries.reverse)
  let agree := match r1, r2 with
    | .ok a, .ok b => a == b
    | .error _, .error _ => true
    | _, _ => false
  if agree then sh r1 else s!"{sh r1}|{sh r2}"

def both {α : Type} [BEq α] (f : Order → Except Attrs.Err α) : String :=
  let r1 := f Order.canonical
  let r2 := f (fun m => m.entries.reverse)
  let agree := match r1, r2 with
    | .ok a, .ok b => a == b
    | .error _, .error _ => true
    | _, _ => false
  if agree then showR r1 else s!"{showR r1}|{showR r2}"

def takeFields : Nat → List String → Option (List (List Attr) × List String)
  | 0, rest => some ([], rest)
  | n + 1, w :: rest => do
    let f ← attrsOf w
    let (fs, rest') ← takeFields n rest
    pure (f :: fs, rest')
  | _, [] => none

def astructOp (w : List String) : String :=
  match w with
  | sa :: k :: rest =>
    match attrsOf sa, k.toNat? with
    | some sattrs, some n =>
      match takeFields n rest with
      | some (fs, []) => both' showStruct (fun ord => structSem ord sattrs fs)
      | _ => "bad-op"
    | _, _ => "bad-op"
  | _ => "bad-op"

def takeVariants : Nat → List String → Option (List RawVariant × List String)
  | 0, rest => some ([], rest)
  | n + 1, va :: u :: j :: rest => do
    let attrs ← attrsOf va
    let nf ← j.toNat?
    let (fs, rest') ← takeFields nf rest
    let (vs, rest'') ← takeVariants n rest'
    pure (⟨attrs, u == "u", fs⟩ :: vs, rest'')
  | _, _ => none

def aenumOp (w : List String) : String :=
  match w with
  | ea :: k :: rest =>
    match attrsOf ea, k.toNat? with
    | some eattrs, some n =>
      match takeVariants n rest with
      | some (vs, []) => both' showEnum (fun ord => enumSem ord eattrs vs)
      | _ => "bad-op"
    | _, _ => "bad-op"
  | _ => "bad-op"

end Minicbor.Drv.At
