/-
  C10 — what the documentation of minicbor-derive promises about two versions of a type
  (lib.rs:8-45), as executable definitions on schemas:

  * `compatible w r` : a reader of version `r` can read what a writer of version `w` wrote
                       (directional; the documented edits are symmetric pairs of it),
  * `project w r v`  : the value the documentation promises the reader sees: shared fields
                       equal, reader-only optional fields nil, writer-only fields ignored,
                       an unknown variant in an optional field `None`,
  * `benign w r v`   : excludes exactly the situation in which the code as it is breaks the
                       promise (K5: tagged optional field the reader knows at an index where
                       the writer's array has a gap `null`).  (F5 — unknown `index_only`
                       variant in an optional field — was repaired in /repo, commit 34b49ef.)
-/
import Minicbor.Derive

namespace Minicbor.Derive

/-- the non-skipped field with index `i`. -/
def findField : Fields → Nat → Option (FAttr × FTy)
  | [], _ => none
  | (a, t) :: fs, i => if !a.skip && a.idx == i then some (a, t) else findField fs i

/-- position and content of the variant with index `i`. -/
def findVar : Variants → Nat → Nat → Option (Nat × VAttr × Fields)
  | [], _, _ => none
  | (va, fs) :: rest, pos, i => if va.idx == i then some (pos, va, fs) else findVar rest (pos + 1) i

/-- a field the documentation calls optional: absent input resolves to a nil value. -/
def optionalField (a : FAttr) (t : FTy) : Bool := (nilOf a t).isSome

/-- every (non-skipped) field of `gs` without a partner in `fs` is optional. -/
def onlyOptional (gs fs : Fields) : Bool :=
  gs.all fun g => g.1.skip || (findField fs g.1.idx).isSome || optionalField g.1 g.2

def allOptional (gs : Fields) : Bool := gs.all fun g => g.1.skip || optionalField g.1 g.2

def encOf (o : Option Encoding) : Encoding := o.getD .array

mutual
/-- `compatTy lenient w r`: `r` reads `w`.  `lenient` = the position is the declared type of an
    optional field (possibly under `Option`s): only there may the writer's enum have variants
    the reader does not know. -/
def compatTy (lenient : Bool) : FTy → FTy → Bool
  | .int k, .int k' => k == k'
  | .bool, .bool => true
  | .text _, .text _ => true
  | .blob _, .blob _ => true
  | .option w, .option r => compatTy lenient w r
  | .vec w, .vec r => compatTy false w r
  | .struct a fs, .struct b gs =>
      a.transparent == b.transparent &&
      (if a.transparent then
         (match gs with
          | [(gb, u)] => compatOne fs gb u
          | _ => false)
       else a.tag == b.tag && encOf a.enc == encOf b.enc && compatFields fs gs && onlyOptional gs fs)
  | .enum a vs, .enum b us =>
      a.tag == b.tag && a.indexOnly == b.indexOnly && compatVars lenient a b vs us
  | _, _ => false
termination_by structural w => w
/-- transparent: the single writer field against the single reader field. -/
def compatOne : Fields → FAttr → FTy → Bool
  | [(fa, t)], gb, u => (fa.codec == .nilu) == (gb.codec == .nilu) && compatTy false t u
  | _, _, _ => false
termination_by structural fs => fs
/-- every writer field the reader also has (same index) is read compatibly. -/
def compatFields : Fields → Fields → Bool
  | [], _ => true
  | (fa, t) :: fs, gs =>
      (if fa.skip then true
       else match findField gs fa.idx with
         | none => true                      -- unknown to the reader: skipped, whatever it is
         | some (gb, u) =>
             fa.tag == gb.tag && (fa.codec == .nilu) == (gb.codec == .nilu)
             && compatTy (optionalField gb u) t u)
      && compatFields fs gs
termination_by structural fs => fs
def compatVars (lenient : Bool) (a b : EAttr) : Variants → Variants → Bool
  | [], _ => true
  | (va, fs) :: rest, us =>
      (match findVar us 0 va.idx with
       | none => lenient
       | some (_, vb, gs) =>
           va.tag == vb.tag &&
           (match vb.shape with
            | .unit => true                   -- the reader skips the body
            | _ =>
              encOf (va.enc <|> a.enc) == encOf (vb.enc <|> b.enc) &&
              (match va.shape with
               | .unit => allOptional gs
               | _ => compatFields fs gs && onlyOptional gs fs)))
      && compatVars lenient a b rest us
termination_by structural vs => vs
end

def compatible (w r : FTy) : Bool := compatTy false w r

/-- three-way result of a projection. -/
inductive PRes where
  | ok (v : Val)
  | unknown          -- a variant the reader does not know (resolved at the enclosing optional field)
  | bad              -- schema / value mismatch: nothing is promised
  deriving Repr, Inhabited

def nilOrBad (a : FAttr) (t : FTy) : PRes :=
  match nilOf a t with
  | some z => .ok z
  | none => .bad

/-- the reader's value list from the per-writer-field projections (`idx ↦ PRes`). -/
def assemble : Fields → List (Nat × PRes) → PRes
  | [], _ => .ok (.struct [])
  | (gb, u) :: gs, ps =>
      let here : PRes :=
        if gb.skip then .ok (defaultOf u)
        else match ps.find? (fun p => p.1 == gb.idx) with
          | some p => p.2
          | none => nilOrBad gb u
      match here, assemble gs ps with
      | .ok v, .ok (.struct vs) => .ok (.struct (v :: vs))
      | .unknown, .ok _ => .unknown
      | .ok _, .unknown => .unknown
      | .unknown, .unknown => .unknown
      | _, _ => .bad

def mapPRes : List PRes → PRes
  | [] => .ok (.list [])
  | p :: ps =>
      match p, mapPRes ps with
      | .ok v, .ok (.list vs) => .ok (.list (v :: vs))
      | .unknown, .ok _ => .unknown
      | .ok _, .unknown => .unknown
      | .unknown, .unknown => .unknown
      | _, _ => .bad

def allNil : Fields → PRes := fun gs => assemble gs []

mutual
def projTy : FTy → FTy → Val → PRes
  | .int _, .int _, .int i => .ok (.int i)
  | .bool, .bool, .bool b => .ok (.bool b)
  | .text _, .text _, .text b => .ok (.text b)
  | .blob _, .blob _, .blob b => .ok (.blob b)
  | .option _, .option _, .none => .ok .none
  | .option w, .option r, .some v =>
      (match projTy w r v with
       | .ok x => .ok (.some x)
       | e => e)
  | .vec w, .vec r, .list vs => mapPRes (vs.map (projTy w r))
  | .struct a fs, .struct _ gs, .struct vs =>
      if a.transparent then
        (match gs with
         | [(_, u)] => (match projOne fs u vs with
             | .ok x => .ok (.struct [x])
             | e => e)
         | _ => .bad)
      else assemble gs (projFields fs gs vs)
  | .enum _ vs, .enum _ us, .enum k fvs => projVars vs us k fvs
  | _, _, _ => .bad
termination_by structural w => w
def projOne : Fields → FTy → List Val → PRes
  | [(_, t)], u, [v] => projTy t u v
  | _, _, _ => .bad
termination_by structural fs => fs
/-- for every writer field the reader also has: its index and what the reader sees there. -/
def projFields : Fields → Fields → List Val → List (Nat × PRes)
  | (fa, t) :: fs, gs, v :: vs =>
      if fa.skip then projFields fs gs vs
      else match findField gs fa.idx with
        | none => projFields fs gs vs
        | some (gb, u) =>
            let p : PRes :=
              -- an absent optional value resolves to the reader's nil
              if isNilField fa t v then nilOrBad gb u
              else match projTy t u v with
                | .unknown => if swallows gb u then nilOrBad gb u else .unknown
                | x => x
            (fa.idx, p) :: projFields fs gs vs
  | _, _, _ => []
termination_by structural fs => fs
def projVars : Variants → Variants → Nat → List Val → PRes
  | [], _, _, _ => .bad
  | (va, fs) :: _, us, 0, fvs =>
      (match findVar us 0 va.idx with
       | none => .unknown
       | some (pos, vb, gs) =>
           let body : PRes :=
             match vb.shape with
             | .unit => .ok (.struct [])
             | _ => (match va.shape with
                 | .unit => allNil gs
                 | _ => assemble gs (projFields fs gs fvs))
           match body with
           | .ok (.struct xs) => .ok (.enum pos xs)
           | .ok _ => .bad
           | e => e)
  | _ :: rest, us, k + 1, fvs => projVars rest us k fvs
termination_by structural vs => vs
end

/-- `project w r v`: the value the documentation promises a reader of version `r` (`none`: no
    promise — incompatible versions, ill-typed value, or an unknown variant at top level). -/
def project (w r : FTy) (v : Val) : PRes := projTy w r v

/-! ### The situation in which the code breaks the promise (kept out by `benign`) -/

/-- K5 (repaired, docs/K5-candidate.diff): a *tagged* optional field known only to the reader, array
    encoding, at an index below the end of the writer's array — the writer put a bare `null` there
    and the reader used to insist on the tag.  Since the repair the reader accepts the bare `null`
    (`Derive.bareNull`), so nothing is a hit any more; the predicate (and `benign` below) is kept so
    that the place where the exclusion used to enter the proofs stays visible: `benign_always`. -/
def k5Hit (_gs _fs : Fields) (_writerMax : Option Nat) : Bool := false

def piecesMax (ps : List (Piece Bytes)) : Option Nat := maxPresent ps

mutual
/-- `benignP k5 w r v`: the selected hazards (F5 / K5) are not triggered anywhere in the value. -/
def benignP (k5 : Bool) : FTy → FTy → Val → Bool
  | .option w, .option r, .some v => benignP k5 w r v
  | .vec w, .vec r, .list vs => vs.all (benignP k5 w r)
  | .struct a fs, .struct _ gs, .struct vs =>
      if a.transparent then
        (match gs with
         | [(_, u)] => benignOne k5 fs u vs
         | _ => true)
      else benignFields k5 fs gs vs
           && !(k5 && encOf a.enc == .array && k5Hit gs fs (piecesMax (encFields fs vs)))
  | .enum a vs, .enum b us, .enum k fvs => benignVars k5 a b vs us k fvs
  | _, _, _ => true
termination_by structural w => w
def benignOne (k5 : Bool) : Fields → FTy → List Val → Bool
  | [(_, t)], u, [v] => benignP k5 t u v
  | _, _, _ => true
termination_by structural fs => fs
def benignFields (k5 : Bool) : Fields → Fields → List Val → Bool
  | (fa, t) :: fs, gs, v :: vs =>
      (if fa.skip then true
       else match findField gs fa.idx with
         | none => true
         | some (_, u) => benignP k5 t u v)
      && benignFields k5 fs gs vs
  | _, _, _ => true
termination_by structural fs => fs
def benignVars (k5 : Bool) (a b : EAttr) : Variants → Variants → Nat → List Val → Bool
  | [], _, _, _ => true
  | (va, fs) :: _, us, 0, fvs =>
      (match findVar us 0 va.idx with
       | none => true
       | some (_, vb, gs) =>
           (match vb.shape, va.shape with
            | .unit, _ => true
            | _, .unit => true
            | _, _ => benignFields k5 fs gs fvs
                && !(k5 && encOf (va.enc <|> a.enc) == .array && k5Hit gs fs (piecesMax (encFields fs fvs)))))
  | _ :: rest, us, k + 1, fvs => benignVars k5 a b rest us k fvs
termination_by structural vs => vs
end

/-- no hazard is triggered anywhere in the value (always true since the K5 repair: `benign_always`). -/
def benign (w r : FTy) (v : Val) : Bool := benignP true w r v

end Minicbor.Derive
