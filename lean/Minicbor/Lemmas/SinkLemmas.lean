/-
  Lemmas for C13: the layout invariant of a guarded buffer (left canary, accepted bytes, free
  rest of the buffer, right canary), one `write_all` step of every bounded sink kind, the
  Encoder's `put` sequence and raw `write_all` sequences.
-/
import Minicbor.Sink

namespace Minicbor.Sink

/-- layout of a bounded sink's memory: `L` left canary, `A` the bytes accepted so far, `F` the
    still free part of the buffer, `R` right canary. -/
structure Lay (b : Buf) (L A F R : Bytes) : Prop where
  mem : b.mem = L ++ A ++ F ++ R
  base : b.base = L.length
  pos : b.pos = A.length
  cap : b.cap = A.length + F.length

theorem drop_two (X Y : Bytes) (k : Nat) : (X ++ Y).drop (X.length + k) = Y.drop k := by
  rw [List.drop_append, List.drop_eq_nil_of_le (by omega), Nat.add_sub_cancel_left]; simp

/-- a write that fits stays inside the free part of the buffer. -/
theorem blit_lay (L A F R c : Bytes) (h : c.length ≤ F.length) :
    blit (L ++ A ++ F ++ R) (L.length + A.length) c = L ++ (A ++ c) ++ F.drop c.length ++ R := by
  unfold blit
  have e0 : L ++ A ++ F ++ R = (L ++ A) ++ (F ++ R) := by simp
  have e1 : (L ++ A ++ F ++ R).take (L.length + A.length) = L ++ A := by
    rw [e0, List.take_left' (by simp)]
  have e2 : (L ++ A ++ F ++ R).drop (L.length + A.length + c.length) = F.drop c.length ++ R := by
    rw [e0, show L.length + A.length + c.length = (L ++ A).length + c.length by simp, drop_two,
      List.drop_append_of_le_length h]
  rw [e1, e2]; simp

theorem freshBuf_lay (L B R : Bytes) : Lay (freshBuf L B R) L [] B R :=
  ⟨by simp [freshBuf], rfl, rfl, by simp [freshBuf]⟩

/-- the sink kinds with a capacity. -/
inductive BSink where
  | mem (k : BKind)
  | io (step : Nat)
  deriving Repr

def BSink.mk : BSink → Buf → Sink
  | .mem k, b => .bounded k b
  | .io st, b => .io b st

/-- the limited writer makes progress. -/
def BSink.good : BSink → Prop
  | .mem _ => True
  | .io st => 0 < st

/-- `write_all` is all-or-nothing. -/
def BSink.atomic : BSink → Bool
  | .mem _ => true
  | .io _ => false

theorem Lay.accepted {b : Buf} {L A F R : Bytes} (h : Lay b L A F R) (t : BSink) :
    (t.mk b).accepted = A ∧ (t.mk b).position = A.length ∧ (t.mk b).memory = L ++ A ++ F ++ R := by
  have e : (b.mem.drop b.base).take b.pos = A := by
    rw [h.mem, h.base, h.pos]
    have : L ++ A ++ F ++ R = L ++ (A ++ (F ++ R)) := by simp
    rw [this, List.drop_left' rfl, List.take_left' rfl]
  cases t <;> exact ⟨e, h.pos, h.mem⟩

/-! ### one `write_all` -/

theorem Buf.write_ok (k : BKind) {b : Buf} {L A F R : Bytes} (h : Lay b L A F R) (c : Bytes)
    (hc : c.length ≤ F.length) :
    ∃ b', b.write k c = .ok b' ∧ Lay b' L (A ++ c) (F.drop c.length) R := by
  have h1 : ¬ (b.cap - b.pos < c.length) := by rw [h.cap, h.pos]; omega
  have h3 : ¬ (b.pos > b.cap) := by rw [h.cap, h.pos]; omega
  have hm : blit b.mem (b.base + b.pos) c = L ++ (A ++ c) ++ F.drop c.length ++ R := by
    rw [h.mem, h.base, h.pos]; exact blit_lay L A F R c hc
  refine ⟨{ b with mem := blit b.mem (b.base + b.pos) c, pos := b.pos + c.length }, ?_, ?_⟩
  · cases k <;> simp [Buf.write, sliceWriteAll, h1, h3]
  · exact ⟨hm, h.base, by simp [h.pos], by simp [h.cap]; omega⟩

theorem Buf.write_err (k : BKind) {b : Buf} {L A F R : Bytes} (h : Lay b L A F R) (c : Bytes)
    (hc : F.length < c.length) : b.write k c = .err b := by
  have h1 : b.cap - b.pos < c.length := by rw [h.cap, h.pos]; omega
  have h3 : ¬ (b.pos > b.cap) := by rw [h.cap, h.pos]; omega
  cases k <;> simp [Buf.write, sliceWriteAll, h1, h3]

theorem take_take_drop (c : Bytes) (n k : Nat) : c.take n ++ (c.drop n).take k = c.take (n + k) := by
  induction n generalizing c with
  | zero => simp
  | succ n ih =>
    cases c with
    | nil => simp
    | cons x xs =>
      have : n + 1 + k = (n + k) + 1 := by omega
      simp [this, ih]

/-- std's `write_all` loop over the limited writer: everything if it fits, otherwise exactly the
    bytes that fit, then `WriteZero`. -/
theorem ioWriteAll_spec (step : Nat) (hstep : 0 < step) (fuel : Nat) :
    ∀ (b : Buf) (A F c : Bytes) (L R : Bytes), Lay b L A F R → c.length < fuel →
      (c.length ≤ F.length → ∃ b', ioWriteAll step fuel b c = .ok b' ∧ Lay b' L (A ++ c) (F.drop c.length) R) ∧
      (F.length < c.length → ∃ b', ioWriteAll step fuel b c = .err b' ∧ Lay b' L (A ++ c.take F.length) [] R) := by
  induction fuel with
  | zero => intro b A F c L R _ hf; omega
  | succ fuel ih =>
    intro b A F c L R h hf
    by_cases hce : c = []
    · subst hce
      constructor
      · intro _; exact ⟨b, by simp [ioWriteAll], by simpa using h⟩
      · intro hlt; simp at hlt
    · have hcl : 0 < c.length := List.length_pos_iff.mpr hce
      have hne : c.isEmpty = false := by cases c <;> simp_all
      -- the first `write` call
      have hn : min (min step (b.cap - b.pos)) c.length = min (min step F.length) c.length := by
        rw [h.cap, h.pos]; congr 2; omega
      generalize hnd : min (min step F.length) c.length = n at hn
      have hnF : n ≤ F.length := by omega
      have hnc : n ≤ c.length := by omega
      have hlay1 : Lay (ioWrite b step c).1 L (A ++ c.take n) (F.drop n) R := by
        have hl : (c.take n).length = n := by simp; omega
        refine ⟨?_, h.base, ?_, ?_⟩
        · simp only [ioWrite, hn]
          rw [h.mem, h.base, h.pos]
          have := blit_lay L A F R (c.take n) (by omega)
          rw [hl] at this; exact this
        · show b.pos + min (min step (b.cap - b.pos)) c.length = (A ++ c.take n).length
          rw [hn, h.pos, List.length_append, hl]
        · show b.cap = (A ++ c.take n).length + (F.drop n).length
          rw [h.cap, List.length_append, hl, List.length_drop]; omega
      have hr2 : (ioWrite b step c).2 = n := by simp only [ioWrite, hn]
      by_cases hn0 : n = 0
      · -- nothing accepted: the buffer is full
        have hF : F.length = 0 := by omega
        constructor
        · intro hfit; omega
        · intro _
          refine ⟨(ioWrite b step c).1, ?_, ?_⟩
          · simp [ioWriteAll, hne, hr2, hn0]
          · have := hlay1
            rw [hn0] at this
            have hF' : F = [] := List.eq_nil_of_length_eq_zero hF
            subst hF'
            simpa using this
      · have hstepok : ioWriteAll step (fuel + 1) b c = ioWriteAll step fuel (ioWrite b step c).1 (c.drop n) := by
          simp [ioWriteAll, hne, hr2, hn0]
        obtain ⟨ih1, ih2⟩ := ih (ioWrite b step c).1 (A ++ c.take n) (F.drop n) (c.drop n) L R hlay1
          (by simp; omega)
        rw [hstepok]
        constructor
        · intro hfit
          obtain ⟨b', e, l⟩ := ih1 (by simp; omega)
          refine ⟨b', e, ?_⟩
          have a1 : A ++ c.take n ++ c.drop n = A ++ c := by simp
          have a2 : (F.drop n).drop (c.drop n).length = F.drop c.length := by
            rw [List.drop_drop, List.length_drop]; congr 1; omega
          rw [a1, a2] at l; exact l
        · intro hlt
          obtain ⟨b', e, l⟩ := ih2 (by simp; omega)
          refine ⟨b', e, ?_⟩
          have a1 : A ++ c.take n ++ (c.drop n).take (F.drop n).length = A ++ c.take F.length := by
            rw [List.append_assoc, take_take_drop, List.length_drop]; congr 2; omega
          rw [a1] at l; exact l

/-- **one `write_all` call** on any bounded sink: afterwards the memory is `L ++ (A ++ A') ++ rest of
    F ++ R` where `A'` is a prefix of the chunk — all of it exactly when it fits; nothing
    (all-or-nothing sinks) or exactly what fits (`std::io` writer) when it does not. -/
theorem step_spec (t : BSink) (ht : t.good) {b : Buf} {L A F R : Bytes} (h : Lay b L A F R) (c : Bytes) :
    (c.length ≤ F.length →
      ∃ b', (t.mk b).writeAll c = .ok (t.mk b') ∧ Lay b' L (A ++ c) (F.drop c.length) R) ∧
    (F.length < c.length →
      ∃ b', (t.mk b).writeAll c = .err (t.mk b') ∧
        Lay b' L (A ++ (if t.atomic then [] else c.take F.length))
          (F.drop (if t.atomic then [] else c.take F.length).length) R) := by
  cases t with
  | mem k =>
    constructor
    · intro hc
      obtain ⟨b', e, l⟩ := Buf.write_ok k h c hc
      exact ⟨b', by simp [BSink.mk, Sink.writeAll, e], l⟩
    · intro hc
      refine ⟨b, by simp [BSink.mk, Sink.writeAll, Buf.write_err k h c hc], ?_⟩
      simpa [BSink.atomic] using h
  | io st =>
    obtain ⟨s1, s2⟩ := ioWriteAll_spec st ht (c.length + 1) b A F c L R h (by omega)
    constructor
    · intro hc
      obtain ⟨b', e, l⟩ := s1 hc
      exact ⟨b', by simp [BSink.mk, Sink.writeAll, e], l⟩
    · intro hc
      obtain ⟨b', e, l⟩ := s2 hc
      refine ⟨b', by simp [BSink.mk, Sink.writeAll, e], ?_⟩
      have : (c.take F.length).length = F.length := by simp; omega
      simp only [BSink.atomic, Bool.false_eq_true, if_false, this, List.drop_length]
      exact l

/-! ### the Encoder's `put` sequence -/

/-- writing the chunks `cs` of an encoding into a bounded sink with free space `F`: success with
    all of it exactly when it fits, otherwise a write error leaving a prefix of it behind; the
    canaries `L`, `R` and the unused rest of the buffer are untouched either way. -/
theorem putAll_spec (t : BSink) (ht : t.good) (cs : List Bytes) :
    ∀ {b : Buf} {L A F R : Bytes}, Lay b L A F R →
      (cs.flatten.length ≤ F.length →
        ∃ b', (t.mk b).putAll cs = .ok (t.mk b') ∧ Lay b' L (A ++ cs.flatten) (F.drop cs.flatten.length) R) ∧
      (F.length < cs.flatten.length →
        ∃ b' A', (t.mk b).putAll cs = .err (t.mk b') ∧ Lay b' L (A ++ A') (F.drop A'.length) R ∧
          A' <+: cs.flatten ∧ A'.length ≤ F.length) := by
  induction cs with
  | nil =>
    intro b L A F R h
    constructor
    · intro _; exact ⟨b, rfl, by simpa using h⟩
    · intro hlt; simp at hlt
  | cons c cs ih =>
    intro b L A F R h
    obtain ⟨s1, s2⟩ := step_spec t ht h c
    simp only [List.flatten_cons, List.length_append]
    by_cases hc : c.length ≤ F.length
    · obtain ⟨b1, e1, l1⟩ := s1 hc
      obtain ⟨i1, i2⟩ := ih l1
      have hput : (t.mk b).putAll (c :: cs) = (t.mk b1).putAll cs := by simp [Sink.putAll, e1]
      rw [hput]
      constructor
      · intro hfit
        obtain ⟨b', e, l⟩ := i1 (by simp only [List.length_drop]; omega)
        refine ⟨b', e, ?_⟩
        rw [List.append_assoc, List.drop_drop] at l
        exact l
      · intro hlt
        obtain ⟨b', A', e, l, hp, hl⟩ := i2 (by simp only [List.length_drop]; omega)
        refine ⟨b', c ++ A', e, ?_, ?_, ?_⟩
        · rw [List.append_assoc, List.drop_drop] at l
          simpa using l
        · exact (List.prefix_append_right_inj c).mpr hp
        · simp only [List.length_drop, List.length_append] at hl ⊢; omega
    · have hc' : F.length < c.length := by omega
      obtain ⟨b1, e1, l1⟩ := s2 hc'
      have hput : (t.mk b).putAll (c :: cs) = .err (t.mk b1) := by simp [Sink.putAll, e1]
      rw [hput]
      constructor
      · intro hfit; omega
      · intro _
        refine ⟨b1, _, rfl, l1, ?_, ?_⟩
        · split
          · exact List.nil_prefix
          · exact List.IsPrefix.trans (List.take_prefix _ _) (List.prefix_append _ _)
        · split
          · simp
          · simp; omega

/-! ### raw sequences of `write_all` calls (carrying on after failures) -/

/-- specification of a raw call sequence on a sink with `free` bytes left: per call whether it
    succeeds, and the bytes accepted in total.  A failing call accepts nothing on the
    all-or-nothing sinks and exactly the bytes that still fit on the `std::io` writer. -/
def specSeq (atomic : Bool) : Nat → List Bytes → List Bool × Bytes
  | _, [] => ([], [])
  | free, c :: cs =>
    if c.length ≤ free then
      let r := specSeq atomic (free - c.length) cs
      (true :: r.1, c ++ r.2)
    else
      let taken := if atomic then [] else c.take free
      let r := specSeq atomic (free - taken.length) cs
      (false :: r.1, taken ++ r.2)

theorem specSeq_le (atomic : Bool) (cs : List Bytes) : ∀ free, (specSeq atomic free cs).2.length ≤ free := by
  induction cs with
  | nil => intro free; simp [specSeq]
  | cons c cs ih =>
    intro free
    unfold specSeq
    split
    · have := ih (free - c.length); simp; omega
    · cases atomic
      · have := ih (free - (c.take free).length)
        simp at this ⊢; omega
      · have := ih (free - 0); simp at this ⊢; omega

theorem writeSeq_spec (t : BSink) (ht : t.good) (cs : List Bytes) :
    ∀ {b : Buf} {L A F R : Bytes}, Lay b L A F R →
      ∃ b', (t.mk b).writeSeq cs = some (t.mk b', (specSeq t.atomic F.length cs).1) ∧
        Lay b' L (A ++ (specSeq t.atomic F.length cs).2) (F.drop (specSeq t.atomic F.length cs).2.length) R := by
  induction cs with
  | nil => intro b L A F R h; exact ⟨b, rfl, by simpa [specSeq] using h⟩
  | cons c cs ih =>
    intro b L A F R h
    obtain ⟨s1, s2⟩ := step_spec t ht h c
    by_cases hc : c.length ≤ F.length
    · obtain ⟨b1, e1, l1⟩ := s1 hc
      obtain ⟨b', e, l⟩ := ih l1
      refine ⟨b', ?_, ?_⟩
      · simp only [Sink.writeSeq, e1, e, specSeq, hc, if_true, List.length_drop, Option.map_some]
      · simp only [specSeq, hc, if_true]
        rw [List.append_assoc, List.drop_drop, List.length_drop] at l
        simpa using l
    · have hc' : F.length < c.length := by omega
      obtain ⟨b1, e1, l1⟩ := s2 hc'
      obtain ⟨b', e, l⟩ := ih l1
      refine ⟨b', ?_, ?_⟩
      · simp only [Sink.writeSeq, e1, e, specSeq, hc, if_false, List.length_drop, Option.map_some]
      · simp only [specSeq, hc, if_false]
        rw [List.append_assoc, List.drop_drop, List.length_drop] at l
        simpa using l

/-! ### scripts of Encoder calls on one sink (carrying on after failures) -/

/-- what the `put` chunks of ONE call leave in a sink with `free` bytes left: the chunks as long as
    they fit, then nothing more (all-or-nothing sinks) or the part of the next chunk that still
    fits (`std::io` writer). -/
def fitPrefix (atomic : Bool) : Nat → List Bytes → Bytes
  | _, [] => []
  | free, c :: cs =>
    if c.length ≤ free then c ++ fitPrefix atomic (free - c.length) cs
    else if atomic then [] else c.take free

theorem fitPrefix_le (atomic : Bool) (cs : List Bytes) : ∀ free, (fitPrefix atomic free cs).length ≤ free := by
  induction cs with
  | nil => intro free; simp [fitPrefix]
  | cons c cs ih =>
    intro free
    unfold fitPrefix
    split
    · have := ih (free - c.length); simp; omega
    · cases atomic <;> simp; omega

theorem fitPrefix_prefix (atomic : Bool) (cs : List Bytes) : ∀ free, fitPrefix atomic free cs <+: cs.flatten := by
  induction cs with
  | nil => intro free; simp [fitPrefix]
  | cons c cs ih =>
    intro free
    unfold fitPrefix
    split
    · simpa using (List.prefix_append_right_inj c).mpr (ih (free - c.length))
    · cases atomic
      · simpa using List.IsPrefix.trans (List.take_prefix _ _) (List.prefix_append _ _)
      · simp

/-- it is everything exactly when everything fits. -/
theorem fitPrefix_all (atomic : Bool) (cs : List Bytes) : ∀ free, cs.flatten.length ≤ free →
    fitPrefix atomic free cs = cs.flatten := by
  induction cs with
  | nil => intro free _; simp [fitPrefix]
  | cons c cs ih =>
    intro free h
    simp only [List.flatten_cons, List.length_append] at h
    unfold fitPrefix
    rw [if_pos (by omega), ih (free - c.length) (by omega)]; simp

theorem fitPrefix_lt (atomic : Bool) (cs : List Bytes) : ∀ free, free < cs.flatten.length →
    (fitPrefix atomic free cs).length < cs.flatten.length := by
  intro free h
  have := fitPrefix_le atomic cs free
  omega

/-- **one call** (its `put` chunks through `putAll`), with the bytes it leaves behind named exactly. -/
theorem putAll_fit (t : BSink) (ht : t.good) (cs : List Bytes) :
    ∀ {b : Buf} {L A F R : Bytes}, Lay b L A F R →
      ∃ b', (t.mk b).putAll cs = (if cs.flatten.length ≤ F.length then .ok (t.mk b') else .err (t.mk b')) ∧
        Lay b' L (A ++ fitPrefix t.atomic F.length cs) (F.drop (fitPrefix t.atomic F.length cs).length) R := by
  induction cs with
  | nil => intro b L A F R h; exact ⟨b, by simp [Sink.putAll], by simpa [fitPrefix] using h⟩
  | cons c cs ih =>
    intro b L A F R h
    obtain ⟨s1, s2⟩ := step_spec t ht h c
    by_cases hc : c.length ≤ F.length
    · obtain ⟨b1, e1, l1⟩ := s1 hc
      obtain ⟨b', e, l⟩ := ih l1
      refine ⟨b', ?_, ?_⟩
      · have hput : (t.mk b).putAll (c :: cs) = (t.mk b1).putAll cs := by simp [Sink.putAll, e1]
        rw [hput, e]
        simp only [List.flatten_cons, List.length_append, List.length_drop]
        by_cases hf : cs.flatten.length ≤ F.length - c.length
        · rw [if_pos hf, if_pos (by omega)]
        · rw [if_neg hf, if_neg (by omega)]
      · simp only [fitPrefix, hc, if_true]
        rw [List.append_assoc, List.drop_drop, List.length_drop] at l
        simpa using l
    · have hc' : F.length < c.length := by omega
      obtain ⟨b1, e1, l1⟩ := s2 hc'
      refine ⟨b1, ?_, ?_⟩
      · have hput : (t.mk b).putAll (c :: cs) = .err (t.mk b1) := by simp [Sink.putAll, e1]
        rw [hput, if_neg (by simp only [List.flatten_cons, List.length_append]; omega)]
      · simp only [fitPrefix, hc, if_false]
        cases hat : t.atomic <;> simp only [hat] at l1 ⊢ <;> simpa using l1

/-- specification of a call script on a sink with `free` bytes left: a call succeeds iff all its
    chunks fit into what is left *then*, and leaves `fitPrefix` behind either way. -/
def specCalls (atomic : Bool) : Nat → List (List Bytes) → List Bool × Bytes
  | _, [] => ([], [])
  | free, ps :: rest =>
    let a := fitPrefix atomic free ps
    let r := specCalls atomic (free - a.length) rest
    (decide (ps.flatten.length ≤ free) :: r.1, a ++ r.2)

theorem specCalls_le (atomic : Bool) (pss : List (List Bytes)) : ∀ free, (specCalls atomic free pss).2.length ≤ free := by
  induction pss with
  | nil => intro free; simp [specCalls]
  | cons ps rest ih =>
    intro free
    have h1 := fitPrefix_le atomic ps free
    have h2 := ih (free - (fitPrefix atomic free ps).length)
    simp only [specCalls, List.length_append]; omega

theorem callSeq_spec (t : BSink) (ht : t.good) (pss : List (List Bytes)) :
    ∀ {b : Buf} {L A F R : Bytes}, Lay b L A F R →
      ∃ b', (t.mk b).callSeq pss = some (t.mk b', (specCalls t.atomic F.length pss).1) ∧
        Lay b' L (A ++ (specCalls t.atomic F.length pss).2) (F.drop (specCalls t.atomic F.length pss).2.length) R := by
  induction pss with
  | nil => intro b L A F R h; exact ⟨b, rfl, by simpa [specCalls] using h⟩
  | cons ps rest ih =>
    intro b L A F R h
    obtain ⟨b1, e1, l1⟩ := putAll_fit t ht ps h
    obtain ⟨b', e, l⟩ := ih l1
    refine ⟨b', ?_, ?_⟩
    · by_cases hf : ps.flatten.length ≤ F.length
      · rw [if_pos hf] at e1
        simp only [Sink.callSeq, e1, e, specCalls, hf, decide_true, List.length_drop, Option.map_some]
      · rw [if_neg hf] at e1
        simp only [Sink.callSeq, e1, e, specCalls, hf, decide_false, List.length_drop, Option.map_some]
    · simp only [specCalls]
      rw [List.append_assoc, List.drop_drop, List.length_drop] at l
      simpa using l

end Minicbor.Sink
