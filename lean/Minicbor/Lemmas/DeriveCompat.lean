/-
  Helper lemmas for C10: the reader's slot loops on a body written by *another* version of the
  type.  `σ : Nat → Option Val` records, per field index, what the reader has decoded so far;
  `ρ` what the action at an index delivers (`none` = an unknown variant was swallowed, the slot
  keeps its content).
-/
import Minicbor.Lemmas.DeriveDec
import Minicbor.Compat

namespace Minicbor.Derive
open Minicbor.Dec

/-- the reader-side record for a field. -/
def fdOf (b : FAttr) (u : FTy) : FDec :=
  ⟨b, slotInit u, nilOf b u, defaultOf u, swallows b u, decWith b.codec (decTy u)⟩

theorem decFields_cons (b : FAttr) (u : FTy) (gs : Fields) : decFields ((b, u) :: gs) = fdOf b u :: decFields gs := by
  simp [decFields, fdOf]

/-- the slots of the reader agree with `σ`. -/
def InvR (σ : Nat → Option Val) : Fields → Slots → Prop
  | (b, u) :: gs, s :: ss =>
      (b.skip = false → s = (match σ b.idx with | some x => some x | none => slotInit u)) ∧ InvR σ gs ss
  | [], [] => True
  | _, _ => False

theorem invR_init : ∀ (gs : Fields), InvR (fun _ => none) gs ((decFields gs).map (·.init))
  | [] => trivial
  | (b, u) :: gs => ⟨fun _ => by simp [decFields], invR_init gs⟩

theorem invR_congr {σ σ' : Nat → Option Val} : ∀ (gs : Fields) (ss : Slots),
    (∀ i ∈ liveIdxs gs, σ i = σ' i) → InvR σ gs ss → InvR σ' gs ss
  | [], [], _, _ => trivial
  | (b, u) :: gs, s :: ss, h, hi => by
    refine ⟨fun hs => ?_, invR_congr gs ss (fun i hm => h i (by
      cases hb : b.skip <;> simp [liveIdxs, hb, hm])) hi.2⟩
    rw [← h b.idx (by simp [liveIdxs, hs])]
    exact hi.1 hs
  | [], _ :: _, _, hi => by simp [InvR] at hi
  | _ :: _, [], _, hi => by simp [InvR] at hi

/-- the effect of one action on `σ`. -/
def updR (σ : Nat → Option Val) (c : Nat) (res : Option Val) : Nat → Option Val :=
  fun i => if i == c then (match res with | some pv => some pv | none => σ i) else σ i

/-- a hit on the reader's field with index `c`. -/
theorem runAtR_hit (σ : Nat → Option Val) (c : Nat) (X r : Bytes) (res : Option Val) :
    ∀ (gs : Fields) (ss : Slots), (liveIdxs gs).Nodup → InvR σ gs ss → c ∈ liveIdxs gs →
    (∀ b u, (b, u) ∈ gs → b.skip = false → b.idx = c → action (fdOf b u) (X ++ r) = .ok res r) →
    ∃ ss', runAt (decFields gs) ss c (X ++ r) = .ok ss' r ∧ InvR (updR σ c res) gs ss'
  | [], _, _, _, hc, _ => by simp [liveIdxs] at hc
  | (b, u) :: gs, [], _, hi, _, _ => by simp [InvR] at hi
  | (b, u) :: gs, s :: ss, hnd, hi, hc, hact => by
    cases hs : b.skip
    · have hnd' : b.idx ∉ liveIdxs gs ∧ (liveIdxs gs).Nodup := by simpa [liveIdxs, hs] using hnd
      by_cases hbc : b.idx = c
      · -- this field
        have ha := hact b u (by simp) hs hbc
        refine ⟨(match res with | some v => some v | none => s) :: ss, ?_, ?_⟩
        · simp only [decFields_cons, runAt, fdOf, hs, Bool.not_false, Bool.true_and, hbc, beq_self_eq_true, if_true]
          rw [Dec.bind_run]
          have ha' : action ⟨b, slotInit u, nilOf b u, defaultOf u, swallows b u, decWith b.codec (decTy u)⟩ (X ++ r) = .ok res r := ha
          rw [ha']
          rfl
        · refine ⟨fun _ => ?_, invR_congr gs ss (fun i hm => ?_) hi.2⟩
          · simp only [updR, hbc, beq_self_eq_true, if_true]
            cases res with
            | some pv => rfl
            | none => simp only; rw [← hbc]; exact hi.1 hs
          · have : i ≠ c := by intro e; rw [e, ← hbc] at hm; exact hnd'.1 hm
            have hb : (i == c) = false := by simpa using this
            simp [updR, hb]
      · -- a later field
        have hc' : c ∈ liveIdxs gs := by
          have : c ∈ b.idx :: liveIdxs gs := by simpa [liveIdxs, hs] using hc
          rcases List.mem_cons.1 this with e | h
          · exact absurd e.symm hbc
          · exact h
        obtain ⟨ss', h1, h2⟩ := runAtR_hit σ c X r res gs ss hnd'.2 hi.2 hc'
          (fun b' u' hm => hact b' u' (by simp [hm]))
        have hcond : (!b.skip && b.idx == c) = false := by simp [hs, hbc]
        refine ⟨s :: ss', ?_, ?_⟩
        · simp only [decFields_cons, runAt, fdOf, hcond, Bool.false_eq_true, if_false]
          rw [Dec.bind_run, h1]; rfl
        · refine ⟨fun _ => ?_, h2⟩
          have hb : (b.idx == c) = false := by simpa using hbc
          simp only [updR, hb, Bool.false_eq_true, if_false]
          exact hi.1 hs
    · have hnd' : (liveIdxs gs).Nodup := by simpa [liveIdxs, hs] using hnd
      have hc' : c ∈ liveIdxs gs := by simpa [liveIdxs, hs] using hc
      obtain ⟨ss', h1, h2⟩ := runAtR_hit σ c X r res gs ss hnd' hi.2 hc'
        (fun b' u' hm => hact b' u' (by simp [hm]))
      refine ⟨s :: ss', ?_, ?_⟩
      · simp only [decFields_cons, runAt, fdOf, hs, Bool.not_true, Bool.false_and, Bool.false_eq_true, if_false]
        rw [Dec.bind_run, h1]; rfl
      · exact ⟨fun h => by simp [hs] at h, h2⟩

/-- what one index of the writer's body does to the reader: either the reader has no such field
    and skips the item, or its field's action delivers `ρ`. -/
def StepH (gs : Fields) (ρ : Option Val) (c : Nat) (X : Bytes) : Prop :=
  ∀ r, (c ∉ liveIdxs gs → Dec.skip true (X ++ r) = .ok () r) ∧
       (∀ b u, (b, u) ∈ gs → b.skip = false → b.idx = c → action (fdOf b u) (X ++ r) = .ok ρ r)

theorem runAtR_step (σ : Nat → Option Val) (c : Nat) (X r : Bytes) (ρ : Option Val) (gs : Fields) (ss : Slots)
    (hnd : (liveIdxs gs).Nodup) (hi : InvR σ gs ss) (h : StepH gs ρ c X) :
    ∃ ss', runAt (decFields gs) ss c (X ++ r) = .ok ss' r ∧ InvR (updR σ c ρ) gs ss' := by
  by_cases hc : c ∈ liveIdxs gs
  · exact runAtR_hit σ c X r ρ gs ss hnd hi hc (h r).2
  · refine ⟨ss, runAt_miss c X r ((h r).1 hc) gs ss hc, invR_congr gs ss (fun i hm => ?_) hi⟩
    have : i ≠ c := by intro e; rw [e] at hm; exact hc hm
    have hb : (i == c) = false := by simpa using this
    simp [updR, hb]

/-! ### array encoding -/

/-- `σ` after the cells `c .. c+n-1`. -/
def ovr (σ : Nat → Option Val) (ρ : Nat → Option Val) (c n : Nat) : Nat → Option Val :=
  fun i => if decide (c ≤ i) && decide (i < c + n) then (match ρ i with | some pv => some pv | none => σ i) else σ i

theorem arrLoopN_cellsR (rest : Bytes) (gs : Fields) (cell : Nat → Item) (ρ : Nat → Option Val)
    (hnd : (liveIdxs gs).Nodup) :
    ∀ (n c : Nat) (ss : Slots) (σ : Nat → Option Val), InvR σ gs ss →
    (∀ i, c ≤ i → i < c + n → StepH gs (ρ i) i (encPref (cell i))) →
    ∃ ss', arrLoopN (decFields gs) n c ss (encPrefs ((List.range' c n).map cell) ++ rest) = .ok ss' rest
      ∧ InvR (ovr σ ρ c n) gs ss'
  | 0, c, ss, σ, hi, _ => by
    refine ⟨ss, by simp [arrLoopN], invR_congr gs ss (fun i _ => ?_) hi⟩
    have : ¬ (c ≤ i ∧ i < c + 0) := by omega
    simp [ovr]; omega
  | n + 1, c, ss, σ, hi, hstep => by
    obtain ⟨ss1, h1, hi1⟩ := runAtR_step σ c (encPref (cell c))
      (encPrefs ((List.range' (c + 1) n).map cell) ++ rest) (ρ c) gs ss hnd hi (hstep c (Nat.le_refl _) (by omega))
    obtain ⟨ss2, h2, hi2⟩ := arrLoopN_cellsR rest gs cell ρ hnd n (c + 1) ss1 _ hi1
      (fun i h1 h2 => hstep i (by omega) (by omega))
    refine ⟨ss2, ?_, invR_congr gs ss2 (fun i _ => ?_) hi2⟩
    · rw [List.range'_succ, List.map_cons, encPrefs_cons, List.append_assoc]
      simp only [arrLoopN]
      rw [Dec.bind_run, h1]
      exact h2
    · simp only [ovr, updR]
      by_cases hic : i = c
      · subst hic
        have e1 : (decide (i + 1 ≤ i) && decide (i < i + 1 + n)) = false := by simp
        have e2 : (decide (i ≤ i) && decide (i < i + (n + 1))) = true := by simp
        simp [e1, e2]
      · have hb : (i == c) = false := by simpa using hic
        by_cases h1 : c + 1 ≤ i <;> by_cases h2 : i < c + 1 + n
        · have e1 : (decide (c + 1 ≤ i) && decide (i < c + 1 + n)) = true := by simp [h1, h2]
          have e2 : (decide (c ≤ i) && decide (i < c + (n + 1))) = true := by simp; omega
          simp [e1, e2, hb]
        · have e1 : (decide (c + 1 ≤ i) && decide (i < c + 1 + n)) = false := by simp [h2]
          have e2 : (decide (c ≤ i) && decide (i < c + (n + 1))) = false := by simp; omega
          simp [e1, e2, hb]
        · have e1 : (decide (c + 1 ≤ i) && decide (i < c + 1 + n)) = false := by simp [h1]
          have e2 : (decide (c ≤ i) && decide (i < c + (n + 1))) = false := by simp; omega
          simp [e1, e2, hb]
        · have e1 : (decide (c + 1 ≤ i) && decide (i < c + 1 + n)) = false := by simp [h1]
          have e2 : (decide (c ≤ i) && decide (i < c + (n + 1))) = false := by simp; omega
          simp [e1, e2, hb]

/-! ### map encoding -/

/-- `σ` after the entries of the present pieces of `S`. -/
def ovrM (σ : Nat → Option Val) (ρ : Nat → Option Val) (S : List (Piece Bytes)) : Nat → Option Val :=
  fun i => if presentIdx S i then (match ρ i with | some pv => some pv | none => σ i) else σ i

theorem mapLoopN_stmtsR (rest : Bytes) (gs : Fields) (ρ : Nat → Option Val) (hnd : (liveIdxs gs).Nodup) :
    ∀ (S : List (Piece Bytes)) (ss : Slots) (σ : Nat → Option Val), InvR σ gs ss →
    (idxs S).Nodup → (∀ p ∈ S, p.idx < U32) →
    (∀ p ∈ S, p.nil = false → StepH gs (ρ p.idx) p.idx (tagBytes p.tag ++ p.body)) →
    ∃ ss', mapLoopN (decFields gs) (countPresent S) ss (mapStmts S ++ rest) = .ok ss' rest
      ∧ InvR (ovrM σ ρ S) gs ss'
  | [], ss, σ, hi, _, _, _ => by
    refine ⟨ss, by simp [countPresent, mapLoopN, mapStmts], invR_congr gs ss (fun i _ => by simp [ovrM, presentIdx]) hi⟩
  | p :: S, ss, σ, hi, hndS, hidx, hstep => by
    have hndS' : p.idx ∉ idxs S ∧ (idxs S).Nodup := List.nodup_cons.1 hndS
    cases hn : p.nil
    · obtain ⟨ss1, h1, hi1⟩ := runAtR_step σ p.idx (tagBytes p.tag ++ p.body) (mapStmts S ++ rest) (ρ p.idx) gs ss hnd hi
        (hstep p (by simp) hn)
      obtain ⟨ss2, h2, hi2⟩ := mapLoopN_stmtsR rest gs ρ hnd S ss1 _ hi1 hndS'.2 (fun q hq => hidx q (by simp [hq]))
        (fun q hq => hstep q (by simp [hq]))
      refine ⟨ss2, ?_, invR_congr gs ss2 (fun i _ => ?_) hi2⟩
      · have hk := intAcc_u32 p.idx (tagBytes p.tag ++ (p.body ++ (mapStmts S ++ rest))) (by simpa [U32] using hidx p (by simp))
        simp only [countPresent, hn, Bool.false_eq_true, if_false, mapStmts, Bool.not_false, if_true, List.append_assoc]
        rw [show 1 + countPresent S = countPresent S + 1 by omega]
        simp only [mapLoopN]
        rw [Dec.bind_run, hk]
        simp only [Int.toNat_natCast]
        rw [Dec.bind_run]
        rw [List.append_assoc] at h1
        rw [h1]
        exact h2
      · simp only [ovrM, updR, presentIdx, List.any_cons, hn, Bool.not_false, Bool.true_and]
        by_cases hic : i = p.idx
        · subst hic
          have hnot : (S.any fun q => !q.nil && q.idx == p.idx) = false := by
            rw [List.any_eq_false]
            intro q hq hc
            simp only [Bool.and_eq_true, beq_iff_eq] at hc
            exact hndS'.1 (List.mem_map.2 ⟨q, hq, hc.2⟩)
          simp [presentIdx, hnot]
        · have hb : (i == p.idx) = false := by simpa using hic
          have hb' : (p.idx == i) = false := by simpa using (fun e => hic e.symm)
          simp [presentIdx, hb, hb']
    · obtain ⟨ss2, h2, hi2⟩ := mapLoopN_stmtsR rest gs ρ hnd S ss σ hi hndS'.2 (fun q hq => hidx q (by simp [hq]))
        (fun q hq => hstep q (by simp [hq]))
      refine ⟨ss2, ?_, invR_congr gs ss2 (fun i _ => ?_) hi2⟩
      · simpa [countPresent, hn, mapStmts] using h2
      · simp [ovrM, presentIdx, hn]

/-! ### the initialiser on the reader's side -/

/-- what the reader's initialiser makes of `σ`. -/
def readerVals (σ : Nat → Option Val) : Fields → List Val
  | [] => []
  | (b, u) :: gs =>
      (if b.skip then defaultOf u
       else match σ b.idx with
         | some x => x
         | none => match slotInit u with
           | some y => y
           | none => (nilOf b u).getD .none) :: readerVals σ gs

theorem resolveR (σ : Nat → Option Val) : ∀ (gs : Fields) (ss : Slots), InvR σ gs ss →
    (∀ b u, (b, u) ∈ gs → b.skip = false → σ b.idx = none → slotInit u = none → (nilOf b u).isSome = true) →
    ∀ r, resolve (decFields gs) ss r = .ok (readerVals σ gs) r
  | [], [], _, _, r => by simp [decFields, resolve, readerVals]
  | (b, u) :: gs, s :: ss, hi, hopt, r => by
    have ih := resolveR σ gs ss hi.2 (fun b' u' hm => hopt b' u' (by simp [hm])) r
    have hval : slotValue (fdOf b u) s r = .ok (if b.skip then defaultOf u
        else match σ b.idx with
          | some x => x
          | none => match slotInit u with
            | some y => y
            | none => (nilOf b u).getD .none) r := by
      cases hs : b.skip
      · have hslot := hi.1 hs
        simp only [slotValue, fdOf, hs, Bool.false_eq_true, if_false]
        cases hσ : σ b.idx with
        | some x => rw [hslot, hσ]; rfl
        | none =>
          rw [hσ] at hslot
          simp only at hslot
          cases hsi : slotInit u with
          | some y => rw [hslot, hsi]; rfl
          | none =>
            rw [hslot, hsi]
            have := hopt b u (by simp) hs hσ hsi
            cases hn : nilOf b u with
            | some z => rfl
            | none => rw [hn] at this; cases this
      · simp [slotValue, fdOf, hs]
    simp only [decFields_cons, resolve, readerVals]
    rw [Dec.bind_run, hval]
    simp only []
    rw [Dec.bind_run, ih]
    rfl
  | [], _ :: _, hi, _, _ => by simp [InvR] at hi
  | _ :: _, [], hi, _, _ => by simp [InvR] at hi

end Minicbor.Derive
