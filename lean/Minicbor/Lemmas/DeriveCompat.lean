/-
  Helper lemmas for C10: the reader's slot loops on a body written by *another* version of the
  type.  `σ : Nat → Option Val` records, per field index, what the reader has decoded so far;
  `ρ` what the action at an index delivers (`none` = an unknown variant was swallowed, the slot
  keeps its content).
-/
import Minicbor.Lemmas.DeriveDec
import Minicbor.Compat

namespace Minicbor.Derive
open Minicbor.Dec

/-- the reader-side record for a field. -/
def fdOf (b : FAttr) (u : FTy) : FDec :=
  ⟨b, slotInit u, nilOf b u, defaultOf u, swallows b u, decWith b.codec (decTy u)⟩

theorem decFields_cons (b : FAttr) (u : FTy) (gs : Fields) : decFields ((b, u) :: gs) = fdOf b u :: decFields gs := by
  simp [decFields, fdOf]

/-- the slots of the reader agree with `σ`. -/
def InvR (σ : Nat → Option Val) : Fields → Slots → Prop
  | (b, u) :: gs, s :: ss =>
      (b.skip = false → s = (match σ b.idx with | some x => some x | none => slotInit u)) ∧ InvR σ gs ss
  | [], [] => True
  | _, _ => False

theorem invR_init : ∀ (gs : Fields), InvR (fun _ => none) gs ((decFields gs).map (·.init))
  | [] => trivial
  | (b, u) :: gs => ⟨fun _ => by simp [decFields], invR_init gs⟩

theorem invR_congr {σ σ' : Nat → Option Val} : ∀ (gs : Fields) (ss : Slots),
    (∀ i ∈ liveIdxs gs, σ i = σ' i) → InvR σ gs ss → InvR σ' gs ss
  | [], [], _, _ => trivial
  | (b, u) :: gs, s :: ss, h, hi => by
    refine ⟨fun hs => ?_, invR_congr gs ss (fun i hm => h i (by
      cases hb : b.skip <;> simp [liveIdxs, hb, hm])) hi.2⟩
    rw [← h b.idx (by simp [liveIdxs, hs])]
    exact hi.1 hs
  | [], _ :: _, _, hi => by simp [InvR] at hi
  | _ :: _, [], _, hi => by simp [InvR] at hi

/-- the effect of one action on `σ`. -/
def updR (σ : Nat → Option Val) (c : Nat) (res : Option Val) : Nat → Option Val :=
  fun i => if i == c then (match res with | some pv => some pv | none => σ i) else σ i

/-- a hit on the reader's field with index `c`. -/
theorem runAtR_hit (σ : Nat → Option Val) (c : Nat) (X r : Bytes) (res : Option Val) :
    ∀ (gs : Fields) (ss : Slots), (liveIdxs gs).Nodup → InvR σ gs ss → c ∈ liveIdxs gs →
    (∀ b u, (b, u) ∈ gs → b.skip = false → b.idx = c → action (fdOf b u) (X ++ r) = .ok res r) →
    ∃ ss', runAt (decFields gs) ss c (X ++ r) = .ok ss' r ∧ InvR (updR σ c res) gs ss'
  | [], _, _, _, hc, _ => by simp [liveIdxs] at hc
  | (b, u) :: gs, [], _, hi, _, _ => by simp [InvR] at hi
  | (b, u) :: gs, s :: ss, hnd, hi, hc, hact => by
    cases hs : b.skip
    · have hnd' : b.idx ∉ liveIdxs gs ∧ (liveIdxs gs).Nodup := by simpa [liveIdxs, hs] using hnd
      by_cases hbc : b.idx = c
      · -- this field
        have ha : action ⟨b, slotInit u, nilOf b u, defaultOf u, swallows b u, decWith b.codec (decTy u)⟩ (X ++ r) = .ok res r :=
          hact b u (by simp) hs hbc
        have hinv : ∀ s', (res = none → s' = s) → (∀ pv, res = some pv → s' = some pv) → InvR (updR σ c res) ((b, u) :: gs) (s' :: ss) := by
          intro s' h1 h2
          refine ⟨fun _ => ?_, invR_congr gs ss (fun i hm => ?_) hi.2⟩
          · simp only [updR, hbc, beq_self_eq_true, if_true]
            cases hres : res with
            | some pv => exact h2 pv hres
            | none => simp only; rw [h1 hres, ← hbc]; exact hi.1 hs
          · have : i ≠ c := by intro e; rw [e, ← hbc] at hm; exact hnd'.1 hm
            have hb : (i == c) = false := by simpa using this
            simp [updR, hb]
        cases hres : res with
        | some pv =>
          refine ⟨some pv :: ss, ?_, hres ▸ hinv (some pv) (fun h => by rw [hres] at h; cases h) (fun pv' h => by rw [hres] at h; cases h; rfl)⟩
          simp only [decFields_cons, runAt, fdOf, hs, Bool.not_false, Bool.true_and, hbc, beq_self_eq_true, if_true]
          rw [Dec.bind_run, ha, hres]
          rfl
        | none =>
          refine ⟨s :: ss, ?_, hres ▸ hinv s (fun _ => rfl) (fun pv' h => by rw [hres] at h; cases h)⟩
          simp only [decFields_cons, runAt, fdOf, hs, Bool.not_false, Bool.true_and, hbc, beq_self_eq_true, if_true]
          rw [Dec.bind_run, ha, hres]
          rfl
      · -- a later field
        have hc' : c ∈ liveIdxs gs := by
          have : c ∈ b.idx :: liveIdxs gs := by simpa [liveIdxs, hs] using hc
          rcases List.mem_cons.1 this with e | h
          · exact absurd e.symm hbc
          · exact h
        obtain ⟨ss', h1, h2⟩ := runAtR_hit σ c X r res gs ss hnd'.2 hi.2 hc'
          (fun b' u' hm => hact b' u' (by simp [hm]))
        have hcond : (!b.skip && b.idx == c) = false := by simp [hs, hbc]
        refine ⟨s :: ss', ?_, ?_⟩
        · simp only [decFields_cons, runAt, fdOf, hcond, Bool.false_eq_true, if_false]
          rw [Dec.bind_run, h1]; rfl
        · refine ⟨fun _ => ?_, h2⟩
          have hb : (b.idx == c) = false := by simpa using hbc
          simp only [updR, hb, Bool.false_eq_true, if_false]
          exact hi.1 hs
    · have hnd' : (liveIdxs gs).Nodup := by simpa [liveIdxs, hs] using hnd
      have hc' : c ∈ liveIdxs gs := by simpa [liveIdxs, hs] using hc
      obtain ⟨ss', h1, h2⟩ := runAtR_hit σ c X r res gs ss hnd' hi.2 hc'
        (fun b' u' hm => hact b' u' (by simp [hm]))
      refine ⟨s :: ss', ?_, ?_⟩
      · simp only [decFields_cons, runAt, fdOf, hs, Bool.not_true, Bool.false_and, Bool.false_eq_true, if_false]
        rw [Dec.bind_run, h1]; rfl
      · exact ⟨fun h => by simp [hs] at h, h2⟩

/-- what one index of the writer's body does to the reader: either the reader has no such field
    and skips the item, or its field's action delivers `ρ`. -/
def StepH (gs : Fields) (ρ : Option Val) (c : Nat) (X : Bytes) : Prop :=
  ∀ r, (c ∉ liveIdxs gs → Dec.skip true (X ++ r) = .ok () r) ∧
       (∀ b u, (b, u) ∈ gs → b.skip = false → b.idx = c → action (fdOf b u) (X ++ r) = .ok ρ r)

theorem runAtR_step (σ : Nat → Option Val) (c : Nat) (X r : Bytes) (ρ : Option Val) (gs : Fields) (ss : Slots)
    (hnd : (liveIdxs gs).Nodup) (hi : InvR σ gs ss) (h : StepH gs ρ c X) :
    ∃ ss', runAt (decFields gs) ss c (X ++ r) = .ok ss' r ∧ InvR (updR σ c ρ) gs ss' := by
  by_cases hc : c ∈ liveIdxs gs
  · exact runAtR_hit σ c X r ρ gs ss hnd hi hc (h r).2
  · refine ⟨ss, runAt_miss c X r ((h r).1 hc) gs ss hc, invR_congr gs ss (fun i hm => ?_) hi⟩
    have : i ≠ c := by intro e; rw [e] at hm; exact hc hm
    have hb : (i == c) = false := by simpa using this
    simp [updR, hb]

/-! ### array encoding -/

/-- `σ` after the cells `c .. c+n-1`. -/
def ovr (σ : Nat → Option Val) (ρ : Nat → Option Val) (c n : Nat) : Nat → Option Val :=
  fun i => if decide (c ≤ i) && decide (i < c + n) then (match ρ i with | some pv => some pv | none => σ i) else σ i

theorem arrLoopN_cellsR (rest : Bytes) (gs : Fields) (cell : Nat → Item) (ρ : Nat → Option Val)
    (hnd : (liveIdxs gs).Nodup) :
    ∀ (n c : Nat) (ss : Slots) (σ : Nat → Option Val), InvR σ gs ss →
    (∀ i, c ≤ i → i < c + n → StepH gs (ρ i) i (encPref (cell i))) →
    ∃ ss', arrLoopN (decFields gs) n c ss (encPrefs ((List.range' c n).map cell) ++ rest) = .ok ss' rest
      ∧ InvR (ovr σ ρ c n) gs ss'
  | 0, c, ss, σ, hi, _ => by
    refine ⟨ss, by simp [arrLoopN], invR_congr gs ss (fun i _ => ?_) hi⟩
    have : ¬ (c ≤ i ∧ i < c + 0) := by omega
    simp [ovr]; omega
  | n + 1, c, ss, σ, hi, hstep => by
    obtain ⟨ss1, h1, hi1⟩ := runAtR_step σ c (encPref (cell c))
      (encPrefs ((List.range' (c + 1) n).map cell) ++ rest) (ρ c) gs ss hnd hi (hstep c (Nat.le_refl _) (by omega))
    obtain ⟨ss2, h2, hi2⟩ := arrLoopN_cellsR rest gs cell ρ hnd n (c + 1) ss1 _ hi1
      (fun i h1 h2 => hstep i (by omega) (by omega))
    refine ⟨ss2, ?_, invR_congr gs ss2 (fun i _ => ?_) hi2⟩
    · rw [List.range'_succ, List.map_cons, encPrefs_cons, List.append_assoc]
      simp only [arrLoopN]
      rw [Dec.bind_run, h1]
      exact h2
    · simp only [ovr, updR]
      by_cases hic : i = c
      · subst hic
        have e1 : (decide (i + 1 ≤ i) && decide (i < i + 1 + n)) = false := by
          have : ¬ (i + 1 ≤ i) := by omega
          simp [this]
        have e2 : (decide (i ≤ i) && decide (i < i + (n + 1))) = true := by simp
        rw [e1, e2]
        simp
      · have hb : (i == c) = false := by simpa using hic
        by_cases h1 : c + 1 ≤ i <;> by_cases h2 : i < c + 1 + n
        · have e1 : (decide (c + 1 ≤ i) && decide (i < c + 1 + n)) = true := by simp [h1, h2]
          have e2 : (decide (c ≤ i) && decide (i < c + (n + 1))) = true := by simp; omega
          simp [e1, e2, hb]
        · have e1 : (decide (c + 1 ≤ i) && decide (i < c + 1 + n)) = false := by simp [h2]
          have e2 : (decide (c ≤ i) && decide (i < c + (n + 1))) = false := by simp; omega
          simp [e1, e2, hb]
        · have e1 : (decide (c + 1 ≤ i) && decide (i < c + 1 + n)) = false := by simp [h1]
          have e2 : (decide (c ≤ i) && decide (i < c + (n + 1))) = false := by simp; omega
          simp [e1, e2, hb]
        · have e1 : (decide (c + 1 ≤ i) && decide (i < c + 1 + n)) = false := by simp [h1]
          have e2 : (decide (c ≤ i) && decide (i < c + (n + 1))) = false := by simp; omega
          simp [e1, e2, hb]

/-! ### map encoding -/

/-- `σ` after the entries of the present pieces of `S`. -/
def ovrM (σ : Nat → Option Val) (ρ : Nat → Option Val) (S : List (Piece Bytes)) : Nat → Option Val :=
  fun i => if presentIdx S i then (match ρ i with | some pv => some pv | none => σ i) else σ i

theorem mapLoopN_stmtsR (rest : Bytes) (gs : Fields) (ρ : Nat → Option Val) (hnd : (liveIdxs gs).Nodup) :
    ∀ (S : List (Piece Bytes)) (ss : Slots) (σ : Nat → Option Val), InvR σ gs ss →
    (idxs S).Nodup → (∀ p ∈ S, p.idx < U32) →
    (∀ p ∈ S, p.nil = false → StepH gs (ρ p.idx) p.idx (tagBytes p.tag ++ p.body)) →
    ∃ ss', mapLoopN (decFields gs) (countPresent S) ss (mapStmts S ++ rest) = .ok ss' rest
      ∧ InvR (ovrM σ ρ S) gs ss'
  | [], ss, σ, hi, _, _, _ => by
    refine ⟨ss, by simp [countPresent, mapLoopN, mapStmts], invR_congr gs ss (fun i _ => by simp [ovrM, presentIdx]) hi⟩
  | p :: S, ss, σ, hi, hndS, hidx, hstep => by
    have hndS' : p.idx ∉ idxs S ∧ (idxs S).Nodup := List.nodup_cons.1 hndS
    cases hn : p.nil
    · obtain ⟨ss1, h1, hi1⟩ := runAtR_step σ p.idx (tagBytes p.tag ++ p.body) (mapStmts S ++ rest) (ρ p.idx) gs ss hnd hi
        (hstep p (by simp) hn)
      obtain ⟨ss2, h2, hi2⟩ := mapLoopN_stmtsR rest gs ρ hnd S ss1 _ hi1 hndS'.2 (fun q hq => hidx q (by simp [hq]))
        (fun q hq => hstep q (by simp [hq]))
      refine ⟨ss2, ?_, invR_congr gs ss2 (fun i _ => ?_) hi2⟩
      · have hk := intAcc_u32 p.idx (tagBytes p.tag ++ (p.body ++ (mapStmts S ++ rest))) (by simpa [U32] using hidx p (by simp))
        simp only [countPresent, hn, Bool.false_eq_true, if_false, mapStmts, Bool.not_false, if_true, List.append_assoc]
        rw [show 1 + countPresent S = countPresent S + 1 by omega]
        simp only [mapLoopN]
        rw [Dec.bind_run, hk]
        simp only [Int.toNat_natCast]
        rw [Dec.bind_run]
        rw [List.append_assoc] at h1
        rw [h1]
        exact h2
      · simp only [ovrM, updR, presentIdx, List.any_cons, hn, Bool.not_false, Bool.true_and]
        by_cases hic : i = p.idx
        · subst hic
          have hnot : (S.any fun q => !q.nil && q.idx == p.idx) = false := by
            rw [List.any_eq_false]
            intro q hq hc
            simp only [Bool.and_eq_true, beq_iff_eq] at hc
            exact hndS'.1 (List.mem_map.2 ⟨q, hq, hc.2⟩)
          simp [presentIdx, hnot]
        · have hb : (i == p.idx) = false := by simpa using hic
          have hb' : (p.idx == i) = false := by simpa using (fun e => hic e.symm)
          simp [presentIdx, hb, hb']
    · obtain ⟨ss2, h2, hi2⟩ := mapLoopN_stmtsR rest gs ρ hnd S ss σ hi hndS'.2 (fun q hq => hidx q (by simp [hq]))
        (fun q hq => hstep q (by simp [hq]))
      refine ⟨ss2, ?_, invR_congr gs ss2 (fun i _ => ?_) hi2⟩
      · simpa [countPresent, hn, mapStmts] using h2
      · simp [ovrM, presentIdx, hn]

/-! ### the initialiser on the reader's side -/

/-- what the reader's initialiser makes of `σ`. -/
def readerVals (σ : Nat → Option Val) : Fields → List Val
  | [] => []
  | (b, u) :: gs =>
      (if b.skip then defaultOf u
       else match σ b.idx with
         | some x => x
         | none => match slotInit u with
           | some y => y
           | none => (nilOf b u).getD .none) :: readerVals σ gs

theorem resolveR (σ : Nat → Option Val) : ∀ (gs : Fields) (ss : Slots), InvR σ gs ss →
    (∀ b u, (b, u) ∈ gs → b.skip = false → σ b.idx = none → slotInit u = none → (nilOf b u).isSome = true) →
    ∀ r, resolve (decFields gs) ss r = .ok (readerVals σ gs) r
  | [], [], _, _, r => by simp [decFields, resolve, readerVals]
  | (b, u) :: gs, s :: ss, hi, hopt, r => by
    have ih := resolveR σ gs ss hi.2 (fun b' u' hm => hopt b' u' (by simp [hm])) r
    have hval : slotValue (fdOf b u) s r = .ok (if b.skip then defaultOf u
        else match σ b.idx with
          | some x => x
          | none => match slotInit u with
            | some y => y
            | none => (nilOf b u).getD .none) r := by
      cases hs : b.skip
      · have hslot := hi.1 hs
        cases hσ : σ b.idx with
        | some x =>
          rw [hσ] at hslot
          simp [slotValue, fdOf, hs, hslot]
        | none =>
          rw [hσ] at hslot
          simp only at hslot
          cases hsi : slotInit u with
          | some y => simp [slotValue, fdOf, hs, hslot, hsi]
          | none =>
            have := hopt b u (by simp) hs hσ hsi
            cases hn : nilOf b u with
            | some z => simp [slotValue, fdOf, hs, hslot, hsi, hn]
            | none => rw [hn] at this; cases this
      · simp [slotValue, fdOf, hs]
    simp only [decFields_cons, resolve, readerVals]
    rw [Dec.bind_run, hval]
    simp only []
    rw [Dec.bind_run, ih]
    rfl
  | [], _ :: _, hi, _, _ => by simp [InvR] at hi
  | _ :: _, [], hi, _, _ => by simp [InvR] at hi

/-! ### a whole body written by another version -/

/-- what the reader has decoded after the body: per index, the result of the action there. -/
def sigmaF (enc : Encoding) (fs : Fields) (vs : List Val) (ρ : Nat → Option Val) : Nat → Option Val :=
  match enc with
  | .array =>
    (match maxPresent (specFields fs vs) with
     | none => fun _ => none
     | some m => ovr (fun _ => none) ρ 0 (m + 1))
  | .map => ovrM (fun _ => none) ρ (sortP (encFields fs vs))

/-- **the reader's body decoder on a body written by another version**: if at every index on
    the wire the reader either skips the item or its field's action delivers `ρ`, and every
    reader field left without a value has a nil value, the reader obtains `readerVals`. -/
theorem fieldsDec_compat (enc : Encoding) (fs : Fields) (vs : List Val) (gs : Fields) (rest : Bytes)
    (ρ : Nat → Option Val)
    (hacc : acceptedFields fs = true) (hnd : (liveIdxs fs).Nodup) (hty : hasFields fs vs = true)
    (hndR : (liveIdxs gs).Nodup)
    (hcell : enc = .array → ∀ m, maxPresent (specFields fs vs) = some m → ∀ i, i ≤ m →
      StepH gs (ρ i) i (encPref (cellAt (specFields fs vs) i)))
    (hentry : enc = .map → ∀ p ∈ encFields fs vs, p.nil = false → StepH gs (ρ p.idx) p.idx (tagBytes p.tag ++ p.body))
    (hopt : ∀ b u, (b, u) ∈ gs → b.skip = false → sigmaF enc fs vs ρ b.idx = none → slotInit u = none →
      (nilOf b u).isSome = true) :
    fieldsDec enc (decFields gs) (frame enc (encFields fs vs) ++ rest) = .ok (readerVals (sigmaF enc fs vs ρ) gs) rest := by
  have hinit := invR_init gs
  cases enc with
  | array =>
    have nd : (idxs (specFields fs vs)).Nodup := by rw [C08.specFields_idxs fs vs hty]; exact hnd
    rw [C08.fields_spec fs vs hacc hty, frame_spec .array _ nd (C08.specFields_ok fs vs hacc)]
    simp only [specBody, specArray_eq]
    cases hm : maxPresent (specFields fs vs) with
    | none =>
      have hσ : sigmaF .array fs vs ρ = fun _ => none := by simp [sigmaF, hm]
      have hres := resolveR _ gs _ hinit (fun b u hm hs _ hsi => hopt b u hm hs (by rw [hσ]) hsi) rest
      have e : encPref (Item.array []) ++ rest = Enc.array 0 ++ rest := rfl
      simp only [e, fieldsDec, statements, Dec.bind_run, array_enc 0 rest (by decide), arrLoopN, Dec.pure_run, hres, hσ]
    | some m =>
      simp only
      obtain ⟨q, hq, hqm, _⟩ := maxPresent_mem hm
      have hm32 : m < U32 := by rw [← hqm]; exact (C08.specFields_ok fs vs hacc q hq).1
      rw [encPref_array _ (by simp [U64, U32] at *; omega)]
      simp only [List.length_map, List.length_range, List.range_eq_range', List.length_range']
      obtain ⟨ss', h1, hi1⟩ := arrLoopN_cellsR rest gs (cellAt (specFields fs vs)) ρ hndR (m + 1) 0 _ _ hinit
        (fun i _ h2 => hcell rfl m hm i (by omega))
      have hσ : sigmaF .array fs vs ρ = ovr (fun _ => none) ρ 0 (m + 1) := by simp [sigmaF, hm]
      have hres := resolveR _ gs ss' hi1 (fun b u hm hs h hsi => hopt b u hm hs (by rw [hσ]; exact h) hsi) rest
      simp only [fieldsDec, statements, Dec.bind_run, List.append_assoc,
        array_enc (m + 1) _ (by simp [U32] at hm32; omega), h1, hres, hσ]
  | map =>
    have hperm := sortP_perm (encFields fs vs)
    have nd' : (idxs (encFields fs vs)).Nodup := by rw [liveIdxs_eq_idxs fs vs hty]; exact hnd
    have ndS : (idxs (sortP (encFields fs vs))).Nodup := (idxs_perm hperm).nodup_iff.2 nd'
    have hS : ∀ p ∈ sortP (encFields fs vs), p.idx < U32 :=
      fun p hp => mem_encFields_idx fs vs hacc hty p (hperm.mem_iff.1 hp)
    obtain ⟨ss', h1, hi1⟩ := mapLoopN_stmtsR rest gs ρ hndR (sortP (encFields fs vs)) _ _ hinit ndS hS
      (fun p hp hn => hentry rfl p (hperm.mem_iff.1 hp) hn)
    have hσ : sigmaF .map fs vs ρ = ovrM (fun _ => none) ρ (sortP (encFields fs vs)) := rfl
    have hres := resolveR _ gs ss' hi1 (fun b u hm hs h hsi => hopt b u hm hs (by rw [hσ]; exact h) hsi) rest
    have hlen : (sortP (encFields fs vs)).length ≤ U32 :=
      idx_lt_length_of_asc _ U32 (sortP_asc _ nd') hS
    have hcp := countPresent_le (sortP (encFields fs vs))
    simp only [frame, frameMap, maxFields_eq, fieldsDec, statements, Dec.bind_run, List.append_assoc,
      map_enc _ _ (show countPresent (sortP (encFields fs vs)) < 18446744073709551616 by simp [U32] at hlen; omega), h1, hres, hσ]

/-! ### versions that share fields *unchanged*: adding and dropping fields -/

/-- the live writer field with index `i`, and its value. -/
def lookupVal : Fields → List Val → Nat → Option (FAttr × FTy × Val)
  | (a, t) :: fs, v :: vs, i => if !a.skip && a.idx == i then some (a, t, v) else lookupVal fs vs i
  | _, _, _ => none

/-- the value an absent optional field resolves to (`Some(None)` slot, else `nil()`). -/
def nilVal (b : FAttr) (u : FTy) : Val :=
  match slotInit u with
  | some y => y
  | none => (nilOf b u).getD .none

/-- what the documentation promises a reader whose shared fields are declared exactly as the
    writer declares them: shared fields equal (skipped parts defaulted), fields unknown to the
    writer nil, fields unknown to the reader ignored. -/
def expectSame (fs : Fields) (vs : List Val) : Fields → List Val
  | [] => []
  | (b, u) :: gs =>
      (if b.skip then defaultOf u
       else match lookupVal fs vs b.idx with
         | some (_, t, v) => withDefaults t v
         | none => nilVal b u) :: expectSame fs vs gs

theorem lookupVal_find : ∀ (fs : Fields) (vs : List Val) (i : Nat), hasFields fs vs = true →
    (specFields fs vs).find? (fun p => p.idx == i) =
      (lookupVal fs vs i).map fun x => ⟨x.1.idx, x.1.tag, specAbsent x.1 x.2.2, specWith x.1.codec (specTy x.2.1) x.2.2⟩
  | [], [], _, _ => rfl
  | (a, t) :: fs, v :: vs, i, h => by
    simp only [hasFields, Bool.and_eq_true] at h
    have ih := lookupVal_find fs vs i h.2
    cases hs : a.skip
    · by_cases hi : a.idx = i
      · simp [specFields, lookupVal, hs, hi, List.find?]
      · have hb : (a.idx == i) = false := by simpa using hi
        simp [specFields, lookupVal, hs, hb, List.find?, ih]
    · simp [specFields, lookupVal, hs, ih]
  | [], _ :: _, _, h => by simp [hasFields] at h
  | _ :: _, [], _, h => by simp [hasFields] at h

theorem lookupVal_mem : ∀ (fs : Fields) (vs : List Val) (i : Nat) (a : FAttr) (t : FTy) (v : Val),
    lookupVal fs vs i = some (a, t, v) →
    a.skip = false ∧ a.idx = i ∧ (⟨a.idx, a.tag, isNilField a t v, encWith a.codec (encTy t) v⟩ : Piece Bytes) ∈ encFields fs vs
  | [], vs, _, _, _, _, h => by cases vs <;> simp [lookupVal] at h
  | (a', t') :: fs, [], _, _, _, _, h => by simp [lookupVal] at h
  | (a', t') :: fs, v' :: vs, i, a, t, v, h => by
    simp only [lookupVal] at h
    split at h
    · rename_i hc
      simp only [Bool.and_eq_true, Bool.not_eq_true', beq_iff_eq] at hc
      cases h
      exact ⟨hc.1, hc.2, by simp [encFields, hc.1]⟩
    · obtain ⟨h1, h2, h3⟩ := lookupVal_mem fs vs i a t v h
      refine ⟨h1, h2, ?_⟩
      cases hs : a'.skip <;> simp [encFields, hs, h3]

theorem lookupVal_of_mem : ∀ (fs : Fields) (vs : List Val) (p : Piece Bytes), (liveIdxs fs).Nodup →
    p ∈ encFields fs vs → ∃ a t v, lookupVal fs vs p.idx = some (a, t, v) ∧
      p = ⟨a.idx, a.tag, isNilField a t v, encWith a.codec (encTy t) v⟩
  | [], vs, p, _, h => by cases vs <;> simp [encFields] at h
  | (a', t') :: fs, [], p, _, h => by simp [encFields] at h
  | (a', t') :: fs, v' :: vs, p, hnd, h => by
    cases hs : a'.skip
    · have hnd' : a'.idx ∉ liveIdxs fs ∧ (liveIdxs fs).Nodup := by simpa [liveIdxs, hs] using hnd
      simp only [encFields, hs, Bool.false_eq_true, if_false, List.mem_cons] at h
      rcases h with rfl | h
      · exact ⟨a', t', v', by simp [lookupVal, hs], rfl⟩
      · obtain ⟨a, t, v, h1, h2⟩ := lookupVal_of_mem fs vs p hnd'.2 h
        have hpi : p.idx ∈ liveIdxs fs := by
          obtain ⟨_, hi, _⟩ := lookupVal_mem fs vs p.idx a t v h1
          have hmem := (lookupVal_mem fs vs p.idx a t v h1).2.2
          -- the index of a piece is a live index
          have key : ∀ (fs : Fields) (vs : List Val) (q : Piece Bytes), q ∈ encFields fs vs → q.idx ∈ liveIdxs fs := by
            intro fs
            induction fs with
            | nil => intro vs q hq; cases vs <;> simp [encFields] at hq
            | cons f fs ih =>
              intro vs q hq
              obtain ⟨fa, ft⟩ := f
              cases vs with
              | nil => simp [encFields] at hq
              | cons w ws =>
                cases hfs : fa.skip
                · simp only [encFields, hfs, Bool.false_eq_true, if_false, List.mem_cons] at hq
                  rcases hq with rfl | hq
                  · simp [liveIdxs, hfs]
                  · simp [liveIdxs, hfs, ih ws q hq]
                · simp only [encFields, hfs, if_true] at hq
                  simp [liveIdxs, hfs, ih ws q hq]
          exact key fs vs p h
        have hne : a'.idx ≠ p.idx := by intro e; rw [e] at hnd'; exact hnd'.1 hpi
        have hb : (a'.idx == p.idx) = false := by simpa using hne
        exact ⟨a, t, v, by simp [lookupVal, hs, hb, h1], h2⟩
    · have hnd' : (liveIdxs fs).Nodup := by simpa [liveIdxs, hs] using hnd
      simp only [encFields, hs, if_true] at h
      obtain ⟨a, t, v, h1, h2⟩ := lookupVal_of_mem fs vs p hnd' h
      exact ⟨a, t, v, by simp [lookupVal, hs, h1], h2⟩

theorem lookupVal_rt : ∀ (fs : Fields) (vs : List Val) (i : Nat) (a : FAttr) (t : FTy) (v : Val),
    FieldsRT fs vs → lookupVal fs vs i = some (a, t, v) →
    ∀ r, decWith a.codec (decTy t) (encWith a.codec (encTy t) v ++ r) = .ok (withDefaults t v) r
  | [], vs, _, _, _, _, _, h => by cases vs <;> simp [lookupVal] at h
  | (a', t') :: fs, [], _, _, _, _, _, h => by simp [lookupVal] at h
  | (a', t') :: fs, v' :: vs, i, a, t, v, hrt, h => by
    simp only [lookupVal] at h
    split at h
    · rename_i hc
      simp only [Bool.and_eq_true, Bool.not_eq_true', beq_iff_eq] at hc
      cases h
      exact hrt.1 hc.1
    · exact lookupVal_rt fs vs i a t v hrt.2 h

theorem lookupVal_none : ∀ (fs : Fields) (vs : List Val) (i : Nat), hasFields fs vs = true →
    (lookupVal fs vs i = none ↔ i ∉ liveIdxs fs)
  | [], [], _, _ => by simp [lookupVal, liveIdxs]
  | (a, t) :: fs, v :: vs, i, h => by
    simp only [hasFields, Bool.and_eq_true] at h
    have ih := lookupVal_none fs vs i h.2
    cases hs : a.skip
    · by_cases hi : a.idx = i
      · simp [lookupVal, liveIdxs, hs, hi]
      · have hb : (a.idx == i) = false := by simpa using hi
        have hne : ¬ i = a.idx := fun e => hi e.symm
        simp only [lookupVal, liveIdxs, hs, hb, Bool.not_false, Bool.true_and, Bool.false_eq_true, if_false,
          List.mem_cons, hne, false_or]
        exact ih
    · simp only [lookupVal, liveIdxs, hs, Bool.not_true, Bool.false_and, Bool.false_eq_true, if_false, if_true]
      exact ih
  | [], _ :: _, _, h => by simp [hasFields] at h
  | _ :: _, [], _, h => by simp [hasFields] at h

theorem findField_mem : ∀ (gs : Fields) (i : Nat) (b : FAttr) (u : FTy), findField gs i = some (b, u) →
    (b, u) ∈ gs ∧ b.skip = false ∧ b.idx = i
  | [], _, _, _, h => by simp [findField] at h
  | (b', u') :: gs, i, b, u, h => by
    simp only [findField] at h
    split at h
    · rename_i hc
      simp only [Bool.and_eq_true, Bool.not_eq_true', beq_iff_eq] at hc
      cases h; exact ⟨by simp, hc.1, hc.2⟩
    · obtain ⟨h1, h2, h3⟩ := findField_mem gs i b u h
      exact ⟨by simp [h1], h2, h3⟩

theorem mem_liveIdxs : ∀ (gs : Fields) (b : FAttr) (u : FTy), (b, u) ∈ gs → b.skip = false → b.idx ∈ liveIdxs gs
  | [], _, _, h, _ => by simp at h
  | (b', u') :: gs, b, u, h, hs => by
    rcases List.mem_cons.1 h with e | h'
    · cases e; simp [liveIdxs, hs]
    · have := mem_liveIdxs gs b u h' hs
      cases hs' : b'.skip <;> simp [liveIdxs, hs', this]

theorem findField_of_mem : ∀ (gs : Fields) (b : FAttr) (u : FTy), (liveIdxs gs).Nodup → (b, u) ∈ gs → b.skip = false →
    findField gs b.idx = some (b, u)
  | [], _, _, _, h, _ => by simp at h
  | (b', u') :: gs, b, u, hnd, h, hs => by
    rcases List.mem_cons.1 h with e | h'
    · cases e; simp [findField, hs]
    · cases hs' : b'.skip
      · have hnd' : b'.idx ∉ liveIdxs gs ∧ (liveIdxs gs).Nodup := by simpa [liveIdxs, hs'] using hnd
        have ih := findField_of_mem gs b u hnd'.2 h' hs
        have hbi := mem_liveIdxs gs b u h' hs
        have hne : b'.idx ≠ b.idx := by intro e; rw [e] at hnd'; exact hnd'.1 hbi
        have hb : (b'.idx == b.idx) = false := by simpa using hne
        simp [findField, hs', hb, ih]
      · have hnd' : (liveIdxs gs).Nodup := by simpa [liveIdxs, hs'] using hnd
        simp [findField, hs', findField_of_mem gs b u hnd' h' hs]

theorem findField_none : ∀ (gs : Fields) (i : Nat), findField gs i = none ↔ i ∉ liveIdxs gs
  | [], _ => by simp [findField, liveIdxs]
  | (b, u) :: gs, i => by
    have ih := findField_none gs i
    cases hs : b.skip
    · by_cases hi : b.idx = i
      · simp [findField, liveIdxs, hs, hi]
      · have hb : (b.idx == i) = false := by simpa using hi
        have hne : ¬ i = b.idx := fun e => hi e.symm
        simp only [findField, liveIdxs, hs, hb, Bool.not_false, Bool.true_and, Bool.false_eq_true, if_false,
          List.mem_cons, hne, false_or]
        exact ih
    · simp only [findField, liveIdxs, hs, Bool.not_true, Bool.false_and, Bool.false_eq_true, if_false, if_true]
      exact ih

/-- an optional field reads `null` as its nil value. -/
theorem dec_null_nil (b : FAttr) (u : FTy) (r : Bytes) (hopt : optionalField b u = true) (hc : codecOk b.codec u = true) :
    decWith b.codec (decTy u) (Enc.null ++ r) = .ok (nilVal b u) r := by
  unfold optionalField nilOf at hopt
  cases hcd : b.codec <;> rw [hcd] at hopt hc <;> simp only at hopt
  · cases u <;> simp [FTy.isOption] at hopt
    simp only [decWith, decTy, nilVal, slotInit, FTy.isOption, if_true]
    exact optionDec_none _ r
  · cases u <;> simp [FTy.isOption] at hopt
    simp only [decWith, decTy, nilVal, slotInit, FTy.isOption, if_true]
    exact optionDec_none _ r
  · have ht : u = .int .u32 := by
      cases u <;> simp [codecOk] at hc
      rename_i k; cases k <;> simp [codecOk] at hc; rfl
    subst ht
    simp [decWith, Dec.bind_run, datatype_null, skip_null, nilVal, slotInit, FTy.isOption, nilOf, hcd]

theorem lookupVal_typed : ∀ (fs : Fields) (vs : List Val) (i : Nat) (a : FAttr) (t : FTy) (v : Val),
    acceptedFields fs = true → hasFields fs vs = true → lookupVal fs vs i = some (a, t, v) →
    codecOk a.codec t = true ∧ hasTy t v = true ∧ tagOk a.tag = true
  | [], vs, _, _, _, _, _, _, h => by cases vs <;> simp [lookupVal] at h
  | (a', t') :: fs, [], _, _, _, _, _, hv, _ => by simp [hasFields] at hv
  | (a', t') :: fs, v' :: vs, i, a, t, v, ha, hv, h => by
    simp only [acceptedFields, Bool.and_eq_true] at ha
    simp only [hasFields, Bool.and_eq_true] at hv
    simp only [lookupVal] at h
    split at h
    · rename_i hc
      simp only [Bool.and_eq_true, Bool.not_eq_true', beq_iff_eq] at hc
      cases h
      have := ha.1.1
      simp only [fieldAttrOk, hc.1, Bool.false_eq_true, if_false, Bool.and_eq_true] at this
      exact ⟨this.1.2, hv.1, this.1.1.2⟩
    · exact lookupVal_typed fs vs i a t v ha.2 hv.2 h

/-- the result of the reader's action at index `i`: the writer's value there, or — at a gap of
    the writer's array — the nil value of the reader's field (an untagged field decodes the `null`;
    a tagged one skips it and keeps its slot: the K5 repair). -/
def rhoSame (fs : Fields) (vs : List Val) (gs : Fields) (i : Nat) : Option Val :=
  match lookupVal fs vs i with
  | some (_, t, v) => some (withDefaults t v)
  | none => (findField gs i).bind fun g => if g.1.tag.isSome then none else some (nilVal g.1 g.2)

theorem swallows_eq_optional (b : FAttr) (u : FTy) : swallows b u = optionalField b u := by
  unfold swallows optionalField nilOf
  cases b.codec <;> cases u.isOption <;> rfl

/-- the hypotheses under which a reader reads a writer whose shared fields it declares identically. -/
structure SameHyp (enc : Encoding) (fs : Fields) (vs : List Val) (gs : Fields) : Prop where
  /-- shared fields are declared alike (type, tag, codec) -/
  shared : ∀ b u, (b, u) ∈ gs → b.skip = false → ∀ a t v, lookupVal fs vs b.idx = some (a, t, v) →
    t = u ∧ a.tag = b.tag ∧ a.codec = b.codec
  /-- fields only the reader knows are optional (before the K5 repair they also had to be untagged
      in array encoding below the end of the writer's array) -/
  ronly : ∀ b u, (b, u) ∈ gs → b.skip = false → lookupVal fs vs b.idx = none → optionalField b u = true
  /-- fields only the writer knows are items `skip()` gets across (C06.skip_exact) -/
  wonly : ∀ p ∈ encFields fs vs, p.idx ∉ liveIdxs gs → ∀ r, Dec.skip true (tagBytes p.tag ++ (p.body ++ r)) = .ok () r

theorem fieldOk_of_mem : ∀ (gs : Fields) (b : FAttr) (u : FTy), acceptedFields gs = true → (b, u) ∈ gs → b.skip = false →
    tagOk b.tag = true ∧ codecOk b.codec u = true
  | [], _, _, _, h, _ => by simp at h
  | (b', u') :: gs, b, u, ha, h, hs => by
    simp only [acceptedFields, Bool.and_eq_true] at ha
    rcases List.mem_cons.1 h with e | h'
    · cases e
      have := ha.1.1
      simp only [fieldAttrOk, hs, Bool.false_eq_true, if_false, Bool.and_eq_true] at this
      exact ⟨this.1.1.2, this.1.2⟩
    · exact fieldOk_of_mem gs b u ha.2 h' hs

theorem stepH_piece (enc : Encoding) (fs : Fields) (vs : List Val) (gs : Fields) (i : Nat) (a : FAttr) (t : FTy) (v : Val)
    (haccR : acceptedFields gs = true) (hrt : FieldsRT fs vs) (H : SameHyp enc fs vs gs)
    (hl : lookupVal fs vs i = some (a, t, v)) :
    StepH gs (rhoSame fs vs gs i) i (tagBytes a.tag ++ encWith a.codec (encTy t) v) := by
  obtain ⟨hskip, hai, hmem⟩ := lookupVal_mem fs vs i a t v hl
  intro r
  constructor
  · intro hni
    have := H.wonly _ hmem (by simpa [hai] using hni) r
    simpa [List.append_assoc] using this
  · intro b u hbu hbs hbi
    have hsh := H.shared b u hbu hbs a t v (by rw [hbi]; exact hl)
    obtain ⟨rfl, htag, hcod⟩ := hsh
    have hok := fieldOk_of_mem gs b t haccR hbu hbs
    have hd := lookupVal_rt fs vs i a t v hrt hl r
    have := action_rt (fdOf b t) (withDefaults t v) (encWith a.codec (encTy t) v) r hok.1
      (by simp only [fdOf, ← hcod]; exact hd)
    simp only [rhoSame, hl, List.append_assoc]
    simp only [fdOf] at this
    rw [← htag] at this
    exact this

theorem stepH_gap (enc : Encoding) (fs : Fields) (vs : List Val) (gs : Fields) (i : Nat)
    (haccR : acceptedFields gs = true) (hndR : (liveIdxs gs).Nodup) (H : SameHyp enc fs vs gs)
    (hl : lookupVal fs vs i = none) :
    StepH gs (rhoSame fs vs gs i) i Enc.null := by
  intro r
  constructor
  · intro _; exact skip_null r
  · intro b u hbu hbs hbi
    have hf := findField_of_mem gs b u hndR hbu hbs
    rw [hbi] at hf
    have hro := H.ronly b u hbu hbs (by rw [hbi]; exact hl)
    have hok := fieldOk_of_mem gs b u haccR hbu hbs
    cases htag : b.tag with
    | none =>
      have hd := dec_null_nil b u r hro hok.2
      simp only [rhoSame, hl, hf, Option.bind_some, htag, Option.isSome_none, Bool.false_eq_true, if_false]
      rw [action_of_not_bare _ _ (bareNull_untagged _ _ (by simp [fdOf, htag]))]
      simp only [fdOf, htag, tagCheck]
      rw [Dec.bind_run]
      simp only [Dec.pure_run, catchVariant, hd]
    | some n =>
      simp only [rhoSame, hl, hf, Option.bind_some, htag, Option.isSome_some, if_true]
      exact action_bare_null (fdOf b u) r (by simp [fdOf, htag]) (by simp only [fdOf, swallows_eq_optional]; exact hro)

theorem sigmaF_array (fs : Fields) (vs : List Val) (ρ : Nat → Option Val) (m i : Nat)
    (hm : maxPresent (specFields fs vs) = some m) :
    sigmaF .array fs vs ρ i = if i ≤ m then ρ i else none := by
  simp only [sigmaF, hm, ovr]
  by_cases h : i ≤ m
  · have : (decide (0 ≤ i) && decide (i < 0 + (m + 1))) = true := by simp; omega
    rw [this]; simp only [if_true, h]
    cases ρ i <;> rfl
  · have : (decide (0 ≤ i) && decide (i < 0 + (m + 1))) = false := by simp; omega
    rw [this]; simp [h]

theorem sigmaF_map (fs : Fields) (vs : List Val) (ρ : Nat → Option Val) (i : Nat) :
    sigmaF .map fs vs ρ i = if presentIdx (sortP (encFields fs vs)) i then ρ i else none := by
  simp only [sigmaF, ovrM]
  split
  · cases ρ i <;> rfl
  · rfl

/-- is the writer's field with index `i` on the wire? -/
def onWire (enc : Encoding) (fs : Fields) (vs : List Val) (i : Nat) (nil : Bool) : Bool :=
  match enc with
  | .array => (match maxPresent (specFields fs vs) with
      | none => false
      | some m => decide (i ≤ m))
  | .map => !nil

theorem presentIdx_iff (S : List (Piece Bytes)) (i : Nat) :
    presentIdx S i = true ↔ ∃ p ∈ S, p.nil = false ∧ p.idx = i := by
  simp [presentIdx, List.any_eq_true]

theorem sigmaF_piece (enc : Encoding) (fs : Fields) (vs : List Val) (ρ : Nat → Option Val)
    (hacc : acceptedFields fs = true) (hnd : (liveIdxs fs).Nodup) (hty : hasFields fs vs = true)
    (p : Piece Bytes) (hp : p ∈ encFields fs vs) :
    sigmaF enc fs vs ρ p.idx = if onWire enc fs vs p.idx p.nil then ρ p.idx else none := by
  cases enc with
  | array =>
    cases hm : maxPresent (specFields fs vs) with
    | none => simp [sigmaF, onWire, hm]
    | some m => rw [sigmaF_array fs vs ρ m p.idx hm]; simp [onWire, hm]
  | map =>
    rw [sigmaF_map]
    have hperm := sortP_perm (encFields fs vs)
    have nd' : (idxs (encFields fs vs)).Nodup := by rw [liveIdxs_eq_idxs fs vs hty]; exact hnd
    have : presentIdx (sortP (encFields fs vs)) p.idx = !p.nil := by
      cases hn : p.nil
      · simp only [Bool.not_false]
        exact (presentIdx_iff _ _).2 ⟨p, hperm.mem_iff.2 hp, hn, rfl⟩
      · simp only [Bool.not_true]
        cases hpi : presentIdx (sortP (encFields fs vs)) p.idx
        · rfl
        · obtain ⟨q, hq, hqn, hqi⟩ := (presentIdx_iff _ _).1 hpi
          have hq' := hperm.mem_iff.1 hq
          -- two pieces with the same index are the same piece
          have : q = p := by
            have hinj : ∀ (l : List (Piece Bytes)), (idxs l).Nodup → ∀ x ∈ l, ∀ y ∈ l, x.idx = y.idx → x = y := by
              intro l
              induction l with
              | nil => intro _ x hx; simp at hx
              | cons z zs ih =>
                intro hn x hx y hy hxy
                have hn' : z.idx ∉ idxs zs ∧ (idxs zs).Nodup := List.nodup_cons.1 hn
                rcases List.mem_cons.1 hx with rfl | hx' <;> rcases List.mem_cons.1 hy with rfl | hy'
                · rfl
                · exact absurd (List.mem_map.2 ⟨y, hy', hxy.symm⟩) hn'.1
                · exact absurd (List.mem_map.2 ⟨x, hx', hxy⟩) hn'.1
                · exact ih hn'.2 x hx' y hy' hxy
            exact hinj _ nd' q hq' p hp hqi
          rw [this, hn] at hqn; cases hqn
    rw [this]; simp [onWire]

/-- **adding and dropping fields** (any number, both encodings, any declaration order): a reader
    that declares its shared fields exactly like the writer, whose own extra fields are optional
    (and not hit by K5), reads the writer's body as: shared fields equal, its extra fields nil,
    the writer's extra fields ignored. -/
theorem fieldsDec_same (enc : Encoding) (fs : Fields) (vs : List Val) (gs : Fields) (rest : Bytes)
    (hacc : acceptedFields fs = true) (hnd : (liveIdxs fs).Nodup) (hty : hasFields fs vs = true)
    (hrt : FieldsRT fs vs) (haccR : acceptedFields gs = true) (hndR : (liveIdxs gs).Nodup)
    (H : SameHyp enc fs vs gs) :
    fieldsDec enc (decFields gs) (frame enc (encFields fs vs) ++ rest) = .ok (expectSame fs vs gs) rest := by
  have hmain := fieldsDec_compat enc fs vs gs rest (rhoSame fs vs gs) hacc hnd hty hndR
    (by
      intro he m hm i hi
      subst he
      unfold cellAt
      rw [lookupVal_find fs vs i hty]
      cases hl : lookupVal fs vs i with
      | some x =>
        obtain ⟨a, t, v⟩ := x
        obtain ⟨hc, hv, htag⟩ := lookupVal_typed fs vs i a t v hacc hty hl
        have hmem := (lookupVal_mem fs vs i a t v hl).2.2
        rw [C08.fields_spec fs vs hacc hty] at hmem
        obtain ⟨q, hq, hqe⟩ := List.mem_map.1 hmem
        have hbody : encWith a.codec (encTy t) v = encPref (specWith a.codec (specTy t) v) := by
          -- the body of the writer's piece is the encoding of the spec piece found at the same index
          have hf := lookupVal_find fs vs i hty
          rw [hl] at hf
          simp only [Option.map_some] at hf
          have hq2 := List.mem_of_find?_eq_some hf
          have := mem_encFields_of_spec fs vs hacc hty _ hq2
          obtain ⟨a2, t2, v2, hl2, he2⟩ := lookupVal_of_mem fs vs _ hnd this
          simp only [toBytes_idx] at hl2
          have hai := (lookupVal_mem fs vs i a t v hl).2.1
          rw [hai, hl] at hl2
          cases hl2
          have := congrArg Piece.body he2
          simpa [toBytes] using this.symm
        simp only [Option.map_some, encPref_tagI _ _ htag, ← hbody]
        exact stepH_piece .array fs vs gs i a t v haccR hrt H hl
      | none =>
        simp only [Option.map_none]
        exact stepH_gap .array fs vs gs i haccR hndR H hl)
    (by
      intro _ p hp _
      obtain ⟨a, t, v, hl, he⟩ := lookupVal_of_mem fs vs p hnd hp
      have := stepH_piece enc fs vs gs p.idx a t v haccR hrt H hl
      rw [he]; rw [he] at this; exact this)
    (by
      intro b u hbu hbs hσ hsi
      cases hl : lookupVal fs vs b.idx with
      | none => exact H.ronly b u hbu hbs hl
      | some x =>
        obtain ⟨a, t, v⟩ := x
        obtain ⟨rfl, _, hcod⟩ := H.shared b u hbu hbs a t v hl
        obtain ⟨_, hai, hmem⟩ := lookupVal_mem fs vs b.idx a t v hl
        have hs := sigmaF_piece enc fs vs (rhoSame fs vs gs) hacc hnd hty _ hmem
        simp only [hai] at hs
        rw [hs] at hσ
        -- not on the wire: the writer's value is nil
        have hnil : isNilField a t v = true := by
          cases hw : onWire enc fs vs b.idx (isNilField a t v)
          · cases enc with
            | map => simpa [onWire] using hw
            | array =>
              cases hm : maxPresent (specFields fs vs) with
              | none =>
                have hmem' := hmem
                rw [C08.fields_spec fs vs hacc hty] at hmem'
                obtain ⟨q, hq, hqe⟩ := List.mem_map.1 hmem'
                have := maxPresent_none hm q hq
                have e := congrArg Piece.nil hqe
                simp only [toBytes_nil] at e
                rw [← e]; exact this
              | some m =>
                simp only [onWire, hm, decide_eq_false_iff_not] at hw
                cases hn : isNilField a t v
                · have hmem' := hmem
                  rw [C08.fields_spec fs vs hacc hty] at hmem'
                  obtain ⟨q, hq, hqe⟩ := List.mem_map.1 hmem'
                  have e := congrArg Piece.nil hqe
                  have e2 := congrArg Piece.idx hqe
                  simp only [toBytes_nil, toBytes_idx] at e e2
                  have := maxPresent_ge hm q hq (by rw [e]; exact hn)
                  omega
                · rfl
          · rw [hw] at hσ
            simp [rhoSame, hl] at hσ
        obtain ⟨hc, hv, _⟩ := lookupVal_typed fs vs b.idx a t v hacc hty hl
        have := nil_resolves a t v hc hv hnil
        rw [hsi] at this
        simp only at this
        have hno : nilOf b t = nilOf a t := by simp [nilOf, hcod]
        rw [hno, this]; rfl)
  rw [hmain]
  congr 1
  -- the two value lists agree field by field
  have key : ∀ (gs' : Fields), (∀ g ∈ gs', g ∈ gs) →
      readerVals (sigmaF enc fs vs (rhoSame fs vs gs)) gs' = expectSame fs vs gs' := by
    intro gs'
    induction gs' with
    | nil => intro _; rfl
    | cons g gs' ih =>
      intro hsub
      obtain ⟨b, u⟩ := g
      have hbu : (b, u) ∈ gs := hsub _ (by simp)
      simp only [readerVals, expectSame, ih (fun g hg => hsub g (by simp [hg]))]
      congr 1
      cases hbs : b.skip
      · simp only [Bool.false_eq_true, if_false]
        cases hl : lookupVal fs vs b.idx with
        | some x =>
          obtain ⟨a, t, v⟩ := x
          obtain ⟨rfl, _, hcod⟩ := H.shared b u hbu hbs a t v hl
          obtain ⟨_, hai, hmem⟩ := lookupVal_mem fs vs b.idx a t v hl
          have hs := sigmaF_piece enc fs vs (rhoSame fs vs gs) hacc hnd hty _ hmem
          simp only [hai] at hs
          rw [hs]
          cases hw : onWire enc fs vs b.idx (isNilField a t v)
          · -- not on the wire: nil, and the nil value is the writer's value
            simp only [Bool.false_eq_true, if_false]
            have hnil : isNilField a t v = true := by
              cases enc with
              | map => simpa [onWire] using hw
              | array =>
                cases hm : maxPresent (specFields fs vs) with
                | none =>
                  have hmem' := hmem
                  rw [C08.fields_spec fs vs hacc hty] at hmem'
                  obtain ⟨q, hq, hqe⟩ := List.mem_map.1 hmem'
                  have := maxPresent_none hm q hq
                  have e := congrArg Piece.nil hqe
                  simp only [toBytes_nil] at e
                  rw [← e]; exact this
                | some m =>
                  simp only [onWire, hm, decide_eq_false_iff_not] at hw
                  cases hn : isNilField a t v
                  · have hmem' := hmem
                    rw [C08.fields_spec fs vs hacc hty] at hmem'
                    obtain ⟨q, hq, hqe⟩ := List.mem_map.1 hmem'
                    have e := congrArg Piece.nil hqe
                    have e2 := congrArg Piece.idx hqe
                    simp only [toBytes_nil, toBytes_idx] at e e2
                    have := maxPresent_ge hm q hq (by rw [e]; exact hn)
                    omega
                  · rfl
            obtain ⟨hc, hv, _⟩ := lookupVal_typed fs vs b.idx a t v hacc hty hl
            have hr := nil_resolves a t v hc hv hnil
            have hno : nilOf b t = nilOf a t := by simp [nilOf, hcod]
            cases hsi : slotInit t with
            | some y => rw [hsi] at hr; simp at hr; simp [hr]
            | none =>
              rw [hsi] at hr; simp only at hr
              rw [hno, hr]; rfl
          · simp [rhoSame, hl]
        | none =>
          -- only the reader knows the field: nil either way
          have hf := findField_of_mem gs b u hndR hbu hbs
          cases enc with
          | map =>
            rw [sigmaF_map]
            have : presentIdx (sortP (encFields fs vs)) b.idx = false := by
              cases hpi : presentIdx (sortP (encFields fs vs)) b.idx
              · rfl
              · obtain ⟨q, hq, _, hqi⟩ := (presentIdx_iff _ _).1 hpi
                have hq' := (sortP_perm (encFields fs vs)).mem_iff.1 hq
                obtain ⟨a, t, v, hl', _⟩ := lookupVal_of_mem fs vs q hnd hq'
                rw [hqi, hl] at hl'; cases hl'
            rw [this]; simp [nilVal]
          | array =>
            cases hm : maxPresent (specFields fs vs) with
            | none => simp [sigmaF, hm, nilVal]
            | some m =>
              rw [sigmaF_array fs vs _ m b.idx hm]
              by_cases hle : b.idx ≤ m
              · cases htg : b.tag <;> simp [hle, rhoSame, hl, hf, htg, nilVal]
              · simp [hle, nilVal]
      · simp
  exact key gs (fun g hg => hg)

/-! ### the two documented single edits on a field list: add a field, drop a field -/

theorem encFields_idx_live : ∀ (fs : Fields) (vs : List Val) (q : Piece Bytes), q ∈ encFields fs vs → q.idx ∈ liveIdxs fs
  | [], vs, q, hq => by cases vs <;> simp [encFields] at hq
  | (fa, ft) :: fs, [], q, hq => by simp [encFields] at hq
  | (fa, ft) :: fs, w :: ws, q, hq => by
    cases hfs : fa.skip
    · simp only [encFields, hfs, Bool.false_eq_true, if_false, List.mem_cons] at hq
      rcases hq with rfl | hq
      · simp [liveIdxs, hfs]
      · simp [liveIdxs, hfs, encFields_idx_live fs ws q hq]
    · simp only [encFields, hfs, if_true] at hq
      simp [liveIdxs, hfs, encFields_idx_live fs ws q hq]

theorem lookupVal_fst_mem : ∀ (fs : Fields) (vs : List Val) (i : Nat) (a : FAttr) (t : FTy) (v : Val),
    lookupVal fs vs i = some (a, t, v) → (a, t) ∈ fs
  | [], vs, _, _, _, _, h => by cases vs <;> simp [lookupVal] at h
  | (a', t') :: fs, [], _, _, _, _, h => by simp [lookupVal] at h
  | (a', t') :: fs, v' :: vs, i, a, t, v, h => by
    simp only [lookupVal] at h
    split at h
    · cases h; simp
    · simp [lookupVal_fst_mem fs vs i a t v h]

theorem live_inj : ∀ (fs : Fields), (liveIdxs fs).Nodup → ∀ x ∈ fs, ∀ y ∈ fs, x.1.skip = false → y.1.skip = false →
    x.1.idx = y.1.idx → x = y
  | [], _, x, hx, _, _, _, _, _ => by simp at hx
  | (a, t) :: fs, hnd, x, hx, y, hy, hxs, hys, hxy => by
    have ih := live_inj fs
    cases hs : a.skip
    · have hnd' : a.idx ∉ liveIdxs fs ∧ (liveIdxs fs).Nodup := by simpa [liveIdxs, hs] using hnd
      rcases List.mem_cons.1 hx with rfl | hx' <;> rcases List.mem_cons.1 hy with rfl | hy'
      · rfl
      · exact absurd (by rw [hxy]; exact mem_liveIdxs fs y.1 y.2 hy' hys) hnd'.1
      · exact absurd (by rw [← hxy]; exact mem_liveIdxs fs x.1 x.2 hx' hxs) hnd'.1
      · exact ih hnd'.2 x hx' y hy' hxs hys hxy
    · have hnd' : (liveIdxs fs).Nodup := by simpa [liveIdxs, hs] using hnd
      rcases List.mem_cons.1 hx with rfl | hx' <;> rcases List.mem_cons.1 hy with rfl | hy'
      · rfl
      · rw [hs] at hxs; cases hxs
      · rw [hs] at hys; cases hys
      · exact ih hnd' x hx' y hy' hxs hys hxy

/-- looking a field of the list up by its own index finds that field. -/
theorem lookupVal_unique (fs : Fields) (vs : List Val) (hnd : (liveIdxs fs).Nodup) (b : FAttr) (u : FTy)
    (hbu : (b, u) ∈ fs) (hbs : b.skip = false) (a : FAttr) (t : FTy) (v : Val)
    (hl : lookupVal fs vs b.idx = some (a, t, v)) : a = b ∧ t = u := by
  have hm := lookupVal_fst_mem fs vs b.idx a t v hl
  obtain ⟨has, hai, _⟩ := lookupVal_mem fs vs b.idx a t v hl
  have := live_inj fs hnd (a, t) hm (b, u) hbu has hbs hai
  cases this; exact ⟨rfl, rfl⟩

/-- every field of (a suffix of) the writer, looked up in the writer, yields its own (defaulted) value. -/
theorem expectSame_suffix (fs0 : Fields) (vs0 : List Val) : ∀ (fs : Fields) (vs : List Val),
    hasFields fs vs = true → (liveIdxs fs).Nodup →
    (∀ i a t v, lookupVal fs vs i = some (a, t, v) → lookupVal fs0 vs0 i = some (a, t, v)) →
    expectSame fs0 vs0 fs = defaultsFields fs vs
  | [], [], _, _, _ => rfl
  | (a, t) :: fs, v :: vs, hty, hnd, hsub => by
    simp only [hasFields, Bool.and_eq_true] at hty
    cases hs : a.skip
    · have hnd' : a.idx ∉ liveIdxs fs ∧ (liveIdxs fs).Nodup := by simpa [liveIdxs, hs] using hnd
      have hself : lookupVal fs0 vs0 a.idx = some (a, t, v) := hsub a.idx a t v (by simp [lookupVal, hs])
      have ih := expectSame_suffix fs0 vs0 fs vs hty.2 hnd'.2 (by
        intro i a' t' v' hl
        apply hsub
        have hi : a.idx ≠ i := by
          intro e
          have := (lookupVal_none fs vs i hty.2).2 (by rw [← e]; exact hnd'.1)
          rw [this] at hl; cases hl
        have hb : (a.idx == i) = false := by simpa using hi
        simp [lookupVal, hs, hb, hl])
      simp [expectSame, defaultsFields, hs, hself, ih]
    · have hnd' : (liveIdxs fs).Nodup := by simpa [liveIdxs, hs] using hnd
      have ih := expectSame_suffix fs0 vs0 fs vs hty.2 hnd' (by
        intro i a' t' v' hl
        apply hsub
        simp [lookupVal, hs, hl])
      simp [expectSame, defaultsFields, hs, ih]
  | [], _ :: _, h, _, _ => by simp [hasFields] at h
  | _ :: _, [], h, _, _ => by simp [hasFields] at h

theorem lookupVal_none_of_not_mem : ∀ (fs : Fields) (vs : List Val) (i : Nat), i ∉ liveIdxs fs → lookupVal fs vs i = none
  | [], vs, _, _ => by cases vs <;> rfl
  | (a, t) :: fs, [], _, _ => rfl
  | (a, t) :: fs, v :: vs, i, h => by
    cases hs : a.skip
    · have h' : i ≠ a.idx ∧ i ∉ liveIdxs fs := by simpa [liveIdxs, hs] using h
      have hb : (a.idx == i) = false := by simpa using (fun e => h'.1 e.symm)
      simp [lookupVal, hs, hb, lookupVal_none_of_not_mem fs vs i h'.2]
    · have h' : i ∉ liveIdxs fs := by simpa [liveIdxs, hs] using h
      simp [lookupVal, hs, lookupVal_none_of_not_mem fs vs i h']

/-- the row of a variant after its index has been matched (the `body` of `decVars`). -/
def varBody (e : EAttr) (va : VAttr) (fs : Fields) : Dec (List Val) :=
  match va.shape with
  | .unit =>
      if e.indexOnly then pure []
      else do tagCheck va.tag; Dec.skip; pure []
  | _ => do tagCheck va.tag; fieldsDec (va.enc.getD (e.enc.getD .array)) (decFields fs)

theorem decVars_cons (e : EAttr) (va : VAttr) (fs : Fields) (rest : Variants) :
    decVars e ((va, fs) :: rest) = ⟨va, varBody e va fs⟩ :: decVars e rest := by
  simp only [decVars, varBody]
  rfl

theorem acceptedVars_mem (e : EAttr) : ∀ (us : Variants) (vb : VAttr) (gs : Fields), acceptedVars e us = true → (vb, gs) ∈ us →
    vb.idx < U32 ∧ tagOk vb.tag = true ∧ acceptedFields gs = true ∧ (liveIdxs gs).Nodup ∧
    (vb.shape = .unit → gs = []) ∧ (e.indexOnly = true → vb.shape = .unit)
  | [], _, _, _, h => by simp at h
  | (va, fs) :: rest, vb, gs, ha, h => by
    simp only [acceptedVars, Bool.and_eq_true, decide_eq_true_eq] at ha
    obtain ⟨⟨⟨⟨⟨⟨hidx, htag⟩, hacc⟩, hnd⟩, hunit⟩, hio⟩, hrest⟩ := ha
    rcases List.mem_cons.1 h with e1 | h
    · cases e1
      refine ⟨hidx, htag, hacc, C08.nodupNat_nodup _ hnd, ?_, ?_⟩
      · intro hs; simpa [hs] using hunit
      · intro hi; simpa [hi] using hio
    · exact acceptedVars_mem e rest vb gs hrest h

end Minicbor.Derive
