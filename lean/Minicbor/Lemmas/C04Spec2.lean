/-
  C04 infrastructure for `typed_sound`, part 2: maps, fixed-size arrays, tuples, `decode_fields!`,
  enums, `Option`, `Duration` against the specification-side loops of Lemmas/C04Interp.lean.
-/
import Minicbor.Lemmas.C04Spec

namespace Minicbor.C04
open Dec

theorem bind_assoc' {m : Dec α} {f : α → Dec β} {g : β → Dec γ} (bs : Bytes) :
    ((m >>= f) >>= g) bs = (m >>= fun a => f a >>= g) bs := by
  simp only [Dec.bind_run]
  cases m bs <;> rfl

theorem Is.of_eq {x y : Res α} {o : Option α} {rest : Bytes} (e : x = y) (h : Is y o rest) : Is x o rest := e ▸ h

theorem Is.ite_none {x : Res α} {c : Prop} [Decidable c] {o : Option α} {rest : Bytes}
    (h1 : c → Is x o rest) (h2 : ¬ c → NotOk x) : Is x (if c then o else none) rest := by
  split
  · exact h1 ‹_›
  · exact h2 ‹_›

/-! ### maps -/

/-- one map entry (the local `pair` of `mapIter`). -/
def pairD (mk mv : Dec α) : Dec (List α) := do let k ← mk; let v ← mv; pure [k, v]

theorem mapIter_eq' (mk mv : Dec α) : Dec.mapIter mk mv = (do
    match (← Dec.map) with
    | some n => do let xs ← Dec.repeatN (pairD mk mv) n; pure xs.flatten
    | none => do let r ← Dec.remaining; let xs ← Dec.untilBreak (pairD mk mv) (r.length + 1); pure xs.flatten) := rfl

/-- entries as a list of `[key, value]` pairs. -/
def interpPairs2 (fk fv : WItem → Option α) : List WItem → Option (List (List α))
  | [] => some []
  | k :: v :: rest =>
      (fk k).bind fun a => (fv v).bind fun b => (interpPairs2 fk fv rest).bind fun c => some ([a, b] :: c)
  | [_] => none

theorem interpPairs_eq (fk fv : WItem → Option α) :
    ∀ xs, interpPairs fk fv xs = (interpPairs2 fk fv xs).map List.flatten
  | [] => rfl
  | [_] => rfl
  | k :: v :: rest => by
    simp only [interpPairs, interpPairs2, interpPairs_eq fk fv rest]
    cases fk k <;> cases fv v <;> cases interpPairs2 fk fv rest <;> simp

/-- one loop iteration over an entry. -/
theorem pair_step {mk mv : Dec α} {fk fv : WItem → Option α} (hk : Spec mk fk) (hv : Spec mv fv)
    (k v : WItem) (hvk : k.Valid) (hvv : v.Valid) (hfk : Fits k) (hfv : Fits v) (tail rest : Bytes)
    (cont : List α → Dec (List (List α))) (o : Option (List (List α)))
    (hc : ∀ p, Is (cont p tail) (o.bind fun c => some (p :: c)) rest) :
    Is ((pairD mk mv >>= cont) (encW k ++ (encW v ++ tail)))
      ((fk k).bind fun a => (fv v).bind fun b => o.bind fun c => some ([a, b] :: c)) rest := by
  unfold pairD
  rw [bind_assoc']
  refine Is.bind (hk k _ hvk hfk) (fun a _ => ?_)
  rw [bind_assoc']
  refine Is.bind (hv v _ hvv hfv) (fun b _ => ?_)
  rw [Dec.bind_run]
  exact hc [a, b]

theorem repeatN_pairs_spec {mk mv : Dec α} {fk fv : WItem → Option α} (hk : Spec mk fk) (hv : Spec mv fv) :
    ∀ (kvs : List WItem) (rest : Bytes), validAll kvs = true → kvs.length % 2 = 0 → FitsL kvs →
      Is (repeatN (pairD mk mv) (kvs.length / 2) (encWs kvs ++ rest)) (interpPairs2 fk fv kvs) rest
  | [], rest, _, _, _ => by simp [repeatN, interpPairs2, encWs, Is]
  | [_], _, _, he, _ => by simp at he
  | k :: v :: kvs, rest, hval, he, hf => by
    simp only [validAll, Bool.and_eq_true] at hval
    simp only [FitsL, encWs, List.length_append] at hf
    have e : (k :: v :: kvs).length / 2 = kvs.length / 2 + 1 := by simp; omega
    simp only [e, repeatN, encWs, List.append_assoc, interpPairs2]
    refine pair_step hk hv k v hval.1 hval.2.1 (by unfold Fits; omega) (by unfold Fits; omega) _ rest _ _ (fun p => ?_)
    refine Is.bind (repeatN_pairs_spec hk hv kvs rest hval.2.2 (by simp at he; omega) (by unfold FitsL; omega))
      (fun c _ => ?_)
    simp [Is]

theorem untilBreak_pairs_spec {mk mv : Dec α} {fk fv : WItem → Option α} (hk : Spec mk fk) (hv : Spec mv fv) :
    ∀ (kvs : List WItem) (rest : Bytes) (fuel : Nat), validAll kvs = true → kvs.length % 2 = 0 → FitsL kvs →
      kvs.length < fuel →
      Is (untilBreak (pairD mk mv) fuel (encWs kvs ++ 0xff :: rest)) (interpPairs2 fk fv kvs) rest
  | [], rest, fuel, _, _, _, hfu => by
    cases fuel with
    | zero => omega
    | succ n => simp [untilBreak_break, interpPairs2, encWs, Is]
  | [_], _, _, _, he, _, _ => by simp at he
  | k :: v :: kvs, rest, fuel, hval, he, hf, hfu => by
    cases fuel with
    | zero => omega
    | succ n =>
      simp only [validAll, Bool.and_eq_true] at hval
      simp only [FitsL, encWs, List.length_append] at hf
      simp only [encWs, List.append_assoc, interpPairs2]
      obtain ⟨b, tl, hb, hne⟩ := first_ne_break k hval.1 (encW v ++ (encWs kvs ++ 0xff :: rest))
      rw [hb, untilBreak_cons n b tl hne, ← hb]
      refine pair_step hk hv k v hval.1 hval.2.1 (by unfold Fits; omega) (by unfold Fits; omega) _ rest _ _ (fun p => ?_)
      refine Is.bind (untilBreak_pairs_spec hk hv kvs rest n hval.2.2 (by simp at he; omega) (by unfold FitsL; omega)
        (by simp at hfu; omega)) (fun c _ => ?_)
      simp [Is]

/-- `map_iter_with`, drained. -/
theorem Spec.mapIter {mk mv : Dec α} {fk fv : WItem → Option α} (hk : Spec mk fk) (hv : Spec mv fv) :
    Spec (Dec.mapIter mk mv) (fun w => (entries w).bind (interpPairs fk fv)) := by
  intro w rest hval hf
  have ha := map_is w hval rest
  rw [mapIter_eq']
  cases w
  case map wd kvs =>
    have hvl := valid_entries (w := .map wd kvs) rfl hval
    simp only [view, after, Is] at ha
    simp only [entries, Option.bind_some, interpPairs_eq]
    rw [Dec.bind_run, ha]
    exact Is.map List.flatten (repeatN_pairs_spec hk hv kvs rest hvl.1 hvl.2 (fits_entries (w := .map wd kvs) rfl hf))
  case mapI kvs =>
    have hvl := valid_entries (w := .mapI kvs) rfl hval
    simp only [view, after, Is, List.append_assoc, List.singleton_append] at ha
    simp only [entries, Option.bind_some, interpPairs_eq]
    rw [Dec.bind_run, ha]
    simp only [Dec.bind_run, Dec.remaining]
    refine Is.map List.flatten (untilBreak_pairs_spec hk hv kvs rest _ hvl.1 hvl.2
      (fits_entries (w := .mapI kvs) rfl hf) ?_)
    have := encWs_length_ge kvs
    simp; omega
  all_goals exact NotOk.bind_left ha

/-! ### `[T; N]` -/

theorem Is.bind_notOk {m : Dec α} {k : α → Dec β} {bs mid : Bytes} {o : Option α}
    (hm : Is (m bs) o mid) (hk : ∀ a, o = some a → NotOk (k a mid)) : NotOk ((m >>= k) bs) := by
  cases o with
  | none => exact NotOk.bind_left hm
  | some a =>
    simp only [Is] at hm
    intro v r hc
    rw [Dec.bind_run, hm] at hc
    exact hk a rfl v r hc

theorem arrayNIndef_cons {m : Dec α} (n fuel k : Nat) (b : UInt8) (tl : Bytes) (hb : b ≠ 0xff) :
    arrayNIndef m n (fuel + 1) k (b :: tl) =
      (m >>= fun x => if k ≥ n then Dec.fail .message
        else arrayNIndef m n fuel (k + 1) >>= fun xs => Pure.pure (x :: xs)) (b :: tl) := by
  simp [arrayNIndef, Dec.bind_run, hb]

theorem arrayNIndef_spec {m : Dec α} {f : WItem → Option α} (hs : Spec m f) (n : Nat) :
    ∀ (xs : List WItem) (rest : Bytes) (fuel k : Nat), validAll xs = true → FitsL xs → xs.length < fuel → k ≤ n →
      Is (arrayNIndef m n fuel k (encWs xs ++ 0xff :: rest)) (if k + xs.length = n then interpAll f xs else none) rest
  | [], rest, fuel, k, _, _, hfu, hk => by
    cases fuel with
    | zero => omega
    | succ fu =>
      simp only [encWs, List.nil_append, List.length_nil, Nat.add_zero, interpAll]
      by_cases hkn : k = n
      · subst hkn; simp [arrayNIndef, Dec.bind_run, Is]
      · have : k < n := by omega
        rw [if_neg hkn]
        simp [arrayNIndef, Dec.bind_run, this]
        exact NotOk.err
  | x :: xs, rest, fuel, k, hv, hf, hfu, hk => by
    cases fuel with
    | zero => omega
    | succ fu =>
      simp only [validAll, Bool.and_eq_true] at hv
      simp only [FitsL, encWs, List.length_append] at hf
      simp only [encWs, List.append_assoc, interpAll, List.length_cons]
      obtain ⟨b, tl, he, hb⟩ := first_ne_break x hv.1 (encWs xs ++ 0xff :: rest)
      rw [he, arrayNIndef_cons n fu k b tl hb, ← he]
      have hx := hs x (encWs xs ++ 0xff :: rest) hv.1 (by unfold Fits; omega)
      by_cases hkn : k + (xs.length + 1) = n
      · rw [if_pos hkn]
        refine Is.bind hx (fun v _ => ?_)
        have hlt : ¬ k ≥ n := by omega
        rw [ite_run, if_neg hlt]
        have ih := arrayNIndef_spec hs n xs rest fu (k + 1) hv.2 (by unfold FitsL; omega) (by simpa using hfu) (by omega)
        rw [if_pos (by omega)] at ih
        refine Is.bind ih (fun vs _ => ?_)
        simp [Is]
      · rw [if_neg hkn]
        refine Is.bind_notOk hx (fun v _ => ?_)
        by_cases hge : k ≥ n
        · rw [ite_run, if_pos hge]; exact NotOk.err
        · rw [ite_run, if_neg hge]
          have ih := arrayNIndef_spec hs n xs rest fu (k + 1) hv.2 (by unfold FitsL; omega) (by simpa using hfu) (by omega)
          rw [if_neg (by omega)] at ih
          exact NotOk.bind_left ih

theorem option_bind_some' (o : Option α) : (o.bind fun a => some a) = o := by cases o <;> rfl

/-- `[T; N]::decode`. -/
theorem Spec.arrayN {m : Dec α} {f : WItem → Option α} (hs : Spec m f) (n : Nat) :
    Spec (Dec.arrayN m n) (fun w => (elems w).bind fun xs => if xs.length = n then interpAll f xs else none) := by
  intro w rest hv hf
  have ha := array_is w hv rest
  unfold Dec.arrayN
  cases w
  case array wd xs =>
    simp only [WItem.Valid, WItem.valid, Bool.and_eq_true] at hv
    simp only [view, after, Is] at ha
    simp only [elems, Option.bind_some]
    rw [Dec.bind_run, ha]
    have hr := repeatN_spec hs xs rest hv.2 (fits_elems (w := .array wd xs) rfl hf)
    by_cases hn : xs.length = n
    · rw [if_pos hn]
      have h1 : xs.length ≤ n := by omega
      have h2 : ¬ xs.length < n := by omega
      simp only [h1, if_true]
      refine (Is.bind hr (g := fun vs => some vs) (fun vs _ => ?_)).congr (option_bind_some' _)
      rw [ite_run, if_neg h2]; simp [Is]
    · rw [if_neg hn]
      by_cases hle : xs.length ≤ n
      · have hlt : xs.length < n := by omega
        simp only [hle, if_true, hlt]
        exact NotOk.bind_fail
      · simp only [hle, if_false]
        exact NotOk.bind_fail
  case arrayI xs =>
    simp only [WItem.Valid, WItem.valid] at hv
    simp only [view, after, Is, List.append_assoc, List.singleton_append] at ha
    simp only [elems, Option.bind_some]
    rw [Dec.bind_run, ha]
    simp only [Dec.bind_run, Dec.remaining]
    have := arrayNIndef_spec hs n xs rest ((encWs xs ++ 0xff :: rest).length + 1) 0 hv
      (fits_elems (w := .arrayI xs) rfl hf) (by have := encWs_length_ge xs; simp; omega) (by omega)
    simpa using this
  all_goals exact NotOk.bind_left ha

/-! ### tuples -/

theorem interpZip_length_ne : ∀ (fs : List (WItem → Option α)) (xs : List WItem), fs.length ≠ xs.length →
    interpZip fs xs = none
  | [], [], h => by simp at h
  | [], _ :: _, _ => rfl
  | _ :: _, [], _ => rfl
  | f :: fs, x :: xs, h => by
    simp only [interpZip, interpZip_length_ne fs xs (by simpa using h)]
    cases f x <;> rfl

/-- pointwise `Spec` of a list of actions against a list of specifications (tuple components). -/
inductive SpecL : List (Dec α) → List (WItem → Option α) → Prop where
  | nil : SpecL [] []
  | cons {m : Dec α} {f : WItem → Option α} {ms : List (Dec α)} {fs : List (WItem → Option α)} :
      Spec m f → SpecL ms fs → SpecL (m :: ms) (f :: fs)

theorem seqAll_spec {ms : List (Dec α)} {fs : List (WItem → Option α)} (h : SpecL ms fs) :
    ∀ (xs : List WItem) (rest : Bytes), validAll xs = true → FitsL xs → xs.length = ms.length →
      Is (seqAll ms (encWs xs ++ rest)) (interpZip fs xs) rest := by
  induction h with
  | nil =>
    intro xs rest _ _ hl
    have : xs = [] := List.eq_nil_of_length_eq_zero (by simpa using hl)
    subst this
    simp [seqAll, interpZip, encWs, Is]
  | cons hmf _ ih =>
    intro xs rest hv hf hl
    cases xs with
    | nil => simp at hl
    | cons x xs =>
      simp only [validAll, Bool.and_eq_true] at hv
      simp only [FitsL, encWs, List.length_append] at hf
      simp only [seqAll, interpZip, encWs, List.append_assoc]
      refine Is.bind (hmf x _ hv.1 (by unfold Fits; omega)) (fun v _ => ?_)
      refine Is.bind (ih xs rest hv.2 (by unfold FitsL; omega) (by simpa using hl)) (fun vs _ => ?_)
      simp [Is]

theorem SpecL.length {ms : List (Dec α)} {fs : List (WItem → Option α)} (h : SpecL ms fs) :
    ms.length = fs.length := by
  induction h with
  | nil => rfl
  | cons _ _ ih => simp [ih]

/-- the tuple impls: a definite array of exactly `L` elements. -/
theorem Spec.tup {ms : List (Dec α)} {fs : List (WItem → Option α)} (h : SpecL ms fs) (g : List α → β)
    (L : Nat) (hL : L = ms.length) :
    Spec (do let n ← Dec.array
             if n != some L then Dec.fail .message
             else do let vs ← seqAll ms; pure (g vs))
      (fun w => (elemsDef w).bind fun xs => (interpZip fs xs).map g) := by
  intro w rest hv hf
  have ha := array_is w hv rest
  cases w
  case array wd xs =>
    simp only [WItem.Valid, WItem.valid, Bool.and_eq_true] at hv
    simp only [view, after, Is] at ha
    simp only [elemsDef, Option.bind_some]
    rw [Dec.bind_run, ha]
    by_cases hn : xs.length = L
    · have : (some xs.length != some L) = false := by simp [hn]
      simp only [this, Bool.false_eq_true, if_false]
      exact Is.map g (seqAll_spec h xs rest hv.2 (fits_elems (w := .array wd xs) rfl hf) (by omega))
    · have : (some xs.length != some L) = true := by simp [hn]
      simp only [this, if_true]
      have hlen := h.length
      rw [interpZip_length_ne fs xs (by omega)]
      exact NotOk.err
  case arrayI xs =>
    simp only [view, after, Is, List.append_assoc, List.singleton_append] at ha
    simp only [elemsDef, Option.bind_none]
    rw [Dec.bind_run, ha]
    simp [Is]; exact NotOk.err
  all_goals exact NotOk.bind_left ha

end Minicbor.C04
