/-
  Helper lemmas for C09 (re-framed input): the *indefinite-length* loops of the generated
  decoder (`while Type::Break != d.datatype()? { … } d.skip()?`) on a struct / variant body
  whose container was written in indefinite form.
-/
import Minicbor.Lemmas.DeriveDec

namespace Minicbor.Derive
open Minicbor.Dec

/-- `datatype()` succeeds without moving and does not answer `Break`. -/
def OkNotBreak (r : Res CType) (xs : Bytes) : Prop := ∃ ty, r = .ok ty xs ∧ ty ≠ .break

theorem typeOf_nopeek_nb (b : UInt8) (xs : Bytes) (h1 : b.toNat ≠ 0xff)
    (h2 : ¬ (0x38 ≤ b.toNat ∧ b.toNat ≤ 0x3b)) : OkNotBreak (typeOf b xs) xs := by
  unfold typeOf
  simp only [beq_iff_eq, Bool.and_eq_true, decide_eq_true_eq, Bool.or_eq_true]
  repeat rw [Dec.ite_run]
  simp only [Dec.pure_run]
  have hlt := b.toNat_lt
  generalize b.toNat = n at *
  have hp : n ≤ 24 ∨ n = 25 ∨ n = 26 ∨ n = 27 ∨ (28 ≤ n ∧ n ≤ 31) ∨ (32 ≤ n ∧ n ≤ 55) ∨ (60 ≤ n ∧ n ≤ 63) ∨
      (64 ≤ n ∧ n ≤ 91) ∨ (92 ≤ n ∧ n ≤ 94) ∨ n = 95 ∨ (96 ≤ n ∧ n ≤ 123) ∨ (124 ≤ n ∧ n ≤ 126) ∨ n = 127 ∨
      (128 ≤ n ∧ n ≤ 155) ∨ (156 ≤ n ∧ n ≤ 158) ∨ n = 159 ∨ (160 ≤ n ∧ n ≤ 187) ∨ (188 ≤ n ∧ n ≤ 190) ∨ n = 191 ∨
      (192 ≤ n ∧ n ≤ 219) ∨ (220 ≤ n ∧ n ≤ 223) ∨ (224 ≤ n ∧ n ≤ 243) ∨ (244 ≤ n ∧ n ≤ 245) ∨ n = 246 ∨ n = 247 ∨ n = 248 ∨
      n = 249 ∨ n = 250 ∨ n = 251 ∨ (252 ≤ n ∧ n ≤ 254) := by omega
  rcases hp with h|h|h|h|h|h|h|h|h|h|h|h|h|h|h|h|h|h|h|h|h|h|h|h|h|h|h|h|h|h
  all_goals
    repeat (first | rw [if_pos (by omega)] | rw [if_neg (by omega)])
    exact ⟨_, rfl, by simp⟩

theorem typeOf_peek_nb (b c : UInt8) (xs : Bytes) (h2 : 0x38 ≤ b.toNat ∧ b.toNat ≤ 0x3b) :
    OkNotBreak (typeOf b (b :: c :: xs)) (b :: c :: xs) := by
  unfold typeOf
  simp only [beq_iff_eq, Bool.and_eq_true, decide_eq_true_eq, Bool.or_eq_true]
  repeat rw [Dec.ite_run]
  simp only [Dec.pure_run, Dec.bind_run, Dec.peek]
  generalize b.toNat = n at *
  have hp : n = 56 ∨ n = 57 ∨ n = 58 ∨ n = 59 := by omega
  rcases hp with h|h|h|h
  all_goals
    repeat (first | rw [if_pos (by omega)] | rw [if_neg (by omega)])
    refine ⟨_, rfl, ?_⟩
    split <;> simp

/-- the first byte is not the break byte, and a negative head whose argument is carried in
    following bytes has at least one of them. -/
def startNB : Bytes → Bool
  | [] => false
  | b :: tl => b.toNat != 0xff && (!(0x38 ≤ b.toNat && b.toNat ≤ 0x3b) || !tl.isEmpty)

theorem datatype_startNB (bs rest : Bytes) (h : startNB bs = true) :
    OkNotBreak (datatype (bs ++ rest)) (bs ++ rest) := by
  cases bs with
  | nil => simp [startNB] at h
  | cons b tl =>
    simp only [startNB, Bool.and_eq_true, bne_iff_ne, ne_eq, Bool.or_eq_true, Bool.not_eq_true',
      Bool.and_eq_false_iff, decide_eq_false_iff_not, decide_eq_true_eq] at h
    simp only [datatype, List.cons_append, Dec.bind_run, Dec.current_cons]
    by_cases hp : 0x38 ≤ b.toNat ∧ b.toNat ≤ 0x3b
    · cases tl with
      | nil => simp at h; omega
      | cons c tl' => exact typeOf_peek_nb b c (tl' ++ rest) hp
    · exact typeOf_nopeek_nb b _ h.1 hp

theorem datatype_break (rest : Bytes) : Dec.datatype (0xff :: rest) = .ok .break (0xff :: rest) := rfl

theorem skip_break (rest : Bytes) : Dec.skip true (0xff :: rest) = .ok () rest := by
  apply skip_leaf
  simp [skipArm, Dec.bind_run, SkipSt.init, SkipSt.counting]

/-! ### array encoding, indefinite container -/

theorem arrLoopI_cells (rest : Bytes) (fs : Fields) (vs : List Val)
    (hacc : acceptedFields fs = true) (hnd : (liveIdxs fs).Nodup) (hty : hasFields fs vs = true)
    (hrt : FieldsRT fs vs) : ∀ (n c : Nat) (ss : Slots) (P : Nat → Bool) (fuel : Nat), n < fuel → Inv P fs vs ss →
    (∀ i, c ≤ i → i < c + n → startNB (encPref (cellAt (specFields fs vs) i)) = true) →
    ∃ ss', arrLoopI (decFields fs) fuel c ss
        (encPrefs ((List.range' c n).map (cellAt (specFields fs vs))) ++ 0xff :: rest) = .ok ss' rest
      ∧ Inv (fun i => P i || (decide (c ≤ i) && decide (i < c + n))) fs vs ss'
  | 0, c, ss, P, fuel + 1, _, hinv, _ => by
    refine ⟨ss, ?_, inv_congr (fun i => ?_) fs vs ss hinv⟩
    · simp only [List.range'_zero, List.map_nil, encPrefs_nil, List.nil_append, arrLoopI]
      rw [Dec.bind_run, datatype_break]
      simp only [beq_self_eq_true, if_true]
      rw [Dec.bind_run, skip_break]
      rfl
    · have : ¬ (c ≤ i ∧ i < c + 0) := by omega
      simp; omega
  | n + 1, c, ss, P, fuel + 1, hf, hinv, hst => by
    obtain ⟨ty, hdt, hnb⟩ := datatype_startNB (encPref (cellAt (specFields fs vs) c))
      (encPrefs ((List.range' (c + 1) n).map (cellAt (specFields fs vs))) ++ 0xff :: rest) (hst c (Nat.le_refl _) (by omega))
    obtain ⟨ss1, h1, hi1⟩ := runAt_cell P c
      (encPrefs ((List.range' (c + 1) n).map (cellAt (specFields fs vs))) ++ 0xff :: rest) fs vs ss hacc hnd hty hrt hinv
    obtain ⟨ss2, h2, hi2⟩ := arrLoopI_cells rest fs vs hacc hnd hty hrt n (c + 1) ss1 _ fuel (by omega) hi1
      (fun i h1 h2 => hst i (by omega) (by omega))
    refine ⟨ss2, ?_, inv_congr (fun i => ?_) fs vs ss2 hi2⟩
    · rw [List.range'_succ, List.map_cons, encPrefs_cons, List.append_assoc]
      simp only [arrLoopI]
      rw [Dec.bind_run, hdt]
      have : (ty == CType.break) = false := by simpa using hnb
      simp only [this, Bool.false_eq_true, if_false]
      rw [Dec.bind_run, h1]
      exact h2
    · by_cases h : i = c
      · subst h; simp
      · have : (i == c) = false := by simpa using h
        simp only [this, Bool.or_false]
        congr 1
        by_cases h1 : c + 1 ≤ i <;> by_cases h2 : i < c + 1 + n <;> simp [h1, h2] <;> omega
  | _, _, _, _, 0, hf, _, _ => by omega

/-! ### map encoding, indefinite container -/

theorem startNB_u32 (n : Nat) : startNB (Enc.u32 n) = true := by
  unfold Enc.u32
  split
  · have : (Minicbor.u8 n).toNat = n := u8_toNat (by omega)
    simp [startNB, this]; omega
  · split
    · simp [startNB]
    · split <;> simp [startNB]

theorem startNB_append (a b : Bytes) (h : startNB a = true) : startNB (a ++ b) = true := by
  cases a with
  | nil => simp [startNB] at h
  | cons x xs =>
    simp only [startNB, Bool.and_eq_true, Bool.or_eq_true] at h ⊢
    simp only [List.cons_append, startNB, Bool.and_eq_true, Bool.or_eq_true]
    refine ⟨h.1, ?_⟩
    rcases h.2 with h2 | h2
    · exact Or.inl h2
    · right
      cases xs <;> simp at h2 ⊢

theorem mapLoopI_stmts (rest : Bytes) (fs : Fields) (vs : List Val)
    (hacc : acceptedFields fs = true) (hnd : (liveIdxs fs).Nodup) (hrt : FieldsRT fs vs) :
    ∀ (S : List (Piece Bytes)) (ss : Slots) (P : Nat → Bool) (fuel : Nat), countPresent S < fuel →
    (∀ p ∈ S, p ∈ encFields fs vs ∧ p.idx < U32) → Inv P fs vs ss →
    ∃ ss', mapLoopI (decFields fs) fuel ss (mapStmts S ++ 0xff :: rest) = .ok ss' rest
      ∧ Inv (fun i => P i || presentIdx S i) fs vs ss'
  | [], ss, P, fuel + 1, _, _, hinv => by
    refine ⟨ss, ?_, inv_congr (fun i => by simp [presentIdx]) fs vs ss hinv⟩
    simp only [mapStmts, List.nil_append, mapLoopI]
    rw [Dec.bind_run, datatype_break]
    simp only [beq_self_eq_true, if_true]
    rw [Dec.bind_run, skip_break]
    rfl
  | p :: S, ss, P, fuel + 1, hf, hS, hinv => by
    have hp := hS p (by simp)
    cases hn : p.nil
    · obtain ⟨ss1, h1, hi1⟩ := runAt_hit P (mapStmts S ++ 0xff :: rest) fs vs ss hacc hnd hrt hinv p hp.1
      have hf' : countPresent S < fuel := by simp [countPresent, hn] at hf; omega
      obtain ⟨ss2, h2, hi2⟩ := mapLoopI_stmts rest fs vs hacc hnd hrt S ss1 _ fuel hf' (fun q hq => hS q (by simp [hq])) hi1
      refine ⟨ss2, ?_, inv_congr (fun i => ?_) fs vs ss2 hi2⟩
      · have hk := intAcc_u32 p.idx (tagBytes p.tag ++ (p.body ++ (mapStmts S ++ 0xff :: rest))) (by simpa [U32] using hp.2)
        obtain ⟨ty, hdt, hnb⟩ := datatype_startNB (Enc.u32 p.idx) (tagBytes p.tag ++ (p.body ++ (mapStmts S ++ 0xff :: rest)))
          (startNB_u32 p.idx)
        simp only [mapStmts, hn, Bool.not_false, if_true, List.append_assoc, mapLoopI]
        rw [Dec.bind_run, hdt]
        have : (ty == CType.break) = false := by simpa using hnb
        simp only [this, Bool.false_eq_true, if_false]
        rw [Dec.bind_run, hk]
        simp only [Int.toNat_natCast]
        rw [Dec.bind_run, h1]
        exact h2
      · simp only [presentIdx, List.any_cons, hn, Bool.not_false, Bool.true_and]
        have e : (i == p.idx) = (p.idx == i) := by
          by_cases h : i = p.idx
          · subst h; rfl
          · have h1 : (i == p.idx) = false := beq_false_of_ne h
            have h2 : (p.idx == i) = false := beq_false_of_ne (fun e => h e.symm)
            rw [h1, h2]
        rw [e, Bool.or_assoc]
    · have hf' : countPresent S < fuel + 1 := by simp [countPresent, hn] at hf; omega
      obtain ⟨ss2, h2, hi2⟩ := mapLoopI_stmts rest fs vs hacc hnd hrt S ss P (fuel + 1) hf' (fun q hq => hS q (by simp [hq])) hinv
      refine ⟨ss2, ?_, inv_congr (fun i => ?_) fs vs ss2 hi2⟩
      · simpa [mapStmts, hn] using h2
      · simp [presentIdx, hn]
  | _, _, _, 0, hf, _, _ => by omega

end Minicbor.Derive
