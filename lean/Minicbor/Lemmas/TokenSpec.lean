/-
  The specification side of C11: the token list of a wire tree (`toks`), the canonical
  (preferred-head) tree (`canon`), value equality of tokens.  Definitions only — they are part
  of the statements in `Thm/C11.lean`.
-/
import Minicbor.Token
import Minicbor.Wire
import Minicbor.Lemmas.TokenHalf

namespace Minicbor.C11

/-- the token of an unsigned-integer head: the kind is what `Decoder::type_of` derives from the
    initial byte (`0x00..=0x18` → `U8`, `0x19` → `U16`, `0x1a` → `U32`, `0x1b` → `U64`). -/
def uintTok : Width → Nat → Token
  | .w0, n | .w1, n => .u8 n
  | .w2, n => .u16 n
  | .w4, n => .u32 n
  | .w8, n => .u64 n

/-- the token of a negative-integer head with argument `n` (value `-1 - n`): the kind is chosen
    from the width and the top bit of the argument (`type_of` peeks at the next byte). -/
def nintTok : Width → Nat → Token
  | .w0, n => .i8 (-1 - (n : Int))
  | .w1, n => if n < 128 then .i8 (-1 - (n : Int)) else .i16 (-1 - (n : Int))
  | .w2, n => if n < 32768 then .i16 (-1 - (n : Int)) else .i32 (-1 - (n : Int))
  | .w4, n => if n < 2147483648 then .i32 (-1 - (n : Int)) else .i64 (-1 - (n : Int))
  | .w8, n => if n < 9223372036854775808 then .i64 (-1 - (n : Int)) else .int (-1 - (n : Int))

/-- the token of a simple value: 20..23 have dedicated tokens. -/
def simpleTok (n : Nat) : Token :=
  if n = 20 then .bool false else if n = 21 then .bool true
  else if n = 22 then .null else if n = 23 then .undefined else .simple n

def chunkToks (text : Bool) : List (Width × Bytes) → List Token
  | [] => []
  | (_, b) :: cs => (if text then Token.string b else Token.bytes b) :: chunkToks text cs

mutual
/-- **the tokens of a wire tree**: one token per head, in encoding order, carrying the
    data-model value of that head (the argument, the payload, the float bits); indefinite
    containers and chunked strings open with a `begin…` token and close with `break`. -/
def toks : WItem → List Token
  | .uint w n    => [uintTok w n]
  | .nint w n    => [nintTok w n]
  | .bytes _ b   => [.bytes b]
  | .bytesI cs   => .beginBytes :: (chunkToks false cs ++ [.brk])
  | .text _ b    => [.string b]
  | .textI cs    => .beginString :: (chunkToks true cs ++ [.brk])
  | .array _ xs  => .array xs.length :: toksL xs
  | .arrayI xs   => .beginArray :: (toksL xs ++ [.brk])
  | .map _ kvs   => .map (kvs.length / 2) :: toksL kvs
  | .mapI kvs    => .beginMap :: (toksL kvs ++ [.brk])
  | .tag _ n x   => .tag n :: toks x
  | .simple n    => [simpleTok n]
  | .f16 b       => [.f16 (f16ToF32 b)]
  | .f32 b       => [.f32 b]
  | .f64 b       => [.f64 b]
def toksL : List WItem → List Token
  | []      => []
  | x :: xs => toks x ++ toksL xs
end

theorem toksL_eq_flatMap (xs : List WItem) : toksL xs = xs.flatMap toks := by
  induction xs with
  | nil => rfl
  | cons x xs ih => simp [toksL, ih]

def canonChunks : List (Width × Bytes) → List (Width × Bytes)
  | [] => []
  | (_, b) :: cs => (prefWidth b.length, b) :: canonChunks cs

mutual
/-- the same item with every head at its preferred (shortest) width; indefinite-length items stay
    indefinite, chunk boundaries are kept, floats keep their width. -/
def canon : WItem → WItem
  | .uint _ n    => .uint (prefWidth n) n
  | .nint _ n    => .nint (prefWidth n) n
  | .bytes _ b   => .bytes (prefWidth b.length) b
  | .bytesI cs   => .bytesI (canonChunks cs)
  | .text _ b    => .text (prefWidth b.length) b
  | .textI cs    => .textI (canonChunks cs)
  | .array _ xs  => .array (prefWidth xs.length) (canonL xs)
  | .arrayI xs   => .arrayI (canonL xs)
  | .map _ kvs   => .map (prefWidth (kvs.length / 2)) (canonL kvs)
  | .mapI kvs    => .mapI (canonL kvs)
  | .tag _ n x   => .tag (prefWidth n) n (canon x)
  | .simple n    => .simple n
  | .f16 b       => .f16 (quiet16 b)
  | .f32 b       => .f32 b
  | .f64 b       => .f64 b
def canonL : List WItem → List WItem
  | []      => []
  | x :: xs => canon x :: canonL xs
end

def chunksPreferred : List (Width × Bytes) → Bool
  | [] => true
  | (w, b) :: cs => (w == prefWidth b.length) && chunksPreferred cs

mutual
/-- every head of the tree is in preferred serialisation (and no half float is a signalling NaN,
    the one pattern the property excludes). -/
def preferred : WItem → Bool
  | .uint w n    => w == prefWidth n
  | .nint w n    => w == prefWidth n
  | .bytes w b   => w == prefWidth b.length
  | .bytesI cs   => chunksPreferred cs
  | .text w b    => w == prefWidth b.length
  | .textI cs    => chunksPreferred cs
  | .array w xs  => (w == prefWidth xs.length) && preferredL xs
  | .arrayI xs   => preferredL xs
  | .map w kvs   => (w == prefWidth (kvs.length / 2)) && preferredL kvs
  | .mapI kvs    => preferredL kvs
  | .tag w n x   => (w == prefWidth n) && preferred x
  | .simple _    => true
  | .f16 b       => quiet16 b == b
  | .f32 _       => true
  | .f64 _       => true
def preferredL : List WItem → Bool
  | []      => true
  | x :: xs => preferred x && preferredL xs
end

mutual
/-- no half float in the tree is a signalling NaN (the one pattern the property excludes: the
    `f16 → f32 → f16` trip of a token quiets it). -/
def halfQuiet : WItem → Bool
  | .array _ xs | .arrayI xs | .map _ xs | .mapI xs => halfQuietL xs
  | .tag _ _ x   => halfQuiet x
  | .f16 b       => quiet16 b == b
  | _            => true
def halfQuietL : List WItem → Bool
  | []      => true
  | x :: xs => halfQuiet x && halfQuietL xs
end

/-- the numeric value of an integer token. -/
def Token.intVal? : Token → Option Int
  | .u8 n | .u16 n | .u32 n | .u64 n => some (n : Int)
  | .i8 v | .i16 v | .i32 v | .i64 v | .int v => some v
  | _ => none

/-- **value equality of tokens**: integer tokens are equal when they denote the same number
    (whatever their kind); every other token only equals itself (floats bitwise). -/
def Token.valueEq (a b : Token) : Prop :=
  match Token.intVal? a, Token.intVal? b with
  | some x, some y => x = y
  | none, none => a = b
  | _, _ => False

/-- pointwise value equality of token lists (same length). -/
inductive Token.valueEqL : List Token → List Token → Prop
  | nil : Token.valueEqL [] []
  | cons {a b : Token} {as bs : List Token} :
      Token.valueEq a b → Token.valueEqL as bs → Token.valueEqL (a :: as) (b :: bs)

/-- the looser relation of the property text: additionally `Simple(20..23)` is identified with
    `Bool(false)`, `Bool(true)`, `Null`, `Undefined`. -/
def Token.alias : Token → Token
  | .simple 20 => .bool false
  | .simple 21 => .bool true
  | .simple 22 => .null
  | .simple 23 => .undefined
  | t => t

def Token.valueEqLoose (a b : Token) : Prop := Token.valueEq (Token.alias a) (Token.alias b)

/-- payload bounds that the Rust types enforce on top of `Token.ok`: slices are shorter than
    2^64 bytes, and (the property's assumption) an `F16` token holds a half-representable `f32`. -/
def Token.wf : Token → Prop
  | .bytes b => b.length < 18446744073709551616
  | .string b => b.length < 18446744073709551616 ∧ validUtf8 b = true
  | .f16 x => ∃ h, h < 65536 ∧ x = f16ToF32 h
  | t => t.ok = true

end Minicbor.C11
