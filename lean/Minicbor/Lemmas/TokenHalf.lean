/-
  The finite fact about half floats that C11 needs: the `f16 → f32 → f16` trip a `Token::F16`
  makes (`half::f16::to_f32`, then `from_f32` in `Encoder::f16`) returns every one of the
  65 536 patterns unchanged, except that a signalling NaN gets its quiet bit set.
  Proved by kernel evaluation of the complete table.  (Imports only `Float`, so that the table is
  not re-evaluated when other model files change.)
-/
import Minicbor.Float

namespace Minicbor.C11

/-- a signalling half NaN gets its quiet bit set by the `f16 → f32 → f16` trip the token makes
    (`half::f16::to_f32` followed by `from_f32`); every other pattern is kept. -/
def quiet16 (h : Nat) : Nat :=
  if h / 1024 % 32 = 31 ∧ h % 1024 ≠ 0 ∧ h % 1024 < 512 then h + 512 else h

def allBelow : Nat → (Nat → Bool) → Bool
  | 0, _ => true
  | n + 1, p => p n && allBelow n p

theorem allBelow_spec {n : Nat} {p : Nat → Bool} (h : allBelow n p = true) :
    ∀ i, i < n → p i = true := by
  induction n with
  | zero => intro i hi; omega
  | succ n ih =>
    simp only [allBelow, Bool.and_eq_true] at h
    intro i hi
    by_cases hin : i = n
    · subst hin; exact h.1
    · exact ih h.2 i (by omega)

theorem half_table :
    allBelow 65536 (fun h => decide (f32ToF16 (f16ToF32 h) = quiet16 h ∧
      f16ToF32 (quiet16 h) = f16ToF32 h ∧ quiet16 h < 65536)) = true := by
  decide +kernel

/-- `from_f32 (to_f32 h) = h` up to quieting of signalling NaNs, for all 65 536 patterns. -/
theorem half_roundtrip (h : Nat) (hlt : h < 65536) : f32ToF16 (f16ToF32 h) = quiet16 h := by
  have := allBelow_spec half_table h hlt
  simp only [decide_eq_true_eq] at this; exact this.1

/-- quieting does not change what the pattern converts to. -/
theorem f16ToF32_quiet (h : Nat) (hlt : h < 65536) : f16ToF32 (quiet16 h) = f16ToF32 h := by
  have := allBelow_spec half_table h hlt
  simp only [decide_eq_true_eq] at this; exact this.2.1

theorem quiet16_lt (h : Nat) (hlt : h < 65536) : quiet16 h < 65536 := by
  have := allBelow_spec half_table h hlt
  simp only [decide_eq_true_eq] at this; exact this.2.2

/-- outside the signalling NaNs nothing changes. -/
theorem quiet16_of_not_snan (h : Nat) (hn : ¬ (h / 1024 % 32 = 31 ∧ h % 1024 ≠ 0 ∧ h % 1024 < 512)) :
    quiet16 h = h := by
  unfold quiet16; rw [if_neg hn]

/-- in particular for everything that is not a NaN (the form used by the property). -/
theorem half_roundtrip_not_nan (h : Nat) (hlt : h < 65536) (hn : isNan16 h = false) :
    f32ToF16 (f16ToF32 h) = h := by
  rw [half_roundtrip h hlt, quiet16_of_not_snan]
  intro ⟨h1, h2, _⟩
  simp [isNan16, h1, h2] at hn

end Minicbor.C11
