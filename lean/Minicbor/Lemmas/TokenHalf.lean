/-
  The finite fact about half floats that C11 needs: the `f16 → f32 → f16` trip a `Token::F16`
  makes (`half::f16::to_f32`, then `from_f32` in `Encoder::f16`) returns every one of the
  65 536 patterns unchanged, except that a signalling NaN gets its quiet bit set.
  Proved by kernel evaluation of the complete table.  (Imports only `Float`, so that the table is
  not re-evaluated when other model files change.)
-/
import Minicbor.Float

namespace Minicbor.C11

/-- a signalling half NaN gets its quiet bit set by the `f16 → f32 → f16` trip the token makes
    (`half::f16::to_f32` followed by `from_f32`); every other pattern is kept. -/
def quiet16 (h : Nat) : Nat :=
  if h / 1024 % 32 = 31 ∧ h % 1024 ≠ 0 ∧ h % 1024 < 512 then h + 512 else h

/-- `p` holds on `lo, lo+1, …, lo+n-1`. -/
def allFrom (lo : Nat) : Nat → (Nat → Bool) → Bool
  | 0, _ => true
  | n + 1, p => p (lo + n) && allFrom lo n p

theorem allFrom_spec {lo n : Nat} {p : Nat → Bool} (h : allFrom lo n p = true) :
    ∀ i, lo ≤ i → i < lo + n → p i = true := by
  induction n with
  | zero => intro i h1 h2; omega
  | succ n ih =>
    simp only [allFrom, Bool.and_eq_true] at h
    intro i h1 h2
    by_cases hin : i = lo + n
    · subst hin; exact h.1
    · exact ih h.2 i h1 (by omega)

def halfOk (h : Nat) : Bool := decide (f32ToF16 (f16ToF32 h) = quiet16 h)

/-! the complete table, evaluated by the kernel in 16 slices of 4096 patterns (one slice per
    declaration keeps the kernel's memory below 2 GB instead of 7) -/
theorem half_table_0 : allFrom 0 4096 halfOk = true := by decide +kernel
theorem half_table_1 : allFrom 4096 4096 halfOk = true := by decide +kernel
theorem half_table_2 : allFrom 8192 4096 halfOk = true := by decide +kernel
theorem half_table_3 : allFrom 12288 4096 halfOk = true := by decide +kernel
theorem half_table_4 : allFrom 16384 4096 halfOk = true := by decide +kernel
theorem half_table_5 : allFrom 20480 4096 halfOk = true := by decide +kernel
theorem half_table_6 : allFrom 24576 4096 halfOk = true := by decide +kernel
theorem half_table_7 : allFrom 28672 4096 halfOk = true := by decide +kernel
theorem half_table_8 : allFrom 32768 4096 halfOk = true := by decide +kernel
theorem half_table_9 : allFrom 36864 4096 halfOk = true := by decide +kernel
theorem half_table_10 : allFrom 40960 4096 halfOk = true := by decide +kernel
theorem half_table_11 : allFrom 45056 4096 halfOk = true := by decide +kernel
theorem half_table_12 : allFrom 49152 4096 halfOk = true := by decide +kernel
theorem half_table_13 : allFrom 53248 4096 halfOk = true := by decide +kernel
theorem half_table_14 : allFrom 57344 4096 halfOk = true := by decide +kernel
theorem half_table_15 : allFrom 61440 4096 halfOk = true := by decide +kernel

/-- `from_f32 (to_f32 h) = h` up to quieting of signalling NaNs, for all 65 536 patterns. -/
theorem half_roundtrip (h : Nat) (hlt : h < 65536) : f32ToF16 (f16ToF32 h) = quiet16 h := by
  have key : halfOk h = true := by
    by_cases c0 : h < 4096
    · exact allFrom_spec half_table_0 h (by omega) (by omega)
    by_cases c1 : h < 8192
    · exact allFrom_spec half_table_1 h (by omega) (by omega)
    by_cases c2 : h < 12288
    · exact allFrom_spec half_table_2 h (by omega) (by omega)
    by_cases c3 : h < 16384
    · exact allFrom_spec half_table_3 h (by omega) (by omega)
    by_cases c4 : h < 20480
    · exact allFrom_spec half_table_4 h (by omega) (by omega)
    by_cases c5 : h < 24576
    · exact allFrom_spec half_table_5 h (by omega) (by omega)
    by_cases c6 : h < 28672
    · exact allFrom_spec half_table_6 h (by omega) (by omega)
    by_cases c7 : h < 32768
    · exact allFrom_spec half_table_7 h (by omega) (by omega)
    by_cases c8 : h < 36864
    · exact allFrom_spec half_table_8 h (by omega) (by omega)
    by_cases c9 : h < 40960
    · exact allFrom_spec half_table_9 h (by omega) (by omega)
    by_cases c10 : h < 45056
    · exact allFrom_spec half_table_10 h (by omega) (by omega)
    by_cases c11 : h < 49152
    · exact allFrom_spec half_table_11 h (by omega) (by omega)
    by_cases c12 : h < 53248
    · exact allFrom_spec half_table_12 h (by omega) (by omega)
    by_cases c13 : h < 57344
    · exact allFrom_spec half_table_13 h (by omega) (by omega)
    by_cases c14 : h < 61440
    · exact allFrom_spec half_table_14 h (by omega) (by omega)
    exact allFrom_spec half_table_15 h (by omega) (by omega)
  simpa only [halfOk, decide_eq_true_eq] using key

/-- quieting does not change what the pattern converts to. -/
theorem f16ToF32_quiet (h : Nat) (_hlt : h < 65536) : f16ToF32 (quiet16 h) = f16ToF32 h := by
  unfold quiet16
  split
  · rename_i hs
    obtain ⟨h1, h2, h3⟩ := hs
    have e1 : (h + 512) / 32768 = h / 32768 := by omega
    have e2 : (h + 512) / 1024 % 32 = 31 := by omega
    have e3 : (h + 512) % 1024 = h % 1024 + 512 := by omega
    unfold f16ToF32
    simp only [e1, e2, e3, h1]
    have h4 : ¬ (h % 1024 ≥ 512) := by omega
    simp [h2, h4]
    omega
  · rfl

theorem quiet16_lt (h : Nat) (hlt : h < 65536) : quiet16 h < 65536 := by
  unfold quiet16; split <;> omega

/-- outside the signalling NaNs nothing changes. -/
theorem quiet16_of_not_snan (h : Nat) (hn : ¬ (h / 1024 % 32 = 31 ∧ h % 1024 ≠ 0 ∧ h % 1024 < 512)) :
    quiet16 h = h := by
  unfold quiet16; rw [if_neg hn]

/-- in particular for everything that is not a NaN (the form used by the property). -/
theorem half_roundtrip_not_nan (h : Nat) (hlt : h < 65536) (hn : isNan16 h = false) :
    f32ToF16 (f16ToF32 h) = h := by
  rw [half_roundtrip h hlt, quiet16_of_not_snan]
  intro ⟨h1, h2, _⟩
  simp [isNan16, h1, h2] at hn

end Minicbor.C11
