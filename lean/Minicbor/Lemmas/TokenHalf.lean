/-
  The finite fact about half floats that C11 needs: the `f16 → f32 → f16` trip a `Token::F16`
  makes (`half::f16::to_f32`, then `from_f32` in `Encoder::f16`) returns every one of the
  65 536 patterns unchanged, except that a signalling NaN gets its quiet bit set.
  Proved by kernel evaluation of the complete table.
-/
import Minicbor.Lemmas.TokenSpec

namespace Minicbor.C11

theorem half_table :
    (List.range 65536).all (fun h => decide (f32ToF16 (f16ToF32 h) = quiet16 h)) = true := by
  decide +kernel

/-- `from_f32 (to_f32 h) = h` up to quieting of signalling NaNs, for all 65 536 patterns. -/
theorem half_roundtrip (h : Nat) (hlt : h < 65536) : f32ToF16 (f16ToF32 h) = quiet16 h := by
  have := List.all_eq_true.mp half_table h (List.mem_range.mpr hlt)
  simpa using this

/-- quieting does not change what the pattern converts to. -/
theorem half_table2 :
    (List.range 65536).all (fun h => decide (f16ToF32 (quiet16 h) = f16ToF32 h ∧ quiet16 h < 65536)) = true := by
  decide +kernel

theorem f16ToF32_quiet (h : Nat) (hlt : h < 65536) : f16ToF32 (quiet16 h) = f16ToF32 h := by
  have := List.all_eq_true.mp half_table2 h (List.mem_range.mpr hlt)
  simp at this; exact this.1

theorem quiet16_lt (h : Nat) (hlt : h < 65536) : quiet16 h < 65536 := by
  have := List.all_eq_true.mp half_table2 h (List.mem_range.mpr hlt)
  simp at this; exact this.2

/-- outside the signalling NaNs nothing changes. -/
theorem quiet16_of_not_snan (h : Nat) (hn : ¬ (h / 1024 % 32 = 31 ∧ h % 1024 ≠ 0 ∧ h % 1024 < 512)) :
    quiet16 h = h := by
  unfold quiet16; rw [if_neg hn]

end Minicbor.C11
