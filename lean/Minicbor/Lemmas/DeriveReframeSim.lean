/-
  C09: the re-framing relation `rf` (Reframe.lean) only looks at the DATA-MODEL VALUE of a wire
  tree: two trees without chunked strings that have the same value (they differ in head widths
  and in definite / indefinite containers, nothing else) are in the relation together.  With
  `pref_rf` (the preferred tree of the documented value is in the relation) this gives the
  completeness of `rf`: every valid tree with the documented value and unchunked strings is a
  re-framing — so `derive_decode_reframed` is the full statement of the property.
  Non-recursive parts; the mutual induction over the schema is in Thm/C09Round.lean.
-/
import Minicbor.Lemmas.DeriveReframeVal

namespace Minicbor.Derive

/-- same data-model value, no chunked strings on either side. -/
def Sim (w1 w2 : WItem) : Prop := value w1 = value w2 ∧ noChunks w1 = true ∧ noChunks w2 = true

theorem Sim.symm {w1 w2 : WItem} (h : Sim w1 w2) : Sim w2 w1 := ⟨h.1.symm, h.2.2, h.2.1⟩

/-! ### leaves -/

theorem sim_isIntW (i : Int) (w1 w2 : WItem) (h : Sim w1 w2) (h1 : isIntW i w1 = true) : isIntW i w2 = true := by
  obtain ⟨hv, -, -⟩ := h
  cases w1 <;> simp [isIntW] at h1 <;> cases w2 <;> simp [value] at hv <;> simp [isIntW, h1, hv]
  all_goals omega

theorem sim_isUintW (n : Nat) (w1 w2 : WItem) (h : Sim w1 w2) (h1 : isUintW n w1 = true) : isUintW n w2 = true := by
  obtain ⟨hv, -, -⟩ := h
  cases w1 <;> simp [isUintW] at h1 <;> cases w2 <;> simp [value] at hv <;> simp [isUintW, ← h1, hv]

theorem sim_isBoolW (b : Bool) (w1 w2 : WItem) (h : Sim w1 w2) (h1 : isBoolW b w1 = true) : isBoolW b w2 = true := by
  obtain ⟨hv, -, -⟩ := h
  cases w1 <;> simp [isBoolW] at h1 <;> cases w2 <;> simp [value] at hv <;> simp [isBoolW, ← hv, h1]

theorem sim_isNullW (w1 w2 : WItem) (h : Sim w1 w2) (h1 : isNullW w1 = true) : isNullW w2 = true := by
  obtain ⟨hv, -, -⟩ := h
  cases w1 <;> simp [isNullW] at h1 <;> cases w2 <;> simp [value] at hv <;> simp [isNullW, ← hv, h1]

theorem sim_isNullW_iff (w1 w2 : WItem) (h : Sim w1 w2) : isNullW w1 = isNullW w2 := by
  cases h1 : isNullW w1 <;> cases h2 : isNullW w2 <;> try rfl
  · rw [sim_isNullW w2 w1 h.symm h2] at h1; cases h1
  · rw [sim_isNullW w1 w2 h h1] at h2; cases h2

theorem sim_isTextW (b : Bytes) (w1 w2 : WItem) (h : Sim w1 w2) (h1 : isTextW b w1 = true) : isTextW b w2 = true := by
  obtain ⟨hv, -, hn⟩ := h
  cases w1 <;> simp [isTextW] at h1 <;> cases w2 <;> simp [value] at hv <;> simp [noChunks] at hn <;> simp [isTextW, h1, hv]

theorem sim_isBytesW (b : Bytes) (w1 w2 : WItem) (h : Sim w1 w2) (h1 : isBytesW b w1 = true) : isBytesW b w2 = true := by
  obtain ⟨hv, -, hn⟩ := h
  cases w1 <;> simp [isBytesW] at h1 <;> cases w2 <;> simp [value] at hv <;> simp [noChunks] at hn <;> simp [isBytesW, h1, hv]

/-! ### lists of items -/

/-- pointwise `Sim`, by position. -/
def SimAll (xs ys : List WItem) : Prop :=
  xs.length = ys.length ∧ ∀ (i : Nat) (x y : WItem), xs[i]? = some x → ys[i]? = some y → Sim x y

theorem SimAll.nil_cons {y : WItem} {ys : List WItem} {P : Prop} (h : SimAll [] (y :: ys)) : P := by
  have := h.1; simp at this
theorem SimAll.cons_nil {x : WItem} {xs : List WItem} {P : Prop} (h : SimAll (x :: xs) []) : P := by
  have := h.1; simp at this

theorem noChunksAll_mem : ∀ (xs : List WItem), noChunksAll xs = true → ∀ x ∈ xs, noChunks x = true
  | [], _, x, hx => by simp at hx
  | y :: ys, h, x, hx => by
    simp only [noChunksAll, Bool.and_eq_true] at h
    rcases List.mem_cons.1 hx with rfl | hx'
    · exact h.1
    · exact noChunksAll_mem ys h.2 x hx'

theorem values_length : ∀ xs : List WItem, (values xs).length = xs.length
  | [] => rfl
  | _ :: xs => by simp [values, values_length xs]

theorem simAll_of_values (xs ys : List WItem) (hv : values xs = values ys) (hx : noChunksAll xs = true) (hy : noChunksAll ys = true) :
    SimAll xs ys := by
  refine ⟨by rw [← values_length xs, ← values_length ys, hv], ?_⟩
  intro i x y h1 h2
  have := congrArg (fun (l : List Item) => l[i]?) hv
  simp only [values_get, h1, h2, Option.map_some, Option.some.injEq] at this
  exact ⟨this, noChunksAll_mem xs hx x (List.mem_of_getElem? h1), noChunksAll_mem ys hy y (List.mem_of_getElem? h2)⟩

theorem SimAll.cons_inv {x y : WItem} {xs ys : List WItem} (h : SimAll (x :: xs) (y :: ys)) : Sim x y ∧ SimAll xs ys := by
  refine ⟨h.2 0 x y rfl rfl, by simpa using h.1, ?_⟩
  intro i a b h1 h2
  exact h.2 (i + 1) a b (by simpa using h1) (by simpa using h2)

theorem sim_arrItems (w1 w2 : WItem) (h : Sim w1 w2) (xs : List WItem) (h1 : arrItems w1 = some xs) :
    ∃ ys, arrItems w2 = some ys ∧ SimAll xs ys := by
  obtain ⟨hv, hn1, hn2⟩ := h
  have hx : value w1 = .array (values xs) ∧ noChunksAll xs = true := by
    cases w1 <;> simp [arrItems] at h1 <;> subst h1 <;> simp [value, noChunks] at hn1 ⊢ <;> exact hn1
  rw [hx.1] at hv
  cases w2 <;> simp [value] at hv
  all_goals
    simp only [noChunks] at hn2
    exact ⟨_, rfl, simAll_of_values _ _ hv hx.2 hn2⟩

theorem sim_mapItems (w1 w2 : WItem) (h : Sim w1 w2) (xs : List WItem) (h1 : mapItems w1 = some xs) :
    ∃ ys, mapItems w2 = some ys ∧ SimAll xs ys := by
  obtain ⟨hv, hn1, hn2⟩ := h
  have hx : value w1 = .map (values xs) ∧ noChunksAll xs = true := by
    cases w1 <;> simp [mapItems] at h1 <;> subst h1 <;> simp [value, noChunks] at hn1 ⊢ <;> exact hn1
  rw [hx.1] at hv
  cases w2 <;> simp [value] at hv
  all_goals
    simp only [noChunks] at hn2
    exact ⟨_, rfl, simAll_of_values _ _ hv hx.2 hn2⟩

theorem sim_untagW (t : Option Nat) (w1 w2 y1 : WItem) (h : Sim w1 w2) (h1 : untagW t w1 = some y1) :
    ∃ y2, untagW t w2 = some y2 ∧ Sim y1 y2 := by
  cases t with
  | none => simp only [untagW] at h1; cases h1; exact ⟨w2, rfl, h⟩
  | some n =>
    obtain ⟨hv, hn1, hn2⟩ := h
    cases w1 <;> simp [untagW] at h1
    rename_i wd m z
    obtain ⟨hm, rfl⟩ := h1
    cases w2 <;> simp [value] at hv
    rename_i wd' m' z'
    simp only [noChunks] at hn1 hn2
    exact ⟨z', by simp [untagW, ← hv.1, hm], hv.2, hn1, hn2⟩

/-- `Vec`: pointwise. -/
theorem sim_all2 (t : FTy) : ∀ (vs : List Val) (xs ys : List WItem), all2 (rf t) vs xs = true → SimAll xs ys →
    (∀ v ∈ vs, ∀ x y, rf t v x = true → Sim x y → rf t v y = true) → all2 (rf t) vs ys = true
  | [], [], ys, _, hs, _ => by
    cases ys with
    | nil => rfl
    | cons => exact hs.nil_cons
  | v :: vs, x :: xs, ys, h, hs, ih => by
    cases ys with
    | nil => exact hs.cons_nil
    | cons y ys =>
      simp only [all2, Bool.and_eq_true] at h ⊢
      obtain ⟨h0, hr⟩ := hs.cons_inv
      exact ⟨ih v (by simp) x y h.1 h0, sim_all2 t vs xs ys h.2 hr (fun v' hv' => ih v' (by simp [hv']))⟩
  | [], _ :: _, _, h, _, _ => by simp [all2] at h
  | _ :: _, [], _, h, _, _ => by simp [all2] at h

/-! ### bodies -/

/-- the lookups "index ↦ item on the wire" of two bodies agree up to `Sim`. -/
def CellSim (c1 c2 : Nat → Option WItem) : Prop :=
  ∀ i, (c1 i = none ↔ c2 i = none) ∧ ∀ x y, c1 i = some x → c2 i = some y → Sim x y

theorem sim_gapsNull (fs : Fields) (xs ys : List WItem) (hs : SimAll xs ys) (h : gapsNull fs xs = true) : gapsNull fs ys = true := by
  simp only [gapsNull, List.all_eq_true, List.mem_range, Bool.or_eq_true] at h ⊢
  intro i hi
  have hlen := hs.1
  have hix : i < xs.length := by omega
  rcases h i hix with hl | hn
  · exact Or.inl hl
  · right
    have h1 : xs[i]? = some xs[i] := by simp [hix]
    have h2 : ys[i]? = some ys[i] := by simp [hi]
    rw [h1] at hn
    rw [h2]
    exact sim_isNullW _ _ (hs.2 i _ _ h1 h2) hn

theorem sim_entriesW : ∀ (kvs1 kvs2 : List WItem) (es1 : List (Nat × WItem × WItem)), SimAll kvs1 kvs2 → entriesW kvs1 = some es1 →
    ∃ es2, entriesW kvs2 = some es2 ∧ es1.map (·.1) = es2.map (·.1) ∧
      ∀ e1 ∈ es1, ∀ e2 ∈ es2, e1.1 = e2.1 → (es1.map (·.1)).Nodup → Sim e1.2.2 e2.2.2
  | [], kvs2, es1, hs, h => by
    cases kvs2 with
    | nil => simp only [entriesW] at h; cases h; exact ⟨[], rfl, rfl, by simp⟩
    | cons => exact hs.nil_cons
  | [a], kvs2, es1, _, h => by cases a <;> simp [entriesW] at h
  | a :: x :: rest, kvs2, es1, hs, h => by
    cases a with
    | uint wd n =>
      simp only [entriesW, Option.map_eq_some_iff] at h
      obtain ⟨es', hes', rfl⟩ := h
      cases kvs2 with
      | nil => exact hs.cons_nil
      | cons b kvs2' =>
        cases kvs2' with
        | nil => exact (hs.cons_inv.2).cons_nil
        | cons y rest2 =>
          obtain ⟨h0, hr⟩ := hs.cons_inv
          obtain ⟨h1, hr'⟩ := hr.cons_inv
          obtain ⟨wd', rfl⟩ : ∃ wd', b = .uint wd' n := by
            have := sim_isUintW n _ b h0 (by simp [isUintW])
            exact isUintW_eq n b this
          obtain ⟨es2, he2, hk, hv⟩ := sim_entriesW rest rest2 es' hr' hes'
          refine ⟨(n, .uint wd' n, y) :: es2, by simp [entriesW, he2], by simp [hk], ?_⟩
          intro e1 he1 e2 he2' hk12 hnd
          simp only [List.map_cons, List.nodup_cons] at hnd
          rcases List.mem_cons.1 he1 with rfl | he1' <;> rcases List.mem_cons.1 he2' with rfl | he2''
          · exact h1
          · exfalso; apply hnd.1; rw [hk]; simp only at hk12; rw [hk12]; exact List.mem_map.2 ⟨e2, he2'', rfl⟩
          · exfalso; apply hnd.1; simp only at hk12; rw [← hk12]; exact List.mem_map.2 ⟨e1, he1', rfl⟩
          · exact hv e1 he1' e2 he2'' hk12 hnd.2
    | _ => simp [entriesW] at h

theorem find_key_none {β : Type} (es : List (Nat × β)) (i : Nat) : es.find? (fun q => q.1 == i) = none ↔ i ∉ es.map (·.1) := by
  induction es with
  | nil => simp
  | cons q qs ih =>
    by_cases hq : q.1 = i
    · simp [List.find?, hq]
    · have hb : (q.1 == i) = false := by simpa using hq
      simp only [List.find?, hb, ih, List.map_cons, List.mem_cons]
      constructor
      · intro h hc; rcases hc with hc | hc
        · exact hq hc.symm
        · exact h hc
      · intro h hc; exact h (Or.inr hc)

/-- **the container of a body** (shape, length / keys, gaps) only depends on the value; the two
    lookups agree up to `Sim`. -/
theorem sim_bodyCells (enc : Encoding) (fs : Fields) (vs : List Val) (b1 b2 : WItem) (h : Sim b1 b2) (hty : hasFields fs vs = true)
    (hnd : (liveIdxs fs).Nodup) (c1 : Nat → Option WItem) (h1 : bodyCells enc fs vs b1 = some c1) :
    ∃ c2, bodyCells enc fs vs b2 = some c2 ∧ CellSim c1 c2 := by
  cases enc with
  | array =>
    simp only [bodyCells] at h1 ⊢
    cases hai : arrItems b1 with
    | none => rw [hai] at h1; simp at h1
    | some xs =>
      rw [hai] at h1
      simp only at h1
      split at h1
      · rename_i hcond
        simp only [Bool.and_eq_true, beq_iff_eq] at hcond
        cases h1
        obtain ⟨ys, hys, hs⟩ := sim_arrItems b1 b2 h xs hai
        refine ⟨fun i => ys[i]?, ?_, ?_⟩
        · have hl : ys.length = arrLen fs vs := by rw [← hs.1]; exact hcond.1
          simp [hys, hl, sim_gapsNull fs xs ys hs hcond.2]
        · intro i
          refine ⟨by simp only [List.getElem?_eq_none_iff]; rw [hs.1], fun x y hx hy => hs.2 i x y hx hy⟩
      · simp at h1
  | map =>
    simp only [bodyCells] at h1 ⊢
    cases hmi : mapItems b1 with
    | none => rw [hmi] at h1; simp at h1
    | some kvs =>
      rw [hmi] at h1
      simp only at h1
      cases hes : entriesW kvs with
      | none => rw [hes] at h1; simp at h1
      | some es =>
        rw [hes] at h1
        simp only at h1
        split at h1
        · rename_i hkeys
          have hkeys' : es.map (·.1) = presentIdxs fs vs := by simpa using hkeys
          cases h1
          obtain ⟨kvs2, hk2, hs⟩ := sim_mapItems b1 b2 h kvs hmi
          obtain ⟨es2, he2, hk, hv⟩ := sim_entriesW kvs kvs2 es hs hes
          have hndK : (es.map (·.1)).Nodup := by rw [hkeys']; exact presentIdxs_nodup fs vs hty hnd
          refine ⟨fun i => (es2.find? (fun q => q.1 == i)).map (·.2.2), ?_, ?_⟩
          · simp [hk2, he2, ← hk, hkeys']
          · intro i
            constructor
            · simp only [Option.map_eq_none_iff, find_key_none, hk]
            · intro x y hx hy
              simp only [Option.map_eq_some_iff] at hx hy
              obtain ⟨e1, hf1, rfl⟩ := hx
              obtain ⟨e2, hf2, rfl⟩ := hy
              have hm1 := List.mem_of_find?_eq_some hf1
              have hm2 := List.mem_of_find?_eq_some hf2
              have hi1 : e1.1 = i := by simpa using List.find?_some hf1
              have hi2 : e2.1 = i := by simpa using List.find?_some hf2
              exact hv e1 hm1 e2 hm2 (by rw [hi1, hi2]) hndK
        · simp at h1

theorem sim_rfWith (c : Codec) (t : FTy) (v : Val) (y1 y2 : WItem) (h : Sim y1 y2)
    (ih : rf t v y1 = true → rf t v y2 = true) (h1 : rfWith c (rf t) v y1 = true) : rfWith c (rf t) v y2 = true := by
  cases c with
  | nilu =>
    simp only [rfWith] at h1 ⊢
    cases v <;> simp at h1 ⊢
    rename_i i
    by_cases h0 : i = 0
    · simp only [h0, if_true] at h1 ⊢; exact sim_isNullW _ _ h h1
    · simp only [h0, if_false] at h1 ⊢; exact sim_isUintW _ _ _ h h1
  | _ => simp only [rfWith] at h1 ⊢; exact ih h1

/-- every field's relation only depends on the value of the field's item. -/
def FieldsSim : Fields → List Val → Prop
  | (a, t) :: fs, v :: vs => (a.skip = false → ∀ y1 y2, rf t v y1 = true → Sim y1 y2 → rf t v y2 = true) ∧ FieldsSim fs vs
  | _, _ => True

theorem sim_rfFields : ∀ (fs : Fields) (vs : List Val) (c1 c2 : Nat → Option WItem), FieldsSim fs vs → CellSim c1 c2 →
    rfFields fs vs c1 = true → rfFields fs vs c2 = true
  | [], [], _, _, _, _, _ => rfl
  | [], _ :: _, _, _, _, _, h => by simp [rfFields] at h
  | _ :: _, [], _, _, _, _, h => by simp [rfFields] at h
  | (a, t) :: fs, v :: vs, c1, c2, hF, hc, h => by
    simp only [rfFields, Bool.and_eq_true, Bool.or_eq_true] at h ⊢
    refine ⟨?_, sim_rfFields fs vs c1 c2 hF.2 hc h.2⟩
    rcases h.1 with hs | hcell
    · exact Or.inl hs
    · cases hsk : a.skip
      · right
        cases h2 : c2 a.idx with
        | none => rfl
        | some y =>
          cases h1 : c1 a.idx with
          | none => rw [((hc a.idx).1).1 h1] at h2; cases h2
          | some x =>
            rw [h1] at hcell
            simp only at hcell ⊢
            have hxy := (hc a.idx).2 x y h1 h2
            cases hu : untagW a.tag x with
            | none => rw [hu] at hcell; simp at hcell
            | some x' =>
              rw [hu] at hcell
              obtain ⟨y', hu2, hs'⟩ := sim_untagW a.tag x y x' hxy hu
              simp only [hu2]
              exact sim_rfWith a.codec t v x' y' hs' (fun hr => hF.1 hsk x' y' hr hs') hcell
      · exact Or.inl rfl

theorem sim_isEmptyW (enc : Encoding) (b1 b2 : WItem) (h : Sim b1 b2) (h1 : isEmptyW enc b1 = true) : isEmptyW enc b2 = true := by
  cases enc with
  | array =>
    simp only [isEmptyW] at h1 ⊢
    cases hai : arrItems b1 with
    | none => rw [hai] at h1; simp at h1
    | some xs =>
      rw [hai] at h1
      cases xs with
      | nil =>
        obtain ⟨ys, hys, hs⟩ := sim_arrItems b1 b2 h [] hai
        cases ys with
        | nil => simp [hys]
        | cons => exact hs.nil_cons
      | cons => simp at h1
  | map =>
    simp only [isEmptyW] at h1 ⊢
    cases hai : mapItems b1 with
    | none => rw [hai] at h1; simp at h1
    | some xs =>
      rw [hai] at h1
      cases xs with
      | nil =>
        obtain ⟨ys, hys, hs⟩ := sim_mapItems b1 b2 h [] hai
        cases ys with
        | nil => simp [hys]
        | cons => exact hs.nil_cons
      | cons => simp at h1

theorem sim_pairItems (w1 w2 kx bx : WItem) (h : Sim w1 w2) (h1 : pairItems w1 = some (kx, bx)) :
    ∃ kx' bx', pairItems w2 = some (kx', bx') ∧ Sim kx kx' ∧ Sim bx bx' := by
  have ha : arrItems w1 = some [kx, bx] := by
    rcases pairItems_inv w1 kx bx h1 with ⟨wd, rfl⟩ | rfl <;> rfl
  obtain ⟨ys, hys, hs⟩ := sim_arrItems w1 w2 h _ ha
  match ys, hs with
  | [a, b], hs =>
    obtain ⟨h0, hr⟩ := hs.cons_inv
    obtain ⟨h1', _⟩ := hr.cons_inv
    refine ⟨a, b, ?_, h0, h1'⟩
    cases w2 <;> simp [arrItems] at hys <;> subst hys <;> rfl
  | [], hs => exact hs.cons_nil
  | [_], hs => exact (hs.cons_inv.2).cons_nil
  | _ :: _ :: _ :: _, hs => exact ((hs.cons_inv.2).cons_inv.2).nil_cons

end Minicbor.Derive
