/-
  The specification side of C19: the documented diagnostic notation of a wire tree (`render`,
  written from the syntax summary in `minicbor/src/lib.rs:230-262`, by recursion over the tree),
  and the size of a rendered output (`renderedLength`).  Definitions only — they are part of
  the statements in `Thm/C19.lean`.
-/
import Minicbor.Token
import Minicbor.Wire

namespace Minicbor.C19

/-- `a, b, c` -/
def commaSep : List (List Piece) → List Piece
  | [] => []
  | [p] => p
  | p :: q :: r => p ++ [.lit ", "] ++ commaSep (q :: r)

/-- `k1: v1, k2: v2` (flattened entries) -/
def kvSep : List (List Piece) → List Piece
  | [k, v] => k ++ [.lit ": "] ++ v
  | k :: v :: r => k ++ [.lit ": "] ++ v ++ [.lit ", "] ++ kvSep r
  | _ => []

/-- "Bytes are hex encoded and enclosed in `h'` and `'`" (bytes separated by one space). -/
def hexBytes (b : Bytes) : String := "h'" ++ " ".intercalate (b.map hex2) ++ "'"

/-- "Strings are enclosed in double quotes" (the payload is written verbatim). -/
def quoted (b : Bytes) : List Piece := [.lit "\"", .raw b, .lit "\""]

mutual
/-- **the documented notation** of a well-formed item. -/
def render : WItem → List Piece
  /- "Numbers … are displayed as in Rust" -/
  | .uint _ n    => [.lit (toString n)]
  | .nint _ n    => [.lit (toString (-1 - (n : Int)))]
  | .bytes _ b   => [.lit (hexBytes b)]
  /- "Indefinite bytes are enclosed in `(_` and `)` except for the empty sequence which is shown as `''_`" -/
  | .bytesI cs   =>
      if cs.isEmpty then [.lit "''_"]
      else [.lit "(_ "] ++ commaSep (cs.map fun c => [.lit (hexBytes c.2)]) ++ [.lit ")"]
  | .text _ b    => quoted b
  /- "Indefinite strings are enclosed in `(_` and `)` except for the empty sequence which is shown as `""_`" -/
  | .textI cs    =>
      if cs.isEmpty then [.lit "\"\"_"]
      else [.lit "(_ "] ++ commaSep (cs.map fun c => quoted c.2) ++ [.lit ")"]
  /- "Arrays are enclosed in brackets"; "Indefinite arrays start with `[_` instead of `[`" -/
  | .array _ xs  => [.lit "["] ++ commaSep (renderL xs) ++ [.lit "]"]
  | .arrayI xs   => [.lit "[_ "] ++ commaSep (renderL xs) ++ [.lit "]"]
  /- "Maps are enclosed in curly braces"; "Indefinite maps start with `{_` instead of `{`" -/
  | .map _ kvs   => [.lit "{"] ++ kvSep (renderL kvs) ++ [.lit "}"]
  | .mapI kvs    => [.lit "{_ "] ++ kvSep (renderL kvs) ++ [.lit "}"]
  /- "Tagged values are enclosed in `t(` and `)` where `t` is the numeric tag value" -/
  | .tag _ n x   => [.lit (toString n ++ "(")] ++ render x ++ [.lit ")"]
  /- "booleans are displayed as in Rust", "Undefined and null are shown as `undefined` and `null`",
     "Simple values are shown as `simple(n)`" -/
  | .simple n    =>
      if n = 20 then [.lit "false"] else if n = 21 then [.lit "true"]
      else if n = 22 then [.lit "null"] else if n = 23 then [.lit "undefined"]
      else [.lit ("simple(" ++ toString n ++ ")")]
  /- "floats are always shown in scientific notation": a float piece, formatted by Rust's `{:e}`
     (a half float is widened to `f32` first) -/
  | .f16 b       => [.flt32 (f16ToF32 b)]
  | .f32 b       => [.flt32 b]
  | .f64 b       => [.flt64 b]
def renderL : List WItem → List (List Piece)
  | []      => []
  | x :: xs => render x :: renderL xs
end

/-! ### output size -/

/-- the charge for a float piece (Rust's `{:e}` of an `f32`/`f64` is at most 24 bytes) and for
    the text of a decoding error (`Error`'s `Display`: a fixed phrase, a type name, a position and
    a static message, e.g. `unexpected type indefinite string at position 18446744073709551615:
    missing array length`, below 100 bytes) — both texts are outside the model, so they are
    charged a fixed maximum. -/
def FLOAT_CHARGE : Nat := 32
def ERR_CHARGE : Nat := 128

/-- the size of one piece: literal text and string payloads count their length (all literals the
    printer writes are ASCII, so characters = bytes). -/
def Piece.rlen : Piece → Nat
  | .lit s => s.length
  | .raw b => b.length
  | .flt32 _ | .flt64 _ => FLOAT_CHARGE
  | .errmsg _ => ERR_CHARGE

def renderedLength : List Piece → Nat
  | [] => 0
  | p :: ps => Piece.rlen p + renderedLength ps

end Minicbor.C19
