/-
  An induction principle for *successful* runs of the built-in `Encode` model: one premise per
  impl (`encodeT` arm that returns `some`), one per step of the three element loops.  Derived
  once from the functional induction principle of `encodeT`; C01 (round trip), C03 (preferred
  serialisation) and C07 (length) are each one application of it.

  Maintenance: the `case caseN` tags in the proof follow the clause order of `encodeT` /
  `encodeMap` / `encodeTup` / `encodeList` in Types.lean (failing arms are closed wholesale by
  the `simp … at h` line); if a clause is added there, add its premise here and renumber.
-/
import Minicbor.Types

namespace Minicbor

/-- `Duration` / `SystemTime` payload (the `Encode` impls write `[secs, subsec_nanos]`). -/
def Enc.secsNanos (s n : Int) : Bytes := Enc.array 2 ++ Enc.u64 s.toNat ++ Enc.u32 n.toNat

theorem encodeT_ok_induct
    {P1 : Ty → Val → Bytes → Prop}          -- encodeT t v = some bs
    {P2 : Ty → Ty → List Val → Bytes → Prop} -- encodeMap k v kvs = some bs
    {P3 : List Ty → List Val → Bytes → Prop} -- encodeTup ts vs = some bs
    {P4 : Ty → List Val → Bytes → Prop}      -- encodeList t vs = some bs
    (int : ∀ (k : IntKind) (v : Int), k.inRange v = true → P1 (.int k) (.int v) (k.enc v))
    (bool : ∀ b : Bool, P1 .bool (.bool b) (Enc.bool b))
    (char : ∀ v : Int, 0 ≤ v → isScalar v.toNat = true → P1 .char (.int v) (Enc.char v.toNat))
    (f32 : ∀ b : Nat, b < 4294967296 → P1 .f32 (.float b) (Enc.f32 b))
    (f64 : ∀ b : Nat, b < 18446744073709551616 → P1 .f64 (.float b) (Enc.f64 b))
    (str : ∀ b : Bytes, validUtf8 b = true → P1 .str (.str b) (Enc.str b))
    (bytes : ∀ b : Bytes, P1 .bytes (.bytes b) (Enc.bytes b))
    (barr : ∀ b : Bytes, P1 (.barr b.length) (.bytes b) (Enc.bytes b))
    (cstr : ∀ b : Bytes, b.all (· != 0) = true → P1 .cstr (.bytes b) (Enc.bytes (b ++ [0])))
    (unit : P1 .unit .unit (Enc.array 0))
    (skipUnit : P1 .skipUnit .unit (Enc.array 0))
    (optNone : ∀ t : Ty, P1 (.opt t) .none Enc.null)
    (optSome : ∀ (t : Ty) (v : Val) (bs : Bytes), encodeT t v = some bs → P1 t v bs → P1 (.opt t) (.some v) bs)
    (seq : ∀ (t : Ty) (vs : List Val) (b : Bytes), encodeList t vs = some b → P4 t vs b →
      P1 (.seq t) (.list vs) (Enc.array vs.length ++ b))
    (arr : ∀ (t : Ty) (vs : List Val) (b : Bytes), encodeList t vs = some b → P4 t vs b →
      P1 (.arr vs.length t) (.list vs) (Enc.array vs.length ++ b))
    (tup : ∀ (ts : List Ty) (vs : List Val) (b : Bytes), encodeTup ts vs = some b → P3 ts vs b →
      P1 (.tup ts) (.list vs) (Enc.array ts.length ++ b))
    (map : ∀ (k v : Ty) (kvs : List Val) (b : Bytes), encodeMap k v kvs = some b → P2 k v kvs b →
      P1 (.map k v) (.map kvs) (Enc.map (kvs.length / 2) ++ b))
    (nz : ∀ (k : IntKind) (v : Int), k.inRange v = true → v ≠ 0 → P1 (.nz k) (.int v) (k.enc v))
    (tag : ∀ v : Int, 0 ≤ v → v ≤ 18446744073709551615 → P1 .tag (.int v) (Enc.tag v.toNat))
    (tagged : ∀ (n : Nat) (t : Ty) (v : Val) (b : Bytes), encodeT t v = some b → P1 t v b →
      P1 (.tagged n t) (.tagged v) (Enc.tag n ++ b))
    (enum : ∀ (ts : List Ty) (i : Nat) (t : Ty) (v : Val) (b : Bytes), ts[i]? = some t →
      encodeT t v = some b → P1 t v b → P1 (.enum ts) (.variant i v) (Enc.array 2 ++ Enc.u32 i ++ b))
    (fields : ∀ (ts : List Ty) (vs : List Val) (b : Bytes), encodeTup ts vs = some b → P3 ts vs b →
      P1 (.fields ts) (.list vs) (Enc.array ts.length ++ b))
    (duration : ∀ s n : Int, 0 ≤ s → s ≤ 18446744073709551615 → 0 ≤ n → n < 1000000000 →
      P1 .duration (.list [.int s, .int n]) (Enc.secsNanos s n))
    (systime : ∀ s n : Int, 0 ≤ s → s ≤ 9223372036854775807 → 0 ≤ n → n < 1000000000 →
      P1 .systime (.list [.int s, .int n]) (Enc.secsNanos s n))
    (mapNil : ∀ k v : Ty, P2 k v [] [])
    (mapCons : ∀ (k v : Ty) (x y : Val) (rest : List Val) (a b c : Bytes),
      encodeT k x = some a → encodeT v y = some b → encodeMap k v rest = some c →
      P1 k x a → P1 v y b → P2 k v rest c → P2 k v (x :: y :: rest) (a ++ b ++ c))
    (tupNil : P3 [] [] [])
    (tupCons : ∀ (t : Ty) (ts : List Ty) (v : Val) (vs : List Val) (a b : Bytes),
      encodeT t v = some a → encodeTup ts vs = some b → P1 t v a → P3 ts vs b →
      P3 (t :: ts) (v :: vs) (a ++ b))
    (listNil : ∀ t : Ty, P4 t [] [])
    (listCons : ∀ (t : Ty) (v : Val) (vs : List Val) (a b : Bytes),
      encodeT t v = some a → encodeList t vs = some b → P1 t v a → P4 t vs b →
      P4 t (v :: vs) (a ++ b)) :
    (∀ t v bs, encodeT t v = some bs → P1 t v bs) ∧
    (∀ k v kvs bs, encodeMap k v kvs = some bs → P2 k v kvs bs) ∧
    (∀ ts vs bs, encodeTup ts vs = some bs → P3 ts vs bs) ∧
    (∀ t vs bs, encodeList t vs = some bs → P4 t vs bs) := by
  apply encodeT.mutual_induct
    (motive_1 := fun t v => ∀ bs, encodeT t v = some bs → P1 t v bs)
    (motive_2 := fun k v kvs => ∀ bs, encodeMap k v kvs = some bs → P2 k v kvs bs)
    (motive_3 := fun ts vs => ∀ bs, encodeTup ts vs = some bs → P3 ts vs bs)
    (motive_4 := fun t vs => ∀ bs, encodeList t vs = some bs → P4 t vs bs)
  all_goals intros
  all_goals (rename_i h; simp [encodeT, encodeList, encodeTup, encodeMap, Option.bind_eq_some_iff, *] at h)
  case case1 => rename_i hr _; subst h; exact int _ _ hr
  case case3 => subst h; exact bool _
  case case4 =>
    rename_i hr _; subst h
    simp only [Bool.and_eq_true, decide_eq_true_eq] at hr
    exact char _ hr.1 hr.2
  case case6 => rename_i hr _; subst h; exact f32 _ hr
  case case8 => rename_i hr _; subst h; exact f64 _ hr
  case case10 => rename_i hr _; subst h; exact str _ hr
  case case12 => subst h; exact bytes _
  case case13 => subst h; exact barr _
  case case15 => rename_i hr _; subst h; exact cstr _ hr
  case case17 => subst h; exact unit
  case case18 => subst h; exact skipUnit
  case case19 => subst h; exact optNone _
  case case20 => rename_i ih _; exact optSome _ _ _ h (ih _ h)
  case case21 => rename_i ih _; obtain ⟨a, ha, rfl⟩ := h; exact seq _ _ _ ha (ih _ ha)
  case case22 => rename_i ih _; obtain ⟨a, ha, rfl⟩ := h; exact arr _ _ _ ha (ih _ ha)
  case case24 => rename_i ih _; obtain ⟨a, ha, rfl⟩ := h; exact tup _ _ _ ha (ih _ ha)
  case case25 => rename_i ih _; obtain ⟨a, ha, rfl⟩ := h; exact map _ _ _ _ ha (ih _ ha)
  case case26 =>
    rename_i hr _; subst h
    simp only [Bool.and_eq_true, bne_iff_ne, ne_eq] at hr
    exact nz _ _ hr.1 hr.2
  case case28 =>
    rename_i hr _; subst h
    simp only [Bool.and_eq_true, decide_eq_true_eq] at hr
    exact tag _ hr.1 hr.2
  case case30 => rename_i ih _; obtain ⟨a, ha, rfl⟩ := h; exact tagged _ _ _ _ ha (ih _ ha)
  case case31 =>
    rename_i hx ih _; obtain ⟨a, ha, rfl⟩ := h
    rw [← List.append_assoc]; exact enum _ _ _ _ _ hx ha (ih _ ha)
  case case33 => rename_i ih _; obtain ⟨a, ha, rfl⟩ := h; exact fields _ _ _ ha (ih _ ha)
  case case34 =>
    rename_i hr _; subst h
    simp only [Bool.and_eq_true, decide_eq_true_eq] at hr
    rw [← List.append_assoc]; exact duration _ _ hr.1.1.1 hr.1.1.2 hr.1.2 hr.2
  case case36 =>
    rename_i hr _; subst h
    simp only [Bool.and_eq_true, decide_eq_true_eq] at hr
    rw [← List.append_assoc]; exact systime _ _ hr.1.1.1 hr.1.1.2 hr.1.2 hr.2
  case case39 => subst h; exact mapNil _ _
  case case40 =>
    rename_i ih3 ih2 ih1 _
    obtain ⟨a, ha, b, hb, c, hc, rfl⟩ := h
    rw [← List.append_assoc]; exact mapCons _ _ _ _ _ _ _ _ ha hb hc (ih3 _ ha) (ih2 _ hb) (ih1 _ hc)
  case case42 => subst h; exact tupNil
  case case43 =>
    rename_i ih2 ih1 _
    obtain ⟨a, ha, b, hb, rfl⟩ := h
    exact tupCons _ _ _ _ _ _ ha hb (ih2 _ ha) (ih1 _ hb)
  case case45 => subst h; exact listNil _
  case case46 =>
    rename_i ih2 ih1 _
    obtain ⟨a, ha, b, hb, rfl⟩ := h
    exact listCons _ _ _ _ _ ha hb (ih2 _ ha) (ih1 _ hb)

end Minicbor
