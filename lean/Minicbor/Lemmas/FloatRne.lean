/-
  Round-to-nearest-even for `f32ToF16` (the model of `half::f16::from_f32`), all 2^32 inputs.

  Magnitudes are measured in units of 2^-149 (every finite binary16 and binary32 value is an
  integer multiple).  `mag16` is extended beyond the largest finite pattern 0x7BFF in the
  IEEE way ("as if the exponent range were unbounded"): 0x7C00 ↦ 65536, so that overflow to
  infinity is just rounding to the next point of the grid.
-/
import Minicbor.Lemmas.FloatFields

namespace Minicbor

/-- magnitude (units of 2^-149) of the 15 low bits `H` of a binary16 pattern. -/
def mag16 (H : Nat) : Nat :=
  if H / 1024 = 0 then H % 1024 * 2 ^ 125 else (1024 + H % 1024) * 2 ^ (H / 1024 + 124)

/-- magnitude (units of 2^-149) of a finite binary32 with biased exponent `e`, mantissa `m`. -/
def mag32f (e m : Nat) : Nat := if e = 0 then m else (8388608 + m) * 2 ^ (e - 1)

/-- the low 15 bits `f32ToF16` produces for a finite binary32 (`e < 255`). -/
def rnd16 (e m : Nat) : Nat :=
  if e ≥ 143 then 0x7C00
  else if e ≤ 112 then
    if e < 102 then 0
    else
      let sh := 126 - e
      let man := m + 8388608
      let rb := 2 ^ (sh - 1)
      if man / rb % 2 == 1 && (man % rb != 0 || man / (2 * rb) % 2 == 1) then man / 2 ^ sh + 1
      else man / 2 ^ sh
  else
    let base := (e - 112) * 1024 + m / 8192
    if m / 4096 % 2 == 1 && (m % 4096 != 0 || m / 8192 % 2 == 1) then base + 1 else base

theorem f32ToF16_mk (s e m : Nat) (_hs : s < 2) (he : e < 255) (hm : m < 8388608) :
    f32ToF16 (s * 2147483648 + e * 8388608 + m) = s * 32768 + rnd16 e m := by
  have h1 : (s * 2147483648 + e * 8388608 + m) / 2147483648 = s := by omega
  have h2 : (s * 2147483648 + e * 8388608 + m) / 8388608 % 256 = e := by omega
  have h3 : (s * 2147483648 + e * 8388608 + m) % 8388608 = m := by omega
  have h4 : ¬ (e = 255) := by omega
  unfold f32ToF16 rnd16
  simp only [h1, h2, h3, beq_iff_eq, h4, if_false]
  repeat' split
  all_goals omega

/-! ### the binary16 grid is strictly increasing in the pattern -/

theorem mag16_succ (H : Nat) :
    mag16 (H + 1) = mag16 H + 2 ^ ((if H / 1024 = 0 then 1 else H / 1024) + 124) := by
  unfold mag16
  by_cases hw : H % 1024 = 1023
  · -- wrap into the next binade
    have a1 : (H + 1) / 1024 = H / 1024 + 1 := by omega
    have a2 : (H + 1) % 1024 = 0 := by omega
    have a3 : ¬ (H / 1024 + 1 = 0) := by omega
    rw [a1, a2]
    simp only [a3, if_false, hw]
    by_cases h0 : H / 1024 = 0
    · simp only [h0, if_true]
    · simp only [h0, if_false]
      have : 2 ^ (H / 1024 + 1 + 124) = 2 ^ (H / 1024 + 124) * 2 := by
        rw [show H / 1024 + 1 + 124 = (H / 1024 + 124) + 1 by omega, Nat.pow_succ]
      rw [this]
      generalize 2 ^ (H / 1024 + 124) = P
      omega
  · have a1 : (H + 1) / 1024 = H / 1024 := by omega
    have a2 : (H + 1) % 1024 = H % 1024 + 1 := by omega
    rw [a1, a2]
    by_cases h0 : H / 1024 = 0
    · simp only [h0, if_true]
      omega
    · simp only [h0, if_false]
      generalize 2 ^ (H / 1024 + 124) = P
      rw [show 1024 + (H % 1024 + 1) = (1024 + H % 1024) + 1 by omega, Nat.add_mul]
      omega

theorem mag16_lt_succ (H : Nat) : mag16 H < mag16 (H + 1) := by
  rw [mag16_succ]
  have : 0 < 2 ^ ((if H / 1024 = 0 then 1 else H / 1024) + 124) := Nat.pow_pos (by decide)
  omega

theorem mag16_mono {a b : Nat} (h : a ≤ b) : mag16 a ≤ mag16 b := by
  induction b with
  | zero => have : a = 0 := by omega
            subst this; exact Nat.le_refl _
  | succ b ih =>
    by_cases hb : a = b + 1
    · subst hb; exact Nat.le_refl _
    · have := ih (by omega)
      have := mag16_lt_succ b
      omega

theorem mag16_strict {a b : Nat} (h : a < b) : mag16 a < mag16 b := by
  have := mag16_mono (show a + 1 ≤ b by omega)
  have := mag16_lt_succ a
  omega

theorem mag16_small (H : Nat) (h : H ≤ 1024) : mag16 H = H * 2 ^ 125 := by
  unfold mag16
  by_cases h1 : H = 1024
  · subst h1; decide
  · have a1 : H / 1024 = 0 := by omega
    have a2 : H % 1024 = H := by omega
    simp only [a1, a2, if_true]


/-! ### rounding decisions in a cell of the grid -/

/-- `|a − b|` on naturals. -/
def ndist (a b : Nat) : Nat := (a - b) + (b - a)

/-- A correct rounding decision in one cell of a grid: `L ≤ A < U` are the neighbouring grid
    points; rounding `up` (to `U`) or down (to `L`) goes to the nearer one and, at the exact
    midpoint, to the one whose pattern is even (`loEven` = the lower pattern is even). -/
def Rn (L A U : Nat) (loEven up : Bool) : Prop :=
  L ≤ A ∧ A < U ∧
  (up = false → 2 * A ≤ L + U ∧ (2 * A = L + U → loEven = true)) ∧
  (up = true → L + U ≤ 2 * A ∧ (2 * A = L + U → loEven = false))

theorem Rn.scale {L A U : Nat} {ev up : Bool} (h : Rn L A U ev up) (K : Nat) (hK : 0 < K) :
    Rn (L * K) (A * K) (U * K) ev up := by
  obtain ⟨h1, h2, h3, h4⟩ := h
  have e1 : 2 * (A * K) = (2 * A) * K := by rw [Nat.mul_assoc]
  have e2 : L * K + U * K = (L + U) * K := by rw [Nat.add_mul]
  refine ⟨Nat.mul_le_mul_right K h1, Nat.mul_lt_mul_of_pos_right h2 hK, ?_, ?_⟩
  · intro hu
    obtain ⟨a, b⟩ := h3 hu
    rw [e1, e2]
    exact ⟨Nat.mul_le_mul_right K a, fun heq => b (Nat.eq_of_mul_eq_mul_right hK heq)⟩
  · intro hu
    obtain ⟨a, b⟩ := h4 hu
    rw [e1, e2]
    exact ⟨Nat.mul_le_mul_right K a, fun heq => b (Nat.eq_of_mul_eq_mul_right hK heq)⟩

/-- From a correct decision in the cell `[lo, lo+1]` of the binary16 grid: the chosen pattern is
    a nearest grid point among **all** patterns, and at a tie it is the even one. -/
theorem nearest_of_rn (lo A : Nat) (up : Bool)
    (h : Rn (mag16 lo) A (mag16 (lo + 1)) (lo % 2 == 0) up) (H' : Nat) :
    ndist (mag16 (if up then lo + 1 else lo)) A ≤ ndist (mag16 H') A ∧
    (ndist (mag16 (if up then lo + 1 else lo)) A = ndist (mag16 H') A →
      H' ≠ (if up then lo + 1 else lo) → (if up then lo + 1 else lo) % 2 = 0) := by
  obtain ⟨h1, h2, h3, h4⟩ := h
  unfold ndist
  have hs := mag16_lt_succ lo
  rcases Nat.lt_or_ge H' lo with c | c
  · have m1 := mag16_strict c
    cases up
    · have ⟨a, b⟩ := h3 rfl
      simp only [Bool.false_eq_true, if_false]
      constructor
      · omega
      · intro; omega
    · have ⟨a, b⟩ := h4 rfl
      simp only [if_true]
      constructor
      · omega
      · intro; omega
  · rcases Nat.eq_or_lt_of_le c with c | c
    · subst c
      cases up
      · simp only [Bool.false_eq_true, if_false]
        constructor
        · omega
        · intro _ hne; exact absurd rfl hne
      · have ⟨a, b⟩ := h4 rfl
        simp only [if_true]
        constructor
        · omega
        · intro heq _
          have : 2 * A = mag16 lo + mag16 (lo + 1) := by omega
          have := b this
          simp at this
          omega
    · rcases Nat.eq_or_lt_of_le (show lo + 1 ≤ H' from c) with c' | c'
      · subst c'
        cases up
        · have ⟨a, b⟩ := h3 rfl
          simp only [Bool.false_eq_true, if_false]
          constructor
          · omega
          · intro heq _
            have : 2 * A = mag16 lo + mag16 (lo + 1) := by omega
            have := b this
            simp at this
            omega
        · simp only [if_true]
          constructor
          · omega
          · intro _ hne; exact absurd rfl hne
      · have m1 := mag16_strict c'
        cases up
        · have ⟨a, b⟩ := h3 rfl
          simp only [Bool.false_eq_true, if_false]
          constructor
          · omega
          · intro; omega
        · have ⟨a, b⟩ := h4 rfl
          simp only [if_true]
          constructor
          · omega
          · intro; omega


/-! ### the three result classes of `f32ToF16` -/

theorem rn_normal (m par : Nat) (hpar : par % 2 = m / 8192 % 2) :
    Rn ((1024 + m / 8192) * 8192) (8388608 + m) ((1024 + m / 8192) * 8192 + 8192) (par % 2 == 0)
      (m / 4096 % 2 == 1 && (m % 4096 != 0 || m / 8192 % 2 == 1)) := by
  unfold Rn
  refine ⟨by omega, by omega, ?_, ?_⟩
  · intro h
    simp only [Bool.and_eq_false_imp, Bool.or_eq_false_iff, beq_iff_eq, bne_eq_false_iff_eq, beq_eq_false_iff_ne, ne_eq] at h
    constructor
    · omega
    · intro heq; simp only [beq_iff_eq]; omega
  · intro h
    simp only [Bool.and_eq_true, Bool.or_eq_true, beq_iff_eq, bne_iff_ne, ne_eq] at h
    constructor
    · omega
    · intro heq; simp only [beq_eq_false_iff_ne, ne_eq]; omega

theorem rn_sub (sh man : Nat) (h1 : 14 ≤ sh) (h2 : sh ≤ 24) (h3 : man < 16777216) :
    man / 2 ^ sh < 1024 ∧
    Rn (man / 2 ^ sh * 2 ^ sh) man ((man / 2 ^ sh + 1) * 2 ^ sh) (man / 2 ^ sh % 2 == 0)
      (man / 2 ^ (sh - 1) % 2 == 1 && (man % 2 ^ (sh - 1) != 0 || man / (2 * 2 ^ (sh - 1)) % 2 == 1)) := by
  have hcases : sh = 14 ∨ sh = 15 ∨ sh = 16 ∨ sh = 17 ∨ sh = 18 ∨ sh = 19 ∨ sh = 20 ∨ sh = 21 ∨
      sh = 22 ∨ sh = 23 ∨ sh = 24 := by omega
  unfold Rn
  rcases hcases with rfl | rfl | rfl | rfl | rfl | rfl | rfl | rfl | rfl | rfl | rfl <;>
  · simp only [Nat.reducePow, Nat.reduceSub, Nat.reduceMul]
    refine ⟨by omega, by omega, by omega, ?_, ?_⟩
    · intro h
      simp only [Bool.and_eq_false_imp, Bool.or_eq_false_iff, beq_iff_eq, bne_eq_false_iff_eq, beq_eq_false_iff_ne, ne_eq] at h
      constructor
      · omega
      · intro heq; simp only [beq_iff_eq]; omega
    · intro h
      simp only [Bool.and_eq_true, Bool.or_eq_true, beq_iff_eq, bne_iff_ne, ne_eq] at h
      constructor
      · omega
      · intro heq; simp only [beq_eq_false_iff_ne, ne_eq]; omega

theorem mag32f_tiny (e m : Nat) (he : e < 102) (hm : m < 8388608) :
    2 * mag32f e m < 2 ^ 125 := by
  unfold mag32f
  by_cases h0 : e = 0
  · simp only [h0, if_true, Nat.reducePow]; omega
  · simp only [h0, if_false]
    have a : 2 ^ (e - 1) ≤ 2 ^ 100 := Nat.pow_le_pow_right (by decide) (by omega)
    have b : (8388608 + m) * 2 ^ (e - 1) ≤ (8388608 + m) * 2 ^ 100 := Nat.mul_le_mul_left _ a
    have c : (8388608 + m) * 2 ^ 100 < 16777216 * 2 ^ 100 :=
      Nat.mul_lt_mul_of_pos_right (by omega) (Nat.pow_pos (by decide))
    generalize (8388608 + m) * 2 ^ (e - 1) = A at *
    simp only [Nat.reducePow] at *
    omega

/-- **the rounding decision of `f32ToF16` is correct in every class** (all finite inputs below
    the overflow exponent): the result is `lo` or `lo + 1` where `mag16 lo ≤ |x| < mag16 (lo+1)`,
    chosen to nearest, ties to even. -/
theorem rnd16_cell (e m : Nat) (he : e < 143) (hm : m < 8388608) :
    ∃ lo up, rnd16 e m = (if up = true then lo + 1 else lo) ∧
      Rn (mag16 lo) (mag32f e m) (mag16 (lo + 1)) (lo % 2 == 0) up := by
  by_cases hz : e < 102
  · -- underflow to zero
    refine ⟨0, false, ?_, ?_⟩
    · unfold rnd16
      have a1 : ¬ (e ≥ 143) := by omega
      have a2 : e ≤ 112 := by omega
      simp [a1, a2, hz]
    · have t := mag32f_tiny e m hz hm
      have e0 : mag16 0 = 0 := by decide
      have e1 : mag16 (0 + 1) = 2 ^ 125 := by rw [mag16_small 1 (by omega)]
      rw [e0, e1]
      unfold Rn
      refine ⟨by omega, by omega, ?_, ?_⟩
      · intro _; exact ⟨by omega, fun _ => by decide⟩
      · intro h; exact absurd h (by decide)
  · by_cases hs : e ≤ 112
    · -- subnormal result
      have hK : 0 < 2 ^ (e - 1) := Nat.pow_pos (by decide)
      obtain ⟨hlo, hrn⟩ := rn_sub (126 - e) (m + 8388608) (by omega) (by omega) (by omega)
      have hp : 2 ^ (126 - e) * 2 ^ (e - 1) = 2 ^ 125 := by
        rw [← Nat.pow_add]; rw [show 126 - e + (e - 1) = 125 by omega]
      refine ⟨(m + 8388608) / 2 ^ (126 - e),
        ((m + 8388608) / 2 ^ (126 - e - 1) % 2 == 1 &&
          ((m + 8388608) % 2 ^ (126 - e - 1) != 0 || (m + 8388608) / (2 * 2 ^ (126 - e - 1)) % 2 == 1)), ?_, ?_⟩
      rotate_left
      · have := hrn.scale (2 ^ (e - 1)) hK
        rw [Nat.mul_assoc, Nat.mul_assoc, hp] at this
        rw [mag16_small _ (by omega), mag16_small _ (by omega)]
        have hA : mag32f e m = (m + 8388608) * 2 ^ (e - 1) := by
          unfold mag32f
          have : ¬ (e = 0) := by omega
          simp only [this, if_false, Nat.add_comm]
        rw [hA]
        exact this
      · unfold rnd16
        have a1 : ¬ (e ≥ 143) := by omega
        simp only [a1, hs, hz, if_true, if_false]
    · -- normal result (possibly rounding up to the next binade, or to 0x7C00)
      have hK : 0 < 2 ^ (e - 1) := Nat.pow_pos (by decide)
      have hp : 2 ^ (e - 112 + 124) = 8192 * 2 ^ (e - 1) := by
        rw [show e - 112 + 124 = 13 + (e - 1) by omega, Nat.pow_add]
      have hrn := (rn_normal m ((e - 112) * 1024 + m / 8192) (by omega)).scale (2 ^ (e - 1)) hK
      refine ⟨(e - 112) * 1024 + m / 8192,
        (m / 4096 % 2 == 1 && (m % 4096 != 0 || m / 8192 % 2 == 1)), ?_, ?_⟩
      rotate_left
      · have l1 : ((e - 112) * 1024 + m / 8192) / 1024 = e - 112 := by omega
        have l2 : ((e - 112) * 1024 + m / 8192) % 1024 = m / 8192 := by omega
        have l3 : ¬ (e - 112 = 0) := by omega
        have hL : mag16 ((e - 112) * 1024 + m / 8192) = (1024 + m / 8192) * 8192 * 2 ^ (e - 1) := by
          unfold mag16
          simp only [l1, l2, l3, if_false, hp, Nat.mul_assoc]
        have hU : mag16 ((e - 112) * 1024 + m / 8192 + 1)
            = ((1024 + m / 8192) * 8192 + 8192) * 2 ^ (e - 1) := by
          rw [mag16_succ, hL]
          simp only [l1, l3, if_false, hp]
          exact (Nat.add_mul _ _ _).symm
        have hA : mag32f e m = (8388608 + m) * 2 ^ (e - 1) := by
          unfold mag32f
          have : ¬ (e = 0) := by omega
          simp only [this, if_false]
        rw [hL, hU, hA]
        exact hrn
      · unfold rnd16
        have a1 : ¬ (e ≥ 143) := by omega
        simp only [a1, hs, if_false]


/-! ### overflow threshold and the magnitude-level theorem -/

theorem mag16_max : mag16 0x7BFF = 65504 * 2 ^ 149 := by decide
theorem mag16_inf : mag16 0x7C00 = 65536 * 2 ^ 149 := by decide

theorem mag32f_lt_inf (e m : Nat) (he : e < 143) (hm : m < 8388608) : mag32f e m < 65536 * 2 ^ 149 := by
  unfold mag32f
  by_cases h0 : e = 0
  · simp only [h0, if_true, Nat.reducePow]; omega
  · simp only [h0, if_false]
    have a : 2 ^ (e - 1) ≤ 2 ^ 141 := Nat.pow_le_pow_right (by decide) (by omega)
    have b : (8388608 + m) * 2 ^ (e - 1) ≤ (8388608 + m) * 2 ^ 141 := Nat.mul_le_mul_left _ a
    have c : (8388608 + m) * 2 ^ 141 < 16777216 * 2 ^ 141 :=
      Nat.mul_lt_mul_of_pos_right (by omega) (Nat.pow_pos (by decide))
    generalize (8388608 + m) * 2 ^ (e - 1) = A at *
    simp only [Nat.reducePow] at *
    omega

theorem mag32f_ge_inf (e m : Nat) (he : 143 ≤ e) : 65536 * 2 ^ 149 ≤ mag32f e m := by
  unfold mag32f
  have h0 : ¬ (e = 0) := by omega
  simp only [h0, if_false]
  have a : 2 ^ 142 ≤ 2 ^ (e - 1) := Nat.pow_le_pow_right (by decide) (by omega)
  have b : 8388608 * 2 ^ 142 ≤ 8388608 * 2 ^ (e - 1) := Nat.mul_le_mul_left _ a
  have c : 8388608 * 2 ^ (e - 1) ≤ (8388608 + m) * 2 ^ (e - 1) := Nat.mul_le_mul_right _ (by omega)
  generalize (8388608 + m) * 2 ^ (e - 1) = A at *
  generalize 8388608 * 2 ^ (e - 1) = B at *
  simp only [Nat.reducePow] at *
  omega

/-- **round to nearest even, on magnitudes**, for every finite binary32 (`e < 255`). -/
theorem rne_mag (e m : Nat) (he : e < 255) (hm : m < 8388608) :
    rnd16 e m ≤ 0x7C00 ∧
    (65520 * 2 ^ 149 ≤ mag32f e m → rnd16 e m = 0x7C00) ∧
    (mag32f e m < 65520 * 2 ^ 149 → rnd16 e m < 0x7C00 ∧ ∀ H',
      ndist (mag16 (rnd16 e m)) (mag32f e m) ≤ ndist (mag16 H') (mag32f e m) ∧
      (ndist (mag16 (rnd16 e m)) (mag32f e m) = ndist (mag16 H') (mag32f e m) →
        H' ≠ rnd16 e m → rnd16 e m % 2 = 0)) := by
  by_cases ho : 143 ≤ e
  · have hR : rnd16 e m = 0x7C00 := by
      unfold rnd16; simp only [ge_iff_le, ho, if_true]
    have hA := mag32f_ge_inf e m ho
    refine ⟨by omega, fun _ => hR, fun h => ?_⟩
    exfalso
    generalize mag32f e m = A at *
    simp only [Nat.reducePow] at *
    omega
  · obtain ⟨lo, up, hR, hrn⟩ := rnd16_cell e m (by omega) hm
    have hA := mag32f_lt_inf e m (by omega) hm
    have hlo : lo ≤ 0x7BFF := by
      by_cases hc : 0x7C00 ≤ lo
      · exfalso
        have := mag16_mono hc
        rw [mag16_inf] at this
        have := hrn.1
        omega
      · omega
    have hnear := nearest_of_rn lo (mag32f e m) up hrn
    rw [← hR] at hnear
    have hup_of : 65520 * 2 ^ 149 ≤ mag32f e m → lo = 0x7BFF ∧ up = true := by
      intro hge
      have hlo' : lo = 0x7BFF := by
        by_cases hc : lo + 1 ≤ 0x7BFF
        · exfalso
          have := mag16_mono hc
          rw [mag16_max] at this
          have := hrn.2.1
          generalize mag32f e m = A at *
          simp only [Nat.reducePow] at *
          omega
        · omega
      refine ⟨hlo', ?_⟩
      subst hlo'
      cases up
      · exfalso
        have ⟨a, b⟩ := hrn.2.2.1 rfl
        rw [mag16_max, mag16_inf] at a b
        have : 2 * mag32f e m = 65504 * 2 ^ 149 + 65536 * 2 ^ 149 := by
          generalize mag32f e m = A at *
          simp only [Nat.reducePow] at *
          omega
        have := b this
        simp at this
      · rfl
    refine ⟨?_, ?_, ?_⟩
    · rw [hR]; split <;> omega
    · intro hge
      obtain ⟨h1, h2⟩ := hup_of hge
      rw [hR, h1, h2]; rfl
    · intro hlt
      refine ⟨?_, hnear⟩
      rw [hR]
      cases up
      · simp only [Bool.false_eq_true, if_false]; omega
      · simp only [if_true]
        apply Nat.lt_of_le_of_ne (by omega)
        intro hc
        have hlo' : lo = 0x7BFF := by omega
        subst hlo'
        have ⟨a, _⟩ := hrn.2.2.2 rfl
        rw [mag16_max, mag16_inf] at a
        generalize mag32f e m = A at *
        simp only [Nat.reducePow] at *
        omega


/-! ### from magnitudes (units of 2^-149) to the value semantics `val16` / `val32` -/

/-- distance `|v₁ − v₂|` between two finite values given as (negative?, magnitude). -/
def fdist (n1 : Bool) (a1 : Nat) (n2 : Bool) (a2 : Nat) : Nat :=
  if n1 = n2 then ndist a1 a2 else a1 + a2

theorem ndist_scale (a b K : Nat) : ndist (a * K) (b * K) = ndist a b * K := by
  unfold ndist
  rw [Nat.add_mul, Nat.sub_mul, Nat.sub_mul]

set_option exponentiation.threshold 1100 in
theorem pow1074 : (2 : Nat) ^ 1074 = 2 ^ 149 * 2 ^ 925 := Nat.pow_add 2 149 925

set_option exponentiation.threshold 1100 in
theorem val32_finite (s e m : Nat) (hs : s < 2) (he : e < 255) (hm : m < 8388608) :
    val32 (s * 2147483648 + e * 8388608 + m) = .finite (s == 1) (mag32f e m * 2 ^ 925) := by
  rw [val32_mk s e m hs (by omega) hm]
  have h1 : ¬ (e = 255) := by omega
  unfold mag32f
  simp only [h1, if_false]
  by_cases h0 : e = 0
  · simp only [h0, if_true]
  · simp only [h0, if_false]
    rw [Nat.mul_assoc, ← Nat.pow_add, show e - 1 + 925 = e + 924 by omega]

set_option exponentiation.threshold 1100 in
theorem val16_finite (s R : Nat) (hs : s < 2) (hR : R ≤ 0x7BFF) :
    val16 (s * 32768 + R) = .finite (s == 1) (mag16 R * 2 ^ 925) := by
  have hsplit : s * 32768 + R = s * 32768 + (R / 1024) * 1024 + R % 1024 := by omega
  rw [hsplit, val16_mk s (R / 1024) (R % 1024) hs (by omega) (by omega)]
  have h1 : ¬ (R / 1024 = 31) := by omega
  unfold mag16
  simp only [h1, if_false]
  by_cases h0 : R / 1024 = 0
  · simp only [h0, if_true]
    rw [Nat.mul_assoc, ← Nat.pow_add]
  · simp only [h0, if_false]
    rw [Nat.mul_assoc, ← Nat.pow_add, show R / 1024 + 124 + 925 = R / 1024 + 1049 by omega]

theorem val16_infinite (s : Nat) (hs : s < 2) : val16 (s * 32768 + 0x7C00) = .inf (s == 1) := by
  have := val16_mk s 31 0 hs (by omega) (by omega)
  simpa using this

/-- a binary16 pattern that denotes a finite value, in fields. -/
theorem val16_finite_inv (h' : Nat) (hh : h' < 65536) (n' : Bool) (b' : Nat)
    (hv : val16 h' = .finite n' b') :
    h' % 32768 ≤ 0x7BFF ∧ n' = (h' / 32768 == 1) ∧ b' = mag16 (h' % 32768) * 2 ^ 925 := by
  have hfin : h' % 32768 ≤ 0x7BFF := by
    by_cases he : h' / 1024 % 32 = 31
    · exfalso
      unfold val16 at hv
      simp only [he, beq_self_eq_true, if_true] at hv
      split at hv <;> cases hv
    · omega
  have hsplit : h' = (h' / 32768) * 32768 + h' % 32768 := by omega
  have := val16_finite (h' / 32768) (h' % 32768) (by omega) hfin
  rw [← hsplit, hv] at this
  injection this with h1 h2
  exact ⟨hfin, h1, h2⟩

set_option exponentiation.threshold 1100 in
theorem unit_le (A : Nat) (h : 65520 * 2 ^ 1074 ≤ A * 2 ^ 925) : 65520 * 2 ^ 149 ≤ A := by
  rw [pow1074, ← Nat.mul_assoc] at h
  exact Nat.le_of_mul_le_mul_right h (Nat.two_pow_pos 925)

set_option exponentiation.threshold 1100 in
theorem unit_lt (A : Nat) (h : A * 2 ^ 925 < 65520 * 2 ^ 1074) : A < 65520 * 2 ^ 149 := by
  rw [pow1074, ← Nat.mul_assoc] at h
  exact Nat.lt_of_mul_lt_mul_right h

/-- **round to nearest even, on values**, in fields. -/
theorem rne_fields (s e m : Nat) (hs : s < 2) (he : e < 255) (hm : m < 8388608) :
    ∃ neg a, val32 (s * 2147483648 + e * 8388608 + m) = .finite neg a ∧
      (65520 * 2 ^ 1074 ≤ a → val16 (f32ToF16 (s * 2147483648 + e * 8388608 + m)) = .inf neg) ∧
      (a < 65520 * 2 ^ 1074 → ∃ b,
        val16 (f32ToF16 (s * 2147483648 + e * 8388608 + m)) = .finite neg b ∧
        ∀ h', h' < 65536 → ∀ n' b', val16 h' = .finite n' b' →
          fdist neg b neg a ≤ fdist n' b' neg a ∧
          (fdist neg b neg a = fdist n' b' neg a →
            h' ≠ f32ToF16 (s * 2147483648 + e * 8388608 + m) →
            f32ToF16 (s * 2147483648 + e * 8388608 + m) % 2 = 0)) := by
  have hK : 0 < 2 ^ 925 := Nat.two_pow_pos 925
  obtain ⟨hle, hov, hfin⟩ := rne_mag e m he hm
  refine ⟨s == 1, mag32f e m * 2 ^ 925, val32_finite s e m hs he hm, ?_, ?_⟩
  · intro hge
    have := hov (unit_le _ hge)
    rw [f32ToF16_mk s e m hs he hm, this]
    exact val16_infinite s hs
  · intro hlt
    obtain ⟨hR, hnear⟩ := hfin (unit_lt _ hlt)
    rw [f32ToF16_mk s e m hs he hm]
    have hv16 := val16_finite s (rnd16 e m) hs (by omega)
    refine ⟨mag16 (rnd16 e m) * 2 ^ 925, ?_⟩
    constructor
    · exact hv16
    intro h' hh' n' b' hv
    obtain ⟨hH, hn, hb⟩ := val16_finite_inv h' hh' n' b' hv
    rw [hn, hb]
    clear hv hn hb
    have hsplit : h' = (h' / 32768) * 32768 + h' % 32768 := by omega
    have hs' : h' / 32768 < 2 := by omega
    generalize h' / 32768 = s' at *
    generalize h' % 32768 = H' at *
    obtain ⟨n1, n2⟩ := hnear H'
    unfold fdist
    simp only [if_true, ndist_scale]
    by_cases hsame : (s' == 1) = (s == 1)
    · have hss : s' = s := by
        have a : s = 0 ∨ s = 1 := by omega
        have b : s' = 0 ∨ s' = 1 := by omega
        rcases a with rfl | rfl <;> rcases b with rfl | rfl <;> simp at hsame <;> rfl
      simp only [hsame, if_true]
      refine ⟨Nat.mul_le_mul_right _ n1, fun heq hne => ?_⟩
      have h2 := n2 (Nat.eq_of_mul_eq_mul_right hK heq) (by omega)
      omega
    · simp only [hsame, if_false]
      have z := (hnear 0).1
      have z2 := (hnear 0).2
      have e0 : mag16 0 = 0 := by decide
      rw [e0] at z z2
      have hz : ndist 0 (mag32f e m) = mag32f e m := by unfold ndist; omega
      rw [hz] at z z2
      have zK := Nat.mul_le_mul_right (2 ^ 925) z
      constructor
      · omega
      · intro heq _
        have hb0 : ndist (mag16 (rnd16 e m)) (mag32f e m) * 2 ^ 925 = mag32f e m * 2 ^ 925 := by omega
        have := Nat.eq_of_mul_eq_mul_right hK hb0
        by_cases hr0 : rnd16 e m = 0
        · omega
        · have := z2 this (fun h => hr0 h.symm)
          omega


end Minicbor
