/-
  C09: the preferred tree of the documented item (`prefTree (specTy t v)`, whose bytes are the
  derived encoding by C08) is a re-framing in the sense of `rf` (Reframe.lean) — so the relation
  is inhabited for every schema and value, and `derive_decode_reframed` contains the round trip.
  Non-recursive parts; the mutual induction over the schema is in Thm/C09Round.lean.
-/
import Minicbor.Lemmas.DeriveReframe

namespace Minicbor.Derive

theorem untagW_pref (t : Option Nat) (x : Item) : untagW t (prefTree (tagI t x)) = some (prefTree x) := by
  cases t with
  | none => rfl
  | some n => simp [tagI, prefTree, untagW]

theorem prefTrees_get : ∀ (xs : List Item) (i : Nat), (prefTrees xs)[i]? = (xs[i]?).map prefTree
  | [], i => by simp [prefTrees]
  | x :: xs, 0 => by simp [prefTrees]
  | x :: xs, i + 1 => by simp [prefTrees, prefTrees_get xs i]

theorem prefTrees_map {α : Type} (f : α → Item) : ∀ (l : List α), prefTrees (l.map f) = l.map (fun a => prefTree (f a))
  | [] => rfl
  | a :: l => by simp [prefTrees, prefTrees_map f l]

/-- the preferred tree of every field's item is a re-framing of the field. -/
def FieldsPref : Fields → List Val → Prop
  | (a, t) :: fs, v :: vs =>
      (a.skip = false → rfWith a.codec (rf t) v (prefTree (specWith a.codec (specTy t) v)) = true) ∧ FieldsPref fs vs
  | _, _ => True

theorem FieldsPref_lookup : ∀ (fs : Fields) (vs : List Val) (i : Nat) (a : FAttr) (t : FTy) (v : Val),
    FieldsPref fs vs → lookupVal fs vs i = some (a, t, v) →
    rfWith a.codec (rf t) v (prefTree (specWith a.codec (specTy t) v)) = true
  | [], vs, _, _, _, _, _, h => by cases vs <;> simp [lookupVal] at h
  | (a', t') :: fs, [], _, _, _, _, _, h => by simp [lookupVal] at h
  | (a', t') :: fs, v' :: vs, i, a, t, v, hC, h => by
    simp only [lookupVal] at h
    split at h
    · rename_i hcond
      simp only [Bool.and_eq_true, Bool.not_eq_true', beq_iff_eq] at hcond
      cases h
      exact hC.1 hcond.1
    · exact FieldsPref_lookup fs vs i a t v hC.2 h

/-- `rfFields` from a per-index description of the cells. -/
theorem rfFields_intro (cell : Nat → Option WItem) : ∀ (fs : Fields) (vs : List Val), hasFields fs vs = true →
    (liveIdxs fs).Nodup →
    (∀ i a t v x, lookupVal fs vs i = some (a, t, v) → cell i = some x →
      ∃ y, untagW a.tag x = some y ∧ rfWith a.codec (rf t) v y = true) →
    rfFields fs vs cell = true
  | [], [], _, _, _ => rfl
  | (a, t) :: fs, v :: vs, hty, hnd, h => by
    simp only [hasFields, Bool.and_eq_true] at hty
    simp only [rfFields, Bool.and_eq_true, Bool.or_eq_true]
    cases hs : a.skip
    · have hnd' : a.idx ∉ liveIdxs fs ∧ (liveIdxs fs).Nodup := by simpa [liveIdxs, hs] using hnd
      refine ⟨Or.inr ?_, rfFields_intro cell fs vs hty.2 hnd'.2 ?_⟩
      · cases hc : cell a.idx with
        | none => rfl
        | some x =>
          obtain ⟨y, h1, h2⟩ := h a.idx a t v x (by simp [lookupVal, hs]) hc
          simp only [h1, h2]
      · intro i a' t' v' x hl hc
        apply h i a' t' v' x _ hc
        have hi : a.idx ≠ i := by
          intro e
          have := lookupVal_none_of_not_mem fs vs i (by rw [← e]; exact hnd'.1)
          rw [this] at hl; cases hl
        have hb : (a.idx == i) = false := by simpa using hi
        simp [lookupVal, hs, hb, hl]
    · have hnd' : (liveIdxs fs).Nodup := by simpa [liveIdxs, hs] using hnd
      refine ⟨Or.inl rfl, rfFields_intro cell fs vs hty.2 hnd' ?_⟩
      intro i a' t' v' x hl hc
      apply h i a' t' v' x _ hc
      simp [lookupVal, hs, hl]
  | [], _ :: _, h, _, _ => by simp [hasFields] at h
  | _ :: _, [], h, _, _ => by simp [hasFields] at h

/-- the cell of the documented array at a field's index is the field's (tagged) item. -/
theorem cellAt_lookup (fs : Fields) (vs : List Val) (hty : hasFields fs vs = true) (i : Nat) (a : FAttr) (t : FTy) (v : Val)
    (hl : lookupVal fs vs i = some (a, t, v)) :
    cellAt (specFields fs vs) i = tagI a.tag (specWith a.codec (specTy t) v) := by
  unfold cellAt
  rw [lookupVal_find fs vs i hty, hl]
  rfl

theorem cellAt_gap (fs : Fields) (vs : List Val) (hty : hasFields fs vs = true) (i : Nat) (hl : i ∉ liveIdxs fs) :
    cellAt (specFields fs vs) i = nullI := by
  unfold cellAt
  rw [lookupVal_find fs vs i hty, (lookupVal_none fs vs i hty).2 hl]
  rfl

/-- array bodies: the preferred tree of the documented array. -/
theorem body_pref_array (fs : Fields) (vs : List Val) (hty : hasFields fs vs = true) (hnd : (liveIdxs fs).Nodup)
    (hp : FieldsPref fs vs) :
    ∃ cell, bodyCells .array fs vs (prefTree (specArray (specFields fs vs))) = some cell ∧ rfFields fs vs cell = true := by
  have hbody : prefTree (specArray (specFields fs vs)) =
      .array (prefWidth (arrLen fs vs)) ((List.range (arrLen fs vs)).map fun i => prefTree (cellAt (specFields fs vs) i)) := by
    rw [specArray_eq]
    unfold arrLen
    cases maxPresent (specFields fs vs) with
    | none => rfl
    | some m => simp [prefTree, prefTrees_map]
  rw [hbody]
  generalize hL : ((List.range (arrLen fs vs)).map fun i => prefTree (cellAt (specFields fs vs) i)) = L
  have hlen : L.length = arrLen fs vs := by rw [← hL]; simp
  have hget : ∀ i, L[i]? = if i < arrLen fs vs then some (prefTree (cellAt (specFields fs vs) i)) else none := by
    intro i
    rw [← hL]
    by_cases hi : i < arrLen fs vs
    · simp [hi]
    · simp [hi]
  have hgaps : gapsNull fs L = true := by
    simp only [gapsNull, List.all_eq_true, hlen, List.mem_range, Bool.or_eq_true,
      List.contains_eq_mem, decide_eq_true_eq]
    intro i hi
    by_cases hm : i ∈ liveIdxs fs
    · exact Or.inl hm
    · right
      rw [hget i, if_pos hi, cellAt_gap fs vs hty i hm]
      rfl
  have hbc : bodyCells .array fs vs (.array (prefWidth (arrLen fs vs)) L) = some (fun i => L[i]?) := by
    simp only [bodyCells, arrItems, hlen, hgaps, beq_self_eq_true, Bool.and_self, if_true]
  refine ⟨_, hbc, ?_⟩
  apply rfFields_intro _ fs vs hty hnd
  intro i a t v x hl hc
  simp only [hget i] at hc
  split at hc
  · cases hc
    rw [cellAt_lookup fs vs hty i a t v hl]
    exact ⟨_, untagW_pref _ _, FieldsPref_lookup fs vs i a t v hp hl⟩
  · cases hc

/-- the entries of the documented map, as the relation reads them. -/
def prefEntries : List (Piece Item) → List (Nat × WItem × WItem)
  | [] => []
  | p :: ps =>
      (if p.nil then [] else [(p.idx, WItem.uint (prefWidth p.idx) p.idx, prefTree (tagI p.tag p.body))]) ++ prefEntries ps

theorem entriesW_pref : ∀ (S : List (Piece Item)), entriesW (prefTrees (entries S)) = some (prefEntries S)
  | [] => rfl
  | p :: ps => by
    cases hn : p.nil
    · simp [entries, prefEntries, hn, prefTrees, prefTree, entriesW, entriesW_pref ps]
    · simp [entries, prefEntries, hn, entriesW_pref ps]

theorem prefEntries_keys : ∀ (S : List (Piece Item)), (prefEntries S).map (·.1) = (S.filter fun p => !p.nil).map (·.idx)
  | [] => rfl
  | p :: ps => by
    cases hn : p.nil <;> simp [prefEntries, hn, prefEntries_keys ps]

theorem prefEntries_find : ∀ (S : List (Piece Item)) (i : Nat) (e : Nat × WItem × WItem),
    (prefEntries S).find? (fun q => q.1 == i) = some e →
    ∃ p ∈ S, p.nil = false ∧ p.idx = i ∧ e.2.2 = prefTree (tagI p.tag p.body)
  | [], _, _, h => by simp [prefEntries] at h
  | p :: ps, i, e, h => by
    cases hn : p.nil
    · simp only [prefEntries, hn, Bool.false_eq_true, if_false, List.singleton_append, List.find?_cons] at h
      split at h
      · rename_i hc
        cases h
        exact ⟨p, by simp, hn, by simpa using hc, rfl⟩
      · obtain ⟨q, hq, h1, h2, h3⟩ := prefEntries_find ps i e h
        exact ⟨q, by simp [hq], h1, h2, h3⟩
    · simp only [prefEntries, hn, if_true, List.nil_append] at h
      obtain ⟨q, hq, h1, h2, h3⟩ := prefEntries_find ps i e h
      exact ⟨q, by simp [hq], h1, h2, h3⟩

/-- map bodies: the preferred tree of the documented map. -/
theorem body_pref_map (fs : Fields) (vs : List Val) (hacc : acceptedFields fs = true) (hty : hasFields fs vs = true)
    (hnd : (liveIdxs fs).Nodup) (hp : FieldsPref fs vs) :
    ∃ cell, bodyCells .map fs vs (prefTree (specMap (specFields fs vs))) = some cell ∧ rfFields fs vs cell = true := by
  have nd : (idxs (specFields fs vs)).Nodup := by rw [C08.specFields_idxs fs vs hty]; exact hnd
  rw [C08.spec_map_shape _ nd]
  have hkeys : (prefEntries (sortP (specFields fs vs))).map (·.1) = presentIdxs fs vs := by
    rw [prefEntries_keys]
    unfold presentIdxs
    rw [C08.fields_spec fs vs hacc hty, sortP_map toBytes (fun _ => rfl)]
    simp [List.filter_map, Function.comp_def]
  have hbc : bodyCells .map fs vs (prefTree (Item.map (entries (sortP (specFields fs vs))))) =
      some (fun i => ((prefEntries (sortP (specFields fs vs))).find? (fun e => e.1 == i)).map (·.2.2)) := by
    simp only [bodyCells, prefTree, mapItems, entriesW_pref, hkeys, beq_self_eq_true, if_true]
  refine ⟨_, hbc, ?_⟩
  apply rfFields_intro _ fs vs hty hnd
  intro i a t v x hl hc
  cases hf : (prefEntries (sortP (specFields fs vs))).find? (fun e => e.1 == i) with
  | none => simp [hf] at hc
  | some e =>
    simp only [hf, Option.map_some, Option.some.injEq] at hc
    obtain ⟨p, hp1, _, hp3, hp4⟩ := prefEntries_find _ i e hf
    have hp1' : p ∈ specFields fs vs := (sortP_perm _).mem_iff.1 hp1
    -- `p` is the spec piece of the field with index `i`
    have hfind := lookupVal_find fs vs i hty
    rw [hl] at hfind
    simp only [Option.map_some] at hfind
    have hq := List.mem_of_find?_eq_some hfind
    have hinj : ∀ (l : List (Piece Item)), (idxs l).Nodup → ∀ x ∈ l, ∀ y ∈ l, x.idx = y.idx → x = y := by
      intro l
      induction l with
      | nil => intro _ x hx; simp at hx
      | cons z zs ih =>
        intro hn x hx y hy hxy
        have hn' : z.idx ∉ idxs zs ∧ (idxs zs).Nodup := List.nodup_cons.1 hn
        rcases List.mem_cons.1 hx with rfl | hx' <;> rcases List.mem_cons.1 hy with rfl | hy'
        · rfl
        · exact absurd (List.mem_map.2 ⟨y, hy', hxy.symm⟩) hn'.1
        · exact absurd (List.mem_map.2 ⟨x, hx', hxy⟩) hn'.1
        · exact ih hn'.2 x hx' y hy' hxy
    have hai := (lookupVal_mem fs vs i a t v hl).2.1
    have : p = ⟨a.idx, a.tag, specAbsent a v, specWith a.codec (specTy t) v⟩ :=
      hinj _ nd p hp1' _ hq (by rw [hp3, hai])
    subst this
    rw [← hc, hp4]
    exact ⟨_, untagW_pref _ _, FieldsPref_lookup fs vs i a t v hp hl⟩

theorem body_pref (enc : Encoding) (fs : Fields) (vs : List Val) (hacc : acceptedFields fs = true)
    (hty : hasFields fs vs = true) (hnd : (liveIdxs fs).Nodup) (hp : FieldsPref fs vs) :
    ∃ cell, bodyCells enc fs vs (prefTree (specBody enc (specFields fs vs))) = some cell ∧ rfFields fs vs cell = true := by
  cases enc
  · exact body_pref_array fs vs hty hnd hp
  · exact body_pref_map fs vs hacc hty hnd hp

theorem all2_pref (t : FTy) : ∀ (vs : List Val), (∀ v ∈ vs, rf t v (prefTree (specTy t v)) = true) →
    all2 (rf t) vs (prefTrees (vs.map (specTy t))) = true
  | [], _ => rfl
  | v :: vs, h => by
    simp only [List.map_cons, prefTrees, all2, Bool.and_eq_true]
    exact ⟨h v (by simp), all2_pref t vs (fun w hw => h w (by simp [hw]))⟩

theorem rfVars_pref (e : EAttr) : ∀ (vars : Variants) (k : Nat) (vs : List Val), acceptedVars e vars = true →
    hasVars vars k vs = true → FieldsPref (nthFields vars k) vs →
    rfVars e vars k vs (prefTree (specVars e vars k vs)) = true
  | [], _, _, _, hv, _ => by simp [hasVars] at hv
  | (va, fs) :: rest, 0, vs, ha, hv, hp => by
    simp only [acceptedVars, Bool.and_eq_true, decide_eq_true_eq] at ha
    simp only [hasVars] at hv
    obtain ⟨⟨⟨⟨⟨⟨_, _⟩, hacc⟩, hnd⟩, hunit⟩, hio⟩, _⟩ := ha
    simp only [nthFields] at hp
    simp only [rfVars, specVars]
    cases hix : e.indexOnly
    · simp only [Bool.false_eq_true, if_false, prefTree, prefTrees, pairItems, isUintW, beq_self_eq_true, Bool.true_and, untagW_pref]
      cases hsh : va.shape
      · cases (va.enc.getD (e.enc.getD .array)) <;> rfl
      all_goals
        obtain ⟨cell, h1, h2⟩ := body_pref (va.enc.getD (e.enc.getD .array)) fs vs hacc hv (C08.nodupNat_nodup _ hnd) hp
        simp only [h1, h2]
    · simp [prefTree, isUintW]
  | (va, fs) :: rest, k + 1, vs, ha, hv, hp => by
    simp only [acceptedVars, Bool.and_eq_true] at ha
    simp only [hasVars] at hv
    simp only [nthFields] at hp
    simp only [rfVars, specVars]
    exact rfVars_pref e rest k vs ha.2 hv hp

end Minicbor.Derive
