/-
  Commutation of `try_insert` on the codec cluster (`insertCl`): for two values of different kinds,
  other than the two order-sensitive pairs (`is_nil` with a bare `encode_with`, `nil` with a bare
  `decode_with`), inserting them in either order gives the same map or fails both times.
  Brute force over the constructors of the two values and of the five slots; no automation beyond
  `simp` on fully split goals.
-/
import Minicbor.Attrs

namespace Minicbor.Attrs

/-- both fail, or both succeed with the same result. -/
def Eqv {α : Type} (r1 r2 : Except Err α) : Prop :=
  (∃ e1 e2, r1 = .error e1 ∧ r2 = .error e2) ∨ (∃ a, r1 = .ok a ∧ r2 = .ok a)

theorem Eqv.refl {α : Type} (r : Except Err α) : Eqv r r := by
  cases r with
  | error e => exact Or.inl ⟨e, e, rfl, rfl⟩
  | ok a => exact Or.inr ⟨a, rfl, rfl⟩

theorem Eqv.symm {α : Type} {r1 r2 : Except Err α} (h : Eqv r1 r2) : Eqv r2 r1 := by
  rcases h with ⟨e1, e2, h1, h2⟩ | ⟨a, h1, h2⟩
  · exact Or.inl ⟨e2, e1, h2, h1⟩
  · exact Or.inr ⟨a, h2, h1⟩

theorem Eqv.trans {α : Type} {r1 r2 r3 : Except Err α} (h : Eqv r1 r2) (h' : Eqv r2 r3) : Eqv r1 r3 := by
  rcases h with ⟨e1, e2, h1, h2⟩ | ⟨a, h1, h2⟩ <;> rcases h' with ⟨e3, e4, h3, h4⟩ | ⟨b, h3, h4⟩
  · exact Or.inl ⟨e1, e4, h1, h4⟩
  · rw [h2] at h3; cases h3
  · rw [h2] at h3; cases h3
  · rw [h2] at h3; cases h3; exact Or.inr ⟨a, h1, h4⟩

theorem Eqv.err {α : Type} (e1 e2 : Err) : Eqv (.error e1 : Except Err α) (.error e2) := Or.inl ⟨e1, e2, rfl, rfl⟩
theorem Eqv.ok {α : Type} (a : α) : Eqv (.ok a : Except Err α) (.ok a) := Or.inr ⟨a, rfl, rfl⟩

def twoCl (c : Cl) (v w : Val) : Except Err Cl :=
  match insertCl c v with
  | .error e => .error e
  | .ok c' => insertCl c' w

/-- the two order-sensitive pairs. -/
def Bad : Val → Val → Prop
  | .isNil _, .codec (.enc _ _) => True
  | .codec (.enc _ _), .isNil _ => True
  | .nil _, .codec (.dec _ _) => True
  | .codec (.dec _ _), .nil _ => True
  | _, _ => False

set_option hygiene false in
/-- every constructor combination of the five slots. -/
macro "split_cl" : tactic => `(tactic|
  (rcases codec with _ | ⟨e0, _ | n0⟩ | ⟨d0, _ | m0⟩ | ⟨e0, _ | n0, d0, _ | m0⟩ | ⟨p0, _ | _⟩ <;>
   cases nil <;> cases isNil <;> cases hasNil <;> cases cborLen))

macro "fin_cl" : tactic => `(tactic| simp [twoCl, insertCl, CC.isModule, Eqv])

set_option maxHeartbeats 4000000 in
theorem swap_codec_isNil (c : Cl) (cc : CC) (z : Path) (h : ∀ e n, cc ≠ .enc e n) :
    Eqv (twoCl c (.codec cc) (.isNil z)) (twoCl c (.isNil z) (.codec cc)) := by
  obtain ⟨codec, nil, isNil, hasNil, cborLen⟩ := c
  rcases cc with ⟨e, _ | n⟩ | ⟨d, _ | m⟩ | ⟨e, _ | n, d, _ | m⟩ | ⟨p, _ | _⟩
  all_goals (try (exact absurd rfl (h _ _)))
  all_goals (split_cl <;> fin_cl)

set_option maxHeartbeats 4000000 in
theorem swap_codec_nil (c : Cl) (cc : CC) (z : Path) (h : ∀ d m, cc ≠ .dec d m) :
    Eqv (twoCl c (.codec cc) (.nil z)) (twoCl c (.nil z) (.codec cc)) := by
  obtain ⟨codec, nil, isNil, hasNil, cborLen⟩ := c
  rcases cc with ⟨e, _ | n⟩ | ⟨d, _ | m⟩ | ⟨e, _ | n, d, _ | m⟩ | ⟨p, _ | _⟩
  all_goals (try (exact absurd rfl (h _ _)))
  all_goals (split_cl <;> fin_cl)

set_option maxHeartbeats 4000000 in
theorem swap_codec_hasNil (c : Cl) (cc : CC) :
    Eqv (twoCl c (.codec cc) .hasNil) (twoCl c .hasNil (.codec cc)) := by
  obtain ⟨codec, nil, isNil, hasNil, cborLen⟩ := c
  rcases cc with ⟨e, _ | n⟩ | ⟨d, _ | m⟩ | ⟨e, _ | n, d, _ | m⟩ | ⟨p, _ | _⟩
  all_goals (split_cl <;> fin_cl)

set_option maxHeartbeats 4000000 in
theorem swap_codec_cborLen (c : Cl) (cc : CC) (q : Path) :
    Eqv (twoCl c (.codec cc) (.cborLen q)) (twoCl c (.cborLen q) (.codec cc)) := by
  obtain ⟨codec, nil, isNil, hasNil, cborLen⟩ := c
  rcases cc with ⟨e, _ | n⟩ | ⟨d, _ | m⟩ | ⟨e, _ | n, d, _ | m⟩ | ⟨p, _ | _⟩
  all_goals (split_cl <;> fin_cl)

end Minicbor.Attrs
