/-
  C10, general case: per type constructor, what the reader's decoder does on the writer's
  encoding (`TyC`), as non-recursive lemmas; the mutual induction over the schema that ties them
  together is in Thm/C10.lean.
-/
import Minicbor.Lemmas.DeriveCompat2
import Minicbor.Thm.C09Round

namespace Minicbor.Derive
open Minicbor.Dec

/-- the reader's decoder (type `r`) on the writer's encoding (type `w`) of `v`: it delivers the
    documented projection; where the projection is "unknown variant" the position is lenient and
    the decoder reports an unknown-variant error (which the enclosing optional field swallows). -/
structure TyC (l : Bool) (w r : FTy) (v : Val) : Prop where
  ok  : ∀ x, projTy w r v = .ok x → ∀ rest, decTy r (encTy w v ++ rest) = .ok x rest
  unk : projTy w r v = .unknown → l = true ∧ ∀ rest, ∃ r', decTy r (encTy w v ++ rest) = .err .variant r'

/-! ### leaves -/

theorem tyC_int (k k' : IntK) (l : Bool) (v : Val) (hc : compatTy l (.int k) (.int k') = true)
    (hv : hasTy (.int k) v = true) : TyC l (.int k) (.int k') v := by
  have hk : k = k' := by simpa [compatTy] using hc
  subst hk
  cases v <;> simp [hasTy] at hv
  rename_i i
  constructor
  · intro x hx rest
    simp only [projTy] at hx
    cases hx
    simp only [encTy, decTy, Dec.bind_run, int_rt k _ rest hv]; rfl
  · intro h; simp [projTy] at h

theorem tyC_bool (l : Bool) (v : Val) (hv : hasTy .bool v = true) : TyC l .bool .bool v := by
  cases v <;> simp [hasTy] at hv
  constructor
  · intro x hx rest
    simp only [projTy] at hx
    cases hx
    simp only [encTy, decTy, Dec.bind_run, bool_enc]; rfl
  · intro h; simp [projTy] at h

theorem tyC_text (k k' : TextK) (l : Bool) (v : Val) (hv : hasTy (.text k) v = true) : TyC l (.text k) (.text k') v := by
  cases v <;> simp [hasTy] at hv
  constructor
  · intro x hx rest
    simp only [projTy] at hx
    cases hx
    simp only [encTy, decTy, Dec.bind_run, str_enc _ rest (by simpa [U64] using hv.2) hv.1]; rfl
  · intro h; simp [projTy] at h

theorem tyC_blob (k k' : BlobK) (l : Bool) (v : Val) (hv : hasTy (.blob k) v = true) : TyC l (.blob k) (.blob k') v := by
  cases v <;> simp [hasTy] at hv
  constructor
  · intro x hx rest
    simp only [projTy] at hx
    cases hx
    simp only [encTy, decTy, Dec.bind_run, bytes_enc _ rest (by simpa [U64] using hv)]; rfl
  · intro h; simp [projTy] at h

/-! ### `Option` -/

theorem optionDec_err (dec : Dec Val) (bs rest r' : Bytes) (e : Err) (hs : startOk bs = true)
    (hd : dec (bs ++ rest) = .err e r') : optionDec dec (bs ++ rest) = .err e r' := by
  obtain ⟨ty, h1, h2⟩ := datatype_startOk bs rest hs
  simp only [optionDec]
  rw [Dec.bind_run, h1]
  have : (ty == CType.null) = false := by simpa using h2
  simp only [this, Bool.false_eq_true, if_false]
  rw [Dec.bind_run, hd]

theorem tyC_option_none (l : Bool) (w r : FTy) : TyC l (.option w) (.option r) .none := by
  constructor
  · intro x hx rest
    simp only [projTy] at hx
    cases hx
    simp only [encTy, decTy]; exact optionDec_none _ rest
  · intro h; simp [projTy] at h

theorem tyC_option_some (l : Bool) (w r : FTy) (v : Val) (hs : startOk (encTy w v) = true) (h : TyC l w r v) :
    TyC l (.option w) (.option r) (.some v) := by
  constructor
  · intro x hx rest
    simp only [projTy] at hx
    cases hp : projTy w r v with
    | ok y =>
      rw [hp] at hx; simp only at hx; cases hx
      simp only [encTy, decTy]
      exact optionDec_some _ _ _ _ hs (h.ok y hp rest)
    | unknown => rw [hp] at hx; simp at hx
    | bad => rw [hp] at hx; simp at hx
  · intro hu
    simp only [projTy] at hu
    cases hp : projTy w r v with
    | ok y => rw [hp] at hu; simp at hu
    | unknown =>
      obtain ⟨hl, herr⟩ := h.unk hp
      refine ⟨hl, fun rest => ?_⟩
      obtain ⟨r', hr'⟩ := herr rest
      exact ⟨r', by simp only [encTy, decTy]; exact optionDec_err _ _ _ _ _ hs hr'⟩
    | bad => rw [hp] at hu; simp at hu

/-- byte-string fields (the kinds that exist only through `with = "minicbor::bytes"` included). -/
theorem tyC_fieldBlob (l : Bool) (t u : FTy) (v : Val) (hb : fieldBlob t = true) (hc : compatTy l t u = true)
    (hv : hasTy t v = true) (hcl : C09.noClash t v = true) : TyC l t u v := by
  cases t with
  | blob k =>
    cases u <;> simp [compatTy] at hc
    exact tyC_blob _ _ l v hv
  | option t' =>
    cases t' <;> simp [fieldBlob] at hb
    rename_i k
    cases u <;> simp [compatTy] at hc
    rename_i u'
    cases u' <;> simp [compatTy] at hc
    cases v <;> simp [hasTy] at hv
    · exact tyC_option_none l _ _
    · rename_i x
      simp only [C09.noClash, Bool.and_eq_true] at hcl
      exact tyC_option_some l _ _ x hcl.1 (tyC_blob _ _ l x hv)
  | _ => simp [fieldBlob] at hb

theorem fieldBlob_of_compat (l : Bool) (t u : FTy) (hc : compatTy l t u = true) (hb : fieldBlob u = true) :
    fieldBlob t = true := by
  cases u with
  | blob k => cases t <;> simp [compatTy] at hc; rfl
  | option u' =>
    cases u' <;> simp [fieldBlob] at hb
    cases t <;> simp [compatTy] at hc
    rename_i t'
    cases t' <;> simp [compatTy] at hc
    rfl
  | _ => simp [fieldBlob] at hb

/-! ### `Vec` -/

theorem mapPRes_cons (p : PRes) (ps : List PRes) :
    mapPRes (p :: ps) =
      (match p, mapPRes ps with
       | .ok v, .ok (.list vs) => .ok (.list (v :: vs))
       | .unknown, .ok _ => .unknown
       | .ok _, .unknown => .unknown
       | .unknown, .unknown => .unknown
       | _, _ => .bad) := rfl

theorem mapPRes_ok : ∀ (ps : List PRes) (y : Val), mapPRes ps = .ok y → ∃ ys, y = .list ys ∧ All2 (fun p x => p = PRes.ok x) ps ys
  | [], y, h => by
    simp only [mapPRes] at h
    cases h
    exact ⟨[], rfl, All2.nil⟩
  | p :: ps, y, h => by
    rw [mapPRes_cons] at h
    cases hp : p with
    | ok v =>
      cases ha : mapPRes ps with
      | ok z =>
        obtain ⟨vs, rfl, hF⟩ := mapPRes_ok ps z ha
        rw [hp, ha] at h
        simp only at h
        cases h
        exact ⟨v :: vs, rfl, All2.cons rfl hF⟩
      | unknown => rw [hp, ha] at h; simp at h
      | bad => rw [hp, ha] at h; simp at h
    | unknown => cases ha : mapPRes ps <;> rw [hp, ha] at h <;> simp at h
    | bad => cases ha : mapPRes ps <;> rw [hp, ha] at h <;> simp at h

theorem mapPRes_ne_unknown : ∀ (ps : List PRes), (∀ p ∈ ps, p ≠ .unknown) → mapPRes ps ≠ .unknown
  | [], _ => by simp [mapPRes]
  | p :: ps, h => by
    have ih := mapPRes_ne_unknown ps (fun q hq => h q (by simp [hq]))
    have h0 := h p (by simp)
    rw [mapPRes_cons]
    cases hp : p with
    | ok v =>
      cases ha : mapPRes ps with
      | ok z => cases z <;> simp
      | unknown => exact absurd ha ih
      | bad => simp
    | unknown => exact absurd hp h0
    | bad => cases ha : mapPRes ps <;> simp

theorem vecLoopN_proj (dec : Dec Val) (enc : Val → Bytes) (proj : Val → PRes) :
    ∀ (vs : List Val) (ys : List Val) (rest : Bytes),
    (∀ v ∈ vs, ∀ x, proj v = .ok x → ∀ r, dec (enc v ++ r) = .ok x r) →
    All2 (fun p x => p = PRes.ok x) (vs.map proj) ys →
    vecLoopN dec vs.length ((vs.map enc).flatten ++ rest) = .ok ys rest
  | [], ys, rest, _, h => by
    cases h
    simp [vecLoopN]
  | v :: vs, ys, rest, hd, h => by
    cases h with
    | cons hx hrest =>
      rename_i x xs
      have ih := vecLoopN_proj dec enc proj vs xs rest (fun w hw => hd w (by simp [hw])) hrest
      simp only [List.length_cons, vecLoopN, List.map_cons, List.flatten_cons, List.append_assoc, Dec.bind_run,
        hd v (by simp) x hx, ih]
      rfl

theorem flatten_mem_length {α : Type} : ∀ (l : List (List α)) (x : List α), x ∈ l → x.length ≤ l.flatten.length
  | [], _, h => by simp at h
  | y :: ys, x, h => by
    simp only [List.flatten_cons, List.length_append]
    rcases List.mem_cons.1 h with rfl | h
    · omega
    · have := flatten_mem_length ys x h; omega

theorem tyC_vec (l : Bool) (w r : FTy) (vs : List Val) (hl : vs.length < U64)
    (h : ∀ v ∈ vs, TyC false w r v) : TyC l (.vec w) (.vec r) (.list vs) := by
  constructor
  · intro x hx rest
    simp only [projTy] at hx
    obtain ⟨ys, rfl, hF⟩ := mapPRes_ok _ _ hx
    have := vecLoopN_proj (decTy r) (encTy w) (projTy w r) vs ys rest (fun v hv x hx r' => (h v hv).ok x hx r') hF
    simp only [encTy, decTy, vecDec, Dec.bind_run, List.append_assoc, array_enc vs.length _ (by simpa [U64] using hl), this]
    rfl
  · intro hu
    simp only [projTy] at hu
    exfalso
    refine mapPRes_ne_unknown _ ?_ hu
    intro p hp e
    obtain ⟨v, hv, rfl⟩ := List.mem_map.1 hp
    have := ((h v hv).unk e).1
    cases this

/-! ### the codec of a field -/

theorem itemC_of_tyC (l : Bool) (a : FAttr) (t : FTy) (v : Val) (b : FAttr) (u : FTy)
    (hcod : (a.codec == .nilu) = (b.codec == .nilu)) (hcW : codecOk a.codec t = true) (hcR : codecOk b.codec u = true)
    (hv : hasTy t v = true) (hct : compatTy l t u = true) (h : a.codec ≠ .nilu → TyC l t u v) : ItemC l a t v b u := by
  by_cases hn : a.codec = .nilu
  · have hn' : b.codec = .nilu := by
      rw [hn] at hcod
      simpa using hcod.symm
    rw [hn] at hcW
    rw [hn'] at hcR
    have ht : t = .int .u32 := by
      cases t <;> simp [codecOk] at hcW
      rename_i k; cases k <;> simp [codecOk] at hcW; rfl
    have hu : u = .int .u32 := by
      cases u <;> simp [codecOk] at hcR
      rename_i k; cases k <;> simp [codecOk] at hcR; rfl
    subst ht hu
    cases v <;> simp [hasTy] at hv
    rename_i i
    constructor
    · intro x hx r
      simp only [projTy] at hx
      cases hx
      rw [hn, hn']
      exact nilu_rt i r hv (decTy (.int .u32)) (encTy (.int .u32))
    · intro hu; simp [projTy] at hu
  · have hn' : b.codec ≠ .nilu := by
      intro e
      rw [e] at hcod
      have : a.codec = .nilu := by simpa using hcod
      exact hn this
    have hT := h hn
    have e1 : ∀ x, decWith b.codec (decTy u) x = decTy u x := by
      intro x; cases hb : b.codec <;> simp [decWith] ; exact absurd hb hn'
    have e2 : encWith a.codec (encTy t) v = encTy t v := by
      cases ha : a.codec <;> simp [encWith] ; exact absurd ha hn
    constructor
    · intro x hx r
      rw [e1, e2]; exact hT.ok x hx r
    · intro hu
      obtain ⟨h1, h2⟩ := hT.unk hu
      refine ⟨h1, fun r => ?_⟩
      obtain ⟨r', hr'⟩ := h2 r
      exact ⟨r', by rw [e1, e2]; exact hr'⟩

/-! ### structs -/

theorem maxPresent_enc_spec (fs : Fields) (vs : List Val) (hacc : acceptedFields fs = true) (hty : hasFields fs vs = true) :
    maxPresent (encFields fs vs) = maxPresent (specFields fs vs) := by
  rw [C08.fields_spec fs vs hacc hty]
  exact maxPresent_map toBytes (fun _ => rfl) (fun _ => rfl) _

/-- under the schema-level relation no shared field projects to "unknown variant" unswallowed. -/
theorem assemble_proj_ne_unknown (fs : Fields) (vs : List Val) (gs : Fields) (hndW : (liveIdxs fs).Nodup)
    (hndR : (liveIdxs gs).Nodup) (hitems : FieldsC gs fs vs) : assemble gs (projFields fs gs vs) ≠ .unknown := by
  apply assemble_ne_unknown
  intro g hg
  obtain ⟨b, u⟩ := g
  cases hbs : b.skip
  · cases hl : lookupVal fs vs b.idx with
    | none =>
      rw [hereOf_ronly fs vs gs hndW b u hbs hl]
      unfold nilOrBad; cases nilOf b u <;> simp
    | some y =>
      obtain ⟨a, t, v⟩ := y
      rw [hereOf_shared fs vs gs hndW hndR b u hg hbs a t v hl]
      have hf := findField_of_mem gs b u hndR hg hbs
      unfold pOf
      by_cases hnil : isNilField a t v = true
      · rw [if_pos hnil]; unfold nilOrBad; cases nilOf b u <;> simp
      · rw [if_neg hnil]
        have hnil' : isNilField a t v = false := by simpa using hnil
        cases hp : projTy t u v with
        | ok x => simp
        | bad => simp
        | unknown =>
          have hI := FieldsC_lookup gs fs vs b.idx a t v b u hitems hl hnil' hf
          have := (hI.2 hp).1
          simp only [swallows_eq, this, if_true]
          unfold nilOrBad; cases nilOf b u <;> simp
  · simp [hereOf, hbs]

/-- **a struct read by a compatible version** (not transparent). -/
theorem tyC_struct (l : Bool) (a b : SAttr) (fs gs : Fields) (vs : List Val)
    (hta : a.transparent = false) (htb : b.transparent = false) (htag : a.tag = b.tag) (htok : tagOk a.tag = true)
    (henc : a.enc.getD .array = b.enc.getD .array)
    (H : BodyHyp (a.enc.getD .array) fs vs gs) : TyC l (.struct a fs) (.struct b gs) (.struct vs) := by
  constructor
  · intro x hx rest
    simp only [projTy, hta, Bool.false_eq_true, if_false] at hx
    obtain ⟨xs, rfl, _⟩ := assemble_ok gs _ _ hx
    have hb := body_compat (a.enc.getD .array) fs vs gs rest xs H hx
    simp only [encTy, decTy, structDec, hta, htb, Bool.false_eq_true, if_false, List.append_assoc]
    rw [Dec.bind_run, ← htag, tagCheck_rt _ _ htok]
    simp only []
    rw [Dec.bind_run, ← henc, hb]
    rfl
  · intro hu
    simp only [projTy, hta, Bool.false_eq_true, if_false] at hu
    exact absurd hu (assemble_proj_ne_unknown fs vs gs H.ndW H.ndR H.items)

/-! ### enums -/

theorem findVariant_findVar (e : EAttr) : ∀ (us : Variants) (p i pos : Nat) (vb : VAttr) (gs : Fields),
    findVar us p i = some (pos, vb, gs) →
    ∀ bs, findVariant (decVars e us) p i bs = (do let vs ← varBody e vb gs; pure (Val.enum pos vs) : Dec Val) bs
  | [], _, _, _, _, _, h => by simp [findVar] at h
  | (va, fs) :: rest, p, i, pos, vb, gs, h => by
    intro bs
    simp only [findVar] at h
    rw [decVars_cons]
    simp only [findVariant]
    split at h
    · rename_i hc
      cases h
      simp only [hc, if_true]
    · rename_i hc
      simp only [hc, if_false]
      exact findVariant_findVar e rest (p + 1) i pos vb gs h bs

theorem findVar_none : ∀ (us : Variants) (p i : Nat), findVar us p i = none → i ∉ us.map (·.1.idx)
  | [], _, _, _ => by simp
  | (va, fs) :: rest, p, i, h => by
    simp only [findVar] at h
    split at h
    · cases h
    · rename_i hc
      have := findVar_none rest (p + 1) i h
      simp only [List.map_cons, List.mem_cons, not_or]
      exact ⟨fun e => hc (by simp [e]), this⟩

theorem findVar_mem : ∀ (us : Variants) (p i pos : Nat) (vb : VAttr) (gs : Fields),
    findVar us p i = some (pos, vb, gs) → (vb, gs) ∈ us ∧ vb.idx = i
  | [], _, _, _, _, _, h => by simp [findVar] at h
  | (va, fs) :: rest, p, i, pos, vb, gs, h => by
    simp only [findVar] at h
    split at h
    · rename_i hc
      cases h
      exact ⟨by simp, by simpa using hc⟩
    · obtain ⟨h1, h2⟩ := findVar_mem rest (p + 1) i pos vb gs h
      exact ⟨by simp [h1], h2⟩

theorem encOf_variant (ve ee : Option Encoding) : encOf (ve <|> ee) = ve.getD (ee.getD .array) := by
  cases ve <;> rfl

theorem frame_nil (enc : Encoding) : frame enc [] = emptyBody enc := by
  cases enc <;> rfl

/-- `skip()` gets across a whole struct / variant body. -/
theorem skip_frame (enc : Encoding) (fs : Fields) (vs : List Val) (hacc : acceptedFields fs = true)
    (hnd : (liveIdxs fs).Nodup) (hty : hasFields fs vs = true) (hl : (frame enc (encFields fs vs)).length < 2 ^ 64)
    (r : Bytes) : Dec.skip true (frame enc (encFields fs vs) ++ r) = .ok () r := by
  have nd : (idxs (specFields fs vs)).Nodup := by rw [C08.specFields_idxs fs vs hty]; exact hnd
  rw [C08.fields_spec fs vs hacc hty, frame_spec enc _ nd (C08.specFields_ok fs vs hacc)] at hl ⊢
  exact skip_encPref _ r (pv_specBody enc _ (specFields_valid fs vs hacc hty)) hl

/-- the data a variant row of the writer meets in the reader. -/
structure RowHyp (a b : EAttr) (va : VAttr) (fs : Fields) (fvs : List Val) (us : Variants) : Prop where
  io    : a.indexOnly = b.indexOnly
  tagW  : tagOk va.tag = true
  accW  : acceptedFields fs = true
  ndW   : (liveIdxs fs).Nodup
  unitW : va.shape = .unit → fs = []
  ioW   : a.indexOnly = true → va.shape = .unit
  accR  : acceptedVars b us = true
  ty    : hasFields fs fvs = true
  len   : (frame (va.enc.getD (a.enc.getD .array)) (encFields fs fvs)).length < 2 ^ 64

/-- what the writer's row writes after the variant index. -/
def rowOf (e : EAttr) (va : VAttr) (fs : Fields) (vs : List Val) : Bytes :=
  match va.shape with
  | .unit => if e.indexOnly then [] else tagBytes va.tag ++ emptyBody (va.enc.getD (e.enc.getD .array))
  | _ => tagBytes va.tag ++ frame (va.enc.getD (e.enc.getD .array)) (encFields fs vs)

/-- **a variant row read by a compatible version**: known variant — unit reader variant (body
    skipped), unit writer variant read by a reader variant with only optional fields (all nil),
    or fields against fields (`body_compat`); unknown variant — an unknown-variant error. -/
theorem row_compat (l : Bool) (a b : EAttr) (va : VAttr) (fs : Fields) (rest0 : Variants) (us : Variants) (fvs : List Val)
    (H : RowHyp a b va fs fvs us)
    (hcv : (match findVar us 0 va.idx with
       | none => l
       | some (_, vb, gs) =>
           va.tag == vb.tag &&
           (match vb.shape with
            | .unit => true
            | _ =>
              encOf (va.enc <|> a.enc) == encOf (vb.enc <|> b.enc) &&
              (match va.shape with
               | .unit => allOptional gs
               | _ => compatFields fs gs && onlyOptional gs fs))) = true)
    (hben : (match findVar us 0 va.idx with
       | none => true
       | some (_, vb, gs) =>
           (match vb.shape, va.shape with
            | .unit, _ => true
            | _, .unit => true
            | _, _ => benignFields true fs gs fvs
                && !(true && encOf (va.enc <|> a.enc) == .array && k5Hit gs fs (piecesMax (encFields fs fvs))))) = true)
    (hitems : ∀ gs, acceptedFields gs = true → (liveIdxs gs).Nodup → compatFields fs gs = true →
      benignFields true fs gs fvs = true → FieldsC gs fs fvs) :
    (∀ x, projVars ((va, fs) :: rest0) us 0 fvs = .ok x → ∀ r,
      findVariant (decVars b us) 0 va.idx (rowOf a va fs fvs ++ r) = .ok x r) ∧
    (projVars ((va, fs) :: rest0) us 0 fvs = .unknown → l = true ∧ ∀ r, ∃ r',
      findVariant (decVars b us) 0 va.idx (rowOf a va fs fvs ++ r) = .err .variant r') := by
  cases hfv : findVar us 0 va.idx with
  | none =>
    rw [hfv] at hcv
    simp only at hcv
    constructor
    · intro x hx; simp [projVars, hfv] at hx
    · intro _
      refine ⟨hcv, fun r => ⟨_, C09.findVariant_unknown (decVars b us) 0 va.idx _ ?_⟩⟩
      intro vd hvd e
      exact findVar_none us 0 va.idx hfv (by rw [← e]; exact C09.decVars_idx b us vd hvd)
  | some y =>
    obtain ⟨pos, vb, gs⟩ := y
    rw [hfv] at hcv
    simp only [Bool.and_eq_true, beq_iff_eq] at hcv
    obtain ⟨hm, _⟩ := findVar_mem us 0 va.idx pos vb gs hfv
    obtain ⟨_, htagR, haccR, hndR, hunitR, hioR⟩ := acceptedVars_mem b us vb gs H.accR hm
    have hfind := findVariant_findVar b us 0 va.idx pos vb gs hfv
    have htag : va.tag = vb.tag := hcv.1
    cases hsb : vb.shape with
    | unit =>
      -- the reader's variant is a unit variant: the body (if any) is skipped
      have hproj : projVars ((va, fs) :: rest0) us 0 fvs = .ok (.enum pos []) := by simp [projVars, hfv, hsb]
      constructor
      · intro x hx r
        rw [hproj] at hx; cases hx
        rw [hfind]
        simp only [varBody, hsb]
        cases hio : b.indexOnly
        · have hioa : a.indexOnly = false := by rw [H.io]; exact hio
          simp only [Bool.false_eq_true, if_false]
          have hrow : ∀ r, Dec.skip true ((match va.shape with
              | .unit => emptyBody (va.enc.getD (a.enc.getD .array))
              | _ => frame (va.enc.getD (a.enc.getD .array)) (encFields fs fvs)) ++ r) = .ok () r := by
            intro r
            cases hsa : va.shape
            · exact C09.skip_emptyBody _ r
            all_goals exact skip_frame _ fs fvs H.accW H.ndW H.ty H.len r
          have e : rowOf a va fs fvs = tagBytes vb.tag ++ (match va.shape with
              | .unit => emptyBody (va.enc.getD (a.enc.getD .array))
              | _ => frame (va.enc.getD (a.enc.getD .array)) (encFields fs fvs)) := by
            unfold rowOf
            rw [htag]
            cases va.shape <;> simp [hioa]
          rw [e, List.append_assoc]
          simp only [Dec.bind_run, tagCheck_rt _ _ htagR, hrow, Dec.pure_run]
        · have hioa : a.indexOnly = true := by rw [H.io]; exact hio
          have hsa := H.ioW hioa
          simp [rowOf, hsa, hioa, Dec.bind_run]
      · intro hu; rw [hproj] at hu; cases hu
    | tuple | named =>
      all_goals
        have hne : vb.shape ≠ .unit := by rw [hsb]; simp
        rw [hsb] at hcv
        simp only [Bool.and_eq_true, beq_iff_eq] at hcv
        have hiob : b.indexOnly = false := by
          cases h : b.indexOnly
          · rfl
          · exact absurd (hioR h) hne
        have hioa : a.indexOnly = false := by rw [H.io]; exact hiob
        have henc : va.enc.getD (a.enc.getD .array) = vb.enc.getD (b.enc.getD .array) := by
          rw [← encOf_variant, ← encOf_variant]; exact hcv.2.1
        -- the projection and the row, by the writer's shape
        cases hsa : va.shape with
        | unit =>
          have hfs := H.unitW hsa
          subst hfs
          have hfvs : fvs = [] := by
            have := H.ty
            cases fvs <;> simp [hasFields] at this ⊢
          subst hfvs
          rw [hsa] at hcv
          have hall : allOptional gs = true := hcv.2.2
          have HB : BodyHyp (vb.enc.getD (b.enc.getD .array)) [] [] gs := by
            refine ⟨rfl, by simp [liveIdxs], rfl, haccR, hndR, by simp [compatFields], ?_, ?_, trivial⟩
            · simp only [onlyOptional, List.all_eq_true, Bool.or_eq_true]
              intro g hg
              have := List.all_eq_true.1 hall g hg
              simp only [Bool.or_eq_true] at this
              rcases this with h | h
              · exact Or.inl (Or.inl h)
              · exact Or.inr h
            · rw [show encFields [] [] = [] from rfl, frame_nil]
              cases (vb.enc.getD (b.enc.getD .array)) <;> decide
          have hpv : projVars ((va, []) :: rest0) us 0 [] =
              (match allNil gs with
               | .ok (.struct xs) => .ok (.enum pos xs)
               | .ok _ => .bad
               | e => e) := by
            simp only [projVars, hfv, hsb, hsa]
            rfl
          have hrow : rowOf a va [] [] = tagBytes vb.tag ++ frame (vb.enc.getD (b.enc.getD .array)) (encFields [] []) := by
            simp only [rowOf, hsa, hioa, Bool.false_eq_true, if_false, htag, henc]
            rw [show encFields [] [] = [] from rfl, frame_nil]
          constructor
          · intro x hx r
            rw [hpv] at hx
            cases hn : allNil gs with
            | ok y =>
              rw [hn] at hx
              obtain ⟨xs, rfl, _⟩ := assemble_ok gs [] y hn
              simp only at hx
              cases hx
              have hb := body_compat _ [] [] gs r xs HB (by simpa [allNil, projFields] using hn)
              rw [hfind, hrow, List.append_assoc]
              simp only [varBody, hsb, Dec.bind_run, tagCheck_rt _ _ htagR, hb, Dec.pure_run]
            | unknown => rw [hn] at hx; simp at hx
            | bad => rw [hn] at hx; simp at hx
          · intro hu
            rw [hpv] at hu
            exfalso
            cases hn : allNil gs with
            | ok y =>
              rw [hn] at hu
              obtain ⟨xs, rfl, _⟩ := assemble_ok gs [] y hn
              simp at hu
            | unknown =>
              have := assemble_proj_ne_unknown [] [] gs (by simp [liveIdxs]) hndR trivial
              exact this (by simpa [allNil, projFields] using hn)
            | bad => rw [hn] at hu; simp at hu
        | tuple | named =>
          all_goals
            have hnea : va.shape ≠ .unit := by rw [hsa]; simp
            rw [hsa] at hcv
            simp only [Bool.and_eq_true] at hcv
            rw [hfv] at hben
            simp only [hsb, hsa, Bool.true_and, Bool.and_eq_true, Bool.not_eq_true', Bool.and_eq_false_iff, beq_eq_false_iff_ne, ne_eq] at hben
            have hitm := hitems gs haccR hndR hcv.2.2.1 hben.1
            have HB : BodyHyp (va.enc.getD (a.enc.getD .array)) fs fvs gs :=
              ⟨H.accW, H.ndW, H.ty, haccR, hndR, hcv.2.2.1, hcv.2.2.2, H.len, hitm⟩
            have hpv : projVars ((va, fs) :: rest0) us 0 fvs =
                (match assemble gs (projFields fs gs fvs) with
                 | .ok (.struct xs) => .ok (.enum pos xs)
                 | .ok _ => .bad
                 | e => e) := by
              simp only [projVars, hfv, hsb, hsa]
              rfl
            have hrow : rowOf a va fs fvs = tagBytes vb.tag ++ frame (va.enc.getD (a.enc.getD .array)) (encFields fs fvs) := by
              simp only [rowOf, hsa, htag]
            constructor
            · intro x hx r
              rw [hpv] at hx
              cases hn : assemble gs (projFields fs gs fvs) with
              | ok y =>
                rw [hn] at hx
                obtain ⟨xs, rfl, _⟩ := assemble_ok gs _ y hn
                simp only at hx
                cases hx
                have hb := body_compat _ fs fvs gs r xs HB hn
                rw [hfind, hrow, List.append_assoc]
                simp only [varBody, hsb, Dec.bind_run, tagCheck_rt _ _ htagR, ← henc, hb, Dec.pure_run]
              | unknown => rw [hn] at hx; simp at hx
              | bad => rw [hn] at hx; simp at hx
            · intro hu
              rw [hpv] at hu
              exfalso
              cases hn : assemble gs (projFields fs gs fvs) with
              | ok y =>
                rw [hn] at hu
                obtain ⟨xs, rfl, _⟩ := assemble_ok gs _ y hn
                simp at hu
              | unknown => exact assemble_proj_ne_unknown fs fvs gs H.ndW hndR hitm hn
              | bad => rw [hn] at hu; simp at hu

/-- the enum decoder of the reader on what the writer's enum encoder wrote, given the rows. -/
theorem tyC_enum (l : Bool) (a b : EAttr) (vs us : Variants) (k : Nat) (fvs : List Val)
    (htag : a.tag = b.tag) (htok : tagOk a.tag = true) (hio : a.indexOnly = b.indexOnly)
    (haW : acceptedVars a vs = true) (hv : hasVars vs k fvs = true) (hidx : C09.varIdx vs k < 4294967296)
    (hrow : (∀ x, projVars vs us k fvs = .ok x → ∀ r,
        findVariant (decVars b us) 0 (C09.varIdx vs k) (C09.rowBytes a vs k fvs ++ r) = .ok x r) ∧
      (projVars vs us k fvs = .unknown → l = true ∧ ∀ r, ∃ r',
        findVariant (decVars b us) 0 (C09.varIdx vs k) (C09.rowBytes a vs k fvs ++ r) = .err .variant r')) :
    TyC l (.enum a vs) (.enum b us) (.enum k fvs) := by
  have hdec : ∀ rest, decTy (.enum b us) (encTy (.enum a vs) (.enum k fvs) ++ rest) =
      findVariant (decVars b us) 0 (C09.varIdx vs k) (C09.rowBytes a vs k fvs ++ rest) := by
    intro rest
    simp only [encTy, decTy, enumDec, C09.encVars_eq a vs k fvs haW hv, List.append_assoc]
    rw [Dec.bind_run, ← htag, tagCheck_rt _ _ htok]
    simp only []
    rw [← hio]
    cases hix : a.indexOnly
    · simp only [Bool.false_eq_true, if_false, List.append_assoc]
      rw [Dec.bind_run, Dec.bind_run, array_enc 2 _ (by decide)]
      simp only [beq_self_eq_true, if_true, Dec.pure_run]
      rw [Dec.bind_run, intAcc_u32 _ _ hidx]
      simp only [Int.toNat_natCast]
      exact wrapperEnd_false_bind _ _
    · simp only [if_true, List.nil_append]
      rw [Dec.bind_run, Dec.pure_run]
      simp only []
      rw [Dec.bind_run, intAcc_u32 _ _ hidx]
      simp only [Int.toNat_natCast]
      exact wrapperEnd_false_bind _ _
  constructor
  · intro x hx rest
    simp only [projTy] at hx
    rw [hdec]; exact hrow.1 x hx rest
  · intro hu
    simp only [projTy] at hu
    obtain ⟨h1, h2⟩ := hrow.2 hu
    refine ⟨h1, fun rest => ?_⟩
    obtain ⟨r', hr'⟩ := h2 rest
    exact ⟨r', by rw [hdec]; exact hr'⟩

theorem varIdx_lt (e : EAttr) : ∀ (vars : Variants) (k : Nat) (vs : List Val), acceptedVars e vars = true →
    hasVars vars k vs = true → C09.varIdx vars k < 4294967296
  | [], _, _, _, hv => by simp [hasVars] at hv
  | (va, fs) :: rest, 0, vs, ha, _ => by
    simp only [acceptedVars, Bool.and_eq_true, decide_eq_true_eq] at ha
    simpa [C09.varIdx, U32] using ha.1.1.1.1.1.1
  | (va, fs) :: rest, k + 1, vs, ha, hv => by
    simp only [acceptedVars, Bool.and_eq_true] at ha
    simp only [hasVars] at hv
    simpa [C09.varIdx] using varIdx_lt e rest k vs ha.2 hv

/-- a transparent struct read by a compatible transparent struct. -/
theorem tyC_transparent (l : Bool) (a b : SAttr) (fs : Fields) (gb : FAttr) (u : FTy) (vs : List Val)
    (hta : a.transparent = true) (htb : b.transparent = true)
    (h : (∀ x, projOne fs u vs = .ok x → ∀ rest,
        decWith gb.codec (decTy u) (transparentBody (encFields fs vs) ++ rest) = .ok x rest) ∧
      projOne fs u vs ≠ .unknown) :
    TyC l (.struct a fs) (.struct b [(gb, u)]) (.struct vs) := by
  constructor
  · intro x hx rest
    simp only [projTy, hta, if_true] at hx
    cases hp : projOne fs u vs with
    | ok y =>
      rw [hp] at hx; simp only at hx; cases hx
      simp only [encTy, decTy, structDec, hta, htb, if_true, decFields, transparentDec, Dec.bind_run, h.1 y hp rest]
      rfl
    | unknown => rw [hp] at hx; simp at hx
    | bad => rw [hp] at hx; simp at hx
  · intro hu
    simp only [projTy, hta, if_true] at hu
    cases hp : projOne fs u vs with
    | ok y => rw [hp] at hu; simp at hu
    | unknown => exact absurd hp h.2
    | bad => rw [hp] at hu; simp at hu

/-! ### sizes: the parts of an encoding that fits a slice fit a slice -/

/-- every non-nil field's item fits a slice. -/
def FieldsFit : Fields → List Val → Prop
  | (a, t) :: fs, v :: vs =>
      (a.skip = false → isNilField a t v = false → (encWith a.codec (encTy t) v).length < 2 ^ 64) ∧ FieldsFit fs vs
  | _, _ => True

theorem fieldsFit_of_pieces : ∀ (fs : Fields) (vs : List Val) (N : Nat),
    (∀ p ∈ encFields fs vs, p.nil = false → p.body.length < N) →
    ∀ (_ : N = 2 ^ 64), FieldsFit fs vs
  | [], vs, _, _, _ => by cases vs <;> trivial
  | (a, t) :: fs, [], _, _, _ => trivial
  | (a, t) :: fs, v :: vs, N, h, hN => by
    cases hs : a.skip
    · refine ⟨fun _ hn => ?_, fieldsFit_of_pieces fs vs N (fun p hp => h p (by simp [encFields, hs, hp])) hN⟩
      have := h ⟨a.idx, a.tag, isNilField a t v, encWith a.codec (encTy t) v⟩ (by simp [encFields, hs]) hn
      rw [hN] at this; exact this
    · exact ⟨fun h' => (by rw [hs] at h'; cases h'), fieldsFit_of_pieces fs vs N (fun p hp => h p (by simp [encFields, hs, hp])) hN⟩

theorem fieldsFit_of_frame (enc : Encoding) (fs : Fields) (vs : List Val) (hacc : acceptedFields fs = true)
    (hnd : (liveIdxs fs).Nodup) (hty : hasFields fs vs = true)
    (hl : (frame enc (encFields fs vs)).length < 2 ^ 64) : FieldsFit fs vs := by
  apply fieldsFit_of_pieces fs vs (2 ^ 64) _ rfl
  intro p hp hn
  have hle : (tagBytes p.tag ++ p.body).length ≤ (frame enc (encFields fs vs)).length := by
    cases enc with
    | map => exact entry_le_frame _ p hp hn
    | array =>
      have hspec := C08.fields_spec fs vs hacc hty
      have nd : (idxs (specFields fs vs)).Nodup := by rw [C08.specFields_idxs fs vs hty]; exact hnd
      have hp' := hp
      rw [hspec] at hp'
      obtain ⟨q, hq, rfl⟩ := List.mem_map.1 hp'
      simp only [toBytes_nil] at hn
      cases hm : maxPresent (specFields fs vs) with
      | none => have := maxPresent_none hm q hq; rw [hn] at this; cases this
      | some m =>
        have hqm := maxPresent_ge hm q hq hn
        have hcl := cell_le_frame (specFields fs vs) nd (C08.specFields_ok fs vs hacc) m q.idx hm hqm
        rw [← hspec] at hcl
        -- the cell at `q.idx` is `q`'s item
        have hfind : (specFields fs vs).find? (fun p => p.idx == q.idx) = some q := by
          cases hf : (specFields fs vs).find? (fun p => p.idx == q.idx) with
          | none =>
            have := List.find?_eq_none.1 hf q hq
            simp at this
          | some q' =>
            have hq' := List.mem_of_find?_eq_some hf
            have hi : q'.idx = q.idx := by simpa using List.find?_some hf
            have hinj : ∀ (l : List (Piece Item)), (idxs l).Nodup → ∀ x ∈ l, ∀ y ∈ l, x.idx = y.idx → x = y := by
              intro l
              induction l with
              | nil => intro _ x hx; simp at hx
              | cons z zs ih =>
                intro hn x hx y hy hxy
                have hn' : z.idx ∉ idxs zs ∧ (idxs zs).Nodup := List.nodup_cons.1 hn
                rcases List.mem_cons.1 hx with rfl | hx' <;> rcases List.mem_cons.1 hy with rfl | hy'
                · rfl
                · exact absurd (List.mem_map.2 ⟨y, hy', hxy.symm⟩) hn'.1
                · exact absurd (List.mem_map.2 ⟨x, hx', hxy⟩) hn'.1
                · exact ih hn'.2 x hx' y hy' hxy
            rw [hinj _ nd q' hq' q hq hi]
        have hcell : encPref (cellAt (specFields fs vs) q.idx) = tagBytes q.tag ++ encPref q.body := by
          unfold cellAt
          rw [hfind]
          exact encPref_tagI _ _ (C08.specFields_ok fs vs hacc q hq).2
        rw [hcell] at hcl
        exact hcl
  simp only [List.length_append] at hle
  omega

theorem accF_of_mem : ∀ (gs : Fields) (b : FAttr) (u : FTy), acceptedFields gs = true → (b, u) ∈ gs →
    fieldBlob u = true ∨ accepted u = true
  | [], _, _, _, h => by simp at h
  | (b', u') :: gs, b, u, ha, h => by
    simp only [acceptedFields, Bool.and_eq_true, Bool.or_eq_true] at ha
    rcases List.mem_cons.1 h with e | h'
    · cases e; exact ha.1.2
    · exact accF_of_mem gs b u ha.2 h'

/-! ### the projection is defined on compatible versions (no decoder involved) -/

/-- the projection is not `bad`, and `unknown` only in lenient position. -/
structure PjOk (l : Bool) (w r : FTy) (v : Val) : Prop where
  nb  : projTy w r v ≠ .bad
  unk : projTy w r v = .unknown → l = true

def FieldsP (gs : Fields) : Fields → List Val → Prop
  | (a, t) :: fs, v :: vs =>
      (a.skip = false → isNilField a t v = false → ∀ b u, findField gs a.idx = some (b, u) →
        PjOk (optionalField b u) t u v) ∧ FieldsP gs fs vs
  | _, _ => True

theorem FieldsP_lookup (gs : Fields) : ∀ (fs : Fields) (vs : List Val) (i : Nat) (a : FAttr) (t : FTy) (v : Val)
    (b : FAttr) (u : FTy), FieldsP gs fs vs → lookupVal fs vs i = some (a, t, v) → isNilField a t v = false →
    findField gs i = some (b, u) → PjOk (optionalField b u) t u v
  | [], vs, _, _, _, _, _, _, _, h, _, _ => by cases vs <;> simp [lookupVal] at h
  | (a', t') :: fs, [], _, _, _, _, _, _, _, h, _, _ => by simp [lookupVal] at h
  | (a', t') :: fs, v' :: vs, i, a, t, v, b, u, hC, h, hn, hf => by
    simp only [lookupVal] at h
    split at h
    · rename_i hcond
      simp only [Bool.and_eq_true, Bool.not_eq_true', beq_iff_eq] at hcond
      cases h
      exact hC.1 hcond.1 hn b u (by rw [hcond.2]; exact hf)
    · exact FieldsP_lookup gs fs vs i a t v b u hC.2 h hn hf

theorem assemble_all_ok : ∀ (gs : Fields) (ps : List (Nat × PRes)),
    (∀ g ∈ gs, ∃ x, hereOf ps g.1 g.2 = .ok x) → ∃ xs, assemble gs ps = .ok (.struct xs)
  | [], ps, _ => ⟨[], rfl⟩
  | (b, u) :: gs, ps, h => by
    obtain ⟨xs, hxs⟩ := assemble_all_ok gs ps (fun g hg => h g (by simp [hg]))
    obtain ⟨x, hx⟩ := h (b, u) (by simp)
    refine ⟨x :: xs, ?_⟩
    rw [assemble_cons, hx, hxs]

theorem nilOrBad_of_optional (b : FAttr) (u : FTy) (h : optionalField b u = true) : ∃ z, nilOrBad b u = .ok z := by
  unfold optionalField at h
  unfold nilOrBad
  cases hn : nilOf b u with
  | none => rw [hn] at h; cases h
  | some z => exact ⟨z, rfl⟩

/-- the projection of a struct / variant body is defined. -/
theorem assemble_total (fs : Fields) (vs : List Val) (gs : Fields) (hndW : (liveIdxs fs).Nodup)
    (hndR : (liveIdxs gs).Nodup) (hty : hasFields fs vs = true) (hcf : compatFields fs gs = true)
    (hoo : onlyOptional gs fs = true) (hitems : FieldsP gs fs vs) :
    ∃ xs, assemble gs (projFields fs gs vs) = .ok (.struct xs) := by
  apply assemble_all_ok
  intro g hg
  obtain ⟨b, u⟩ := g
  cases hbs : b.skip
  · cases hl : lookupVal fs vs b.idx with
    | none =>
      rw [hereOf_ronly fs vs gs hndW b u hbs hl]
      have hni : b.idx ∉ liveIdxs fs := (lookupVal_none fs vs b.idx hty).1 hl
      exact nilOrBad_of_optional b u (onlyOptional_mem gs fs b u hoo hg hbs ((findField_none fs b.idx).2 hni))
    | some y =>
      obtain ⟨a, t, v⟩ := y
      rw [hereOf_shared fs vs gs hndW hndR b u hg hbs a t v hl]
      have hf := findField_of_mem gs b u hndR hg hbs
      obtain ⟨_, hcod, hct⟩ := compatFields_lookup fs vs gs b.idx a t v b u hcf hl hf
      unfold pOf
      by_cases hnil : isNilField a t v = true
      · rw [if_pos hnil]
        exact nilOrBad_of_optional b u (nil_partner_optional a t v b u _ hnil hcod hct)
      · rw [if_neg hnil]
        have hnil' : isNilField a t v = false := by simpa using hnil
        have hP := FieldsP_lookup gs fs vs b.idx a t v b u hitems hl hnil' hf
        cases hp : projTy t u v with
        | ok x => exact ⟨x, rfl⟩
        | bad => exact absurd hp hP.nb
        | unknown =>
          have := hP.unk hp
          simp only [swallows_eq, this, if_true]
          exact nilOrBad_of_optional b u this
  · exact ⟨defaultOf u, by simp [hereOf, hbs]⟩

theorem mapPRes_all_ok : ∀ (ps : List PRes), (∀ p ∈ ps, ∃ x, p = .ok x) → ∃ ys, mapPRes ps = .ok (.list ys)
  | [], _ => ⟨[], rfl⟩
  | p :: ps, h => by
    obtain ⟨ys, hys⟩ := mapPRes_all_ok ps (fun q hq => h q (by simp [hq]))
    obtain ⟨x, hx⟩ := h p (by simp)
    refine ⟨x :: ys, ?_⟩
    rw [mapPRes_cons, hx, hys]

theorem pjOk_ok (w r : FTy) (v : Val) (h : PjOk false w r v) : ∃ x, projTy w r v = .ok x := by
  cases hp : projTy w r v with
  | ok x => exact ⟨x, rfl⟩
  | unknown => have := h.unk hp; cases this
  | bad => exact absurd hp h.nb

/-- the projection of a variant row is defined (or "unknown variant" in lenient position). -/
theorem row_proj (l : Bool) (a b : EAttr) (va : VAttr) (fs : Fields) (rest0 : Variants) (us : Variants) (fvs : List Val)
    (hndW : (liveIdxs fs).Nodup) (hty : hasFields fs fvs = true) (haR : acceptedVars b us = true)
    (hunitW : va.shape = .unit → fs = [])
    (hcv : (match findVar us 0 va.idx with
       | none => l
       | some (_, vb, gs) =>
           va.tag == vb.tag &&
           (match vb.shape with
            | .unit => true
            | _ =>
              encOf (va.enc <|> a.enc) == encOf (vb.enc <|> b.enc) &&
              (match va.shape with
               | .unit => allOptional gs
               | _ => compatFields fs gs && onlyOptional gs fs))) = true)
    (hitems : ∀ gs, acceptedFields gs = true → (liveIdxs gs).Nodup → compatFields fs gs = true → FieldsP gs fs fvs) :
    projVars ((va, fs) :: rest0) us 0 fvs ≠ .bad ∧ (projVars ((va, fs) :: rest0) us 0 fvs = .unknown → l = true) := by
  cases hfv : findVar us 0 va.idx with
  | none =>
    rw [hfv] at hcv
    simp only at hcv
    simp [projVars, hfv, hcv]
  | some y =>
    obtain ⟨pos, vb, gs⟩ := y
    rw [hfv] at hcv
    simp only [Bool.and_eq_true, beq_iff_eq] at hcv
    obtain ⟨hm, _⟩ := findVar_mem us 0 va.idx pos vb gs hfv
    obtain ⟨_, _, haccR, hndR, _, _⟩ := acceptedVars_mem b us vb gs haR hm
    cases hsb : vb.shape with
    | unit => simp [projVars, hfv, hsb]
    | tuple | named =>
      all_goals
        rw [hsb] at hcv
        simp only [Bool.and_eq_true, beq_iff_eq] at hcv
        cases hsa : va.shape with
        | unit =>
          have hfs := hunitW hsa
          subst hfs
          rw [hsa] at hcv
          have hall : allOptional gs = true := hcv.2.2
          have hoo : onlyOptional gs [] = true := by
            simp only [onlyOptional, List.all_eq_true, Bool.or_eq_true]
            intro g hg
            have := List.all_eq_true.1 hall g hg
            simp only [Bool.or_eq_true] at this
            rcases this with h | h
            · exact Or.inl (Or.inl h)
            · exact Or.inr h
          obtain ⟨xs, hxs⟩ := assemble_total [] [] gs (by simp [liveIdxs]) hndR rfl (by simp [compatFields]) hoo trivial
          have hn : allNil gs = .ok (.struct xs) := by simpa [allNil, projFields] using hxs
          simp [projVars, hfv, hsb, hsa, hn]
        | tuple | named =>
          all_goals
            rw [hsa] at hcv
            simp only [Bool.and_eq_true] at hcv
            obtain ⟨xs, hxs⟩ := assemble_total fs fvs gs hndW hndR hty hcv.2.2.1 hcv.2.2.2 (hitems gs haccR hndR hcv.2.2.1)
            simp [projVars, hfv, hsb, hsa, hxs]

end Minicbor.Derive
