/-
  C02 infrastructure, part 3: the loop combinators of Types.lean.  Generic in the element
  decoder `m`: if `m` never panics and every successful `m` consumes at least one byte, then the
  local fuel (`remaining + 1`) of the indefinite-length loops is never exhausted.
-/
import Minicbor.Lemmas.TotalAcc

namespace Minicbor.Dec

theorem SizedBy.cons_tail {m : Dec (List α)} {sz : α → Nat} {x : α} {c : Nat}
    (hm : SizedBy c (listSz sz) m) :
    SizedBy (sz x + c) (listSz sz) (m >>= fun xs => Pure.pure (x :: xs)) := by
  intro bs l r h
  obtain ⟨xs, r', h1, h2⟩ := bind_ok_inv h
  have := hm bs xs r' h1
  cases h2
  simp; omega

/-- `current` does not move. -/
theorem current_ok {bs : Bytes} {b : UInt8} {r : Bytes} (h : Dec.current bs = .ok b r) : r = bs := by
  cases bs with
  | nil => cases h
  | cons b' bs' => cases h; rfl

/-! ### repeatN -/

theorem NoPanic.repeatN {m : Dec α} (hm : NoPanic m) (n : Nat) : NoPanic (Dec.repeatN m n) := by
  induction n with
  | zero => unfold Dec.repeatN; exact NoPanic.pure _
  | succ n ih => unfold Dec.repeatN; nopanic'

theorem Suffix.repeatN {m : Dec α} (hm : Suffix m) (n : Nat) : Suffix (Dec.repeatN m n) := by
  induction n with
  | zero => unfold Dec.repeatN; exact Suffix.pure _
  | succ n ih => unfold Dec.repeatN; suffix

theorem Sized.repeatN {m : Dec α} {sz : α → Nat} (hm : Sized sz m) (n : Nat) :
    Sized (listSz sz) (Dec.repeatN m n) := by
  induction n with
  | zero => unfold Dec.repeatN; exact SizedBy.pure (Nat.zero_le _)
  | succ n ih =>
    unfold Dec.repeatN
    exact SizedBy.bind hm (fun x => SizedBy.cons_tail ih)

/-- a count-driven loop whose count exceeds the remaining input fails within the first
    `remaining + 1` iterations: the (possibly hostile) count does not matter beyond that. -/
theorem repeatN_cutoff {m : Dec α} (hc : Consumes m 1) (bs : Bytes) (n n' : Nat)
    (h : bs.length < n) (h' : bs.length < n') : Dec.repeatN m n bs = Dec.repeatN m n' bs := by
  induction n generalizing bs n' with
  | zero => omega
  | succ n ih =>
    cases n' with
    | zero => omega
    | succ n' =>
      unfold Dec.repeatN
      rw [Dec.bind_run, Dec.bind_run]
      cases hmb : m bs with
      | ok x r =>
        have := hc bs x r hmb
        simp only [Dec.bind_run]
        rw [ih r n' (by omega) (by omega)]
      | err e r => rfl
      | panic => rfl

theorem repeatN_ok_le {m : Dec α} (hc : Consumes m 1) (bs : Bytes) (n : Nat) (l : List α) (r : Bytes)
    (h : Dec.repeatN m n bs = .ok l r) : n + r.length ≤ bs.length := by
  induction n generalizing bs l with
  | zero => unfold Dec.repeatN at h; cases h; simp
  | succ n ih =>
    unfold Dec.repeatN at h
    obtain ⟨x, r1, h1, h⟩ := bind_ok_inv h
    obtain ⟨xs, r2, h2, h⟩ := bind_ok_inv h
    have := hc bs x r1 h1
    cases h
    have := ih r1 xs h2
    omega

/-! ### untilBreak -/

theorem untilBreak_ne_panic {m : Dec α} (hm : NoPanic m) (hc : Consumes m 1) (fuel : Nat) (bs : Bytes)
    (h : bs.length < fuel) : Dec.untilBreak m fuel bs ≠ .panic := by
  induction fuel generalizing bs with
  | zero => omega
  | succ f ih =>
    unfold Dec.untilBreak
    apply bind_ne_panic (NoPanic.current _)
    intro b r hb
    have hr := current_ok hb
    subst hr
    split
    · apply bind_ne_panic (NoPanic.read _)
      intro _ _ _; simp
    · apply bind_ne_panic (hm _)
      intro c r' hcr
      have hlen := hc r c r' hcr
      apply bind_ne_panic (ih r' (by omega))
      intro _ _ _; simp

theorem Suffix.untilBreak {m : Dec α} (hm : Suffix m) (fuel : Nat) : Suffix (Dec.untilBreak m fuel) := by
  induction fuel with
  | zero => unfold Dec.untilBreak; exact Suffix.panic
  | succ f ih => unfold Dec.untilBreak; suffix

/-- the elements collected before the break are paid for by consumed bytes (and the break
    itself is one more byte). -/
theorem Sized.untilBreak {m : Dec α} {sz : α → Nat} (hm : Sized sz m) (fuel : Nat) :
    Sized (fun l => listSz sz l + 1) (Dec.untilBreak m fuel) := by
  induction fuel with
  | zero => unfold Dec.untilBreak; exact SizedBy.panic _ _
  | succ f ih =>
    unfold Dec.untilBreak
    refine SizedBy.bindC Consumes.current (fun b => ?_)
    refine SizedBy.ite ?_ ?_
    · exact SizedBy.bindC Consumes.read (fun _ => SizedBy.pure (by simp))
    · refine SizedBy.bind hm (fun x => ?_)
      intro bs l r h
      obtain ⟨xs, r', h1, h2⟩ := bind_ok_inv h
      have := ih bs xs r' h1
      cases h2
      simp at this ⊢; omega

/-! ### arrayIter / mapIter -/

theorem NoPanic.untilBreakRem {m : Dec α} (hm : NoPanic m) (hc : Consumes m 1) :
    NoPanic (Dec.remaining >>= fun r => Dec.untilBreak m (r.length + 1)) := by
  intro bs h
  simp only [Dec.bind_run, Dec.remaining] at h
  exact untilBreak_ne_panic hm hc _ bs (by omega) h

theorem NoPanic.arrayIter {m : Dec α} (hm : NoPanic m) (hc : Consumes m 1) : NoPanic (Dec.arrayIter m) := by
  unfold Dec.arrayIter
  have := NoPanic.array
  have := NoPanic.repeatN hm
  have := NoPanic.untilBreakRem hm hc
  nopanic'

theorem Suffix.arrayIter {m : Dec α} (hm : Suffix m) : Suffix (Dec.arrayIter m) := by
  unfold Dec.arrayIter
  have := Suffix.array
  have := Suffix.repeatN hm
  have := Suffix.untilBreak hm
  suffix

theorem Sized.arrayIter {m : Dec α} {sz : α → Nat} (hm : Sized sz m) :
    Sized (fun l => 1 + listSz sz l) (Dec.arrayIter m) := by
  unfold Dec.arrayIter
  refine SizedBy.bindC Consumes.array (fun o => ?_)
  split
  · exact (Sized.repeatN hm _).weaken (fun _ => by omega)
  · refine SizedBy.bindC Consumes.remaining (fun r => ?_)
    exact (Sized.untilBreak hm _).weaken (fun _ => by omega)

theorem EoiNil.arrayIter (m : Dec α) : EoiNil (Dec.arrayIter m) := EoiNil.bind _ EoiNil.array

/-- one map entry: key then value, flattened. -/
def pairOf (mk mv : Dec α) : Dec (List α) := do let k ← mk; let v ← mv; pure [k, v]

theorem NoPanic.pairOf {mk mv : Dec α} (hk : NoPanic mk) (hv : NoPanic mv) : NoPanic (pairOf mk mv) := by
  unfold Dec.pairOf; nopanic'

theorem Suffix.pairOf {mk mv : Dec α} (hk : Suffix mk) (hv : Suffix mv) : Suffix (pairOf mk mv) := by
  unfold Dec.pairOf; suffix

theorem Sized.pairOf {mk mv : Dec α} {sz : α → Nat} (hk : Sized sz mk) (hv : Sized sz mv) :
    Sized (listSz sz) (pairOf mk mv) := by
  unfold Dec.pairOf
  refine SizedBy.bind hk (fun k => ?_)
  intro bs l r h
  obtain ⟨v, r', h1, h2⟩ := bind_ok_inv h
  have := hv bs v r' h1
  cases h2
  simp; omega

theorem mapIter_eq (mk mv : Dec α) : Dec.mapIter mk mv = (do
    match (← Dec.map) with
    | some n => do let xs ← Dec.repeatN (pairOf mk mv) n; pure xs.flatten
    | none => do let r ← Dec.remaining; let xs ← Dec.untilBreak (pairOf mk mv) (r.length + 1); pure xs.flatten) := rfl

theorem Consumes.pairOf {mk mv : Dec α} (hck : Consumes mk 1) (hcv : Consumes mv 0) :
    Consumes (Dec.pairOf mk mv) 1 := by
  unfold Dec.pairOf
  exact Consumes.bind (k := 0) hck (fun _ => Consumes.bind0 hcv (fun _ => Consumes.pure _))

theorem NoPanic.mapIter {mk mv : Dec α} (hk : NoPanic mk) (hv : NoPanic mv) (hck : Consumes mk 1)
    (hcv : Consumes mv 0) : NoPanic (Dec.mapIter mk mv) := by
  rw [mapIter_eq]
  have hp := NoPanic.pairOf hk hv
  have hc := Consumes.pairOf hck hcv
  refine NoPanic.bind NoPanic.map (fun o => ?_)
  split
  · exact NoPanic.bind (NoPanic.repeatN hp _) (fun _ => NoPanic.pure _)
  · intro bs h
    simp only [Dec.bind_run, Dec.remaining] at h
    have := untilBreak_ne_panic hp hc (bs.length + 1) bs (by omega)
    split at h
    · cases h
    · cases h
    · contradiction

theorem Suffix.mapIter {mk mv : Dec α} (hk : Suffix mk) (hv : Suffix mv) : Suffix (Dec.mapIter mk mv) := by
  rw [mapIter_eq]
  have := Suffix.map
  have := Suffix.repeatN (Suffix.pairOf hk hv)
  have := Suffix.untilBreak (Suffix.pairOf hk hv)
  suffix

theorem SizedBy.map_flatten {m : Dec (List (List α))} {sz : α → Nat} {c : Nat}
    (hm : SizedBy c (listSz (listSz sz)) m) :
    SizedBy c (listSz sz) (m >>= fun xs => Pure.pure xs.flatten) := by
  intro bs l r h
  obtain ⟨xs, r', h1, h2⟩ := bind_ok_inv h
  have := hm bs xs r' h1
  cases h2
  rw [listSz_flatten]; omega

theorem Sized.mapIter {mk mv : Dec α} {sz : α → Nat} (hk : Sized sz mk) (hv : Sized sz mv) :
    Sized (fun l => 1 + listSz sz l) (Dec.mapIter mk mv) := by
  rw [mapIter_eq]
  have hp := Sized.pairOf hk hv
  refine SizedBy.bindC Consumes.map (fun o => ?_)
  split
  · exact (SizedBy.map_flatten (Sized.repeatN hp _)).weaken (fun _ => by omega)
  · refine SizedBy.bindC Consumes.remaining (fun r => ?_)
    have h1 : SizedBy 0 (listSz (listSz sz)) (Dec.untilBreak (Dec.pairOf mk mv) (r.length + 1)) :=
      (Sized.untilBreak hp _).weaken (fun _ => by omega)
    exact (SizedBy.map_flatten h1).weaken (fun _ => by omega)

theorem EoiNil.mapIter (mk mv : Dec α) : EoiNil (Dec.mapIter mk mv) := by
  rw [mapIter_eq]; exact EoiNil.bind _ EoiNil.map

/-! ### [T; N] -/

theorem arrayNIndef_ne_panic {m : Dec α} (hm : NoPanic m) (hc : Consumes m 1) (n fuel have_ : Nat) (bs : Bytes)
    (h : bs.length < fuel) : Dec.arrayNIndef m n fuel have_ bs ≠ .panic := by
  induction fuel generalizing bs have_ with
  | zero => omega
  | succ f ih =>
    unfold Dec.arrayNIndef
    apply bind_ne_panic (NoPanic.current _)
    intro b r hb
    have hr := current_ok hb
    subst hr
    split
    · apply bind_ne_panic (NoPanic.read _)
      intro _ _ _; split <;> simp
    · apply bind_ne_panic (hm _)
      intro c r' hcr
      have hlen := hc r c r' hcr
      split
      · simp
      · apply bind_ne_panic (ih _ r' (by omega))
        intro _ _ _; simp

theorem Suffix.arrayNIndef {m : Dec α} (hm : Suffix m) (n fuel have_ : Nat) :
    Suffix (Dec.arrayNIndef m n fuel have_) := by
  induction fuel generalizing have_ with
  | zero => unfold Dec.arrayNIndef; exact Suffix.panic
  | succ f ih => unfold Dec.arrayNIndef; suffix

theorem Sized.arrayNIndef {m : Dec α} {sz : α → Nat} (hm : Sized sz m) (n fuel have_ : Nat) :
    Sized (fun l => listSz sz l + 1) (Dec.arrayNIndef m n fuel have_) := by
  induction fuel generalizing have_ with
  | zero => unfold Dec.arrayNIndef; exact SizedBy.panic _ _
  | succ f ih =>
    unfold Dec.arrayNIndef
    refine SizedBy.bindC Consumes.current (fun b => ?_)
    refine SizedBy.ite ?_ ?_
    · exact SizedBy.bindC Consumes.read (fun _ => SizedBy.ite (SizedBy.fail _ _ _) (SizedBy.pure (by simp)))
    · refine SizedBy.bind hm (fun x => ?_)
      refine SizedBy.ite (SizedBy.fail _ _ _) ?_
      intro bs l r h
      obtain ⟨xs, r', h1, h2⟩ := bind_ok_inv h
      have := ih _ bs xs r' h1
      cases h2
      simp at this ⊢; omega

theorem NoPanic.arrayN {m : Dec α} (hm : NoPanic m) (hc : Consumes m 1) (n : Nat) : NoPanic (Dec.arrayN m n) := by
  unfold Dec.arrayN
  have := NoPanic.array
  have := NoPanic.repeatN hm
  have : NoPanic (Dec.remaining >>= fun r => Dec.arrayNIndef m n (r.length + 1) 0) := by
    intro bs h
    simp only [Dec.bind_run, Dec.remaining] at h
    exact arrayNIndef_ne_panic hm hc n _ 0 bs (by omega) h
  nopanic'

theorem Suffix.arrayN {m : Dec α} (hm : Suffix m) (n : Nat) : Suffix (Dec.arrayN m n) := by
  unfold Dec.arrayN
  have := Suffix.array
  have := Suffix.repeatN hm
  have := Suffix.arrayNIndef hm n
  suffix

theorem Sized.arrayN {m : Dec α} {sz : α → Nat} (hm : Sized sz m) (n : Nat) :
    Sized (fun l => 1 + listSz sz l) (Dec.arrayN m n) := by
  unfold Dec.arrayN
  refine SizedBy.bindC Consumes.array (fun o => ?_)
  split
  · refine SizedBy.ite ?_ ?_
    · refine SizedBy.bind ((Sized.repeatN hm _).weaken (sz' := fun l => 1 + listSz sz l) (c' := 1) (fun _ => by omega)) (fun xs => ?_)
      exact SizedBy.ite (SizedBy.fail _ _ _) (SizedBy.pure (Nat.le_refl _))
    · exact SizedBy.bindC (k := 0) ((Sized.repeatN hm _).to_consumes (k := 0) (fun _ => Nat.zero_le _)) (fun _ => SizedBy.fail _ _ _)
  · refine SizedBy.bindC Consumes.remaining (fun r => ?_)
    exact (Sized.arrayNIndef hm _ _ _).weaken (fun _ => by omega)

theorem EoiNil.arrayN (m : Dec α) (n : Nat) : EoiNil (Dec.arrayN m n) := EoiNil.bind _ EoiNil.array

/-! ### skipUntilBreak, seqAll, decode_fields! -/

theorem skipUntilBreak_ne_panic (fuel : Nat) (bs : Bytes) (h : bs.length < fuel) :
    Dec.skipUntilBreak fuel bs ≠ .panic := by
  induction fuel generalizing bs with
  | zero => omega
  | succ f ih =>
    unfold Dec.skipUntilBreak
    apply bind_ne_panic (NoPanic.datatype _)
    intro ty r hty
    have hr := Consumes.datatype bs ty r hty
    split
    · exact NoPanic.skip _ _
    · apply bind_ne_panic (NoPanic.skip _ _)
      intro u r' hs
      have := Consumes.skip true r u r' hs
      exact ih r' (by omega)

theorem Suffix.skipUntilBreak (fuel : Nat) : Suffix (Dec.skipUntilBreak fuel) := by
  induction fuel with
  | zero => unfold Dec.skipUntilBreak; exact Suffix.panic
  | succ f ih =>
    unfold Dec.skipUntilBreak
    have := Suffix.datatype
    have := Suffix.skip true
    suffix

theorem NoPanic.seqAll {ms : List (Dec α)} (h : ∀ m ∈ ms, NoPanic m) : NoPanic (Dec.seqAll ms) := by
  induction ms with
  | nil => unfold Dec.seqAll; exact NoPanic.pure _
  | cons m ms ih =>
    unfold Dec.seqAll
    have := h m (List.mem_cons_self ..)
    have := ih (fun m' hm' => h m' (List.mem_cons_of_mem _ hm'))
    nopanic'

theorem Suffix.seqAll {ms : List (Dec α)} (h : ∀ m ∈ ms, Suffix m) : Suffix (Dec.seqAll ms) := by
  induction ms with
  | nil => unfold Dec.seqAll; exact Suffix.pure _
  | cons m ms ih =>
    unfold Dec.seqAll
    have := h m (List.mem_cons_self ..)
    have := ih (fun m' hm' => h m' (List.mem_cons_of_mem _ hm'))
    suffix

theorem Sized.seqAll {ms : List (Dec α)} {sz : α → Nat} (h : ∀ m ∈ ms, Sized sz m) :
    Sized (listSz sz) (Dec.seqAll ms) := by
  induction ms with
  | nil => unfold Dec.seqAll; exact SizedBy.pure (Nat.zero_le _)
  | cons m ms ih =>
    unfold Dec.seqAll
    have h1 := h m (List.mem_cons_self ..)
    have h2 := ih (fun m' hm' => h m' (List.mem_cons_of_mem _ hm'))
    exact SizedBy.bind h1 (fun x => SizedBy.cons_tail h2)

theorem NoPanic.fieldsDef {ms : List (Dec α)} (h : ∀ m ∈ ms, NoPanic m) (n : Nat) :
    NoPanic (Dec.fieldsDef ms n) := by
  induction ms generalizing n with
  | nil =>
    unfold Dec.fieldsDef
    have := NoPanic.repeatN (NoPanic.skip true) n
    nopanic'
  | cons m ms ih =>
    have := h m (List.mem_cons_self ..)
    have := ih (fun m' hm' => h m' (List.mem_cons_of_mem _ hm'))
    cases n with
    | zero => unfold Dec.fieldsDef; exact NoPanic.fail _
    | succ n => unfold Dec.fieldsDef; nopanic'

theorem Suffix.fieldsDef {ms : List (Dec α)} (h : ∀ m ∈ ms, Suffix m) (n : Nat) :
    Suffix (Dec.fieldsDef ms n) := by
  induction ms generalizing n with
  | nil =>
    unfold Dec.fieldsDef
    have := Suffix.repeatN (Suffix.skip true) n
    suffix
  | cons m ms ih =>
    have := h m (List.mem_cons_self ..)
    have := ih (fun m' hm' => h m' (List.mem_cons_of_mem _ hm'))
    cases n with
    | zero => unfold Dec.fieldsDef; exact Suffix.fail _
    | succ n => unfold Dec.fieldsDef; suffix

theorem Sized.fieldsDef {ms : List (Dec α)} {sz : α → Nat} (h : ∀ m ∈ ms, Sized sz m) (n : Nat) :
    Sized (listSz sz) (Dec.fieldsDef ms n) := by
  induction ms generalizing n with
  | nil =>
    unfold Dec.fieldsDef
    exact SizedBy.bindC (k := 0) (Suffix.repeatN (Suffix.skip true) n).consumes0 (fun _ => SizedBy.pure (Nat.zero_le _))
  | cons m ms ih =>
    have h1 := h m (List.mem_cons_self ..)
    have h2 := ih (fun m' hm' => h m' (List.mem_cons_of_mem _ hm'))
    cases n with
    | zero => unfold Dec.fieldsDef; exact SizedBy.fail _ _ _
    | succ n => unfold Dec.fieldsDef; exact SizedBy.bind h1 (fun x => SizedBy.cons_tail (h2 n))

theorem fieldsDef_length {ms : List (Dec α)} {n : Nat} {bs : Bytes} {l : List α} {r : Bytes}
    (h : Dec.fieldsDef ms n bs = .ok l r) : l.length = ms.length := by
  induction ms generalizing n bs l r with
  | nil =>
    unfold Dec.fieldsDef at h
    obtain ⟨_, _, _, h2⟩ := bind_ok_inv h
    cases h2; rfl
  | cons m ms ih =>
    cases n with
    | zero => unfold Dec.fieldsDef at h; cases h
    | succ n =>
      unfold Dec.fieldsDef at h
      obtain ⟨x, r1, _, h⟩ := bind_ok_inv h
      obtain ⟨xs, r2, h2, h⟩ := bind_ok_inv h
      have := ih h2
      cases h; simp [this]

theorem fieldsIndef_ne_panic {ms : List (Dec α)} (h : ∀ m ∈ ms, NoPanic m) (hs : ∀ m ∈ ms, Consumes m 0)
    (fuel : Nat) (bs : Bytes) (hf : bs.length < fuel) : Dec.fieldsIndef ms fuel bs ≠ .panic := by
  induction ms generalizing bs with
  | nil =>
    unfold Dec.fieldsIndef
    apply bind_ne_panic (skipUntilBreak_ne_panic fuel bs hf)
    intro _ _ _; simp
  | cons m ms ih =>
    unfold Dec.fieldsIndef
    apply bind_ne_panic (NoPanic.datatype _)
    intro ty r hty
    have hr := Consumes.datatype bs ty r hty
    split
    · apply bind_ne_panic (NoPanic.skip _ _)
      intro _ _ _; simp
    · apply bind_ne_panic (h m (List.mem_cons_self ..) _)
      intro v r' hv
      have := hs m (List.mem_cons_self ..) r v r' hv
      apply bind_ne_panic (ih (fun m' hm' => h m' (List.mem_cons_of_mem _ hm'))
        (fun m' hm' => hs m' (List.mem_cons_of_mem _ hm')) r' (by omega))
      intro _ _ _; simp

theorem Suffix.fieldsIndef {ms : List (Dec α)} (h : ∀ m ∈ ms, Suffix m) (fuel : Nat) :
    Suffix (Dec.fieldsIndef ms fuel) := by
  induction ms with
  | nil =>
    unfold Dec.fieldsIndef
    have := Suffix.skipUntilBreak fuel
    suffix
  | cons m ms ih =>
    have := h m (List.mem_cons_self ..)
    have := ih (fun m' hm' => h m' (List.mem_cons_of_mem _ hm'))
    have := Suffix.datatype
    have := Suffix.skip true
    unfold Dec.fieldsIndef; suffix

theorem Sized.fieldsIndef {ms : List (Dec α)} {sz : α → Nat} (h : ∀ m ∈ ms, Sized sz m) (fuel : Nat) :
    Sized (listSz sz) (Dec.fieldsIndef ms fuel) := by
  induction ms with
  | nil =>
    unfold Dec.fieldsIndef
    exact SizedBy.bindC (k := 0) (Suffix.skipUntilBreak fuel).consumes0 (fun _ => SizedBy.pure (Nat.zero_le _))
  | cons m ms ih =>
    have h1 := h m (List.mem_cons_self ..)
    have h2 := ih (fun m' hm' => h m' (List.mem_cons_of_mem _ hm'))
    unfold Dec.fieldsIndef
    refine SizedBy.bindC Consumes.datatype (fun ty => ?_)
    refine SizedBy.ite ?_ ?_
    · exact SizedBy.bindC (k := 0) (Suffix.skip true).consumes0 (fun _ => SizedBy.fail _ _ _)
    · exact SizedBy.bind h1 (fun x => SizedBy.cons_tail h2)

theorem fieldsIndef_length {ms : List (Dec α)} {fuel : Nat} {bs : Bytes} {l : List α} {r : Bytes}
    (h : Dec.fieldsIndef ms fuel bs = .ok l r) : l.length = ms.length := by
  induction ms generalizing bs l r with
  | nil =>
    unfold Dec.fieldsIndef at h
    obtain ⟨_, _, _, h2⟩ := bind_ok_inv h
    cases h2; rfl
  | cons m ms ih =>
    unfold Dec.fieldsIndef at h
    obtain ⟨ty, r0, _, h⟩ := bind_ok_inv h
    split at h
    · obtain ⟨_, _, _, h⟩ := bind_ok_inv h
      cases h
    · obtain ⟨x, r1, _, h⟩ := bind_ok_inv h
      obtain ⟨xs, r2, h2, h⟩ := bind_ok_inv h
      have := ih h2
      cases h; simp [this]

theorem NoPanic.fieldsDec {ms : List (Dec α)} (h : ∀ m ∈ ms, NoPanic m) (hs : ∀ m ∈ ms, Consumes m 0) :
    NoPanic (Dec.fieldsDec ms) := by
  unfold Dec.fieldsDec
  have := NoPanic.array
  have := NoPanic.fieldsDef h
  have : NoPanic (Dec.remaining >>= fun r => Dec.fieldsIndef ms (r.length + 1)) := by
    intro bs hp
    simp only [Dec.bind_run, Dec.remaining] at hp
    exact fieldsIndef_ne_panic h hs _ bs (by omega) hp
  nopanic'

theorem Suffix.fieldsDec {ms : List (Dec α)} (h : ∀ m ∈ ms, Suffix m) : Suffix (Dec.fieldsDec ms) := by
  unfold Dec.fieldsDec
  have := Suffix.array
  have := Suffix.fieldsDef h
  have := Suffix.fieldsIndef h
  suffix

theorem Sized.fieldsDec {ms : List (Dec α)} {sz : α → Nat} (h : ∀ m ∈ ms, Sized sz m) :
    Sized (fun l => 1 + listSz sz l) (Dec.fieldsDec ms) := by
  unfold Dec.fieldsDec
  refine SizedBy.bindC Consumes.array (fun o => ?_)
  split
  · exact (Sized.fieldsDef h _).weaken (fun _ => by omega)
  · refine SizedBy.bindC Consumes.remaining (fun r => ?_)
    exact (Sized.fieldsIndef h _).weaken (fun _ => by omega)

theorem fieldsDec_length {ms : List (Dec α)} {bs : Bytes} {l : List α} {r : Bytes}
    (h : Dec.fieldsDec ms bs = .ok l r) : l.length = ms.length := by
  unfold Dec.fieldsDec at h
  obtain ⟨o, r0, _, h⟩ := bind_ok_inv h
  split at h
  · exact fieldsDef_length h
  · obtain ⟨_, _, _, h⟩ := bind_ok_inv h
    exact fieldsIndef_length h

theorem EoiNil.fieldsDec (ms : List (Dec α)) : EoiNil (Dec.fieldsDec ms) := EoiNil.bind _ EoiNil.array

/-! ### enum variants, Duration / SystemTime -/

theorem NoPanic.pickVariant {ms : List (Dec Val)} (h : ∀ m ∈ ms, NoPanic m) (i : Nat) :
    NoPanic (Dec.pickVariant ms i) := by
  unfold Dec.pickVariant
  split
  · rename_i m hm
    have := h m (List.mem_of_getElem? hm)
    nopanic'
  · exact NoPanic.fail _

theorem Suffix.pickVariant {ms : List (Dec Val)} (h : ∀ m ∈ ms, Suffix m) (i : Nat) :
    Suffix (Dec.pickVariant ms i) := by
  unfold Dec.pickVariant
  split
  · rename_i m hm
    have := h m (List.mem_of_getElem? hm)
    suffix
  · exact Suffix.fail _

/-! ### the fuel is only a proof device: any fuel above the remaining length gives the same
    answer (so each loop body runs at most `remaining + 1` times and the choice
    `remaining + 1` made by the model does not influence any result) -/

theorem bind_congr_at {m : Dec α} {f g : α → Dec β} {bs : Bytes}
    (h : ∀ a r, m bs = .ok a r → f a r = g a r) : (m >>= f) bs = (m >>= g) bs := by
  rw [Dec.bind_run, Dec.bind_run]
  cases hmb : m bs with
  | ok a r => exact h a r hmb
  | err e r => rfl
  | panic => rfl

theorem untilBreak_fuel {m : Dec α} (hc : Consumes m 1) (f1 f2 : Nat) (bs : Bytes)
    (h1 : bs.length < f1) (h2 : bs.length < f2) : Dec.untilBreak m f1 bs = Dec.untilBreak m f2 bs := by
  induction f1 generalizing f2 bs with
  | zero => omega
  | succ f1 ih =>
    cases f2 with
    | zero => omega
    | succ f2 =>
      unfold Dec.untilBreak
      refine bind_congr_at (fun b r hb => ?_)
      have hr := current_ok hb; subst hr
      split
      · rfl
      · refine bind_congr_at (fun x r' hx => ?_)
        have := hc r x r' hx
        rw [Dec.bind_run, Dec.bind_run, ih f2 r' (by omega) (by omega)]

theorem arrayNIndef_fuel {m : Dec α} (hc : Consumes m 1) (n f1 f2 k : Nat) (bs : Bytes)
    (h1 : bs.length < f1) (h2 : bs.length < f2) :
    Dec.arrayNIndef m n f1 k bs = Dec.arrayNIndef m n f2 k bs := by
  induction f1 generalizing f2 bs k with
  | zero => omega
  | succ f1 ih =>
    cases f2 with
    | zero => omega
    | succ f2 =>
      unfold Dec.arrayNIndef
      refine bind_congr_at (fun b r hb => ?_)
      have hr := current_ok hb; subst hr
      split
      · rfl
      · refine bind_congr_at (fun x r' hx => ?_)
        have := hc r x r' hx
        split
        · rfl
        · rw [Dec.bind_run, Dec.bind_run, ih f2 (k + 1) r' (by omega) (by omega)]

theorem skipUntilBreak_fuel (f1 f2 : Nat) (bs : Bytes) (h1 : bs.length < f1) (h2 : bs.length < f2) :
    Dec.skipUntilBreak f1 bs = Dec.skipUntilBreak f2 bs := by
  induction f1 generalizing f2 bs with
  | zero => omega
  | succ f1 ih =>
    cases f2 with
    | zero => omega
    | succ f2 =>
      unfold Dec.skipUntilBreak
      refine bind_congr_at (fun ty r hty => ?_)
      have hr := Consumes.datatype bs ty r hty
      split
      · rfl
      · refine bind_congr_at (fun u r' hs => ?_)
        have := Consumes.skip true r u r' hs
        exact ih f2 r' (by omega) (by omega)

theorem chunkLoop_fuel (text : Bool) (f1 f2 : Nat) (bs : Bytes) (h1 : bs.length < f1) (h2 : bs.length < f2) :
    Dec.chunkLoop text f1 bs = Dec.chunkLoop text f2 bs := by
  induction f1 generalizing f2 bs with
  | zero => omega
  | succ f1 ih =>
    cases f2 with
    | zero => omega
    | succ f2 =>
      unfold Dec.chunkLoop
      refine bind_congr_at (fun b r hb => ?_)
      have hr := current_ok hb; subst hr
      split
      · rfl
      · refine bind_congr_at (fun x r' hx => ?_)
        have := Consumes.chunk text r x r' hx
        rw [Dec.bind_run, Dec.bind_run, ih f2 r' (by omega) (by omega)]

theorem skipLoop_fuel (alloc : Bool) (f1 f2 : Nat) (s : SkipSt) (bs : Bytes)
    (h1 : bs.length < f1) (h2 : bs.length < f2) : Dec.skipLoop alloc f1 s bs = Dec.skipLoop alloc f2 s bs := by
  induction f1 generalizing f2 bs s with
  | zero => omega
  | succ f1 ih =>
    cases f2 with
    | zero => omega
    | succ f2 =>
      unfold Dec.skipLoop
      split
      · rfl
      · refine bind_congr_at (fun a r ha => ?_)
        have := Consumes.skipArm alloc s bs a r ha
        cases a with
        | cont s' => exact ih f2 s' r (by omega) (by omega)
        | next s' =>
          refine bind_congr_at (fun o r' ho => ?_)
          have := Consumes.skipPost alloc s' r o r' ho
          cases o with
          | none => rfl
          | some s'' => exact ih f2 s'' r' (by omega) (by omega)

end Minicbor.Dec
