/-
  Complete finite table: each of the 65 536 binary16 patterns is converted by `f16ToF32`
  (the model of `half::f16::to_f32`) to a binary32 pattern denoting exactly the same value
  (same sign and magnitude, infinity to the same infinity, NaN to NaN).
  Checked by kernel evaluation (`decide +kernel`), no `native_decide`.
-/
import Minicbor.Float

namespace Minicbor

theorem f16_decode_table : ∀ h, h < 65536 → val32 (f16ToF32 h) = val16 h := by
  have key : (List.range 65536).all (fun h => decide (val32 (f16ToF32 h) = val16 h)) = true := by
    decide +kernel
  intro h hh
  have := List.all_eq_true.mp key h (List.mem_range.mpr hh)
  exact of_decide_eq_true this

end Minicbor
