/-
  Complete finite table: each of the 65 536 binary16 patterns is converted by `f16ToF32`
  (the model of `half::f16::to_f32`) to a binary32 pattern denoting exactly the same value
  (same sign and magnitude, infinity to the same infinity, NaN to NaN).
  Checked by kernel evaluation (`decide +kernel`) in 4 × 16 chunks, no `native_decide`.
-/
import Minicbor.Lemmas.FloatTabDecode0
import Minicbor.Lemmas.FloatTabDecode1
import Minicbor.Lemmas.FloatTabDecode2
import Minicbor.Lemmas.FloatTabDecode3

namespace Minicbor
open FloatTab

theorem f16_decode_table : ∀ h, h < 65536 → val32 (f16ToF32 h) = val16 h := by
  have a0 : allFrom 0 16384 decP0 = true := decP0_all
  have a1 : allFrom 0 32768 decP0 = true := allFrom_append a0 decP1_all (by decide) (by decide)
  have a2 : allFrom 0 49152 decP0 = true := allFrom_append a1 decP2_all (by decide) (by decide)
  have a3 : allFrom 0 65536 decP0 = true := allFrom_append a2 decP3_all (by decide) (by decide)
  intro h hh
  have := allFrom_spec a3 h (by omega) (by omega)
  exact of_decide_eq_true this

end Minicbor
