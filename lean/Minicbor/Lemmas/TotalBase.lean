/-
  C02 infrastructure, part 1: the predicates used for "decoding is total" and their
  compositional rules.

  * `Dec.NoPanic m`  (Lemmas/NoPanic.lean)  — never `Res.panic` (includes: local fuels suffice),
  * `Dec.Suffix m`   — after ANY outcome (ok or err) the remaining input is a suffix of the
                       remaining input before: the position never leaves the buffer and never
                       moves backwards,
  * `Dec.EoiNil m`   — on the empty remaining input (position ≥ length) the action returns
                       `end of input` and stays where it is,
  * `Dec.SizedBy c sz m` — on success, `sz value + remaining ≤ c + remaining before`: the decoded
                       value is paid for by consumed bytes (`c` = credit from bytes already consumed
                       by the caller).  `Sized sz m = SizedBy 0 sz m`; `Consumes m k` of
                       Lemmas/SkipLocal.lean is `Sized (fun _ => k) m`.
-/
import Minicbor.Types
import Minicbor.Lemmas.NoPanic
import Minicbor.Lemmas.SkipLocal
import Minicbor.Lemmas.TokenBasic

namespace Minicbor.Dec

/-- inversion of a successful bind. -/
theorem bind_ok_inv {m : Dec α} {f : α → Dec β} {bs : Bytes} {b : β} {r : Bytes}
    (h : (m >>= f) bs = .ok b r) : ∃ a r', m bs = .ok a r' ∧ f a r' = .ok b r := by
  rw [Dec.bind_run] at h
  cases hmb : m bs with
  | ok a r' => rw [hmb] at h; exact ⟨a, r', rfl, h⟩
  | err e r' => rw [hmb] at h; cases h
  | panic => rw [hmb] at h; cases h

/-- inversion of a failing bind. -/
theorem bind_err_inv {m : Dec α} {f : α → Dec β} {bs : Bytes} {e : Err} {r : Bytes}
    (h : (m >>= f) bs = .err e r) :
    m bs = .err e r ∨ ∃ a r', m bs = .ok a r' ∧ f a r' = .err e r := by
  rw [Dec.bind_run] at h
  cases hmb : m bs with
  | ok a r' => rw [hmb] at h; exact .inr ⟨a, r', rfl, h⟩
  | err e' r' => rw [hmb] at h; cases h; exact .inl rfl
  | panic => rw [hmb] at h; cases h

/-! ### Suffix -/

def Suffix (m : Dec α) : Prop :=
  ∀ bs, (∀ a r, m bs = .ok a r → r <:+ bs) ∧ (∀ e r, m bs = .err e r → r <:+ bs)

namespace Suffix

theorem pure (a : α) : Suffix (Pure.pure a : Dec α) := by
  intro bs; constructor
  · intro a' r h; cases h; exact List.suffix_refl _
  · intro e r h; cases h

theorem fail (e : Err) : Suffix (Dec.fail e : Dec α) := by
  intro bs; constructor
  · intro a' r h; cases h
  · intro e r h; cases h; exact List.suffix_refl _

theorem panic : Suffix (Dec.panic : Dec α) := by
  intro bs; constructor
  · intro a' r h; cases h
  · intro e r h; cases h

theorem read : Suffix Dec.read := by
  intro bs; cases bs with
  | nil => constructor
           · intro a r h; cases h
           · intro e r h; cases h; exact List.suffix_refl _
  | cons b bs => constructor
                 · intro a r h; cases h; exact List.suffix_cons _ _
                 · intro e r h; cases h

theorem current : Suffix Dec.current := by
  intro bs; cases bs with
  | nil => constructor
           · intro a r h; cases h
           · intro e r h; cases h; exact List.suffix_refl _
  | cons b bs => constructor
                 · intro a r h; cases h; exact List.suffix_refl _
                 · intro e r h; cases h

theorem peek : Suffix Dec.peek := by
  intro bs
  match bs with
  | [] => constructor
          · intro a r h; cases h
          · intro e r h; cases h; exact List.suffix_refl _
  | [_] => constructor
           · intro a r h; cases h
           · intro e r h; cases h; exact List.suffix_refl _
  | _ :: _ :: _ => constructor
                   · intro a r h; cases h; exact List.suffix_refl _
                   · intro e r h; cases h

theorem remaining : Suffix Dec.remaining := by
  intro bs; constructor
  · intro a r h; cases h; exact List.suffix_refl _
  · intro e r h; cases h

theorem readSlice (n : Nat) : Suffix (Dec.readSlice n) := by
  intro bs; unfold Dec.readSlice; constructor
  · intro a r h; split at h
    · cases h; exact List.drop_suffix _ _
    · cases h
  · intro e r h; split at h
    · cases h
    · cases h; exact List.suffix_refl _

theorem bind {m : Dec α} {f : α → Dec β} (hm : Suffix m) (hf : ∀ a, Suffix (f a)) :
    Suffix (m >>= f) := by
  intro bs
  rw [Dec.bind_run]
  cases hmb : m bs with
  | ok a r' =>
    have h1 := (hm bs).1 a r' hmb
    exact ⟨fun b r h => ((hf a r').1 b r h).trans h1, fun e r h => ((hf a r').2 e r h).trans h1⟩
  | err e r' =>
    have h1 := (hm bs).2 e r' hmb
    exact ⟨fun b r h => (by cases h), fun e' r h => (by cases h; exact h1)⟩
  | panic => exact ⟨fun b r h => (by cases h), fun e' r h => (by cases h)⟩

theorem ite {c : Prop} [Decidable c] {a b : Dec α} (ha : Suffix a) (hb : Suffix b) :
    Suffix (if c then a else b) := by
  split <;> assumption

/-- lengths: a suffix is not longer. -/
theorem length_ok {m : Dec α} (h : Suffix m) {bs : Bytes} {a : α} {r : Bytes} (e : m bs = .ok a r) :
    r.length ≤ bs.length := ((h bs).1 a r e).length_le

theorem length_err {m : Dec α} (h : Suffix m) {bs : Bytes} {e : Err} {r : Bytes} (he : m bs = .err e r) :
    r.length ≤ bs.length := ((h bs).2 e r he).length_le

end Suffix

/-- discharge `Suffix` goals for code built from the primitives, `if` and `match`. -/
macro "suffix" : tactic =>
  `(tactic| repeat' (first
      | exact Suffix.pure _ | exact Suffix.fail _ | exact Suffix.read | exact Suffix.current
      | exact Suffix.peek | exact Suffix.remaining | exact Suffix.readSlice _ | exact Suffix.panic
      | assumption | solve_by_elim -exfalso -symm (maxDepth := 2)
      | refine Suffix.bind ?_ (fun _ => ?_) | apply Suffix.ite | split | dsimp only))

/-- the same for `NoPanic`, also splitting `match`. -/
macro "nopanic'" : tactic =>
  `(tactic| repeat' (first
      | exact NoPanic.pure _ | exact NoPanic.fail _ | exact NoPanic.read | exact NoPanic.current
      | exact NoPanic.peek | exact NoPanic.remaining | exact NoPanic.readSlice _
      | assumption | solve_by_elim -exfalso -symm (maxDepth := 2)
      | refine NoPanic.bind ?_ (fun _ => ?_) | apply NoPanic.ite | split | dsimp only))

/-! ### EoiNil -/

def EoiNil (m : Dec α) : Prop := m [] = .err .eoi []

namespace EoiNil
theorem read : EoiNil Dec.read := rfl
theorem current : EoiNil Dec.current := rfl
theorem peek : EoiNil Dec.peek := rfl
theorem bind {m : Dec α} (f : α → Dec β) (hm : EoiNil m) : EoiNil (m >>= f) := by
  unfold EoiNil at *; rw [Dec.bind_run, hm]
end EoiNil

/-! ### SizedBy -/

def SizedBy (c : Nat) (sz : α → Nat) (m : Dec α) : Prop :=
  ∀ bs a r, m bs = .ok a r → sz a + r.length ≤ c + bs.length

abbrev Sized (sz : α → Nat) (m : Dec α) : Prop := SizedBy 0 sz m

namespace SizedBy

theorem mono {c c' : Nat} {sz sz' : α → Nat} {m : Dec α} (h : SizedBy c sz m) (hc : c ≤ c')
    (hs : ∀ a, sz' a ≤ sz a) : SizedBy c' sz' m := by
  intro bs a r e; have := h bs a r e; have := hs a; omega

theorem weaken {c c' : Nat} {sz sz' : α → Nat} {m : Dec α} (h : SizedBy c sz m)
    (hs : ∀ a, sz' a + c ≤ sz a + c') : SizedBy c' sz' m := by
  intro bs a r e; have := h bs a r e; have := hs a; omega

theorem pure {c : Nat} {sz : α → Nat} {a : α} (h : sz a ≤ c) : SizedBy c sz (Pure.pure a : Dec α) := by
  intro bs a' r e; cases e; omega

theorem fail (c : Nat) (sz : α → Nat) (e : Err) : SizedBy c sz (Dec.fail e : Dec α) := by
  intro bs a r h; cases h

theorem panic (c : Nat) (sz : α → Nat) : SizedBy c sz (Dec.panic : Dec α) := by
  intro bs a r h; cases h

theorem bind {c : Nat} {s1 : α → Nat} {s2 : β → Nat} {m : Dec α} {f : α → Dec β}
    (hm : SizedBy c s1 m) (hf : ∀ a, SizedBy (s1 a) s2 (f a)) : SizedBy c s2 (m >>= f) := by
  intro bs b r h
  rw [Dec.bind_run] at h
  cases hmb : m bs with
  | ok a r' =>
    rw [hmb] at h
    have h1 := hm bs a r' hmb
    have h2 := hf a r' b r h
    omega
  | err e r' => rw [hmb] at h; cases h
  | panic => rw [hmb] at h; cases h

/-- bind after an action that consumes at least `k` bytes whatever it returns. -/
theorem bindC {c k : Nat} {s2 : β → Nat} {m : Dec α} {f : α → Dec β}
    (hm : Consumes m k) (hf : ∀ a, SizedBy (c + k) s2 (f a)) : SizedBy c s2 (m >>= f) := by
  intro bs b r h
  rw [Dec.bind_run] at h
  cases hmb : m bs with
  | ok a r' =>
    rw [hmb] at h
    have h1 := hm bs a r' hmb
    have h2 := hf a r' b r h
    omega
  | err e r' => rw [hmb] at h; cases h
  | panic => rw [hmb] at h; cases h

theorem ite {p : Prop} [Decidable p] {c : Nat} {sz : α → Nat} {a b : Dec α}
    (ha : SizedBy c sz a) (hb : SizedBy c sz b) : SizedBy c sz (if p then a else b) := by
  split <;> assumption

theorem of_consumes {m : Dec α} {k : Nat} (h : Consumes m k) : SizedBy 0 (fun _ => k) m := by
  intro bs a r e; have := h bs a r e; show k + _ ≤ _; omega

theorem to_consumes {m : Dec α} {sz : α → Nat} {k : Nat} (h : SizedBy 0 sz m) (hk : ∀ a, k ≤ sz a) :
    Consumes m k := by
  intro bs a r e; have := h bs a r e; have := hk a; omega

end SizedBy

/-- total size of a list of values. -/
def listSz (sz : α → Nat) : List α → Nat
  | [] => 0
  | a :: l => sz a + listSz sz l

@[simp] theorem listSz_nil (sz : α → Nat) : listSz sz [] = 0 := rfl
@[simp] theorem listSz_cons (sz : α → Nat) (a : α) (l : List α) : listSz sz (a :: l) = sz a + listSz sz l := rfl

theorem listSz_append (sz : α → Nat) (l₁ l₂ : List α) : listSz sz (l₁ ++ l₂) = listSz sz l₁ + listSz sz l₂ := by
  induction l₁ with
  | nil => simp
  | cons a l ih => simp [ih]; omega

theorem listSz_flatten (sz : α → Nat) (ls : List (List α)) : listSz sz ls.flatten = listSz (listSz sz) ls := by
  induction ls with
  | nil => rfl
  | cons l ls ih => simp [listSz_append, ih]

theorem length_le_listSz (sz : α → Nat) (h : ∀ a, 1 ≤ sz a) (l : List α) : l.length ≤ listSz sz l := by
  induction l with
  | nil => simp
  | cons a l ih => have := h a; simp; omega

theorem SizedBy.readSlice (c n : Nat) : SizedBy c (fun b => c + b.length) (Dec.readSlice n) := by
  intro bs a r h
  unfold Dec.readSlice at h
  split at h
  · cases h; simp; omega
  · cases h

theorem SizedBy.typeMismatch (c : Nat) (sz : α → Nat) (b : UInt8) : SizedBy c sz (Dec.typeMismatch b : Dec α) := by
  intro bs a r h
  have := Consumes.typeMismatch (α := α) b (bs.length + 1) bs a r h
  omega

/-- `Suffix` gives `Consumes _ 0`. -/
theorem Suffix.consumes0 {m : Dec α} (h : Suffix m) : Consumes m 0 := by
  intro bs a r e; have := h.length_ok e; omega

end Minicbor.Dec
