/-
  C09: soundness of the re-framing relation `rf` (Reframe.lean) with respect to the documented
  format: a tree in the relation has the documented data-model value (`value w = specTy t v`) and
  no chunked strings — so `derive_decode_reframed` speaks about (a subset of) exactly the trees of
  `derive_decode_reframed_statement`.  Non-recursive parts; the mutual induction over the schema
  is in Thm/C09Round.lean.
-/
import Minicbor.Lemmas.DeriveReframePref

namespace Minicbor.Derive

/-- what the relation must guarantee about a tree: the data-model value, and no chunked strings. -/
def Snd (w : WItem) (i : Item) : Prop := value w = i ∧ noChunks w = true

theorem snd_untag (t : Option Nat) (x y : WItem) (i : Item) (h : untagW t x = some y) (hy : Snd y i) : Snd x (tagI t i) := by
  cases t with
  | none => simp only [untagW] at h; cases h; exact hy
  | some n =>
    cases x <;> simp [untagW] at h
    rename_i wd m z
    obtain ⟨hm, rfl⟩ := h
    subst hm
    exact ⟨by simp [value, tagI, hy.1], by simp [noChunks, hy.2]⟩

theorem values_get : ∀ (xs : List WItem) (i : Nat), (values xs)[i]? = (xs[i]?).map value
  | [], i => by simp [values]
  | x :: xs, 0 => by simp [values]
  | x :: xs, i + 1 => by simp [values, values_get xs i]

theorem noChunksAll_of : ∀ (xs : List WItem), (∀ x ∈ xs, noChunks x = true) → noChunksAll xs = true
  | [], _ => rfl
  | x :: xs, h => by
    simp only [noChunksAll, Bool.and_eq_true]
    exact ⟨h x (by simp), noChunksAll_of xs (fun y hy => h y (by simp [hy]))⟩

theorem snd_int (i : Int) (w : WItem) (h : isIntW i w = true) : Snd w (intItem i) := by
  cases w <;> simp [isIntW] at h
  · rename_i wd n
    subst h
    refine ⟨?_, rfl⟩
    simp [value, intItem]
  · rename_i wd n
    subst h
    refine ⟨?_, rfl⟩
    have h1 : ¬ ((-1 : Int) - (n : Int) ≥ 0) := by omega
    have h2 : ((-1 : Int) - ((-1 : Int) - (n : Int))).toNat = n := by omega
    simp only [value, intItem, h1, if_false, h2]

theorem snd_null (w : WItem) (h : isNullW w = true) : Snd w nullI := by
  rw [isNullW_eq w h]; exact ⟨rfl, rfl⟩

theorem snd_uint (n : Nat) (w : WItem) (h : isUintW n w = true) : Snd w (.uint n) := by
  obtain ⟨wd, rfl⟩ := isUintW_eq n w h
  exact ⟨rfl, rfl⟩

/-- `Vec`: pointwise. -/
theorem snd_all2 (t : FTy) : ∀ (vs : List Val) (xs : List WItem), all2 (rf t) vs xs = true →
    (∀ v ∈ vs, ∀ x ∈ xs, rf t v x = true → Snd x (specTy t v)) →
    values xs = vs.map (specTy t) ∧ noChunksAll xs = true
  | [], [], _, _ => ⟨rfl, rfl⟩
  | v :: vs, x :: xs, h, hd => by
    simp only [all2, Bool.and_eq_true] at h
    obtain ⟨h1, h2⟩ := snd_all2 t vs xs h.2 (fun v' hv' x' hx' => hd v' (by simp [hv']) x' (by simp [hx']))
    have h0 := hd v (by simp) x (by simp) h.1
    exact ⟨by simp [values, h0.1, h1], by simp [noChunksAll, h0.2, h2]⟩
  | [], _ :: _, h, _ => by simp [all2] at h
  | _ :: _, [], h, _ => by simp [all2] at h

theorem snd_arr (w : WItem) (xs : List WItem) (items : List Item) (h : arrItems w = some xs)
    (hv : values xs = items) (hc : noChunksAll xs = true) : Snd w (.array items) := by
  cases w <;> simp [arrItems] at h
  all_goals
    subst h
    exact ⟨by simp [value, hv], by simp [noChunks, hc]⟩

theorem snd_map (w : WItem) (kvs : List WItem) (items : List Item) (h : mapItems w = some kvs)
    (hv : values kvs = items) (hc : noChunksAll kvs = true) : Snd w (.map items) := by
  cases w <;> simp [mapItems] at h
  all_goals
    subst h
    exact ⟨by simp [value, hv], by simp [noChunks, hc]⟩

/-- every field item in the relation has the documented value. -/
def FieldsVal : Fields → List Val → Prop
  | (a, t) :: fs, v :: vs =>
      (a.skip = false → ∀ y, rfWith a.codec (rf t) v y = true → Snd y (specWith a.codec (specTy t) v)) ∧ FieldsVal fs vs
  | _, _ => True

theorem FieldsVal_lookup : ∀ (fs : Fields) (vs : List Val) (i : Nat) (a : FAttr) (t : FTy) (v : Val),
    FieldsVal fs vs → lookupVal fs vs i = some (a, t, v) →
    ∀ y, rfWith a.codec (rf t) v y = true → Snd y (specWith a.codec (specTy t) v)
  | [], vs, _, _, _, _, _, h => by cases vs <;> simp [lookupVal] at h
  | (a', t') :: fs, [], _, _, _, _, _, h => by simp [lookupVal] at h
  | (a', t') :: fs, v' :: vs, i, a, t, v, hC, h => by
    simp only [lookupVal] at h
    split at h
    · rename_i hcond
      simp only [Bool.and_eq_true, Bool.not_eq_true', beq_iff_eq] at hcond
      cases h
      exact hC.1 hcond.1
    · exact FieldsVal_lookup fs vs i a t v hC.2 h

/-- the item on the wire at a field's index has the value of the documented cell. -/
theorem snd_cell (fs : Fields) (vs : List Val) (hty : hasFields fs vs = true) (hF : FieldsVal fs vs)
    (cell : Nat → Option WItem) (hrf : rfFields fs vs cell = true) (i : Nat) (a : FAttr) (t : FTy) (v : Val)
    (hl : lookupVal fs vs i = some (a, t, v)) (x : WItem) (hc : cell i = some x) :
    Snd x (cellAt (specFields fs vs) i) := by
  obtain ⟨y, h1, h2⟩ := rfFields_lookup fs vs cell i a t v hrf hl x hc
  rw [cellAt_lookup fs vs hty i a t v hl]
  exact snd_untag a.tag x y _ h1 (FieldsVal_lookup fs vs i a t v hF hl y h2)

theorem live_lookup (fs : Fields) (vs : List Val) (hty : hasFields fs vs = true) (i : Nat) (hi : i ∈ liveIdxs fs) :
    ∃ a t v, lookupVal fs vs i = some (a, t, v) := by
  cases hl : lookupVal fs vs i with
  | none => exact absurd hi ((lookupVal_none fs vs i hty).1 hl)
  | some x => exact ⟨x.1, x.2.1, x.2.2, rfl⟩

/-- array bodies. -/
theorem snd_body_array (fs : Fields) (vs : List Val) (hty : hasFields fs vs = true) (hF : FieldsVal fs vs)
    (body : WItem) (cell : Nat → Option WItem) (hc : bodyCells .array fs vs body = some cell)
    (hrf : rfFields fs vs cell = true) : Snd body (specArray (specFields fs vs)) := by
  simp only [bodyCells] at hc
  cases hai : arrItems body with
  | none => rw [hai] at hc; simp at hc
  | some xs =>
    rw [hai] at hc
    simp only at hc
    split at hc
    · rename_i hcond
      simp only [Bool.and_eq_true, beq_iff_eq] at hcond
      cases hc
      -- every cell
      have hcellv : ∀ i x, xs[i]? = some x → Snd x (cellAt (specFields fs vs) i) := by
        intro i x hx
        have hi : i < xs.length := by
          cases h : xs[i]? with
          | none => rw [h] at hx; cases hx
          | some _ => exact (List.getElem?_eq_some_iff.1 h).1
        by_cases hm : i ∈ liveIdxs fs
        · obtain ⟨a, t, v, hl⟩ := live_lookup fs vs hty i hm
          exact snd_cell fs vs hty hF _ hrf i a t v hl x hx
        · have hg := List.all_eq_true.1 hcond.2 i (by simp [hi])
          simp only [Bool.or_eq_true, List.contains_eq_mem, decide_eq_true_eq, hx] at hg
          rcases hg with hg | hg
          · exact absurd hg hm
          · rw [cellAt_gap fs vs hty i hm]; exact snd_null x hg
      have hvals : values xs = (List.range (arrLen fs vs)).map (cellAt (specFields fs vs)) := by
        apply List.ext_getElem?
        intro i
        rw [values_get]
        by_cases hi : i < xs.length
        · have hx : xs[i]? = some xs[i] := by simp [hi]
          rw [hx]
          have := (hcellv i xs[i] hx).1
          simp [this, ← hcond.1, hi]
        · have h1 : xs[i]? = none := by simp; omega
          rw [h1]
          have h2 := hcond.1
          have h3 : ((List.range (arrLen fs vs)).map (cellAt (specFields fs vs)))[i]? = none := by
            rw [List.getElem?_eq_none_iff]; simp; omega
          rw [h3]; rfl
      have hnc : noChunksAll xs = true := by
        apply noChunksAll_of
        intro x hx
        obtain ⟨i, hi, rfl⟩ := List.getElem_of_mem hx
        exact (hcellv i xs[i] (by simp [hi])).2
      have hspec : specArray (specFields fs vs) = .array ((List.range (arrLen fs vs)).map (cellAt (specFields fs vs))) := by
        rw [specArray_eq]
        unfold arrLen
        cases maxPresent (specFields fs vs) <;> rfl
      rw [hspec]
      exact snd_arr body xs _ hai hvals hnc
    · simp at hc

/-- the flattened entries of a map read through `entriesW`. -/
theorem entriesW_values : ∀ (kvs : List WItem) (es : List (Nat × WItem × WItem)), entriesW kvs = some es →
    values kvs = es.flatMap (fun e => [Item.uint e.1, value e.2.2]) ∧
    (noChunksAll kvs = true ↔ ∀ e ∈ es, noChunks e.2.2 = true)
  | [], es, h => by
    simp only [entriesW] at h
    cases h
    exact ⟨rfl, by simp [noChunksAll]⟩
  | [a], es, h => by cases a <;> simp [entriesW] at h
  | a :: x :: rest, es, h => by
    cases a with
    | uint wd n =>
      simp only [entriesW, Option.map_eq_some_iff] at h
      obtain ⟨es', hes', rfl⟩ := h
      obtain ⟨h1, h2⟩ := entriesW_values rest es' hes'
      refine ⟨by simp [values, value, h1], ?_⟩
      simp only [noChunksAll, noChunks, Bool.true_and, Bool.and_eq_true, List.mem_cons, forall_eq_or_imp, h2]
    | _ => simp [entriesW] at h

theorem flatMap_zip_eq {α β γ : Type} (f : α → List γ) (g : β → List γ) (k1 : α → Nat) (k2 : β → Nat) :
    ∀ (as : List α) (bs : List β), as.map k1 = bs.map k2 →
    (∀ a ∈ as, ∀ b ∈ bs, k1 a = k2 b → f a = g b) → as.flatMap f = bs.flatMap g
  | [], [], _, _ => rfl
  | a :: as, b :: bs, hk, h => by
    simp only [List.map_cons, List.cons.injEq] at hk
    rw [List.flatMap_cons, List.flatMap_cons, h a (by simp) b (by simp) hk.1,
      flatMap_zip_eq f g k1 k2 as bs hk.2 (fun a' ha' b' hb' => h a' (by simp [ha']) b' (by simp [hb']))]
  | [], _ :: _, hk, _ => by simp at hk
  | _ :: _, [], hk, _ => by simp at hk

theorem entries_flatMap : ∀ (S : List (Piece Item)),
    entries S = (S.filter fun p => !p.nil).flatMap (fun p => [Item.uint p.idx, tagI p.tag p.body])
  | [] => rfl
  | p :: ps => by
    cases hn : p.nil <;> simp [entries, hn, entries_flatMap ps]

/-- map bodies. -/
theorem snd_body_map (fs : Fields) (vs : List Val) (hacc : acceptedFields fs = true) (hty : hasFields fs vs = true)
    (hnd : (liveIdxs fs).Nodup) (hF : FieldsVal fs vs)
    (body : WItem) (cell : Nat → Option WItem) (hc : bodyCells .map fs vs body = some cell)
    (hrf : rfFields fs vs cell = true) : Snd body (specMap (specFields fs vs)) := by
  have nd : (idxs (specFields fs vs)).Nodup := by rw [C08.specFields_idxs fs vs hty]; exact hnd
  simp only [bodyCells] at hc
  cases hmi : mapItems body with
  | none => rw [hmi] at hc; simp at hc
  | some kvs =>
    rw [hmi] at hc
    simp only at hc
    cases hes : entriesW kvs with
    | none => rw [hes] at hc; simp at hc
    | some es =>
      rw [hes] at hc
      simp only at hc
      split at hc
      · rename_i hkeys
        have hkeys' : es.map (·.1) = presentIdxs fs vs := by simpa using hkeys
        cases hc
        have hndK : (es.map (·.1)).Nodup := by rw [hkeys']; exact presentIdxs_nodup fs vs hty hnd
        obtain ⟨hv1, hv2⟩ := entriesW_values kvs es hes
        -- each entry's item has the documented value
        have hentry : ∀ e ∈ es, ∀ p ∈ (sortP (specFields fs vs)).filter (fun p => !p.nil), e.1 = p.idx →
            Snd e.2.2 (tagI p.tag p.body) := by
          intro e he p hp hep
          have hp' : p ∈ specFields fs vs := (sortP_perm _).mem_iff.1 (List.mem_filter.1 hp).1
          have hlive : e.1 ∈ liveIdxs fs := by
            rw [hep, ← C08.specFields_idxs fs vs hty]; exact List.mem_map.2 ⟨p, hp', rfl⟩
          obtain ⟨a, t, v, hl⟩ := live_lookup fs vs hty e.1 hlive
          have hcell : (fun i => (es.find? (fun q => q.1 == i)).map (·.2.2)) e.1 = some e.2.2 := by
            simp only [find_key es e hndK he, Option.map_some]
          have := snd_cell fs vs hty hF _ hrf e.1 a t v hl e.2.2 hcell
          -- the cell at `p.idx` is `p`'s item
          have hfind : (specFields fs vs).find? (fun q => q.idx == e.1) = some p := by
            cases hf : (specFields fs vs).find? (fun q => q.idx == e.1) with
            | none =>
              have := List.find?_eq_none.1 hf p hp'
              simp [hep] at this
            | some q =>
              have hq := List.mem_of_find?_eq_some hf
              have hi : q.idx = e.1 := by simpa using List.find?_some hf
              have hinj : ∀ (l : List (Piece Item)), (idxs l).Nodup → ∀ x ∈ l, ∀ y ∈ l, x.idx = y.idx → x = y := by
                intro l
                induction l with
                | nil => intro _ x hx; simp at hx
                | cons z zs ih =>
                  intro hn x hx y hy hxy
                  have hn' : z.idx ∉ idxs zs ∧ (idxs zs).Nodup := List.nodup_cons.1 hn
                  rcases List.mem_cons.1 hx with rfl | hx' <;> rcases List.mem_cons.1 hy with rfl | hy'
                  · rfl
                  · exact absurd (List.mem_map.2 ⟨y, hy', hxy.symm⟩) hn'.1
                  · exact absurd (List.mem_map.2 ⟨x, hx', hxy⟩) hn'.1
                  · exact ih hn'.2 x hx' y hy' hxy
              rw [hinj _ nd q hq p hp' (by rw [hi, hep])]
          unfold cellAt at this
          rw [hfind] at this
          exact this
        have hkeysS : es.map (·.1) = ((sortP (specFields fs vs)).filter (fun p => !p.nil)).map (·.idx) := by
          rw [hkeys']
          unfold presentIdxs
          rw [C08.fields_spec fs vs hacc hty, sortP_map toBytes (fun _ => rfl)]
          simp [List.filter_map, Function.comp_def]
        have hvals : values kvs = entries (sortP (specFields fs vs)) := by
          rw [hv1, entries_flatMap]
          apply flatMap_zip_eq _ _ (·.1) (·.idx) _ _ hkeysS
          intro e he p hp hep
          have := (hentry e he p hp hep).1
          simp [this, hep]
        have hnc : noChunksAll kvs = true := by
          rw [hv2]
          intro e he
          -- the partner of `e` among the present pieces
          have hmem : e.1 ∈ ((sortP (specFields fs vs)).filter (fun p => !p.nil)).map (·.idx) := by
            rw [← hkeysS]; exact List.mem_map.2 ⟨e, he, rfl⟩
          obtain ⟨p, hp, hpe⟩ := List.mem_map.1 hmem
          exact (hentry e he p hp hpe.symm).2
        rw [C08.spec_map_shape _ nd]
        exact snd_map body kvs _ hmi hvals hnc
      · simp at hc

theorem snd_body (enc : Encoding) (fs : Fields) (vs : List Val) (hacc : acceptedFields fs = true)
    (hty : hasFields fs vs = true) (hnd : (liveIdxs fs).Nodup) (hF : FieldsVal fs vs)
    (body : WItem) (cell : Nat → Option WItem) (hc : bodyCells enc fs vs body = some cell)
    (hrf : rfFields fs vs cell = true) : Snd body (specBody enc (specFields fs vs)) := by
  cases enc
  · exact snd_body_array fs vs hty hF body cell hc hrf
  · exact snd_body_map fs vs hacc hty hnd hF body cell hc hrf

theorem snd_empty (enc : Encoding) (body : WItem) (h : isEmptyW enc body = true) : Snd body (specEmpty enc) := by
  cases enc with
  | array =>
    cases body <;> simp [isEmptyW, arrItems] at h
    all_goals
      rename_i xs
      cases xs with
      | nil => exact ⟨rfl, rfl⟩
      | cons => simp at h
  | map =>
    cases body <;> simp [isEmptyW, mapItems] at h
    all_goals
      rename_i xs
      cases xs with
      | nil => exact ⟨rfl, rfl⟩
      | cons => simp at h

/-- enum rows. -/
theorem snd_vars (e : EAttr) : ∀ (vars : Variants) (k : Nat) (vs : List Val) (w : WItem), acceptedVars e vars = true →
    hasVars vars k vs = true → FieldsVal (nthFields vars k) vs → rfVars e vars k vs w = true →
    Snd w (specVars e vars k vs)
  | [], _, _, _, _, hv, _, _ => by simp [hasVars] at hv
  | (va, fs) :: rest, 0, vs, w, ha, hv, hF, h => by
    simp only [acceptedVars, Bool.and_eq_true, decide_eq_true_eq] at ha
    simp only [hasVars] at hv
    obtain ⟨⟨⟨⟨⟨⟨_, _⟩, hacc⟩, hnd⟩, hunit⟩, hio⟩, _⟩ := ha
    simp only [nthFields] at hF
    simp only [rfVars] at h
    simp only [specVars]
    cases hix : e.indexOnly
    · rw [hix] at h
      simp only [Bool.false_eq_true, if_false] at h ⊢
      obtain ⟨kx, bx, body, hpair, hkx, hub, hcond⟩ := pair_inv va _ fs vs w h
      have hk := snd_uint va.idx kx hkx
      have hb : Snd bx (tagI va.tag (match va.shape with
          | .unit => specEmpty (va.enc.getD (e.enc.getD .array))
          | _ => specBody (va.enc.getD (e.enc.getD .array)) (specFields fs vs))) := by
        apply snd_untag va.tag bx body _ hub
        cases hsh : va.shape
        · rw [hsh] at hcond
          exact snd_empty _ body hcond
        all_goals
          rw [hsh] at hcond
          simp only at hcond
          cases hbc : bodyCells (va.enc.getD (e.enc.getD .array)) fs vs body with
          | none => rw [hbc] at hcond; simp at hcond
          | some cell =>
            rw [hbc] at hcond
            exact snd_body _ fs vs hacc hv (C08.nodupNat_nodup _ hnd) hF body cell hbc hcond
      rcases pairItems_inv w kx bx hpair with ⟨wd, rfl⟩ | rfl
      · refine ⟨?_, by simp [noChunks, noChunksAll, hk.2, hb.2]⟩
        simp only [value, values, hk.1, hb.1]
        rfl
      · refine ⟨?_, by simp [noChunks, noChunksAll, hk.2, hb.2]⟩
        simp only [value, values, hk.1, hb.1]
        rfl
    · rw [hix] at h
      simp only [if_true] at h ⊢
      exact snd_uint va.idx w h
  | (va, fs) :: rest, k + 1, vs, w, ha, hv, hF, h => by
    simp only [acceptedVars, Bool.and_eq_true] at ha
    simp only [hasVars] at hv
    simp only [nthFields] at hF
    simp only [rfVars] at h
    simp only [specVars]
    exact snd_vars e rest k vs w ha.2 hv hF h

end Minicbor.Derive
