/-
  `Token::decode` on each kind of head that a valid wire tree can start with (any width),
  followed by arbitrary bytes: it yields the token of `C11.toks` and leaves the rest.
-/
import Minicbor.Lemmas.TokenBasic
import Minicbor.Lemmas.TokenSpec
import Minicbor.Lemmas.Accessors
import Minicbor.Thm.C04
import Minicbor.Thm.C05

namespace Minicbor
open Dec C11

theorem datatype_cons (b : UInt8) (tl : Bytes) : Dec.datatype (b :: tl) = Dec.typeOf b (b :: tl) := rfl

/-- the arms of the `match d.datatype()?` in `Token::decode`. -/
def Dec.tokenArm (ty : CType) : Dec Token :=
  match ty with
  | .bool => do let b ← Dec.bool; pure (Token.bool b)
  | .u8 => do let v ← intAcc .u8; pure (.u8 v.toNat)
  | .u16 => do let v ← intAcc .u16; pure (.u16 v.toNat)
  | .u32 => do let v ← intAcc .u32; pure (.u32 v.toNat)
  | .u64 => do let v ← intAcc .u64; pure (.u64 v.toNat)
  | .i8 => do let v ← intAcc .i8; pure (.i8 v)
  | .i16 => do let v ← intAcc .i16; pure (.i16 v)
  | .i32 => do let v ← intAcc .i32; pure (.i32 v)
  | .i64 => do let v ← intAcc .i64; pure (.i64 v)
  | .int => do let v ← intAcc .int; pure (.int v)
  | .f16 => do let b ← Dec.f16; pure (.f16 b)
  | .f32 => do let b ← Dec.f32; pure (.f32 b)
  | .f64 => do let b ← Dec.f64; pure (.f64 b)
  | .bytes => do let b ← Dec.bytes; pure (.bytes b)
  | .string => do let b ← Dec.str; pure (.string b)
  | .tag => do let n ← Dec.tag; pure (.tag n)
  | .simple => do let n ← Dec.simple; pure (.simple n)
  | .array => do
      match (← Dec.array) with
      | some n => pure (.array n)
      | none => fail .type
  | .map => do
      match (← Dec.map) with
      | some n => pure (.map n)
      | none => fail .type
  | .bytesIndef => do skipByte; pure .beginBytes
  | .stringIndef => do skipByte; pure .beginString
  | .arrayIndef => do skipByte; pure .beginArray
  | .mapIndef => do skipByte; pure .beginMap
  | .null => do skipByte; pure .null
  | .undefined => do skipByte; pure .undefined
  | .break => do skipByte; pure .brk
  | .unknown _ => fail .type

theorem Dec.token_eq : Dec.token = Dec.datatype >>= Dec.tokenArm := rfl

/-- run `Token::decode` when the type is known. -/
theorem token_of_datatype {bs : Bytes} {ty : CType} (h : Dec.datatype bs = .ok ty bs) :
    Dec.token bs = Dec.tokenArm ty bs := by
  rw [Dec.token_eq, Dec.bind_run, h]

/-! ### integers -/

def uintTy : Width → CType
  | .w0 | .w1 => .u8 | .w2 => .u16 | .w4 => .u32 | .w8 => .u64

theorem datatype_uint (w : Width) (n : Nat) (rest : Bytes) (h : w.fits n = true) :
    Dec.datatype (headW 0 w n ++ rest) = .ok (uintTy w) (headW 0 w n ++ rest) := by
  cases w
  · simp [Width.fits] at h
    have h1 : n % 256 ≤ 24 := by omega
    simp [headW, datatype_cons, Dec.typeOf, Width.ai, uintTy, h1]
  all_goals simp [headW, datatype_cons, Dec.typeOf, Width.ai, uintTy]

theorem Dec.bind_pure_ok {m : Dec α} {g : α → β} {bs : Bytes} {a : α} {r : Bytes}
    (h : m bs = .ok a r) : (m >>= fun v => (pure (g v) : Dec β)) bs = .ok (g a) r := by
  rw [Dec.bind_run, h]; rfl

/- NB: `rw [Dec.bind_run]` on goals mentioning `IntTy.u32`/`IntTy.u64` sends the kernel into
   unary arithmetic on the 2^32 / 2^64 literals; `bind_pure_ok` avoids it. -/
theorem token_uint (w : Width) (n : Nat) (rest : Bytes) (h : w.fits n = true) :
    Dec.token (headW 0 w n ++ rest) = .ok (uintTok w n) rest := by
  rw [token_of_datatype (datatype_uint w n rest h)]
  have key : ∀ t : IntTy, t.neg = false → n ≤ t.max →
      intAcc t (headW 0 w n ++ rest) = .ok (n : Int) rest := by
    intro t _ hm
    have := C05.int_accessor_ok t w false n rest h (by simp) hm
    simpa [C05.intHead, C05.intVal] using this
  cases w <;> simp only [uintTy, uintTok, Dec.tokenArm, Width.fits, decide_eq_true_eq] at h ⊢
  · have hm : n ≤ IntTy.u8.max := by show n ≤ 255; omega
    exact Dec.bind_pure_ok (g := fun v : Int => Token.u8 v.toNat) (key .u8 rfl hm)
  · have hm : n ≤ IntTy.u8.max := by show n ≤ 255; omega
    exact Dec.bind_pure_ok (g := fun v : Int => Token.u8 v.toNat) (key .u8 rfl hm)
  · have hm : n ≤ IntTy.u16.max := by show n ≤ 65535; omega
    exact Dec.bind_pure_ok (g := fun v : Int => Token.u16 v.toNat) (key .u16 rfl hm)
  · have hm : n ≤ IntTy.u32.max := by show n ≤ 4294967295; omega
    exact Dec.bind_pure_ok (g := fun v : Int => Token.u32 v.toNat) (key .u32 rfl hm)
  · have hm : n ≤ IntTy.u64.max := by show n ≤ 18446744073709551615; omega
    exact Dec.bind_pure_ok (g := fun v : Int => Token.u64 v.toNat) (key .u64 rfl hm)

def nintTy : Width → Nat → CType
  | .w0, _ => .i8
  | .w1, n => if n < 128 then .i8 else .i16
  | .w2, n => if n < 32768 then .i16 else .i32
  | .w4, n => if n < 2147483648 then .i32 else .i64
  | .w8, n => if n < 9223372036854775808 then .i64 else .int

theorem datatype_nint (w : Width) (n : Nat) (rest : Bytes) (h : w.fits n = true) :
    Dec.datatype (headW 1 w n ++ rest) = .ok (nintTy w n) (headW 1 w n ++ rest) := by
  cases w <;> simp only [Width.fits, decide_eq_true_eq] at h
  · have h1 : ¬ (32 + n) % 256 ≤ 24 := by omega
    have h2 : 32 ≤ (32 + n) % 256 := by omega
    have h3 : (32 + n) % 256 ≤ 55 := by omega
    have h4 : ¬ (32 + n) % 256 = 25 := by omega
    have h5 : ¬ (32 + n) % 256 = 26 := by omega
    have h6 : ¬ (32 + n) % 256 = 27 := by omega
    simp [headW, datatype_cons, Dec.typeOf, Width.ai, nintTy, h1, h2, h3, h4, h5, h6]
  · have e : n % 256 = n := by omega
    simp [headW, datatype_cons, Dec.typeOf, Width.ai, Width.bytes, be, nintTy, Dec.bind_run, Dec.peek, e]
  · have e : n / 256 % 256 < 128 ↔ n < 32768 := by omega
    simp [headW, datatype_cons, Dec.typeOf, Width.ai, Width.bytes, be, nintTy, Dec.bind_run, Dec.peek, e]
  · have e : n / 16777216 % 256 < 128 ↔ n < 2147483648 := by omega
    simp [headW, datatype_cons, Dec.typeOf, Width.ai, Width.bytes, be, nintTy, Dec.bind_run, Dec.peek, e]
  · have e : n / 72057594037927936 % 256 < 128 ↔ n < 9223372036854775808 := by omega
    simp [headW, datatype_cons, Dec.typeOf, Width.ai, Width.bytes, be, nintTy, Dec.bind_run, Dec.peek, e]

theorem token_nint (w : Width) (n : Nat) (rest : Bytes) (h : w.fits n = true) :
    Dec.token (headW 1 w n ++ rest) = .ok (nintTok w n) rest := by
  rw [token_of_datatype (datatype_nint w n rest h)]
  have key : ∀ t : IntTy, t.neg = true → n ≤ t.max →
      intAcc t (headW 1 w n ++ rest) = .ok (-1 - (n : Int)) rest := by
    intro t ht hm
    have := C05.int_accessor_ok t w true n rest h (fun _ => ht) hm
    simpa [C05.intHead, C05.intVal] using this
  cases w <;> simp only [nintTy, nintTok, Width.fits, decide_eq_true_eq] at h ⊢
  · have hm : n ≤ IntTy.i8.max := by show n ≤ 127; omega
    exact Dec.bind_pure_ok (g := Token.i8) (key .i8 rfl hm)
  · split
    · have hm : n ≤ IntTy.i8.max := by show n ≤ 127; omega
      exact Dec.bind_pure_ok (g := Token.i8) (key .i8 rfl hm)
    · have hm : n ≤ IntTy.i16.max := by show n ≤ 32767; omega
      exact Dec.bind_pure_ok (g := Token.i16) (key .i16 rfl hm)
  · split
    · have hm : n ≤ IntTy.i16.max := by show n ≤ 32767; omega
      exact Dec.bind_pure_ok (g := Token.i16) (key .i16 rfl hm)
    · have hm : n ≤ IntTy.i32.max := by show n ≤ 2147483647; omega
      exact Dec.bind_pure_ok (g := Token.i32) (key .i32 rfl hm)
  · split
    · have hm : n ≤ IntTy.i32.max := by show n ≤ 2147483647; omega
      exact Dec.bind_pure_ok (g := Token.i32) (key .i32 rfl hm)
    · have hm : n ≤ IntTy.i64.max := by show n ≤ 9223372036854775807; omega
      exact Dec.bind_pure_ok (g := Token.i64) (key .i64 rfl hm)
  · split
    · have hm : n ≤ IntTy.i64.max := by show n ≤ 9223372036854775807; omega
      exact Dec.bind_pure_ok (g := Token.i64) (key .i64 rfl hm)
    · have hm : n ≤ IntTy.int.max := by show n ≤ 18446744073709551615; omega
      exact Dec.bind_pure_ok (g := Token.int) (key .int rfl hm)

/-! ### heads of major types 2..6 -/

/-- `type_of` on an initial byte in the range of the definite heads of major types 2..6. -/
theorem typeOf_major (b : UInt8) (bs : Bytes) (M : Nat) (ty : CType)
    (hM : (M = 64 ∧ ty = .bytes) ∨ (M = 96 ∧ ty = .string) ∨ (M = 128 ∧ ty = .array) ∨
          (M = 160 ∧ ty = .map) ∨ (M = 192 ∧ ty = .tag))
    (h1 : M ≤ b.toNat) (h2 : b.toNat ≤ M + 27) : Dec.typeOf b bs = .ok ty bs := by
  unfold Dec.typeOf
  generalize b.toNat = k at *
  rcases hM with ⟨rfl, rfl⟩ | ⟨rfl, rfl⟩ | ⟨rfl, rfl⟩ | ⟨rfl, rfl⟩ | ⟨rfl, rfl⟩
  all_goals
    simp (disch := omega) only [beq_iff_eq, Bool.and_eq_true, decide_eq_true_eq, Bool.or_eq_true, if_neg, if_pos]
    rfl

theorem datatype_major (M : Nat) (ty : CType) (w : Width) (n : Nat)
    (h : w.fits n = true)
    (hM : (M = 64 ∧ ty = .bytes) ∨ (M = 96 ∧ ty = .string) ∨ (M = 128 ∧ ty = .array) ∨
          (M = 160 ∧ ty = .map) ∨ (M = 192 ∧ ty = .tag)) (tl : Bytes) :
    Dec.datatype (u8 (M + w.ai n) :: tl) = .ok ty (u8 (M + w.ai n) :: tl) := by
  have ha := Width.ai_le w n h
  have hb : (u8 (M + w.ai n)).toNat = M + w.ai n := by rw [u8_toNat_mod]; omega
  rw [datatype_cons]
  exact typeOf_major _ _ M ty hM (by omega) (by omega)

theorem token_bytes (w : Width) (b rest : Bytes) (h : w.fits b.length = true) :
    Dec.token (encW (.bytes w b) ++ rest) = .ok (.bytes b) rest := by
  have hd := datatype_major 64 .bytes w b.length h (by simp) (be w.bytes b.length ++ (b ++ rest))
  have hb := C04.bytes_sound w b rest h
  simp only [encW, headW, List.cons_append, List.append_assoc, Nat.reduceMul] at hb ⊢
  rw [token_of_datatype hd]
  exact Dec.bind_ok _ _ _ _ _ hb

theorem token_text (w : Width) (b rest : Bytes) (h : w.fits b.length = true) (hu : validUtf8 b = true) :
    Dec.token (encW (.text w b) ++ rest) = .ok (.string b) rest := by
  have hd := datatype_major 96 .string w b.length h (by simp) (be w.bytes b.length ++ (b ++ rest))
  have hb := C04.str_sound w b rest h hu
  simp only [encW, headW, List.cons_append, List.append_assoc, Nat.reduceMul] at hb ⊢
  rw [token_of_datatype hd]
  exact Dec.bind_ok _ _ _ _ _ hb

theorem token_array (w : Width) (n : Nat) (rest : Bytes) (h : w.fits n = true) :
    Dec.token (headW 4 w n ++ rest) = .ok (.array n) rest := by
  have hd := datatype_major 128 .array w n h (by simp) (be w.bytes n ++ rest)
  have hb := C04.array_sound w n rest h
  simp only [headW, List.cons_append, Nat.reduceMul] at hb ⊢
  rw [token_of_datatype hd]
  exact Dec.bind_ok _ _ _ _ _ hb

theorem token_map (w : Width) (n : Nat) (rest : Bytes) (h : w.fits n = true) :
    Dec.token (headW 5 w n ++ rest) = .ok (.map n) rest := by
  have hd := datatype_major 160 .map w n h (by simp) (be w.bytes n ++ rest)
  have hb := C04.map_sound w n rest h
  simp only [headW, List.cons_append, Nat.reduceMul] at hb ⊢
  rw [token_of_datatype hd]
  exact Dec.bind_ok _ _ _ _ _ hb

theorem token_tag (w : Width) (n : Nat) (rest : Bytes) (h : w.fits n = true) :
    Dec.token (headW 6 w n ++ rest) = .ok (.tag n) rest := by
  have hd := datatype_major 192 .tag w n h (by simp) (be w.bytes n ++ rest)
  have hb := C04.tag_sound w n rest h
  simp only [headW, List.cons_append, Nat.reduceMul] at hb ⊢
  rw [token_of_datatype hd]
  exact Dec.bind_ok _ _ _ _ _ hb

/-! ### single-byte tokens -/

theorem token_beginBytes (rest : Bytes) : Dec.token (0x5f :: rest) = .ok .beginBytes rest := by
  rw [token_of_datatype (ty := .bytesIndef) (by simp [datatype_cons, Dec.typeOf])]
  simp [Dec.tokenArm, Dec.skipByte, Dec.bind_run]

theorem token_beginString (rest : Bytes) : Dec.token (0x7f :: rest) = .ok .beginString rest := by
  rw [token_of_datatype (ty := .stringIndef) (by simp [datatype_cons, Dec.typeOf])]
  simp [Dec.tokenArm, Dec.skipByte, Dec.bind_run]

theorem token_beginArray (rest : Bytes) : Dec.token (0x9f :: rest) = .ok .beginArray rest := by
  rw [token_of_datatype (ty := .arrayIndef) (by simp [datatype_cons, Dec.typeOf])]
  simp [Dec.tokenArm, Dec.skipByte, Dec.bind_run]

theorem token_beginMap (rest : Bytes) : Dec.token (0xbf :: rest) = .ok .beginMap rest := by
  rw [token_of_datatype (ty := .mapIndef) (by simp [datatype_cons, Dec.typeOf])]
  simp [Dec.tokenArm, Dec.skipByte, Dec.bind_run]

theorem token_break (rest : Bytes) : Dec.token (0xff :: rest) = .ok .brk rest := by
  rw [token_of_datatype (ty := .break) (by simp [datatype_cons, Dec.typeOf])]
  simp [Dec.tokenArm, Dec.skipByte, Dec.bind_run]

theorem token_null (rest : Bytes) : Dec.token (0xf6 :: rest) = .ok .null rest := by
  rw [token_of_datatype (ty := .null) (by simp [datatype_cons, Dec.typeOf])]
  simp [Dec.tokenArm, Dec.skipByte, Dec.bind_run]

theorem token_undefined (rest : Bytes) : Dec.token (0xf7 :: rest) = .ok .undefined rest := by
  rw [token_of_datatype (ty := .undefined) (by simp [datatype_cons, Dec.typeOf])]
  simp [Dec.tokenArm, Dec.skipByte, Dec.bind_run]

theorem token_false (rest : Bytes) : Dec.token (0xf4 :: rest) = .ok (.bool false) rest := by
  rw [token_of_datatype (ty := .bool) (by simp [datatype_cons, Dec.typeOf])]
  simp [Dec.tokenArm, Dec.bool, Dec.bind_run]

theorem token_true (rest : Bytes) : Dec.token (0xf5 :: rest) = .ok (.bool true) rest := by
  rw [token_of_datatype (ty := .bool) (by simp [datatype_cons, Dec.typeOf])]
  simp [Dec.tokenArm, Dec.bool, Dec.bind_run]

/-! ### simple values and floats -/

/-- a simple value in the initial byte (`e0..f3`). -/
theorem token_simple_small (n : Nat) (rest : Bytes) (h : n < 20) :
    Dec.token (u8 (0xe0 + n) :: rest) = .ok (.simple n) rest := by
  have e1 : (224 + n) % 256 = 224 + n := by omega
  have hd : Dec.datatype (u8 (0xe0 + n) :: rest) = .ok .simple (u8 (0xe0 + n) :: rest) := by
    rw [datatype_cons]; unfold Dec.typeOf
    simp only [u8_toNat_mod, e1]
    simp (disch := omega) only [beq_iff_eq, Bool.and_eq_true, decide_eq_true_eq, Bool.or_eq_true, if_neg, if_pos]
    rfl
  rw [token_of_datatype hd]
  have e2 : 224 + n ≤ 243 := by omega
  simp [Dec.tokenArm, Dec.simple, Dec.bind_run, e1, e2]

/-- a simple value after `f8` (any byte: the decoder does not reject 0..31 here). -/
theorem token_simple_f8 (n : Nat) (rest : Bytes) (h : n < 256) :
    Dec.token (0xf8 :: u8 n :: rest) = .ok (.simple n) rest := by
  rw [token_of_datatype (ty := .simple) (by simp [datatype_cons, Dec.typeOf])]
  have e1 : n % 256 = n := by omega
  simp [Dec.tokenArm, Dec.simple, Dec.bind_run, e1]

theorem token_simple (n : Nat) (rest : Bytes) (h : (WItem.simple n).Valid) :
    Dec.token (encW (.simple n) ++ rest) = .ok (simpleTok n) rest := by
  simp only [WItem.Valid, WItem.valid, Bool.or_eq_true, Bool.and_eq_true, decide_eq_true_eq] at h
  by_cases h24 : n < 24
  · simp only [encW, h24, if_true, List.cons_append, List.nil_append]
    by_cases h20 : n < 20
    · rw [token_simple_small n rest h20]
      simp only [simpleTok]
      rw [if_neg (by omega), if_neg (by omega), if_neg (by omega), if_neg (by omega)]
    · have : n = 20 ∨ n = 21 ∨ n = 22 ∨ n = 23 := by omega
      rcases this with rfl | rfl | rfl | rfl
      · exact token_false rest
      · exact token_true rest
      · exact token_null rest
      · exact token_undefined rest
  · simp only [encW, h24, if_false, List.cons_append, List.nil_append]
    rw [token_simple_f8 n rest (by omega)]
    simp only [simpleTok]
    rw [if_neg (by omega), if_neg (by omega), if_neg (by omega), if_neg (by omega)]

theorem token_f16 (b : Nat) (rest : Bytes) (h : b < 65536) :
    Dec.token (0xf9 :: (be 2 b ++ rest)) = .ok (.f16 (f16ToF32 b)) rest := by
  rw [token_of_datatype (ty := .f16) (by simp [datatype_cons, Dec.typeOf])]
  have := fromBe_be 2 b (by simpa using h)
  simp [Dec.tokenArm, Dec.f16, Dec.bind_run, Dec.readSlice_be, this]

theorem token_f32 (b : Nat) (rest : Bytes) (h : b < 4294967296) :
    Dec.token (0xfa :: (be 4 b ++ rest)) = .ok (.f32 b) rest := by
  rw [token_of_datatype (ty := .f32) (by simp [datatype_cons, Dec.typeOf])]
  have := fromBe_be 4 b (by simpa using h)
  simp [Dec.tokenArm, Dec.f32, Dec.bind_run, Dec.readSlice_be, this]

theorem token_f64 (b : Nat) (rest : Bytes) (h : b < 18446744073709551616) :
    Dec.token (0xfb :: (be 8 b ++ rest)) = .ok (.f64 b) rest := by
  rw [token_of_datatype (ty := .f64) (by simp [datatype_cons, Dec.typeOf])]
  have := fromBe_be 8 b (by simpa using h)
  simp [Dec.tokenArm, Dec.f64, Dec.bind_run, Dec.readSlice_be, this]

end Minicbor
