/-
  `NoPanic m`: the decoder action `m` never reaches a point where the Rust code would panic
  (and never exhausts the local fuel of a loop), on any remaining input.
-/
import Minicbor.Decoder

namespace Minicbor.Dec

def NoPanic (m : Dec α) : Prop := ∀ bs, m bs ≠ .panic

namespace NoPanic

theorem pure (a : α) : NoPanic (Pure.pure a : Dec α) := by intro bs h; cases h
theorem fail (e : Err) : NoPanic (Dec.fail e : Dec α) := by intro bs h; cases h
theorem read : NoPanic Dec.read := by intro bs h; cases bs <;> cases h
theorem current : NoPanic Dec.current := by intro bs h; cases bs <;> cases h
theorem remaining : NoPanic Dec.remaining := by intro bs h; cases h
theorem peek : NoPanic Dec.peek := by
  intro bs h
  match bs with
  | [] => cases h
  | [_] => cases h
  | _ :: _ :: _ => cases h
theorem readSlice (n : Nat) : NoPanic (Dec.readSlice n) := by
  intro bs h; unfold Dec.readSlice at h; split at h <;> cases h

theorem bind {m : Dec α} {f : α → Dec β} (hm : NoPanic m) (hf : ∀ a, NoPanic (f a)) :
    NoPanic (m >>= f) := by
  intro bs h
  rw [Dec.bind_run] at h
  cases hmb : m bs with
  | ok a r => rw [hmb] at h; exact hf a r h
  | err e r => rw [hmb] at h; cases h
  | panic => exact hm bs hmb

theorem ite {c : Prop} [Decidable c] {a b : Dec α} (ha : NoPanic a) (hb : NoPanic b) :
    NoPanic (if c then a else b) := by
  split <;> assumption

end NoPanic

/-- discharge `NoPanic` goals for straight-line code built from the primitives. -/
macro "nopanic" : tactic =>
  `(tactic| repeat' (first
      | exact NoPanic.pure _ | exact NoPanic.fail _ | exact NoPanic.read | exact NoPanic.current
      | exact NoPanic.peek | exact NoPanic.remaining | exact NoPanic.readSlice _
      | assumption
      | apply NoPanic.ite | apply NoPanic.bind | intro _))

theorem NoPanic.typeOf (b : UInt8) : NoPanic (Dec.typeOf b) := by
  unfold Dec.typeOf
  nopanic

theorem NoPanic.typeMismatch (b : UInt8) : NoPanic (Dec.typeMismatch b : Dec α) := by
  unfold Dec.typeMismatch
  have := NoPanic.typeOf b
  nopanic

theorem NoPanic.unsigned (b : UInt8) : NoPanic (Dec.unsigned b) := by
  unfold Dec.unsigned
  have := @NoPanic.typeMismatch Nat b
  nopanic

theorem NoPanic.tryAs (v m : Nat) : NoPanic (Dec.tryAs v m) := by
  unfold Dec.tryAs; nopanic

theorem NoPanic.intAcc (t : IntTy) : NoPanic (Dec.intAcc t) := by
  unfold Dec.intAcc
  have h1 := NoPanic.unsigned
  have h2 := NoPanic.tryAs
  have h3 := @NoPanic.typeMismatch Int
  repeat' (first
      | exact NoPanic.pure _ | exact NoPanic.read | exact h1 _ | exact h2 _ _ | exact h3 _
      | apply NoPanic.ite | apply NoPanic.bind | intro _)

end Minicbor.Dec
