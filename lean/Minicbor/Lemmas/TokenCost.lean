/-
  Byte accounting for `Token::decode` on ARBITRARY input: the rendering of a token is never
  larger than a constant times the bytes its decoding consumed (`token_cost`), because
  * integer / length / tag payloads are below 2^64 (at most 20 decimal digits),
  * a byte or text string token carries exactly bytes that were consumed,
  so the cost `tc` of everything the tokenizer yields is linear in the input length (`tokens_cost`).
-/
import Minicbor.Lemmas.TokenBasic
import Minicbor.Lemmas.TokenHeads
import Minicbor.Lemmas.DisplayBound

namespace Minicbor
open Dec C19

/-! ### inversion of the decoder monad -/

theorem Dec.bind_ok_inv {m : Dec α} {f : α → Dec β} {bs : Bytes} {b : β} {r : Bytes}
    (h : (m >>= f) bs = .ok b r) : ∃ a r', m bs = .ok a r' ∧ f a r' = .ok b r := by
  rw [Dec.bind_run] at h
  cases hm : m bs with
  | ok a r' => rw [hm] at h; exact ⟨a, r', rfl, h⟩
  | err e r' => rw [hm] at h; cases h
  | panic => rw [hm] at h; cases h

theorem Dec.pure_ok_inv {a b : α} {bs r : Bytes} (h : (pure a : Dec α) bs = .ok b r) : b = a ∧ r = bs := by
  cases h; exact ⟨rfl, rfl⟩

theorem Dec.read_ok_inv {bs r : Bytes} {x : UInt8} (h : Dec.read bs = .ok x r) : bs = x :: r := by
  cases bs with
  | nil => cases h
  | cons y tl => cases h; rfl

theorem Dec.readSlice_ok_inv {k : Nat} {bs xs r : Bytes} (h : Dec.readSlice k bs = .ok xs r) :
    xs.length = k ∧ bs = xs ++ r := by
  unfold Dec.readSlice at h
  split at h
  · cases h
    exact ⟨by simp; omega, by simp⟩
  · cases h

theorem Dec.typeMismatch_ok_inv {b : UInt8} {bs r : Bytes} {a : α}
    (h : (Dec.typeMismatch b : Dec α) bs = .ok a r) : False :=
  typeMismatch_not_ok b bs a r h

/-! ### what the accessors can return -/

theorem Dec.unsigned_lt {b : UInt8} {bs r : Bytes} {n : Nat} (h : Dec.unsigned b bs = .ok n r) :
    n < 18446744073709551616 := by
  unfold Dec.unsigned at h
  split at h
  · obtain ⟨rfl, _⟩ := Dec.pure_ok_inv h
    have := b.toNat_lt; omega
  split at h
  · obtain ⟨x, r', _, h2⟩ := Dec.bind_ok_inv h
    obtain ⟨rfl, _⟩ := Dec.pure_ok_inv h2
    have := x.toNat_lt; omega
  split at h
  · obtain ⟨xs, r', h1, h2⟩ := Dec.bind_ok_inv h
    obtain ⟨rfl, _⟩ := Dec.pure_ok_inv h2
    have hl := (Dec.readSlice_ok_inv h1).1
    have := fromBe_lt xs; rw [hl] at this; omega
  split at h
  · obtain ⟨xs, r', h1, h2⟩ := Dec.bind_ok_inv h
    obtain ⟨rfl, _⟩ := Dec.pure_ok_inv h2
    have hl := (Dec.readSlice_ok_inv h1).1
    have := fromBe_lt xs; rw [hl] at this; omega
  split at h
  · obtain ⟨xs, r', h1, h2⟩ := Dec.bind_ok_inv h
    obtain ⟨rfl, _⟩ := Dec.pure_ok_inv h2
    have hl := (Dec.readSlice_ok_inv h1).1
    have := fromBe_lt xs; rw [hl] at this; omega
  · exact (Dec.typeMismatch_ok_inv h).elim

theorem Dec.tryAs_le {v m : Nat} {bs r : Bytes} {n : Nat} (h : Dec.tryAs v m bs = .ok n r) : n ≤ m := by
  unfold Dec.tryAs at h
  split at h
  · obtain ⟨rfl, _⟩ := Dec.pure_ok_inv h; assumption
  · cases h

/-- an integer accessor returns a value of magnitude at most `max + 1`. -/
theorem Dec.intAcc_range {t : IntTy} {bs r : Bytes} {v : Int} (h : Dec.intAcc t bs = .ok v r) :
    -1 - (t.max : Int) ≤ v ∧ v ≤ t.max := by
  unfold Dec.intAcc at h
  obtain ⟨b, r1, _, h⟩ := Dec.bind_ok_inv h
  simp only [] at h
  split at h
  · obtain ⟨v1, r2, _, h⟩ := Dec.bind_ok_inv h
    obtain ⟨v2, r3, h3, h⟩ := Dec.bind_ok_inv h
    obtain ⟨rfl, _⟩ := Dec.pure_ok_inv h
    have := Dec.tryAs_le h3
    omega
  split at h
  · obtain ⟨v1, r2, _, h⟩ := Dec.bind_ok_inv h
    obtain ⟨v2, r3, h3, h⟩ := Dec.bind_ok_inv h
    obtain ⟨rfl, _⟩ := Dec.pure_ok_inv h
    have := Dec.tryAs_le h3
    omega
  · exact (Dec.typeMismatch_ok_inv h).elim

/-- `bytes()` returns bytes it has consumed, after at least the initial byte. -/
theorem Dec.bytes_len {bs r b : Bytes} (h : Dec.bytes bs = .ok b r) : r.length + b.length + 1 ≤ bs.length := by
  unfold Dec.bytes at h
  obtain ⟨x, r1, h1, h⟩ := Dec.bind_ok_inv h
  have e1 := Dec.read_ok_inv h1
  split at h
  · exact (Dec.typeMismatch_ok_inv h).elim
  · obtain ⟨n, r2, h2, h⟩ := Dec.bind_ok_inv h
    obtain ⟨n', r3, h3, h⟩ := Dec.bind_ok_inv h
    have c2 := Consumes.unsigned _ _ _ _ h2
    have c3 := Consumes.u64ToUsize _ _ _ _ h3
    obtain ⟨_, e4⟩ := Dec.readSlice_ok_inv h
    rw [e1]
    have : r3.length = b.length + r.length := by rw [e4]; simp
    simp only [List.length_cons]; omega

theorem Dec.str_len {bs r b : Bytes} (h : Dec.str bs = .ok b r) : r.length + b.length + 1 ≤ bs.length := by
  unfold Dec.str at h
  obtain ⟨x, r1, h1, h⟩ := Dec.bind_ok_inv h
  have e1 := Dec.read_ok_inv h1
  split at h
  · exact (Dec.typeMismatch_ok_inv h).elim
  · obtain ⟨n, r2, h2, h⟩ := Dec.bind_ok_inv h
    obtain ⟨n', r3, h3, h⟩ := Dec.bind_ok_inv h
    obtain ⟨d, r4, h4, h⟩ := Dec.bind_ok_inv h
    have c2 := Consumes.unsigned _ _ _ _ h2
    have c3 := Consumes.u64ToUsize _ _ _ _ h3
    obtain ⟨_, e4⟩ := Dec.readSlice_ok_inv h4
    split at h
    · obtain ⟨rfl, rfl⟩ := Dec.pure_ok_inv h
      rw [e1]
      have : r3.length = b.length + r.length := by rw [e4]; simp
      simp only [List.length_cons]; omega
    · cases h

theorem Dec.container_lt {maj : Nat} {bs r : Bytes} {n : Nat} (h : Dec.container maj bs = .ok (some n) r) :
    n < 18446744073709551616 := by
  unfold Dec.container at h
  obtain ⟨x, r1, _, h⟩ := Dec.bind_ok_inv h
  split at h
  · exact (Dec.typeMismatch_ok_inv h).elim
  split at h
  · cases h
  · obtain ⟨n', r2, h2, h⟩ := Dec.bind_ok_inv h
    obtain ⟨e, _⟩ := Dec.pure_ok_inv h
    cases e
    exact Dec.unsigned_lt h2

theorem Dec.tag_lt {bs r : Bytes} {n : Nat} (h : Dec.tag bs = .ok n r) : n < 18446744073709551616 := by
  unfold Dec.tag at h
  obtain ⟨x, r1, _, h⟩ := Dec.bind_ok_inv h
  split at h
  · exact (Dec.typeMismatch_ok_inv h).elim
  · exact Dec.unsigned_lt h

theorem Dec.simple_lt {bs r : Bytes} {n : Nat} (h : Dec.simple bs = .ok n r) : n < 256 := by
  unfold Dec.simple at h
  obtain ⟨x, r1, _, h⟩ := Dec.bind_ok_inv h
  dsimp only at h
  split at h
  · have ⟨e, _⟩ := Dec.pure_ok_inv h
    have := x.toNat_lt; omega
  split at h
  · obtain ⟨y, r2, _, h⟩ := Dec.bind_ok_inv h
    obtain ⟨rfl, _⟩ := Dec.pure_ok_inv h
    exact y.toNat_lt
  · exact (Dec.typeMismatch_ok_inv h).elim

/-! ### sizes of renderings -/

theorem nat_len (n : Nat) (h : n < 18446744073709551616) : (toString n).length ≤ 20 := by
  rw [Nat.toString_eq_repr, Nat.length_repr_le_iff (by omega)]
  omega

theorem len_minus : "-".length = 1 := by decide

theorem int_len (v : Int) (h1 : -18446744073709551616 ≤ v) (h2 : v < 18446744073709551616) :
    (toString v).length ≤ 21 := by
  rw [Int.toString_eq_repr, Int.repr_eq_if]
  split
  · have := nat_len v.toNat (by omega)
    rw [Nat.toString_eq_repr] at this; omega
  · rw [String.length_append, len_minus]
    have : (-v).toNat < 100000000000000000000 := by omega
    have := (Nat.length_repr_le_iff (n := (-v).toNat) (k := 20) (by omega)).mpr (by omega)
    omega

theorem hex2_len (b : UInt8) : (hex2 b).length = 2 := by
  simp [hex2, String.length_ofList]

theorem len_sp : " ".length = 1 := by decide
theorem len_h : "h'".length = 2 := by decide
theorem len_q : "'".length = 1 := by decide
theorem len_dq : "\"".length = 1 := by decide
theorem len_simple : "simple(".length = 7 := by decide
theorem len_true : "true".length = 4 := by decide
theorem len_false : "false".length = 5 := by decide
theorem len_null : "null".length = 4 := by decide
theorem len_undefined : "undefined".length = 9 := by decide

theorem intercalate_hex_len (b : Bytes) : (" ".intercalate (b.map hex2)).length ≤ 3 * b.length := by
  induction b with
  | nil => simp
  | cons x xs ih =>
    cases xs with
    | nil => simp [hex2_len]
    | cons y ys =>
      simp only [List.map_cons, String.intercalate_cons_cons, String.length_append, hex2_len, len_sp] at ih ⊢
      simp only [List.length_cons] at ih ⊢
      omega

/-- the size of a token's own rendering against the bytes a successful decode consumed. -/
def Token.rsize (t : Token) : Nat := renderedLength t.render

theorem rsize_bytes (b : Bytes) : Token.rsize (.bytes b) ≤ 3 * b.length + 3 := by
  have := intercalate_hex_len b
  simp only [Token.rsize, Token.render, renderedLength_cons, renderedLength_nil, Piece.rlen,
    String.length_append, len_h, len_q]
  omega

theorem rsize_string (b : Bytes) : Token.rsize (.string b) = b.length + 2 := by
  simp only [Token.rsize, Token.render, renderedLength_cons, renderedLength_nil, Piece.rlen, len_dq]
  omega

theorem rsize_nat (c : Nat → Token) (n : Nat) (hn : n < 18446744073709551616)
    (hc : (c n).render = [.lit (toString n)]) : Token.rsize (c n) ≤ 20 := by
  have := nat_len n hn
  simp only [Token.rsize, hc, renderedLength_cons, renderedLength_nil, Piece.rlen]; omega

theorem rsize_int (c : Int → Token) (v : Int) (h1 : -18446744073709551616 ≤ v) (h2 : v < 18446744073709551616)
    (hc : (c v).render = [.lit (toString v)]) : Token.rsize (c v) ≤ 21 := by
  have := int_len v h1 h2
  simp only [Token.rsize, hc, renderedLength_cons, renderedLength_nil, Piece.rlen]; omega

end Minicbor

namespace Minicbor
open Dec C19

theorem rsize_lits :
    Token.rsize (.bool true) = 4 ∧ Token.rsize (.bool false) = 5 ∧ Token.rsize .brk = 1 ∧
    Token.rsize .null = 4 ∧ Token.rsize .undefined = 9 ∧ Token.rsize .beginBytes = 3 ∧
    Token.rsize .beginString = 3 ∧ Token.rsize .beginArray = 3 ∧ Token.rsize .beginMap = 3 := by
  simp [Token.rsize, Token.render, Piece.rlen, len_true, len_false, len_null, len_undefined]

theorem rsize_float (x : Nat) :
    Token.rsize (.f16 x) = 32 ∧ Token.rsize (.f32 x) = 32 ∧ Token.rsize (.f64 x) = 32 := by
  simp [Token.rsize, Token.render, Piece.rlen, FLOAT_CHARGE]

theorem rsize_headed (n : Nat) (hn : n < 18446744073709551616) :
    Token.rsize (.array n) ≤ 23 ∧ Token.rsize (.map n) ≤ 23 ∧ Token.rsize (.tag n) ≤ 23 ∧
    Token.rsize (.simple n) ≤ 28 := by
  have := nat_len n hn
  rw [Nat.toString_eq_repr] at this
  simp [Token.rsize, Token.render, Piece.rlen, String.length_append, toString_str, len_simple]
  omega

/-- **the rendering of a token is paid by the bytes its decoding consumed**: at most three
    bytes of text per input byte, plus a constant. -/
theorem token_rsize {bs rest : Bytes} {t : Token} (h : Dec.token bs = .ok t rest) :
    Token.rsize t + 3 * rest.length ≤ 3 * bs.length + 32 := by
  have hc := Consumes.token bs t rest h
  rw [Dec.token_eq] at h
  obtain ⟨ty, r', hd, h⟩ := Dec.bind_ok_inv h
  have := datatype_rest bs ty r' hd
  subst this
  obtain ⟨l1, l2, l3, l4, l5, l6, l7, l8, l9⟩ := rsize_lits
  have small : ∀ k, Token.rsize t ≤ k → k ≤ 32 → Token.rsize t + 3 * rest.length ≤ 3 * r'.length + 32 := by
    intro k h1 h2; omega
  have natc : ∀ (c : Nat → Token) (ity : IntTy), ity.max < 18446744073709551616 →
      (∀ n, (c n).render = [.lit (toString n)]) →
      (intAcc ity >>= fun v => pure (c v.toNat)) r' = .ok t rest →
      Token.rsize t + 3 * rest.length ≤ 3 * r'.length + 32 := by
    intro c ity hm hr h
    obtain ⟨v, r1, h1, h2⟩ := Dec.bind_ok_inv h
    obtain ⟨rfl, _⟩ := Dec.pure_ok_inv h2
    have hr' := Dec.intAcc_range h1
    exact small 20 (rsize_nat c _ (by omega) (hr _)) (by omega)
  have intc : ∀ (c : Int → Token) (ity : IntTy), ity.max < 18446744073709551616 →
      (∀ n, (c n).render = [.lit (toString n)]) →
      (intAcc ity >>= fun v => pure (c v)) r' = .ok t rest →
      Token.rsize t + 3 * rest.length ≤ 3 * r'.length + 32 := by
    intro c ity hm hr h
    obtain ⟨v, r1, h1, h2⟩ := Dec.bind_ok_inv h
    obtain ⟨rfl, _⟩ := Dec.pure_ok_inv h2
    have hr' := Dec.intAcc_range h1
    exact small 21 (rsize_int c _ (by omega) (by omega) (hr _)) (by omega)
  cases ty <;> simp only [Dec.tokenArm] at h
  case bool =>
    obtain ⟨b, r1, _, h2⟩ := Dec.bind_ok_inv h
    obtain ⟨rfl, _⟩ := Dec.pure_ok_inv h2
    cases b
    · exact small 5 (by omega) (by omega)
    · exact small 4 (by omega) (by omega)
  case u8 => exact natc Token.u8 _ (by decide) (fun _ => rfl) h
  case u16 => exact natc Token.u16 _ (by decide) (fun _ => rfl) h
  case u32 => exact natc Token.u32 _ (by decide) (fun _ => rfl) h
  case u64 => exact natc Token.u64 _ (by decide) (fun _ => rfl) h
  case i8 => exact intc Token.i8 _ (by decide) (fun _ => rfl) h
  case i16 => exact intc Token.i16 _ (by decide) (fun _ => rfl) h
  case i32 => exact intc Token.i32 _ (by decide) (fun _ => rfl) h
  case i64 => exact intc Token.i64 _ (by decide) (fun _ => rfl) h
  case int => exact intc Token.int _ (by decide) (fun _ => rfl) h
  case f16 =>
    obtain ⟨x, r1, _, h2⟩ := Dec.bind_ok_inv h
    obtain ⟨rfl, _⟩ := Dec.pure_ok_inv h2
    exact small 32 (by have := (rsize_float x).1; omega) (by omega)
  case f32 =>
    obtain ⟨x, r1, _, h2⟩ := Dec.bind_ok_inv h
    obtain ⟨rfl, _⟩ := Dec.pure_ok_inv h2
    exact small 32 (by have := (rsize_float x).2.1; omega) (by omega)
  case f64 =>
    obtain ⟨x, r1, _, h2⟩ := Dec.bind_ok_inv h
    obtain ⟨rfl, _⟩ := Dec.pure_ok_inv h2
    exact small 32 (by have := (rsize_float x).2.2; omega) (by omega)
  case bytes =>
    obtain ⟨b, r1, h1, h2⟩ := Dec.bind_ok_inv h
    obtain ⟨rfl, rfl⟩ := Dec.pure_ok_inv h2
    have := Dec.bytes_len h1
    have := rsize_bytes b
    omega
  case string =>
    obtain ⟨b, r1, h1, h2⟩ := Dec.bind_ok_inv h
    obtain ⟨rfl, rfl⟩ := Dec.pure_ok_inv h2
    have := Dec.str_len h1
    have := rsize_string b
    omega
  case tag =>
    obtain ⟨n, r1, h1, h2⟩ := Dec.bind_ok_inv h
    obtain ⟨rfl, _⟩ := Dec.pure_ok_inv h2
    exact small 23 (rsize_headed n (Dec.tag_lt h1)).2.2.1 (by omega)
  case simple =>
    obtain ⟨n, r1, h1, h2⟩ := Dec.bind_ok_inv h
    obtain ⟨rfl, _⟩ := Dec.pure_ok_inv h2
    have := Dec.simple_lt h1
    exact small 28 (rsize_headed n (by omega)).2.2.2 (by omega)
  case array =>
    obtain ⟨o, r1, h1, h2⟩ := Dec.bind_ok_inv h
    cases o with
    | none => cases h2
    | some n =>
      obtain ⟨rfl, _⟩ := Dec.pure_ok_inv h2
      exact small 23 (rsize_headed n (Dec.container_lt h1)).1 (by omega)
  case map =>
    obtain ⟨o, r1, h1, h2⟩ := Dec.bind_ok_inv h
    cases o with
    | none => cases h2
    | some n =>
      obtain ⟨rfl, _⟩ := Dec.pure_ok_inv h2
      exact small 23 (rsize_headed n (Dec.container_lt h1)).2.1 (by omega)
  case unknown => cases h
  all_goals
    obtain ⟨u, r1, _, h2⟩ := Dec.bind_ok_inv h
    obtain ⟨rfl, _⟩ := Dec.pure_ok_inv h2
    exact small 9 (by omega) (by omega)

/-! ### the same with the constants of the correspondence check (16 per byte)

   For that the value a head carries has to be related to the bytes it occupied: a one-byte head
   carries less than 24, anything at or above 2^32 occupied nine bytes. -/

theorem Dec.unsigned_cons {b : UInt8} {bs r : Bytes} {n : Nat} (h : Dec.unsigned b bs = .ok n r) :
    n < 24 ∨ (n < 4294967296 ∧ r.length + 1 ≤ bs.length) ∨ r.length + 8 ≤ bs.length := by
  unfold Dec.unsigned at h
  split at h
  · obtain ⟨rfl, _⟩ := Dec.pure_ok_inv h
    left; omega
  split at h
  · obtain ⟨x, r', h1, h2⟩ := Dec.bind_ok_inv h
    obtain ⟨rfl, rfl⟩ := Dec.pure_ok_inv h2
    have := Dec.read_ok_inv h1
    have := x.toNat_lt
    right; left; subst_vars; simp only [List.length_cons]; omega
  split at h
  · obtain ⟨xs, r', h1, h2⟩ := Dec.bind_ok_inv h
    obtain ⟨rfl, rfl⟩ := Dec.pure_ok_inv h2
    obtain ⟨hl, rfl⟩ := Dec.readSlice_ok_inv h1
    have := fromBe_lt xs; rw [hl] at this
    right; left; simp only [List.length_append]; omega
  split at h
  · obtain ⟨xs, r', h1, h2⟩ := Dec.bind_ok_inv h
    obtain ⟨rfl, rfl⟩ := Dec.pure_ok_inv h2
    obtain ⟨hl, rfl⟩ := Dec.readSlice_ok_inv h1
    have := fromBe_lt xs; rw [hl] at this
    right; left; simp only [List.length_append]; omega
  split at h
  · obtain ⟨xs, r', h1, h2⟩ := Dec.bind_ok_inv h
    obtain ⟨rfl, rfl⟩ := Dec.pure_ok_inv h2
    obtain ⟨hl, rfl⟩ := Dec.readSlice_ok_inv h1
    right; right; simp only [List.length_append]; omega
  · exact (Dec.typeMismatch_ok_inv h).elim

theorem Dec.tryAs_ok_inv {v m : Nat} {bs r : Bytes} {n : Nat} (h : Dec.tryAs v m bs = .ok n r) :
    n = v ∧ r = bs := by
  unfold Dec.tryAs at h
  split at h
  · exact Dec.pure_ok_inv h
  · cases h

/-- an integer: small, or below 2^32 in magnitude after at least two bytes, or nine bytes. -/
theorem Dec.intAcc_cons {t : IntTy} {bs r : Bytes} {v : Int} (h : Dec.intAcc t bs = .ok v r) :
    (-24 ≤ v ∧ v < 24) ∨ (-4294967296 ≤ v ∧ v < 4294967296 ∧ r.length + 2 ≤ bs.length) ∨
      r.length + 9 ≤ bs.length := by
  unfold Dec.intAcc at h
  obtain ⟨b, r1, h0, h⟩ := Dec.bind_ok_inv h
  have e0 := Dec.read_ok_inv h0
  dsimp only at h
  split at h
  · obtain ⟨v1, r2, hu, h⟩ := Dec.bind_ok_inv h
    obtain ⟨v2, r3, h3, h⟩ := Dec.bind_ok_inv h
    obtain ⟨rfl, rfl⟩ := Dec.pure_ok_inv h
    obtain ⟨rfl, rfl⟩ := Dec.tryAs_ok_inv h3
    have := Dec.unsigned_cons hu
    subst e0; simp only [List.length_cons]; omega
  split at h
  · obtain ⟨v1, r2, hu, h⟩ := Dec.bind_ok_inv h
    obtain ⟨v2, r3, h3, h⟩ := Dec.bind_ok_inv h
    obtain ⟨rfl, rfl⟩ := Dec.pure_ok_inv h
    obtain ⟨rfl, rfl⟩ := Dec.tryAs_ok_inv h3
    have := Dec.unsigned_cons hu
    subst e0; simp only [List.length_cons]; omega
  · exact (Dec.typeMismatch_ok_inv h).elim

theorem Dec.tag_cons {bs r : Bytes} {n : Nat} (h : Dec.tag bs = .ok n r) :
    n < 24 ∨ (n < 4294967296 ∧ r.length + 2 ≤ bs.length) ∨ r.length + 9 ≤ bs.length := by
  unfold Dec.tag at h
  obtain ⟨x, r1, h0, h⟩ := Dec.bind_ok_inv h
  have e0 := Dec.read_ok_inv h0
  split at h
  · exact (Dec.typeMismatch_ok_inv h).elim
  · have := Dec.unsigned_cons h
    subst e0; simp only [List.length_cons]; omega

theorem Dec.container_cons {maj : Nat} {bs r : Bytes} {n : Nat} (h : Dec.container maj bs = .ok (some n) r) :
    n < 24 ∨ (n < 4294967296 ∧ r.length + 2 ≤ bs.length) ∨ r.length + 9 ≤ bs.length := by
  unfold Dec.container at h
  obtain ⟨x, r1, h0, h⟩ := Dec.bind_ok_inv h
  have e0 := Dec.read_ok_inv h0
  split at h
  · exact (Dec.typeMismatch_ok_inv h).elim
  split at h
  · cases h
  · obtain ⟨n', r2, h2, h⟩ := Dec.bind_ok_inv h
    obtain ⟨e, rfl⟩ := Dec.pure_ok_inv h
    cases e
    have := Dec.unsigned_cons h2
    subst e0; simp only [List.length_cons]; omega

theorem Dec.simple_cons {bs r : Bytes} {n : Nat} (h : Dec.simple bs = .ok n r) :
    n < 20 ∨ (n < 256 ∧ r.length + 2 ≤ bs.length) := by
  unfold Dec.simple at h
  obtain ⟨x, r1, h0, h⟩ := Dec.bind_ok_inv h
  have e0 := Dec.read_ok_inv h0
  dsimp only at h
  split at h
  · rename_i hc
    have ⟨e, _⟩ := Dec.pure_ok_inv h
    simp only [Bool.and_eq_true, decide_eq_true_eq] at hc
    left; omega
  split at h
  · obtain ⟨y, r2, h1, h⟩ := Dec.bind_ok_inv h
    obtain ⟨rfl, rfl⟩ := Dec.pure_ok_inv h
    have := Dec.read_ok_inv h1
    have := y.toNat_lt
    right; subst_vars; simp only [List.length_cons]; omega
  · exact (Dec.typeMismatch_ok_inv h).elim

/-- a float token occupies at least three bytes. -/
theorem Dec.f16_cons {bs r : Bytes} {x : Nat} (h : Dec.f16 bs = .ok x r) : r.length + 3 ≤ bs.length := by
  unfold Dec.f16 at h
  obtain ⟨b, r1, h0, h⟩ := Dec.bind_ok_inv h
  have e0 := Dec.read_ok_inv h0
  split at h
  · exact (Dec.typeMismatch_ok_inv h).elim
  · obtain ⟨xs, r2, h1, h⟩ := Dec.bind_ok_inv h
    obtain ⟨_, rfl⟩ := Dec.pure_ok_inv h
    obtain ⟨hl, rfl⟩ := Dec.readSlice_ok_inv h1
    subst e0; simp only [List.length_cons, List.length_append]; omega

theorem Dec.current_ok_inv {bs r : Bytes} {x : UInt8} (h : Dec.current bs = .ok x r) : r = bs := by
  cases bs with
  | nil => cases h
  | cons y tl => cases h; rfl

theorem Dec.f32_cons {bs r : Bytes} {x : Nat} (h : Dec.f32 true bs = .ok x r) : r.length + 3 ≤ bs.length := by
  unfold Dec.f32 at h
  obtain ⟨b, r1, h0, h'⟩ := Dec.bind_ok_inv h
  clear h
  have e0 := Dec.current_ok_inv h0
  subst e0
  have h := h'
  clear h'
  split at h
  · exact Dec.f16_cons h
  split at h
  · obtain ⟨y, r2, h1, h⟩ := Dec.bind_ok_inv h
    obtain ⟨xs, r3, h2, h⟩ := Dec.bind_ok_inv h
    obtain ⟨_, rfl⟩ := Dec.pure_ok_inv h
    have e1 := Dec.read_ok_inv h1
    obtain ⟨hl, rfl⟩ := Dec.readSlice_ok_inv h2
    subst e1; simp only [List.length_cons, List.length_append]; omega
  · exact (Dec.typeMismatch_ok_inv h).elim

theorem Dec.f64_cons {bs r : Bytes} {x : Nat} (h : Dec.f64 true bs = .ok x r) : r.length + 3 ≤ bs.length := by
  unfold Dec.f64 at h
  obtain ⟨b, r1, h0, h'⟩ := Dec.bind_ok_inv h
  clear h
  have e0 := Dec.current_ok_inv h0
  subst e0
  have h := h'
  clear h'
  split at h
  · obtain ⟨y, r2, h1, h⟩ := Dec.bind_ok_inv h
    obtain ⟨_, rfl⟩ := Dec.pure_ok_inv h
    exact Dec.f16_cons h1
  split at h
  · obtain ⟨y, r2, h1, h⟩ := Dec.bind_ok_inv h
    obtain ⟨_, rfl⟩ := Dec.pure_ok_inv h
    exact Dec.f32_cons h1
  split at h
  · obtain ⟨y, r2, h1, h⟩ := Dec.bind_ok_inv h
    obtain ⟨xs, r3, h2, h⟩ := Dec.bind_ok_inv h
    obtain ⟨_, rfl⟩ := Dec.pure_ok_inv h
    have e1 := Dec.read_ok_inv h1
    obtain ⟨hl, rfl⟩ := Dec.readSlice_ok_inv h2
    subst e1; simp only [List.length_cons, List.length_append]; omega
  · exact (Dec.typeMismatch_ok_inv h).elim

theorem nat_len_k (n k : Nat) (hk : 0 < k) (h : n < 10 ^ k) : (toString n).length ≤ k := by
  rw [Nat.toString_eq_repr, Nat.length_repr_le_iff hk]; exact h

theorem int_len_k (v : Int) (k : Nat) (hk : 0 < k) (h1 : -(10 ^ k : Int) < v) (h2 : v < 10 ^ k) :
    (toString v).length ≤ k + 1 := by
  rw [Int.toString_eq_repr, Int.repr_eq_if]
  split
  · have := (Nat.length_repr_le_iff (n := v.toNat) hk).mpr (by
      have : ((v.toNat : Nat) : Int) < ((10 ^ k : Nat) : Int) := by
        rw [Int.toNat_of_nonneg (by assumption)]; simpa using h2
      exact Int.ofNat_lt.mp this)
    omega
  · rw [String.length_append, len_minus]
    have := (Nat.length_repr_le_iff (n := (-v).toNat) hk).mpr (by
      have : (((-v).toNat : Nat) : Int) < ((10 ^ k : Nat) : Int) := by
        rw [Int.toNat_of_nonneg (by omega)]; simp only [Int.natCast_pow, Int.cast_ofNat_Int]; omega
      exact Int.ofNat_lt.mp this)
    omega

/-- **sixteen bytes of output per consumed input byte** pay for a token's rendering and the 5 the
    potential function charges per token. -/
theorem token_rsize16 {bs rest : Bytes} {t : Token} (h : Dec.token bs = .ok t rest) :
    Token.rsize t + 5 + 16 * rest.length ≤ 16 * bs.length := by
  have hc := Consumes.token bs t rest h
  rw [Dec.token_eq] at h
  obtain ⟨ty, r', hd, h⟩ := Dec.bind_ok_inv h
  have := datatype_rest bs ty r' hd
  subst this
  obtain ⟨l1, l2, l3, l4, l5, l6, l7, l8, l9⟩ := rsize_lits
  have natc : ∀ (c : Nat → Token) (ity : IntTy), ity.max < 18446744073709551616 →
      (∀ n, (c n).render = [.lit (toString n)]) →
      (intAcc ity >>= fun v => pure (c v.toNat)) r' = .ok t rest →
      Token.rsize t + 5 + 16 * rest.length ≤ 16 * r'.length := by
    intro c ity hm hr h
    obtain ⟨v, r1, h1, h2⟩ := Dec.bind_ok_inv h
    obtain ⟨rfl, rfl⟩ := Dec.pure_ok_inv h2
    have hr' := Dec.intAcc_range h1
    have hcz := Dec.intAcc_cons h1
    simp only [Token.rsize, hr, renderedLength_cons, renderedLength_nil, Piece.rlen]
    rcases hcz with ⟨_, _⟩ | ⟨_, _, _⟩ | _
    · have := nat_len_k v.toNat 2 (by omega) (by omega); omega
    · have := nat_len_k v.toNat 10 (by omega) (by omega); omega
    · have := nat_len_k v.toNat 20 (by omega) (by omega); omega
  have intc : ∀ (c : Int → Token) (ity : IntTy), ity.max < 18446744073709551616 →
      (∀ n, (c n).render = [.lit (toString n)]) →
      (intAcc ity >>= fun v => pure (c v)) r' = .ok t rest →
      Token.rsize t + 5 + 16 * rest.length ≤ 16 * r'.length := by
    intro c ity hm hr h
    obtain ⟨v, r1, h1, h2⟩ := Dec.bind_ok_inv h
    obtain ⟨rfl, rfl⟩ := Dec.pure_ok_inv h2
    have hr' := Dec.intAcc_range h1
    have hcz := Dec.intAcc_cons h1
    simp only [Token.rsize, hr, renderedLength_cons, renderedLength_nil, Piece.rlen]
    rcases hcz with ⟨_, _⟩ | ⟨_, _, _⟩ | _
    · have := int_len_k v 2 (by omega) (by omega) (by omega); omega
    · have := int_len_k v 10 (by omega) (by omega) (by omega); omega
    · have := int_len_k v 20 (by omega) (by omega) (by omega); omega
  have headed : ∀ (n : Nat) (r1 : Bytes), n < 18446744073709551616 →
      (n < 24 ∨ (n < 4294967296 ∧ r1.length + 2 ≤ r'.length) ∨ r1.length + 9 ≤ r'.length) →
      r1.length + 1 ≤ r'.length →
      (toString n).length + 8 + 16 * r1.length ≤ 16 * r'.length := by
    intro n r1 hn hcz hc1
    rcases hcz with _ | ⟨_, _⟩ | _
    · have := nat_len_k n 2 (by omega) (by omega); omega
    · have := nat_len_k n 10 (by omega) (by omega); omega
    · have := nat_len_k n 20 (by omega) (by omega); omega
  cases ty <;> simp only [Dec.tokenArm] at h
  case bool =>
    obtain ⟨b, r1, _, h2⟩ := Dec.bind_ok_inv h
    obtain ⟨rfl, _⟩ := Dec.pure_ok_inv h2
    cases b <;> omega
  case u8 => exact natc Token.u8 _ (by decide) (fun _ => rfl) h
  case u16 => exact natc Token.u16 _ (by decide) (fun _ => rfl) h
  case u32 => exact natc Token.u32 _ (by decide) (fun _ => rfl) h
  case u64 => exact natc Token.u64 _ (by decide) (fun _ => rfl) h
  case i8 => exact intc Token.i8 _ (by decide) (fun _ => rfl) h
  case i16 => exact intc Token.i16 _ (by decide) (fun _ => rfl) h
  case i32 => exact intc Token.i32 _ (by decide) (fun _ => rfl) h
  case i64 => exact intc Token.i64 _ (by decide) (fun _ => rfl) h
  case int => exact intc Token.int _ (by decide) (fun _ => rfl) h
  case f16 =>
    obtain ⟨x, r1, h1, h2⟩ := Dec.bind_ok_inv h
    obtain ⟨rfl, rfl⟩ := Dec.pure_ok_inv h2
    have := (rsize_float x).1
    have := Dec.f16_cons h1
    omega
  case f32 =>
    obtain ⟨x, r1, h1, h2⟩ := Dec.bind_ok_inv h
    obtain ⟨rfl, rfl⟩ := Dec.pure_ok_inv h2
    have := (rsize_float x).2.1
    have := Dec.f32_cons h1
    omega
  case f64 =>
    obtain ⟨x, r1, h1, h2⟩ := Dec.bind_ok_inv h
    obtain ⟨rfl, rfl⟩ := Dec.pure_ok_inv h2
    have := (rsize_float x).2.2
    have := Dec.f64_cons h1
    omega
  case bytes =>
    obtain ⟨b, r1, h1, h2⟩ := Dec.bind_ok_inv h
    obtain ⟨rfl, rfl⟩ := Dec.pure_ok_inv h2
    have := Dec.bytes_len h1
    have := rsize_bytes b
    omega
  case string =>
    obtain ⟨b, r1, h1, h2⟩ := Dec.bind_ok_inv h
    obtain ⟨rfl, rfl⟩ := Dec.pure_ok_inv h2
    have := Dec.str_len h1
    have := rsize_string b
    omega
  case tag =>
    obtain ⟨n, r1, h1, h2⟩ := Dec.bind_ok_inv h
    obtain ⟨rfl, rfl⟩ := Dec.pure_ok_inv h2
    have := headed n _ (Dec.tag_lt h1) (Dec.tag_cons h1) (Consumes.tag _ _ _ h1)
    simp only [Token.rsize, Token.render, renderedLength_cons, renderedLength_nil, Piece.rlen,
      String.length_append, toString_str, len_T, len_rp]
    omega
  case simple =>
    obtain ⟨n, r1, h1, h2⟩ := Dec.bind_ok_inv h
    obtain ⟨rfl, rfl⟩ := Dec.pure_ok_inv h2
    have hcz := Dec.simple_cons h1
    have hc1 := Consumes.simple _ _ _ h1
    simp only [Token.rsize, Token.render, renderedLength_cons, renderedLength_nil, Piece.rlen,
      String.length_append, toString_str, len_simple, len_rp]
    rcases hcz with _ | ⟨_, _⟩
    · have := nat_len_k n 2 (by omega) (by omega); omega
    · have := nat_len_k n 3 (by omega) (by omega); omega
  case array =>
    obtain ⟨o, r1, h1, h2⟩ := Dec.bind_ok_inv h
    cases o with
    | none => cases h2
    | some n =>
      obtain ⟨rfl, rfl⟩ := Dec.pure_ok_inv h2
      have := headed n _ (Dec.container_lt h1) (Dec.container_cons h1) (Consumes.container _ _ _ _ h1)
      simp only [Token.rsize, Token.render, renderedLength_cons, renderedLength_nil, Piece.rlen,
        String.length_append, toString_str, len_A, len_rb]
      omega
  case map =>
    obtain ⟨o, r1, h1, h2⟩ := Dec.bind_ok_inv h
    cases o with
    | none => cases h2
    | some n =>
      obtain ⟨rfl, rfl⟩ := Dec.pure_ok_inv h2
      have := headed n _ (Dec.container_lt h1) (Dec.container_cons h1) (Consumes.container _ _ _ _ h1)
      simp only [Token.rsize, Token.render, renderedLength_cons, renderedLength_nil, Piece.rlen,
        String.length_append, toString_str, len_M, len_rb]
      omega
  case unknown => cases h
  all_goals
    obtain ⟨u, r1, _, h2⟩ := Dec.bind_ok_inv h
    obtain ⟨rfl, _⟩ := Dec.pure_ok_inv h2
    omega

/-- cost of a token against consumed bytes, in the form the tokenizer induction uses. -/
theorem token_cost {bs rest : Bytes} {t : Token} (h : Dec.token bs = .ok t rest) :
    tc (.tok t) + 16 * rest.length ≤ 16 * bs.length := by
  have h1 := token_rsize16 h
  simp only [tc, Token.rsize] at *
  omega

/-- **the cost of everything the tokenizer yields is linear in the input length.** -/
theorem tokenize_cost (fuel : Nat) (bs : Bytes) (items : List TokItem)
    (h : tokenize fuel bs = some items) : tcs items ≤ 16 * bs.length := by
  induction fuel generalizing bs items with
  | zero => unfold tokenize at h; cases h
  | succ f ih =>
    unfold tokenize at h
    cases ht : Dec.token bs with
    | ok t rest =>
      rw [ht] at h
      simp only [Option.map_eq_some_iff] at h
      obtain ⟨items', h1, rfl⟩ := h
      have := ih rest items' h1
      have := token_cost ht
      simp only [tcs]; omega
    | err e rest =>
      rw [ht] at h
      have hne : bs ≠ [] ∨ e = .eoi := by
        cases bs with
        | nil => right; rw [token_nil] at ht; cases ht; rfl
        | cons b tl => left; simp
      by_cases he : e = .eoi
      · subst he; cases h; simp [tcs]
      · have : items = [.err e] := by cases e <;> simp_all
        subst this
        rcases hne with hne | hne
        · cases bs with
          | nil => exact absurd rfl hne
          | cons b tl => simp [tcs, tc]; omega
        · exact absurd hne he
    | panic => rw [ht] at h; cases h

end Minicbor
