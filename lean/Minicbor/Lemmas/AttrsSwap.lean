/-
  `try_insert` commutes on two values of different kinds (outside the two order-sensitive pairs).
-/
import Minicbor.Lemmas.AttrsSwapCl

namespace Minicbor.Attrs

set_option hygiene false in
macro "split_cl'" : tactic => `(tactic|
  (rcases codec with _ | ⟨e0, _ | n0⟩ | ⟨d0, _ | m0⟩ | ⟨e0, _ | n0, d0, _ | m0⟩ | ⟨p0, _ | _⟩ <;>
   cases nil <;> cases isNil <;> cases hasNil <;> cases cborLen <;> simp [twoCl, insertCl, CC.isModule, Eqv]))

theorem swap_isNil_nil (c : Cl) (z y : Path) : Eqv (twoCl c (.isNil z) (.nil y)) (twoCl c (.nil y) (.isNil z)) := by
  obtain ⟨codec, nil, isNil, hasNil, cborLen⟩ := c; split_cl'
theorem swap_isNil_hasNil (c : Cl) (z : Path) : Eqv (twoCl c (.isNil z) .hasNil) (twoCl c .hasNil (.isNil z)) := by
  obtain ⟨codec, nil, isNil, hasNil, cborLen⟩ := c; split_cl'
theorem swap_isNil_cborLen (c : Cl) (z q : Path) : Eqv (twoCl c (.isNil z) (.cborLen q)) (twoCl c (.cborLen q) (.isNil z)) := by
  obtain ⟨codec, nil, isNil, hasNil, cborLen⟩ := c; split_cl'
theorem swap_nil_hasNil (c : Cl) (z : Path) : Eqv (twoCl c (.nil z) .hasNil) (twoCl c .hasNil (.nil z)) := by
  obtain ⟨codec, nil, isNil, hasNil, cborLen⟩ := c; split_cl'
theorem swap_nil_cborLen (c : Cl) (z q : Path) : Eqv (twoCl c (.nil z) (.cborLen q)) (twoCl c (.cborLen q) (.nil z)) := by
  obtain ⟨codec, nil, isNil, hasNil, cborLen⟩ := c; split_cl'
theorem swap_hasNil_cborLen (c : Cl) (q : Path) : Eqv (twoCl c .hasNil (.cborLen q)) (twoCl c (.cborLen q) .hasNil) := by
  obtain ⟨codec, nil, isNil, hasNil, cborLen⟩ := c; split_cl'

/-- **the cluster commutes** on different kinds outside the order-sensitive pairs. -/
theorem swapCl (c : Cl) (v w : Val) (hv : isCluster v.kind = true) (hw : isCluster w.kind = true) (hk : v.kind ≠ w.kind)
    (hb : ¬ Bad v w) : Eqv (twoCl c v w) (twoCl c w v) := by
  cases v <;> simp [isCluster, Val.kind] at hv <;> cases w <;> simp [isCluster, Val.kind] at hw hk
  -- codec, _
  · rename_i cc z
    refine (swap_codec_nil c cc z ?_)
    intro d m h; subst h; exact hb trivial
  · rename_i cc z
    refine (swap_codec_isNil c cc z ?_)
    intro e n h; subst h; exact hb trivial
  · exact swap_codec_hasNil c _
  · exact swap_codec_cborLen c _ _
  -- nil, _
  · rename_i z cc
    refine (swap_codec_nil c cc z ?_).symm
    intro d m h; subst h; exact hb trivial
  · exact (swap_isNil_nil c _ _).symm
  · exact swap_nil_hasNil c _
  · exact swap_nil_cborLen c _ _
  -- isNil, _
  · rename_i z cc
    refine (swap_codec_isNil c cc z ?_).symm
    intro e n h; subst h; exact hb trivial
  · exact swap_isNil_nil c _ _
  · exact swap_isNil_hasNil c _
  · exact swap_isNil_cborLen c _ _
  -- hasNil, _
  · exact (swap_codec_hasNil c _).symm
  · exact (swap_nil_hasNil c _).symm
  · exact (swap_isNil_hasNil c _).symm
  · exact swap_hasNil_cborLen c _
  -- cborLen, _
  · exact (swap_codec_cborLen c _ _).symm
  · exact (swap_nil_cborLen c _ _).symm
  · exact (swap_isNil_cborLen c _ _).symm
  · exact (swap_hasNil_cborLen c _).symm

def twoRs (r : Rs) (v w : Val) : Except Err Rs :=
  match insertRs r v with
  | .error e => .error e
  | .ok r' => insertRs r' w

/-! the 28 unordered pairs of the eight independent kinds (generated; each splits only its two slots) -/

theorem swapRs_encoding_index (r : Rs) (e : Enc) (b : Bool) (i : Nat) : Eqv (twoRs r (.encoding e) (.index b i)) (twoRs r (.index b i) (.encoding e)) := by
  obtain ⟨encoding, index, indexOnly, transparent, typeParam, contextBound, tag, skip⟩ := r
  cases encoding <;> cases index <;> simp [twoRs, insertRs, Eqv]

theorem swapRs_encoding_indexOnly (r : Rs) (e : Enc)  : Eqv (twoRs r (.encoding e) .indexOnly) (twoRs r .indexOnly (.encoding e)) := by
  obtain ⟨encoding, index, indexOnly, transparent, typeParam, contextBound, tag, skip⟩ := r
  cases encoding <;> cases indexOnly <;> simp [twoRs, insertRs, Eqv]

theorem swapRs_encoding_transparent (r : Rs) (e : Enc)  : Eqv (twoRs r (.encoding e) .transparent) (twoRs r .transparent (.encoding e)) := by
  obtain ⟨encoding, index, indexOnly, transparent, typeParam, contextBound, tag, skip⟩ := r
  cases encoding <;> cases transparent <;> simp [twoRs, insertRs, Eqv]

theorem swapRs_encoding_typeParam (r : Rs) (e : Enc) (p : TP) : Eqv (twoRs r (.encoding e) (.typeParam p)) (twoRs r (.typeParam p) (.encoding e)) := by
  obtain ⟨encoding, index, indexOnly, transparent, typeParam, contextBound, tag, skip⟩ := r
  cases encoding <;> cases typeParam <;> simp only [twoRs, insertRs] <;>
    (first | (simp [Eqv]; done) | (rename_i cb; cases h : TP.merge cb p <;> simp [Eqv, h]) | (rename_i cb _; cases h : TP.merge cb p <;> simp [Eqv, h]) | (rename_i _ cb; cases h : TP.merge cb p <;> simp [Eqv, h]))

theorem swapRs_encoding_contextBound (r : Rs) (e : Enc) (x : List String) : Eqv (twoRs r (.encoding e) (.contextBound x)) (twoRs r (.contextBound x) (.encoding e)) := by
  obtain ⟨encoding, index, indexOnly, transparent, typeParam, contextBound, tag, skip⟩ := r
  cases encoding <;> cases contextBound <;> simp [twoRs, insertRs, Eqv]

theorem swapRs_encoding_tag (r : Rs) (e : Enc) (t : Nat) : Eqv (twoRs r (.encoding e) (.tag t)) (twoRs r (.tag t) (.encoding e)) := by
  obtain ⟨encoding, index, indexOnly, transparent, typeParam, contextBound, tag, skip⟩ := r
  cases encoding <;> cases tag <;> simp [twoRs, insertRs, Eqv]

theorem swapRs_encoding_skip (r : Rs) (e : Enc)  : Eqv (twoRs r (.encoding e) .skip) (twoRs r .skip (.encoding e)) := by
  obtain ⟨encoding, index, indexOnly, transparent, typeParam, contextBound, tag, skip⟩ := r
  cases encoding <;> cases skip <;> simp [twoRs, insertRs, Eqv]

theorem swapRs_index_indexOnly (r : Rs) (b : Bool) (i : Nat)  : Eqv (twoRs r (.index b i) .indexOnly) (twoRs r .indexOnly (.index b i)) := by
  obtain ⟨encoding, index, indexOnly, transparent, typeParam, contextBound, tag, skip⟩ := r
  cases index <;> cases indexOnly <;> simp [twoRs, insertRs, Eqv]

theorem swapRs_index_transparent (r : Rs) (b : Bool) (i : Nat)  : Eqv (twoRs r (.index b i) .transparent) (twoRs r .transparent (.index b i)) := by
  obtain ⟨encoding, index, indexOnly, transparent, typeParam, contextBound, tag, skip⟩ := r
  cases index <;> cases transparent <;> simp [twoRs, insertRs, Eqv]

theorem swapRs_index_typeParam (r : Rs) (b : Bool) (i : Nat) (p : TP) : Eqv (twoRs r (.index b i) (.typeParam p)) (twoRs r (.typeParam p) (.index b i)) := by
  obtain ⟨encoding, index, indexOnly, transparent, typeParam, contextBound, tag, skip⟩ := r
  cases index <;> cases typeParam <;> simp only [twoRs, insertRs] <;>
    (first | (simp [Eqv]; done) | (rename_i cb; cases h : TP.merge cb p <;> simp [Eqv, h]) | (rename_i cb _; cases h : TP.merge cb p <;> simp [Eqv, h]) | (rename_i _ cb; cases h : TP.merge cb p <;> simp [Eqv, h]))

theorem swapRs_index_contextBound (r : Rs) (b : Bool) (i : Nat) (x : List String) : Eqv (twoRs r (.index b i) (.contextBound x)) (twoRs r (.contextBound x) (.index b i)) := by
  obtain ⟨encoding, index, indexOnly, transparent, typeParam, contextBound, tag, skip⟩ := r
  cases index <;> cases contextBound <;> simp [twoRs, insertRs, Eqv]

theorem swapRs_index_tag (r : Rs) (b : Bool) (i : Nat) (t : Nat) : Eqv (twoRs r (.index b i) (.tag t)) (twoRs r (.tag t) (.index b i)) := by
  obtain ⟨encoding, index, indexOnly, transparent, typeParam, contextBound, tag, skip⟩ := r
  cases index <;> cases tag <;> simp [twoRs, insertRs, Eqv]

theorem swapRs_index_skip (r : Rs) (b : Bool) (i : Nat)  : Eqv (twoRs r (.index b i) .skip) (twoRs r .skip (.index b i)) := by
  obtain ⟨encoding, index, indexOnly, transparent, typeParam, contextBound, tag, skip⟩ := r
  cases index <;> cases skip <;> simp [twoRs, insertRs, Eqv]

theorem swapRs_indexOnly_transparent (r : Rs)   : Eqv (twoRs r .indexOnly .transparent) (twoRs r .transparent .indexOnly) := by
  obtain ⟨encoding, index, indexOnly, transparent, typeParam, contextBound, tag, skip⟩ := r
  cases indexOnly <;> cases transparent <;> simp [twoRs, insertRs, Eqv]

theorem swapRs_indexOnly_typeParam (r : Rs)  (p : TP) : Eqv (twoRs r .indexOnly (.typeParam p)) (twoRs r (.typeParam p) .indexOnly) := by
  obtain ⟨encoding, index, indexOnly, transparent, typeParam, contextBound, tag, skip⟩ := r
  cases indexOnly <;> cases typeParam <;> simp only [twoRs, insertRs] <;>
    (first | (simp [Eqv]; done) | (rename_i cb; cases h : TP.merge cb p <;> simp [Eqv, h]) | (rename_i cb _; cases h : TP.merge cb p <;> simp [Eqv, h]) | (rename_i _ cb; cases h : TP.merge cb p <;> simp [Eqv, h]))

theorem swapRs_indexOnly_contextBound (r : Rs)  (x : List String) : Eqv (twoRs r .indexOnly (.contextBound x)) (twoRs r (.contextBound x) .indexOnly) := by
  obtain ⟨encoding, index, indexOnly, transparent, typeParam, contextBound, tag, skip⟩ := r
  cases indexOnly <;> cases contextBound <;> simp [twoRs, insertRs, Eqv]

theorem swapRs_indexOnly_tag (r : Rs)  (t : Nat) : Eqv (twoRs r .indexOnly (.tag t)) (twoRs r (.tag t) .indexOnly) := by
  obtain ⟨encoding, index, indexOnly, transparent, typeParam, contextBound, tag, skip⟩ := r
  cases indexOnly <;> cases tag <;> simp [twoRs, insertRs, Eqv]

theorem swapRs_indexOnly_skip (r : Rs)   : Eqv (twoRs r .indexOnly .skip) (twoRs r .skip .indexOnly) := by
  obtain ⟨encoding, index, indexOnly, transparent, typeParam, contextBound, tag, skip⟩ := r
  cases indexOnly <;> cases skip <;> simp [twoRs, insertRs, Eqv]

theorem swapRs_transparent_typeParam (r : Rs)  (p : TP) : Eqv (twoRs r .transparent (.typeParam p)) (twoRs r (.typeParam p) .transparent) := by
  obtain ⟨encoding, index, indexOnly, transparent, typeParam, contextBound, tag, skip⟩ := r
  cases transparent <;> cases typeParam <;> simp only [twoRs, insertRs] <;>
    (first | (simp [Eqv]; done) | (rename_i cb; cases h : TP.merge cb p <;> simp [Eqv, h]) | (rename_i cb _; cases h : TP.merge cb p <;> simp [Eqv, h]) | (rename_i _ cb; cases h : TP.merge cb p <;> simp [Eqv, h]))

theorem swapRs_transparent_contextBound (r : Rs)  (x : List String) : Eqv (twoRs r .transparent (.contextBound x)) (twoRs r (.contextBound x) .transparent) := by
  obtain ⟨encoding, index, indexOnly, transparent, typeParam, contextBound, tag, skip⟩ := r
  cases transparent <;> cases contextBound <;> simp [twoRs, insertRs, Eqv]

theorem swapRs_transparent_tag (r : Rs)  (t : Nat) : Eqv (twoRs r .transparent (.tag t)) (twoRs r (.tag t) .transparent) := by
  obtain ⟨encoding, index, indexOnly, transparent, typeParam, contextBound, tag, skip⟩ := r
  cases transparent <;> cases tag <;> simp [twoRs, insertRs, Eqv]

theorem swapRs_transparent_skip (r : Rs)   : Eqv (twoRs r .transparent .skip) (twoRs r .skip .transparent) := by
  obtain ⟨encoding, index, indexOnly, transparent, typeParam, contextBound, tag, skip⟩ := r
  cases transparent <;> cases skip <;> simp [twoRs, insertRs, Eqv]

theorem swapRs_typeParam_contextBound (r : Rs) (p : TP) (x : List String) : Eqv (twoRs r (.typeParam p) (.contextBound x)) (twoRs r (.contextBound x) (.typeParam p)) := by
  obtain ⟨encoding, index, indexOnly, transparent, typeParam, contextBound, tag, skip⟩ := r
  cases typeParam <;> cases contextBound <;> simp only [twoRs, insertRs] <;>
    (first | (simp [Eqv]; done) | (rename_i cb; cases h : TP.merge cb p <;> simp [Eqv, h]) | (rename_i cb _; cases h : TP.merge cb p <;> simp [Eqv, h]) | (rename_i _ cb; cases h : TP.merge cb p <;> simp [Eqv, h]))

theorem swapRs_typeParam_tag (r : Rs) (p : TP) (t : Nat) : Eqv (twoRs r (.typeParam p) (.tag t)) (twoRs r (.tag t) (.typeParam p)) := by
  obtain ⟨encoding, index, indexOnly, transparent, typeParam, contextBound, tag, skip⟩ := r
  cases typeParam <;> cases tag <;> simp only [twoRs, insertRs] <;>
    (first | (simp [Eqv]; done) | (rename_i cb; cases h : TP.merge cb p <;> simp [Eqv, h]) | (rename_i cb _; cases h : TP.merge cb p <;> simp [Eqv, h]) | (rename_i _ cb; cases h : TP.merge cb p <;> simp [Eqv, h]))

theorem swapRs_typeParam_skip (r : Rs) (p : TP)  : Eqv (twoRs r (.typeParam p) .skip) (twoRs r .skip (.typeParam p)) := by
  obtain ⟨encoding, index, indexOnly, transparent, typeParam, contextBound, tag, skip⟩ := r
  cases typeParam <;> cases skip <;> simp only [twoRs, insertRs] <;>
    (first | (simp [Eqv]; done) | (rename_i cb; cases h : TP.merge cb p <;> simp [Eqv, h]) | (rename_i cb _; cases h : TP.merge cb p <;> simp [Eqv, h]) | (rename_i _ cb; cases h : TP.merge cb p <;> simp [Eqv, h]))

theorem swapRs_contextBound_tag (r : Rs) (x : List String) (t : Nat) : Eqv (twoRs r (.contextBound x) (.tag t)) (twoRs r (.tag t) (.contextBound x)) := by
  obtain ⟨encoding, index, indexOnly, transparent, typeParam, contextBound, tag, skip⟩ := r
  cases contextBound <;> cases tag <;> simp [twoRs, insertRs, Eqv]

theorem swapRs_contextBound_skip (r : Rs) (x : List String)  : Eqv (twoRs r (.contextBound x) .skip) (twoRs r .skip (.contextBound x)) := by
  obtain ⟨encoding, index, indexOnly, transparent, typeParam, contextBound, tag, skip⟩ := r
  cases contextBound <;> cases skip <;> simp [twoRs, insertRs, Eqv]

theorem swapRs_tag_skip (r : Rs) (t : Nat)  : Eqv (twoRs r (.tag t) .skip) (twoRs r .skip (.tag t)) := by
  obtain ⟨encoding, index, indexOnly, transparent, typeParam, contextBound, tag, skip⟩ := r
  cases tag <;> cases skip <;> simp [twoRs, insertRs, Eqv]

/-- **the independent kinds commute** on different kinds. -/
theorem swapRs (r : Rs) (v w : Val) (hv : isCluster v.kind = false) (hw : isCluster w.kind = false) (hk : v.kind ≠ w.kind) :
    Eqv (twoRs r v w) (twoRs r w v) := by
  cases v <;> simp [isCluster, Val.kind] at hv <;> cases w <;> simp [isCluster, Val.kind] at hw hk

  · exact swapRs_encoding_index r ..
  · exact swapRs_encoding_indexOnly r ..
  · exact swapRs_encoding_transparent r ..
  · exact swapRs_encoding_typeParam r ..
  · exact swapRs_encoding_contextBound r ..
  · exact swapRs_encoding_tag r ..
  · exact swapRs_encoding_skip r ..
  · exact (swapRs_encoding_index r ..).symm
  · exact swapRs_index_indexOnly r ..
  · exact swapRs_index_transparent r ..
  · exact swapRs_index_typeParam r ..
  · exact swapRs_index_contextBound r ..
  · exact swapRs_index_tag r ..
  · exact swapRs_index_skip r ..
  · exact (swapRs_encoding_indexOnly r ..).symm
  · exact (swapRs_index_indexOnly r ..).symm
  · exact swapRs_indexOnly_transparent r ..
  · exact swapRs_indexOnly_typeParam r ..
  · exact swapRs_indexOnly_contextBound r ..
  · exact swapRs_indexOnly_tag r ..
  · exact swapRs_indexOnly_skip r ..
  · exact (swapRs_encoding_transparent r ..).symm
  · exact (swapRs_index_transparent r ..).symm
  · exact (swapRs_indexOnly_transparent r ..).symm
  · exact swapRs_transparent_typeParam r ..
  · exact swapRs_transparent_contextBound r ..
  · exact swapRs_transparent_tag r ..
  · exact swapRs_transparent_skip r ..
  · exact (swapRs_encoding_typeParam r ..).symm
  · exact (swapRs_index_typeParam r ..).symm
  · exact (swapRs_indexOnly_typeParam r ..).symm
  · exact (swapRs_transparent_typeParam r ..).symm
  · exact swapRs_typeParam_contextBound r ..
  · exact swapRs_typeParam_tag r ..
  · exact swapRs_typeParam_skip r ..
  · exact (swapRs_encoding_contextBound r ..).symm
  · exact (swapRs_index_contextBound r ..).symm
  · exact (swapRs_indexOnly_contextBound r ..).symm
  · exact (swapRs_transparent_contextBound r ..).symm
  · exact (swapRs_typeParam_contextBound r ..).symm
  · exact swapRs_contextBound_tag r ..
  · exact swapRs_contextBound_skip r ..
  · exact (swapRs_encoding_tag r ..).symm
  · exact (swapRs_index_tag r ..).symm
  · exact (swapRs_indexOnly_tag r ..).symm
  · exact (swapRs_transparent_tag r ..).symm
  · exact (swapRs_typeParam_tag r ..).symm
  · exact (swapRs_contextBound_tag r ..).symm
  · exact swapRs_tag_skip r ..
  · exact (swapRs_encoding_skip r ..).symm
  · exact (swapRs_index_skip r ..).symm
  · exact (swapRs_indexOnly_skip r ..).symm
  · exact (swapRs_transparent_skip r ..).symm
  · exact (swapRs_typeParam_skip r ..).symm
  · exact (swapRs_contextBound_skip r ..).symm
  · exact (swapRs_tag_skip r ..).symm

end Minicbor.Attrs
