/-
  Helper lemmas for C17: the bridge's `deserialize_any` (with serde's `ContentVisitor`) on a
  well-formed item of any framing.
-/
import Minicbor.Lemmas.SerdeLoops

namespace Minicbor.Serde
open Minicbor.Dec

/-! ### generic loops: elements with an encoding `enc` and an expected output `out` -/

section Generic
variable {α β : Type} (enc : α → Bytes) (out : α → β)

def encAll : List α → Bytes
  | [] => []
  | x :: xs => enc x ++ encAll xs

theorem repeatN_gen (m : Dec β) : (xs : List α) → (∀ x ∈ xs, ∀ r, m (enc x ++ r) = .ok (out x) r) → ∀ rest,
    repeatN m xs.length (encAll enc xs ++ rest) = .ok (xs.map out) rest
  | [], _, rest => rfl
  | x :: xs, h, rest => by
    have hx := h x (by simp) (encAll enc xs ++ rest)
    have ih := repeatN_gen m xs (fun y hy => h y (by simp [hy])) rest
    simp only [List.length_cons, repeatN, encAll, List.append_assoc, List.map_cons]
    rw [Dec.bind_ok _ _ _ _ _ hx, Dec.bind_ok _ _ _ _ _ ih]; rfl

theorem encAll_length_ge (xs : List α) (hnb : ∀ x ∈ xs, ∃ b tl, enc x = b :: tl ∧ b ≠ 0xff) :
    xs.length ≤ (encAll enc xs).length := by
  induction xs with
  | nil => simp
  | cons x xs ih =>
    obtain ⟨b, tl, hb, _⟩ := hnb x (by simp)
    have := ih (fun y hy => hnb y (by simp [hy]))
    simp [encAll, hb]; omega

theorem untilBreak_gen (m : Dec β) : (xs : List α) → (∀ x ∈ xs, ∀ r, m (enc x ++ r) = .ok (out x) r) →
    (∀ x ∈ xs, ∃ b tl, enc x = b :: tl ∧ b ≠ 0xff) → ∀ (fuel : Nat) (rest : Bytes), xs.length + 1 ≤ fuel →
    untilBreak m fuel (encAll enc xs ++ 0xff :: rest) = .ok (xs.map out) rest
  | [], _, _, fuel, rest, hf => by
    obtain ⟨f, rfl⟩ : ∃ f, fuel = f + 1 := ⟨fuel - 1, by omega⟩
    simp [untilBreak, encAll, Dec.bind_run]
  | x :: xs, h, hnb, fuel, rest, hf => by
    obtain ⟨f, rfl⟩ : ∃ f, fuel = f + 1 := ⟨fuel - 1, by omega⟩
    obtain ⟨b, tl, hb, hne⟩ := hnb x (by simp)
    have hx := h x (by simp) (encAll enc xs ++ 0xff :: rest)
    have ih := untilBreak_gen m xs (fun y hy => h y (by simp [hy])) (fun y hy => hnb y (by simp [hy])) f rest
      (by simp at hf; omega)
    have hcur : current (enc x ++ (encAll enc xs ++ 0xff :: rest)) = .ok b (enc x ++ (encAll enc xs ++ 0xff :: rest)) := by
      rw [hb]; rfl
    have hne' : (b == 0xff) = false := by simpa using hne
    simp only [untilBreak, encAll, List.append_assoc, List.map_cons]
    rw [Dec.bind_ok _ _ _ _ _ hcur]
    simp only [hne', Bool.false_eq_true, if_false]
    rw [Dec.bind_ok _ _ _ _ _ hx, Dec.bind_ok _ _ _ _ _ ih]; rfl

/-- pairs: the same reader for keys and values, entries flattened -/
def pairUp : List β → List (List β)
  | a :: b :: rest => [a, b] :: pairUp rest
  | _ => []

theorem pairUp_flatten : (xs : List β) → xs.length % 2 = 0 → (pairUp xs).flatten = xs
  | [], _ => rfl
  | [_], h => by simp at h
  | a :: b :: rest, h => by
    have := pairUp_flatten rest (by simp at h; omega)
    simp [pairUp, this]

theorem pairs_repeatN_gen (m : Dec β) : (xs : List α) → xs.length % 2 = 0 →
    (∀ x ∈ xs, ∀ r, m (enc x ++ r) = .ok (out x) r) → ∀ rest,
    repeatN (pairM m m) (xs.length / 2) (encAll enc xs ++ rest) = .ok (pairUp (xs.map out)) rest
  | [], _, _, rest => by simp [repeatN, encAll, pairUp]
  | [_], h, _, _ => by simp at h
  | a :: b :: xs, hl, h, rest => by
    have ih := pairs_repeatN_gen m xs (by simp at hl; omega) (fun y hy => h y (by simp [hy])) rest
    have e : (a :: b :: xs).length / 2 = xs.length / 2 + 1 := by simp; omega
    have hp : pairM m m (enc a ++ (enc b ++ (encAll enc xs ++ rest))) = .ok [out a, out b] (encAll enc xs ++ rest) := by
      unfold pairM
      rw [Dec.bind_ok _ _ _ _ _ (h a (by simp) _), Dec.bind_ok _ _ _ _ _ (h b (by simp) _)]; rfl
    rw [e]
    simp only [repeatN, encAll, List.append_assoc, List.map_cons, pairUp]
    rw [Dec.bind_ok _ _ _ _ _ hp, Dec.bind_ok _ _ _ _ _ ih]; rfl

theorem pairs_untilBreak_gen (m : Dec β) : (xs : List α) → xs.length % 2 = 0 →
    (∀ x ∈ xs, ∀ r, m (enc x ++ r) = .ok (out x) r) → (∀ x ∈ xs, ∃ b tl, enc x = b :: tl ∧ b ≠ 0xff) →
    ∀ (fuel : Nat) (rest : Bytes), xs.length + 1 ≤ fuel →
    untilBreak (pairM m m) fuel (encAll enc xs ++ 0xff :: rest) = .ok (pairUp (xs.map out)) rest
  | [], _, _, _, fuel, rest, hf => by
    obtain ⟨f, rfl⟩ : ∃ f, fuel = f + 1 := ⟨fuel - 1, by omega⟩
    simp [untilBreak, encAll, pairUp, Dec.bind_run]
  | [_], h, _, _, _, _, _ => by simp at h
  | a :: b :: xs, hl, h, hnb, fuel, rest, hf => by
    obtain ⟨f, rfl⟩ : ∃ f, fuel = f + 1 := ⟨fuel - 1, by omega⟩
    obtain ⟨b0, tl, hb, hne⟩ := hnb a (by simp)
    have ih := pairs_untilBreak_gen m xs (by simp at hl; omega) (fun y hy => h y (by simp [hy]))
      (fun y hy => hnb y (by simp [hy])) f rest (by simp at hf; omega)
    have hp : pairM m m (enc a ++ (enc b ++ (encAll enc xs ++ 0xff :: rest))) =
        .ok [out a, out b] (encAll enc xs ++ 0xff :: rest) := by
      unfold pairM
      rw [Dec.bind_ok _ _ _ _ _ (h a (by simp) _), Dec.bind_ok _ _ _ _ _ (h b (by simp) _)]; rfl
    have hcur : current (enc a ++ (enc b ++ (encAll enc xs ++ 0xff :: rest))) =
        .ok b0 (enc a ++ (enc b ++ (encAll enc xs ++ 0xff :: rest))) := by rw [hb]; rfl
    have hne' : (b0 == 0xff) = false := by simpa using hne
    simp only [untilBreak, encAll, List.append_assoc, List.map_cons, pairUp]
    rw [Dec.bind_ok _ _ _ _ _ hcur]
    simp only [hne', Bool.false_eq_true, if_false]
    rw [Dec.bind_ok _ _ _ _ _ hp, Dec.bind_ok _ _ _ _ _ ih]; rfl

end Generic

theorem encWs_eq_encAll : (xs : List WItem) → encWs xs = encAll encW xs
  | [] => rfl
  | x :: xs => by simp [encWs, encAll, encWs_eq_encAll xs]

/-! ### the buffered content of a wire tree -/

def uintKind : Width → IntKind
  | .w0 => .u8 | .w1 => .u8 | .w2 => .u16 | .w4 => .u32 | .w8 => .u64

def nintKind (w : Width) (n : Nat) : IntKind :=
  match w with
  | .w0 => .i8
  | .w1 => if n < 128 then .i8 else .i16
  | .w2 => if n < 32768 then .i16 else .i32
  | .w4 => if n < 2147483648 then .i32 else .i64
  | .w8 => .i64

mutual
/-- the items the bridge's `deserialize_any` accepts: no tags, no `undefined`, no simple values
    other than false / true / null, no negative integer below `-2^63`. -/
def anyOk : WItem → Bool
  | .uint _ _ => true
  | .nint w n => !(w == .w8 && decide (9223372036854775808 ≤ n))
  | .bytes _ _ => true
  | .bytesI _ => true
  | .text _ _ => true
  | .textI _ => true
  | .array _ xs => anyOks xs
  | .arrayI xs => anyOks xs
  | .map _ kvs => anyOks kvs
  | .mapI kvs => anyOks kvs
  | .tag _ _ _ => false
  | .simple n => n == 20 || n == 21 || n == 22
  | .f16 _ => true
  | .f32 _ => true
  | .f64 _ => true
def anyOks : List WItem → Bool
  | [] => true
  | x :: xs => anyOk x && anyOks xs
end

mutual
/-- what serde's `Content` buffer holds after `deserialize_any` on the item: the value of the
    item (definite / indefinite framing and head widths erased, chunks concatenated) with the
    integer kind chosen by `Decoder::datatype`. -/
def cOfW : WItem → Content
  | .uint w n => .int (uintKind w) n
  | .nint w n => .int (nintKind w n) (-1 - (n : Int))
  | .bytes _ b => .bytes b
  | .bytesI cs => .bytes (joinChunks cs)
  | .text _ b => .str b
  | .textI cs => .str (joinChunks cs)
  | .array _ xs => .seq (cOfWs xs)
  | .arrayI xs => .seq (cOfWs xs)
  | .map _ kvs => .map (cOfWs kvs)
  | .mapI kvs => .map (cOfWs kvs)
  | .tag _ _ _ => .none
  | .simple n => if n == 22 then .none else .bool (n == 21)
  | .f16 b => .f32 (f16ToF32 b)
  | .f32 b => .f32 b
  | .f64 b => .f64 b
def cOfWs : List WItem → List Content
  | [] => []
  | x :: xs => cOfW x :: cOfWs xs
end

theorem cOfWs_eq_map : (xs : List WItem) → cOfWs xs = xs.map cOfW
  | [] => rfl
  | x :: xs => by simp [cOfWs, cOfWs_eq_map xs]

theorem f16_rt (b : Nat) (rest : Bytes) (h : b < 65536) : Dec.f16 (0xf9 :: (be 2 b ++ rest)) = .ok (f16ToF32 b) rest := by
  have hs := Dec.readSlice_be 2 b rest
  have hv := fromBe_be 2 b (by simpa using h)
  simp [Dec.f16, Dec.bind_run, hs, hv]

theorem wType_ne_break' (w : WItem) : wType w ≠ .break := by
  cases w <;> simp only [wType] <;> try simp
  · unfold headTy; simp only; repeat' split
    all_goals simp
  · rename_i w n; cases w <;> simp only [nintType] <;> (try split) <;> simp
  · split
    · unfold headTy; simp only; repeat' split
      all_goals simp
    · simp

theorem encW_head' (w : WItem) (hv : w.valid = true) : ∃ b tl, encW w = b :: tl ∧ b ≠ 0xff := by
  have hd := datatype_encW w hv []
  rw [List.append_nil] at hd
  cases he : encW w with
  | nil => rw [he] at hd; simp [Dec.datatype, Dec.bind_run] at hd
  | cons b tl =>
    refine ⟨b, tl, rfl, ?_⟩
    intro hb
    subst hb
    rw [he, datatype_nopeek _ _ (by decide)] at hd
    have : typeOfB 0xff false = wType w := by injection hd
    exact wType_ne_break' w (this ▸ by decide)

theorem validAll_mem : (xs : List WItem) → validAll xs = true → ∀ x ∈ xs, x.valid = true
  | [], _, x, hx => by cases hx
  | y :: ys, h, x, hx => by
    simp only [validAll, Bool.and_eq_true] at h
    rcases List.mem_cons.mp hx with rfl | hx'
    · exact h.1
    · exact validAll_mem ys h.2 x hx'

theorem encW_le_encWs : (xs : List WItem) → ∀ x ∈ xs, (encW x).length ≤ (encWs xs).length
  | [], x, hx => by cases hx
  | y :: ys, x, hx => by
    rcases List.mem_cons.mp hx with rfl | hx'
    · simp [encWs]
    · have := encW_le_encWs ys x hx'
      simp [encWs]; omega

/-! ### `deserialize_any` on one item -/

theorem intAcc_uint (t : IntTy) (w : Width) (n : Nat) (rest : Bytes) (hf : w.fits n = true) (hm : n ≤ t.max) :
    intAcc t (headW 0 w n ++ rest) = .ok (n : Int) rest := by
  have := C05.int_accessor_ok t w false n rest hf (by simp) hm
  simpa [C05.intHead, C05.intVal] using this

theorem intAcc_nint (t : IntTy) (w : Width) (n : Nat) (rest : Bytes) (hf : w.fits n = true) (hn : t.neg = true)
    (hm : n ≤ t.max) : intAcc t (headW 1 w n ++ rest) = .ok (-1 - (n : Int)) rest := by
  have := C05.int_accessor_ok t w true n rest hf (fun _ => hn) hm
  simpa [C05.intHead, C05.intVal] using this

theorem any_uint (w : Width) (n : Nat) (rest : Bytes) (f : Nat) (hf : w.fits n = true) :
    deAnyF (f + 1) (headW 0 w n ++ rest) = .ok (.int (uintKind w) n) rest := by
  cases w <;> simp only [Width.fits, decide_eq_true_eq] at hf
  · have hdt : datatype (headW 0 .w0 n ++ rest) = .ok .u8 (headW 0 .w0 n ++ rest) := by
      have := datatype_head 0 .w0 n rest (by omega) (by omega) (by simp [Width.fits]; omega)
      simpa [headTy, Width.ai, show n ≤ 24 ↔ True from by simp; omega] using this
    simp only [deAnyF]
    rw [Dec.bind_ok _ _ _ _ _ hdt]
    dsimp only
    rw [Dec.bind_ok _ _ _ _ _ (intAcc_uint .u8 .w0 n rest (by simp [Width.fits]; omega) (by simp [IntTy.u8]; omega))]; rfl
  · have hdt : datatype (headW 0 .w1 n ++ rest) = .ok .u8 (headW 0 .w1 n ++ rest) := by
      have := datatype_head 0 .w1 n rest (by omega) (by omega) (by simp [Width.fits]; omega)
      simpa [headTy, Width.ai] using this
    simp only [deAnyF]
    rw [Dec.bind_ok _ _ _ _ _ hdt]
    dsimp only
    rw [Dec.bind_ok _ _ _ _ _ (intAcc_uint .u8 .w1 n rest (by simp [Width.fits]; omega) (by simp [IntTy.u8]; omega))]; rfl
  · have hdt : datatype (headW 0 .w2 n ++ rest) = .ok .u16 (headW 0 .w2 n ++ rest) := by
      have := datatype_head 0 .w2 n rest (by omega) (by omega) (by simp [Width.fits]; omega)
      simpa [headTy, Width.ai] using this
    simp only [deAnyF]
    rw [Dec.bind_ok _ _ _ _ _ hdt]
    dsimp only
    rw [Dec.bind_ok _ _ _ _ _ (intAcc_uint .u16 .w2 n rest (by simp [Width.fits]; omega) (by simp [IntTy.u16]; omega))]; rfl
  · have hdt : datatype (headW 0 .w4 n ++ rest) = .ok .u32 (headW 0 .w4 n ++ rest) := by
      have := datatype_head 0 .w4 n rest (by omega) (by omega) (by simp [Width.fits]; omega)
      simpa [headTy, Width.ai] using this
    simp only [deAnyF]
    rw [Dec.bind_ok _ _ _ _ _ hdt]
    dsimp only
    rw [Dec.bind_ok _ _ _ _ _ (intAcc_uint .u32 .w4 n rest (by simp [Width.fits]; omega) (by simp [IntTy.u32]; omega))]; rfl
  · have hdt : datatype (headW 0 .w8 n ++ rest) = .ok .u64 (headW 0 .w8 n ++ rest) := by
      have := datatype_head 0 .w8 n rest (by omega) (by omega) (by simp [Width.fits]; omega)
      simpa [headTy, Width.ai] using this
    simp only [deAnyF]
    rw [Dec.bind_ok _ _ _ _ _ hdt]
    dsimp only
    rw [Dec.bind_ok _ _ _ _ _ (intAcc_uint .u64 .w8 n rest (by simp [Width.fits]; omega) (by simp [IntTy.u64]; omega))]; rfl

theorem any_nint (w : Width) (n : Nat) (rest : Bytes) (f : Nat) (hf : w.fits n = true)
    (hok : (w == .w8 && decide (9223372036854775808 ≤ n)) = false) :
    deAnyF (f + 1) (headW 1 w n ++ rest) = .ok (.int (nintKind w n) (-1 - (n : Int))) rest := by
  cases w <;> simp only [Width.fits, decide_eq_true_eq] at hf
  ·
    have hdt : datatype (headW 1 .w0 n ++ rest) = .ok .i8 (headW 1 .w0 n ++ rest) := by
      have := datatype_nint .w0 n rest (by simp [Width.fits]; omega)
      simpa [nintType, hf] using this
    simp only [deAnyF]
    rw [Dec.bind_ok _ _ _ _ _ hdt]
    dsimp only
    rw [Dec.bind_ok _ _ _ _ _ (intAcc_nint .i8 .w0 n rest (by simp [Width.fits]; omega) rfl (by simp [IntTy.i8]; omega))]
    simp [nintKind]
  · by_cases h : n < 128
    ·
      have hdt : datatype (headW 1 .w1 n ++ rest) = .ok .i8 (headW 1 .w1 n ++ rest) := by
        have := datatype_nint .w1 n rest (by simp [Width.fits]; omega)
        simpa [nintType, h] using this
      simp only [deAnyF]
      rw [Dec.bind_ok _ _ _ _ _ hdt]
      dsimp only
      rw [Dec.bind_ok _ _ _ _ _ (intAcc_nint .i8 .w1 n rest (by simp [Width.fits]; omega) rfl (by simp [IntTy.i8]; omega))]
      simp [nintKind, h]
    ·
      have hdt : datatype (headW 1 .w1 n ++ rest) = .ok .i16 (headW 1 .w1 n ++ rest) := by
        have := datatype_nint .w1 n rest (by simp [Width.fits]; omega)
        simpa [nintType, h] using this
      simp only [deAnyF]
      rw [Dec.bind_ok _ _ _ _ _ hdt]
      dsimp only
      rw [Dec.bind_ok _ _ _ _ _ (intAcc_nint .i16 .w1 n rest (by simp [Width.fits]; omega) rfl (by simp [IntTy.i16]; omega))]
      simp [nintKind, h]
  · by_cases h : n < 32768
    ·
      have hdt : datatype (headW 1 .w2 n ++ rest) = .ok .i16 (headW 1 .w2 n ++ rest) := by
        have := datatype_nint .w2 n rest (by simp [Width.fits]; omega)
        simpa [nintType, h] using this
      simp only [deAnyF]
      rw [Dec.bind_ok _ _ _ _ _ hdt]
      dsimp only
      rw [Dec.bind_ok _ _ _ _ _ (intAcc_nint .i16 .w2 n rest (by simp [Width.fits]; omega) rfl (by simp [IntTy.i16]; omega))]
      simp [nintKind, h]
    ·
      have hdt : datatype (headW 1 .w2 n ++ rest) = .ok .i32 (headW 1 .w2 n ++ rest) := by
        have := datatype_nint .w2 n rest (by simp [Width.fits]; omega)
        simpa [nintType, h] using this
      simp only [deAnyF]
      rw [Dec.bind_ok _ _ _ _ _ hdt]
      dsimp only
      rw [Dec.bind_ok _ _ _ _ _ (intAcc_nint .i32 .w2 n rest (by simp [Width.fits]; omega) rfl (by simp [IntTy.i32]; omega))]
      simp [nintKind, h]
  · by_cases h : n < 2147483648
    ·
      have hdt : datatype (headW 1 .w4 n ++ rest) = .ok .i32 (headW 1 .w4 n ++ rest) := by
        have := datatype_nint .w4 n rest (by simp [Width.fits]; omega)
        simpa [nintType, h] using this
      simp only [deAnyF]
      rw [Dec.bind_ok _ _ _ _ _ hdt]
      dsimp only
      rw [Dec.bind_ok _ _ _ _ _ (intAcc_nint .i32 .w4 n rest (by simp [Width.fits]; omega) rfl (by simp [IntTy.i32]; omega))]
      simp [nintKind, h]
    ·
      have hdt : datatype (headW 1 .w4 n ++ rest) = .ok .i64 (headW 1 .w4 n ++ rest) := by
        have := datatype_nint .w4 n rest (by simp [Width.fits]; omega)
        simpa [nintType, h] using this
      simp only [deAnyF]
      rw [Dec.bind_ok _ _ _ _ _ hdt]
      dsimp only
      rw [Dec.bind_ok _ _ _ _ _ (intAcc_nint .i64 .w4 n rest (by simp [Width.fits]; omega) rfl (by simp [IntTy.i64]; omega))]
      simp [nintKind, h]
  · have h : n < 9223372036854775808 := by simpa using hok
    have hdt : datatype (headW 1 .w8 n ++ rest) = .ok .i64 (headW 1 .w8 n ++ rest) := by
      have := datatype_nint .w8 n rest (by simp [Width.fits]; omega)
      simpa [nintType, h] using this
    simp only [deAnyF]
    rw [Dec.bind_ok _ _ _ _ _ hdt]
    dsimp only
    rw [Dec.bind_ok _ _ _ _ _ (intAcc_nint .i64 .w8 n rest (by simp [Width.fits]; omega) rfl (by simp [IntTy.i64]; omega))]
    simp [nintKind]

mutual
/-- **`deserialize_any` consumes exactly one item** and buffers its value, for every framing of
    every item it accepts (any head widths, definite or indefinite containers, chunked
    strings, half floats), whatever follows. -/
theorem deAnyF_encW : (w : WItem) → w.valid = true → anyOk w = true → ∀ (fuel : Nat) (rest : Bytes),
    (encW w).length ≤ fuel → deAnyF fuel (encW w ++ rest) = .ok (cOfW w) rest
  | .uint w n, hv, _, fuel, rest, hfu => by
    obtain ⟨f, rfl⟩ : ∃ f, fuel = f + 1 := ⟨fuel - 1, by simp [encW, headW] at hfu; omega⟩
    simp only [WItem.valid] at hv
    exact any_uint w n rest f hv
  | .nint w n, hv, hok, fuel, rest, hfu => by
    obtain ⟨f, rfl⟩ : ∃ f, fuel = f + 1 := ⟨fuel - 1, by simp [encW, headW] at hfu; omega⟩
    simp only [WItem.valid] at hv
    simp only [anyOk, Bool.not_eq_true'] at hok
    exact any_nint w n rest f hv hok
  | .bytes w b, hv, _, fuel, rest, hfu => by
    obtain ⟨f, rfl⟩ : ∃ f, fuel = f + 1 := ⟨fuel - 1, by simp [encW, headW] at hfu; omega⟩
    have hdt := datatype_encW (.bytes w b) hv rest
    simp only [WItem.valid] at hv
    simp only [deAnyF]
    rw [Dec.bind_ok _ _ _ _ _ hdt]
    simp only [wType]
    rw [Dec.bind_ok _ _ _ _ _ (C04.bytes_sound w b rest hv)]; rfl
  | .text w b, hv, _, fuel, rest, hfu => by
    obtain ⟨f, rfl⟩ : ∃ f, fuel = f + 1 := ⟨fuel - 1, by simp [encW, headW] at hfu; omega⟩
    have hdt := datatype_encW (.text w b) hv rest
    simp only [WItem.valid, Bool.and_eq_true] at hv
    simp only [deAnyF]
    rw [Dec.bind_ok _ _ _ _ _ hdt]
    simp only [wType]
    rw [Dec.bind_ok _ _ _ _ _ (C04.str_sound w b rest hv.1 hv.2)]; rfl
  | .bytesI cs, hv, _, fuel, rest, hfu => by
    obtain ⟨f, rfl⟩ : ∃ f, fuel = f + 1 := ⟨fuel - 1, by simp [encW] at hfu; omega⟩
    have hdt := datatype_encW (.bytesI cs) hv rest
    obtain ⟨chunks, hc, hval⟩ := C04.bytes_iter_indef cs rest hv
    simp only [deAnyF]
    rw [Dec.bind_ok _ _ _ _ _ hdt]
    simp only [wType]
    rw [Dec.bind_ok _ _ _ _ _ hc]
    simp only [value] at hval
    injection hval with hval
    simp [cOfW, hval]
  | .textI cs, hv, _, fuel, rest, hfu => by
    obtain ⟨f, rfl⟩ : ∃ f, fuel = f + 1 := ⟨fuel - 1, by simp [encW] at hfu; omega⟩
    have hdt := datatype_encW (.textI cs) hv rest
    obtain ⟨chunks, hc, hval⟩ := C04.str_iter_indef cs rest hv
    simp only [deAnyF]
    rw [Dec.bind_ok _ _ _ _ _ hdt]
    simp only [wType]
    rw [Dec.bind_ok _ _ _ _ _ hc]
    simp only [value] at hval
    injection hval with hval
    simp [cOfW, hval]
  | .array w xs, hv, hok, fuel, rest, hfu => by
    obtain ⟨f, rfl⟩ : ∃ f, fuel = f + 1 := ⟨fuel - 1, by simp [encW, headW] at hfu; omega⟩
    have hdt := datatype_encW (.array w xs) hv rest
    simp only [WItem.valid, Bool.and_eq_true] at hv
    simp only [anyOk] at hok
    have hl : (encWs xs).length ≤ f := by simp [encW, headW] at hfu; omega
    have hall := deAnyF_all xs hv.2 hok f hl
    have hseq := repeatN_gen encW cOfW (deAnyF f) xs hall rest
    rw [← encWs_eq_encAll, ← cOfWs_eq_map] at hseq
    simp only [deAnyF]
    rw [Dec.bind_ok _ _ _ _ _ hdt]
    simp only [wType, encW, List.append_assoc]
    rw [Dec.bind_ok _ _ _ _ _ (C04.array_sound w xs.length _ hv.1)]
    simp only [seqAccess]
    rw [Dec.bind_ok _ _ _ _ _ hseq]; rfl
  | .arrayI xs, hv, hok, fuel, rest, hfu => by
    obtain ⟨f, rfl⟩ : ∃ f, fuel = f + 1 := ⟨fuel - 1, by simp [encW] at hfu; omega⟩
    have hdt := datatype_encW (.arrayI xs) hv rest
    simp only [WItem.valid] at hv
    simp only [anyOk] at hok
    have hl : (encWs xs).length ≤ f := by simp [encW] at hfu; omega
    have hall := deAnyF_all xs hv hok f hl
    have hnb : ∀ x ∈ xs, ∃ b tl, encW x = b :: tl ∧ b ≠ 0xff := fun x hx => encW_head' x (validAll_mem xs hv x hx)
    have hlen := encAll_length_ge encW xs hnb
    have hseq := untilBreak_gen encW cOfW (deAnyF f) xs hall hnb ((encAll encW xs ++ 0xff :: rest).length + 1) rest
      (by simp; omega)
    rw [← encWs_eq_encAll, ← cOfWs_eq_map] at hseq
    simp only [deAnyF]
    rw [Dec.bind_ok _ _ _ _ _ hdt]
    simp only [wType, encW, List.cons_append, List.append_assoc, List.nil_append]
    rw [Dec.bind_ok _ _ _ _ _ (C04.array_indef _)]
    have : seqAccess (deAnyF f) none (encWs xs ++ 0xff :: rest) = .ok (cOfWs xs) rest := hseq
    rw [Dec.bind_ok _ _ _ _ _ this]; rfl
  | .map w kvs, hv, hok, fuel, rest, hfu => by
    obtain ⟨f, rfl⟩ : ∃ f, fuel = f + 1 := ⟨fuel - 1, by simp [encW, headW] at hfu; omega⟩
    have hdt := datatype_encW (.map w kvs) hv rest
    simp only [WItem.valid, Bool.and_eq_true, beq_iff_eq] at hv
    simp only [anyOk] at hok
    have hl : (encWs kvs).length ≤ f := by simp [encW, headW] at hfu; omega
    have hall := deAnyF_all kvs hv.2 hok f hl
    have hseq := pairs_repeatN_gen encW cOfW (deAnyF f) kvs hv.1.1 hall rest
    rw [← encWs_eq_encAll, ← cOfWs_eq_map] at hseq
    have hflat : (pairUp (cOfWs kvs)).flatten = cOfWs kvs := pairUp_flatten _ (by rw [cOfWs_eq_map]; simpa using hv.1.1)
    simp only [deAnyF]
    rw [Dec.bind_ok _ _ _ _ _ hdt]
    simp only [wType, encW, List.append_assoc]
    rw [Dec.bind_ok _ _ _ _ _ (C04.map_sound w (kvs.length / 2) _ hv.1.2)]
    have hm : mapAccess (deAnyF f) (deAnyF f) (some (kvs.length / 2)) (encWs kvs ++ rest) = .ok (cOfWs kvs) rest := by
      unfold mapAccess seqAccess
      rw [Dec.bind_ok _ _ _ _ _ hseq]; simp [hflat]
    rw [Dec.bind_ok _ _ _ _ _ hm]; rfl
  | .mapI kvs, hv, hok, fuel, rest, hfu => by
    obtain ⟨f, rfl⟩ : ∃ f, fuel = f + 1 := ⟨fuel - 1, by simp [encW] at hfu; omega⟩
    have hdt := datatype_encW (.mapI kvs) hv rest
    simp only [WItem.valid, Bool.and_eq_true, beq_iff_eq] at hv
    simp only [anyOk] at hok
    have hl : (encWs kvs).length ≤ f := by simp [encW] at hfu; omega
    have hall := deAnyF_all kvs hv.2 hok f hl
    have hnb : ∀ x ∈ kvs, ∃ b tl, encW x = b :: tl ∧ b ≠ 0xff := fun x hx => encW_head' x (validAll_mem kvs hv.2 x hx)
    have hlen := encAll_length_ge encW kvs hnb
    have hseq := pairs_untilBreak_gen encW cOfW (deAnyF f) kvs hv.1 hall hnb ((encAll encW kvs ++ 0xff :: rest).length + 1) rest
      (by simp; omega)
    rw [← encWs_eq_encAll, ← cOfWs_eq_map] at hseq
    have hflat : (pairUp (cOfWs kvs)).flatten = cOfWs kvs := pairUp_flatten _ (by rw [cOfWs_eq_map]; simpa using hv.1)
    simp only [deAnyF]
    rw [Dec.bind_ok _ _ _ _ _ hdt]
    simp only [wType, encW, List.cons_append, List.append_assoc, List.nil_append]
    rw [Dec.bind_ok _ _ _ _ _ (C04.map_indef _)]
    have h2 : seqAccess (pairM (deAnyF f) (deAnyF f)) none (encWs kvs ++ 0xff :: rest) = .ok (pairUp (cOfWs kvs)) rest := hseq
    have hm : mapAccess (deAnyF f) (deAnyF f) none (encWs kvs ++ 0xff :: rest) = .ok (cOfWs kvs) rest := by
      unfold mapAccess
      rw [Dec.bind_ok _ _ _ _ _ h2]; simp [hflat]
    rw [Dec.bind_ok _ _ _ _ _ hm]; rfl
  | .tag _ _ _, _, hok, _, _, _ => by simp [anyOk] at hok
  | .simple n, hv, hok, fuel, rest, hfu => by
    obtain ⟨f, rfl⟩ : ∃ f, fuel = f + 1 := ⟨fuel - 1, by simp [encW] at hfu; split at hfu <;> simp at hfu <;> omega⟩
    have hdt := datatype_encW (.simple n) hv rest
    simp only [anyOk, Bool.or_eq_true, beq_iff_eq] at hok
    simp only [deAnyF]
    rcases hok with (rfl | rfl) | rfl
    · rw [show wType (.simple 20) = .bool by decide] at hdt
      rw [Dec.bind_ok _ _ _ _ _ hdt]
      dsimp only
      have hb : Dec.bool (encW (.simple 20) ++ rest) = .ok false rest := C04.bool_sound false rest
      rw [Dec.bind_ok _ _ _ _ _ hb]; rfl
    · rw [show wType (.simple 21) = .bool by decide] at hdt
      rw [Dec.bind_ok _ _ _ _ _ hdt]
      dsimp only
      have hb : Dec.bool (encW (.simple 21) ++ rest) = .ok true rest := C04.bool_sound true rest
      rw [Dec.bind_ok _ _ _ _ _ hb]; rfl
    · rw [show wType (.simple 22) = .null by decide] at hdt
      rw [Dec.bind_ok _ _ _ _ _ hdt]
      dsimp only
      have : encW (.simple 22) ++ rest = 0xf6 :: rest := rfl
      rw [this, Dec.bind_ok _ _ _ _ _ (skip_null rest)]; rfl
  | .f16 b, hv, _, fuel, rest, hfu => by
    obtain ⟨f, rfl⟩ : ∃ f, fuel = f + 1 := ⟨fuel - 1, by simp [encW] at hfu; omega⟩
    have hdt := datatype_encW (.f16 b) hv rest
    simp only [WItem.valid, decide_eq_true_eq] at hv
    simp only [deAnyF]
    rw [Dec.bind_ok _ _ _ _ _ hdt]
    simp only [wType, encW, List.cons_append]
    rw [Dec.bind_ok _ _ _ _ _ (f16_rt b rest hv)]; rfl
  | .f32 b, hv, _, fuel, rest, hfu => by
    obtain ⟨f, rfl⟩ : ∃ f, fuel = f + 1 := ⟨fuel - 1, by simp [encW] at hfu; omega⟩
    have hdt := datatype_encW (.f32 b) hv rest
    simp only [WItem.valid, decide_eq_true_eq] at hv
    simp only [deAnyF]
    rw [Dec.bind_ok _ _ _ _ _ hdt]
    simp only [wType]
    have := f32_rt b rest hv
    rw [show Enc.f32 b = encW (.f32 b) from rfl] at this
    rw [Dec.bind_ok _ _ _ _ _ this]; rfl
  | .f64 b, hv, _, fuel, rest, hfu => by
    obtain ⟨f, rfl⟩ : ∃ f, fuel = f + 1 := ⟨fuel - 1, by simp [encW] at hfu; omega⟩
    have hdt := datatype_encW (.f64 b) hv rest
    simp only [WItem.valid, decide_eq_true_eq] at hv
    simp only [deAnyF]
    rw [Dec.bind_ok _ _ _ _ _ hdt]
    simp only [wType]
    have := f64_rt b rest hv
    rw [show Enc.f64 b = encW (.f64 b) from rfl] at this
    rw [Dec.bind_ok _ _ _ _ _ this]; rfl
theorem deAnyF_all : (xs : List WItem) → validAll xs = true → anyOks xs = true → ∀ (fuel : Nat),
    (encWs xs).length ≤ fuel → ∀ x ∈ xs, ∀ r, deAnyF fuel (encW x ++ r) = .ok (cOfW x) r
  | [], _, _, _, _, x, hx, _ => by cases hx
  | y :: ys, hv, hok, fuel, hfu, x, hx, r => by
    simp only [validAll, Bool.and_eq_true] at hv
    simp only [anyOks, Bool.and_eq_true] at hok
    simp only [encWs, List.length_append] at hfu
    rcases List.mem_cons.mp hx with e | hx'
    · rw [e]; exact deAnyF_encW y hv.1 hok.1 fuel r (by omega)
    · exact deAnyF_all ys hv.2 hok.2 fuel (by omega) x hx' r
end

theorem deAny_encW (w : WItem) (hv : w.valid = true) (hok : anyOk w = true) (rest : Bytes) :
    deAny (encW w ++ rest) = .ok (cOfW w) rest :=
  deAnyF_encW w hv hok _ rest (by simp; omega)

end Minicbor.Serde
