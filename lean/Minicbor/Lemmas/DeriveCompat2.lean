/-
  C10, general case: the reader's body decoder on a body written by *any compatible* version.
  `body_compat` instantiates the engine `fieldsDec_compat` (DeriveCompat.lean) with what the
  documentation promises (`projFields` / `assemble`, Compat.lean): given, for every shared
  non-nil field, that the reader's field decoder delivers the projection of the writer's value
  (`ItemC`, supplied by the mutual induction in Thm/C10.lean), the reader's slot loops and
  initialiser deliver `assemble gs (projFields fs gs vs)`.  Items the reader does not know and
  items whose unknown variant is swallowed are crossed by `skip()` (C06.skip_exact through
  DeriveValid.lean).
-/
import Minicbor.Lemmas.DeriveCompat
import Minicbor.Lemmas.DeriveValid

namespace Minicbor.Derive
open Minicbor.Dec

/-! ### small facts about the per-field selections -/

theorem swallows_eq (a : FAttr) (t : FTy) : swallows a t = optionalField a t := by
  unfold swallows optionalField nilOf
  cases a.codec <;> cases t.isOption <;> simp

theorem nilVal_eq (b : FAttr) (u : FTy) (z : Val) (hc : codecOk b.codec u = true) (h : nilOf b u = some z) :
    nilVal b u = z := by
  unfold nilVal slotInit
  unfold nilOf at h
  cases hcd : b.codec <;> rw [hcd] at h hc <;> simp only at h
  · cases hu : u.isOption <;> rw [hu] at h <;> simp at h
    subst h; simp
  · cases hu : u.isOption <;> rw [hu] at h <;> simp at h
    subst h; simp
  · have ht : u = .int .u32 := by
      cases u <;> simp [codecOk] at hc
      rename_i k; cases k <;> simp [codecOk] at hc; rfl
    subst ht
    cases h
    simp [FTy.isOption, nilOf, hcd]

theorem encWith_nil (a : FAttr) (t : FTy) (v : Val) (hc : codecOk a.codec t = true) (hv : hasTy t v = true)
    (hn : isNilField a t v = true) : encWith a.codec (encTy t) v = Enc.null := by
  unfold isNilField at hn
  cases hcd : a.codec <;> rw [hcd] at hn hc <;> simp only at hn
  · simp only [Bool.and_eq_true] at hn
    cases t <;> simp [FTy.isOption] at hn
    cases v <;> simp [Val.isNone] at hn
    simp [encWith, encTy]
  · simp only [Bool.and_eq_true] at hn
    cases t <;> simp [FTy.isOption] at hn
    cases v <;> simp [Val.isNone] at hn
    simp [encWith, encTy]
  · have ht : t = .int .u32 := by
      cases t <;> simp [codecOk] at hc
      rename_i k; cases k <;> simp [codecOk] at hc; rfl
    subst ht
    cases v <;> simp [hasTy] at hv
    rename_i i
    have : i = 0 := by simpa [Val.isZero] using hn
    subst this
    simp [encWith]

/-- the partner of a field whose value is nil is an optional field. -/
theorem nil_partner_optional (a : FAttr) (t : FTy) (v : Val) (b : FAttr) (u : FTy) (l : Bool)
    (hn : isNilField a t v = true) (hcod : (a.codec == .nilu) = (b.codec == .nilu))
    (hct : compatTy l t u = true) : optionalField b u = true := by
  unfold isNilField at hn
  unfold optionalField nilOf
  cases hcd : a.codec <;> rw [hcd] at hn hcod <;> simp only at hn
  · simp only [Bool.and_eq_true] at hn
    cases t <;> simp [FTy.isOption] at hn
    cases u <;> simp [compatTy] at hct
    cases hb : b.codec <;> rw [hb] at hcod <;> simp [FTy.isOption] at hcod ⊢
  · simp only [Bool.and_eq_true] at hn
    cases t <;> simp [FTy.isOption] at hn
    cases u <;> simp [compatTy] at hct
    cases hb : b.codec <;> rw [hb] at hcod <;> simp [FTy.isOption] at hcod ⊢
  · cases hb : b.codec <;> rw [hb] at hcod <;> simp at hcod ⊢

/-! ### the projection, field by field -/

/-- what the projection says the reader's field `(b, u)` holds, given its partner `(a, t)`, `v`. -/
def pOf (a : FAttr) (t : FTy) (v : Val) (b : FAttr) (u : FTy) : PRes :=
  if isNilField a t v then nilOrBad b u
  else match projTy t u v with
    | .unknown => if swallows b u then nilOrBad b u else .unknown
    | x => x

theorem projFields_find : ∀ (fs : Fields) (gs : Fields) (vs : List Val) (i : Nat), (liveIdxs fs).Nodup →
    (projFields fs gs vs).find? (fun p => p.1 == i) =
      (match lookupVal fs vs i with
       | some (a, t, v) => (match findField gs i with
          | some (b, u) => some (i, pOf a t v b u)
          | none => none)
       | none => none)
  | [], gs, vs, i, _ => by cases vs <;> simp [projFields, lookupVal]
  | (a, t) :: fs, gs, [], i, _ => by simp [projFields, lookupVal]
  | (a, t) :: fs, gs, v :: vs, i, hnd => by
    cases hs : a.skip
    · have hnd' : a.idx ∉ liveIdxs fs ∧ (liveIdxs fs).Nodup := by simpa [liveIdxs, hs] using hnd
      have ih := projFields_find fs gs vs i hnd'.2
      by_cases hi : a.idx = i
      · subst hi
        have hno := lookupVal_none_of_not_mem fs vs a.idx hnd'.1
        cases hf : findField gs a.idx with
        | none =>
          simp only [projFields, hs, Bool.false_eq_true, if_false, hf, lookupVal, Bool.not_false, Bool.true_and,
            beq_self_eq_true, if_true]
          rw [ih, hno]
        | some g =>
          obtain ⟨b, u⟩ := g
          simp only [projFields, hs, Bool.false_eq_true, if_false, hf, lookupVal, Bool.not_false, Bool.true_and,
            beq_self_eq_true, if_true, List.find?_cons_of_pos]
          rfl
      · have hb : (a.idx == i) = false := by simpa using hi
        cases hf : findField gs a.idx with
        | none =>
          simp only [projFields, hs, Bool.false_eq_true, if_false, hf, lookupVal, Bool.not_false, Bool.true_and, hb]
          exact ih
        | some g =>
          obtain ⟨b, u⟩ := g
          simp only [projFields, hs, Bool.false_eq_true, if_false, hf, lookupVal, Bool.not_false, Bool.true_and, hb,
            List.find?_cons, Bool.false_eq_true]
          exact ih
    · have hnd' : (liveIdxs fs).Nodup := by simpa [liveIdxs, hs] using hnd
      have ih := projFields_find fs gs vs i hnd'
      simp only [projFields, hs, if_true, lookupVal, Bool.not_true, Bool.false_and, Bool.false_eq_true, if_false]
      exact ih

/-- the entry of the reader's field `(b, u)` in `assemble`. -/
def hereOf (ps : List (Nat × PRes)) (b : FAttr) (u : FTy) : PRes :=
  if b.skip then .ok (defaultOf u)
  else match ps.find? (fun p => p.1 == b.idx) with
    | some p => p.2
    | none => nilOrBad b u

theorem assemble_cons (b : FAttr) (u : FTy) (gs : Fields) (ps : List (Nat × PRes)) :
    assemble ((b, u) :: gs) ps =
      (match hereOf ps b u, assemble gs ps with
       | .ok v, .ok (.struct vs) => .ok (.struct (v :: vs))
       | .unknown, .ok _ => .unknown
       | .ok _, .unknown => .unknown
       | .unknown, .unknown => .unknown
       | _, _ => .bad) := rfl

inductive All2 {α β : Type} (R : α → β → Prop) : List α → List β → Prop
  | nil : All2 R [] []
  | cons {a : α} {b : β} {l₁ : List α} {l₂ : List β} : R a b → All2 R l₁ l₂ → All2 R (a :: l₁) (b :: l₂)

/-- `assemble` succeeds exactly with the list of the per-field entries. -/
theorem assemble_ok : ∀ (gs : Fields) (ps : List (Nat × PRes)) (y : Val), assemble gs ps = .ok y →
    ∃ xs, y = .struct xs ∧ All2 (fun (g : FAttr × FTy) x => hereOf ps g.1 g.2 = .ok x) gs xs
  | [], ps, y, h => by
    simp only [assemble] at h
    cases h
    exact ⟨[], rfl, All2.nil⟩
  | (b, u) :: gs, ps, y, h => by
    rw [assemble_cons] at h
    cases hh : hereOf ps b u with
    | ok v =>
      cases ha : assemble gs ps with
      | ok z =>
        obtain ⟨vs, rfl, hF⟩ := assemble_ok gs ps z ha
        rw [hh, ha] at h
        simp only at h
        cases h
        exact ⟨v :: vs, rfl, All2.cons hh hF⟩
      | unknown => rw [hh, ha] at h; simp at h
      | bad => rw [hh, ha] at h; simp at h
    | unknown =>
      cases ha : assemble gs ps <;> rw [hh, ha] at h <;> simp at h
    | bad =>
      cases ha : assemble gs ps <;> rw [hh, ha] at h <;> simp at h

theorem assemble_ne_unknown : ∀ (gs : Fields) (ps : List (Nat × PRes)),
    (∀ g ∈ gs, hereOf ps g.1 g.2 ≠ .unknown) → assemble gs ps ≠ .unknown
  | [], ps, _ => by simp [assemble]
  | (b, u) :: gs, ps, h => by
    have ih := assemble_ne_unknown gs ps (fun g hg => h g (by simp [hg]))
    have h0 := h (b, u) (by simp)
    rw [assemble_cons]
    cases hh : hereOf ps b u with
    | ok v =>
      cases ha : assemble gs ps with
      | ok z => cases z <;> simp
      | unknown => exact absurd ha ih
      | bad => simp
    | unknown => exact absurd hh h0
    | bad => cases ha : assemble gs ps <;> simp

theorem forall2_mem_left {α β : Type} {R : α → β → Prop} : ∀ {l₁ : List α} {l₂ : List β}, All2 R l₁ l₂ →
    ∀ a ∈ l₁, ∃ b, R a b
  | _, _, .nil, a, h => by simp at h
  | _, _, .cons hr hrest, a, h => by
    rcases List.mem_cons.1 h with rfl | h
    · exact ⟨_, hr⟩
    · exact forall2_mem_left hrest a h

/-! ### what the schema-level relation says about a shared field -/

theorem compatFields_lookup : ∀ (fs : Fields) (vs : List Val) (gs : Fields) (i : Nat) (a : FAttr) (t : FTy) (v : Val)
    (b : FAttr) (u : FTy), compatFields fs gs = true → lookupVal fs vs i = some (a, t, v) → findField gs i = some (b, u) →
    a.tag = b.tag ∧ (a.codec == .nilu) = (b.codec == .nilu) ∧ compatTy (optionalField b u) t u = true
  | [], vs, _, _, _, _, _, _, _, _, h, _ => by cases vs <;> simp [lookupVal] at h
  | (a', t') :: fs, [], _, _, _, _, _, _, _, _, h, _ => by simp [lookupVal] at h
  | (a', t') :: fs, v' :: vs, gs, i, a, t, v, b, u, hc, h, hf => by
    simp only [compatFields, Bool.and_eq_true] at hc
    simp only [lookupVal] at h
    split at h
    · rename_i hcond
      simp only [Bool.and_eq_true, Bool.not_eq_true', beq_iff_eq] at hcond
      cases h
      have h1 := hc.1
      rw [hcond.1, hcond.2, hf] at h1
      simp only [Bool.false_eq_true, if_false, Bool.and_eq_true, beq_iff_eq] at h1
      exact ⟨h1.1.1, by simpa using h1.1.2, h1.2⟩
    · exact compatFields_lookup fs vs gs i a t v b u hc.2 h hf

theorem onlyOptional_mem (gs fs : Fields) (b : FAttr) (u : FTy) (h : onlyOptional gs fs = true) (hm : (b, u) ∈ gs)
    (hs : b.skip = false) (hf : findField fs b.idx = none) : optionalField b u = true := by
  have := List.all_eq_true.1 h (b, u) hm
  simpa [hs, hf] using this

/-! ### per-item statements supplied by the induction over the schema -/

/-- the reader's field decoder on the writer's encoding of a (non-nil) shared field: it delivers
    the projection; if the projection is "unknown variant" the position is lenient and the
    decoder reports an unknown-variant error. -/
def ItemC (l : Bool) (a : FAttr) (t : FTy) (v : Val) (b : FAttr) (u : FTy) : Prop :=
  (∀ x, projTy t u v = .ok x → ∀ r, decWith b.codec (decTy u) (encWith a.codec (encTy t) v ++ r) = .ok x r) ∧
  (projTy t u v = .unknown → l = true ∧
    ∀ r, ∃ r', decWith b.codec (decTy u) (encWith a.codec (encTy t) v ++ r) = .err .variant r')

def FieldsC (gs : Fields) : Fields → List Val → Prop
  | (a, t) :: fs, v :: vs =>
      (a.skip = false → isNilField a t v = false → ∀ b u, findField gs a.idx = some (b, u) →
        ItemC (optionalField b u) a t v b u) ∧ FieldsC gs fs vs
  | _, _ => True

theorem FieldsC_lookup (gs : Fields) : ∀ (fs : Fields) (vs : List Val) (i : Nat) (a : FAttr) (t : FTy) (v : Val)
    (b : FAttr) (u : FTy), FieldsC gs fs vs → lookupVal fs vs i = some (a, t, v) → isNilField a t v = false →
    findField gs i = some (b, u) → ItemC (optionalField b u) a t v b u
  | [], vs, _, _, _, _, _, _, _, h, _, _ => by cases vs <;> simp [lookupVal] at h
  | (a', t') :: fs, [], _, _, _, _, _, _, _, h, _, _ => by simp [lookupVal] at h
  | (a', t') :: fs, v' :: vs, i, a, t, v, b, u, hC, h, hn, hf => by
    simp only [lookupVal] at h
    split at h
    · rename_i hcond
      simp only [Bool.and_eq_true, Bool.not_eq_true', beq_iff_eq] at hcond
      cases h
      exact hC.1 hcond.1 hn b u (by rw [hcond.2]; exact hf)
    · exact FieldsC_lookup gs fs vs i a t v b u hC.2 h hn hf

/-! ### the reader's actions on the items of the writer's body -/

/-- an unknown-variant error of a swallowing field: the whole item is skipped, the slot stays. -/
theorem action_swallow (b : FAttr) (u : FTy) (X r r' : Bytes)
    (htag : tagOk b.tag = true) (hsw : swallows b u = true)
    (hdec : decWith b.codec (decTy u) (X ++ r) = .err .variant r')
    (hskip : Dec.skip true (tagBytes b.tag ++ (X ++ r)) = .ok () r) :
    action (fdOf b u) (tagBytes b.tag ++ (X ++ r)) = .ok none r := by
  have hb : bareNull (fdOf b u) (tagBytes b.tag ++ (X ++ r)) = .ok false (tagBytes b.tag ++ (X ++ r)) :=
    bareNull_tagBytes (fdOf b u) (X ++ r) htag
  rw [action_of_not_bare _ _ hb]
  simp only [fdOf]
  rw [Dec.bind_run, tagCheck_rt _ _ htag]
  simp only [catchVariant, hdec, hsw, f5Fixed, Bool.and_self, beq_self_eq_true, if_true]
  rw [Dec.bind_run, hskip]
  rfl

/-- `skip()` gets across the item of any field of the writer (tag included). -/
theorem skip_piece (fs : Fields) (vs : List Val) (hacc : acceptedFields fs = true) (hty : hasFields fs vs = true)
    (p : Piece Bytes) (hp : p ∈ encFields fs vs) (hl : (tagBytes p.tag ++ p.body).length < 2 ^ 64) (r : Bytes) :
    Dec.skip true (tagBytes p.tag ++ (p.body ++ r)) = .ok () r := by
  rw [C08.fields_spec fs vs hacc hty] at hp
  obtain ⟨q, hq, rfl⟩ := List.mem_map.1 hp
  have hv := specFields_valid fs vs hacc hty q hq
  simp only [toBytes_tag, toBytes_body] at hl ⊢
  rw [← List.append_assoc, ← encPref_tagI _ _ hv.2.1] at *
  exact skip_encPref _ r (pv_tagI _ _ hv.2.1 hv.2.2) hl

/-- what the reader's action at index `i` delivers: the projection of the writer's value there
    (`none`: an unknown variant was swallowed), or — where the writer has no field (a gap of its
    array) or a nil value — the nil value of the reader's field. -/
def rhoC (fs : Fields) (vs : List Val) (gs : Fields) (i : Nat) : Option Val :=
  match lookupVal fs vs i with
  | some (a, t, v) =>
      (match findField gs i with
       | some (b, u) =>
           if isNilField a t v then some (nilVal b u)
           else (match projTy t u v with
             | .ok x => some x
             | _ => none)
       | none => none)
  | none => (findField gs i).bind fun g => if g.1.tag.isSome then none else some (nilVal g.1 g.2)

theorem onWire_of_not_nil (enc : Encoding) (fs : Fields) (vs : List Val)
    (hacc : acceptedFields fs = true) (hty : hasFields fs vs = true)
    (i : Nat) (a : FAttr) (t : FTy) (v : Val) (hl : lookupVal fs vs i = some (a, t, v))
    (hn : isNilField a t v = false) : onWire enc fs vs i (isNilField a t v) = true := by
  obtain ⟨_, hai, hmem⟩ := lookupVal_mem fs vs i a t v hl
  cases enc with
  | map => simp [onWire, hn]
  | array =>
    rw [C08.fields_spec fs vs hacc hty] at hmem
    obtain ⟨q, hq, hqe⟩ := List.mem_map.1 hmem
    have e := congrArg Piece.nil hqe
    have e2 := congrArg Piece.idx hqe
    simp only [toBytes_nil, toBytes_idx] at e e2
    cases hm : maxPresent (specFields fs vs) with
    | none =>
      have := maxPresent_none hm q hq
      rw [e, hn] at this; cases this
    | some m =>
      have := maxPresent_ge hm q hq (by rw [e]; exact hn)
      simp only [onWire, hm, decide_eq_true_eq]
      omega

/-- the hypotheses of `body_compat` that come from the schema-level relation. -/
structure BodyHyp (enc : Encoding) (fs : Fields) (vs : List Val) (gs : Fields) : Prop where
  accW : acceptedFields fs = true
  ndW  : (liveIdxs fs).Nodup
  ty   : hasFields fs vs = true
  accR : acceptedFields gs = true
  ndR  : (liveIdxs gs).Nodup
  cf   : compatFields fs gs = true
  oo   : onlyOptional gs fs = true
  len  : (frame enc (encFields fs vs)).length < 2 ^ 64
  items : FieldsC gs fs vs

theorem hereOf_shared (fs : Fields) (vs : List Val) (gs : Fields) (hndW : (liveIdxs fs).Nodup) (hndR : (liveIdxs gs).Nodup)
    (b : FAttr) (u : FTy) (hbu : (b, u) ∈ gs) (hbs : b.skip = false) (a : FAttr) (t : FTy) (v : Val)
    (hl : lookupVal fs vs b.idx = some (a, t, v)) :
    hereOf (projFields fs gs vs) b u = pOf a t v b u := by
  have hf := findField_of_mem gs b u hndR hbu hbs
  simp only [hereOf, hbs, Bool.false_eq_true, if_false, projFields_find fs gs vs b.idx hndW, hl, hf]

theorem hereOf_ronly (fs : Fields) (vs : List Val) (gs : Fields) (hndW : (liveIdxs fs).Nodup)
    (b : FAttr) (u : FTy) (hbs : b.skip = false) (hl : lookupVal fs vs b.idx = none) :
    hereOf (projFields fs gs vs) b u = nilOrBad b u := by
  simp only [hereOf, hbs, Bool.false_eq_true, if_false, projFields_find fs gs vs b.idx hndW, hl]

theorem nilOrBad_ok (b : FAttr) (u : FTy) (x : Val) (h : nilOrBad b u = .ok x) : nilOf b u = some x := by
  unfold nilOrBad at h
  cases hn : nilOf b u with
  | none => rw [hn] at h; cases h
  | some z => rw [hn] at h; cases h; rfl

/-- the reader's action on the item of a writer field. -/
theorem stepC_piece (enc : Encoding) (fs : Fields) (vs : List Val) (gs : Fields) (H : BodyHyp enc fs vs gs)
    (hhere : ∀ b u, (b, u) ∈ gs → ∃ x, hereOf (projFields fs gs vs) b u = .ok x)
    (i : Nat) (a : FAttr) (t : FTy) (v : Val) (hl : lookupVal fs vs i = some (a, t, v))
    (hskip : ∀ r, Dec.skip true (tagBytes a.tag ++ (encWith a.codec (encTy t) v ++ r)) = .ok () r) :
    StepH gs (rhoC fs vs gs i) i (tagBytes a.tag ++ encWith a.codec (encTy t) v) := by
  intro r
  constructor
  · intro _
    simpa [List.append_assoc] using hskip r
  · intro b u hbu hbs hbi
    have hff : findField gs i = some (b, u) := by rw [← hbi]; exact findField_of_mem gs b u H.ndR hbu hbs
    obtain ⟨htag, hcod, hct⟩ := compatFields_lookup fs vs gs i a t v b u H.cf hl hff
    have hok := fieldOk_of_mem gs b u H.accR hbu hbs
    obtain ⟨hcW, hvW, _⟩ := lookupVal_typed fs vs i a t v H.accW H.ty hl
    simp only [rhoC, hl, hff, List.append_assoc]
    rw [htag]
    by_cases hnil : isNilField a t v = true
    · have henc := encWith_nil a t v hcW hvW hnil
      have hopt := nil_partner_optional a t v b u _ hnil hcod hct
      have hd := dec_null_nil b u r hopt hok.2
      rw [henc, if_pos hnil]
      exact action_rt (fdOf b u) (nilVal b u) Enc.null r hok.1 hd
    · have hnil' : isNilField a t v = false := by simpa using hnil
      have hI := FieldsC_lookup gs fs vs i a t v b u H.items hl hnil' hff
      obtain ⟨x, hx⟩ := hhere b u hbu
      rw [hereOf_shared fs vs gs H.ndW H.ndR b u hbu hbs a t v (by rw [hbi]; exact hl)] at hx
      simp only [pOf, hnil', Bool.false_eq_true, if_false] at hx ⊢
      cases hp : projTy t u v with
      | ok y =>
        simp only
        exact action_rt (fdOf b u) y _ r hok.1 (hI.1 y hp r)
      | unknown =>
        obtain ⟨hlen, herr⟩ := hI.2 hp
        obtain ⟨r', hr'⟩ := herr r
        simp only
        have hsw : swallows b u = true := by rw [swallows_eq]; exact hlen
        have := hskip r
        rw [htag] at this
        exact action_swallow b u _ r r' hok.1 hsw hr' this
      | bad => rw [hp] at hx; cases hx

/-- the reader's action on the `null` at a gap of the writer's array. -/
theorem stepC_gap (enc : Encoding) (fs : Fields) (vs : List Val) (gs : Fields) (H : BodyHyp enc fs vs gs)
    (i : Nat) (hl : lookupVal fs vs i = none) :
    StepH gs (rhoC fs vs gs i) i Enc.null := by
  intro r
  constructor
  · intro _; exact skip_null r
  · intro b u hbu hbs hbi
    have hf := findField_of_mem gs b u H.ndR hbu hbs
    rw [hbi] at hf
    have hni : b.idx ∉ liveIdxs fs := by rw [hbi]; exact (lookupVal_none fs vs i H.ty).1 hl
    have hopt := onlyOptional_mem gs fs b u H.oo hbu hbs ((findField_none fs b.idx).2 hni)
    have hok := fieldOk_of_mem gs b u H.accR hbu hbs
    cases htag : b.tag with
    | none =>
      have hd := dec_null_nil b u r hopt hok.2
      simp only [rhoC, hl, hf, Option.bind_some, htag, Option.isSome_none, Bool.false_eq_true, if_false]
      rw [action_of_not_bare _ _ (bareNull_untagged _ _ (by simp [fdOf, htag]))]
      simp only [fdOf, htag, tagCheck]
      rw [Dec.bind_run]
      simp only [Dec.pure_run, catchVariant, hd]
    | some n =>
      simp only [rhoC, hl, hf, Option.bind_some, htag, Option.isSome_some, if_true]
      exact action_bare_null (fdOf b u) r (by simp [fdOf, htag]) (by simp only [fdOf, swallows_eq]; exact hopt)

/-- what the reader ends up with in the slot of one of its fields equals the projection. -/
theorem reader_val_eq (enc : Encoding) (fs : Fields) (vs : List Val) (gs : Fields) (H : BodyHyp enc fs vs gs)
    (b : FAttr) (u : FTy) (hbu : (b, u) ∈ gs) (hbs : b.skip = false) (x : Val)
    (hx : hereOf (projFields fs gs vs) b u = .ok x) :
    (match sigmaF enc fs vs (rhoC fs vs gs) b.idx with
     | some y => y
     | none => nilVal b u) = x ∧
    (sigmaF enc fs vs (rhoC fs vs gs) b.idx = none → (nilOf b u).isSome = true) := by
  have hok := fieldOk_of_mem gs b u H.accR hbu hbs
  have hf := findField_of_mem gs b u H.ndR hbu hbs
  cases hl : lookupVal fs vs b.idx with
  | none =>
    rw [hereOf_ronly fs vs gs H.ndW b u hbs hl] at hx
    have hn := nilOrBad_ok b u x hx
    have hnv := nilVal_eq b u x hok.2 hn
    refine ⟨?_, fun _ => by rw [hn]; rfl⟩
    cases enc with
    | map =>
      rw [sigmaF_map]
      have : presentIdx (sortP (encFields fs vs)) b.idx = false := by
        cases hpi : presentIdx (sortP (encFields fs vs)) b.idx
        · rfl
        · obtain ⟨q, hq, _, hqi⟩ := (presentIdx_iff _ _).1 hpi
          have hq' := (sortP_perm (encFields fs vs)).mem_iff.1 hq
          obtain ⟨a, t, v, hl', _⟩ := lookupVal_of_mem fs vs q H.ndW hq'
          rw [hqi, hl] at hl'; cases hl'
      rw [this]; simpa using hnv
    | array =>
      cases hm : maxPresent (specFields fs vs) with
      | none => simpa [sigmaF, hm] using hnv
      | some m =>
        rw [sigmaF_array fs vs _ m b.idx hm]
        by_cases hle : b.idx ≤ m
        · cases htg : b.tag <;> simpa [hle, rhoC, hl, hf, htg] using hnv
        · simpa [hle] using hnv
  | some y =>
    obtain ⟨a, t, v⟩ := y
    rw [hereOf_shared fs vs gs H.ndW H.ndR b u hbu hbs a t v hl] at hx
    obtain ⟨_, hai, hmem⟩ := lookupVal_mem fs vs b.idx a t v hl
    have hs := sigmaF_piece enc fs vs (rhoC fs vs gs) H.accW H.ndW H.ty _ hmem
    simp only [hai] at hs
    rw [hs]
    by_cases hnil : isNilField a t v = true
    · simp only [pOf, hnil, if_true] at hx
      have hn := nilOrBad_ok b u x hx
      have hnv := nilVal_eq b u x hok.2 hn
      refine ⟨?_, fun _ => by rw [hn]; rfl⟩
      cases hw : onWire enc fs vs b.idx (isNilField a t v)
      · simpa using hnv
      · simpa [rhoC, hl, hf, hnil] using hnv
    · have hnil' : isNilField a t v = false := by simpa using hnil
      have hw := onWire_of_not_nil enc fs vs H.accW H.ty b.idx a t v hl hnil'
      rw [hw]
      simp only [pOf, hnil', Bool.false_eq_true, if_false] at hx
      simp only [if_true, rhoC, hl, hf, hnil', Bool.false_eq_true, if_false]
      cases hp : projTy t u v with
      | ok y =>
        rw [hp] at hx
        simp only at hx
        cases hx
        exact ⟨rfl, fun h => by cases h⟩
      | unknown =>
        rw [hp] at hx
        simp only at hx
        cases hsw : swallows b u
        · rw [hsw] at hx; simp at hx
        · rw [hsw] at hx
          simp only [if_true] at hx
          have hn := nilOrBad_ok b u x hx
          exact ⟨nilVal_eq b u x hok.2 hn, fun _ => by rw [hn]; rfl⟩
      | bad => rw [hp] at hx; cases hx

theorem readerVals_eq (σ : Nat → Option Val) : ∀ (gs : Fields) (xs : List Val) (ps : List (Nat × PRes)),
    All2 (fun (g : FAttr × FTy) x => hereOf ps g.1 g.2 = .ok x) gs xs →
    (∀ b u, (b, u) ∈ gs → b.skip = false → ∀ x, hereOf ps b u = .ok x →
      (match σ b.idx with | some y => y | none => nilVal b u) = x) →
    readerVals σ gs = xs
  | [], _, _, .nil, _ => rfl
  | (b, u) :: gs, x :: xs, ps, .cons hh hrest, hval => by
    have ih := readerVals_eq σ gs xs ps hrest (fun b' u' hm => hval b' u' (by simp [hm]))
    simp only [readerVals, ih]
    congr 1
    cases hbs : b.skip
    · have := hval b u (by simp) hbs x hh
      simp only [Bool.false_eq_true, if_false]
      rw [← this]
      cases σ b.idx <;> rfl
    · simp only [hereOf, hbs, if_true] at hh
      cases hh; rfl

/-- **the reader's body decoder on the body written by any compatible version** delivers the
    documented projection (`assemble gs (projFields fs gs vs)`), both encodings: shared fields
    are projected (recursively: `ItemC`), fields only the reader knows are nil, fields only the
    writer knows are skipped whatever they contain, an unknown variant in an optional field is
    skipped as a whole and the field stays nil. -/
theorem body_compat (enc : Encoding) (fs : Fields) (vs : List Val) (gs : Fields) (rest : Bytes) (xs : List Val)
    (H : BodyHyp enc fs vs gs) (hproj : assemble gs (projFields fs gs vs) = .ok (.struct xs)) :
    fieldsDec enc (decFields gs) (frame enc (encFields fs vs) ++ rest) = .ok xs rest := by
  obtain ⟨xs', hxs, hF⟩ := assemble_ok gs _ _ hproj
  cases hxs
  have hhere : ∀ b u, (b, u) ∈ gs → ∃ x, hereOf (projFields fs gs vs) b u = .ok x :=
    fun b u hbu => forall2_mem_left hF (b, u) hbu
  have nd : (idxs (specFields fs vs)).Nodup := by rw [C08.specFields_idxs fs vs H.ty]; exact H.ndW
  have hspec := C08.fields_spec fs vs H.accW H.ty
  have hmain := fieldsDec_compat enc fs vs gs rest (rhoC fs vs gs) H.accW H.ndW H.ty H.ndR
    (by
      intro he m hm i hi
      subst he
      have hcl := cell_le_frame (specFields fs vs) nd (C08.specFields_ok fs vs H.accW) m i hm hi
      rw [← hspec] at hcl
      have hlen := H.len
      have hpv := pv_cellAt (specFields fs vs) (fun p hp => (specFields_valid fs vs H.accW H.ty p hp).2) i
      have hsk : ∀ r, Dec.skip true (encPref (cellAt (specFields fs vs) i) ++ r) = .ok () r :=
        fun r => skip_encPref _ r hpv (by omega)
      revert hsk
      unfold cellAt
      rw [lookupVal_find fs vs i H.ty]
      cases hl : lookupVal fs vs i with
      | some x =>
        obtain ⟨a, t, v⟩ := x
        obtain ⟨hc, hv, htag⟩ := lookupVal_typed fs vs i a t v H.accW H.ty hl
        have hbody : encWith a.codec (encTy t) v = encPref (specWith a.codec (specTy t) v) := by
          have hbd : encTy t v = encPref (specTy t v) := by
            have hm1 := lookupVal_fst_mem fs vs i a t v hl
            have key : ∀ (fs : Fields), acceptedFields fs = true → (a, t) ∈ fs → fieldBlob t = true ∨ accepted t = true := by
              intro fs
              induction fs with
              | nil => intro _ h; simp at h
              | cons f fs ih =>
                intro hacc h
                obtain ⟨fa, ft⟩ := f
                simp only [acceptedFields, Bool.and_eq_true, Bool.or_eq_true] at hacc
                rcases List.mem_cons.1 h with e | h
                · cases e; exact hacc.1.2
                · exact ih hacc.2 h
            rcases key fs H.accW hm1 with hb | hacc
            · exact C08.blob_spec t v hb hv
            · exact C08.enc_spec t v hacc hv
          exact C08.with_spec a t v hc hv hbd
        simp only [Option.map_some, encPref_tagI _ _ htag, ← hbody]
        intro hsk
        exact stepC_piece .array fs vs gs H hhere i a t v hl (fun r => by simpa [List.append_assoc] using hsk r)
      | none =>
        simp only [Option.map_none]
        intro _
        exact stepC_gap .array fs vs gs H i hl)
    (by
      intro he p hp hn
      subst he
      obtain ⟨a, t, v, hl, hpe⟩ := lookupVal_of_mem fs vs p H.ndW hp
      have hle := entry_le_frame (encFields fs vs) p hp hn
      have hlen := H.len
      have hsk := skip_piece fs vs H.accW H.ty p hp (by omega)
      have := stepC_piece .map fs vs gs H hhere p.idx a t v hl (by
        intro r
        have := hsk r
        rw [hpe] at this
        exact this)
      rw [hpe]; rw [hpe] at this; exact this)
    (by
      intro b u hbu hbs hσ hsi
      obtain ⟨x, hx⟩ := hhere b u hbu
      exact (reader_val_eq enc fs vs gs H b u hbu hbs x hx).2 hσ)
  rw [hmain]
  congr 1
  exact readerVals_eq _ gs xs _ hF (fun b u hbu hbs x hx => (reader_val_eq enc fs vs gs H b u hbu hbs x hx).1)

end Minicbor.Derive
