/-
  Lengths: what every `Encoder` method writes has exactly the length the hand-written width
  tables of the `CborLen` impls predict; the induction for C07 over the built-in codecs.
-/
import Minicbor.Lemmas.TypesInduct
import Minicbor.Lemmas.TypesPred
import Minicbor.Token

set_option linter.unusedSimpArgs false

namespace Minicbor

theorem typeLen_length (t x : Nat) : (Enc.typeLen t x).length = IntKind.lenU64 x := by
  unfold Enc.typeLen IntKind.lenU64; (repeat' split) <;> simp

theorem encU8_length (x : Nat) : (Enc.u8 x).length = IntKind.lenU8 x := by
  unfold Enc.u8 IntKind.lenU8; (repeat' split) <;> simp
theorem encU16_length (x : Nat) : (Enc.u16 x).length = IntKind.lenU16 x := by
  unfold Enc.u16 IntKind.lenU16; (repeat' split) <;> simp
theorem encU32_length (x : Nat) : (Enc.u32 x).length = IntKind.lenU32 x := by
  unfold Enc.u32 IntKind.lenU32; (repeat' split) <;> simp
theorem encU64_length (x : Nat) : (Enc.u64 x).length = IntKind.lenU64 x := by
  unfold Enc.u64 IntKind.lenU64; (repeat' split) <;> simp
theorem negArms_length (x : Nat) : (Enc.negArms x).length = IntKind.lenU64 x := by
  unfold Enc.negArms IntKind.lenU64; (repeat' split) <;> simp

theorem encI8_length (v : Int) : (Enc.i8 v).length = IntKind.len .i8 v := by
  unfold Enc.i8 IntKind.len; split
  · simp [*, encU8_length]
  · simp only [*, if_false, IntKind.lenU8]; (repeat' split) <;> simp
theorem encI16_length (v : Int) : (Enc.i16 v).length = IntKind.len .i16 v := by
  unfold Enc.i16 IntKind.len; split
  · simp [*, encU16_length]
  · simp only [*, if_false, IntKind.lenU16]; (repeat' split) <;> simp
theorem encI32_length (v : Int) : (Enc.i32 v).length = IntKind.len .i32 v := by
  unfold Enc.i32 IntKind.len; split
  · simp [*, encU32_length]
  · simp only [*, if_false, IntKind.lenU32]; (repeat' split) <;> simp
theorem encI64_length (v : Int) : (Enc.i64 v).length = IntKind.len .i64 v := by
  unfold Enc.i64 IntKind.len; split
  · simp [*, encU64_length]
  · simp [*, negArms_length]
theorem encInt_length (v : Int) : (IntKind.enc .int v).length = IntKind.len .int v := by
  simp only [IntKind.enc, IntKind.len, Enc.int]; split
  · simp [*, encU64_length]
  · simp [*, negArms_length]

/-- the integer `CborLen` impls are exact on the values of their type. -/
theorem IntKind.enc_length (k : IntKind) (v : Int) (h : k.inRange v = true) :
    (k.enc v).length = k.len v := by
  cases k
  case i8 => exact encI8_length v
  case i16 => exact encI16_length v
  case i32 => exact encI32_length v
  case i64 => exact encI64_length v
  case int => exact encInt_length v
  all_goals
    have h0 : v ≥ 0 := by
      simp only [IntKind.inRange, IntKind.ty, Dec.IntTy.lo, Dec.IntTy.u8, Dec.IntTy.u16, Dec.IntTy.u32,
        Dec.IntTy.u64, Bool.and_eq_true, decide_eq_true_eq] at h
      simpa using h.1
    simp [IntKind.enc, IntKind.len, h0, encU8_length, encU16_length, encU32_length, encU64_length]

theorem lenU64_small {n : Nat} (h : n ≤ 23) : IntKind.lenU64 n = 1 := by simp [IntKind.lenU64, h]
theorem lenU32_small {n : Nat} (h : n ≤ 23) : IntKind.lenU32 n = 1 := by simp [IntKind.lenU32, h]

theorem Token.len_enc (tk : Token) : tk.len = tk.enc.length := by
  cases tk <;>
    simp only [Token.len, Token.enc, encU8_length, encU16_length, encU32_length, encU64_length, encI8_length,
      encI16_length, encI32_length, encI64_length, encInt_length, Enc.bytes, Enc.str, Enc.array, Enc.map,
      Enc.tag, typeLen_length, List.length_append]
  case bool b => cases b <;> rfl
  case f16 | f32 | f64 => simp [Enc.f16, Enc.f32, Enc.f64]
  case simple n => unfold Enc.simple; split <;> rfl
  all_goals rfl

theorem len_all :
    (∀ t v bs, encodeT t v = some bs → t.SmallArity = true → lenT t v = bs.length) ∧
    (∀ k v kvs bs, encodeMap k v kvs = some bs → k.SmallArity = true → v.SmallArity = true →
      lenMap k v kvs = bs.length) ∧
    (∀ ts vs bs, encodeTup ts vs = some bs → Ty.allL Ty.arityNode ts = true → lenTup ts vs = bs.length) ∧
    (∀ t vs bs, encodeList t vs = some bs → t.SmallArity = true → lenList t vs = bs.length) := by
  apply encodeT_ok_induct
  case int => intro k v h _; simp [lenT, IntKind.enc_length k v h]
  case nz => intro k v h _ _; simp [lenT, IntKind.enc_length k v h]
  case bool => intro b _; cases b <;> rfl
  case char => intro v _ _ _; simp [lenT, Enc.char, encU32_length]
  case f32 | f64 => intros; simp [lenT, Enc.f32, Enc.f64]
  case str | bytes | barr | cstr => intros; simp [lenT, Enc.str, Enc.bytes, typeLen_length]
  case unit | skipUnit => intros; rfl
  case optNone => intros; rfl
  case optSome =>
    intro t v bs _ ih ha
    simp only [Ty.SmallArity, Ty.all, Ty.arityNode, Bool.and_eq_true, Bool.true_and] at ha
    simp [lenT, ih ha]
  case seq | arr =>
    intro t vs b _ ih ha
    simp only [Ty.SmallArity, Ty.all, Ty.arityNode, Bool.and_eq_true, Bool.true_and] at ha
    simp [lenT, Enc.array, typeLen_length, ih ha]
  case tup | fields =>
    intro ts vs b _ ih ha
    simp only [Ty.SmallArity, Ty.all, Ty.arityNode, Bool.and_eq_true, Bool.true_and, decide_eq_true_eq] at ha
    simp [lenT, Enc.array, typeLen_length, ih ha.2, lenU64_small ha.1]
  case map =>
    intro k v kvs b _ ih ha
    simp only [Ty.SmallArity, Ty.all, Ty.arityNode, Bool.and_eq_true, Bool.true_and] at ha
    simp [lenT, Enc.map, typeLen_length, ih ha.1 ha.2]
  case tag => intro v _ _ _; simp [lenT, Enc.tag, typeLen_length]
  case tagged =>
    intro n t v b _ ih ha
    simp only [Ty.SmallArity, Ty.all, Ty.arityNode, Bool.and_eq_true, Bool.true_and] at ha
    simp [lenT, Enc.tag, typeLen_length, ih ha]
  case «enum» =>
    intro ts i t v b hi _ ih ha
    simp only [Ty.SmallArity, Ty.all, Ty.arityNode, Bool.and_eq_true, Bool.true_and, decide_eq_true_eq] at ha
    have hlt : i < ts.length := by
      rcases Nat.lt_or_ge i ts.length with h | h
      · exact h
      · rw [List.getElem?_eq_none h] at hi; cases hi
    have hi' : i ≤ 23 := by omega
    simp [lenT, hi, Enc.array, typeLen_length, encU32_length, lenU32_small hi', lenU64_small,
      ih (Ty.allL_get _ _ _ _ ha.2 hi)]
  case duration | systime =>
    intros
    simp [lenT, Enc.secsNanos, Enc.array, typeLen_length, encU32_length, encU64_length, lenU64_small]
    omega
  case mapNil | tupNil | listNil => intros; rfl
  case mapCons =>
    intro k v x y kvs a b c _ _ _ iha ihb ihc hk hv
    simp [lenMap, iha hk, ihb hv, ihc hk hv]
    omega
  case tupCons =>
    intro t ts v vs a b _ _ iha ihb ha
    simp only [Ty.allL, Bool.and_eq_true] at ha
    simp [lenTup, iha ha.1, ihb ha.2]
  case listCons =>
    intro t v vs a b _ _ iha ihb ha
    simp [lenList, iha ha, ihb ha]

end Minicbor
