/-
  Specification-side definitions for the "balanced call sequences" part of C03 (they appear in
  the statements of `Thm/C03Ops.lean`): which arguments the `Encoder` methods can be called with,
  the known-finding exclusion K1, "every definite head is shortest", "no indefinite-length item".
  Definitions only.
-/
import Minicbor.Balanced

namespace Minicbor

/-- **what the argument types of the `Encoder` methods can hold**: integers within the range of
    their Rust type, `f32`/`f64` bit patterns, slices shorter than 2^64 bytes, `&str` valid UTF-8,
    `u64` lengths and tags, `u8` simple values.  (`Encoder::f16` takes *any* `f32`.) -/
def Token.callOk : Token → Prop
  | .bytes b => b.length < 18446744073709551616
  | .string b => b.length < 18446744073709551616 ∧ validUtf8 b = true
  | t => t.ok = true

/-- the call `simple(n)` with `20 ≤ n ≤ 31` — known finding K1: it writes `f8 nn`, which RFC 8949
    §3.3 declares not well-formed. -/
def Token.reservedSimple : Token → Bool
  | .simple n => decide (20 ≤ n) && decide (n < 32)
  | _ => false

/-- no call `simple(20..=31)` in the sequence. -/
def NoReservedSimple (ts : List Token) : Prop := ∀ t ∈ ts, t.reservedSimple = false

/-- `begin_bytes`, `begin_str`, `begin_array`, `begin_map`. -/
def Token.isBegin : Token → Bool
  | .beginBytes | .beginString | .beginArray | .beginMap => true
  | _ => false

def chunksShortest : List (Width × Bytes) → Bool
  | [] => true
  | (w, b) :: cs => (w == prefWidth b.length) && chunksShortest cs

mutual
/-- **every definite head of the tree has the shortest width** that can carry its argument
    (integers, string lengths incl. the chunks of indefinite strings, array / map lengths, tags). -/
def shortest : WItem → Bool
  | .uint w n    => w == prefWidth n
  | .nint w n    => w == prefWidth n
  | .bytes w b   => w == prefWidth b.length
  | .bytesI cs   => chunksShortest cs
  | .text w b    => w == prefWidth b.length
  | .textI cs    => chunksShortest cs
  | .array w xs  => (w == prefWidth xs.length) && shortestL xs
  | .arrayI xs   => shortestL xs
  | .map w kvs   => (w == prefWidth (kvs.length / 2)) && shortestL kvs
  | .mapI kvs    => shortestL kvs
  | .tag w n x   => (w == prefWidth n) && shortest x
  | .simple _ | .f16 _ | .f32 _ | .f64 _ => true
def shortestL : List WItem → Bool
  | []      => true
  | x :: xs => shortest x && shortestL xs
end

mutual
/-- no indefinite-length item anywhere in the tree. -/
def definite : WItem → Bool
  | .bytesI _ | .textI _ | .arrayI _ | .mapI _ => false
  | .array _ xs  => definiteL xs
  | .map _ kvs   => definiteL kvs
  | .tag _ _ x   => definite x
  | _ => true
def definiteL : List WItem → Bool
  | []      => true
  | x :: xs => definite x && definiteL xs
end

end Minicbor
