/-
  Decidable side conditions on type descriptors used by the C01 / C03 / C07 theorems, all of the
  form "a node predicate holds at every node of the descriptor".
-/
import Minicbor.Types

namespace Minicbor

mutual
/-- `p` holds at every node of the descriptor. -/
def Ty.all (p : Ty → Bool) : Ty → Bool
  | .opt a => p (.opt a) && Ty.all p a
  | .seq a => p (.seq a) && Ty.all p a
  | .arr n a => p (.arr n a) && Ty.all p a
  | .tagged n a => p (.tagged n a) && Ty.all p a
  | .map k v => p (.map k v) && Ty.all p k && Ty.all p v
  | .tup ts => p (.tup ts) && Ty.allL p ts
  | .enum ts => p (.enum ts) && Ty.allL p ts
  | .fields ts => p (.fields ts) && Ty.allL p ts
  | .int k => p (.int k)
  | .bool => p .bool | .char => p .char | .f32 => p .f32 | .f64 => p .f64 | .str => p .str
  | .bytes => p .bytes | .barr n => p (.barr n) | .cstr => p .cstr | .unit => p .unit
  | .skipUnit => p .skipUnit | .nz k => p (.nz k) | .tag => p .tag | .duration => p .duration
  | .systime => p .systime
def Ty.allL (p : Ty → Bool) : List Ty → Bool
  | [] => true
  | t :: ts => Ty.all p t && Ty.allL p ts
end

theorem Ty.allL_get (p : Ty → Bool) (ts : List Ty) (i : Nat) (t : Ty) (h : Ty.allL p ts = true)
    (hi : ts[i]? = some t) : Ty.all p t = true := by
  induction ts generalizing i with
  | nil => simp at hi
  | cons x xs ih =>
    simp only [Ty.allL, Bool.and_eq_true] at h
    cases i with
    | zero => simp at hi; subst hi; exact h.1
    | succ j => simp at hi; exact ih j h.2 hi

/-- **`NoOptOpt`**: nowhere in the type does an `Option` sit directly inside an `Option`
    (`Option<Option<T>>`, also when reached through transparent wrappers, which the descriptors
    erase): the one representation that is lossy by construction, because `Some(None)` and `None`
    are both written as the single byte `f6`. -/
def Ty.noOptOptNode : Ty → Bool
  | .opt (.opt _) => false
  | _ => true
def Ty.NoOptOpt (t : Ty) : Bool := t.all Ty.noOptOptNode

/-- **well-formed descriptor**: the compile-time constants fit their Rust types —
    `Tagged<const N: u64, T>` and the `u32` variant index of the `[index, payload]` enums. -/
def Ty.wfNode : Ty → Bool
  | .tagged n _ => n < 18446744073709551616
  | .enum ts => ts.length ≤ 4294967296
  | _ => true
def Ty.WF (t : Ty) : Bool := t.all Ty.wfNode

/-- **Rust arities**: tuples and `decode_fields!` records have at most 23 components (Rust:
    at most 16), `[index, payload]` enums at most 24 variants (Rust: at most 3), so that their array
    heads and variant indices are one byte — which is what the `CborLen` impls hard-code. -/
def Ty.arityNode : Ty → Bool
  | .tup ts => ts.length ≤ 23
  | .fields ts => ts.length ≤ 23
  | .enum ts => ts.length ≤ 24
  | _ => true
def Ty.SmallArity (t : Ty) : Bool := t.all Ty.arityNode

end Minicbor
