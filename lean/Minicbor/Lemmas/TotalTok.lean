/-
  C02 infrastructure, part 5: `Token::decode` and the `Tokenizer` iterator run to exhaustion.
-/
import Minicbor.Token
import Minicbor.Lemmas.TotalTy

namespace Minicbor

/-- allocation units of a token: one, plus the payload it borrows/copies. -/
def Token.size : Token → Nat
  | .bytes b => 1 + b.length
  | .string b => 1 + b.length
  | _ => 1

def TokItem.size : TokItem → Nat
  | .tok t => t.size
  | .err _ => 1

theorem Token.size_pos (t : Token) : 1 ≤ t.size := by
  cases t <;> simp [Token.size]

theorem TokItem.size_pos (t : TokItem) : 1 ≤ t.size := by
  cases t
  · exact Token.size_pos _
  · simp [TokItem.size]

namespace Dec

theorem Suffix.skipByte : Suffix Dec.skipByte := by unfold Dec.skipByte; suffix

theorem Suffix.token : Suffix Dec.token := by
  unfold Dec.token
  have := Suffix.datatype; have := Suffix.bool; have := Suffix.intAcc; have := Suffix.f16
  have := Suffix.f32; have := Suffix.f64; have := Suffix.bytes; have := Suffix.str
  have := Suffix.tag; have := Suffix.simple; have := Suffix.array; have := Suffix.map
  have := Suffix.skipByte
  suffix

theorem EoiNil.token : EoiNil Dec.token := EoiNil.bind _ EoiNil.datatype

/-- every token is paid for by the bytes it consumes (at least its initial byte). -/
theorem Sized.token : Sized Token.size Dec.token := by
  unfold Dec.token
  refine SizedBy.bindC Consumes.datatype (fun ty => ?_)
  have hs : ∀ {α : Type} {m : Dec α} {g : α → Token}, Consumes m 1 → (∀ a, (g a).size ≤ 1) →
      SizedBy (0 + 0) Token.size (m >>= fun a => Pure.pure (g a)) :=
    fun hm hg => SizedBy.bindC hm (fun a => SizedBy.pure (hg a))
  split
  case h_14 => exact SizedBy.bind Sized.bytes (fun _ => SizedBy.pure (by simp [Token.size]))
  case h_15 => exact SizedBy.bind Sized.str (fun _ => SizedBy.pure (by simp [Token.size]))
  case h_18 =>
    refine SizedBy.bindC Consumes.array (fun o => ?_)
    split
    · exact SizedBy.pure (by simp [Token.size])
    · exact SizedBy.fail _ _ _
  case h_19 =>
    refine SizedBy.bindC Consumes.map (fun o => ?_)
    split
    · exact SizedBy.pure (by simp [Token.size])
    · exact SizedBy.fail _ _ _
  case h_27 => exact SizedBy.fail _ _ _
  all_goals
    first
    | exact hs Consumes.bool (fun _ => by simp [Token.size])
    | exact hs (Consumes.intAcc _) (fun _ => by simp [Token.size])
    | exact hs Consumes.f16 (fun _ => by simp [Token.size])
    | exact hs (Consumes.f32 _) (fun _ => by simp [Token.size])
    | exact hs (Consumes.f64 _) (fun _ => by simp [Token.size])
    | exact hs Consumes.tag (fun _ => by simp [Token.size])
    | exact hs Consumes.simple (fun _ => by simp [Token.size])
    | exact hs Consumes.skipByte (fun _ => by simp [Token.size])


end Dec

/-! ### the iterator -/

/-- fuel adequacy of the tokenizer loop: with more fuel than bytes it never gives up. -/
theorem tokenize_ne_none (fuel : Nat) (bs : Bytes) (h : bs.length < fuel) : tokenize fuel bs ≠ none := by
  induction fuel generalizing bs with
  | zero => omega
  | succ f ih =>
    unfold tokenize
    split
    · rename_i t rest ht
      have := Dec.Consumes.token bs t rest ht
      have := ih rest (by omega)
      cases hr : tokenize f rest with
      | none => contradiction
      | some l => simp
    · simp
    · simp
    · rename_i hp; exact absurd hp (Dec.NoPanic.token bs)

/-- tokens (and the final error item, if any) are paid for by input bytes: at most one item per
    byte, total payload at most the input. -/
theorem tokenize_size (fuel : Nat) (bs : Bytes) (items : List TokItem) (h : tokenize fuel bs = some items) :
    Dec.listSz TokItem.size items ≤ bs.length := by
  induction fuel generalizing bs items with
  | zero => cases h
  | succ f ih =>
    unfold tokenize at h
    split at h
    · rename_i t rest ht
      have h1 := Dec.Sized.token bs t rest ht
      cases hr : tokenize f rest with
      | none => rw [hr] at h; cases h
      | some l =>
        rw [hr] at h; cases h
        have := ih rest l hr
        simp [TokItem.size]; omega
    · cases h; simp
    · rename_i e r hne ht
      cases h
      cases bs with
      | nil =>
        have := Dec.EoiNil.token
        unfold Dec.EoiNil at this
        rw [this] at ht; cases ht; exact (hne rfl).elim
      | cons b bs => simp [TokItem.size]
    · cases h

end Minicbor
