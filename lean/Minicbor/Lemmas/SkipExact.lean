/-
  `skip` (alloc build) on the encoding of a valid wire tree: by induction over the tree, the
  loop started in any state `c` related to true weights `a :: r` consumes exactly the bytes
  of the item and ends in a state related to `(a - 1) :: r` ("every item acts like a scalar
  on the true machine"), never running out of fuel.
-/
import Minicbor.Lemmas.SkipRefine

namespace Minicbor
open Dec

/-- `k` iterations take the loop from `(c, bs)` to `(c', bs')`, whatever the spare fuel. -/
def SkipSteps (alloc : Bool) (k : Nat) (c : SkipSt) (bs : Bytes) (c' : SkipSt) (bs' : Bytes) : Prop :=
  ∀ f, skipLoop alloc (f + 1 + k) c bs = skipLoop alloc (f + 1) c' bs'

theorem SkipSteps.refl (alloc : Bool) (c : SkipSt) (bs : Bytes) : SkipSteps alloc 0 c bs c bs := fun _ => rfl

theorem SkipSteps.trans {alloc : Bool} {k1 k2 : Nat} {c c1 c2 : SkipSt} {bs bs1 bs2 : Bytes}
    (h1 : SkipSteps alloc k1 c bs c1 bs1) (h2 : SkipSteps alloc k2 c1 bs1 c2 bs2) :
    SkipSteps alloc (k1 + k2) c bs c2 bs2 := by
  intro f
  have e : f + 1 + (k1 + k2) = (f + k2) + 1 + k1 := by omega
  rw [e, h1 (f + k2)]
  have e2 : f + k2 + 1 = f + 1 + k2 := by omega
  rw [e2, h2 f]

theorem SkipSteps.next {alloc : Bool} {c s1 : SkipSt} {bs r : Bytes} (hrun : skipRunning alloc c = true)
    (harm : skipArm alloc c bs = .ok (.next s1) r) : SkipSteps alloc 1 c bs (postSt alloc s1) r :=
  fun f => loop_next alloc c s1 bs r f hrun harm

theorem SkipSteps.cont {alloc : Bool} {c s1 : SkipSt} {bs r : Bytes} (hrun : skipRunning alloc c = true)
    (harm : skipArm alloc c bs = .ok (.cont s1) r) : SkipSteps alloc 1 c bs s1 r :=
  fun f => loop_cont alloc c s1 bs r (f + 1) hrun harm

theorem headW_length (m : Nat) (w : Width) (n : Nat) : (headW m w n).length = 1 + w.bytes := by
  simp [headW]; omega

theorem encW_length_pos (w : WItem) : 1 ≤ (encW w).length := by
  cases w <;> simp [encW, headW_length] <;> (try split) <;> (try simp) <;> omega

theorem encWs_length_ge (xs : List WItem) : xs.length ≤ (encWs xs).length := by
  induction xs with
  | nil => simp [encWs]
  | cons x xs ih =>
    have := encW_length_pos x
    simp [encWs]; omega

/-- an item that is a single token of the loop. -/
theorem leaf_steps (bs : Bytes) (hpos : 1 ≤ bs.length)
    (harm : ∀ s rest, skipArm true s (bs ++ rest) = .ok (.next s) rest)
    (c : SkipSt) (a : Nat) (r : List Nat) (rest : Bytes)
    (hrel : Rel c (a :: r)) (hl : 1 ≤ a ∨ r ≠ []) :
    ∃ k c', k ≤ bs.length ∧ SkipSteps true k c (bs ++ rest) c' rest ∧ Rel c' ((a - 1) :: r) :=
  ⟨1, postSt true c, hpos, SkipSteps.next (rel_running hrel hl) (harm c rest), rel_item hrel⟩

theorem satMul2_half (l : Nat) (he : l % 2 = 0) (hl : l ≤ U64MAX) : satMul2 (l / 2) = l := by
  unfold satMul2
  have : 2 * (l / 2) = l := by omega
  simp [this, hl]

/-- conclusion shape shared by the item- and list-level lemmas. -/
def Reaches (c : SkipSt) (bs rest : Bytes) (T' : List Nat) : Prop :=
  ∃ k c', k ≤ bs.length ∧ SkipSteps true k c (bs ++ rest) c' rest ∧ Rel c' T'

mutual
/-- every valid item acts like a scalar: `a :: r ↦ (a - 1) :: r`, consuming exactly its bytes. -/
theorem item_steps : (w : WItem) → w.valid = true → ∀ (c : SkipSt) (a : Nat) (r : List Nat) (rest : Bytes),
    Rel c (a :: r) → (1 ≤ a ∨ r ≠ []) → a + r.length + (encW w).length ≤ U64MAX + 1 →
    Reaches c (encW w) rest ((a - 1) :: r)
  | .uint w n, hv, c, a, r, rest, hrel, hl, _ => by
    simp only [WItem.valid] at hv
    simp only [encW]
    exact leaf_steps _ (by simp [headW_length]) (fun s rest => arm_uint true s w n rest hv) c a r rest hrel hl
  | .nint w n, hv, c, a, r, rest, hrel, hl, _ => by
    simp only [WItem.valid] at hv
    simp only [encW]
    exact leaf_steps _ (by simp [headW_length]) (fun s rest => arm_nint true s w n rest hv) c a r rest hrel hl
  | .bytes w b, hv, c, a, r, rest, hrel, hl, _ => by
    simp only [WItem.valid] at hv
    simp only [encW]
    refine leaf_steps _ (by simp [headW_length]; omega) (fun s rest => ?_) c a r rest hrel hl
    rw [List.append_assoc]; exact arm_bytes true s w b rest hv
  | .text w b, hv, c, a, r, rest, hrel, hl, _ => by
    simp only [WItem.valid, Bool.and_eq_true] at hv
    simp only [encW]
    refine leaf_steps _ (by simp [headW_length]; omega) (fun s rest => ?_) c a r rest hrel hl
    rw [List.append_assoc]; exact arm_text true s w b rest hv.1 hv.2
  | .bytesI cs, hv, c, a, r, rest, hrel, hl, _ => by
    simp only [WItem.valid] at hv
    simp only [encW]
    refine leaf_steps _ (by simp) (fun s rest => ?_) c a r rest hrel hl
    simp only [List.cons_append, List.append_assoc, List.nil_append]
    exact arm_bytesI true s cs rest hv
  | .textI cs, hv, c, a, r, rest, hrel, hl, _ => by
    simp only [WItem.valid] at hv
    simp only [encW]
    refine leaf_steps _ (by simp) (fun s rest => ?_) c a r rest hrel hl
    simp only [List.cons_append, List.append_assoc, List.nil_append]
    exact arm_textI true s cs rest hv
  | .simple n, hv, c, a, r, rest, hrel, hl, _ => by
    simp only [WItem.valid] at hv
    simp only [encW]
    exact leaf_steps _ (by split <;> simp) (fun s rest => arm_simple true s n rest hv) c a r rest hrel hl
  | .f16 b, _, c, a, r, rest, hrel, hl, _ => by
    simp only [encW]
    refine leaf_steps _ (by simp) (fun s rest => ?_) c a r rest hrel hl
    exact arm_float true s 2 b rest (Or.inl rfl)
  | .f32 b, _, c, a, r, rest, hrel, hl, _ => by
    simp only [encW]
    refine leaf_steps _ (by simp) (fun s rest => ?_) c a r rest hrel hl
    exact arm_float true s 4 b rest (Or.inr (Or.inl rfl))
  | .f64 b, _, c, a, r, rest, hrel, hl, _ => by
    simp only [encW]
    refine leaf_steps _ (by simp) (fun s rest => ?_) c a r rest hrel hl
    exact arm_float true s 8 b rest (Or.inr (Or.inr rfl))
  | .tag w n x, hv, c, a, r, rest, hrel, hl, hb => by
    simp only [WItem.valid, Bool.and_eq_true] at hv
    simp only [encW, List.length_append, headW_length] at hb ⊢
    obtain ⟨k, c', hk, hs, hr⟩ := item_steps x hv.2 c a r rest hrel hl (by omega)
    refine ⟨1 + k, c', by simp [headW_length]; omega, ?_, hr⟩
    rw [List.append_assoc]
    exact SkipSteps.trans (SkipSteps.cont (rel_running hrel hl) (arm_tag true c w n _ hv.1)) hs
  | .array w xs, hv, c, a, r, rest, hrel, hl, hb => by
    simp only [WItem.valid, Bool.and_eq_true] at hv
    simp only [encW, List.length_append, headW_length] at hb ⊢
    have hge := encWs_length_ge xs
    have hrel1 := rel_def xs.length hrel hl (by omega)
    obtain ⟨k, c', hk, hs, hr⟩ := items_steps xs hv.2 _ (a - 1 + xs.length) r rest hrel1
      (Or.inl (by omega)) (by omega)
    refine ⟨1 + k, c', by simp [headW_length]; omega, ?_, ?_⟩
    · rw [List.append_assoc]
      exact SkipSteps.trans (SkipSteps.next (rel_running hrel hl) (arm_array true c w _ _ hv.1)) hs
    · have e : a - 1 + xs.length - xs.length = a - 1 := by omega
      rwa [e] at hr
  | .map w xs, hv, c, a, r, rest, hrel, hl, hb => by
    simp only [WItem.valid, Bool.and_eq_true, beq_iff_eq] at hv
    simp only [encW, List.length_append, headW_length] at hb ⊢
    have hge := encWs_length_ge xs
    have hrel1 := rel_def xs.length hrel hl (by omega)
    obtain ⟨k, c', hk, hs, hr⟩ := items_steps xs hv.2 _ (a - 1 + xs.length) r rest hrel1
      (Or.inl (by omega)) (by omega)
    refine ⟨1 + k, c', by simp [headW_length]; omega, ?_, ?_⟩
    · rw [List.append_assoc]
      have harm := arm_map true c w _ (encWs xs ++ rest) hv.1.2
      rw [satMul2_half _ hv.1.1 (by omega)] at harm
      exact SkipSteps.trans (SkipSteps.next (rel_running hrel hl) harm) hs
    · have e : a - 1 + xs.length - xs.length = a - 1 := by omega
      rwa [e] at hr
  | .arrayI xs, hv, c, a, r, rest, hrel, hl, hb => by
    simp only [WItem.valid] at hv
    simp only [encW, List.length_append, List.length_cons, List.length_nil] at hb ⊢
    have hge := encWs_length_ge xs
    obtain ⟨c1, hi, hrel1⟩ := rel_indef hrel hl (by omega)
    obtain ⟨k, c2, hk, hs, hr⟩ := items_steps xs hv _ 0 ((a - 1) :: r) (0xff :: rest) hrel1
      (Or.inr (by simp)) (by simp; omega)
    rw [Nat.zero_sub] at hr
    refine ⟨1 + k + 1, _, by simp; omega, ?_, rel_brk hr⟩
    have harm := arm_indef true c false (encWs xs ++ 0xff :: rest)
    rw [hi] at harm
    have e : (0x9f :: (encWs xs ++ [0xff])) ++ rest = 0x9f :: (encWs xs ++ 0xff :: rest) := by simp
    rw [e]
    refine SkipSteps.trans (SkipSteps.trans (SkipSteps.next (rel_running hrel hl) harm) hs) ?_
    exact SkipSteps.next (rel_running hr (Or.inr (by simp))) (arm_brk true c2 rest)
  | .mapI xs, hv, c, a, r, rest, hrel, hl, hb => by
    simp only [WItem.valid, Bool.and_eq_true] at hv
    simp only [encW, List.length_append, List.length_cons, List.length_nil] at hb ⊢
    have hge := encWs_length_ge xs
    obtain ⟨c1, hi, hrel1⟩ := rel_indef hrel hl (by omega)
    obtain ⟨k, c2, hk, hs, hr⟩ := items_steps xs hv.2 _ 0 ((a - 1) :: r) (0xff :: rest) hrel1
      (Or.inr (by simp)) (by simp; omega)
    rw [Nat.zero_sub] at hr
    refine ⟨1 + k + 1, _, by simp; omega, ?_, rel_brk hr⟩
    have harm := arm_indef true c true (encWs xs ++ 0xff :: rest)
    rw [hi] at harm
    have e : (0xbf :: (encWs xs ++ [0xff])) ++ rest = 0xbf :: (encWs xs ++ 0xff :: rest) := by simp
    rw [e]
    refine SkipSteps.trans (SkipSteps.trans (SkipSteps.next (rel_running hrel hl) harm) hs) ?_
    exact SkipSteps.next (rel_running hr (Or.inr (by simp))) (arm_brk true c2 rest)

/-- a sequence of valid items: `a :: r ↦ (a - n) :: r`. -/
theorem items_steps : (xs : List WItem) → validAll xs = true → ∀ (c : SkipSt) (a : Nat) (r : List Nat) (rest : Bytes),
    Rel c (a :: r) → (xs.length ≤ a ∨ r ≠ []) →
    a + r.length + (encWs xs).length + 1 ≤ U64MAX + 1 + xs.length →
    Reaches c (encWs xs) rest ((a - xs.length) :: r)
  | [], _, c, a, r, rest, hrel, _, _ => by
    simp only [encWs, List.length_nil, Nat.sub_zero]
    exact ⟨0, c, by simp, SkipSteps.refl _ _ _, hrel⟩
  | x :: xs, hv, c, a, r, rest, hrel, hl, hb => by
    simp only [validAll, Bool.and_eq_true] at hv
    simp only [encWs, List.length_append, List.length_cons] at hb hl ⊢
    have hge := encWs_length_ge xs
    have hpos := encW_length_pos x
    obtain ⟨k1, c1, hk1, hs1, hr1⟩ := item_steps x hv.1 c a r (encWs xs ++ rest) hrel
      (by rcases hl with h | h; exact Or.inl (by omega); exact Or.inr h) (by omega)
    obtain ⟨k2, c2, hk2, hs2, hr2⟩ := items_steps xs hv.2 c1 (a - 1) r rest hr1
      (by rcases hl with h | h; exact Or.inl (by omega); exact Or.inr h) (by omega)
    refine ⟨k1 + k2, c2, by simp only [List.length_append]; omega, ?_, ?_⟩
    · rw [List.append_assoc]; exact SkipSteps.trans hs1 hs2
    · have e : a - 1 - xs.length = a - (xs.length + 1) := by omega
      rwa [e] at hr2
end

/-- **`skip` consumes exactly one item** (alloc build): for every valid wire tree, whatever its
    nesting, followed by arbitrary bytes.  The length hypothesis holds for every Rust slice
    (`len ≤ isize::MAX`); without it `nrounds`' saturating arithmetic could clip. -/
theorem Dec.skip_encW (w : WItem) (rest : Bytes) (hv : w.valid = true)
    (hlen : (encW w).length ≤ U64MAX) :
    Dec.skip true (encW w ++ rest) = .ok () rest := by
  obtain ⟨k, c', hk, hs, hr⟩ := item_steps w hv SkipSt.init 1 [] rest rel_init (Or.inl (by omega))
    (by simp; omega)
  unfold Dec.skip
  simp only [Dec.bind_run, Dec.remaining, List.length_append]
  have e : (encW w).length + rest.length + 2 = ((encW w).length - k + rest.length) + 1 + 1 + k := by omega
  rw [e, hs, skipLoop_done]
  exact rel_done hr

end Minicbor
