/-
  Helper lemmas for C17: the derived struct visitor reads back a struct written field by
  field (in declaration order) and ignores unknown fields; variant lookup.
-/
import Minicbor.Lemmas.SerdeLoops

namespace Minicbor.Serde
open Minicbor.Dec

def nameOk (n : Bytes) : Bool := validUtf8 n && n.length < U64

/-- struct entries: field names as `str` keys interleaved with the values. -/
def mkKvs : List Bytes → List SVal → List SVal
  | n :: ns, v :: vs => .str n :: v :: mkKvs ns vs
  | _, _ => []

theorem mkKvs_length (ns : List Bytes) (vs : List SVal) (h : ns.length = vs.length) :
    (mkKvs ns vs).length = 2 * vs.length := by
  induction ns generalizing vs with
  | nil => cases vs <;> simp_all [mkKvs]
  | cons n ns ih =>
    cases vs with
    | nil => simp at h
    | cons v vs => simp [mkKvs, ih vs (by simpa using h)]; omega

/-- the decoders read back the values, position by position. -/
def AllRtD : List (Dec SVal) → List SVal → Prop
  | d :: ds, v :: vs => (∀ r, d (ser v ++ r) = .ok v r) ∧ AllRtD ds vs
  | [], [] => True
  | _, _ => False

def pairsOf : List Bytes → List SVal → Found
  | n :: ns, v :: vs => (n, v) :: pairsOf ns vs
  | _, _ => []

theorem has_append (fd : Found) (n k : Bytes) (v : SVal) :
    Found.has (fd ++ [(n, v)]) k = (fd.has k || n == k) := by
  simp [Found.has, List.any_append]

theorem get?_append_of_has_false (fd : Found) (n k : Bytes) (v : SVal) (h : fd.has k = false) :
    Found.get? (fd ++ [(n, v)]) k = if n == k then some v else none := by
  induction fd with
  | nil => simp [Found.get?]
  | cons p fd ih =>
    simp only [Found.has, List.any_cons, Bool.or_eq_false_iff] at h
    have ih' := ih (by simpa [Found.has] using h.2)
    simp only [Found.get?, List.cons_append, List.find?, h.1] at ih' ⊢
    exact ih'

theorem get?_append_of_has (fd tl : Found) (k : Bytes) (h : fd.has k = true) :
    Found.get? (fd ++ tl) k = fd.get? k := by
  induction fd with
  | nil => simp [Found.has] at h
  | cons q fd ih =>
    simp only [Found.get?, List.cons_append, List.find?]
    cases hq : q.1 == k with
    | true => rfl
    | false =>
      simp only [Found.has, List.any_cons, hq, Bool.false_or] at h
      simpa [Found.get?] using ih (by simpa [Found.has] using h)

theorem findField_cons (f : FieldDec) (fs : List FieldDec) (k : Bytes) :
    findField (f :: fs) k = if f.name == k then some f else findField fs k := by
  simp [findField, List.find?]; split <;> simp_all

/-- field decoders built from names / per-field data, as the model builds them. -/
structure FieldsWf (fs : List FieldDec) : Prop where
  nodup : (fs.map (·.name)).Nodup
  names : ∀ f ∈ fs, nameOk f.name = true

theorem findField_mem (fs : List FieldDec) (h : (fs.map (·.name)).Nodup) (f : FieldDec) (hf : f ∈ fs) :
    findField fs f.name = some f := by
  induction fs with
  | nil => cases hf
  | cons g fs ih =>
    simp only [List.map_cons, List.nodup_cons] at h
    rw [findField_cons]
    rcases List.mem_cons.mp hf with rfl | hf'
    · simp
    · have : (g.name == f.name) = false := by
        apply beq_eq_false_iff_ne.mpr
        intro e
        exact h.1 (e ▸ List.mem_map_of_mem (f := (·.name)) hf')
      simp [this, ih h.2 hf']

/-- the loop over the entries written in field order. -/
theorem structLoop_rt (all : List FieldDec) (hwf : FieldsWf all) :
    (suf : List FieldDec) → (vs : List SVal) → (∀ f ∈ suf, f ∈ all) → ((suf.map (·.name)).Nodup) →
    AllRtD (suf.map (·.dec)) vs → ∀ (fd : Found) (rest : Bytes), (∀ f ∈ suf, fd.has f.name = false) →
    loopN (structStep all) suf.length fd (sers (mkKvs (suf.map (·.name)) vs) ++ rest) =
      .ok (fd ++ pairsOf (suf.map (·.name)) vs) rest
  | [], [], _, _, _, fd, rest, _ => by simp [loopN, mkKvs, sers, pairsOf]
  | [], _ :: _, _, _, h, _, _, _ => by simp [AllRtD] at h
  | _ :: _, [], _, _, h, _, _, _ => by simp [AllRtD] at h
  | f :: suf, v :: vs, hsub, hnd, hrt, fd, rest, hfresh => by
    simp only [List.map_cons, AllRtD] at hrt
    simp only [List.map_cons, List.nodup_cons] at hnd
    have hname := hwf.names f (hsub f (by simp))
    simp only [nameOk, Bool.and_eq_true, decide_eq_true_eq] at hname
    have hkey : Dec.str (Enc.str f.name ++ (ser v ++ (sers (mkKvs (suf.map (·.name)) vs) ++ rest))) =
        .ok f.name (ser v ++ (sers (mkKvs (suf.map (·.name)) vs) ++ rest)) := str_rt _ _ hname.1 hname.2
    have hfind := findField_mem all hwf.nodup f (hsub f (by simp))
    have hfr := hfresh f (by simp)
    have hstep : structStep all fd (Enc.str f.name ++ (ser v ++ (sers (mkKvs (suf.map (·.name)) vs) ++ rest))) =
        .ok (fd ++ [(f.name, v)]) (sers (mkKvs (suf.map (·.name)) vs) ++ rest) := by
      unfold structStep
      rw [Dec.bind_ok _ _ _ _ _ hkey]
      simp only [hfind, hfr, Bool.false_eq_true, if_false]
      rw [Dec.bind_ok _ _ _ _ _ (hrt.1 _)]; rfl
    have ih := structLoop_rt all hwf suf vs (fun g hg => hsub g (by simp [hg])) hnd.2 hrt.2 (fd ++ [(f.name, v)]) rest
      (by
        intro g hg
        rw [has_append, hfresh g (by simp [hg])]
        have : f.name ≠ g.name := fun e => hnd.1 (e ▸ List.mem_map_of_mem (f := (·.name)) hg)
        simpa using this)
    simp only [List.length_cons, loopN, List.map_cons, mkKvs, sers, ser, List.append_assoc]
    rw [Dec.bind_ok _ _ _ _ _ hstep, ih]
    simp [pairsOf]

theorem pairsOf_has_false (ns : List Bytes) (vs : List SVal) (k : Bytes) (h : k ∉ ns) :
    Found.has (pairsOf ns vs) k = false := by
  induction ns generalizing vs with
  | nil => simp [pairsOf, Found.has]
  | cons n ns ih =>
    cases vs with
    | nil => simp [pairsOf, Found.has]
    | cons v vs =>
      simp only [List.mem_cons, not_or] at h
      have := ih vs h.2
      simp only [pairsOf, Found.has, List.any_cons, Bool.or_eq_false_iff] at this ⊢
      exact ⟨by simpa using fun e => h.1 e.symm, this⟩

/-- after the loop every field is found, in declaration order. -/
theorem finish_rt : (suf : List FieldDec) → (vs : List SVal) → suf.length = vs.length →
    (suf.map (·.name)).Nodup → ∀ (pre : Found), (∀ f ∈ suf, pre.has f.name = false) →
    finishFields suf (pre ++ pairsOf (suf.map (·.name)) vs) = some (mkKvs (suf.map (·.name)) vs)
  | [], [], _, _, _, _ => by simp [finishFields, mkKvs]
  | [], _ :: _, h, _, _, _ => by simp at h
  | _ :: _, [], h, _, _, _ => by simp at h
  | f :: suf, v :: vs, hl, hnd, pre, hpre => by
    simp only [List.map_cons, List.nodup_cons] at hnd
    have hget : Found.get? (pre ++ pairsOf (f.name :: suf.map (·.name)) (v :: vs)) f.name = some v := by
      have h1 : pre ++ pairsOf (f.name :: suf.map (·.name)) (v :: vs) =
          (pre ++ [(f.name, v)]) ++ pairsOf (suf.map (·.name)) vs := by simp [pairsOf]
      rw [h1]
      have h2 : Found.get? (pre ++ [(f.name, v)]) f.name = some v := by
        rw [get?_append_of_has_false pre f.name f.name v (hpre f (by simp))]; simp
      have h3 : Found.has (pre ++ [(f.name, v)]) f.name = true := by rw [has_append]; simp
      rw [get?_append_of_has _ _ _ h3, h2]
    have ih := finish_rt suf vs (by simpa using hl) hnd.2 (pre ++ [(f.name, v)]) (by
      intro g hg
      rw [has_append, hpre g (by simp [hg])]
      have : f.name ≠ g.name := fun e => hnd.1 (e ▸ List.mem_map_of_mem (f := (·.name)) hg)
      simpa using this)
    have h1 : pre ++ pairsOf (f.name :: suf.map (·.name)) (v :: vs) =
        (pre ++ [(f.name, v)]) ++ pairsOf (suf.map (·.name)) vs := by simp [pairsOf]
    simp only [finishFields, List.map_cons, hget, mkKvs]
    rw [h1, ih]

theorem allRtD_length : (ds : List (Dec SVal)) → (vs : List SVal) → AllRtD ds vs → ds.length = vs.length
  | [], [], _ => rfl
  | [], _ :: _, h => by simp [AllRtD] at h
  | _ :: _, [], h => by simp [AllRtD] at h
  | _ :: ds, _ :: vs, h => by simp [allRtD_length ds vs h.2]

/-- **the derived struct visitor reads back a struct** written as a definite map of its fields
    in declaration order. -/
theorem deStructBody_rt (fs : List FieldDec) (hwf : FieldsWf fs) (vs : List SVal)
    (hrt : AllRtD (fs.map (·.dec)) vs) (hlen : vs.length < U64) (rest : Bytes) :
    deStructBody fs (Enc.map vs.length ++ (sers (mkKvs (fs.map (·.name)) vs) ++ rest)) =
      .ok (mkKvs (fs.map (·.name)) vs) rest := by
  have hl : fs.length = vs.length := by simpa using allRtD_length _ _ hrt
  have hloop := structLoop_rt fs hwf fs vs (fun _ h => h) hwf.nodup hrt [] rest (by simp [Found.has])
  have hfin := finish_rt fs vs hl hwf.nodup [] (by simp [Found.has])
  simp only [List.nil_append] at hloop hfin
  unfold deStructBody
  rw [Dec.bind_ok _ _ _ _ _ (map_rt _ _ hlen)]
  have : mapLoop (structStep fs) (some vs.length) [] (sers (mkKvs (fs.map (·.name)) vs) ++ rest) =
      .ok (pairsOf (fs.map (·.name)) vs) rest := by
    unfold mapLoop; rw [← hl]; exact hloop
  rw [Dec.bind_ok _ _ _ _ _ this, hfin]; rfl

/-- an entry whose key is not a field name is skipped (`IgnoredAny`), whatever well-formed item
    its value is. -/
theorem structStep_unknown (all : List FieldDec) (fd : Found) (k : Bytes) (w : WItem) (rest : Bytes)
    (hk : nameOk k = true) (hnf : findField all k = none) (hw : w.valid = true) (hfit : (encW w).length < U64) :
    structStep all fd (Enc.str k ++ (encW w ++ rest)) = .ok fd rest := by
  simp only [nameOk, Bool.and_eq_true, decide_eq_true_eq] at hk
  unfold structStep
  rw [Dec.bind_ok _ _ _ _ _ (str_rt k _ hk.1 hk.2)]
  simp only [hnf]
  have hs : skipItem (encW w ++ rest) = .ok () rest :=
    Dec.skip_encW w rest hw (by unfold U64MAX; unfold U64 at hfit; omega)
  rw [Dec.bind_ok _ _ _ _ _ hs]; rfl

theorem loopN_succ_last (step : σ → Dec σ) : (n : Nat) → (s : σ) → (bs : Bytes) →
    loopN step (n + 1) s bs = (loopN step n s >>= step) bs
  | 0, s, bs => by
    simp only [loopN, Dec.bind_run, Dec.pure_run]
    cases step s bs <;> rfl
  | n + 1, s, bs => by
    have ih := fun s' bs' => loopN_succ_last step n s' bs'
    rw [loopN, Dec.bind_run]
    cases h : step s bs with
    | ok a r =>
      simp only []
      rw [ih a r]
      show _ = ((step s >>= fun s => loopN step n s) >>= step) bs
      simp only [Dec.bind_run, h]
    | err e r => simp [loopN, Dec.bind_run, h]
    | panic => simp [loopN, Dec.bind_run, h]

theorem findField_none (fs : List FieldDec) (k : Bytes) (h : k ∉ fs.map (·.name)) : findField fs k = none := by
  induction fs with
  | nil => rfl
  | cons f fs ih =>
    simp only [List.map_cons, List.mem_cons, not_or] at h
    rw [findField_cons]
    have : (f.name == k) = false := by simpa using fun e => h.1 e.symm
    simp [this, ih h.2]

/-- **unknown struct fields are ignored**: an unknown entry before and another after the known
    fields (a map of `n + 2` entries) change nothing. -/
theorem deStructBody_unknown (fs : List FieldDec) (hwf : FieldsWf fs) (vs : List SVal)
    (hrt : AllRtD (fs.map (·.dec)) vs) (hlen : vs.length + 2 < U64)
    (k1 k2 : Bytes) (w1 w2 : WItem) (hk1 : nameOk k1 = true) (hk2 : nameOk k2 = true)
    (hn1 : k1 ∉ fs.map (·.name)) (hn2 : k2 ∉ fs.map (·.name))
    (hw1 : w1.valid = true) (hw2 : w2.valid = true) (hf1 : (encW w1).length < U64) (hf2 : (encW w2).length < U64)
    (rest : Bytes) :
    deStructBody fs (Enc.map (vs.length + 2) ++ (Enc.str k1 ++ (encW w1 ++
      (sers (mkKvs (fs.map (·.name)) vs) ++ (Enc.str k2 ++ (encW w2 ++ rest)))))) =
      .ok (mkKvs (fs.map (·.name)) vs) rest := by
  have hl : fs.length = vs.length := by simpa using allRtD_length _ _ hrt
  have hloop := structLoop_rt fs hwf fs vs (fun _ h => h) hwf.nodup hrt [] (Enc.str k2 ++ (encW w2 ++ rest))
    (by simp [Found.has])
  have hfin := finish_rt fs vs hl hwf.nodup [] (by simp [Found.has])
  simp only [List.nil_append] at hloop hfin
  unfold deStructBody
  rw [Dec.bind_ok _ _ _ _ _ (map_rt _ _ hlen)]
  have h1 := structStep_unknown fs [] k1 w1 (sers (mkKvs (fs.map (·.name)) vs) ++ (Enc.str k2 ++ (encW w2 ++ rest)))
    hk1 (findField_none fs k1 hn1) hw1 hf1
  have h2 := structStep_unknown fs (pairsOf (fs.map (·.name)) vs) k2 w2 rest hk2 (findField_none fs k2 hn2) hw2 hf2
  have : mapLoop (structStep fs) (some (vs.length + 2)) []
      (Enc.str k1 ++ (encW w1 ++ (sers (mkKvs (fs.map (·.name)) vs) ++ (Enc.str k2 ++ (encW w2 ++ rest))))) =
      .ok (pairsOf (fs.map (·.name)) vs) rest := by
    unfold mapLoop
    simp only []
    rw [loopN_succ_last, show vs.length + 1 = vs.length.succ from rfl, loopN]
    rw [Dec.bind_run, Dec.bind_run, h1]
    simp only []
    rw [← hl, hloop]
    simp only []
    exact h2
  rw [Dec.bind_ok _ _ _ _ _ this, hfin]; rfl

/-- the same loop on an indefinite-length map: until the break. -/
theorem structLoopI_rt (all : List FieldDec) (hwf : FieldsWf all) :
    (suf : List FieldDec) → (vs : List SVal) → (∀ f ∈ suf, f ∈ all) → ((suf.map (·.name)).Nodup) →
    AllRtD (suf.map (·.dec)) vs → ∀ (fd : Found) (rest : Bytes) (fuel : Nat), suf.length + 1 ≤ fuel →
    (∀ f ∈ suf, fd.has f.name = false) →
    loopI (structStep all) fuel fd (sers (mkKvs (suf.map (·.name)) vs) ++ 0xff :: rest) =
      .ok (fd ++ pairsOf (suf.map (·.name)) vs) rest
  | [], [], _, _, _, fd, rest, fuel, hf, _ => by
    obtain ⟨f, rfl⟩ : ∃ f, fuel = f + 1 := ⟨fuel - 1, by omega⟩
    simp [loopI, mkKvs, sers, pairsOf, Dec.bind_run]
  | [], _ :: _, _, _, h, _, _, _, _, _ => by simp [AllRtD] at h
  | _ :: _, [], _, _, h, _, _, _, _, _ => by simp [AllRtD] at h
  | f :: suf, v :: vs, hsub, hnd, hrt, fd, rest, fuel, hfuel, hfresh => by
    obtain ⟨fu, rfl⟩ : ∃ f, fuel = f + 1 := ⟨fuel - 1, by omega⟩
    simp only [List.map_cons, AllRtD] at hrt
    simp only [List.map_cons, List.nodup_cons] at hnd
    have hname := hwf.names f (hsub f (by simp))
    simp only [nameOk, Bool.and_eq_true, decide_eq_true_eq] at hname
    have hkey : Dec.str (Enc.str f.name ++ (ser v ++ (sers (mkKvs (suf.map (·.name)) vs) ++ 0xff :: rest))) =
        .ok f.name (ser v ++ (sers (mkKvs (suf.map (·.name)) vs) ++ 0xff :: rest)) := str_rt _ _ hname.1 hname.2
    have hfind := findField_mem all hwf.nodup f (hsub f (by simp))
    have hfr := hfresh f (by simp)
    have hstep : structStep all fd (Enc.str f.name ++ (ser v ++ (sers (mkKvs (suf.map (·.name)) vs) ++ 0xff :: rest))) =
        .ok (fd ++ [(f.name, v)]) (sers (mkKvs (suf.map (·.name)) vs) ++ 0xff :: rest) := by
      unfold structStep
      rw [Dec.bind_ok _ _ _ _ _ hkey]
      simp only [hfind, hfr, Bool.false_eq_true, if_false]
      rw [Dec.bind_ok _ _ _ _ _ (hrt.1 _)]; rfl
    have ih := structLoopI_rt all hwf suf vs (fun g hg => hsub g (by simp [hg])) hnd.2 hrt.2 (fd ++ [(f.name, v)]) rest fu
      (by simp at hfuel; omega)
      (by
        intro g hg
        rw [has_append, hfresh g (by simp [hg])]
        have : f.name ≠ g.name := fun e => hnd.1 (e ▸ List.mem_map_of_mem (f := (·.name)) hg)
        simpa using this)
    -- the key's first byte is a text head, not the break
    have hv : (WItem.text (prefWidth f.name.length) f.name).valid = true := by
      simp [WItem.valid, prefWidth_fits _ hname.2, hname.1]
    obtain ⟨b, tl, hb, hne⟩ : ∃ b tl, Enc.str f.name = b :: tl ∧ b ≠ 0xff := by
      rw [C03.str_pref f.name hname.2]
      show ∃ b tl, encW (WItem.text (prefWidth f.name.length) f.name) = b :: tl ∧ b ≠ 0xff
      have hd := datatype_encW _ hv []
      rw [List.append_nil] at hd
      cases he : encW (WItem.text (prefWidth f.name.length) f.name) with
      | nil => rw [he] at hd; simp [Dec.datatype, Dec.bind_run] at hd
      | cons b tl =>
        refine ⟨b, tl, rfl, ?_⟩
        intro hb; subst hb
        rw [he, datatype_nopeek _ _ (by decide)] at hd
        have : typeOfB 0xff false = wType (WItem.text (prefWidth f.name.length) f.name) := by injection hd
        simp [wType] at this
        revert this; decide
    have hcur : current (Enc.str f.name ++ (ser v ++ (sers (mkKvs (suf.map (·.name)) vs) ++ 0xff :: rest))) =
        .ok b (Enc.str f.name ++ (ser v ++ (sers (mkKvs (suf.map (·.name)) vs) ++ 0xff :: rest))) := by rw [hb]; rfl
    have hne' : (b == 0xff) = false := by simpa using hne
    simp only [loopI, List.map_cons, mkKvs, sers, ser, List.append_assoc]
    rw [Dec.bind_ok _ _ _ _ _ hcur]
    simp only [hne', Bool.false_eq_true, if_false]
    rw [Dec.bind_ok _ _ _ _ _ hstep, ih]
    simp [pairsOf]

theorem deStructBody_indef_rt (fs : List FieldDec) (hwf : FieldsWf fs) (vs : List SVal)
    (hrt : AllRtD (fs.map (·.dec)) vs) (rest : Bytes) :
    deStructBody fs (0xbf :: (sers (mkKvs (fs.map (·.name)) vs) ++ 0xff :: rest)) =
      .ok (mkKvs (fs.map (·.name)) vs) rest := by
  have hl : fs.length = vs.length := by simpa using allRtD_length _ _ hrt
  have hfin := finish_rt fs vs hl hwf.nodup [] (by simp [Found.has])
  simp only [List.nil_append] at hfin
  unfold deStructBody
  rw [Dec.bind_ok _ _ _ _ _ (C04.map_indef _)]
  have hlen : fs.length ≤ (sers (mkKvs (fs.map (·.name)) vs)).length := by
    -- every field contributes at least its key's first byte; a crude bound suffices: use the fuel directly
    exact Nat.le_of_lt_succ (by
      have : ∀ (suf : List FieldDec) (vs : List SVal), suf.length = vs.length →
          suf.length ≤ (sers (mkKvs (suf.map (·.name)) vs)).length := by
        intro suf
        induction suf with
        | nil => intro vs _; simp
        | cons g suf ih =>
          intro vs h
          cases vs with
          | nil => simp at h
          | cons v vs =>
            have := ih vs (by simpa using h)
            have hpos : 1 ≤ (Enc.str g.name).length := by
              simp [Enc.str, Enc.typeLen]; repeat' split
              all_goals (simp; try omega)
            simp only [List.map_cons, mkKvs, sers, ser, List.length_append, List.length_cons]
            omega
      have := this fs vs hl
      omega)
  have hloop := structLoopI_rt fs hwf fs vs (fun _ h => h) hwf.nodup hrt [] rest
    ((sers (mkKvs (fs.map (·.name)) vs) ++ 0xff :: rest).length + 1) (by simp; omega) (by simp [Found.has])
  simp only [List.nil_append] at hloop
  have : mapLoop (structStep fs) none [] (sers (mkKvs (fs.map (·.name)) vs) ++ 0xff :: rest) =
      .ok (pairsOf (fs.map (·.name)) vs) rest := hloop
  rw [Dec.bind_ok _ _ _ _ _ this, hfin]; rfl

end Minicbor.Serde
