/-
  Leaf facts for the built-in codecs: what each `Encoder` method writes is read back by the
  matching `Decoder` accessor (from the C03 "= preferred head" and the C04/C05 "accessor on any
  head" theorems), and what `datatype()` says about the first byte of an encoding.
-/
import Minicbor.Lemmas.TypesInduct
import Minicbor.Thm.C03
import Minicbor.Thm.C04
import Minicbor.Thm.C05

namespace Minicbor
open Dec

/-- magnitude carried in the head of an integer: `v` or `-1 - v`. -/
def intMag (v : Int) : Nat := if v ≥ 0 then v.toNat else (-1 - v).toNat

theorem IntKind.inRange_iff (k : IntKind) (v : Int) :
    k.inRange v = true ↔ k.ty.lo ≤ v ∧ v ≤ k.ty.hi := by
  unfold IntKind.inRange; rw [Bool.and_eq_true, decide_eq_true_eq, decide_eq_true_eq]

theorem encPref_intItem (x : Int) :
    encPref (C03.intItem x) = C05.intHead (decide (x < 0)) (prefWidth (intMag x)) (intMag x) := by
  unfold C03.intItem intMag C05.intHead
  by_cases hx : x ≥ 0
  · have : ¬ x < 0 := by omega
    simp [hx, this, encPref, prefTree, encW]
  · have : x < 0 := by omega
    simp [hx, this, encPref, prefTree, encW]

/-- every integer `Encode` impl writes the preferred head of the value's data-model integer. -/
theorem IntKind.enc_pref (k : IntKind) (v : Int) (h : k.inRange v = true) :
    k.enc v = encPref (C03.intItem v) := by
  rw [IntKind.inRange_iff] at h
  cases k <;> simp [IntKind.ty, IntTy.lo, IntTy.hi, IntTy.u8, IntTy.u16, IntTy.u32, IntTy.u64,
     IntTy.i8, IntTy.i16, IntTy.i32, IntTy.i64, IntTy.int] at h <;> simp only [IntKind.enc]
  · rw [C03.u8_pref _ (by omega)]; simp [C03.intItem, h.1]
  · rw [C03.u16_pref _ (by omega)]; simp [C03.intItem, h.1]
  · rw [C03.u32_pref _ (by omega)]; simp [C03.intItem, h.1]
  · rw [C03.u64_pref _ (by omega)]; simp [C03.intItem, h.1]
  · exact C03.i8_pref _ (by omega)
  · exact C03.i16_pref _ (by omega)
  · exact C03.i32_pref _ (by omega)
  · exact C03.i64_pref _ (by omega)
  · split
    · rw [C03.int_pref _ _ (by omega)]; simp [C03.intItem, *]
    · rw [C03.int_pref _ _ (by omega)]; simp [C03.intItem, *]

theorem IntKind.mag_bounds (k : IntKind) (v : Int) (h : k.inRange v = true) :
    intMag v < 18446744073709551616 ∧ (v < 0 → k.ty.neg = true) ∧ intMag v ≤ k.ty.max := by
  rw [IntKind.inRange_iff] at h
  unfold intMag
  cases k <;> simp [IntKind.ty, IntTy.lo, IntTy.hi, IntTy.u8, IntTy.u16, IntTy.u32, IntTy.u64,
     IntTy.i8, IntTy.i16, IntTy.i32, IntTy.i64, IntTy.int] at h ⊢ <;> (split <;> omega)

theorem intVal_mag (v : Int) : C05.intVal (decide (v < 0)) (intMag v) = v := by
  unfold C05.intVal intMag
  by_cases hv : v < 0
  · have : ¬ v ≥ 0 := by omega
    simp [hv, this]; omega
  · have : v ≥ 0 := by omega
    simp [hv, this]; omega

/-- integer round trip: the accessor of the same type reads back what the encoder wrote. -/
theorem intAcc_enc (k : IntKind) (v : Int) (rest : Bytes) (h : k.inRange v = true) :
    intAcc k.ty (k.enc v ++ rest) = .ok v rest := by
  rw [IntKind.enc_pref k v h, encPref_intItem]
  have hm := IntKind.mag_bounds k v h
  rw [C05.int_accessor_ok k.ty (prefWidth (intMag v)) (decide (v < 0)) (intMag v) rest
    (prefWidth_fits _ hm.1) (by simpa using hm.2.1) hm.2.2, intVal_mag]

theorem intAcc_u32 (n : Nat) (rest : Bytes) (h : n < 4294967296) :
    intAcc .u32 (Enc.u32 n ++ rest) = .ok (n : Int) rest := by
  have := intAcc_enc .u32 (n : Int) rest (by rw [IntKind.inRange_iff]; simp [IntKind.ty, IntTy.lo, IntTy.hi, IntTy.u32]; omega)
  simpa [IntKind.enc, IntKind.ty] using this

theorem intAcc_u64 (n : Nat) (rest : Bytes) (h : n < 18446744073709551616) :
    intAcc .u64 (Enc.u64 n ++ rest) = .ok (n : Int) rest := by
  have := intAcc_enc .u64 (n : Int) rest (by rw [IntKind.inRange_iff]; simp [IntKind.ty, IntTy.lo, IntTy.hi, IntTy.u64]; omega)
  simpa [IntKind.enc, IntKind.ty] using this

theorem bool_enc (b : Bool) (rest : Bytes) : Dec.bool (Enc.bool b ++ rest) = .ok b rest := by
  rw [C03.bool_pref]; exact C04.bool_sound b rest

theorem isScalar_lt {n : Nat} (h : isScalar n = true) : n < 1114112 := by
  simp [isScalar] at h; omega

theorem char_enc (c : Nat) (rest : Bytes) (h : isScalar c = true) :
    Dec.char (Enc.char c ++ rest) = .ok c rest := by
  have hc := isScalar_lt h
  simp [Dec.char, Enc.char, Dec.bind_run, intAcc_u32 c rest (by omega), h]

theorem f32_enc (b : Nat) (rest : Bytes) (h : b < 4294967296) (half : Bool) :
    Dec.f32 half (Enc.f32 b ++ rest) = .ok b rest := by
  have hb : fromBe (be 4 b) = b := fromBe_be 4 b (by simpa using h)
  have e : Enc.f32 b ++ rest = 0xfa :: (be 4 b ++ rest) := rfl
  rw [e]
  simp [Dec.f32, Dec.bind_run, Dec.readSlice_be, hb]

theorem f64_enc (b : Nat) (rest : Bytes) (h : b < 18446744073709551616) (half : Bool) :
    Dec.f64 half (Enc.f64 b ++ rest) = .ok b rest := by
  have hb : fromBe (be 8 b) = b := fromBe_be 8 b (by simpa using h)
  have e : Enc.f64 b ++ rest = 0xfb :: (be 8 b ++ rest) := rfl
  rw [e]
  simp [Dec.f64, Dec.bind_run, Dec.readSlice_be, hb]

theorem str_enc (b rest : Bytes) (hl : b.length < 18446744073709551616) (hu : validUtf8 b = true) :
    Dec.str (Enc.str b ++ rest) = .ok b rest := by
  rw [C03.str_pref b hl]
  exact C04.str_sound _ b rest (prefWidth_fits _ hl) hu

theorem bytes_enc (b rest : Bytes) (hl : b.length < 18446744073709551616) :
    Dec.bytes (Enc.bytes b ++ rest) = .ok b rest := by
  rw [C03.bytes_pref b hl]
  exact C04.bytes_sound _ b rest (prefWidth_fits _ hl)

theorem array_enc (n : Nat) (rest : Bytes) (h : n < 18446744073709551616) :
    Dec.array (Enc.array n ++ rest) = .ok (some n) rest := by
  rw [C03.array_pref n h]; exact C04.array_sound _ n rest (prefWidth_fits _ h)

theorem map_enc (n : Nat) (rest : Bytes) (h : n < 18446744073709551616) :
    Dec.map (Enc.map n ++ rest) = .ok (some n) rest := by
  rw [C03.map_pref n h]; exact C04.map_sound _ n rest (prefWidth_fits _ h)

theorem tag_enc (n : Nat) (rest : Bytes) (h : n < 18446744073709551616) :
    Dec.tag (Enc.tag n ++ rest) = .ok n rest := by
  rw [C03.tag_pref n h]; exact C04.tag_sound _ n rest (prefWidth_fits _ h)

/-! ### `skip()` on the two one-byte items the built-in impls hand to it -/

/-- one loop round on a leaf item: the match arm leaves the state alone, the bookkeeping
    decrements `nrounds` to 0 and the loop ends. -/
theorem skipLoop_leaf (fuel : Nat) (bs rest : Bytes)
    (h : skipArm true SkipSt.init bs = .ok (.next SkipSt.init) rest) :
    skipLoop true (fuel + 2) SkipSt.init bs = .ok () rest := by
  have h1 : skipRunning true SkipSt.init = true := by decide
  have h2 : skipPost true SkipSt.init rest = .ok (some ⟨0, 0, []⟩) rest := rfl
  have h3 : skipRunning true ⟨0, 0, []⟩ = false := by decide
  rw [skipLoop]
  simp only [h1, Bool.not_true, Bool.false_eq_true, if_false]
  rw [Dec.bind_run, h]
  simp only []
  rw [Dec.bind_run, h2]
  simp only []
  rw [skipLoop]
  simp [h3]

theorem skip_leaf (bs rest : Bytes)
    (h : skipArm true SkipSt.init bs = .ok (.next SkipSt.init) rest) :
    Dec.skip true bs = .ok () rest := by
  unfold Dec.skip
  rw [Dec.bind_run]
  simp only [Dec.remaining]
  exact skipLoop_leaf _ bs rest h

theorem skip_null (rest : Bytes) : Dec.skip true (Enc.null ++ rest) = .ok () rest := by
  apply skip_leaf
  have e : Enc.null ++ rest = 0xf6 :: rest := rfl
  rw [e]
  simp [skipArm, Dec.bind_run, infoOf, Dec.unsigned]

theorem skip_emptyArray (rest : Bytes) : Dec.skip true (Enc.array 0 ++ rest) = .ok () rest := by
  apply skip_leaf
  have ha := array_enc 0 rest (by decide)
  have e : Enc.array 0 ++ rest = 0x80 :: rest := rfl
  rw [e] at ha ⊢
  simp [skipArm, Dec.bind_run, ha]

end Minicbor
