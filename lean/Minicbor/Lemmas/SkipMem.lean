/-
  Memory bound of `Decoder::skip` on ARBITRARY bytes (used by C02): at every point of the run
  the length of the stack plus `irounds` is at most the number of bytes consumed so far.
  `Reach alloc bs0 s bs` is the small-step semantics of the `while` loop: `(s, bs)` is a
  configuration at the loop head of `skip` started on `bs0`.
-/
import Minicbor.Lemmas.SkipView
import Minicbor.Lemmas.SkipLocal
import Minicbor.Lemmas.SkipNoAlloc

namespace Minicbor
open Dec

/-- the configurations `(state, remaining input)` at the head of the `while` loop. -/
inductive Reach (alloc : Bool) (bs0 : Bytes) : SkipSt → Bytes → Prop
  | init : Reach alloc bs0 SkipSt.init bs0
  | cont {s s' : SkipSt} {bs r : Bytes} : Reach alloc bs0 s bs → skipRunning alloc s = true →
      skipArm alloc s bs = .ok (.cont s') r → Reach alloc bs0 s' r
  | next {s s1 s' : SkipSt} {bs r r' : Bytes} : Reach alloc bs0 s bs → skipRunning alloc s = true →
      skipArm alloc s bs = .ok (.next s1) r → skipPost alloc s1 r = .ok (some s') r' →
      Reach alloc bs0 s' r'

/-- what the bound is proved for: frames + pending breaks (+1 while two or more items are
    pending in counting mode: the switch to stack mode pushes two frames at once). -/
def memMeasure (s : SkipSt) : Nat := s.stack.length + s.ir + (if 2 ≤ s.nr then 1 else 0)

theorem popZeros_length (st : List (Option Nat)) : (popZeros st).length ≤ st.length := by
  induction st with
  | nil => simp [popZeros]
  | cons x st ih =>
    match x with
    | some 0 => simp [popZeros]; omega
    | some (k + 1) => simp [popZeros]
    | none => simp [popZeros]

theorem postStack_length (st : List (Option Nat)) : (postStack st).length ≤ st.length := by
  have := popZeros_length st
  unfold postStack
  split
  · rename_i h; rw [h] at this; simpa using this
  · exact this

theorem memMeasure_post (alloc : Bool) (s : SkipSt) : memMeasure (postSt alloc s) ≤ memMeasure s := by
  unfold postSt memMeasure
  split
  · have := postStack_length s.stack
    simp only; omega
  · simp only
    split <;> split <;> omega

theorem satAdd_le_add (a b : Nat) : satAdd a b ≤ a + b := by
  unfold satAdd; split <;> omega

/-- every iteration raises the measure by at most one. -/
theorem memMeasure_tokStep (alloc : Bool) (s s' : SkipSt) (t : Tok) (h : tokStep alloc s t = some s') :
    memMeasure s' ≤ memMeasure s + 1 := by
  cases t with
  | item =>
    simp [tokStep] at h; subst h
    have := memMeasure_post alloc s; omega
  | tag => simp [tokStep] at h; subst h; omega
  | brk =>
    simp [tokStep] at h; subst h
    have h1 := memMeasure_post alloc (brkSt alloc s)
    have h2 : memMeasure (brkSt alloc s) ≤ memMeasure s := by
      unfold brkSt memMeasure
      split
      · split
        · rename_i hst; simp [hst]
        · omega
      · simp only; omega
    omega
  | defn n =>
    simp [tokStep] at h; subst h
    have h1 := memMeasure_post alloc (defSt alloc s n)
    have h2 : memMeasure (defSt alloc s n) ≤ memMeasure s + 1 := by
      unfold defSt skipDefinite memMeasure
      split
      · omega
      · split
        · simp only [List.length_cons]; omega
        · simp only; split <;> split <;> omega
    omega
  | indef =>
    simp only [tokStep] at h
    cases hi : indefSt alloc s with
    | none => rw [hi] at h; simp at h
    | some s1 =>
      rw [hi] at h; simp at h; subst h
      have h1 := memMeasure_post alloc s1
      have h2 : memMeasure s1 ≤ memMeasure s + 1 := by
        unfold indefSt at hi
        split at hi
        · cases hi; unfold memMeasure; simp only [List.length_cons]; omega
        · split at hi
          · rename_i hlt
            cases hi; unfold memMeasure; simp only
            have := satAdd_le_add s.ir 1
            have : ¬ 2 ≤ s.nr := by omega
            simp [this]; omega
          · rename_i hge
            split at hi
            · cases hi; unfold memMeasure
              have : 2 ≤ s.nr := by omega
              simp [this]; omega
            · cases hi
      omega

theorem applyTok_rest (alloc : Bool) (s : SkipSt) (t : Tok) (r r' : Bytes) (a : SkipArm)
    (h : applyTok alloc s t r = .ok a r') : r' = r := by
  cases t with
  | indef =>
    unfold applyTok at h
    cases hi : indefSt alloc s with
    | none => rw [hi] at h; cases h
    | some s1 => rw [hi] at h; cases h; rfl
  | _ => cases h; rfl

/-- a successful arm is a token applied to the state. -/
theorem skipArm_inv (alloc : Bool) (s : SkipSt) (bs r : Bytes) (a : SkipArm)
    (h : skipArm alloc s bs = .ok a r) :
    ∃ t, armTok bs = .ok t r ∧ applyTok alloc s t r = .ok a r := by
  rw [skipArm_eq, Dec.bind_run] at h
  cases ht : armTok bs with
  | ok t r1 =>
    rw [ht] at h
    have := applyTok_rest alloc s t r1 r a h
    subst this
    exact ⟨t, rfl, h⟩
  | err e r1 => rw [ht] at h; cases h
  | panic => rw [ht] at h; cases h

/-- **memory bound**: stack frames + pending breaks ≤ bytes consumed so far, at every loop head. -/
theorem reach_mem (alloc : Bool) (bs0 : Bytes) (s : SkipSt) (bs : Bytes) (h : Reach alloc bs0 s bs) :
    memMeasure s + bs.length ≤ bs0.length := by
  induction h with
  | init => simp [memMeasure, SkipSt.init]
  | @cont s s' bs r _ _ harm ih =>
    obtain ⟨t, ht, ha⟩ := skipArm_inv alloc s bs r _ harm
    have hlen := armTok_consumes bs t r ht
    have : tokStep alloc s t = some s' := by
      cases t with
      | tag => cases ha; rfl
      | indef =>
        unfold applyTok at ha
        cases hi : indefSt alloc s with
        | none => rw [hi] at ha; cases ha
        | some s1 => rw [hi] at ha; cases ha
      | _ => cases ha
    have := memMeasure_tokStep alloc s s' t this
    omega
  | @next s s1 s' bs r r' _ _ harm hpost ih =>
    obtain ⟨t, ht, ha⟩ := skipArm_inv alloc s bs r _ harm
    have hlen := armTok_consumes bs t r ht
    rw [skipPost_eq] at hpost
    have hr : r' = r := by injection hpost with _ h2; exact h2.symm
    subst hr
    have hs' : s' = postSt alloc s1 := by
      injection hpost with h1 _
      split at h1
      · cases h1
      · cases h1; rfl
    have : tokStep alloc s t = some s' := by
      subst hs'
      cases t with
      | tag => cases ha
      | indef =>
        unfold applyTok at ha
        simp only [tokStep]
        cases hi : indefSt alloc s with
        | none => rw [hi] at ha; cases ha
        | some s2 => rw [hi] at ha; cases ha; rfl
      | _ => cases ha; rfl
    have := memMeasure_tokStep alloc s s' t this
    omega

/-- in particular: `stack.len() + irounds ≤ bytes consumed`. -/
theorem reach_stack_le_consumed (alloc : Bool) (bs0 : Bytes) (s : SkipSt) (bs : Bytes)
    (h : Reach alloc bs0 s bs) : s.stack.length + s.ir + bs.length ≤ bs0.length := by
  have := reach_mem alloc bs0 s bs h
  unfold memMeasure at this
  omega

end Minicbor
