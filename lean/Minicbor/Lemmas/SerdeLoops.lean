/-
  Helper lemmas for C17 / C18: the access loops (`repeatN`, `untilBreak`, `seqAccess`,
  `mapAccess`, `loopN`, `loopI`) read back a serialised list, ordered-map insertion, `skip`.
-/
import Minicbor.Lemmas.SerdeBasic
import Minicbor.Lemmas.SkipExact

namespace Minicbor.Serde
open Minicbor.Dec

/-- `m` reads back each element of `xs`. -/
def EachRt (m : Dec SVal) (xs : List SVal) : Prop := ∀ x ∈ xs, ∀ rest, m (ser x ++ rest) = .ok x rest

/-- every element's encoding starts with a byte that is not the break. -/
def NoBreak (xs : List SVal) : Prop := ∀ x ∈ xs, ∃ b tl, ser x = b :: tl ∧ b ≠ 0xff

theorem repeatN_rt (m : Dec SVal) : (xs : List SVal) → EachRt m xs → ∀ rest,
    repeatN m xs.length (sers xs ++ rest) = .ok xs rest
  | [], _, rest => rfl
  | x :: xs, h, rest => by
    have hx := h x (by simp) (sers xs ++ rest)
    have ih := repeatN_rt m xs (fun y hy => h y (by simp [hy])) rest
    simp [repeatN, sers, Dec.bind_run, hx, ih]

theorem sers_length_ge (xs : List SVal) (hnb : NoBreak xs) : xs.length ≤ (sers xs).length := by
  induction xs with
  | nil => simp
  | cons x xs ih =>
    obtain ⟨b, tl, hb, _⟩ := hnb x (by simp)
    have := ih (fun y hy => hnb y (by simp [hy]))
    simp [sers, hb]; omega

theorem untilBreak_rt (m : Dec SVal) : (xs : List SVal) → EachRt m xs → NoBreak xs → ∀ (fuel : Nat) (rest : Bytes),
    xs.length + 1 ≤ fuel → untilBreak m fuel (sers xs ++ 0xff :: rest) = .ok xs rest
  | [], _, _, fuel, rest, hf => by
    obtain ⟨f, rfl⟩ : ∃ f, fuel = f + 1 := ⟨fuel - 1, by omega⟩
    simp [untilBreak, sers, Dec.bind_run]
  | x :: xs, h, hnb, fuel, rest, hf => by
    obtain ⟨f, rfl⟩ : ∃ f, fuel = f + 1 := ⟨fuel - 1, by omega⟩
    obtain ⟨b, tl, hb, hne⟩ := hnb x (by simp)
    have hx := h x (by simp) (sers xs ++ 0xff :: rest)
    have ih := untilBreak_rt m xs (fun y hy => h y (by simp [hy])) (fun y hy => hnb y (by simp [hy])) f rest
      (by simp at hf; omega)
    have hcur : current (ser x ++ (sers xs ++ 0xff :: rest)) = .ok b (ser x ++ (sers xs ++ 0xff :: rest)) := by
      rw [hb]; rfl
    have hne' : (b == 0xff) = false := by simpa using hne
    simp only [untilBreak, sers, List.append_assoc]
    rw [Dec.bind_ok _ _ _ _ _ hcur]
    simp only [hne', Bool.false_eq_true, if_false]
    rw [Dec.bind_ok _ _ _ _ _ hx, Dec.bind_ok _ _ _ _ _ ih]; rfl

theorem seqAccess_def_rt (m : Dec SVal) (xs : List SVal) (h : EachRt m xs) (rest : Bytes) :
    seqAccess m (some xs.length) (sers xs ++ rest) = .ok xs rest := repeatN_rt m xs h rest

theorem seqAccess_indef_rt (m : Dec SVal) (xs : List SVal) (h : EachRt m xs) (hnb : NoBreak xs) (rest : Bytes) :
    seqAccess m none (sers xs ++ 0xff :: rest) = .ok xs rest := by
  unfold seqAccess
  apply untilBreak_rt m xs h hnb
  have := sers_length_ge xs hnb
  simp; omega

/-! ### maps: entries two by two -/

/-- `mk` reads back the keys, `mv` the values of the flattened entry list. -/
def PairsRt (mk mv : Dec SVal) : List SVal → Prop
  | k :: v :: rest =>
    (∀ r, mk (ser k ++ r) = .ok k r) ∧ (∀ r, mv (ser v ++ r) = .ok v r) ∧ PairsRt mk mv rest
  | [] => True
  | [_] => False

def chunk2 : List SVal → List (List SVal)
  | k :: v :: rest => [k, v] :: chunk2 rest
  | _ => []

theorem chunk2_flatten : (kvs : List SVal) → kvs.length % 2 = 0 → (chunk2 kvs).flatten = kvs
  | [], _ => rfl
  | [_], h => by simp at h
  | k :: v :: rest, h => by
    have := chunk2_flatten rest (by simp at h; omega)
    simp [chunk2, this]

theorem chunk2_length : (kvs : List SVal) → (chunk2 kvs).length = kvs.length / 2
  | [] => rfl
  | [_] => by simp [chunk2]
  | k :: v :: rest => by
    have := chunk2_length rest
    simp [chunk2, this]; omega

theorem PairsRt.even {mk mv : Dec SVal} : (kvs : List SVal) → PairsRt mk mv kvs → kvs.length % 2 = 0
  | [], _ => rfl
  | [_], h => by cases h
  | k :: v :: rest, h => by
    have := PairsRt.even rest h.2.2
    simp; omega

theorem pairM_rt (mk mv : Dec SVal) (k v : SVal) (r : Bytes) (hk : ∀ r, mk (ser k ++ r) = .ok k r)
    (hv : ∀ r, mv (ser v ++ r) = .ok v r) : pairM mk mv (ser k ++ (ser v ++ r)) = .ok [k, v] r := by
  unfold pairM
  rw [Dec.bind_ok _ _ _ _ _ (hk _), Dec.bind_ok _ _ _ _ _ (hv _)]; rfl

/-- the pair reader reads back each two-element chunk (as one "element" whose encoding is the
    concatenation). -/
theorem pairs_repeatN (mk mv : Dec SVal) : (kvs : List SVal) → PairsRt mk mv kvs → ∀ rest,
    repeatN (pairM mk mv) (kvs.length / 2) (sers kvs ++ rest) = .ok (chunk2 kvs) rest
  | [], _, rest => rfl
  | [_], h, _ => by cases h
  | k :: v :: kvs, h, rest => by
    have ih := pairs_repeatN mk mv kvs h.2.2 rest
    have e : (k :: v :: kvs).length / 2 = kvs.length / 2 + 1 := by simp; omega
    rw [e]
    simp only [repeatN, sers, List.append_assoc, chunk2]
    rw [Dec.bind_ok _ _ _ _ _ (pairM_rt mk mv k v _ h.1 h.2.1), Dec.bind_ok _ _ _ _ _ ih]; rfl

theorem pairs_untilBreak (mk mv : Dec SVal) : (kvs : List SVal) → PairsRt mk mv kvs → NoBreak kvs →
    ∀ (fuel : Nat) (rest : Bytes), kvs.length + 1 ≤ fuel →
    untilBreak (pairM mk mv) fuel (sers kvs ++ 0xff :: rest) = .ok (chunk2 kvs) rest
  | [], _, _, fuel, rest, hf => by
    obtain ⟨f, rfl⟩ : ∃ f, fuel = f + 1 := ⟨fuel - 1, by omega⟩
    simp [untilBreak, sers, chunk2, Dec.bind_run]
  | [_], h, _, _, _, _ => by cases h
  | k :: v :: kvs, h, hnb, fuel, rest, hf => by
    obtain ⟨f, rfl⟩ : ∃ f, fuel = f + 1 := ⟨fuel - 1, by omega⟩
    obtain ⟨b, tl, hb, hne⟩ := hnb k (by simp)
    have ih := pairs_untilBreak mk mv kvs h.2.2 (fun y hy => hnb y (by simp [hy])) f rest (by simp at hf; omega)
    have hcur : current (ser k ++ (ser v ++ (sers kvs ++ 0xff :: rest))) =
        .ok b (ser k ++ (ser v ++ (sers kvs ++ 0xff :: rest))) := by rw [hb]; rfl
    have hne' : (b == 0xff) = false := by simpa using hne
    simp only [untilBreak, sers, List.append_assoc, chunk2]
    rw [Dec.bind_ok _ _ _ _ _ hcur]
    simp only [hne', Bool.false_eq_true, if_false]
    rw [Dec.bind_ok _ _ _ _ _ (pairM_rt mk mv k v _ h.1 h.2.1), Dec.bind_ok _ _ _ _ _ ih]; rfl

theorem mapAccess_def_rt (mk mv : Dec SVal) (kvs : List SVal) (h : PairsRt mk mv kvs) (rest : Bytes) :
    mapAccess mk mv (some (kvs.length / 2)) (sers kvs ++ rest) = .ok kvs rest := by
  unfold mapAccess seqAccess
  rw [Dec.bind_ok _ _ _ _ _ (pairs_repeatN mk mv kvs h rest)]
  simp [chunk2_flatten kvs (PairsRt.even kvs h)]

theorem mapAccess_indef_rt (mk mv : Dec SVal) (kvs : List SVal) (h : PairsRt mk mv kvs) (hnb : NoBreak kvs)
    (rest : Bytes) : mapAccess mk mv none (sers kvs ++ 0xff :: rest) = .ok kvs rest := by
  have hl := sers_length_ge kvs hnb
  have := pairs_untilBreak mk mv kvs h hnb ((sers kvs ++ 0xff :: rest).length + 1) rest (by simp; omega)
  have h2 : seqAccess (pairM mk mv) none (sers kvs ++ 0xff :: rest) = .ok (chunk2 kvs) rest := this
  unfold mapAccess
  rw [Dec.bind_ok _ _ _ _ _ h2]
  simp [chunk2_flatten kvs (PairsRt.even kvs h)]

/-! ### ordered maps -/

theorem lexLt_irrefl : (a : Bytes) → lexLt a a = false
  | [] => rfl
  | x :: xs => by simp [lexLt, lexLt_irrefl xs]

theorem lexLt_asymm : (a b : Bytes) → lexLt a b = true → lexLt b a = false
  | [], [], h => by simp [lexLt] at h
  | [], _ :: _, _ => rfl
  | _ :: _, [], h => by simp [lexLt] at h
  | x :: xs, y :: ys, h => by
    simp only [lexLt, Bool.or_eq_true, decide_eq_true_eq, Bool.and_eq_true, beq_iff_eq] at h
    simp only [lexLt, Bool.or_eq_false_iff, decide_eq_false_iff_not, Bool.and_eq_false_iff, beq_eq_false_iff_ne]
    rcases h with h | ⟨h1, h2⟩
    · have h' : x.toNat < y.toNat := h
      refine ⟨fun hc => ?_, Or.inl fun hc => ?_⟩
      · have : y.toNat < x.toNat := hc
        omega
      · rw [hc] at h'; omega
    · subst h1
      exact ⟨fun hc => by have : x.toNat < x.toNat := hc; omega, Or.inr (lexLt_asymm xs ys h2)⟩

theorem lexLt_ne (a b : Bytes) (h : lexLt a b = true) : (b == a) = false := by
  cases hb : b == a with
  | false => rfl
  | true =>
    have : b = a := by simpa using hb
    subst this
    rw [lexLt_irrefl] at h; cases h

/-- strictly ascending keys: a later key is neither equal to nor smaller than an earlier one. -/
theorem keyLt_asymm (a b : SVal) (h : keyLt a b = true) : keyEq b a = false ∧ keyLt b a = false := by
  cases a <;> cases b <;> simp [keyLt] at h <;> simp only [keyEq, keyLt] <;>
    first
    | exact ⟨lexLt_ne _ _ h, lexLt_asymm _ _ h⟩
    | (refine ⟨by simp; omega, by simp; omega⟩)
    | (rename_i x y; cases x <;> cases y <;> simp_all)

/-- the keys of a flattened entry list -/
def keysOf : List SVal → List SVal
  | k :: _ :: rest => k :: keysOf rest
  | _ => []

/-- strictly ascending under the key order (what iterating a `BTreeMap` yields). -/
def KeysAsc : List SVal → Prop
  | k :: _ :: rest => (∀ k' ∈ keysOf rest, keyLt k k' = true) ∧ KeysAsc rest
  | _ => True

theorem mapInsert_end (k v : SVal) : (acc : List SVal) → acc.length % 2 = 0 →
    (∀ k' ∈ keysOf acc, keyEq k k' = false ∧ keyLt k k' = false) → mapInsert k v acc = acc ++ [k, v]
  | [], _, _ => rfl
  | [_], h, _ => by simp at h
  | k' :: v' :: rest, hl, h => by
    have h1 := h k' (by simp [keysOf])
    have ih := mapInsert_end k v rest (by simp at hl; omega) (fun k'' hk => h k'' (by simp [keysOf, hk]))
    simp [mapInsert, h1.1, h1.2, ih]

theorem keysOf_append (a : List SVal) (k v : SVal) (h : a.length % 2 = 0) : keysOf (a ++ [k, v]) = keysOf a ++ [k] := by
  match a, h with
  | [], _ => rfl
  | [_], h => simp at h
  | x :: y :: rest, h =>
    have := keysOf_append rest k v (by simp at h; omega)
    simp [keysOf, this]

theorem mkMap_asc : (kvs : List SVal) → kvs.length % 2 = 0 → KeysAsc kvs → ∀ acc : List SVal, acc.length % 2 = 0 →
    (∀ a ∈ keysOf acc, ∀ b ∈ keysOf kvs, keyLt a b = true) → mkMap acc kvs = acc ++ kvs
  | [], _, _, acc, _, _ => by simp [mkMap]
  | [_], h, _, _, _, _ => by simp at h
  | k :: v :: rest, hl, hasc, acc, hacc, hlt => by
    have hins : mapInsert k v acc = acc ++ [k, v] :=
      mapInsert_end k v acc hacc (fun k' hk' => keyLt_asymm k' k (hlt k' hk' k (by simp [keysOf])))
    have ih := mkMap_asc rest (by simp at hl; omega) hasc.2 (acc ++ [k, v]) (by simp; omega) (by
      intro a ha b hb
      rw [keysOf_append acc k v hacc] at ha
      simp at ha
      rcases ha with ha | ha
      · exact hlt a ha b (by simp [keysOf, hb])
      · subst ha; exact hasc.1 b hb)
    simp [mkMap, hins, ih]

theorem mkMap_sorted (kvs : List SVal) (hl : kvs.length % 2 = 0) (h : KeysAsc kvs) : mkMap [] kvs = kvs := by
  have := mkMap_asc kvs hl h [] rfl (by intro a ha; simp [keysOf] at ha)
  simpa using this

/-! ### `skip` -/

theorem skip_null (rest : Bytes) : skipItem (0xf6 :: rest) = .ok () rest := by
  have := Dec.skip_encW (.simple 22) rest (by decide) (by decide)
  have e : encW (.simple 22) = [0xf6] := by decide
  rw [e] at this
  exact this

end Minicbor.Serde
