/-
  Helper lemmas: reading back a head written at any width.
-/
import Minicbor.Wire
import Minicbor.Decoder

namespace Minicbor

theorem Width.ai_le (w : Width) (n : Nat) (h : w.fits n = true) : w.ai n ≤ 27 := by
  cases w <;> simp [Width.fits, Width.ai] at * <;> omega

theorem Width.fits_lt (w : Width) (n : Nat) (h : w.fits n = true) : n < 256 ^ 8 := by
  cases w <;> simp [Width.fits] at * <;> omega

theorem Width.fits_lt_bytes (w : Width) (n : Nat) (h : w.fits n = true) (hw : w ≠ .w0) :
    n < 256 ^ w.bytes := by
  cases w <;> simp [Width.fits, Width.bytes] at * <;> omega

theorem Dec.readSlice_be (k n : Nat) (rest : Bytes) :
    Dec.readSlice k (be k n ++ rest) = .ok (be k n) rest := by
  have := Dec.readSlice_append (be k n) rest
  rwa [be_length] at this

/-- `Decoder::unsigned` on the additional-info byte of a head reads back the argument. -/
theorem Dec.unsigned_head (w : Width) (n : Nat) (rest : Bytes) (h : w.fits n = true) :
    Dec.unsigned (u8 (w.ai n)) (be w.bytes n ++ rest) = .ok n rest := by
  cases w
  · simp [Width.fits] at h
    have h1 : n % 256 = n := by omega
    have h2 : n ≤ 23 := by omega
    simp [Dec.unsigned, Width.ai, Width.bytes, be, h1, h2]
  · simp [Width.fits] at h
    have h1 : n % 256 = n := by omega
    simp [Dec.unsigned, Width.ai, Width.bytes, be, Dec.bind_run, h1]
  all_goals
    simp [Width.ai, Width.bytes, Dec.unsigned, Dec.bind_run, Dec.readSlice_be]
    apply fromBe_be
    simp [Width.fits] at h
    omega

end Minicbor
