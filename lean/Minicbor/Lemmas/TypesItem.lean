/-
  The RFC 8949 data-model value denoted by a value of a built-in type (`itemOf`), and the
  induction showing that every built-in `Encode` impl writes exactly the preferred serialisation
  of that value (C03, built-in part).
-/
import Minicbor.Lemmas.TypesRoundtrip

set_option linter.unusedSimpArgs false

namespace Minicbor

mutual
/-- the data-model value a typed value denotes: integers are integers, `char` is its scalar
    value, strings are text, the byte newtypes / `CStr` (with its NUL) are byte strings, `None` is
    `null`, `Some(x)` is `x`, sequences / arrays / tuples / `decode_fields!` records (ranges, socket
    addresses) / `()` are arrays, maps are maps, `Tagged<N, T>` is tag `N` around `T`, the
    `[index, payload]` enums (`Result`, `Bound`, `IpAddr`, `SocketAddr`) are two-element arrays,
    `Duration` / `SystemTime` are `[secs, nanos]`.  Floats keep their width.
    `none`: not a value of the type — or `minicbor::data::Tag`, whose impl writes a bare tag head,
    which is not a data item. -/
def itemOf : Ty → Val → Option Item
  | .int _, .int v => some (C03.intItem v)
  | .nz _, .int v => some (C03.intItem v)
  | .bool, .bool b => some (.simple (if b then 21 else 20))
  | .char, .int v => some (.uint v.toNat)
  | .f32, .float b => some (.f32 b)
  | .f64, .float b => some (.f64 b)
  | .str, .str b => some (.text b)
  | .bytes, .bytes b => some (.bytes b)
  | .barr _, .bytes b => some (.bytes b)
  | .cstr, .bytes b => some (.bytes (b ++ [0]))
  | .unit, .unit => some (.array [])
  | .skipUnit, .unit => some (.array [])
  | .opt _, .none => some (.simple 22)
  | .opt t, .some v => itemOf t v
  | .seq t, .list vs => (itemsOf t vs).map .array
  | .arr _ t, .list vs => (itemsOf t vs).map .array
  | .tup ts, .list vs => (itemsTup ts vs).map .array
  | .fields ts, .list vs => (itemsTup ts vs).map .array
  | .map k v, .map kvs => (itemsMap k v kvs).map .map
  | .tagged n t, .tagged v => (itemOf t v).map (.tag n)
  | .enum ts, .variant i v =>
      match ts[i]? with
      | some t => (itemOf t v).map (fun p => .array [.uint i, p])
      | none => none
  | .duration, .list [.int s, .int n] => some (.array [.uint s.toNat, .uint n.toNat])
  | .systime, .list [.int s, .int n] => some (.array [.uint s.toNat, .uint n.toNat])
  | _, _ => none
def itemsOf (t : Ty) : List Val → Option (List Item)
  | [] => some []
  | v :: vs => do let a ← itemOf t v; let b ← itemsOf t vs; some (a :: b)
def itemsTup : List Ty → List Val → Option (List Item)
  | [], [] => some []
  | t :: ts, v :: vs => do let a ← itemOf t v; let b ← itemsTup ts vs; some (a :: b)
  | _, _ => none
def itemsMap (k v : Ty) : List Val → Option (List Item)
  | [] => some []
  | x :: y :: rest => do
      let a ← itemOf k x; let b ← itemOf v y; let c ← itemsMap k v rest; some (a :: b :: c)
  | _ => none
end

/-- **`NoBareTag`**: `minicbor::data::Tag` does not occur in the type.  Its `Encode` impl writes
    only the tag head (`e.tag(*self)`), to be followed by an item the caller writes; on its own —
    or as an element of a counted container — that is not a well-formed data item. -/
def Ty.noBareTagNode : Ty → Bool
  | .tag => false
  | _ => true
def Ty.NoBareTag (t : Ty) : Bool := t.all Ty.noBareTagNode

theorem encPrefs_cons (a : Item) (b : List Item) : encPrefs (a :: b) = encPref a ++ encPrefs b := by
  simp [encPrefs, encPref, prefTrees, encWs]

theorem intItem_valid (k : IntKind) (v : Int) (h : k.inRange v = true) :
    (prefTree (C03.intItem v)).valid = true := by
  have hm := (IntKind.mag_bounds k v h).1
  unfold intMag at hm
  unfold C03.intItem
  split <;> simp_all [prefTree, WItem.valid, prefWidth_fits]

theorem validAll_cons (a : WItem) (b : List WItem) :
    validAll (a :: b) = (a.valid && validAll b) := by simp [validAll]

/-- array written as head + element encodings -/
theorem array_of_items (n : Nat) (is : List Item) (hn : is.length = n) (hl : n < 18446744073709551616)
    (hv : validAll (prefTrees is) = true) :
    Enc.array n ++ encPrefs is = encPref (.array is) ∧ (prefTree (.array is)).valid = true := by
  subst hn
  refine ⟨C03.array_denote is hl, ?_⟩
  simp [prefTree, WItem.valid, prefTrees_length, prefWidth_fits _ hl, hv]

theorem encPrefs_nil : encPrefs [] = [] := rfl

theorem array_of_two (a b : Item) (ha : (prefTree a).valid = true) (hb : (prefTree b).valid = true) :
    Enc.array 2 ++ encPref a ++ encPref b = encPref (.array [a, b]) ∧
    (prefTree (.array [a, b])).valid = true := by
  obtain ⟨e1, e2⟩ := array_of_items 2 [a, b] rfl (by decide) (by simp [prefTrees, validAll, ha, hb])
  refine ⟨?_, e2⟩
  rw [← e1, encPrefs_cons, encPrefs_cons, encPrefs_nil, List.append_nil, List.append_assoc]

theorem uint_valid (n : Nat) (h : n < 18446744073709551616) : (prefTree (.uint n)).valid = true := by
  simp only [prefTree, WItem.valid]; exact prefWidth_fits n h

theorem pref_all :
    (∀ t v bs, encodeT t v = some bs → t.WF = true → t.NoBareTag = true → bs.length < U64 →
      ∃ i, itemOf t v = some i ∧ bs = encPref i ∧ (prefTree i).valid = true) ∧
    (∀ k v kvs bs, encodeMap k v kvs = some bs → k.WF = true → v.WF = true → k.NoBareTag = true →
      v.NoBareTag = true → bs.length < U64 →
      ∃ is, itemsMap k v kvs = some is ∧ bs = encPrefs is ∧ validAll (prefTrees is) = true ∧
        is.length = kvs.length ∧ kvs.length % 2 = 0) ∧
    (∀ ts vs bs, encodeTup ts vs = some bs → Ty.allL Ty.wfNode ts = true →
      Ty.allL Ty.noBareTagNode ts = true → bs.length < U64 →
      ∃ is, itemsTup ts vs = some is ∧ bs = encPrefs is ∧ validAll (prefTrees is) = true ∧
        is.length = ts.length) ∧
    (∀ t vs bs, encodeList t vs = some bs → t.WF = true → t.NoBareTag = true → bs.length < U64 →
      ∃ is, itemsOf t vs = some is ∧ bs = encPrefs is ∧ validAll (prefTrees is) = true ∧
        is.length = vs.length) := by
  obtain ⟨sz1, sz2, sz3, sz4⟩ := enc_sizes
  apply encodeT_ok_induct
  case int =>
    intro k v h _ _ _
    exact ⟨_, rfl, IntKind.enc_pref k v h, intItem_valid k v h⟩
  case nz =>
    intro k v h _ _ _ _
    exact ⟨_, rfl, IntKind.enc_pref k v h, intItem_valid k v h⟩
  case bool => intro b _ _ _; exact ⟨_, rfl, C03.bool_pref b, by cases b <;> decide⟩
  case char =>
    intro v _ hs _ _ _
    have := isScalar_lt hs
    exact ⟨_, rfl, C03.char_pref _ (by omega), by simp [prefTree, WItem.valid, prefWidth_fits _ (by omega : v.toNat < 18446744073709551616)]⟩
  case f32 => intro b h _ _ _; exact ⟨_, rfl, rfl, by simpa [prefTree, WItem.valid] using h⟩
  case f64 => intro b h _ _ _; exact ⟨_, rfl, rfl, by simpa [prefTree, WItem.valid] using h⟩
  case str =>
    intro b hu _ _ hl
    have hb : b.length < 18446744073709551616 := by
      simp only [Enc.str, List.length_append, U64] at hl; omega
    exact ⟨_, rfl, C03.str_pref b hb, by simp [prefTree, WItem.valid, prefWidth_fits _ hb, hu]⟩
  case bytes | barr =>
    intro b _ _ hl
    have hb : b.length < 18446744073709551616 := by
      simp only [Enc.bytes, List.length_append, U64] at hl; omega
    exact ⟨_, rfl, C03.bytes_pref b hb, by simp [prefTree, WItem.valid, prefWidth_fits _ hb]⟩
  case cstr =>
    intro b _ _ _ hl
    have hb : (b ++ [0]).length < 18446744073709551616 := by
      simp only [Enc.bytes, List.length_append, U64] at hl ⊢; omega
    exact ⟨_, rfl, C03.bytes_pref _ hb, by simp only [prefTree, WItem.valid]; exact prefWidth_fits _ hb⟩
  case unit | skipUnit => intro _ _ _; exact ⟨_, rfl, by decide, by decide⟩
  case optNone => intro t _ _ _; exact ⟨_, rfl, rfl, by decide⟩
  case optSome =>
    intro t v bs _ ih hwf hnb hl
    simp only [Ty.WF, Ty.NoBareTag, Ty.all, Ty.wfNode, Ty.noBareTagNode, Bool.and_eq_true, Bool.true_and] at hwf hnb
    obtain ⟨i, hi, hb, hv⟩ := ih hwf hnb hl
    exact ⟨i, by simp [itemOf, hi], hb, hv⟩
  case seq | arr =>
    intro t vs b henc ih hwf hnb hl
    simp only [Ty.WF, Ty.NoBareTag, Ty.all, Ty.wfNode, Ty.noBareTagNode, Bool.and_eq_true, Bool.true_and] at hwf hnb
    have h1 := sz4 _ _ _ henc
    simp only [List.length_append, U64] at hl
    obtain ⟨is, hi, hb, hv, hlen⟩ := ih hwf hnb (by simp only [U64]; omega)
    obtain ⟨e1, e2⟩ := array_of_items vs.length is hlen (by omega) hv
    exact ⟨.array is, by simp [itemOf, hi], by rw [hb, e1], e2⟩
  case tup | fields =>
    intro ts vs b henc ih hwf hnb hl
    simp only [Ty.WF, Ty.NoBareTag, Ty.all, Ty.wfNode, Ty.noBareTagNode, Bool.and_eq_true, Bool.true_and] at hwf hnb
    have h1 := sz3 _ _ _ henc
    simp only [List.length_append, U64] at hl
    obtain ⟨is, hi, hb, hv, hlen⟩ := ih hwf hnb (by simp only [U64]; omega)
    obtain ⟨e1, e2⟩ := array_of_items ts.length is hlen (by omega) hv
    exact ⟨.array is, by simp [itemOf, hi], by rw [hb, e1], e2⟩
  case map =>
    intro k v kvs b henc ih hwf hnb hl
    simp only [Ty.WF, Ty.NoBareTag, Ty.all, Ty.wfNode, Ty.noBareTagNode, Bool.and_eq_true, Bool.true_and] at hwf hnb
    have h1 := sz2 _ _ _ _ henc
    simp only [List.length_append, U64] at hl
    obtain ⟨is, hi, hb, hv, hlen, hev⟩ := ih hwf.1 hwf.2 hnb.1 hnb.2 (by simp only [U64]; omega)
    have hl2 : is.length / 2 < 18446744073709551616 := by omega
    refine ⟨.map is, by simp [itemOf, hi], ?_, ?_⟩
    · rw [hb, ← hlen, C03.map_denote is hl2]
    · have hl3 : kvs.length / 2 < 18446744073709551616 := by omega
      simp [prefTree, WItem.valid, prefTrees_length, prefWidth_fits _ hl3, hv, hlen, hev]
  case tag =>
    intro v _ _ _ hnb _
    simp [Ty.NoBareTag, Ty.all, Ty.noBareTagNode] at hnb
  case tagged =>
    intro n t v b henc ih hwf hnb hl
    simp only [Ty.WF, Ty.NoBareTag, Ty.all, Ty.wfNode, Ty.noBareTagNode, Bool.and_eq_true, Bool.true_and,
      decide_eq_true_eq] at hwf hnb
    simp only [List.length_append, U64] at hl
    obtain ⟨i, hi, hb, hv⟩ := ih hwf.2 hnb (by simp only [U64]; omega)
    refine ⟨.tag n i, by simp [itemOf, hi], by rw [hb, C03.tag_denote n i hwf.1], ?_⟩
    simp [prefTree, WItem.valid, prefWidth_fits _ hwf.1, hv]
  case «enum» =>
    intro ts i t v b hi henc ih hwf hnb hl
    simp only [Ty.WF, Ty.NoBareTag, Ty.all, Ty.wfNode, Ty.noBareTagNode, Bool.and_eq_true, Bool.true_and,
      decide_eq_true_eq] at hwf hnb
    simp only [List.length_append, U64] at hl
    have hlt : i < ts.length := by
      rcases Nat.lt_or_ge i ts.length with h | h
      · exact h
      · rw [List.getElem?_eq_none h] at hi; cases hi
    obtain ⟨p, hp, hb, hv⟩ := ih (Ty.allL_get _ _ _ _ hwf.2 hi) (Ty.allL_get _ _ _ _ hnb hi)
      (by simp only [U64]; omega)
    have hi64 : i < 18446744073709551616 := by omega
    obtain ⟨e1, e2⟩ := array_of_two (.uint i) p (uint_valid i hi64) hv
    exact ⟨.array [.uint i, p], by simp [itemOf, hi, hp], by rw [hb, C03.u32_pref i (by omega), e1], e2⟩
  case duration | systime =>
    intro s n _ _ _ _ _ _ _
    have hs : s.toNat < 18446744073709551616 := by omega
    have hn : n.toNat < 18446744073709551616 := by omega
    obtain ⟨e1, e2⟩ := array_of_two (.uint s.toNat) (.uint n.toNat) (uint_valid _ hs) (uint_valid _ hn)
    exact ⟨_, rfl, by rw [Enc.secsNanos, C03.u64_pref _ hs, C03.u32_pref _ (by omega), e1], e2⟩
  case mapNil => intros; exact ⟨[], rfl, rfl, rfl, rfl, rfl⟩
  case tupNil => intros; exact ⟨[], rfl, rfl, rfl, rfl⟩
  case listNil => intros; exact ⟨[], rfl, rfl, rfl, rfl⟩
  case mapCons =>
    intro k v x y kvs a b c _ _ _ iha ihb ihc hwk hwv hnk hnv hl
    simp only [List.length_append, U64] at hl
    obtain ⟨i1, h1, e1, v1⟩ := iha hwk hnk (by simp only [U64]; omega)
    obtain ⟨i2, h2, e2, v2⟩ := ihb hwv hnv (by simp only [U64]; omega)
    obtain ⟨is, h3, e3, v3, l3, p3⟩ := ihc hwk hwv hnk hnv (by simp only [U64]; omega)
    refine ⟨i1 :: i2 :: is, by simp [itemsMap, h1, h2, h3], ?_, ?_, by simp [l3], by simp; omega⟩
    · rw [encPrefs_cons, encPrefs_cons, e1, e2, e3, List.append_assoc]
    · simp [prefTrees, validAll, v1, v2, v3]
  case tupCons =>
    intro t ts v vs a b _ _ iha ihb hw hn hl
    simp only [Ty.allL, Bool.and_eq_true] at hw hn
    simp only [List.length_append, U64] at hl
    obtain ⟨i1, h1, e1, v1⟩ := iha hw.1 hn.1 (by simp only [U64]; omega)
    obtain ⟨is, h3, e3, v3, l3⟩ := ihb hw.2 hn.2 (by simp only [U64]; omega)
    exact ⟨i1 :: is, by simp [itemsTup, h1, h3], by rw [encPrefs_cons, e1, e3],
      by simp [prefTrees, validAll, v1, v3], by simp [l3]⟩
  case listCons =>
    intro t v vs a b _ _ iha ihb hw hn hl
    simp only [List.length_append, U64] at hl
    obtain ⟨i1, h1, e1, v1⟩ := iha hw hn (by simp only [U64]; omega)
    obtain ⟨is, h3, e3, v3, l3⟩ := ihb hw hn (by simp only [U64]; omega)
    exact ⟨i1 :: is, by simp [itemsOf, h1, h3], by rw [encPrefs_cons, e1, e3],
      by simp [prefTrees, validAll, v1, v3], by simp [l3]⟩

end Minicbor
