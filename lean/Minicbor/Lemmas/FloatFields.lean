/-
  Field-level views of the value semantics `val16/val32/val64` and basic facts used by the
  C12 proofs: a bit pattern assembled from (sign, biased exponent, mantissa) denotes what
  the fields say, and every pattern decomposes into its fields.
-/
import Minicbor.Float

namespace Minicbor

theorem val64_mk (s E M : Nat) (hs : s < 2) (hE : E < 2048) (hM : M < 4503599627370496) :
    val64 (s * 9223372036854775808 + E * 4503599627370496 + M) =
      if E = 2047 then (if M = 0 then .inf (s == 1) else .nan)
      else if E = 0 then .finite (s == 1) M
      else .finite (s == 1) ((4503599627370496 + M) * 2 ^ (E - 1)) := by
  have h1 : (s * 9223372036854775808 + E * 4503599627370496 + M) / 9223372036854775808 % 2 = s := by omega
  have h2 : (s * 9223372036854775808 + E * 4503599627370496 + M) / 4503599627370496 % 2048 = E := by omega
  have h3 : (s * 9223372036854775808 + E * 4503599627370496 + M) % 4503599627370496 = M := by omega
  unfold val64
  simp only [h1, h2, h3, beq_iff_eq]

theorem val32_mk (s E M : Nat) (hs : s < 2) (hE : E < 256) (hM : M < 8388608) :
    val32 (s * 2147483648 + E * 8388608 + M) =
      if E = 255 then (if M = 0 then .inf (s == 1) else .nan)
      else if E = 0 then .finite (s == 1) (M * 2 ^ 925)
      else .finite (s == 1) ((8388608 + M) * 2 ^ (E + 924)) := by
  have h1 : (s * 2147483648 + E * 8388608 + M) / 2147483648 % 2 = s := by omega
  have h2 : (s * 2147483648 + E * 8388608 + M) / 8388608 % 256 = E := by omega
  have h3 : (s * 2147483648 + E * 8388608 + M) % 8388608 = M := by omega
  unfold val32
  simp only [h1, h2, h3, beq_iff_eq]

theorem val16_mk (s E M : Nat) (hs : s < 2) (hE : E < 32) (hM : M < 1024) :
    val16 (s * 32768 + E * 1024 + M) =
      if E = 31 then (if M = 0 then .inf (s == 1) else .nan)
      else if E = 0 then .finite (s == 1) (M * 2 ^ 1050)
      else .finite (s == 1) ((1024 + M) * 2 ^ (E + 1049)) := by
  have h1 : (s * 32768 + E * 1024 + M) / 32768 % 2 = s := by omega
  have h2 : (s * 32768 + E * 1024 + M) / 1024 % 32 = E := by omega
  have h3 : (s * 32768 + E * 1024 + M) % 1024 = M := by omega
  unfold val16
  simp only [h1, h2, h3, beq_iff_eq]

/-- every 32-bit pattern is (sign, exponent, mantissa). -/
theorem split32 (x : Nat) (hx : x < 4294967296) :
    x = (x / 2147483648) * 2147483648 + (x / 8388608 % 256) * 8388608 + x % 8388608 ∧
    x / 2147483648 < 2 ∧ x / 8388608 % 256 < 256 ∧ x % 8388608 < 8388608 := by omega

theorem split16 (h : Nat) (hh : h < 65536) :
    h = (h / 32768) * 32768 + (h / 1024 % 32) * 1024 + h % 1024 ∧
    h / 32768 < 2 ∧ h / 1024 % 32 < 32 ∧ h % 1024 < 1024 := by omega

end Minicbor
