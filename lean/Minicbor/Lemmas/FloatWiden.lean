/-
  `f64::from(f32)` (model: `f32ToF64`) is exact: the binary64 result denotes the same value
  as the binary32 argument, for every one of the 2^32 patterns.  Real proof by case split on
  the exponent class; subnormals via `Nat.log2`.
-/
import Minicbor.Lemmas.FloatFields

namespace Minicbor

theorem f32ToF64_mk (s e m : Nat) (_hs : s < 2) (he : e < 256) (hm : m < 8388608) :
    f32ToF64 (s * 2147483648 + e * 8388608 + m) =
      if e = 255 then
        (if m = 0 then s * 9223372036854775808 + 0x7FF0000000000000
         else s * 9223372036854775808 + 0x7FF0000000000000 +
           (if m ≥ 4194304 then m * 536870912 else m * 536870912 + 2251799813685248))
      else if e = 0 then
        (if m = 0 then s * 9223372036854775808
         else s * 9223372036854775808 + (Nat.log2 m + 874) * 4503599627370496 +
           (m * 2 ^ (52 - Nat.log2 m) - 4503599627370496))
      else s * 9223372036854775808 + (e + 896) * 4503599627370496 + m * 536870912 := by
  have h1 : (s * 2147483648 + e * 8388608 + m) / 2147483648 = s := by omega
  have h2 : (s * 2147483648 + e * 8388608 + m) / 8388608 % 256 = e := by omega
  have h3 : (s * 2147483648 + e * 8388608 + m) % 8388608 = m := by omega
  unfold f32ToF64
  simp only [h1, h2, h3, beq_iff_eq]

/-- bounds of a positive number in terms of its `log2`. -/
theorem log2_bounds (m : Nat) (hm : m ≠ 0) : 2 ^ Nat.log2 m ≤ m ∧ m < 2 ^ (Nat.log2 m + 1) :=
  ⟨Nat.log2_self_le hm, Nat.lt_log2_self⟩

theorem log2_lt_of_lt (m k : Nat) (hm : m ≠ 0) (h : m < 2 ^ k) : Nat.log2 m < k :=
  (Nat.log2_lt hm).mpr h

theorem widen_fields (s e m : Nat) (hs : s < 2) (he : e < 256) (hm : m < 8388608) :
    val64 (f32ToF64 (s * 2147483648 + e * 8388608 + m)) = val32 (s * 2147483648 + e * 8388608 + m) := by
  rw [f32ToF64_mk s e m hs he hm, val32_mk s e m hs he hm]
  by_cases he255 : e = 255
  · -- infinities and NaNs
    simp only [he255, if_true]
    by_cases hm0 : m = 0
    · simp only [hm0, if_true]
      have := val64_mk s 2047 0 hs (by omega) (by omega)
      simpa using this
    · simp only [hm0, if_false]
      by_cases hq : m ≥ 4194304
      · simp only [hq, if_true]
        have h := val64_mk s 2047 (m * 536870912) hs (by omega) (by omega)
        have e1 : s * 9223372036854775808 + 0x7FF0000000000000 + m * 536870912
            = s * 9223372036854775808 + 2047 * 4503599627370496 + m * 536870912 := by omega
        rw [e1, h]
        have : m * 536870912 ≠ 0 := by omega
        simp [this]
      · simp only [hq, if_false]
        have h := val64_mk s 2047 (m * 536870912 + 2251799813685248) hs (by omega) (by omega)
        have e1 : s * 9223372036854775808 + 0x7FF0000000000000 + (m * 536870912 + 2251799813685248)
            = s * 9223372036854775808 + 2047 * 4503599627370496 + (m * 536870912 + 2251799813685248) := by omega
        rw [e1, h]
        simp
  · simp only [he255, if_false]
    by_cases he0 : e = 0
    · simp only [he0, if_true]
      by_cases hm0 : m = 0
      · simp only [hm0, if_true, Nat.zero_mul]
        have := val64_mk s 0 0 hs (by omega) (by omega)
        simpa using this
      · simp only [hm0, if_false]
        -- subnormal binary32: normalised in binary64
        obtain ⟨hlo, hhi⟩ := log2_bounds m hm0
        have hl : Nat.log2 m < 23 := log2_lt_of_lt m 23 hm0 (by omega)
        generalize Nat.log2 m = l at *
        have hp : 2 ^ l * 2 ^ (52 - l) = 4503599627370496 := by
          rw [← Nat.pow_add]; have : l + (52 - l) = 52 := by omega
          rw [this]
        have hp1 : 2 ^ (l + 1) * 2 ^ (52 - l) = 9007199254740992 := by
          rw [← Nat.pow_add]; have : l + 1 + (52 - l) = 53 := by omega
          rw [this]
        have hpos : 0 < 2 ^ (52 - l) := Nat.pow_pos (by decide)
        have hge : 4503599627370496 ≤ m * 2 ^ (52 - l) := by
          rw [← hp]; exact Nat.mul_le_mul_right _ hlo
        have hlt : m * 2 ^ (52 - l) < 9007199254740992 := by
          rw [← hp1]; exact Nat.mul_lt_mul_of_pos_right hhi hpos
        have h := val64_mk s (l + 874) (m * 2 ^ (52 - l) - 4503599627370496) hs (by omega) (by omega)
        rw [h]
        have c1 : ¬ (l + 874 = 2047) := by omega
        have c2 : ¬ (l + 874 = 0) := by omega
        simp only [c1, c2, if_false]
        have hM : 4503599627370496 + (m * 2 ^ (52 - l) - 4503599627370496) = m * 2 ^ (52 - l) := by omega
        rw [hM, Nat.mul_assoc, ← Nat.pow_add]
        have : 52 - l + (l + 874 - 1) = 925 := by omega
        rw [this]
    · simp only [he0, if_false]
      have h := val64_mk s (e + 896) (m * 536870912) hs (by omega) (by omega)
      rw [h]
      have c1 : ¬ (e + 896 = 2047) := by omega
      have c2 : ¬ (e + 896 = 0) := by omega
      simp only [c1, c2, if_false]
      have hM : 4503599627370496 + m * 536870912 = (8388608 + m) * 2 ^ 29 := by omega
      rw [hM, Nat.mul_assoc, ← Nat.pow_add]
      have : 29 + (e + 896 - 1) = e + 924 := by omega
      rw [this]

/-- **widening is exact** for all 2^32 binary32 patterns. -/
theorem widen_exact_all (x : Nat) (hx : x < 4294967296) : val64 (f32ToF64 x) = val32 x := by
  obtain ⟨h, hs, he, hm⟩ := split32 x hx
  rw [h]
  exact widen_fields _ _ _ hs he hm

end Minicbor
