/-
  What `Decoder::datatype()` answers on the first byte of the encoding of a value of a built-in
  type other than `Option`: it succeeds (the peek of `type_of` on a one-byte negative head finds
  its argument byte) and the answer is never `Type::Null` — so `Option<T>::decode` takes the
  `Some` branch exactly when the encoder wrote a `Some`.
-/
import Minicbor.Lemmas.TypesLeaf

namespace Minicbor
open Dec

theorem Dec.ite_run {α : Type} (c : Prop) [Decidable c] (f g : Dec α) (x : Bytes) :
    (if c then f else g) x = if c then f x else g x := by split <;> rfl

/-- `datatype()` succeeds without moving and does not answer `Null`. -/
def OkNotNull (r : Res CType) (xs : Bytes) : Prop := ∃ ty, r = .ok ty xs ∧ ty ≠ .null

theorem typeOf_nopeek (b : UInt8) (xs : Bytes) (h1 : b.toNat ≠ 0xf6)
    (h2 : ¬ (0x38 ≤ b.toNat ∧ b.toNat ≤ 0x3b)) : OkNotNull (typeOf b xs) xs := by
  unfold typeOf
  simp only [beq_iff_eq, Bool.and_eq_true, decide_eq_true_eq, Bool.or_eq_true]
  repeat rw [Dec.ite_run]
  simp only [Dec.pure_run]
  generalize b.toNat = n at *
  have hp : n ≤ 24 ∨ n = 25 ∨ n = 26 ∨ n = 27 ∨ (28 ≤ n ∧ n ≤ 31) ∨ (32 ≤ n ∧ n ≤ 55) ∨ (60 ≤ n ∧ n ≤ 63) ∨
      (64 ≤ n ∧ n ≤ 91) ∨ (92 ≤ n ∧ n ≤ 94) ∨ n = 95 ∨ (96 ≤ n ∧ n ≤ 123) ∨ (124 ≤ n ∧ n ≤ 126) ∨ n = 127 ∨
      (128 ≤ n ∧ n ≤ 155) ∨ (156 ≤ n ∧ n ≤ 158) ∨ n = 159 ∨ (160 ≤ n ∧ n ≤ 187) ∨ (188 ≤ n ∧ n ≤ 190) ∨ n = 191 ∨
      (192 ≤ n ∧ n ≤ 219) ∨ (220 ≤ n ∧ n ≤ 223) ∨ (224 ≤ n ∧ n ≤ 243) ∨ (244 ≤ n ∧ n ≤ 245) ∨ n = 247 ∨ n = 248 ∨
      n = 249 ∨ n = 250 ∨ n = 251 ∨ (252 ≤ n ∧ n ≤ 254) ∨ n = 255 ∨ 256 ≤ n := by omega
  rcases hp with h|h|h|h|h|h|h|h|h|h|h|h|h|h|h|h|h|h|h|h|h|h|h|h|h|h|h|h|h|h|h
  all_goals
    repeat (first | rw [if_pos (by omega)] | rw [if_neg (by omega)])
    exact ⟨_, rfl, by simp⟩

theorem typeOf_peek (b c : UInt8) (xs : Bytes) (h2 : 0x38 ≤ b.toNat ∧ b.toNat ≤ 0x3b) :
    OkNotNull (typeOf b (b :: c :: xs)) (b :: c :: xs) := by
  unfold typeOf
  simp only [beq_iff_eq, Bool.and_eq_true, decide_eq_true_eq, Bool.or_eq_true]
  repeat rw [Dec.ite_run]
  simp only [Dec.pure_run, Dec.bind_run, Dec.peek]
  generalize b.toNat = n at *
  have hp : n = 56 ∨ n = 57 ∨ n = 58 ∨ n = 59 := by omega
  rcases hp with h|h|h|h
  all_goals
    repeat (first | rw [if_pos (by omega)] | rw [if_neg (by omega)])
    refine ⟨_, rfl, ?_⟩
    split <;> simp

/-- the first byte is not `f6`, and a negative head whose argument is carried in following
    bytes has at least one of them. -/
def startOk : Bytes → Bool
  | [] => false
  | b :: tl => b.toNat != 0xf6 && (!(0x38 ≤ b.toNat && b.toNat ≤ 0x3b) || !tl.isEmpty)

theorem datatype_startOk (bs rest : Bytes) (h : startOk bs = true) :
    OkNotNull (datatype (bs ++ rest)) (bs ++ rest) := by
  cases bs with
  | nil => simp [startOk] at h
  | cons b tl =>
    simp only [startOk, Bool.and_eq_true, bne_iff_ne, ne_eq, Bool.or_eq_true, Bool.not_eq_true',
      Bool.and_eq_false_iff, decide_eq_false_iff_not] at h
    simp only [datatype, List.cons_append, Dec.bind_run, Dec.current_cons]
    by_cases hp : 0x38 ≤ b.toNat ∧ b.toNat ≤ 0x3b
    · cases tl with
      | nil => simp at h; omega
      | cons c tl' => exact typeOf_peek b c (tl' ++ rest) hp
    · exact typeOf_nopeek b _ h.1 hp

theorem startOk_append (a b : Bytes) (h : startOk a = true) : startOk (a ++ b) = true := by
  cases a with
  | nil => simp [startOk] at h
  | cons x tl =>
    simp only [startOk, List.cons_append, Bool.and_eq_true, Bool.or_eq_true] at h ⊢
    refine ⟨h.1, ?_⟩
    rcases h.2 with h2 | h2
    · exact Or.inl h2
    · right; cases tl <;> simp_all

theorem startOk_typeLen (M n : Nat) (hM : M = 64 ∨ M = 96 ∨ M = 128 ∨ M = 160 ∨ M = 192) :
    startOk (Enc.typeLen M n) = true := by
  unfold Enc.typeLen
  (repeat' split) <;> simp [startOk, u8_toNat_mod] <;> omega

theorem startOk_unsigned (n : Nat) :
    startOk (Enc.u8 n) = true ∧ startOk (Enc.u16 n) = true ∧ startOk (Enc.u32 n) = true ∧
    startOk (Enc.u64 n) = true := by
  refine ⟨?_, ?_, ?_, ?_⟩
  · unfold Enc.u8; (repeat' split) <;> simp [startOk, u8_toNat_mod] <;> omega
  · unfold Enc.u16; (repeat' split) <;> simp [startOk, u8_toNat_mod] <;> omega
  · unfold Enc.u32; (repeat' split) <;> simp [startOk, u8_toNat_mod] <;> omega
  · unfold Enc.u64; (repeat' split) <;> simp [startOk, u8_toNat_mod] <;> omega

theorem startOk_negArms (n : Nat) : startOk (Enc.negArms n) = true := by
  unfold Enc.negArms Enc.SIGNED
  (repeat' split) <;> simp [startOk, u8_toNat_mod, be] <;> omega

theorem startOk_intEnc (k : IntKind) (v : Int) : startOk (k.enc v) = true := by
  have hu := startOk_unsigned
  cases k <;> simp only [IntKind.enc]
  · exact (hu _).1
  · exact (hu _).2.1
  · exact (hu _).2.2.1
  · exact (hu _).2.2.2
  · unfold Enc.i8 Enc.SIGNED; split
    · exact (hu _).1
    · simp only []; (repeat' split) <;> simp [startOk, u8_toNat_mod] <;> omega
  · unfold Enc.i16 Enc.SIGNED; split
    · exact (hu _).2.1
    · simp only []; (repeat' split) <;> simp [startOk, u8_toNat_mod, be] <;> omega
  · unfold Enc.i32 Enc.SIGNED; split
    · exact (hu _).2.2.1
    · simp only []; (repeat' split) <;> simp [startOk, u8_toNat_mod, be] <;> omega
  · unfold Enc.i64; split
    · exact (hu _).2.2.2
    · exact startOk_negArms _
  · unfold Enc.int
    split <;> simp <;> first | exact (hu _).2.2.2 | exact startOk_negArms _

/-- **the encoding of a value of a non-`Option` type never makes `datatype()` answer `Null`.** -/
theorem encodeT_startOk (t : Ty) (v : Val) (bs : Bytes) (h : encodeT t v = some bs)
    (hno : ∀ t', t ≠ .opt t') : startOk bs = true := by
  have hA : ∀ n, startOk (Enc.array n) = true := fun n => startOk_typeLen _ n (by simp [Enc.ARRAY])
  have hT : ∀ n, startOk (Enc.tag n) = true := fun n => startOk_typeLen _ n (by simp [Enc.TAGGED])
  have key := (encodeT_ok_induct
    (P1 := fun t _ bs => (∀ t', t ≠ .opt t') → startOk bs = true)
    (P2 := fun _ _ _ _ => True) (P3 := fun _ _ _ => True) (P4 := fun _ _ _ => True)
    (int := fun k v _ _ => startOk_intEnc k v)
    (bool := fun b _ => by cases b <;> decide)
    (char := fun v _ _ _ => (startOk_unsigned _).2.2.1)
    (f32 := fun b _ _ => by simp [Enc.f32, Enc.SIMPLE, startOk, be])
    (f64 := fun b _ _ => by simp [Enc.f64, Enc.SIMPLE, startOk, be])
    (str := fun b _ _ => startOk_append _ _ (startOk_typeLen _ _ (by simp [Enc.TEXT])))
    (bytes := fun b _ => startOk_append _ _ (startOk_typeLen _ _ (by simp [Enc.BYTES])))
    (barr := fun b _ => startOk_append _ _ (startOk_typeLen _ _ (by simp [Enc.BYTES])))
    (cstr := fun b _ _ => startOk_append _ _ (startOk_typeLen _ _ (by simp [Enc.BYTES])))
    (unit := fun _ => hA 0)
    (skipUnit := fun _ => hA 0)
    (optNone := fun t h => absurd rfl (h t))
    (optSome := fun t _ _ _ _ h => absurd rfl (h t))
    (seq := fun _ _ _ _ _ _ => startOk_append _ _ (hA _))
    (arr := fun _ _ _ _ _ _ => startOk_append _ _ (hA _))
    (tup := fun _ _ _ _ _ _ => startOk_append _ _ (hA _))
    (map := fun _ _ _ _ _ _ _ => startOk_append _ _ (startOk_typeLen _ _ (by simp [Enc.MAP])))
    (nz := fun k v _ _ _ => startOk_intEnc k v)
    (tag := fun _ _ _ _ => hT _)
    (tagged := fun _ _ _ _ _ _ _ => startOk_append _ _ (hT _))
    (enum := fun _ _ _ _ _ _ _ _ _ => startOk_append _ _ (startOk_append _ _ (hA _)))
    (fields := fun _ _ _ _ _ _ => startOk_append _ _ (hA _))
    (duration := fun _ _ _ _ _ _ _ => startOk_append _ _ (startOk_append _ _ (hA _)))
    (systime := fun _ _ _ _ _ _ _ => startOk_append _ _ (startOk_append _ _ (hA _)))
    (mapNil := fun _ _ => trivial) (mapCons := fun _ _ _ _ _ _ _ _ _ _ _ _ _ _ => trivial)
    (tupNil := trivial) (tupCons := fun _ _ _ _ _ _ _ _ _ _ => trivial)
    (listNil := fun _ => trivial) (listCons := fun _ _ _ _ _ _ _ _ _ => trivial)).1
  exact key t v bs h hno

end Minicbor
