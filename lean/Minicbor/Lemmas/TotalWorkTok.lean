/-
  C02 infrastructure, part 10: step counts of `Token::decode` and of the `Tokenizer` iterator.
-/
import Minicbor.Lemmas.TotalWorkTy
import Minicbor.Lemmas.TotalTok

namespace Minicbor
namespace Dec

theorem LinC.skipByte : LinC 1 Dec.skipByte := by
  unfold Dec.skipByte; linc

/-- one `Token::decode` call: at most `consumed + 6` primitive steps. -/
theorem LinC.token : LinC 6 Dec.token := by
  unfold Dec.token
  have := LinC.datatype; have := LinC.bool; have := LinC.intAcc; have := LinC.f16
  have := LinC.f32; have := LinC.f64; have := LinC.bytes; have := LinC.str
  have := LinC.tag; have := LinC.simple; have := LinC.array; have := LinC.map
  have := LinC.skipByte
  linc

/-- spelled out: `n ≤ K * (consumed + 1)`. -/
theorem Lin.bound {K : Nat} {m : Dec α} (h : Lin K m) (bs : Bytes) :
    ∃ n, Cost m bs n ∧ ∀ r, (m bs).rest? = some r →
      r.length ≤ bs.length ∧ n ≤ K * (bs.length - r.length + 1) := by
  obtain ⟨n, hc, hb⟩ := h bs
  refine ⟨n, hc, fun r hr => ?_⟩
  obtain ⟨h1, h2⟩ := hb r hr
  refine ⟨h1, ?_⟩
  obtain ⟨d, hd⟩ := Nat.exists_eq_add_of_le h1
  have : bs.length - r.length + 1 = d + 1 := by omega
  rw [this, Nat.mul_add, Nat.mul_one]
  rw [hd, Nat.mul_add] at h2
  omega

end Dec

/-- steps of the `Tokenizer` iterator run to exhaustion: the sum over its `token()` calls. -/
inductive TokenizeCost : Nat → Bytes → Nat → Prop
  | fuel0 (bs : Bytes) : TokenizeCost 0 bs 0
  | more {fuel : Nat} {bs rest : Bytes} {t : Token} {n1 n2 : Nat} (h : Dec.token bs = .ok t rest)
      (h1 : Dec.Cost Dec.token bs n1) (h2 : TokenizeCost fuel rest n2) : TokenizeCost (fuel + 1) bs (n1 + n2)
  | last {fuel : Nat} {bs : Bytes} {n1 : Nat} (h : ∀ t rest, Dec.token bs ≠ .ok t rest)
      (h1 : Dec.Cost Dec.token bs n1) : TokenizeCost (fuel + 1) bs n1

/-- the whole tokenizer run takes at most `7 * len + 6` primitive steps. -/
theorem tokenize_work (fuel : Nat) (bs : Bytes) (h : bs.length < fuel) :
    ∃ n, TokenizeCost fuel bs n ∧ n ≤ 7 * bs.length + 6 := by
  induction fuel generalizing bs with
  | zero => omega
  | succ f ih =>
    obtain ⟨n1, hc1, hb1⟩ := Dec.LinC.token bs
    cases ht : Dec.token bs with
    | ok t rest =>
      have hlen := Dec.Consumes.token bs t rest ht
      obtain ⟨n2, hc2, hb2⟩ := ih rest (by omega)
      have := hb1 rest (by rw [ht]; rfl)
      exact ⟨n1 + n2, TokenizeCost.more ht hc1 hc2, by omega⟩
    | err e rest =>
      have := hb1 rest (by rw [ht]; rfl)
      exact ⟨n1, TokenizeCost.last (by intro t r h; rw [ht] at h; cases h) hc1, by omega⟩
    | panic => exact absurd ht (Dec.NoPanic.token bs)

end Minicbor
