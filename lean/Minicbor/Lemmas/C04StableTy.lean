/-
  C04 infrastructure: stability under extension of the input (Lemmas/C04Stable.lean) for the loop
  combinators of Types.lean and for every built-in `Decode` impl `decodeT t`.

  Consequence (`decodeT_prefix_eoi`): whenever `decodeT t` succeeds on `p ++ q` and has read into
  `q`, it fails with the end-of-input class on `p` alone — for ANY input the type accepts
  (the encoder's own output, wider heads, indefinite-length framings, …).
-/
import Minicbor.Lemmas.C04Stable
import Minicbor.Lemmas.TotalTy

namespace Minicbor.Dec

/-! ### count- and break-driven loops -/

theorem Stable.repeatN {m : Dec α} (hm : Stable m) (n : Nat) : Stable (Dec.repeatN m n) := by
  induction n with
  | zero => unfold Dec.repeatN; exact ExtRel.pure _
  | succ n ih => unfold Dec.repeatN; stable

theorem ExtRel.untilBreak {m : Dec α} (hm : Stable m) (f f' : Nat) (hf : f ≤ f') :
    ExtRel (Dec.untilBreak m f) (Dec.untilBreak m f') := by
  induction f generalizing f' with
  | zero => unfold Dec.untilBreak; exact ExtRel.panic _
  | succ f ih =>
    cases f' with
    | zero => omega
    | succ f' =>
      have ih' := ih f' (by omega)
      unfold Dec.untilBreak
      stable

theorem Stable.arrayIter {m : Dec α} (hm : Stable m) : Stable (Dec.arrayIter m) := by
  unfold Dec.arrayIter
  have := Stable.array
  have := Stable.repeatN hm
  have := Stable.withRemaining 1 (ExtRel.untilBreak hm)
  stable

theorem Stable.pairOf {mk mv : Dec α} (hk : Stable mk) (hv : Stable mv) : Stable (pairOf mk mv) := by
  unfold Dec.pairOf; stable

theorem Stable.mapIter {mk mv : Dec α} (hk : Stable mk) (hv : Stable mv) : Stable (Dec.mapIter mk mv) := by
  rw [mapIter_eq]
  have hp := Stable.pairOf hk hv
  refine ExtRel.bind Stable.map (fun o => ?_)
  split
  · exact ExtRel.bind (Stable.repeatN hp _) (fun _ => ExtRel.pure _)
  · exact Stable.withRemaining 1
      (loop := fun f => Dec.untilBreak (Dec.pairOf mk mv) f >>= fun xs => Pure.pure xs.flatten)
      (fun f f' h => ExtRel.bind (ExtRel.untilBreak hp f f' h) (fun _ => ExtRel.pure _))

/-! ### `[T; N]` -/

theorem ExtRel.arrayNIndef {m : Dec α} (hm : Stable m) (n f f' : Nat) (hf : f ≤ f') (k : Nat) :
    ExtRel (Dec.arrayNIndef m n f k) (Dec.arrayNIndef m n f' k) := by
  induction f generalizing f' k with
  | zero => unfold Dec.arrayNIndef; exact ExtRel.panic _
  | succ f ih =>
    cases f' with
    | zero => omega
    | succ f' =>
      have ih' := fun k => ih f' (by omega) k
      unfold Dec.arrayNIndef
      stable

theorem Stable.arrayN {m : Dec α} (hm : Stable m) (n : Nat) : Stable (Dec.arrayN m n) := by
  unfold Dec.arrayN
  have := Stable.array
  have := Stable.repeatN hm
  have := Stable.withRemaining 1 (fun f f' h => ExtRel.arrayNIndef hm n f f' h 0)
  stable

/-! ### tuples, `decode_fields!`, enums, `Duration` -/

theorem ExtRel.skipUntilBreak (f f' : Nat) (hf : f ≤ f') :
    ExtRel (Dec.skipUntilBreak f) (Dec.skipUntilBreak f') := by
  induction f generalizing f' with
  | zero => unfold Dec.skipUntilBreak; exact ExtRel.panic _
  | succ f ih =>
    cases f' with
    | zero => omega
    | succ f' =>
      have ih' := ih f' (by omega)
      unfold Dec.skipUntilBreak
      have := Stable.datatype
      have := Stable.skip true
      stable

theorem Stable.seqAll {ms : List (Dec α)} (h : ∀ m ∈ ms, Stable m) : Stable (Dec.seqAll ms) := by
  induction ms with
  | nil => unfold Dec.seqAll; exact ExtRel.pure _
  | cons m ms ih =>
    unfold Dec.seqAll
    have := h m (List.mem_cons_self ..)
    have := ih (fun m' hm' => h m' (List.mem_cons_of_mem _ hm'))
    stable

theorem Stable.fieldsDef {ms : List (Dec α)} (h : ∀ m ∈ ms, Stable m) (n : Nat) :
    Stable (Dec.fieldsDef ms n) := by
  induction ms generalizing n with
  | nil =>
    unfold Dec.fieldsDef
    have := Stable.repeatN (Stable.skip true) n
    stable
  | cons m ms ih =>
    have := h m (List.mem_cons_self ..)
    have := ih (fun m' hm' => h m' (List.mem_cons_of_mem _ hm'))
    cases n with
    | zero => unfold Dec.fieldsDef; exact ExtRel.fail _
    | succ n => unfold Dec.fieldsDef; stable

theorem ExtRel.fieldsIndef {ms : List (Dec α)} (h : ∀ m ∈ ms, Stable m) (f f' : Nat) (hf : f ≤ f') :
    ExtRel (Dec.fieldsIndef ms f) (Dec.fieldsIndef ms f') := by
  induction ms with
  | nil =>
    unfold Dec.fieldsIndef
    have := ExtRel.skipUntilBreak f f' hf
    stable
  | cons m ms ih =>
    have := h m (List.mem_cons_self ..)
    have := ih (fun m' hm' => h m' (List.mem_cons_of_mem _ hm'))
    have := Stable.datatype
    have := Stable.skip true
    unfold Dec.fieldsIndef; stable

theorem Stable.fieldsDec {ms : List (Dec α)} (h : ∀ m ∈ ms, Stable m) : Stable (Dec.fieldsDec ms) := by
  unfold Dec.fieldsDec
  have := Stable.array
  have := Stable.fieldsDef h
  have := Stable.withRemaining 1 (ExtRel.fieldsIndef h)
  stable

theorem Stable.pickVariant {ms : List (Dec Val)} (h : ∀ m ∈ ms, Stable m) (i : Nat) :
    Stable (Dec.pickVariant ms i) := by
  unfold Dec.pickVariant
  split
  · rename_i m hm
    have := h m (List.mem_of_getElem? hm)
    stable
  · exact ExtRel.fail _

theorem durFields_stable : ∀ m ∈ [Dec.intAcc IntTy.u64, Dec.intAcc IntTy.u32], Stable m := by
  intro m hm; simp at hm; rcases hm with rfl | rfl <;> exact Stable.intAcc _

theorem Stable.durOk (sys : Bool) (l : List Int) : Stable (Dec.durOk sys l) := by
  unfold Dec.durOk; stable

theorem Stable.decodeDuration (sys : Bool) : Stable (Dec.decodeDuration sys) := by
  rw [decodeDuration_eq]
  exact ExtRel.bind (Stable.fieldsDec durFields_stable) (Stable.durOk sys)

/-! ### every built-in `Decode` impl -/

mutual
theorem decodeT_stable : (t : Ty) → Stable (decodeT t)
  | .int k => by unfold Minicbor.decodeT; have := Stable.intAcc; stable
  | .bool => by unfold Minicbor.decodeT; have := Stable.bool; stable
  | .char => by unfold Minicbor.decodeT; have := Stable.char; stable
  | .f32 => by unfold Minicbor.decodeT; have := Stable.f32; stable
  | .f64 => by unfold Minicbor.decodeT; have := Stable.f64; stable
  | .str => by unfold Minicbor.decodeT; have := Stable.str; stable
  | .bytes => by unfold Minicbor.decodeT; have := Stable.bytes; stable
  | .barr n => by unfold Minicbor.decodeT; have := Stable.bytes; stable
  | .cstr => by unfold Minicbor.decodeT; have := Stable.bytes; stable
  | .unit => by unfold Minicbor.decodeT; have := Stable.array; stable
  | .skipUnit => by unfold Minicbor.decodeT; have := Stable.skip true; stable
  | .opt t => by
    have ih := decodeT_stable t
    unfold Minicbor.decodeT
    have := Stable.datatype; have := Stable.skip true
    stable
  | .seq t => by
    have ih := Stable.arrayIter (decodeT_stable t)
    unfold Minicbor.decodeT; stable
  | .arr n t => by
    have ih := Stable.arrayN (decodeT_stable t) n
    unfold Minicbor.decodeT; stable
  | .tup ts => by
    have ih := Stable.seqAll (decoders_stable ts)
    unfold Minicbor.decodeT
    have := Stable.array
    stable
  | .map k v => by
    have ih := Stable.mapIter (decodeT_stable k) (decodeT_stable v)
    unfold Minicbor.decodeT; stable
  | .nz k => by unfold Minicbor.decodeT; have := Stable.intAcc; stable
  | .tag => by unfold Minicbor.decodeT; have := Stable.tag; stable
  | .tagged n t => by
    have ih := decodeT_stable t
    unfold Minicbor.decodeT
    have := Stable.tag
    stable
  | .enum ts => by
    have ih := Stable.pickVariant (decoders_stable ts)
    unfold Minicbor.decodeT
    have := Stable.array; have := Stable.intAcc
    stable
  | .fields ts => by
    have ih := Stable.fieldsDec (decoders_stable ts)
    unfold Minicbor.decodeT; stable
  | .duration => by unfold Minicbor.decodeT; exact Stable.decodeDuration _
  | .systime => by unfold Minicbor.decodeT; exact Stable.decodeDuration _
theorem decoders_stable : (ts : List Ty) → ∀ m ∈ decoders ts, Stable m
  | [] => by intro m hm; simp [decoders] at hm
  | t :: ts => by
    intro m hm
    rcases mem_decoders_cons hm with rfl | hm
    · exact decodeT_stable t
    · exact decoders_stable ts m hm
end

/-- **strict prefixes of anything a type accepts fail with end-of-input.** -/
theorem decodeT_prefix_eoi (t : Ty) (p q : Bytes) (v : Val) (r0 : Bytes)
    (h : decodeT t (p ++ q) = .ok v r0) (hlen : r0.length < q.length) :
    ∃ r, decodeT t p = .err .eoi r :=
  (decodeT_stable t).prefix_eoi (decodeT_noPanic t) h hlen

end Minicbor.Dec
