/-
  The diagnostic printer on the token list of a valid wire tree produces the documented
  notation.  `Reach` is "the inner loop gets from one configuration to another" (fuel-free);
  `Shows ts ps` says that an `E::N` on top of any stack, facing the tokens `ts` followed by
  anything, consumes exactly `ts` and writes `ps`.  Sequences (definite / indefinite arrays and
  maps, chunked strings) are handled once, abstractly, over lists of such items.
-/
import Minicbor.Lemmas.DisplayTotal
import Minicbor.Lemmas.DisplaySpec
import Minicbor.Lemmas.TokenSpec

namespace Minicbor
open C11 C19

/-- more fuel does not change a result. -/
theorem displayInner_mono (f : Nat) (st : List E) (it : List TokItem) (out : List Piece)
    (r : List Piece × List TokItem × Bool) (h : displayInner f st it out = some r) (d : Nat) :
    displayInner (f + d) st it out = some r := by
  induction f generalizing st it out with
  | zero => rw [displayInner_zero] at h; cases h
  | succ f ih =>
    rw [show f + 1 + d = (f + d) + 1 by omega]
    cases st with
    | nil => rw [displayInner_nil] at h ⊢; exact h
    | cons e st =>
      rw [displayInner_succ] at h ⊢
      cases hd : dstep e st it with
      | stop em => rw [hd] at h; exact h
      | cont st' it' em =>
        rw [hd] at h
        exact ih st' it' (out ++ em) h

/-- the inner loop gets from configuration `(st, it, out)` to `(st', it', out')`. -/
def Reach (st : List E) (it : List TokItem) (out : List Piece)
    (st' : List E) (it' : List TokItem) (out' : List Piece) : Prop :=
  ∃ k, ∀ f, displayInner (f + k) st it out = displayInner f st' it' out'

theorem Reach.refl (st : List E) (it : List TokItem) (out : List Piece) : Reach st it out st it out :=
  ⟨0, fun _ => rfl⟩

theorem Reach.trans {st1 st2 st3 : List E} {it1 it2 it3 : List TokItem} {o1 o2 o3 : List Piece}
    (h1 : Reach st1 it1 o1 st2 it2 o2) (h2 : Reach st2 it2 o2 st3 it3 o3) :
    Reach st1 it1 o1 st3 it3 o3 := by
  obtain ⟨k1, h1⟩ := h1
  obtain ⟨k2, h2⟩ := h2
  refine ⟨k2 + k1, fun f => ?_⟩
  rw [← Nat.add_assoc, h1, h2]

theorem Reach.step {e : E} {st : List E} {it : List TokItem} {out : List Piece}
    {st' : List E} {it' : List TokItem} {em : List Piece}
    (h : dstep e st it = .cont st' it' em) : Reach (e :: st) it out st' it' (out ++ em) :=
  ⟨1, fun f => by rw [displayInner_succ, h]; rfl⟩

theorem Reach.out_eq {st : List E} {it : List TokItem} {out : List Piece}
    {st' : List E} {it' : List TokItem} {o o' : List Piece}
    (h : Reach st it out st' it' o) (e : o = o') : Reach st it out st' it' o' := by
  subst e; exact h

/-- same, with the emitted pieces already appended in the shape the caller wants. -/
theorem Reach.step' {e : E} {st : List E} {it : List TokItem} {out out' : List Piece}
    {st' : List E} {it' : List TokItem} {em : List Piece}
    (h : dstep e st it = .cont st' it' em) (ho : out' = out ++ em) : Reach (e :: st) it out st' it' out' := by
  subst ho; exact Reach.step h

/-- an `E::N` facing the tokens `ts` consumes exactly them and writes `ps`. -/
def Shows (ts : List Token) (ps : List Piece) : Prop :=
  ∀ st it out, Reach (.N :: st) (ts.map TokItem.tok ++ it) out st it (out ++ ps)

/-- an element of a sequence: its tokens and its notation; `Good`: the printer shows it, and its
    first token exists and is not `break` (so the look-ahead of `E::X` / `E::A(None)` … sees an
    element). -/
abbrev DItem := List Token × List Piece

def Good (x : DItem) : Prop := Shows x.1 x.2 ∧ ∃ t r, x.1 = t :: r ∧ t ≠ Token.brk

def flatToks (xs : List DItem) : List Token := xs.flatMap (·.1)

/-- the next thing in the iterator, after the tokens of a non-empty good sequence or a break, is a
    token. -/
theorem flatToks_cons (x : DItem) (xs : List DItem) : flatToks (x :: xs) = x.1 ++ flatToks xs := by
  simp [flatToks]

/-! ### single steps -/

theorem reach_S (s : String) (st : List E) (it : List TokItem) (out : List Piece) :
    Reach (.S s :: st) it out st it (out ++ [.lit s]) := Reach.step rfl

/-- a token that `E::N` prints with its own `Display`. -/
def Token.plain : Token → Bool
  | .array _ | .map _ | .beginArray | .beginMap | .beginBytes | .beginString | .tag _ => false
  | _ => true

theorem shows_plain (t : Token) (h : Token.plain t = true) : Shows [t] t.render := by
  intro st it out
  apply Reach.step
  cases t <;> first | rfl | simp [Token.plain] at h

/-- look-ahead of `E::X`: a non-`break` token is next. -/
theorem reach_X_tok (s : String) (st : List E) (t : Token) (it : List TokItem) (out : List Piece)
    (ht : t ≠ .brk) : Reach (.X s :: st) (.tok t :: it) out st (.tok t :: it) (out ++ [.lit s]) := by
  apply Reach.step
  cases t <;> first | rfl | exact absurd rfl ht

theorem reach_X_brk (s : String) (st : List E) (it : List TokItem) (out : List Piece) :
    Reach (.X s :: st) (.tok .brk :: it) out st (.tok .brk :: it) out := by
  apply Reach.step' (em := []) rfl; simp

/-- the indefinite markers: on `break` … -/
theorem indefStep_brk (msg close : String) (more st : List E) (it : List TokItem) :
    indefStep msg close more st (.tok .brk :: it) = .cont st it [.lit close] := rfl

/-- … and on any other token. -/
theorem indefStep_tok (msg close : String) (more st : List E) (t : Token) (it : List TokItem)
    (ht : t ≠ .brk) : indefStep msg close more st (.tok t :: it) = .cont (more ++ st) (.tok t :: it) [] := by
  cases t <;> first | rfl | exact absurd rfl ht

/-! ### sequences -/

theorem map_tok_append (a b : List Token) (it : List TokItem) :
    (a ++ b).map TokItem.tok ++ it = a.map TokItem.tok ++ (b.map TokItem.tok ++ it) := by
  simp

/-- after a good item comes its `X ", "`: it writes the separator iff another item follows. -/
theorem reach_X_next (st : List E) (xs : List DItem) (hg : ∀ x ∈ xs, Good x) (it : List TokItem)
    (out : List Piece) :
    Reach (.X ", " :: st) ((flatToks xs ++ [Token.brk]).map TokItem.tok ++ it) out
      st ((flatToks xs ++ [Token.brk]).map TokItem.tok ++ it) (out ++ (if xs.isEmpty then [] else [.lit ", "])) := by
  cases xs with
  | nil => simpa [flatToks] using reach_X_brk ", " st it out
  | cons x xs =>
    obtain ⟨_, t, r, hx, ht⟩ := hg x (by simp)
    rw [flatToks_cons, hx]
    simpa using reach_X_tok ", " st t _ out ht

/-- **an indefinite-length sequence** (array elements or string chunks) under its marker `e`:
    elements separated by `, `, closed by `close` at the `break`. -/
theorem reach_indef_seq (e : E) (msg close : String)
    (he : ∀ st it, dstep e st it = indefStep msg close [.N, .X ", ", e] st it)
    (xs : List DItem) (hg : ∀ x ∈ xs, Good x) (st : List E) (it : List TokItem) (out : List Piece) :
    Reach (e :: st) ((flatToks xs ++ [Token.brk]).map TokItem.tok ++ it) out
      st it (out ++ commaSep (xs.map (·.2)) ++ [.lit close]) := by
  induction xs generalizing out with
  | nil =>
    apply Reach.step' (em := [.lit close])
    · rw [he]; simp [flatToks, indefStep_brk]
    · simp [commaSep]
  | cons x xs ih =>
    obtain ⟨hs, t, r, hx, ht⟩ := hg x (by simp)
    have hg' : ∀ y ∈ xs, Good y := fun y hy => hg y (by simp [hy])
    -- the marker sees a token and schedules `N, X, e`
    have h1 : Reach (e :: st) ((flatToks (x :: xs) ++ [Token.brk]).map TokItem.tok ++ it) out
        (.N :: .X ", " :: e :: st) ((flatToks (x :: xs) ++ [Token.brk]).map TokItem.tok ++ it) out := by
      apply Reach.step' (em := [])
      · rw [he, flatToks_cons, hx]
        simp only [List.cons_append, List.map_cons]
        rw [indefStep_tok _ _ _ _ _ _ ht]; rfl
      · simp
    -- `N` shows the element
    have h2 := hs (.X ", " :: e :: st) ((flatToks xs ++ [Token.brk]).map TokItem.tok ++ it) out
    rw [flatToks_cons, List.append_assoc, map_tok_append] at h1
    -- `X` writes the separator if needed, then the marker again
    have h3 := reach_X_next (e :: st) xs hg' it (out ++ x.2)
    have h4 := ih hg' (out ++ x.2 ++ (if xs.isEmpty then [] else [.lit ", "]))
    have := (h1.trans h2).trans (h3.trans h4)
    rw [flatToks_cons, List.append_assoc, map_tok_append]
    refine this.out_eq ?_
    cases xs with
    | nil => simp [commaSep]
    | cons y ys => simp [commaSep]

/-- **a definite-length array**: `A(Some n)` facing `n` good elements. -/
theorem reach_def_seq (xs : List DItem) (hg : ∀ x ∈ xs, Good x) (st : List E) (it : List TokItem)
    (out : List Piece) :
    Reach (.A (some xs.length) :: st) ((flatToks xs).map TokItem.tok ++ it) out
      st it (out ++ commaSep (xs.map (·.2)) ++ [.lit "]"]) := by
  induction xs generalizing out with
  | nil =>
    apply Reach.step' (em := [.lit "]"]) rfl
    simp [commaSep, flatToks]
  | cons x xs ih =>
    obtain ⟨hs, _⟩ := hg x (by simp)
    have hg' : ∀ y ∈ xs, Good y := fun y hy => hg y (by simp [hy])
    rw [flatToks_cons, map_tok_append]
    cases xs with
    | nil =>
      have h1 : Reach (.A (some 1) :: st) (x.1.map TokItem.tok ++ ((flatToks []).map TokItem.tok ++ it)) out
          (.N :: .A (some 0) :: st) (x.1.map TokItem.tok ++ ((flatToks []).map TokItem.tok ++ it)) out :=
        Reach.step' (em := []) rfl (by simp)
      have h2 := hs (.A (some 0) :: st) ((flatToks []).map TokItem.tok ++ it) out
      have h3 := ih hg' (out ++ x.2)
      have := (h1.trans h2).trans h3
      exact this.out_eq (by simp [commaSep])
    | cons y ys =>
      have h1 : Reach (.A (some (ys.length + 2)) :: st)
          (x.1.map TokItem.tok ++ ((flatToks (y :: ys)).map TokItem.tok ++ it)) out
          (.N :: .S ", " :: .A (some (ys.length + 1)) :: st)
          (x.1.map TokItem.tok ++ ((flatToks (y :: ys)).map TokItem.tok ++ it)) out :=
        Reach.step' (em := []) rfl (by simp)
      have h2 := hs (.S ", " :: .A (some (ys.length + 1)) :: st) ((flatToks (y :: ys)).map TokItem.tok ++ it) out
      have h3 := reach_S ", " (.A (some (ys.length + 1)) :: st) ((flatToks (y :: ys)).map TokItem.tok ++ it) (out ++ x.2)
      have h4 := ih hg' (out ++ x.2 ++ [.lit ", "])
      have := ((h1.trans h2).trans h3).trans h4
      exact this.out_eq (by simp [commaSep])

/-- key and value under an `N, S ": ", N` prefix. -/
theorem reach_kv (k v : DItem) (hk : Good k) (hv : Good v) (st : List E) (it : List TokItem)
    (out : List Piece) :
    Reach (.N :: .S ": " :: .N :: st) (k.1.map TokItem.tok ++ (v.1.map TokItem.tok ++ it)) out
      st it (out ++ k.2 ++ [.lit ": "] ++ v.2) := by
  have h1 := hk.1 (.S ": " :: .N :: st) (v.1.map TokItem.tok ++ it) out
  have h2 := reach_S ": " (.N :: st) (v.1.map TokItem.tok ++ it) (out ++ k.2)
  have h3 := hv.1 st it (out ++ k.2 ++ [.lit ": "])
  exact (h1.trans h2).trans h3

/-- **a definite-length map**: `M(Some n)` facing `2n` good items. -/
theorem reach_def_map (n : Nat) (xs : List DItem) (hlen : xs.length = 2 * n) (hg : ∀ x ∈ xs, Good x)
    (st : List E) (it : List TokItem) (out : List Piece) :
    Reach (.M (some n) :: st) ((flatToks xs).map TokItem.tok ++ it) out
      st it (out ++ kvSep (xs.map (·.2)) ++ [.lit "}"]) := by
  induction n generalizing xs out with
  | zero =>
    have : xs = [] := List.eq_nil_of_length_eq_zero (by omega)
    subst this
    apply Reach.step' (em := [.lit "}"]) rfl
    simp [kvSep, flatToks]
  | succ n ih =>
    match xs, hlen with
    | k :: v :: rest, hlen =>
      have hk := hg k (by simp)
      have hv := hg v (by simp)
      have hg' : ∀ y ∈ rest, Good y := fun y hy => hg y (by simp [hy])
      have hl' : rest.length = 2 * n := by simp only [List.length_cons] at hlen; omega
      rw [flatToks_cons, flatToks_cons, map_tok_append, map_tok_append]
      cases n with
      | zero =>
        have : rest = [] := List.eq_nil_of_length_eq_zero (by omega)
        subst this
        have h1 : Reach (.M (some 1) :: st)
            (k.1.map TokItem.tok ++ (v.1.map TokItem.tok ++ ((flatToks []).map TokItem.tok ++ it))) out
            (.N :: .S ": " :: .N :: .M (some 0) :: st)
            (k.1.map TokItem.tok ++ (v.1.map TokItem.tok ++ ((flatToks []).map TokItem.tok ++ it))) out :=
          Reach.step' (em := []) rfl (by simp)
        have h2 := reach_kv k v hk hv (.M (some 0) :: st) ((flatToks []).map TokItem.tok ++ it) out
        have h3 := ih [] rfl (by simp) (out ++ k.2 ++ [.lit ": "] ++ v.2)
        have := (h1.trans h2).trans h3
        exact this.out_eq (by simp [kvSep])
      | succ m =>
        have h1 : Reach (.M (some (m + 2)) :: st)
            (k.1.map TokItem.tok ++ (v.1.map TokItem.tok ++ ((flatToks rest).map TokItem.tok ++ it))) out
            (.N :: .S ": " :: .N :: .S ", " :: .M (some (m + 1)) :: st)
            (k.1.map TokItem.tok ++ (v.1.map TokItem.tok ++ ((flatToks rest).map TokItem.tok ++ it))) out :=
          Reach.step' (em := []) rfl (by simp)
        have h2 := reach_kv k v hk hv (.S ", " :: .M (some (m + 1)) :: st) ((flatToks rest).map TokItem.tok ++ it) out
        have h3 := reach_S ", " (.M (some (m + 1)) :: st) ((flatToks rest).map TokItem.tok ++ it)
          (out ++ k.2 ++ [.lit ": "] ++ v.2)
        have h4 := ih rest hl' hg' (out ++ k.2 ++ [.lit ": "] ++ v.2 ++ [.lit ", "])
        have := ((h1.trans h2).trans h3).trans h4
        refine this.out_eq ?_
        match rest, hl' with
        | a :: b :: r, _ => simp [kvSep]

/-- **an indefinite-length map**: `M(None)` facing an even number of good items and a `break`. -/
theorem reach_indef_map (n : Nat) (xs : List DItem) (hlen : xs.length = 2 * n) (hg : ∀ x ∈ xs, Good x)
    (st : List E) (it : List TokItem) (out : List Piece) :
    Reach (.M none :: st) ((flatToks xs ++ [Token.brk]).map TokItem.tok ++ it) out
      st it (out ++ kvSep (xs.map (·.2)) ++ [.lit "}"]) := by
  induction n generalizing xs out with
  | zero =>
    have : xs = [] := List.eq_nil_of_length_eq_zero (by omega)
    subst this
    apply Reach.step' (em := [.lit "}"])
    · simp [flatToks, dstep, indefStep_brk]
    · simp [kvSep]
  | succ n ih =>
    match xs, hlen with
    | k :: v :: rest, hlen =>
      have hk := hg k (by simp)
      have hv := hg v (by simp)
      have hg' : ∀ y ∈ rest, Good y := fun y hy => hg y (by simp [hy])
      have hl' : rest.length = 2 * n := by simp only [List.length_cons] at hlen; omega
      obtain ⟨_, t, r, hx, ht⟩ := hk
      have h1 : Reach (.M none :: st) ((flatToks (k :: v :: rest) ++ [Token.brk]).map TokItem.tok ++ it) out
          (.N :: .S ": " :: .N :: .X ", " :: .M none :: st)
          ((flatToks (k :: v :: rest) ++ [Token.brk]).map TokItem.tok ++ it) out := by
        apply Reach.step' (em := [])
        · rw [flatToks_cons, hx]
          simp only [List.cons_append, List.map_cons, dstep]
          rw [indefStep_tok _ _ _ _ _ _ ht]; rfl
        · simp
      rw [flatToks_cons, flatToks_cons, List.append_assoc, List.append_assoc, map_tok_append, map_tok_append] at h1 ⊢
      have h2 := reach_kv k v (hg k (by simp)) hv (.X ", " :: .M none :: st)
        ((flatToks rest ++ [Token.brk]).map TokItem.tok ++ it) out
      have h3 := reach_X_next (.M none :: st) rest hg' it (out ++ k.2 ++ [.lit ": "] ++ v.2)
      have h4 := ih rest hl' hg' (out ++ k.2 ++ [.lit ": "] ++ v.2 ++ (if rest.isEmpty then [] else [.lit ", "]))
      have := ((h1.trans h2).trans h3).trans h4
      refine this.out_eq ?_
      match rest, hl' with
      | [], _ => simp [kvSep]
      | [a], h => simp only [List.length_cons, List.length_nil] at h; omega
      | a :: b :: r, _ => simp [kvSep]

end Minicbor
