/-
  Two facts about `Encoder::f16` (model: `f32ToF16`, the `half` crate's `f16::from_f32`) for EVERY
  `f32` argument — not only the half-representable ones:
  * the result is a 16-bit pattern (so `f9 hh hh` is a well-formed half float), and
  * it is never a signalling NaN (the conversion sets the quiet bit), i.e. it is fixed by `quiet16`.
-/
import Minicbor.Lemmas.TokenHalf
import Minicbor.Lemmas.FloatWiden

namespace Minicbor

theorem f32ToF16_lt (x : Nat) (hx : x < 4294967296) : f32ToF16 x < 65536 := by
  have hs : x / 2147483648 < 2 := by omega
  have hm : x % 8388608 / 8192 < 1024 := by omega
  have hm' : x % 8388608 < 8388608 := by omega
  unfold f32ToF16
  simp only [beq_iff_eq, Bool.and_eq_true, bne_iff_ne, Bool.or_eq_true]
  generalize x / 2147483648 = s at *
  generalize x / 8388608 % 256 = e at *
  generalize x % 8388608 = m at *
  split
  · split
    · omega
    · split <;> omega
  · split
    · omega
    · split
      · split
        · omega
        · have h14 : 2 ^ 14 ≤ 2 ^ (126 - e) := Nat.pow_le_pow_right (by omega) (by omega)
          have : (m + 8388608) / 2 ^ (126 - e) < 1024 := by
            rw [Nat.div_lt_iff_lt_mul (Nat.pow_pos (by omega))]
            have : (2:Nat)^14 = 16384 := by decide
            omega
          split <;> omega
      · split <;> omega

/-- `half::f16::from_f32` never produces a signalling NaN. -/
theorem f32ToF16_quiet (x : Nat) (hx : x < 4294967296) : C11.quiet16 (f32ToF16 x) = f32ToF16 x := by
  apply C11.quiet16_of_not_snan
  have hs : x / 2147483648 < 2 := by omega
  have hm : x % 8388608 / 8192 < 1024 := by omega
  have hm' : x % 8388608 < 8388608 := by omega
  unfold f32ToF16
  simp only [beq_iff_eq, Bool.and_eq_true, bne_iff_ne, Bool.or_eq_true]
  generalize x / 2147483648 = s at *
  generalize x / 8388608 % 256 = e at *
  generalize x % 8388608 = m at *
  split
  · split
    · omega
    · split <;> omega
  · split
    · omega
    · split
      · split
        · omega
        · have h14 : 2 ^ 14 ≤ 2 ^ (126 - e) := Nat.pow_le_pow_right (by omega) (by omega)
          have : (m + 8388608) / 2 ^ (126 - e) < 1024 := by
            rw [Nat.div_lt_iff_lt_mul (Nat.pow_pos (by omega))]
            have : (2:Nat)^14 = 16384 := by decide
            omega
          generalize (m + 8388608) / 2 ^ (126 - e) = hm at *
          split <;> omega
      · split <;> omega

/-- a half widened to `f32` is a 32-bit pattern. -/
theorem f16ToF32_lt32 (h : Nat) (hh : h < 65536) : f16ToF32 h < 4294967296 := by
  unfold f16ToF32
  have hs : h / 32768 < 2 := by omega
  simp only [beq_iff_eq, Bool.and_eq_true]
  split
  · omega
  · split
    · split
      · omega
      · split <;> omega
    · split
      · rename_i h0 _ he0
        have hm0 : h % 1024 ≠ 0 := by omega
        obtain ⟨hlo, hhi⟩ := log2_bounds (h % 1024) hm0
        have hl : Nat.log2 (h % 1024) < 10 := log2_lt_of_lt _ 10 hm0 (by omega)
        generalize Nat.log2 (h % 1024) = l at *
        have hp1 : 2 ^ (l + 1) * 2 ^ (23 - l) = 16777216 := by
          rw [← Nat.pow_add, show l + 1 + (23 - l) = 24 by omega]
        have hlt : h % 1024 * 2 ^ (23 - l) < 16777216 := by
          rw [← hp1]; exact Nat.mul_lt_mul_of_pos_right hhi (Nat.pow_pos (by decide))
        omega
      · omega

end Minicbor
