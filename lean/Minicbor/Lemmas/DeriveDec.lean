/-
  Helper lemmas for C09 / C10: what the combinators of the generated `Decode` impl do on the
  bytes the generated `Encode` impl wrote (tag checks, `Option`, `Vec`, the nil-aware codec, the
  slot loops of both encodings, the final `nil()` / `missing_value` resolution).
-/
import Minicbor.Thm.C08
import Minicbor.Lemmas.TypesStart

namespace Minicbor.Derive

/-- a definite wrapper has no end marker to read. -/
theorem wrapperEnd_false_run (r : Bytes) : wrapperEnd false r = .ok () r := rfl

/-- … so after a definite wrapper the enum decoder's result is the variant's. -/
theorem wrapperEnd_false_bind {α : Type} (m : Dec α) (bs : Bytes) :
    (do let v ← m; wrapperEnd false; pure v : Dec α) bs = m bs := by
  simp only [Dec.bind_run, wrapperEnd_false_run, Dec.pure_run]
  cases m bs <;> rfl
open Minicbor.Dec

/-! ### leaves -/

def IntK.kind : IntK → IntKind
  | .u8 => .u8 | .u16 => .u16 | .u32 => .u32 | .u64 => .u64
  | .i8 => .i8 | .i16 => .i16 | .i32 => .i32 | .i64 => .i64

theorem IntK.kind_ty (k : IntK) : k.kind.ty = k.ty := by cases k <;> rfl
theorem IntK.kind_enc (k : IntK) (v : Int) : k.kind.enc v = k.enc v := by cases k <;> rfl
theorem IntK.kind_inRange (k : IntK) (v : Int) : k.kind.inRange v = k.inRange v := by
  unfold IntKind.inRange IntK.inRange; rw [IntK.kind_ty]

theorem int_rt (k : IntK) (v : Int) (rest : Bytes) (h : k.inRange v = true) :
    intAcc k.ty (k.enc v ++ rest) = .ok v rest := by
  have := intAcc_enc k.kind v rest (by rw [IntK.kind_inRange]; exact h)
  rwa [IntK.kind_ty, IntK.kind_enc] at this

theorem tagCheck_rt (t : Option Nat) (rest : Bytes) (h : tagOk t = true) :
    tagCheck t (tagBytes t ++ rest) = .ok () rest := by
  cases t with
  | none => rfl
  | some n =>
    have hn : n < 18446744073709551616 := of_decide_eq_true h
    simp [tagCheck, tagBytes, Dec.bind_run, tag_enc n rest hn]

theorem datatype_null (rest : Bytes) : Dec.datatype (Enc.null ++ rest) = .ok .null (Enc.null ++ rest) := by
  have e : Enc.null ++ rest = 0xf6 :: rest := rfl
  rw [e]; rfl

theorem optionDec_none (dec : Dec Val) (rest : Bytes) : optionDec dec (Enc.null ++ rest) = .ok .none rest := by
  simp [optionDec, Dec.bind_run, datatype_null, skip_null]

theorem optionDec_some (dec : Dec Val) (bs rest : Bytes) (v : Val) (hs : startOk bs = true)
    (hd : dec (bs ++ rest) = .ok v rest) : optionDec dec (bs ++ rest) = .ok (.some v) rest := by
  obtain ⟨ty, h1, h2⟩ := datatype_startOk bs rest hs
  simp [optionDec, Dec.bind_run, h1, h2, hd]

theorem startOk_u32 (n : Nat) (h : n ≠ 0) : startOk (Enc.u32 n) = true := by
  unfold Enc.u32
  split
  · have : (Minicbor.u8 n).toNat = n := u8_toNat (by omega)
    simp [startOk, this]; omega
  · split
    · simp [startOk]
    · split <;> simp [startOk]

/-- the nil-aware custom codec reads back what it wrote. -/
theorem nilu_rt (i : Int) (rest : Bytes) (h : IntK.u32.inRange i = true) (dec : Dec Val) (enc : Val → Bytes) :
    decWith .nilu dec (encWith .nilu enc (.int i) ++ rest) = .ok (.int i) rest := by
  simp [IntK.inRange, IntK.ty, IntTy.lo, IntTy.hi, IntTy.u32] at h
  have h2 := of_decide_eq_true h.2
  by_cases h0 : i = 0
  · subst h0
    simp [decWith, encWith, Dec.bind_run, datatype_null, skip_null]
  · have hne : (i == 0) = false := by simpa using h0
    have hn : i.toNat ≠ 0 := by omega
    obtain ⟨ty, h1, h3⟩ := datatype_startOk (Enc.u32 i.toNat) rest (startOk_u32 _ hn)
    have hi := intAcc_u32 i.toNat rest (by omega)
    have hcast : ((i.toNat : Nat) : Int) = i := by omega
    simp [decWith, encWith, hne, Dec.bind_run, h1, h3, hi, hcast]

/-! ### `Vec<T>` -/

theorem vecLoopN_rt (dec : Dec Val) (enc : Val → Bytes) (f : Val → Val) :
    ∀ (vs : List Val) (rest : Bytes), (∀ v ∈ vs, ∀ r, dec (enc v ++ r) = .ok (f v) r) →
      vecLoopN dec vs.length ((vs.map enc).flatten ++ rest) = .ok (vs.map f) rest
  | [], rest, _ => by simp [vecLoopN]
  | v :: vs, rest, h => by
    have ih := vecLoopN_rt dec enc f vs rest (fun w hw r => h w (by simp [hw]) r)
    simp only [List.length_cons, vecLoopN, List.map_cons, List.flatten_cons, List.append_assoc, Dec.bind_run,
      h v (by simp), ih]
    rfl

theorem vecDec_rt (dec : Dec Val) (enc : Val → Bytes) (f : Val → Val) (vs : List Val) (rest : Bytes)
    (hl : vs.length < 18446744073709551616) (h : ∀ v ∈ vs, ∀ r, dec (enc v ++ r) = .ok (f v) r) :
    vecDec dec (Enc.array vs.length ++ (vs.map enc).flatten ++ rest) = .ok (.list (vs.map f)) rest := by
  simp only [vecDec, Dec.bind_run, List.append_assoc, array_enc vs.length _ hl, vecLoopN_rt dec enc f vs rest h]
  rfl

/-! ### slots -/

/-- the slots agree with "the fields whose index satisfies `P` have been decoded". -/
def Inv (P : Nat → Bool) : Fields → List Val → Slots → Prop
  | (a, t) :: fs, v :: vs, s :: ss =>
      (a.skip = false → s = if P a.idx then some (withDefaults t v) else slotInit t) ∧ Inv P fs vs ss
  | [], [], [] => True
  | _, _, _ => False

/-- every (non-skipped) field's decoder reads back the field's encoder. -/
def FieldsRT : Fields → List Val → Prop
  | (a, t) :: fs, v :: vs =>
      (a.skip = false → ∀ r, decWith a.codec (decTy t) (encWith a.codec (encTy t) v ++ r) = .ok (withDefaults t v) r)
        ∧ FieldsRT fs vs
  | _, _ => True

theorem inv_init : ∀ (fs : Fields) (vs : List Val), hasFields fs vs = true →
    Inv (fun _ => false) fs vs ((decFields fs).map (·.init))
  | [], [], _ => trivial
  | (a, t) :: fs, v :: vs, h => by
    simp only [hasFields, Bool.and_eq_true] at h
    exact ⟨fun _ => by simp, inv_init fs vs h.2⟩
  | [], _ :: _, h => by simp [hasFields] at h
  | _ :: _, [], h => by simp [hasFields] at h

theorem inv_miss (P : Nat → Bool) (c : Nat) : ∀ (fs : Fields) (vs : List Val) (ss : Slots),
    c ∉ liveIdxs fs → Inv P fs vs ss → Inv (fun i => P i || i == c) fs vs ss
  | [], [], [], _, _ => trivial
  | (a, t) :: fs, v :: vs, s :: ss, hc, h => by
    refine ⟨?_, inv_miss P c fs vs ss (by
      intro hm; apply hc
      cases hs : a.skip <;> simp [liveIdxs, hs, hm]) h.2⟩
    intro hs
    have hne : a.idx ≠ c := by
      intro e; apply hc; simp [liveIdxs, hs, e]
    have : (a.idx == c) = false := by simpa using hne
    simp [this, h.1 hs]
  | [], [], _ :: _, _, h => by simp [Inv] at h
  | [], _ :: _, _, _, h => by simp [Inv] at h
  | _ :: _, [], _, _, h => by simp [Inv] at h
  | _ :: _, _ :: _, [], _, h => by simp [Inv] at h

theorem liveIdxs_eq_idxs : ∀ (fs : Fields) (vs : List Val), hasFields fs vs = true →
    idxs (encFields fs vs) = liveIdxs fs
  | [], [], _ => by simp [encFields, liveIdxs, idxs]
  | (a, t) :: fs, v :: vs, h => by
    simp only [hasFields, Bool.and_eq_true] at h
    have ih := liveIdxs_eq_idxs fs vs h.2
    cases hs : a.skip <;> simp [encFields, liveIdxs, hs] <;> simpa [idxs] using ih
  | [], _ :: _, h => by simp [hasFields] at h
  | _ :: _, [], h => by simp [hasFields] at h

/-- a miss: no field has index `c`; the item is skipped and the slots stay. -/
theorem runAt_miss (c : Nat) (bs r : Bytes) (hskip : Dec.skip true (bs ++ r) = .ok () r) :
    ∀ (fs : Fields) (ss : Slots), c ∉ liveIdxs fs → runAt (decFields fs) ss c (bs ++ r) = .ok ss r
  | [], ss, _ => by
    cases ss <;> simp [decFields, runAt, Dec.bind_run, hskip]
  | (a, t) :: fs, [], _ => by simp [decFields, runAt, Dec.bind_run, hskip]
  | (a, t) :: fs, s :: ss, hc => by
    have ih := runAt_miss c bs r hskip fs ss (by
      intro hm; apply hc
      cases hs : a.skip <;> simp [liveIdxs, hs, hm])
    have hcond : (!a.skip && a.idx == c) = false := by
      cases hs : a.skip
      · have : a.idx ≠ c := by intro e; apply hc; simp [liveIdxs, hs, e]
        simpa using this
      · simp
    simp [decFields, runAt, hcond, Dec.bind_run, ih]

/-! ### the bare-`null` test of a tagged nil-capable field (K5 repair) -/

theorem startOk_tag (n : Nat) (h : n < 18446744073709551616) : startOk (Enc.tag n) = true := by
  unfold Enc.tag Enc.typeLen
  split
  · have : (Minicbor.u8 (Enc.TAGGED + n)).toNat = Enc.TAGGED + n := u8_toNat (by simp [Enc.TAGGED]; omega)
    simp [startOk, Enc.TAGGED]; omega
  · split
    · simp [startOk, Enc.TAGGED]
    · split
      · simp [startOk, Enc.TAGGED]
      · split <;> simp [startOk, Enc.TAGGED]

/-- at anything that does not start like `null` the test is negative and consumes nothing. -/
theorem bareNull_start (fd : FDec) (bs rest : Bytes) (h : startOk bs = true) :
    bareNull fd (bs ++ rest) = .ok false (bs ++ rest) := by
  unfold bareNull
  split
  · obtain ⟨ty, h1, h2⟩ := datatype_startOk bs rest h
    have : (ty == CType.null) = false := by simpa using h2
    simp [Dec.bind_run, h1, this]
  · rfl

theorem bareNull_untagged (fd : FDec) (bs : Bytes) (h : fd.a.tag = none) : bareNull fd bs = .ok false bs := by
  simp [bareNull, h]

/-- in front of the field's own tag the test is negative. -/
theorem bareNull_tagBytes (fd : FDec) (X : Bytes) (htag : tagOk fd.a.tag = true) :
    bareNull fd (tagBytes fd.a.tag ++ X) = .ok false (tagBytes fd.a.tag ++ X) := by
  cases ht : fd.a.tag with
  | none => exact bareNull_untagged fd _ ht
  | some n =>
    rw [ht] at htag
    exact bareNull_start fd (Enc.tag n) X (startOk_tag n (of_decide_eq_true htag))

/-- with a negative test the action is the one before the repair. -/
theorem action_of_not_bare (fd : FDec) (bs : Bytes) (h : bareNull fd bs = .ok false bs) :
    action fd bs = (do tagCheck fd.a.tag; catchVariant fd bs : Dec (Option Val)) bs := by
  unfold action
  rw [Dec.bind_run, h]
  rfl

/-- a tagged nil-capable field at a bare `null`: the item is skipped, the slot keeps its content. -/
theorem action_bare_null (fd : FDec) (r : Bytes) (ht : fd.a.tag.isSome = true) (hs : fd.swallow = true) :
    action fd (Enc.null ++ r) = .ok none r := by
  unfold action
  have hb : bareNull fd (Enc.null ++ r) = .ok true (Enc.null ++ r) := by
    simp [bareNull, ht, Dec.bind_run, datatype_null, hs]
  rw [Dec.bind_run, hb]
  simp [Dec.bind_run, skip_null]

theorem action_rt (fd : FDec) (v' : Val) (bs r : Bytes) (htag : tagOk fd.a.tag = true)
    (hd : fd.dec (bs ++ r) = .ok v' r) :
    action fd (tagBytes fd.a.tag ++ (bs ++ r)) = .ok (some v') r := by
  rw [action_of_not_bare fd _ (bareNull_tagBytes fd _ htag)]
  rw [Dec.bind_run, tagCheck_rt _ _ htag]
  simp only [catchVariant, hd]

/-- a hit: the field with the index is decoded into its slot. -/
theorem runAt_hit (P : Nat → Bool) (r : Bytes) : ∀ (fs : Fields) (vs : List Val) (ss : Slots),
    acceptedFields fs = true → (liveIdxs fs).Nodup → FieldsRT fs vs → Inv P fs vs ss →
    ∀ p ∈ encFields fs vs, ∃ ss', runAt (decFields fs) ss p.idx (tagBytes p.tag ++ (p.body ++ r)) = .ok ss' r
      ∧ Inv (fun i => P i || i == p.idx) fs vs ss'
  | [], vs, ss, _, _, _, _ => by
    intro p hp; cases vs <;> simp [encFields] at hp
  | (a, t) :: fs, [], ss, _, _, _, _ => by
    intro p hp; simp [encFields] at hp
  | (a, t) :: fs, v :: vs, [], _, _, _, hinv => by simp [Inv] at hinv
  | (a, t) :: fs, v :: vs, s :: ss, hacc, hnd, hrt, hinv => by
    intro p hp
    simp only [acceptedFields, Bool.and_eq_true] at hacc
    cases hs : a.skip
    · -- a live field
      have hnd' : a.idx ∉ liveIdxs fs ∧ (liveIdxs fs).Nodup := by
        simpa [liveIdxs, hs] using hnd
      simp only [encFields, hs, Bool.false_eq_true, if_false, List.mem_cons] at hp
      rcases hp with rfl | hp
      · -- this field
        have htag : tagOk a.tag = true := by
          have := hacc.1.1
          simp only [fieldAttrOk, hs, Bool.false_eq_true, if_false, Bool.and_eq_true] at this
          exact this.1.1.2
        have hact : action ⟨a, slotInit t, nilOf a t, defaultOf t, swallows a t, decWith a.codec (decTy t)⟩
            (tagBytes a.tag ++ (encWith a.codec (encTy t) v ++ r)) = .ok (some (withDefaults t v)) r :=
          action_rt ⟨a, slotInit t, nilOf a t, defaultOf t, swallows a t, decWith a.codec (decTy t)⟩
            (withDefaults t v) (encWith a.codec (encTy t) v) r htag (hrt.1 hs r)
        refine ⟨some (withDefaults t v) :: ss, ?_, ?_⟩
        · simp only [decFields, runAt, hs, Bool.not_false, Bool.true_and, beq_self_eq_true, if_true]
          rw [Dec.bind_run, hact]
          rfl
        · refine ⟨fun _ => by simp, inv_miss P a.idx fs vs ss hnd'.1 hinv.2⟩
      · -- a later field
        have hpi : p.idx ∈ liveIdxs fs := by
          have hh : hasFields fs vs = true ∨ True := Or.inr trivial
          -- membership of the index among the live indices (no typing needed)
          clear hh
          have : ∀ (fs : Fields) (vs : List Val) (p : Piece Bytes), p ∈ encFields fs vs → p.idx ∈ liveIdxs fs := by
            intro fs
            induction fs with
            | nil => intro vs p hp; cases vs <;> simp [encFields] at hp
            | cons f fs ih =>
              intro vs p hp
              obtain ⟨fa, ft⟩ := f
              cases vs with
              | nil => simp [encFields] at hp
              | cons w ws =>
                cases hfs : fa.skip
                · simp only [encFields, hfs, Bool.false_eq_true, if_false, List.mem_cons] at hp
                  rcases hp with rfl | hp
                  · simp [liveIdxs, hfs]
                  · simp [liveIdxs, hfs, ih ws p hp]
                · simp only [encFields, hfs, if_true] at hp
                  simp [liveIdxs, hfs, ih ws p hp]
          exact this fs vs p hp
        have hne : a.idx ≠ p.idx := by intro e; rw [e] at hnd'; exact hnd'.1 hpi
        have hcond : (!a.skip && a.idx == p.idx) = false := by simp [hs, hne]
        obtain ⟨ss', h1, h2⟩ := runAt_hit P r fs vs ss hacc.2 hnd'.2 hrt.2 hinv.2 p hp
        refine ⟨s :: ss', ?_, ?_⟩
        · simp only [decFields, runAt, hcond, Bool.false_eq_true, if_false]
          rw [Dec.bind_run, h1]
          rfl
        · refine ⟨fun _ => ?_, h2⟩
          have : (a.idx == p.idx) = false := by simpa using hne
          simp [this, hinv.1 hs]
    · -- a skipped field
      simp only [encFields, hs, if_true] at hp
      have hnd' : (liveIdxs fs).Nodup := by simpa [liveIdxs, hs] using hnd
      obtain ⟨ss', h1, h2⟩ := runAt_hit P r fs vs ss hacc.2 hnd' hrt.2 hinv.2 p hp
      refine ⟨s :: ss', ?_, ?_⟩
      · simp only [decFields, runAt, hs, Bool.not_true, Bool.false_and, Bool.false_eq_true, if_false]
        rw [Dec.bind_run, h1]
        rfl
      · exact ⟨fun h => by simp [hs] at h, h2⟩

/-! ### array encoding: the definite loop on the documented cells -/

theorem inv_congr {P Q : Nat → Bool} (h : ∀ i, P i = Q i) (fs : Fields) (vs : List Val) (ss : Slots) :
    Inv P fs vs ss → Inv Q fs vs ss := by
  have : P = Q := funext h
  rw [this]; exact id

theorem mem_encFields_of_spec (fs : Fields) (vs : List Val) (hacc : acceptedFields fs = true)
    (hty : hasFields fs vs = true) (q : Piece Item) (hq : q ∈ specFields fs vs) : toBytes q ∈ encFields fs vs := by
  rw [C08.fields_spec fs vs hacc hty]
  exact List.mem_map.2 ⟨q, hq, rfl⟩

/-- one iteration of the array loop on the documented cell `c`. -/
theorem runAt_cell (P : Nat → Bool) (c : Nat) (r : Bytes) (fs : Fields) (vs : List Val) (ss : Slots)
    (hacc : acceptedFields fs = true) (hnd : (liveIdxs fs).Nodup) (hty : hasFields fs vs = true)
    (hrt : FieldsRT fs vs) (hinv : Inv P fs vs ss) :
    ∃ ss', runAt (decFields fs) ss c (encPref (cellAt (specFields fs vs) c) ++ r) = .ok ss' r
      ∧ Inv (fun i => P i || i == c) fs vs ss' := by
  unfold cellAt
  cases hf : (specFields fs vs).find? (fun p => p.idx == c) with
  | some q =>
    have hq : q ∈ specFields fs vs := List.mem_of_find?_eq_some hf
    have hqc : q.idx = c := by simpa using List.find?_some hf
    have hok := C08.specFields_ok fs vs hacc q hq
    obtain ⟨ss', h1, h2⟩ := runAt_hit P r fs vs ss hacc hnd hrt hinv (toBytes q) (mem_encFields_of_spec fs vs hacc hty q hq)
    refine ⟨ss', ?_, ?_⟩
    · simp only [encPref_tagI _ _ hok.2, List.append_assoc]
      simpa [hqc] using h1
    · simpa [hqc] using h2
  | none =>
    have hc : c ∉ liveIdxs fs := by
      rw [← C08.specFields_idxs fs vs hty]
      intro hm
      obtain ⟨q, hq, hqc⟩ := List.mem_map.1 hm
      have := List.find?_eq_none.1 hf q hq
      simp [hqc] at this
    exact ⟨ss, runAt_miss c Enc.null r (skip_null r) fs ss hc, inv_miss P c fs vs ss hc hinv⟩

theorem arrLoopN_cells (rest : Bytes) (fs : Fields) (vs : List Val)
    (hacc : acceptedFields fs = true) (hnd : (liveIdxs fs).Nodup) (hty : hasFields fs vs = true)
    (hrt : FieldsRT fs vs) : ∀ (n c : Nat) (ss : Slots) (P : Nat → Bool), Inv P fs vs ss →
    ∃ ss', arrLoopN (decFields fs) n c ss
        (encPrefs ((List.range' c n).map (cellAt (specFields fs vs))) ++ rest) = .ok ss' rest
      ∧ Inv (fun i => P i || (decide (c ≤ i) && decide (i < c + n))) fs vs ss'
  | 0, c, ss, P, hinv => by
    refine ⟨ss, by simp [arrLoopN], inv_congr (fun i => ?_) fs vs ss hinv⟩
    have : ¬ (c ≤ i ∧ i < c + 0) := by omega
    simp; omega
  | n + 1, c, ss, P, hinv => by
    obtain ⟨ss1, h1, hi1⟩ := runAt_cell P c
      (encPrefs ((List.range' (c + 1) n).map (cellAt (specFields fs vs))) ++ rest) fs vs ss hacc hnd hty hrt hinv
    obtain ⟨ss2, h2, hi2⟩ := arrLoopN_cells rest fs vs hacc hnd hty hrt n (c + 1) ss1 _ hi1
    refine ⟨ss2, ?_, inv_congr (fun i => ?_) fs vs ss2 hi2⟩
    · rw [List.range'_succ, List.map_cons, encPrefs_cons, List.append_assoc]
      simp only [arrLoopN]
      rw [Dec.bind_run, h1]
      exact h2
    · by_cases h : i = c
      · subst h; simp
      · have : (i == c) = false := by simpa using h
        simp only [this, Bool.or_false]
        congr 1
        by_cases h1 : c + 1 ≤ i <;> by_cases h2 : i < c + 1 + n <;> simp [h1, h2] <;> omega

/-! ### map encoding: the definite loop on the entries the statements wrote -/

def presentIdx (S : List (Piece Bytes)) (i : Nat) : Bool := S.any (fun p => !p.nil && p.idx == i)

theorem mapLoopN_stmts (rest : Bytes) (fs : Fields) (vs : List Val)
    (hacc : acceptedFields fs = true) (hnd : (liveIdxs fs).Nodup) (hrt : FieldsRT fs vs) :
    ∀ (S : List (Piece Bytes)) (ss : Slots) (P : Nat → Bool),
    (∀ p ∈ S, p ∈ encFields fs vs ∧ p.idx < U32) → Inv P fs vs ss →
    ∃ ss', mapLoopN (decFields fs) (countPresent S) ss (mapStmts S ++ rest) = .ok ss' rest
      ∧ Inv (fun i => P i || presentIdx S i) fs vs ss'
  | [], ss, P, _, hinv => by
    refine ⟨ss, by simp [countPresent, mapLoopN, mapStmts], inv_congr (fun i => by simp [presentIdx]) fs vs ss hinv⟩
  | p :: S, ss, P, hS, hinv => by
    have hp := hS p (by simp)
    cases hn : p.nil
    · -- a present field: one iteration
      obtain ⟨ss1, h1, hi1⟩ := runAt_hit P (mapStmts S ++ rest) fs vs ss hacc hnd hrt hinv p hp.1
      obtain ⟨ss2, h2, hi2⟩ := mapLoopN_stmts rest fs vs hacc hnd hrt S ss1 _ (fun q hq => hS q (by simp [hq])) hi1
      refine ⟨ss2, ?_, inv_congr (fun i => ?_) fs vs ss2 hi2⟩
      · have hk := intAcc_u32 p.idx (tagBytes p.tag ++ (p.body ++ (mapStmts S ++ rest))) (by simpa [U32] using hp.2)
        simp only [countPresent, hn, Bool.false_eq_true, if_false, mapStmts, Bool.not_false, if_true, List.append_assoc]
        rw [show 1 + countPresent S = countPresent S + 1 by omega]
        simp only [mapLoopN]
        rw [Dec.bind_run, hk]
        simp only [Int.toNat_natCast]
        rw [Dec.bind_run, h1]
        exact h2
      · simp only [presentIdx, List.any_cons, hn, Bool.not_false, Bool.true_and]
        have e : (i == p.idx) = (p.idx == i) := by
          by_cases h : i = p.idx
          · subst h; rfl
          · have h1 : (i == p.idx) = false := beq_false_of_ne h
            have h2 : (p.idx == i) = false := beq_false_of_ne (fun e => h e.symm)
            rw [h1, h2]
        rw [e, Bool.or_assoc]
    · -- an absent field: nothing on the wire
      obtain ⟨ss2, h2, hi2⟩ := mapLoopN_stmts rest fs vs hacc hnd hrt S ss P (fun q hq => hS q (by simp [hq])) hinv
      refine ⟨ss2, ?_, inv_congr (fun i => ?_) fs vs ss2 hi2⟩
      · simpa [countPresent, hn, mapStmts] using h2
      · simp [presentIdx, hn]

/-! ### the initialiser -/

theorem nil_resolves (a : FAttr) (t : FTy) (v : Val) (hc : codecOk a.codec t = true) (hv : hasTy t v = true)
    (hn : isNilField a t v = true) :
    (match slotInit t with
     | some x => some x
     | none => nilOf a t) = some (withDefaults t v) := by
  unfold isNilField at hn
  cases hcd : a.codec <;> rw [hcd] at hn hc <;> simp only at hn
  · -- default codec: an `Option` that is `None`
    simp only [Bool.and_eq_true] at hn
    cases t <;> simp [FTy.isOption] at hn
    cases v <;> simp [Val.isNone] at hn
    simp [slotInit, FTy.isOption, withDefaults]
  · simp only [Bool.and_eq_true] at hn
    cases t <;> simp [FTy.isOption] at hn
    cases v <;> simp [Val.isNone] at hn
    simp [slotInit, FTy.isOption, withDefaults]
  · have ht : t = .int .u32 := by
      cases t <;> simp [codecOk] at hc
      rename_i k; cases k <;> simp [codecOk] at hc; rfl
    subst ht
    cases v <;> simp [hasTy] at hv
    rename_i i
    have : i = 0 := by simpa [Val.isZero] using hn
    subst this
    simp [slotInit, FTy.isOption, nilOf, hcd, withDefaults]

theorem resolve_inv (P : Nat → Bool) : ∀ (fs : Fields) (vs : List Val) (ss : Slots),
    acceptedFields fs = true → hasFields fs vs = true → Inv P fs vs ss →
    (∀ p ∈ encFields fs vs, P p.idx = true ∨ p.nil = true) →
    ∀ r, resolve (decFields fs) ss r = .ok (defaultsFields fs vs) r
  | [], [], [], _, _, _, _, r => by simp [decFields, resolve, defaultsFields]
  | (a, t) :: fs, v :: vs, s :: ss, hacc, hty, hinv, hP, r => by
    simp only [acceptedFields, Bool.and_eq_true] at hacc
    simp only [hasFields, Bool.and_eq_true] at hty
    cases hs : a.skip
    · have hP' : ∀ p ∈ encFields fs vs, P p.idx = true ∨ p.nil = true := by
        intro p hp; exact hP p (by simp [encFields, hs, hp])
      have ih := resolve_inv P fs vs ss hacc.2 hty.2 hinv.2 hP' r
      have hhead := hP ⟨a.idx, a.tag, isNilField a t v, encWith a.codec (encTy t) v⟩ (by simp [encFields, hs])
      have hslot := hinv.1 hs
      have hc : codecOk a.codec t = true := by
        have := hacc.1.1
        simp only [fieldAttrOk, hs, Bool.false_eq_true, if_false, Bool.and_eq_true] at this
        exact this.1.2
      have hval : slotValue ⟨a, slotInit t, nilOf a t, defaultOf t, swallows a t, decWith a.codec (decTy t)⟩ s r
          = .ok (withDefaults t v) r := by
        simp only [slotValue, hs, Bool.false_eq_true, if_false]
        by_cases hp : P a.idx = true
        · rw [hslot, hp]; rfl
        · have hp' : P a.idx = false := by simpa using hp
          have hn : isNilField a t v = true := by
            rcases hhead with h | h
            · exact absurd h hp
            · exact h
          have := nil_resolves a t v hc hty.1 hn
          rw [hslot, hp']
          simp only [Bool.false_eq_true, if_false]
          cases hsi : slotInit t with
          | some x => rw [hsi] at this; simp at this; subst this; rfl
          | none =>
            rw [hsi] at this; simp only at this
            rw [this]; rfl
      simp only [decFields, resolve, defaultsFields, hs, Bool.false_eq_true, if_false]
      rw [Dec.bind_run, hval]
      simp only []
      rw [Dec.bind_run, ih]
      rfl
    · have hP' : ∀ p ∈ encFields fs vs, P p.idx = true ∨ p.nil = true := by
        intro p hp; exact hP p (by simp [encFields, hs, hp])
      have ih := resolve_inv P fs vs ss hacc.2 hty.2 hinv.2 hP' r
      have hval : slotValue ⟨a, slotInit t, nilOf a t, defaultOf t, swallows a t, decWith a.codec (decTy t)⟩ s r
          = .ok (defaultOf t) r := by
        simp only [slotValue, hs, if_true]; rfl
      simp only [decFields, resolve, defaultsFields, hs, if_true]
      rw [Dec.bind_run, hval]
      simp only []
      rw [Dec.bind_run, ih]
      rfl
  | [], [], _ :: _, _, _, h, _, _ => by simp [Inv] at h
  | [], _ :: _, _, _, h, _, _, _ => by simp [hasFields] at h
  | _ :: _, [], _, _, h, _, _, _ => by simp [hasFields] at h
  | _ :: _, _ :: _, [], _, _, h, _, _ => by simp [Inv] at h

/-! ### a whole struct / variant body -/

theorem mem_encFields_idx (fs : Fields) (vs : List Val) (hacc : acceptedFields fs = true)
    (hty : hasFields fs vs = true) (p : Piece Bytes) (hp : p ∈ encFields fs vs) : p.idx < U32 := by
  rw [C08.fields_spec fs vs hacc hty] at hp
  obtain ⟨q, hq, rfl⟩ := List.mem_map.1 hp
  exact (C08.specFields_ok fs vs hacc q hq).1

/-- the statements generated by `gen_statements` plus the initialiser read back what
    `encode_fields` wrote: every field its value, skipped fields their default. -/
theorem fieldsDec_rt (enc : Encoding) (fs : Fields) (vs : List Val) (rest : Bytes)
    (hacc : acceptedFields fs = true) (hnd : (liveIdxs fs).Nodup) (hty : hasFields fs vs = true)
    (hrt : FieldsRT fs vs) :
    fieldsDec enc (decFields fs) (frame enc (encFields fs vs) ++ rest) = .ok (defaultsFields fs vs) rest := by
  have hinit := inv_init fs vs hty
  cases enc with
  | array =>
    have nd : (idxs (specFields fs vs)).Nodup := by rw [C08.specFields_idxs fs vs hty]; exact hnd
    rw [C08.fields_spec fs vs hacc hty, frame_spec .array _ nd (C08.specFields_ok fs vs hacc)]
    simp only [specBody, specArray_eq]
    cases hm : maxPresent (specFields fs vs) with
    | none =>
      have hnil := maxPresent_none hm
      have hres := resolve_inv (fun _ => false) fs vs _ hacc hty hinit (by
        intro p hp
        rw [C08.fields_spec fs vs hacc hty] at hp
        obtain ⟨q, hq, rfl⟩ := List.mem_map.1 hp
        exact Or.inr (hnil q hq)) rest
      have e : encPref (Item.array []) ++ rest = Enc.array 0 ++ rest := rfl
      simp only [e, fieldsDec, statements, Dec.bind_run, array_enc 0 rest (by decide), arrLoopN, Dec.pure_run, hres]
    | some m =>
      simp only
      obtain ⟨q, hq, hqm, _⟩ := maxPresent_mem hm
      have hm32 : m < U32 := by rw [← hqm]; exact (C08.specFields_ok fs vs hacc q hq).1
      rw [encPref_array _ (by simp [U64, U32] at *; omega)]
      simp only [List.length_map, List.length_range, List.range_eq_range', List.length_range']
      obtain ⟨ss', h1, hi1⟩ := arrLoopN_cells rest fs vs hacc hnd hty hrt (m + 1) 0 _ _ hinit
      have hres := resolve_inv _ fs vs ss' hacc hty hi1 (by
        intro p hp
        rw [C08.fields_spec fs vs hacc hty] at hp
        obtain ⟨q', hq', rfl⟩ := List.mem_map.1 hp
        cases hn : q'.nil
        · left
          have := maxPresent_ge hm q' hq' hn
          simp; omega
        · right; exact hn) rest
      simp only [fieldsDec, statements, Dec.bind_run, List.append_assoc,
        array_enc (m + 1) _ (by simp [U32] at hm32; omega), h1, hres]
  | map =>
    have hperm := sortP_perm (encFields fs vs)
    have hS : ∀ p ∈ sortP (encFields fs vs), p ∈ encFields fs vs ∧ p.idx < U32 := by
      intro p hp
      have := hperm.mem_iff.1 hp
      exact ⟨this, mem_encFields_idx fs vs hacc hty p this⟩
    obtain ⟨ss', h1, hi1⟩ := mapLoopN_stmts rest fs vs hacc hnd hrt (sortP (encFields fs vs)) _ _ hS hinit
    have hres := resolve_inv _ fs vs ss' hacc hty hi1 (by
      intro p hp
      cases hn : p.nil
      · left
        have hp' := hperm.mem_iff.2 hp
        simp only [Bool.false_or, presentIdx, List.any_eq_true]
        exact ⟨p, hp', by simp [hn]⟩
      · right; rfl) rest
    have nd' : (idxs (encFields fs vs)).Nodup := by rw [liveIdxs_eq_idxs fs vs hty]; exact hnd
    have hlen : (sortP (encFields fs vs)).length ≤ U32 :=
      idx_lt_length_of_asc _ U32 (sortP_asc _ nd') (fun p hp => (hS p hp).2)
    have hcp := countPresent_le (sortP (encFields fs vs))
    simp only [frame, frameMap, maxFields_eq, fieldsDec, statements, Dec.bind_run, List.append_assoc,
      map_enc _ _ (show countPresent (sortP (encFields fs vs)) < 18446744073709551616 by simp [U32] at hlen; omega), h1, hres]

end Minicbor.Derive
