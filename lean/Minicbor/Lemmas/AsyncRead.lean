/-
  Helper lemmas for the `AsyncReader` model: the invariant relating the persistent state
  (`state`, `buffer`) and the undelivered bytes to the frame stream, and what one poll does
  in terms of it.  Induction over source scripts of arbitrary length and content.
-/
import Minicbor.Lemmas.FrameIO

namespace Minicbor.Frame

theorem writeAt_length (dst : Bytes) (o : Nat) (bs : Bytes) (h : o + bs.length ≤ dst.length) :
    (writeAt dst o bs).length = dst.length := by
  simp [writeAt]; omega

theorem writeAt_take (dst : Bytes) (o : Nat) (bs : Bytes) (h : o ≤ dst.length) :
    (writeAt dst o bs).take (o + bs.length) = dst.take o ++ bs := by
  unfold writeAt
  apply List.take_left'
  simp; omega

/-- the part of the stream that is stored in the reader: the bytes of the current frame
    received so far (`ReadLen`: the first `o` prefix bytes; `ReadVal`: the prefix and the
    first `o` payload bytes). -/
def pb (r : ARCore) : Bytes :=
  match r.state with
  | .readLen buf o => buf.take o
  | .readVal o => be 4 r.buffer.length ++ r.buffer.take o

/-- the states in which the `loop` asks the stream for more: a prefix with `o < 4` bytes, or a
    payload with `o < len` bytes, `len ≤ max_len`. -/
def Wf (r : ARCore) : Prop :=
  r.buffer.length ≤ r.maxLen ∧
  match r.state with
  | .readLen buf o => buf.length = 4 ∧ o < 4
  | .readVal o => o < r.buffer.length ∧ r.buffer.length < 4294967296

/-- the state after `InvalidLen`: the oversized prefix stays in `ReadLen(buf, 4)`. -/
def Stuck (r : ARCore) : Prop :=
  r.buffer.length ≤ r.maxLen ∧
  ∃ len, r.state = .readLen (be 4 len) 4 ∧ len > r.maxLen ∧ len < 4294967296

theorem Wf.init (maxLen : Nat) : Wf ⟨.new, [], maxLen⟩ := by
  simp [Wf, RState.new, zeros]

theorem Wf.fresh (p : Bytes) (maxLen : Nat) (h : p.length ≤ maxLen) : Wf ⟨.new, p, maxLen⟩ := by
  simp [Wf, RState.new, zeros, h]

@[simp] theorem pb_fresh (p : Bytes) (maxLen : Nat) : pb ⟨.new, p, maxLen⟩ = [] := by
  simp [pb, RState.new]

theorem settle_wf (c : Codec α) (r : ARCore) (h : Wf r) : r.settle c = .want r := by
  obtain ⟨_, h⟩ := h
  unfold ARCore.settle
  cases hs : r.state with
  | readLen buf o => rw [hs] at h; simp; omega
  | readVal o => rw [hs] at h; simp; omega

theorem settle_stuck (c : Codec α) (r : ARCore) (h : Stuck r) :
    r.settle (α := α) c = .ret (.error .invalidLen) r := by
  obtain ⟨_, len, hs, hbig, h32⟩ := h
  unfold ARCore.settle
  rw [hs]
  simp [fromBe_be4 _ h32, hbig]

theorem req_pos (r : ARCore) (h : Wf r) : 0 < r.req := by
  obtain ⟨_, h⟩ := h
  unfold ARCore.req
  cases hs : r.state with
  | readLen buf o => rw [hs] at h; simp; omega
  | readVal o => rw [hs] at h; simp; omega

/-- outcome of `settle` after `bs` arrived. -/
inductive Arrived (c : Codec α) (r : ARCore) (bs : Bytes) : Settle α → Prop
  | more (r' : ARCore) : Wf r' → r'.maxLen = r.maxLen → pb r' = pb r ++ bs → Arrived c r bs (.want r')
  | frame (p : Bytes) : pb r ++ bs = frame p → p.length ≤ r.maxLen → p.length < 4294967296 →
      Arrived c r bs (.ret (decodeRes c p) ⟨.new, p, r.maxLen⟩)
  | oversize (len : Nat) (r' : ARCore) : len > r.maxLen → len < 4294967296 → pb r ++ bs = be 4 len →
      Stuck r' → r'.maxLen = r.maxLen → r'.buffer = r.buffer →
      Arrived c r bs (.ret (.error .invalidLen) r')

theorem absorb_settle (c : Codec α) (r : ARCore) (bs : Bytes) (hw : Wf r)
    (_hne : 0 < bs.length) (hle : bs.length ≤ r.req) : Arrived c r bs ((r.absorb bs).settle c) := by
  obtain ⟨state, buffer, maxLen⟩ := r
  obtain ⟨hbuf, hw⟩ := hw
  cases state with
  | readLen buf o =>
    simp only at hw hbuf
    obtain ⟨hl, ho⟩ := hw
    simp only [ARCore.req] at hle
    by_cases h4 : o + bs.length < 4
    · have : ¬ 4 ≤ o + bs.length := by omega
      simp only [ARCore.absorb, ARCore.settle, this, if_false]
      refine .more _ ⟨hbuf, ?_, h4⟩ rfl ?_
      · rw [writeAt_length _ _ _ (by omega)]; exact hl
      · simp only [pb]; exact writeAt_take _ _ _ (by omega)
    · have h4' : o + bs.length = 4 := by omega
      have hfull : writeAt buf o bs = buf.take o ++ bs := by
        have h1 := writeAt_take buf o bs (by omega)
        have h2 : (writeAt buf o bs).length = 4 := by rw [writeAt_length _ _ _ (by omega)]; exact hl
        rw [h4', List.take_of_length_le (by omega)] at h1
        exact h1
      have hlen4 : (buf.take o ++ bs).length = 4 := by simp; omega
      have hbe : be 4 (fromBe (buf.take o ++ bs)) = buf.take o ++ bs := by
        have := be_fromBe (buf.take o ++ bs); rwa [hlen4] at this
      have h32 : fromBe (buf.take o ++ bs) < 4294967296 := by
        have := fromBe_lt (buf.take o ++ bs); rw [hlen4] at this; simpa using this
      have hge : 4 ≤ o + bs.length := by omega
      simp only [ARCore.absorb, ARCore.settle, hge, if_true, hfull]
      by_cases hbig : fromBe (buf.take o ++ bs) > maxLen
      · simp only [hbig, if_true]
        refine .oversize (fromBe (buf.take o ++ bs)) _ hbig h32 (by simp only [pb]; exact hbe.symm) ?_ rfl rfl
        exact ⟨hbuf, fromBe (buf.take o ++ bs), by simp only [hbe, h4'], hbig, h32⟩
      · simp only [hbig, if_false]
        by_cases h0 : fromBe (buf.take o ++ bs) = 0
        · simp only [h0, if_true, zeros, List.replicate_zero]
          have : pb ⟨.readLen buf o, buffer, maxLen⟩ ++ bs = frame [] := by
            simp only [pb, frame, List.length_nil, List.append_nil]; rw [← h0, hbe]
          exact .frame [] this (by simp) (by simp)
        · simp only [h0, if_false]
          refine .more _ ⟨by simp; omega, by simp; omega, by simpa using h32⟩ rfl ?_
          simp only [pb, zeros_length, List.take_zero, List.append_nil]
          exact hbe
  | readVal o =>
    simp only at hw hbuf
    obtain ⟨ho, h32⟩ := hw
    simp only [ARCore.req] at hle
    have hlen : (writeAt buffer o bs).length = buffer.length := writeAt_length _ _ _ (by omega)
    have htake := writeAt_take buffer o bs (by omega)
    by_cases hd : o + bs.length < buffer.length
    · have : ¬ o + bs.length ≥ (writeAt buffer o bs).length := by omega
      simp only [ARCore.absorb, ARCore.settle, this, if_false]
      refine .more _ ⟨by simp only [hlen]; exact hbuf, by simp only [hlen]; exact hd, by simp only [hlen]; exact h32⟩ rfl ?_
      simp only [pb, hlen, htake, List.append_assoc]
    · have hge : o + bs.length ≥ (writeAt buffer o bs).length := by omega
      simp only [ARCore.absorb, ARCore.settle, hge, if_true]
      have hfull : writeAt buffer o bs = buffer.take o ++ bs := by
        rw [← htake, List.take_of_length_le (by omega)]
      have : pb ⟨.readVal o, buffer, maxLen⟩ ++ bs = frame (writeAt buffer o bs) := by
        have hl2 : (List.take o buffer ++ bs).length = buffer.length := by rw [← hfull]; exact hlen
        simp only [pb, frame, hfull, hl2, List.append_assoc]
      exact .frame _ this (by rw [hlen]; exact hbuf) (by rw [hlen]; exact h32)

/-- answers of an async source that neither ends nor misreports: positive transfers,
    `Pending`, transient errors (`Other`, `Interrupted`) — in any order and number. -/
def AOk : List Ev → Prop
  | [] => True
  | .io k :: sc => 0 < k ∧ AOk sc
  | .zero :: _ => False
  | _ :: sc => AOk sc

theorem AOk.tail {ev : Ev} {sc : List Ev} (h : AOk (ev :: sc)) : AOk sc := by
  cases ev <;> simp [AOk] at h ⊢ <;> first | exact h | exact h.2

/-- What one poll does, in terms of `S`, the part of the stream not yet returned to the caller
    (`S = pb state ++ undelivered bytes`), for *every* source behaviour.  `E` says that the
    source was well-behaved (`AOk`); only then does an end-of-stream answer mean that the
    stream is exhausted. -/
inductive Step (c : Codec α) (S : Bytes) (ml : Nat) (E : Prop) :
    Poll (Except FErr (Option α)) → ARCore → Bytes → Prop
  /-- nothing is returned: the same `S` is still represented (progress may have been stored) -/
  | stay (x : Poll (Except FErr (Option α))) (r' : ARCore) (b' : Bytes) :
      Wf r' → r'.maxLen = ml → pb r' ++ b' = S →
      (x = .pending ∨ x = .ready (.error (.io .other)) ∨ x = .ready (.error (.io .interrupted)) ∨
        (x = .ready r'.eofRes ∧ (E → b' = []))) → Step c S ml E x r' b'
  /-- the first frame of `S` is complete: its decoding is returned, `S` shrinks by the frame -/
  | frame (p rest : Bytes) : S = frame p ++ rest → p.length ≤ ml → p.length < 4294967296 →
      Step c S ml E (.ready (decodeRes c p)) ⟨.new, p, ml⟩ rest
  /-- the first frame of `S` claims more than `max_len` -/
  | oversize (len : Nat) (rest : Bytes) (r' : ARCore) : len > ml → len < 4294967296 →
      S = be 4 len ++ rest → Stuck r' → r'.maxLen = ml →
      Step c S ml E (.ready (.error .invalidLen)) r' rest

theorem Step.mono {c : Codec α} {S : Bytes} {ml : Nat} {E E' : Prop} (hEE : E' → E)
    {x : Poll (Except FErr (Option α))} {r' : ARCore} {b' : Bytes} (hs : Step c S ml E x r' b') :
    Step c S ml E' x r' b' := by
  cases hs with
  | stay x r' b' h1 h2 h3 h4 =>
    refine .stay x r' b' h1 h2 h3 ?_
    rcases h4 with h | h | h | ⟨h, he⟩
    · exact .inl h
    · exact .inr (.inl h)
    · exact .inr (.inr (.inl h))
    · exact .inr (.inr (.inr ⟨h, fun e => he (hEE e)⟩))
  | frame p _ h1 h2 h3 => exact .frame p _ h1 h2 h3
  | oversize len _ r' h1 h2 h3 h4 h5 => exact .oversize len _ r' h1 h2 h3 h4 h5

/-- **the poll loop, for every script**. -/
theorem pollLoop_spec (c : Codec α) : ∀ (sc : List Ev) (r : ARCore) (bytes : Bytes), Wf r →
    Step c (pb r ++ bytes) r.maxLen (AOk sc)
      (pollLoop c r bytes sc).1 (pollLoop c r bytes sc).2.1 (pollLoop c r bytes sc).2.2.bytes := by
  intro sc
  induction sc with
  | nil =>
    intro r bytes hw
    exact .stay _ _ _ hw rfl rfl (.inl rfl)
  | cons ev sc ih =>
    intro r bytes hw
    cases ev with
    | pend => exact .stay _ _ _ hw rfl rfl (.inl rfl)
    | intr => exact .stay _ _ _ hw rfl rfl (.inr (.inr (.inl rfl)))
    | fail => exact .stay _ _ _ hw rfl rfl (.inr (.inl rfl))
    | zero => exact .stay _ _ _ hw rfl rfl (.inr (.inr (.inr ⟨rfl, fun e => absurd e (by simp [AOk])⟩)))
    | io k =>
      have hreq := req_pos r hw
      by_cases hn : min (min k r.req) bytes.length = 0
      · simp only [pollLoop, hn, if_true]
        refine .stay _ _ _ hw rfl rfl (.inr (.inr (.inr ⟨rfl, ?_⟩)))
        intro e
        have hk : 0 < k := e.1
        apply List.eq_nil_of_length_eq_zero
        omega
      · have harr := absorb_settle c r (bytes.take (min (min k r.req) bytes.length)) hw
          (by simp; omega) (by simp; omega)
        have hsplit : bytes = bytes.take (min (min k r.req) bytes.length) ++ bytes.drop (min (min k r.req) bytes.length) :=
          (List.take_append_drop _ _).symm
        generalize hst : (r.absorb (bytes.take (min (min k r.req) bytes.length))).settle c = st at harr
        cases harr with
        | more r' hw' hm hp =>
          simp only [pollLoop, hn, if_false, hst]
          have := ih r' (bytes.drop (min (min k r.req) bytes.length)) hw'
          rw [hp, hm, List.append_assoc, ← hsplit] at this
          exact this.mono AOk.tail
        | frame p hp h1 h2 =>
          simp only [pollLoop, hn, if_false, hst]
          refine .frame p _ ?_ h1 h2
          rw [← hp, List.append_assoc, ← hsplit]
        | oversize len r' h1 h2 hp h3 h4 h5 =>
          simp only [pollLoop, hn, if_false, hst]
          refine .oversize len _ r' h1 h2 ?_ h3 h4
          rw [← hp, List.append_assoc, ← hsplit]

/-! script accounting: what a poll consumes -/

def countP : List Ev → Nat
  | [] => 0
  | .pend :: sc => countP sc + 1
  | _ :: sc => countP sc

def countE : List Ev → Nat
  | [] => 0
  | .fail :: sc => countE sc + 1
  | .intr :: sc => countE sc + 1
  | _ :: sc => countE sc

/-- a result that is a transient I/O error of the stream. -/
def isTransient : Except FErr (Option α) → Bool
  | .error (.io .other) => true
  | .error (.io .interrupted) => true
  | _ => false

def pollCost : Poll (Except FErr (Option α)) → Nat × Nat
  | .pending => (1, 0)
  | .ready x => (0, if isTransient x then 1 else 0)

theorem decodeRes_not_transient (c : Codec α) (p : Bytes) : isTransient (decodeRes c p) = false := by
  unfold decodeRes; cases c.dec p <;> rfl

theorem eofRes_not_transient (r : ARCore) : isTransient (r.eofRes (α := α)) = false := by
  unfold ARCore.eofRes
  cases r.state with
  | readLen buf o => by_cases h : o = 0 <;> simp [h, isTransient]
  | readVal o => rfl

theorem settle_ret_not_transient (c : Codec α) (r r' : ARCore) (x : Except FErr (Option α))
    (h : r.settle c = .ret x r') : isTransient x = false := by
  unfold ARCore.settle at h
  cases hs : r.state with
  | readLen buf o =>
    rw [hs] at h
    simp only at h
    split at h
    · split at h
      · injection h with h1 h2; subst h1; rfl
      · split at h
        · injection h with h1 h2; subst h1; exact decodeRes_not_transient _ _
        · cases h
    · cases h
  | readVal o =>
    rw [hs] at h
    simp only at h
    split at h
    · injection h with h1 h2; subst h1; exact decodeRes_not_transient _ _
    · cases h

/-- a poll never restores script events, and — unless it ran into the end of the script —
    pays one `Pending` event for a `Pending` answer and one error event for a transient error. -/
theorem pollLoop_script (c : Codec α) : ∀ (sc : List Ev) (r : ARCore) (bytes : Bytes),
    ((pollLoop c r bytes sc).2.2.script ≠ [] →
      countP (pollLoop c r bytes sc).2.2.script + (pollCost (pollLoop c r bytes sc).1).1 ≤ countP sc ∧
      countE (pollLoop c r bytes sc).2.2.script + (pollCost (pollLoop c r bytes sc).1).2 ≤ countE sc) ∧
    (sc = [] → (pollLoop c r bytes sc).2.2.script = []) := by
  intro sc
  induction sc with
  | nil => intro r bytes; simp [pollLoop]
  | cons ev sc ih =>
    intro r bytes
    refine ⟨?_, fun h => absurd h (by simp)⟩
    cases ev with
    | pend => simp [pollLoop, countP, countE, pollCost]
    | intr => simp [pollLoop, countP, countE, pollCost, isTransient]
    | fail => simp [pollLoop, countP, countE, pollCost, isTransient]
    | zero => simp [pollLoop, countP, countE, pollCost, eofRes_not_transient]
    | io k =>
      by_cases hn : min (min k r.req) bytes.length = 0
      · simp only [pollLoop, hn, if_true]
        simp [countP, countE, pollCost, eofRes_not_transient]
      · cases hst : (r.absorb (bytes.take (min (min k r.req) bytes.length))).settle c with
        | ret x r' =>
          simp only [pollLoop, hn, if_false, hst]
          simp [countP, countE, pollCost, settle_ret_not_transient c _ _ _ hst]
        | want r' =>
          have := ih r' (bytes.drop (min (min k r.req) bytes.length))
          simp only [pollLoop, hn, if_false, hst, countP, countE]
          exact this.1

theorem pollLoop_aok (c : Codec α) : ∀ (sc : List Ev) (r : ARCore) (bytes : Bytes), AOk sc →
    AOk (pollLoop c r bytes sc).2.2.script := by
  intro sc
  induction sc with
  | nil => intro r bytes _; simp [pollLoop, AOk]
  | cons ev sc ih =>
    intro r bytes h
    have ht := AOk.tail h
    cases ev with
    | pend => exact ht
    | intr => exact ht
    | fail => exact ht
    | zero => exact ht
    | io k =>
      by_cases hn : min (min k r.req) bytes.length = 0
      · simp only [pollLoop, hn, if_true]; exact ht
      · cases hst : (r.absorb (bytes.take (min (min k r.req) bytes.length))).settle c with
        | ret x r' => simp only [pollLoop, hn, if_false, hst]; exact ht
        | want r' => simp only [pollLoop, hn, if_false, hst]; exact ih _ _ ht

/-- two streams that start with a frame and are equal start with the same frame. -/
theorem frame_inj (p q r s : Bytes) (hp : p.length < 4294967296) (hq : q.length < 4294967296)
    (h : frame p ++ r = frame q ++ s) : p = q ∧ r = s := by
  unfold frame at h
  rw [List.append_assoc, List.append_assoc] at h
  have h1 := List.append_inj h (by simp)
  have hl : p.length = q.length := by
    have := congrArg fromBe h1.1
    rwa [fromBe_be4 _ hp, fromBe_be4 _ hq] at this
  exact List.append_inj h1.2 hl

theorem be4_inj (a b : Nat) (r s : Bytes) (ha : a < 4294967296) (hb : b < 4294967296)
    (h : be 4 a ++ r = be 4 b ++ s) : a = b ∧ r = s := by
  have h1 := List.append_inj h (by simp)
  have := congrArg fromBe h1.1
  rw [fromBe_be4 _ ha, fromBe_be4 _ hb] at this
  exact ⟨this, h1.2⟩

end Minicbor.Frame
