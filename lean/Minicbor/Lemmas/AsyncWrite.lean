/-
  Helper lemmas for the `AsyncWriter` model: what the `sync` loop does to the frame in the
  buffer, for every sink script (induction over scripts of arbitrary length and content).
-/
import Minicbor.Lemmas.FrameIO

namespace Minicbor.Frame

theorem take_take_drop (B : Bytes) (o o' : Nat) (h : o ≤ o') :
    B.take o ++ (B.drop o).take (o' - o) = B.take o' := by
  have := List.take_add (l := B) (i := o) (j := o' - o)
  rw [← this]; congr 1; omega

/-- a `sync` pass that has nothing to wait for: offset at (or beyond) the end of the buffer. -/
theorem syncLoop_done (B : Bytes) (ml o : Nat) (out : Bytes) (sc : List Ev) (h : o ≥ B.length) :
    syncLoop ⟨.writeFrom o, B, ml⟩ out sc = (.ready (.ok ()), ⟨.none, B, ml⟩, ⟨out, sc⟩) := by
  cases sc <;> simp [syncLoop, h]

theorem syncLoop_idle (B : Bytes) (ml : Nat) (out : Bytes) (sc : List Ev) :
    syncLoop ⟨.none, B, ml⟩ out sc = (.ready (.ok ()), ⟨.none, B, ml⟩, ⟨out, sc⟩) := by
  cases sc <;> simp [syncLoop]

/-- **The sync loop, for every sink behaviour**: from offset `o` inside the buffer `B` it either
    completes — exactly the rest `B[o..]` was appended to the sink, state `None` — or stops
    (Pending or an I/O error) at an offset `o' ∈ [o, len)` having appended exactly `B[o..o']`;
    the buffer is never modified. -/
theorem syncLoop_spec (B : Bytes) (ml : Nat) : ∀ (sc : List Ev) (o : Nat) (out : Bytes), o < B.length →
    (∃ sc', syncLoop ⟨.writeFrom o, B, ml⟩ out sc =
        (.ready (.ok ()), ⟨.none, B, ml⟩, ⟨out ++ B.drop o, sc'⟩)) ∨
    (∃ x o' sc', syncLoop ⟨.writeFrom o, B, ml⟩ out sc =
        (x, ⟨.writeFrom o', B, ml⟩, ⟨out ++ (B.drop o).take (o' - o), sc'⟩) ∧
      o ≤ o' ∧ o' < B.length ∧ (x = .pending ∨ ∃ k, x = .ready (.error (.io k)))) := by
  intro sc
  induction sc with
  | nil =>
    intro o out h
    have : ¬ o ≥ B.length := by omega
    exact .inr ⟨.pending, o, [], by simp [syncLoop, this], Nat.le_refl _, h, .inl rfl⟩
  | cons ev sc ih =>
    intro o out h
    have hlt : ¬ o ≥ B.length := by omega
    cases ev with
    | pend => exact .inr ⟨.pending, o, sc, by simp [syncLoop, hlt], Nat.le_refl _, h, .inl rfl⟩
    | intr => exact .inr ⟨.ready (.error (.io .interrupted)), o, sc, by simp [syncLoop, hlt], Nat.le_refl _, h, .inr ⟨_, rfl⟩⟩
    | fail => exact .inr ⟨.ready (.error (.io .other)), o, sc, by simp [syncLoop, hlt], Nat.le_refl _, h, .inr ⟨_, rfl⟩⟩
    | zero => exact .inr ⟨.ready (.error (.io .writeZero)), o, sc, by simp [syncLoop, hlt], Nat.le_refl _, h, .inr ⟨_, rfl⟩⟩
    | io k =>
      by_cases hn : min k (B.length - o) = 0
      · refine .inr ⟨.ready (.error (.io .writeZero)), o, sc, ?_, Nat.le_refl _, h, .inr ⟨_, rfl⟩⟩
        rw [syncLoop]
        simp only [hlt, if_false, hn, if_true, Nat.sub_self, List.take_zero, List.append_nil]
      · have hstep : syncLoop ⟨.writeFrom o, B, ml⟩ out (.io k :: sc) =
            syncLoop ⟨.writeFrom (o + min k (B.length - o)), B, ml⟩
              (out ++ (B.drop o).take (min k (B.length - o))) sc := by
          rw [syncLoop]
          simp only [hlt, if_false, hn]
        generalize hnn : min k (B.length - o) = n at *
        have hn1 : n ≤ B.length - o := by omega
        by_cases hend : o + n = B.length
        · left
          refine ⟨sc, ?_⟩
          rw [hstep, syncLoop_done B ml (o + n) _ sc (by omega)]
          have : (B.drop o).take n = B.drop o := by
            apply List.take_of_length_le; simp; omega
          rw [this]
        · rcases ih (o + n) (out ++ (B.drop o).take n) (by omega) with ⟨sc', h1⟩ | ⟨x, o', sc', h1, h2, h3, h4⟩
          · left
            refine ⟨sc', ?_⟩
            rw [hstep, h1, List.append_assoc]
            congr 3
            have := List.take_append_drop n (B.drop o)
            rw [List.drop_drop] at this
            rw [this]
          · right
            refine ⟨x, o', sc', ?_, by omega, h3, h4⟩
            rw [hstep, h1, List.append_assoc]
            congr 3
            have := take_take_drop (B.drop o) n (o' - o) (by omega)
            rw [List.drop_drop] at this
            have e : o' - o - n = o' - (o + n) := by omega
            rw [e] at this
            rw [this]

end Minicbor.Frame
