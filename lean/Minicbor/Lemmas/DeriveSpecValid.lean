/-
  The derived encoding of every well-typed value of an accepted schema is (the bytes of) a
  *valid wire tree*: `encTy t v = encW (prefTree (specTy t v))` (C08) and that tree is valid
  (`spec_valid`).  (The consequences for `skip()` are in DeriveValid.lean, which imports C06.)
-/
import Minicbor.Lemmas.DeriveDec

namespace Minicbor.Derive

/-- the preferred tree of the item is a valid wire tree. -/
abbrev PV (i : Item) : Prop := (prefTree i).valid = true

theorem validAll_prefTrees : ∀ (xs : List Item), (∀ x ∈ xs, PV x) → validAll (prefTrees xs) = true
  | [], _ => rfl
  | x :: xs, h => by
    simp only [prefTrees, validAll, Bool.and_eq_true]
    exact ⟨h x (by simp), validAll_prefTrees xs (fun y hy => h y (by simp [hy]))⟩

theorem pv_array (xs : List Item) (hl : xs.length < U64) (h : ∀ x ∈ xs, PV x) : PV (.array xs) := by
  simp only [PV, prefTree, WItem.valid, Bool.and_eq_true]
  exact ⟨by rw [prefTrees_length]; exact prefWidth_fits _ (by simpa [U64] using hl), validAll_prefTrees xs h⟩

theorem pv_map (kvs : List Item) (hev : kvs.length % 2 = 0) (hl : kvs.length / 2 < U64) (h : ∀ x ∈ kvs, PV x) :
    PV (.map kvs) := by
  simp only [PV, prefTree, WItem.valid, Bool.and_eq_true, prefTrees_length, beq_iff_eq]
  exact ⟨⟨hev, prefWidth_fits _ (by simpa [U64] using hl)⟩, validAll_prefTrees kvs h⟩

theorem pv_tagI (t : Option Nat) (x : Item) (ht : tagOk t = true) (hx : PV x) : PV (tagI t x) := by
  cases t with
  | none => exact hx
  | some n =>
    have hn : n < 18446744073709551616 := of_decide_eq_true ht
    simp only [PV, tagI, prefTree, WItem.valid, Bool.and_eq_true]
    exact ⟨prefWidth_fits n hn, hx⟩

theorem pv_uint (n : Nat) (h : n < 18446744073709551616) : PV (.uint n) := by
  simp only [PV, prefTree, WItem.valid]; exact prefWidth_fits n h

theorem pv_null : PV nullI := by decide

theorem pv_intItem (k : IntK) (i : Int) (h : k.inRange i = true) : PV (intItem i) := by
  simp only [IntK.inRange, Bool.and_eq_true, decide_eq_true_eq] at h
  have hlo : -9223372036854775808 ≤ i := by
    cases k <;> simp [IntK.ty, Dec.IntTy.lo, Dec.IntTy.hi, Dec.IntTy.u8, Dec.IntTy.u16, Dec.IntTy.u32, Dec.IntTy.u64,
      Dec.IntTy.i8, Dec.IntTy.i16, Dec.IntTy.i32, Dec.IntTy.i64] at h <;> omega
  have hhi : i ≤ 18446744073709551615 := by
    cases k <;> simp [IntK.ty, Dec.IntTy.lo, Dec.IntTy.hi, Dec.IntTy.u8, Dec.IntTy.u16, Dec.IntTy.u32, Dec.IntTy.u64,
      Dec.IntTy.i8, Dec.IntTy.i16, Dec.IntTy.i32, Dec.IntTy.i64] at h <;> omega
  unfold intItem
  split
  · simp only [PV, prefTree, WItem.valid]; exact prefWidth_fits _ (by omega)
  · simp only [PV, prefTree, WItem.valid]; exact prefWidth_fits _ (by omega)

/-! ### struct / variant bodies -/

theorem pv_cellAt (S : List (Piece Item)) (h : ∀ p ∈ S, tagOk p.tag = true ∧ PV p.body) (i : Nat) : PV (cellAt S i) := by
  unfold cellAt
  cases hf : S.find? (fun p => p.idx == i) with
  | none => exact pv_null
  | some p =>
    have hp := h p (List.mem_of_find?_eq_some hf)
    exact pv_tagI _ _ hp.1 hp.2

theorem pv_specArray (S : List (Piece Item)) (h : ∀ p ∈ S, p.idx < U32 ∧ tagOk p.tag = true ∧ PV p.body) :
    PV (specArray S) := by
  rw [specArray_eq]
  cases hm : maxPresent S with
  | none => show PV (Item.array []); decide
  | some m =>
    obtain ⟨q, hq, hqm, _⟩ := maxPresent_mem hm
    have hm32 : m < U32 := by rw [← hqm]; exact (h q hq).1
    apply pv_array
    · simp [U64, U32] at *; omega
    · intro x hx
      obtain ⟨i, _, rfl⟩ := List.mem_map.1 hx
      exact pv_cellAt S (fun p hp => (h p hp).2) i

theorem entryAt_len (S : List (Piece Item)) (i : Nat) : (entryAt S i).length = 0 ∨ (entryAt S i).length = 2 := by
  unfold entryAt
  split <;> simp

theorem flatMap_entryAt_len (S : List (Piece Item)) : ∀ (l : List Nat),
    (l.flatMap (entryAt S)).length % 2 = 0 ∧ (l.flatMap (entryAt S)).length ≤ 2 * l.length
  | [] => by simp
  | i :: l => by
    have ih := flatMap_entryAt_len S l
    rw [List.flatMap_cons, List.length_append, List.length_cons]
    rcases entryAt_len S i with h | h <;> rw [h] <;> omega

theorem pv_specMap (S : List (Piece Item)) (h : ∀ p ∈ S, p.idx < U32 ∧ tagOk p.tag = true ∧ PV p.body) :
    PV (specMap S) := by
  rw [specMap_eq]
  cases hm : maxPresent S with
  | none => show PV (Item.map []); decide
  | some m =>
    obtain ⟨q, hq, hqm, _⟩ := maxPresent_mem hm
    have hm32 : m < U32 := by rw [← hqm]; exact (h q hq).1
    have hl := flatMap_entryAt_len S (List.range (m + 1))
    rw [List.length_range] at hl
    apply pv_map _ hl.1
    · simp [U64, U32] at *; omega
    · intro x hx
      obtain ⟨i, _, hxi⟩ := List.mem_flatMap.1 hx
      unfold entryAt at hxi
      split at hxi
      · rename_i p hf
        have hp := h p (List.mem_of_find?_eq_some hf)
        have hi : p.idx = i := by
          have := List.find?_some hf
          simp only [Bool.and_eq_true, beq_iff_eq] at this
          exact this.1
        simp only [List.mem_cons, List.not_mem_nil, or_false] at hxi
        rcases hxi with rfl | rfl
        · exact pv_uint _ (by rw [← hi]; have := hp.1; simp [U32] at this; omega)
        · exact pv_tagI _ _ hp.2.1 hp.2.2
      · simp at hxi

theorem pv_specBody (enc : Encoding) (S : List (Piece Item)) (h : ∀ p ∈ S, p.idx < U32 ∧ tagOk p.tag = true ∧ PV p.body) :
    PV (specBody enc S) := by
  cases enc
  · exact pv_specArray S h
  · exact pv_specMap S h

theorem pv_specWith (a : FAttr) (t : FTy) (v : Val) (hc : codecOk a.codec t = true) (hv : hasTy t v = true)
    (hbody : PV (specTy t v)) : PV (specWith a.codec (specTy t) v) := by
  cases hcd : a.codec
  · simpa [specWith] using hbody
  · simpa [specWith] using hbody
  · rw [hcd] at hc
    have ht : t = .int .u32 := by
      cases t <;> simp [codecOk] at hc
      rename_i k; cases k <;> simp [codecOk] at hc; rfl
    subst ht
    cases v <;> simp [hasTy] at hv
    rename_i i
    simp [IntK.inRange, IntK.ty, Dec.IntTy.lo, Dec.IntTy.hi, Dec.IntTy.u32] at hv
    simp only [specWith, Val.isZero]
    by_cases h0 : i = 0
    · subst h0; exact pv_null
    · have : (i == 0) = false := by simpa using h0
      simp only [this, Bool.false_eq_true, if_false]
      have h2 := of_decide_eq_true hv.2
      exact pv_uint _ (by omega)

theorem pv_blob (t : FTy) (v : Val) (hb : fieldBlob t = true) (hv : hasTy t v = true) : PV (specTy t v) := by
  cases t with
  | blob k =>
    cases v <;> simp [hasTy] at hv
    simp only [specTy, PV, prefTree, WItem.valid]
    exact prefWidth_fits _ (by simpa [U64] using hv)
  | option t =>
    cases t <;> simp [fieldBlob] at hb
    cases v <;> simp [hasTy] at hv
    · exact pv_null
    · rename_i w
      cases w <;> simp [hasTy] at hv
      simp only [specTy, PV, prefTree, WItem.valid]
      exact prefWidth_fits _ (by simpa [U64] using hv)
  | _ => simp [fieldBlob] at hb

mutual
/-- the documented item of every well-typed value is a valid wire tree (in preferred form). -/
theorem spec_valid : ∀ (t : FTy) (v : Val), accepted t = true → hasTy t v = true → PV (specTy t v)
  | .int k, v, _, hv => by
    cases v <;> simp [hasTy] at hv
    simp only [specTy]; exact pv_intItem k _ hv
  | .bool, v, _, hv => by
    cases v <;> simp [hasTy] at hv
    rename_i b
    cases b <;> decide
  | .text k, v, _, hv => by
    cases v <;> simp [hasTy] at hv
    simp only [specTy, PV, prefTree, WItem.valid, Bool.and_eq_true]
    exact ⟨prefWidth_fits _ (by simpa [U64] using hv.2), hv.1⟩
  | .blob k, v, _, hv => by
    cases v <;> simp [hasTy] at hv
    simp only [specTy, PV, prefTree, WItem.valid]
    exact prefWidth_fits _ (by simpa [U64] using hv)
  | .option t, v, ha, hv => by
    simp only [accepted] at ha
    cases v <;> simp [hasTy] at hv
    · exact pv_null
    · simp only [specTy]; exact spec_valid t _ ha hv
  | .vec t, v, ha, hv => by
    simp only [accepted] at ha
    cases v <;> simp [hasTy] at hv
    rename_i vs
    simp only [specTy]
    apply pv_array
    · simpa using hv.2
    · intro x hx
      obtain ⟨w, hw, rfl⟩ := List.mem_map.1 hx
      exact spec_valid t w ha (hv.1 w hw)
  | .struct a fs, v, ha, hv => by
    simp only [accepted, Bool.and_eq_true] at ha
    cases v <;> simp [hasTy] at hv
    rename_i vs
    have hf := specFields_valid fs vs ha.1.1.1.2 hv
    simp only [specTy]
    cases htr : a.transparent
    · simp only [Bool.false_eq_true, if_false]
      exact pv_tagI _ _ ha.1.1.1.1 (pv_specBody _ _ hf)
    · simp only [if_true]
      have h1 := ha.2
      simp only [htr, Bool.not_true, Bool.false_or, Bool.and_eq_true] at h1
      match fs, vs, hv, h1, hf with
      | [(fa, ft)], [w], _, h1, hf =>
        have hs : fa.skip = false := by simpa using h1.2
        have := (hf ⟨fa.idx, fa.tag, specAbsent fa w, specWith fa.codec (specTy ft) w⟩ (by simp [specFields, hs])).2.2
        simpa [specFields, hs, specTransparent] using this
      | [(fa, ft)], [], hv, _, _ => simp [hasFields] at hv
      | [(fa, ft)], _ :: _ :: _, hv, _, _ => simp [hasFields] at hv
      | [], _, _, h1, _ => simp at h1
      | _ :: _ :: _, _, _, h1, _ => simp at h1
  | .enum a vars, v, ha, hv => by
    simp only [accepted, Bool.and_eq_true] at ha
    cases v <;> simp [hasTy] at hv
    rename_i k vs
    simp only [specTy]
    exact pv_tagI _ _ ha.1.1.1 (specVars_valid a vars k vs ha.1.1.2 hv)
termination_by structural t => t
theorem specFields_valid : ∀ (fs : Fields) (vs : List Val), acceptedFields fs = true → hasFields fs vs = true →
    ∀ p ∈ specFields fs vs, p.idx < U32 ∧ tagOk p.tag = true ∧ PV p.body
  | [], [], _, _ => by simp [specFields]
  | (a, t) :: fs, v :: vs, ha, hv => by
    simp only [acceptedFields, Bool.and_eq_true] at ha
    simp only [hasFields, Bool.and_eq_true] at hv
    have ih := specFields_valid fs vs ha.2 hv.2
    cases hs : a.skip
    · intro p hp
      simp only [specFields, hs, Bool.false_eq_true, if_false, List.mem_cons] at hp
      rcases hp with rfl | hp
      · have hattr := ha.1.1
        simp only [fieldAttrOk, hs, Bool.false_eq_true, if_false, Bool.and_eq_true, decide_eq_true_eq] at hattr
        have hbody : PV (specTy t v) := by
          cases hb : fieldBlob t
          · exact spec_valid t v (by simpa [hb] using ha.1.2) hv.1
          · exact pv_blob t v hb hv.1
        exact ⟨hattr.1.1.1, hattr.1.1.2, pv_specWith a t v hattr.1.2 hv.1 hbody⟩
      · exact ih p hp
    · intro p hp
      simp only [specFields, hs, if_true] at hp
      exact ih p hp
  | [], _ :: _, _, hv => by simp [hasFields] at hv
  | _ :: _, [], _, hv => by simp [hasFields] at hv
termination_by structural fs => fs
theorem specVars_valid (e : EAttr) : ∀ (vars : Variants) (k : Nat) (vs : List Val),
    acceptedVars e vars = true → hasVars vars k vs = true → PV (specVars e vars k vs)
  | [], _, _, _, hv => by simp [hasVars] at hv
  | (va, fs) :: rest, 0, vs, ha, hv => by
    simp only [acceptedVars, Bool.and_eq_true, decide_eq_true_eq] at ha
    simp only [hasVars] at hv
    obtain ⟨⟨⟨⟨⟨⟨hidx, htag⟩, hacc⟩, hnd⟩, hunit⟩, hio⟩, _⟩ := ha
    have hu : PV (.uint va.idx) := pv_uint _ (by simp [U32] at hidx; omega)
    simp only [specVars]
    cases hix : e.indexOnly
    · simp only [Bool.false_eq_true, if_false]
      apply pv_array _ (by simp [U64])
      intro x hx
      simp only [List.mem_cons, List.not_mem_nil, or_false] at hx
      rcases hx with rfl | rfl
      · exact hu
      · apply pv_tagI _ _ htag
        cases hsh : va.shape
        · cases (va.enc.getD (e.enc.getD .array))
          · show PV (Item.array []); decide
          · show PV (Item.map []); decide
        all_goals exact pv_specBody _ _ (specFields_valid fs vs hacc hv)
    · simpa using hu
  | (va, fs) :: rest, k + 1, vs, ha, hv => by
    simp only [acceptedVars, Bool.and_eq_true] at ha
    simp only [hasVars] at hv
    simp only [specVars]
    exact specVars_valid e rest k vs ha.2 hv
termination_by structural vars => vars
end

end Minicbor.Derive
