/-
  C02 infrastructure, part 6: the `ArrayVec` bookkeeping model (Minicbor/ArrayVec.lean) drops or
  moves out every pushed element exactly once.
-/
import Minicbor.ArrayVec

namespace Minicbor.ArrayVec

/-- the representation invariant: the first `len` slots are exactly the elements pushed so far,
    the others are uninitialised. -/
def Inv (a : AV) (done : List Nat) : Prop :=
  a.buf = done.map some ++ List.replicate (a.cap - done.length) none ∧ a.len = done.length ∧
    done.length ≤ a.cap

theorem Inv.new (n : Nat) : Inv (AV.new n) [] := by
  simp [Inv, AV.new]

theorem Inv.dropSlots {a : AV} {done : List Nat} (h : Inv a done) : a.dropSlots = done.map some := by
  obtain ⟨hb, hl, _⟩ := h
  unfold AV.dropSlots
  rw [hb, hl]
  have : done.length = (done.map some).length := by simp
  rw [this, List.take_left']
  rfl

theorem Inv.push_ok {a : AV} {done : List Nat} (h : Inv a done) (hlt : done.length < a.cap) (id : Nat) :
    ∃ a', a.push id = (a', none) ∧ Inv a' (done ++ [id]) ∧ a'.cap = a.cap := by
  obtain ⟨hb, hl, hle⟩ := h
  refine ⟨⟨a.cap, a.buf.set a.len (some id), a.len + 1⟩, ?_, ⟨?_, ?_, ?_⟩, rfl⟩
  · unfold AV.push; rw [hl]; simp [hlt]
  · show a.buf.set a.len (some id) = _
    rw [hb, hl]
    have hlen : (done.map some).length = done.length := by simp
    have : a.cap - done.length = (a.cap - (done ++ [id]).length) + 1 := by simp; omega
    rw [this, List.replicate_succ]
    rw [List.set_append_right _ _ (by simp)]
    simp
  · simp [hl]
  · simp; omega

theorem Inv.push_full {a : AV} {done : List Nat} (h : Inv a done) (hfull : done.length = a.cap) (id : Nat) :
    a.push id = (a, some id) := by
  obtain ⟨_, hl, _⟩ := h
  unfold AV.push; rw [hl]; simp [hfull]

theorem pushAll_fits {a : AV} {done : List Nat} (h : Inv a done) (p ids : List Nat)
    (hfit : done.length + ids.length ≤ a.cap) :
    ∃ a', pushAll a p ids = (a', p ++ ids, none) ∧ Inv a' (done ++ ids) ∧ a'.cap = a.cap := by
  induction ids generalizing a done p with
  | nil => exact ⟨a, by simp [pushAll], by simpa using h, rfl⟩
  | cons id ids ih =>
    simp at hfit
    obtain ⟨a1, hp, hi, hc⟩ := h.push_ok (by omega) id
    obtain ⟨a2, hp2, hi2, hc2⟩ := ih hi (p ++ [id]) (by simp; omega)
    refine ⟨a2, ?_, by simpa using hi2, by omega⟩
    unfold pushAll; rw [hp]; simpa using hp2

theorem pushAll_overflow {a : AV} {done : List Nat} (h : Inv a done) (p ids : List Nat)
    (hover : a.cap < done.length + ids.length) :
    ∃ a' rej, ids[a.cap - done.length]? = some rej ∧
      pushAll a p ids = (a', p ++ ids.take (a.cap - done.length + 1), some rej) ∧
      Inv a' (done ++ ids.take (a.cap - done.length)) ∧ a'.cap = a.cap := by
  induction ids generalizing a done p with
  | nil => simp at hover; have := h.2.2; omega
  | cons id ids ih =>
    have hle := h.2.2
    by_cases hfull : done.length = a.cap
    · refine ⟨a, id, by simp [hfull], ?_, by simpa [hfull] using h, rfl⟩
      unfold pushAll; rw [h.push_full hfull]; simp [hfull]
    · obtain ⟨a1, hp, hi, hc⟩ := h.push_ok (by omega) id
      simp at hover
      obtain ⟨a2, rej, hr, hp2, hi2, hc2⟩ := ih hi (p ++ [id]) (by simp; omega)
      have e1 : a1.cap - (done ++ [id]).length + 1 = a.cap - done.length := by simp; omega
      have e2 : a.cap - done.length = (a.cap - done.length - 1) + 1 := by omega
      have e3 : a1.cap - (done ++ [id]).length = a.cap - done.length - 1 := by simp; omega
      refine ⟨a2, rej, ?_, ?_, ?_, by omega⟩
      · rw [e2, List.getElem?_cons_succ, ← e3]; exact hr
      · unfold pushAll; rw [hp]; simp only
        rw [hp2, e1, e2, List.take_succ_cons, ← e2]; simp
      · rw [e3] at hi2; rw [e2, List.take_succ_cons]; simpa using hi2

/-- more elements than `N`: the `N+1`-th is rejected by `push`, dropped by the caller's closure,
    and the `N` stored ones are dropped by `Drop for ArrayVec`. -/
theorem decodeArr_overflow (n : Nat) (ids : List Nat) (e : Bool) (h : n < ids.length) :
    ∃ rej, ids[n]? = some rej ∧
      decodeArr n ids e = ⟨none, some rej :: (ids.take n).map some, ids.take (n + 1)⟩ := by
  obtain ⟨a', rej, hr, hp, hi, _⟩ := pushAll_overflow (Inv.new n) [] ids (by simp [AV.new]; omega)
  simp [show (AV.new n).cap = n from rfl] at hr hp hi
  refine ⟨rej, hr, ?_⟩
  unfold decodeArr
  rw [hp]; simp [hi.dropSlots]

/-- exactly `N` elements and no iterator error: all are moved out, no destructor runs. -/
theorem decodeArr_exact (n : Nat) (ids : List Nat) (h : ids.length = n) :
    decodeArr n ids false = ⟨some (ids.map some), [], ids⟩ := by
  obtain ⟨a', hp, hi, hc⟩ := pushAll_fits (Inv.new n) [] ids (by simp [AV.new]; omega)
  simp [show (AV.new n).cap = n from rfl] at hp hi hc
  unfold decodeArr
  rw [hp]
  have : a'.intoArray = .ok (ids.map some) := by
    unfold AV.intoArray
    rw [hi.2.1, hc, if_pos h, hi.1]; simp [hc, h]
  simp [this]

/-- fewer than `N` elements, or an element failed to decode: everything stored so far is dropped
    by `Drop for ArrayVec`, nothing is moved out. -/
theorem decodeArr_short (n : Nat) (ids : List Nat) (e : Bool) (hle : ids.length ≤ n)
    (h : e = true ∨ ids.length < n) : decodeArr n ids e = ⟨none, ids.map some, ids⟩ := by
  obtain ⟨a', hp, hi, hc⟩ := pushAll_fits (Inv.new n) [] ids (by simp [AV.new]; omega)
  simp [show (AV.new n).cap = n from rfl] at hp hi hc
  unfold decodeArr
  rw [hp]
  cases e with
  | true => simp [hi.dropSlots]
  | false =>
    have hlt : ids.length < n := by simpa using h
    have : a'.intoArray = .error a' := by
      unfold AV.intoArray
      rw [hi.2.1, hc, if_neg (by omega)]
    simp [this, hi.dropSlots]

/-- the ledger of one `<[T; N]>::decode` run. -/
theorem arrayvec_ledger (n : Nat) (ids : List Nat) (iterErr : Bool) :
    let o := decodeArr n ids iterErr
    o.pushed = ids.take (n + 1) ∧
    (o.dropped ++ (o.array.getD [])).Perm (o.pushed.map some) ∧
    (o.array.isSome ↔ (ids.length = n ∧ iterErr = false)) ∧
    (o.array.isSome → o.dropped = [] ∧ o.array = some (ids.map some)) := by
  intro o
  by_cases hover : n < ids.length
  · obtain ⟨rej, hr, ho⟩ := decodeArr_overflow n ids iterErr hover
    have ho' : o = _ := ho
    rw [ho']
    refine ⟨rfl, ?_, ?_, ?_⟩
    · simp only [Option.getD_none, List.append_nil]
      rw [List.take_add_one, hr]
      simp only [Option.toList_some, List.map_append, List.map_cons, List.map_nil]
      exact (List.perm_append_singleton _ _).symm
    · simp; omega
    · simp
  · have hle : ids.length ≤ n := by omega
    by_cases hex : ids.length = n ∧ iterErr = false
    · obtain ⟨h1, h2⟩ := hex
      have ho' : o = ⟨some (ids.map some), [], ids⟩ := by subst h2; exact decodeArr_exact n ids h1
      rw [ho']
      refine ⟨by rw [List.take_of_length_le (by omega)], ?_, by simp [h1, h2], by simp⟩
      simp
    · have hs : iterErr = true ∨ ids.length < n := by
        cases iterErr with
        | true => exact .inl rfl
        | false => right; simp at hex; omega
      have ho' : o = _ := decodeArr_short n ids iterErr hle hs
      rw [ho']
      refine ⟨by rw [List.take_of_length_le (by omega)], by simp, ?_, by simp⟩
      simp only [Option.isSome_none, Bool.false_eq_true, false_iff]
      exact hex

theorem count_map_some (id : Nat) (l : List Nat) : (l.map some).count (some id) = l.count id := by
  induction l with
  | nil => rfl
  | cons a l ih => simp [List.count_cons, ih]

theorem arrayvec_count (n : Nat) (ids : List Nat) (iterErr : Bool) (hnd : ids.Nodup) (id : Nat) :
    let o := decodeArr n ids iterErr
    (o.dropped ++ (o.array.getD [])).count (some id) = (if id ∈ ids.take (n + 1) then 1 else 0) ∧
    none ∉ o.dropped ++ (o.array.getD []) := by
  intro o
  obtain ⟨h1, h2, _, _⟩ := arrayvec_ledger n ids iterErr
  have h1' : o.pushed = ids.take (n + 1) := h1
  have h2' : (o.dropped ++ (o.array.getD [])).Perm (o.pushed.map some) := h2
  constructor
  · rw [h2'.count_eq, count_map_some, h1']
    exact ((List.take_sublist _ _).nodup hnd).count
  · rw [h2'.mem_iff]; simp

end Minicbor.ArrayVec
