/-
  The reference parser `parse` (Parse.lean) against the wire specification:
  * `parse_encW`: it reads back every valid tree, followed by anything;
  * `parse_sound`: whatever it accepts is the encoding of a valid tree;
  hence `wellformed_iff`, and agreement of `skip` with it.
-/
import Minicbor.Parse
import Minicbor.Lemmas.Head
import Minicbor.Lemmas.SkipExact

namespace Minicbor

theorem takeN_append (xs rest : Bytes) : takeN xs.length (xs ++ rest) = some (xs, rest) := by
  simp [takeN]

theorem takeN_be (k n : Nat) (rest : Bytes) : takeN k (be k n ++ rest) = some (be k n, rest) := by
  have := takeN_append (be k n) rest
  rwa [be_length] at this

theorem parseArg_head (w : Width) (n : Nat) (rest : Bytes) (h : w.fits n = true) :
    parseArg (w.ai n) (be w.bytes n ++ rest) = some (w, n, rest) := by
  cases w
  · simp [Width.fits] at h
    simp [parseArg, Width.ai, Width.bytes, be, h]
  all_goals
    simp [Width.fits] at h
    simp [parseArg, Width.ai, Width.bytes, takeN_be]
    apply fromBe_be
    omega

/-- the initial byte of a head splits into major type and additional information. -/
theorem head_split (m a : Nat) (hm : m ≤ 7) (ha : a ≤ 31) :
    (u8 (m * 32 + a)).toNat / 32 = m ∧ (u8 (m * 32 + a)).toNat % 32 = a := by
  rw [u8_toNat_mod]; omega

theorem parseStr_enc (text : Bool) (w : Width) (p rest : Bytes) (h : w.fits p.length = true)
    (hu : text = true → validUtf8 p = true) :
    parseStr text (w.ai p.length) (be w.bytes p.length ++ (p ++ rest)) = some (w, p, rest) := by
  unfold parseStr
  rw [parseArg_head w _ _ h]
  simp only [takeN_append]
  cases text
  · simp
  · simp [hu rfl]

theorem parseChunks_enc (text : Bool) (cs : List (Width × Bytes)) (fuel : Nat) (rest : Bytes)
    (hv : chunksValid text cs = true) (hf : cs.length < fuel) :
    parseChunks text fuel (encChunks (if text then 3 else 2) cs ++ 0xff :: rest) = some (cs, rest) := by
  induction cs generalizing fuel with
  | nil =>
    cases fuel with
    | zero => simp at hf
    | succ f => simp [parseChunks, encChunks]
  | cons c cs ih =>
    obtain ⟨w, p⟩ := c
    cases fuel with
    | zero => simp at hf
    | succ f =>
      simp only [chunksValid, Bool.and_eq_true] at hv
      obtain ⟨⟨hfit, hutf⟩, hrest⟩ := hv
      have ha := Width.ai_le w _ hfit
      have hu : text = true → validUtf8 p = true := by
        intro ht; subst ht; simpa using hutf
      have hs := parseStr_enc text w p (encChunks (if text then 3 else 2) cs ++ 0xff :: rest) hfit hu
      have ih' := ih f hrest (by simp at hf; omega)
      obtain ⟨h1, h2⟩ := head_split (if text then 3 else 2) (w.ai p.length) (by cases text <;> simp) (by omega)
      have hne : u8 ((if text = true then 3 else 2) * 32 + w.ai p.length) ≠ 255 := by
        apply u8_ne_255; cases text <;> simp <;> omega
      simp only [encChunks, headW, List.cons_append, List.append_assoc]
      unfold parseChunks
      simp only [hne, if_false, h1, h2, if_true, hs, ih']

theorem parseChunks_fuel (text : Bool) (cs : List (Width × Bytes)) (rest : Bytes)
    (hv : chunksValid text cs = true) :
    parseChunks text ((encChunks (if text then 3 else 2) cs ++ 0xff :: rest).length + 1)
      (encChunks (if text then 3 else 2) cs ++ 0xff :: rest) = some (cs, rest) := by
  apply parseChunks_enc text cs _ rest hv
  have := encChunks_length_ge (if text then 3 else 2) cs
  simp; omega

/-- no valid item starts with the break byte. -/
theorem encW_head_ne_ff (w : WItem) (hv : w.valid = true) :
    ∃ b tl, encW w = b :: tl ∧ b ≠ 0xff := by
  have key : ∀ (m : Nat) (wd : Width) (n : Nat) (tl : Bytes), m ≤ 6 → wd.fits n = true →
      ∃ b tl', headW m wd n ++ tl = b :: tl' ∧ b ≠ 0xff := by
    intro m wd n tl hm hf
    have ha := Width.ai_le wd n hf
    refine ⟨_, _, rfl, ?_⟩
    apply u8_ne_255
    have : m * 32 ≤ 192 := by omega
    omega
  cases w with
  | uint wd n => simp only [WItem.valid] at hv; simpa [encW] using key 0 wd n [] (by omega) hv
  | nint wd n => simp only [WItem.valid] at hv; simpa [encW] using key 1 wd n [] (by omega) hv
  | bytes wd b => simp only [WItem.valid] at hv; simpa [encW] using key 2 wd _ b (by omega) hv
  | text wd b =>
    simp only [WItem.valid, Bool.and_eq_true] at hv; simpa [encW] using key 3 wd _ b (by omega) hv.1
  | array wd xs =>
    simp only [WItem.valid, Bool.and_eq_true] at hv; simpa [encW] using key 4 wd _ (encWs xs) (by omega) hv.1
  | map wd xs =>
    simp only [WItem.valid, Bool.and_eq_true] at hv; simpa [encW] using key 5 wd _ (encWs xs) (by omega) hv.1.2
  | tag wd n x =>
    simp only [WItem.valid, Bool.and_eq_true] at hv; simpa [encW] using key 6 wd n (encW x) (by omega) hv.1
  | bytesI cs => exact ⟨0x5f, _, by simp only [encW]; rfl, by decide⟩
  | textI cs => exact ⟨0x7f, _, by simp only [encW]; rfl, by decide⟩
  | arrayI xs => exact ⟨0x9f, _, by simp only [encW]; rfl, by decide⟩
  | mapI xs => exact ⟨0xbf, _, by simp only [encW]; rfl, by decide⟩
  | f16 b => exact ⟨0xf9, _, by simp only [encW]; rfl, by decide⟩
  | f32 b => exact ⟨0xfa, _, by simp only [encW]; rfl, by decide⟩
  | f64 b => exact ⟨0xfb, _, by simp only [encW]; rfl, by decide⟩
  | simple n =>
    simp only [WItem.valid] at hv
    by_cases hn : n < 24
    · refine ⟨u8 (0xe0 + n), [], by simp [encW, hn], ?_⟩
      apply u8_ne_255; omega
    · exact ⟨0xf8, [u8 n], by simp [encW, hn], by decide⟩

mutual
/-- the reference parser reads back every valid tree (with enough fuel). -/
theorem parseItem_enc : (w : WItem) → w.valid = true → ∀ (f : Nat) (rest : Bytes),
    2 * (encW w).length ≤ f → parseItem f (encW w ++ rest) = some (w, rest)
  | .uint w n, hv, f, rest, hf => by
    simp only [WItem.valid] at hv
    simp only [encW, headW_length] at hf ⊢
    obtain ⟨f, rfl⟩ : ∃ f', f = f' + 1 := ⟨f - 1, by omega⟩
    have ha := Width.ai_le w n hv
    obtain ⟨h1, h2⟩ := head_split 0 (w.ai n) (by omega) (by omega)
    simp only [headW, List.cons_append]
    generalize u8 (0 * 32 + w.ai n) = b at h1 h2 ⊢
    simp [parseItem, h1, h2, parseArg_head w n rest hv]
  | .nint w n, hv, f, rest, hf => by
    simp only [WItem.valid] at hv
    simp only [encW, headW_length] at hf ⊢
    obtain ⟨f, rfl⟩ : ∃ f', f = f' + 1 := ⟨f - 1, by omega⟩
    have ha := Width.ai_le w n hv
    obtain ⟨h1, h2⟩ := head_split 1 (w.ai n) (by omega) (by omega)
    simp only [headW, List.cons_append]
    generalize u8 (1 * 32 + w.ai n) = b at h1 h2 ⊢
    simp [parseItem, h1, h2, parseArg_head w n rest hv]
  | .bytes w p, hv, f, rest, hf => by
    simp only [WItem.valid] at hv
    simp only [encW, headW_length, List.length_append] at hf ⊢
    obtain ⟨f, rfl⟩ : ∃ f', f = f' + 1 := ⟨f - 1, by omega⟩
    have ha := Width.ai_le w _ hv
    obtain ⟨h1, h2⟩ := head_split 2 (w.ai p.length) (by omega) (by omega)
    have hs := parseStr_enc false w p rest hv (by simp)
    simp only [headW, List.cons_append, List.append_assoc]
    generalize u8 (2 * 32 + w.ai p.length) = b at h1 h2 ⊢
    have : w.ai p.length ≠ 31 := by omega
    simp [parseItem, h1, h2, this, hs]
  | .text w p, hv, f, rest, hf => by
    simp only [WItem.valid, Bool.and_eq_true] at hv
    simp only [encW, headW_length, List.length_append] at hf ⊢
    obtain ⟨f, rfl⟩ : ∃ f', f = f' + 1 := ⟨f - 1, by omega⟩
    have ha := Width.ai_le w _ hv.1
    obtain ⟨h1, h2⟩ := head_split 3 (w.ai p.length) (by omega) (by omega)
    have hs := parseStr_enc true w p rest hv.1 (fun _ => hv.2)
    simp only [headW, List.cons_append, List.append_assoc]
    generalize u8 (3 * 32 + w.ai p.length) = b at h1 h2 ⊢
    have : w.ai p.length ≠ 31 := by omega
    simp [parseItem, h1, h2, this, hs]
  | .bytesI cs, hv, f, rest, hf => by
    simp only [WItem.valid] at hv
    simp only [encW, List.length_cons] at hf ⊢
    obtain ⟨f, rfl⟩ : ∃ f', f = f' + 1 := ⟨f - 1, by omega⟩
    have hc := parseChunks_fuel false cs rest hv
    have h1 : (0x5f : UInt8).toNat / 32 = 2 := by decide
    have h2 : (0x5f : UInt8).toNat % 32 = 31 := by decide
    simp only [List.cons_append, List.append_assoc, List.nil_append]
    generalize (0x5f : UInt8) = b at h1 h2 ⊢
    simp only [Bool.false_eq_true, if_false, List.length_append, List.length_cons] at hc
    simp [parseItem, h1, h2]
    exact hc
  | .textI cs, hv, f, rest, hf => by
    simp only [WItem.valid] at hv
    simp only [encW, List.length_cons] at hf ⊢
    obtain ⟨f, rfl⟩ : ∃ f', f = f' + 1 := ⟨f - 1, by omega⟩
    have hc := parseChunks_fuel true cs rest hv
    have h1 : (0x7f : UInt8).toNat / 32 = 3 := by decide
    have h2 : (0x7f : UInt8).toNat % 32 = 31 := by decide
    simp only [List.cons_append, List.append_assoc, List.nil_append]
    generalize (0x7f : UInt8) = b at h1 h2 ⊢
    simp only [if_true, List.length_append, List.length_cons] at hc
    simp [parseItem, h1, h2]
    exact hc
  | .array w xs, hv, f, rest, hf => by
    simp only [WItem.valid, Bool.and_eq_true] at hv
    simp only [encW, headW_length, List.length_append] at hf ⊢
    obtain ⟨f, rfl⟩ : ∃ f', f = f' + 1 := ⟨f - 1, by omega⟩
    have ha := Width.ai_le w _ hv.1
    obtain ⟨h1, h2⟩ := head_split 4 (w.ai xs.length) (by omega) (by omega)
    have ih := parseItems_enc xs hv.2 f rest (by omega)
    simp only [headW, List.cons_append, List.append_assoc]
    generalize u8 (4 * 32 + w.ai xs.length) = b at h1 h2 ⊢
    have : w.ai xs.length ≠ 31 := by omega
    simp [parseItem, h1, h2, this, parseArg_head w _ _ hv.1, ih]
  | .map w xs, hv, f, rest, hf => by
    simp only [WItem.valid, Bool.and_eq_true, beq_iff_eq] at hv
    simp only [encW, headW_length, List.length_append] at hf ⊢
    obtain ⟨f, rfl⟩ : ∃ f', f = f' + 1 := ⟨f - 1, by omega⟩
    have ha := Width.ai_le w _ hv.1.2
    obtain ⟨h1, h2⟩ := head_split 5 (w.ai (xs.length / 2)) (by omega) (by omega)
    have ih := parseItems_enc xs hv.2 f rest (by omega)
    have e : 2 * (xs.length / 2) = xs.length := by omega
    simp only [headW, List.cons_append, List.append_assoc]
    generalize u8 (5 * 32 + w.ai (xs.length / 2)) = b at h1 h2 ⊢
    have : w.ai (xs.length / 2) ≠ 31 := by omega
    simp [parseItem, h1, h2, this, parseArg_head w _ _ hv.1.2, e, ih]
  | .arrayI xs, hv, f, rest, hf => by
    simp only [WItem.valid] at hv
    simp only [encW, List.length_cons, List.length_append, List.length_nil] at hf ⊢
    obtain ⟨f, rfl⟩ : ∃ f', f = f' + 1 := ⟨f - 1, by omega⟩
    have ih := parseBreak_enc xs hv f rest (by omega)
    have h1 : (0x9f : UInt8).toNat / 32 = 4 := by decide
    have h2 : (0x9f : UInt8).toNat % 32 = 31 := by decide
    simp only [List.cons_append, List.append_assoc, List.nil_append]
    generalize (0x9f : UInt8) = b at h1 h2 ⊢
    simp [parseItem, h1, h2, ih]
  | .mapI xs, hv, f, rest, hf => by
    simp only [WItem.valid, Bool.and_eq_true, beq_iff_eq] at hv
    simp only [encW, List.length_cons, List.length_append, List.length_nil] at hf ⊢
    obtain ⟨f, rfl⟩ : ∃ f', f = f' + 1 := ⟨f - 1, by omega⟩
    have ih := parseBreak_enc xs hv.2 f rest (by omega)
    have h1 : (0xbf : UInt8).toNat / 32 = 5 := by decide
    have h2 : (0xbf : UInt8).toNat % 32 = 31 := by decide
    simp only [List.cons_append, List.append_assoc, List.nil_append]
    generalize (0xbf : UInt8) = b at h1 h2 ⊢
    simp [parseItem, h1, h2, ih, hv.1]
  | .tag w n x, hv, f, rest, hf => by
    simp only [WItem.valid, Bool.and_eq_true] at hv
    simp only [encW, headW_length, List.length_append] at hf ⊢
    obtain ⟨f, rfl⟩ : ∃ f', f = f' + 1 := ⟨f - 1, by omega⟩
    have ha := Width.ai_le w _ hv.1
    obtain ⟨h1, h2⟩ := head_split 6 (w.ai n) (by omega) (by omega)
    have ih := parseItem_enc x hv.2 f rest (by omega)
    simp only [headW, List.cons_append, List.append_assoc]
    generalize u8 (6 * 32 + w.ai n) = b at h1 h2 ⊢
    simp [parseItem, h1, h2, parseArg_head w _ _ hv.1, ih]
  | .simple n, hv, f, rest, hf => by
    simp only [WItem.valid] at hv
    by_cases hn : n < 24
    · simp only [encW, hn, if_true, List.length_cons, List.length_nil] at hf ⊢
      obtain ⟨f, rfl⟩ : ∃ f', f = f' + 1 := ⟨f - 1, by omega⟩
      have h1 : (u8 (0xe0 + n)).toNat / 32 = 7 := by rw [u8_toNat_mod]; omega
      have h2 : (u8 (0xe0 + n)).toNat % 32 = n := by rw [u8_toNat_mod]; omega
      simp only [List.cons_append, List.nil_append]
      generalize u8 (0xe0 + n) = b at h1 h2 ⊢
      simp [parseItem, h1, h2, hn]
    · have hn2 : 32 ≤ n ∧ n < 256 := by simp at hv; omega
      simp only [encW, hn, if_false, List.length_cons, List.length_nil] at hf ⊢
      obtain ⟨f, rfl⟩ : ∃ f', f = f' + 1 := ⟨f - 1, by omega⟩
      have h1 : (0xf8 : UInt8).toNat / 32 = 7 := by decide
      have h2 : (0xf8 : UInt8).toNat % 32 = 24 := by decide
      have h3 : (u8 n).toNat = n := by rw [u8_toNat_mod]; omega
      simp only [List.cons_append, List.nil_append]
      generalize (0xf8 : UInt8) = b at h1 h2 ⊢
      simp [parseItem, h1, h2, h3, hn2.1]
  | .f16 bits, hv, f, rest, hf => by
    simp only [WItem.valid, decide_eq_true_eq] at hv
    simp only [encW, List.length_cons, be_length] at hf ⊢
    obtain ⟨f, rfl⟩ : ∃ f', f = f' + 1 := ⟨f - 1, by omega⟩
    have h1 : (0xf9 : UInt8).toNat / 32 = 7 := by decide
    have h2 : (0xf9 : UInt8).toNat % 32 = 25 := by decide
    have h3 : fromBe (be 2 bits) = bits := fromBe_be 2 bits (by omega)
    simp only [List.cons_append]
    generalize (0xf9 : UInt8) = b at h1 h2 ⊢
    simp [parseItem, h1, h2, takeN_be, h3]
  | .f32 bits, hv, f, rest, hf => by
    simp only [WItem.valid, decide_eq_true_eq] at hv
    simp only [encW, List.length_cons, be_length] at hf ⊢
    obtain ⟨f, rfl⟩ : ∃ f', f = f' + 1 := ⟨f - 1, by omega⟩
    have h1 : (0xfa : UInt8).toNat / 32 = 7 := by decide
    have h2 : (0xfa : UInt8).toNat % 32 = 26 := by decide
    have h3 : fromBe (be 4 bits) = bits := fromBe_be 4 bits (by omega)
    simp only [List.cons_append]
    generalize (0xfa : UInt8) = b at h1 h2 ⊢
    simp [parseItem, h1, h2, takeN_be, h3]
  | .f64 bits, hv, f, rest, hf => by
    simp only [WItem.valid, decide_eq_true_eq] at hv
    simp only [encW, List.length_cons, be_length] at hf ⊢
    obtain ⟨f, rfl⟩ : ∃ f', f = f' + 1 := ⟨f - 1, by omega⟩
    have h1 : (0xfb : UInt8).toNat / 32 = 7 := by decide
    have h2 : (0xfb : UInt8).toNat % 32 = 27 := by decide
    have h3 : fromBe (be 8 bits) = bits := fromBe_be 8 bits (by omega)
    simp only [List.cons_append]
    generalize (0xfb : UInt8) = b at h1 h2 ⊢
    simp [parseItem, h1, h2, takeN_be, h3]

theorem parseItems_enc : (xs : List WItem) → validAll xs = true → ∀ (f : Nat) (rest : Bytes),
    2 * (encWs xs).length + 1 ≤ f → parseItems f xs.length (encWs xs ++ rest) = some (xs, rest)
  | [], _, f, rest, _ => by simp [parseItems, encWs]
  | x :: xs, hv, f, rest, hf => by
    simp only [validAll, Bool.and_eq_true] at hv
    simp only [encWs, List.length_append] at hf ⊢
    obtain ⟨f, rfl⟩ : ∃ f', f = f' + 1 := ⟨f - 1, by omega⟩
    have hpos := encW_length_pos x
    have ih1 := parseItem_enc x hv.1 f (encWs xs ++ rest) (by omega)
    have ih2 := parseItems_enc xs hv.2 f rest (by omega)
    simp only [List.length_cons, List.append_assoc]
    simp [parseItems, ih1, ih2]

theorem parseBreak_enc : (xs : List WItem) → validAll xs = true → ∀ (f : Nat) (rest : Bytes),
    2 * (encWs xs).length + 1 ≤ f → parseBreak f (encWs xs ++ 0xff :: rest) = some (xs, rest)
  | [], _, f, rest, hf => by
    obtain ⟨f, rfl⟩ : ∃ f', f = f' + 1 := ⟨f - 1, by omega⟩
    simp [parseBreak, encWs]
  | x :: xs, hv, f, rest, hf => by
    simp only [validAll, Bool.and_eq_true] at hv
    simp only [encWs, List.length_append] at hf ⊢
    obtain ⟨f, rfl⟩ : ∃ f', f = f' + 1 := ⟨f - 1, by omega⟩
    have hpos := encW_length_pos x
    have ih1 := parseItem_enc x hv.1 f (encWs xs ++ 0xff :: rest) (by omega)
    have ih2 := parseBreak_enc xs hv.2 f rest (by omega)
    obtain ⟨b, tl, hb, hne⟩ := encW_head_ne_ff x hv.1
    simp only [List.append_assoc]
    rw [hb] at ih1 ⊢
    simp only [List.cons_append] at ih1 ⊢
    simp [parseBreak, hne, ih1, ih2]
end

/-- **the reference parser reads back every valid tree**, followed by anything. -/
theorem parse_encW (w : WItem) (rest : Bytes) (hv : w.valid = true) :
    parse (encW w ++ rest) = some (w, rest) := by
  unfold parse
  exact parseItem_enc w hv _ rest (by simp; omega)

/-! ### soundness: whatever the parser accepts is the encoding of a valid tree -/

theorem takeN_some {k : Nat} {bs x r : Bytes} (h : takeN k bs = some (x, r)) :
    bs = x ++ r ∧ x.length = k := by
  unfold takeN at h
  split at h
  · rename_i hk
    cases h
    exact ⟨(List.take_append_drop k bs).symm, by simp [List.length_take]; omega⟩
  · cases h

theorem takeN_be_sound {k : Nat} {bs x r : Bytes} (h : takeN k bs = some (x, r)) :
    bs = be k (fromBe x) ++ r ∧ fromBe x < 256 ^ k := by
  obtain ⟨hbs, hx⟩ := takeN_some h
  have h1 := fromBe_lt x
  have h2 := be_fromBe x
  rw [hx] at h1 h2
  exact ⟨by rw [h2]; exact hbs, h1⟩

theorem map_takeN_some {k : Nat} {bs : Bytes} {α : Type} {g : Bytes × Bytes → α} {y : α}
    (h : (takeN k bs).map g = some y) : ∃ x r, takeN k bs = some (x, r) ∧ g (x, r) = y := by
  cases ht : takeN k bs with
  | none => simp [ht] at h
  | some p => obtain ⟨x, r⟩ := p; simp [ht] at h; exact ⟨x, r, rfl, h⟩

theorem parseArg_sound {ai : Nat} {bs r : Bytes} {w : Width} {n : Nat}
    (h : parseArg ai bs = some (w, n, r)) :
    w.fits n = true ∧ w.ai n = ai ∧ bs = be w.bytes n ++ r := by
  unfold parseArg at h
  split at h
  · cases h; simp [Width.fits, Width.ai, Width.bytes, be, *]
  · split at h
    · rename_i h24
      obtain ⟨x, r', ht, hg⟩ := map_takeN_some h
      cases hg
      obtain ⟨hbs, hlt⟩ := takeN_be_sound ht
      exact ⟨by simp [Width.fits]; omega, by simp [Width.ai, h24], hbs⟩
    · split at h
      · rename_i h25
        obtain ⟨x, r', ht, hg⟩ := map_takeN_some h
        cases hg
        obtain ⟨hbs, hlt⟩ := takeN_be_sound ht
        exact ⟨by simp [Width.fits]; omega, by simp [Width.ai, h25], hbs⟩
      · split at h
        · rename_i h26
          obtain ⟨x, r', ht, hg⟩ := map_takeN_some h
          cases hg
          obtain ⟨hbs, hlt⟩ := takeN_be_sound ht
          exact ⟨by simp [Width.fits]; omega, by simp [Width.ai, h26], hbs⟩
        · split at h
          · rename_i h27
            obtain ⟨x, r', ht, hg⟩ := map_takeN_some h
            cases hg
            obtain ⟨hbs, hlt⟩ := takeN_be_sound ht
            exact ⟨by simp [Width.fits]; omega, by simp [Width.ai, h27], hbs⟩
          · cases h

theorem parseStr_sound {text : Bool} {ai : Nat} {bs p r : Bytes} {w : Width}
    (h : parseStr text ai bs = some (w, p, r)) :
    w.fits p.length = true ∧ w.ai p.length = ai ∧ bs = be w.bytes p.length ++ (p ++ r) ∧
    (text = true → validUtf8 p = true) := by
  unfold parseStr at h
  cases ha : parseArg ai bs with
  | none => simp [ha] at h
  | some q =>
    obtain ⟨w', n, r1⟩ := q
    simp only [ha] at h
    cases ht : takeN n r1 with
    | none => simp [ht] at h
    | some q2 =>
      obtain ⟨p', r2⟩ := q2
      simp only [ht] at h
      split at h
      · cases h
      · rename_i hu
        cases h
        obtain ⟨h1, h2, h3⟩ := parseArg_sound ha
        obtain ⟨h4, h5⟩ := takeN_some ht
        subst h5
        refine ⟨h1, h2, by rw [h3, h4], ?_⟩
        intro ht; subst ht; simpa using hu

/-- an initial byte is determined by its major type and additional information. -/
theorem byte_eq (b : UInt8) (m a : Nat) (h1 : b.toNat / 32 = m) (h2 : b.toNat % 32 = a) :
    b = u8 (m * 32 + a) := by
  have : b.toNat = m * 32 + a := by omega
  rw [← this, u8_toNat_self]

theorem parseChunks_sound (text : Bool) (f : Nat) (bs r : Bytes) (cs : List (Width × Bytes))
    (h : parseChunks text f bs = some (cs, r)) :
    chunksValid text cs = true ∧ bs = encChunks (if text then 3 else 2) cs ++ 0xff :: r := by
  induction f generalizing bs cs with
  | zero => simp [parseChunks] at h
  | succ f ih =>
    cases bs with
    | nil => simp [parseChunks] at h
    | cons b bs =>
      simp only [parseChunks] at h
      by_cases hb : b = 0xff
      · simp only [hb, if_true] at h
        cases h; subst hb
        simp [chunksValid, encChunks]
      · simp only [hb, if_false] at h
        by_cases hm : b.toNat / 32 = (if text then 3 else 2)
        · simp only [hm, if_true] at h
          cases hs : parseStr text (b.toNat % 32) bs with
          | none => simp [hs] at h
          | some q =>
            obtain ⟨w, p, r1⟩ := q
            simp only [hs] at h
            cases hc : parseChunks text f r1 with
            | none => simp [hc] at h
            | some q2 =>
              obtain ⟨cs', r2⟩ := q2
              simp only [hc] at h
              cases h
              obtain ⟨h1, h2, h3, h4⟩ := parseStr_sound hs
              obtain ⟨h5, h6⟩ := ih _ _ hc
              have hb := byte_eq b _ _ hm h2.symm
              refine ⟨?_, ?_⟩
              · simp only [chunksValid, h1, h5, Bool.and_true, Bool.true_and]
                cases text
                · simp
                · simp [h4 rfl]
              · simp only [encChunks, headW, List.cons_append, List.append_assoc]
                rw [hb, h3, h6]
        · simp only [hm, if_false] at h
          cases h

theorem headW_eq (b : UInt8) (m : Nat) (w : Width) (n : Nat) (bs r : Bytes)
    (h1 : b.toNat / 32 = m) (h2 : w.ai n = b.toNat % 32) (h3 : bs = be w.bytes n ++ r) :
    b :: bs = headW m w n ++ r := by
  rw [byte_eq b _ _ h1 h2.symm, h3]; rfl

theorem parse_sound_aux (f : Nat) :
    (∀ bs w r, parseItem f bs = some (w, r) → w.valid = true ∧ bs = encW w ++ r) ∧
    (∀ n bs xs r, parseItems f n bs = some (xs, r) →
        validAll xs = true ∧ xs.length = n ∧ bs = encWs xs ++ r) ∧
    (∀ bs xs r, parseBreak f bs = some (xs, r) → validAll xs = true ∧ bs = encWs xs ++ 0xff :: r) := by
  induction f with
  | zero =>
    refine ⟨?_, ?_, ?_⟩
    · intro bs w r h; simp [parseItem] at h
    · intro n bs xs r h
      cases n with
      | zero => simp [parseItems] at h; obtain ⟨rfl, rfl⟩ := h; simp [validAll, encWs]
      | succ n => simp [parseItems] at h
    · intro bs xs r h; simp [parseBreak] at h
  | succ f ih =>
    obtain ⟨ihI, ihL, ihB⟩ := ih
    refine ⟨?_, ?_, ?_⟩
    · intro bs w r h
      cases bs with
      | nil => simp [parseItem] at h
      | cons b bs =>
        have hlt := b.toNat_lt
        obtain ⟨m, hm⟩ : ∃ m, b.toNat / 32 = m := ⟨_, rfl⟩
        obtain ⟨a, ha⟩ : ∃ a, b.toNat % 32 = a := ⟨_, rfl⟩
        have hm7 : m = 0 ∨ m = 1 ∨ m = 2 ∨ m = 3 ∨ m = 4 ∨ m = 5 ∨ m = 6 ∨ m = 7 := by omega
        rcases hm7 with rfl | rfl | rfl | rfl | rfl | rfl | rfl | rfl
        · -- unsigned
          cases hp : parseArg a bs with
          | none => simp [parseItem, hm, ha, hp] at h
          | some q =>
            obtain ⟨wd, n, r'⟩ := q
            simp [parseItem, hm, ha, hp] at h
            obtain ⟨rfl, rfl⟩ := h
            obtain ⟨h1, h2, h3⟩ := parseArg_sound hp
            exact ⟨by simpa [WItem.valid] using h1,
              by simp only [encW]; exact headW_eq b 0 wd n bs _ hm (by omega) h3⟩
        · -- negative
          cases hp : parseArg a bs with
          | none => simp [parseItem, hm, ha, hp] at h
          | some q =>
            obtain ⟨wd, n, r'⟩ := q
            simp [parseItem, hm, ha, hp] at h
            obtain ⟨rfl, rfl⟩ := h
            obtain ⟨h1, h2, h3⟩ := parseArg_sound hp
            exact ⟨by simpa [WItem.valid] using h1,
              by simp only [encW]; exact headW_eq b 1 wd n bs _ hm (by omega) h3⟩
        · -- bytes
          by_cases h31 : a = 31
          · subst h31
            cases hp : parseChunks false (bs.length + 1) bs with
            | none => simp [parseItem, hm, ha, hp] at h
            | some q =>
              obtain ⟨cs, r'⟩ := q
              simp [parseItem, hm, ha, hp] at h
              obtain ⟨rfl, rfl⟩ := h
              obtain ⟨h1, h2⟩ := parseChunks_sound _ _ _ _ _ hp
              refine ⟨by simpa [WItem.valid] using h1, ?_⟩
              simp only [encW, List.cons_append, List.append_assoc, List.nil_append]
              rw [byte_eq b 2 31 hm ha, h2]; rfl
          · cases hp : parseStr false a bs with
            | none => simp [parseItem, hm, ha, hp, h31] at h
            | some q =>
              obtain ⟨wd, p, r'⟩ := q
              simp [parseItem, hm, ha, hp, h31] at h
              obtain ⟨rfl, rfl⟩ := h
              obtain ⟨h1, h2, h3, h4⟩ := parseStr_sound hp
              refine ⟨by simpa [WItem.valid] using h1, ?_⟩
              simp only [encW, List.append_assoc]
              exact headW_eq b 2 wd _ bs _ hm (by omega) h3
        · -- text
          by_cases h31 : a = 31
          · subst h31
            cases hp : parseChunks true (bs.length + 1) bs with
            | none => simp [parseItem, hm, ha, hp] at h
            | some q =>
              obtain ⟨cs, r'⟩ := q
              simp [parseItem, hm, ha, hp] at h
              obtain ⟨rfl, rfl⟩ := h
              obtain ⟨h1, h2⟩ := parseChunks_sound _ _ _ _ _ hp
              refine ⟨by simpa [WItem.valid] using h1, ?_⟩
              simp only [encW, List.cons_append, List.append_assoc, List.nil_append]
              rw [byte_eq b 3 31 hm ha, h2]; rfl
          · cases hp : parseStr true a bs with
            | none => simp [parseItem, hm, ha, hp, h31] at h
            | some q =>
              obtain ⟨wd, p, r'⟩ := q
              simp [parseItem, hm, ha, hp, h31] at h
              obtain ⟨rfl, rfl⟩ := h
              obtain ⟨h1, h2, h3, h4⟩ := parseStr_sound hp
              refine ⟨by simp [WItem.valid, h1, h4 rfl], ?_⟩
              simp only [encW, List.append_assoc]
              exact headW_eq b 3 wd _ bs _ hm (by omega) h3
        · -- array
          by_cases h31 : a = 31
          · subst h31
            cases hp : parseBreak f bs with
            | none => simp [parseItem, hm, ha, hp] at h
            | some q =>
              obtain ⟨xs, r'⟩ := q
              simp [parseItem, hm, ha, hp] at h
              obtain ⟨rfl, rfl⟩ := h
              obtain ⟨h1, h2⟩ := ihB _ _ _ hp
              refine ⟨by simpa [WItem.valid] using h1, ?_⟩
              simp only [encW, List.cons_append, List.append_assoc, List.nil_append]
              rw [byte_eq b 4 31 hm ha, h2]; rfl
          · cases hp : parseArg a bs with
            | none => simp [parseItem, hm, ha, hp, h31] at h
            | some q =>
              obtain ⟨wd, n, r1⟩ := q
              cases hl : parseItems f n r1 with
              | none => simp [parseItem, hm, ha, hp, h31, hl] at h
              | some q2 =>
                obtain ⟨xs, r2⟩ := q2
                simp [parseItem, hm, ha, hp, h31, hl] at h
                obtain ⟨rfl, rfl⟩ := h
                obtain ⟨h1, h2, h3⟩ := parseArg_sound hp
                obtain ⟨h4, h5, h6⟩ := ihL _ _ _ _ hl
                subst h5
                refine ⟨by simp [WItem.valid, h1, h4], ?_⟩
                simp only [encW, List.append_assoc]
                rw [← h6]
                exact headW_eq b 4 wd _ bs _ hm (by omega) h3
        · -- map
          by_cases h31 : a = 31
          · subst h31
            cases hp : parseBreak f bs with
            | none => simp [parseItem, hm, ha, hp] at h
            | some q =>
              obtain ⟨xs, r'⟩ := q
              simp [parseItem, hm, ha, hp] at h
              obtain ⟨he, rfl, rfl⟩ := h
              obtain ⟨h1, h2⟩ := ihB _ _ _ hp
              refine ⟨by simp [WItem.valid, h1, he], ?_⟩
              simp only [encW, List.cons_append, List.append_assoc, List.nil_append]
              rw [byte_eq b 5 31 hm ha, h2]; rfl
          · cases hp : parseArg a bs with
            | none => simp [parseItem, hm, ha, hp, h31] at h
            | some q =>
              obtain ⟨wd, n, r1⟩ := q
              cases hl : parseItems f (2 * n) r1 with
              | none => simp [parseItem, hm, ha, hp, h31, hl] at h
              | some q2 =>
                obtain ⟨xs, r2⟩ := q2
                simp [parseItem, hm, ha, hp, h31, hl] at h
                obtain ⟨rfl, rfl⟩ := h
                obtain ⟨h1, h2, h3⟩ := parseArg_sound hp
                obtain ⟨h4, h5, h6⟩ := ihL _ _ _ _ hl
                have e : xs.length / 2 = n := by omega
                refine ⟨by simp [WItem.valid, e, h1, h4]; omega, ?_⟩
                simp only [encW, List.append_assoc, e]
                rw [← h6]
                exact headW_eq b 5 wd _ bs _ hm (by omega) h3
        · -- tag
          cases hp : parseArg a bs with
          | none => simp [parseItem, hm, ha, hp] at h
          | some q =>
            obtain ⟨wd, n, r1⟩ := q
            cases hl : parseItem f r1 with
            | none => simp [parseItem, hm, ha, hp, hl] at h
            | some q2 =>
              obtain ⟨x, r2⟩ := q2
              simp [parseItem, hm, ha, hp, hl] at h
              obtain ⟨rfl, rfl⟩ := h
              obtain ⟨h1, h2, h3⟩ := parseArg_sound hp
              obtain ⟨h4, h6⟩ := ihI _ _ _ hl
              refine ⟨by simp [WItem.valid, h1, h4], ?_⟩
              simp only [encW, List.append_assoc]
              rw [← h6]
              exact headW_eq b 6 wd _ bs _ hm (by omega) h3
        · -- simple / float
          have hb := byte_eq b 7 a hm ha
          by_cases h24 : a < 24
          · simp [parseItem, hm, ha, h24] at h
            obtain ⟨rfl, rfl⟩ := h
            refine ⟨by simp [WItem.valid, h24], ?_⟩
            simp only [encW, h24, if_true, List.cons_append, List.nil_append]
            rw [hb]
          · by_cases e24 : a = 24
            · subst e24
              cases bs with
              | nil => simp [parseItem, hm, ha] at h
              | cons x bs =>
                simp [parseItem, hm, ha] at h
                obtain ⟨hx, rfl, rfl⟩ := h
                have := x.toNat_lt
                refine ⟨by simp [WItem.valid]; omega, ?_⟩
                have hx' : ¬ x.toNat < 24 := by omega
                simp only [encW, hx', if_false, List.cons_append, List.nil_append, u8_toNat_self]
                rw [hb]; rfl
            · by_cases e25 : a = 25
              · subst e25
                cases ht : takeN 2 bs with
                | none => simp [parseItem, hm, ha, ht] at h
                | some q =>
                  obtain ⟨x, r'⟩ := q
                  simp [parseItem, hm, ha, ht] at h
                  obtain ⟨rfl, rfl⟩ := h
                  obtain ⟨h1, h2⟩ := takeN_be_sound ht
                  refine ⟨by simp [WItem.valid]; omega, ?_⟩
                  simp only [encW, List.cons_append]
                  rw [hb, h1]; rfl
              · by_cases e26 : a = 26
                · subst e26
                  cases ht : takeN 4 bs with
                  | none => simp [parseItem, hm, ha, ht] at h
                  | some q =>
                    obtain ⟨x, r'⟩ := q
                    simp [parseItem, hm, ha, ht] at h
                    obtain ⟨rfl, rfl⟩ := h
                    obtain ⟨h1, h2⟩ := takeN_be_sound ht
                    refine ⟨by simp [WItem.valid]; omega, ?_⟩
                    simp only [encW, List.cons_append]
                    rw [hb, h1]; rfl
                · by_cases e27 : a = 27
                  · subst e27
                    cases ht : takeN 8 bs with
                    | none => simp [parseItem, hm, ha, ht] at h
                    | some q =>
                      obtain ⟨x, r'⟩ := q
                      simp [parseItem, hm, ha, ht] at h
                      obtain ⟨rfl, rfl⟩ := h
                      obtain ⟨h1, h2⟩ := takeN_be_sound ht
                      refine ⟨by simp [WItem.valid]; omega, ?_⟩
                      simp only [encW, List.cons_append]
                      rw [hb, h1]; rfl
                  · simp [parseItem, hm, ha, h24, e24, e25, e26, e27] at h
    · intro n bs xs r h
      cases n with
      | zero => simp [parseItems] at h; obtain ⟨rfl, rfl⟩ := h; simp [validAll, encWs]
      | succ n =>
        cases hp : parseItem f bs with
        | none => simp [parseItems, hp] at h
        | some q =>
          obtain ⟨x, r1⟩ := q
          cases hl : parseItems f n r1 with
          | none => simp [parseItems, hp, hl] at h
          | some q2 =>
            obtain ⟨xs', r2⟩ := q2
            simp [parseItems, hp, hl] at h
            obtain ⟨rfl, rfl⟩ := h
            obtain ⟨h1, h2⟩ := ihI _ _ _ hp
            obtain ⟨h3, h4, h5⟩ := ihL _ _ _ _ hl
            refine ⟨by simp [validAll, h1, h3], by simp [h4], ?_⟩
            simp only [encWs, List.append_assoc]
            rw [← h5, ← h2]
    · intro bs xs r h
      cases bs with
      | nil => simp [parseBreak] at h
      | cons b bs =>
        by_cases hb : b = 0xff
        · subst hb
          simp [parseBreak] at h
          obtain ⟨rfl, rfl⟩ := h
          simp [validAll, encWs]
        · cases hp : parseItem f (b :: bs) with
          | none => simp [parseBreak, hb, hp] at h
          | some q =>
            obtain ⟨x, r1⟩ := q
            cases hl : parseBreak f r1 with
            | none => simp [parseBreak, hb, hp, hl] at h
            | some q2 =>
              obtain ⟨xs', r2⟩ := q2
              simp [parseBreak, hb, hp, hl] at h
              obtain ⟨rfl, rfl⟩ := h
              obtain ⟨h1, h2⟩ := ihI _ _ _ hp
              obtain ⟨h3, h5⟩ := ihB _ _ _ hl
              refine ⟨by simp [validAll, h1, h3], ?_⟩
              simp only [encWs, List.append_assoc]
              rw [← h5, ← h2]

/-- **soundness of the reference parser**: it accepts only encodings of valid trees. -/
theorem parse_sound (bs : Bytes) (w : WItem) (r : Bytes) (h : parse bs = some (w, r)) :
    w.valid = true ∧ bs = encW w ++ r :=
  (parse_sound_aux _).1 bs w r h

/-- "well-formed encoding" (the image of `encW` on valid trees) = accepted by the reference parser. -/
theorem wellformed_iff (bs : Bytes) :
    (∃ w : WItem, w.valid = true ∧ bs = encW w) ↔ (∃ w, parse bs = some (w, [])) := by
  constructor
  · rintro ⟨w, hv, rfl⟩
    exact ⟨w, by simpa using parse_encW w [] hv⟩
  · rintro ⟨w, h⟩
    obtain ⟨hv, he⟩ := parse_sound bs w [] h
    exact ⟨w, hv, by simpa using he⟩

/-- **`skip` agrees with full decoding**: wherever the reference parser finds one well-formed
    item at the start of the input (a Rust slice, so shorter than `2^64`), `skip` succeeds and
    ends exactly where the parser ends. -/
theorem Dec.skip_agrees_parse (bs : Bytes) (w : WItem) (r : Bytes) (h : parse bs = some (w, r))
    (hlen : bs.length ≤ U64MAX) : Dec.skip true bs = .ok () r := by
  obtain ⟨hv, he⟩ := parse_sound bs w r h
  subst he
  exact Dec.skip_encW w r hv (by simp at hlen; omega)

end Minicbor
