/-
  The size of the diagnostic output, by a potential function.
  `phi st it` = what the configuration can still write without returning early: the pending
  separators / closers on the stack (`sw`) plus a cost per remaining token (`tc` = the size of its
  own rendering + 5).  The 5 pays for what a consumed token lets the printer push: as in the
  termination measure, an expansion puts up to four bytes of separators on the stack but always
  under an `E::N`, which is charged for them (`-4` when `N` is on top) because its next
  iteration consumes a token or — after commit 7258571 — returns.  Every iteration satisfies
  `size(emitted) + phi(after) ≤ phi(before)`; returning early writes at most `STOP_MAX`.
-/
import Minicbor.Lemmas.DisplayStep
import Minicbor.Lemmas.DisplaySpec

namespace Minicbor
open C19

theorem renderedLength_append (a b : List Piece) :
    renderedLength (a ++ b) = renderedLength a + renderedLength b := by
  induction a with
  | nil => simp [renderedLength]
  | cons p ps ih => simp [renderedLength, ih]; omega

@[simp] theorem renderedLength_nil : renderedLength [] = 0 := rfl
@[simp] theorem renderedLength_cons (p : Piece) (ps : List Piece) :
    renderedLength (p :: ps) = Piece.rlen p + renderedLength ps := rfl

/-- cost of an iterator item. -/
def tc : TokItem → Nat
  | .tok t => renderedLength t.render + 5
  | .err _ => 5

def tcs : List TokItem → Nat
  | [] => 0
  | x :: it => tc x + tcs it

/-- what a stack element can still write without consuming a token. -/
def sw : E → Nat
  | .S s => s.length
  | .X s => s.length
  | .A (some _) => 1
  | .M (some _) => 1
  | .T => 1
  | _ => 0

def sws : List E → Nat
  | [] => 0
  | e :: st => sw e + sws st

theorem sws_append (a b : List E) : sws (a ++ b) = sws a + sws b := by
  induction a with
  | nil => simp [sws]
  | cons x m ih => simp only [List.cons_append, sws, ih]; omega

/-! lengths of the literals the printer writes (`simp` does not evaluate `String.length`) -/
theorem toString_str (s : String) : toString s = s := rfl
@[simp] theorem len_lb : "[".length = 1 := by decide
@[simp] theorem len_rb : "]".length = 1 := by decide
@[simp] theorem len_lc : "{".length = 1 := by decide
@[simp] theorem len_rc : "}".length = 1 := by decide
@[simp] theorem len_lp : "(".length = 1 := by decide
@[simp] theorem len_rp : ")".length = 1 := by decide
@[simp] theorem len_lbi : "[_ ".length = 3 := by decide
@[simp] theorem len_lci : "{_ ".length = 3 := by decide
@[simp] theorem len_lpi : "(_ ".length = 3 := by decide
@[simp] theorem len_eb : "''_".length = 3 := by decide
@[simp] theorem len_es : "\"\"_".length = 3 := by decide
@[simp] theorem len_qB : "?B[".length = 3 := by decide
@[simp] theorem len_qS : "?S[".length = 3 := by decide
@[simp] theorem len_qA : "?A[".length = 3 := by decide
@[simp] theorem len_qM : "?M[".length = 3 := by decide
@[simp] theorem len_A : "A[".length = 2 := by decide
@[simp] theorem len_M : "M[".length = 2 := by decide
@[simp] theorem len_T : "T(".length = 2 := by decide
@[simp] theorem len_cs : ", ".length = 2 := by decide
@[simp] theorem len_col : ": ".length = 2 := by decide
@[simp] theorem len_err : " !!! decoding error: ".length = 21 := by decide

def phi (st : List E) (it : List TokItem) : Nat :=
  match st with
  | .N :: st' =>
    match it with
    | [] => 0
    | x :: it' => sws st' + (tc x - 4) + tcs it'
  | _ => sws st + tcs it

/-- the most an early `return` writes: ` !!! decoding error: ` and the error text, or one of the
    "not closed" messages. -/
def STOP_MAX : Nat := 21 + ERR_CHARGE

theorem tc_ge (x : TokItem) : 5 ≤ tc x := by cases x <;> simp [tc]

theorem phi_le (st : List E) (it : List TokItem) : phi st it ≤ sws st + tcs it := by
  unfold phi
  split
  · split
    · simp
    · rename_i x it'; have := tc_ge x; simp only [sws, sw, tcs]; omega
  · exact Nat.le_refl _

theorem phi_N_cons (st : List E) (x : TokItem) (it : List TokItem) :
    phi (.N :: st) (x :: it) + 4 = sws st + tc x + tcs it := by
  have := tc_ge x
  simp only [phi]; omega

theorem phi_notN (e : E) (st : List E) (it : List TokItem) (h : e ≠ .N) :
    phi (e :: st) it = sw e + sws st + tcs it := by
  cases e <;> first | exact absurd rfl h | rfl

/-- an expansion: `N :: more` replaces an element, `more` worth at most four more than it. -/
theorem phi_expand (more st : List E) (it : List TokItem) (w : Nat) (hm : sws more ≤ w + 4) :
    phi (.N :: (more ++ st)) it ≤ w + sws st + tcs it := by
  have happ := sws_append more st
  cases it with
  | nil => simp [phi]
  | cons x it =>
    have := phi_N_cons (more ++ st) x it
    simp only [tcs]
    omega

theorem tcs_tail (it : List TokItem) : tcs it.tail ≤ tcs it := by
  cases it <;> simp [tcs]

/-- what `E::N` writes for a token is never more than the token's own rendering. -/
theorem nstep_phi (t : Token) (st it1 st' it' : _) (em : List Piece)
    (h : nstep t st it1 = .cont st' it' em) :
    renderedLength em + phi st' it' ≤ sws st + (renderedLength t.render + 1) + tcs it1 := by
  have gen : ∀ (p : List E) (i : List TokItem), sws p ≤ 1 → tcs i ≤ tcs it1 →
      phi (p ++ st) i ≤ sws st + 1 + tcs it1 := by
    intro p i hp hi
    have := phi_le (p ++ st) i
    have happ := sws_append p st
    omega
  have ht := tcs_tail it1
  cases t <;> simp only [nstep] at h
  case beginBytes =>
    split at h <;> cases h
    · have := gen [] it1.tail (by simp [sws]) ht
      simp [Token.render, Piece.rlen, String.length_append, toString_str] at *; omega
    · have := gen [.B] it1 (by simp [sws, sw]) (Nat.le_refl _)
      simp [Token.render, Piece.rlen, String.length_append, toString_str] at *; omega
  case beginString =>
    split at h <;> cases h
    · have := gen [] it1.tail (by simp [sws]) ht
      simp [Token.render, Piece.rlen, String.length_append, toString_str] at *; omega
    · have := gen [.D] it1 (by simp [sws, sw]) (Nat.le_refl _)
      simp [Token.render, Piece.rlen, String.length_append, toString_str] at *; omega
  case array n =>
    cases h
    have := gen [.A (some n)] it1 (by simp [sws, sw]) (Nat.le_refl _)
    simp [Token.render, Piece.rlen, String.length_append, toString_str] at *; omega
  case map n =>
    cases h
    have := gen [.M (some n)] it1 (by simp [sws, sw]) (Nat.le_refl _)
    simp [Token.render, Piece.rlen, String.length_append, toString_str] at *; omega
  case beginArray =>
    cases h
    have := gen [.A none] it1 (by simp [sws, sw]) (Nat.le_refl _)
    simp [Token.render, Piece.rlen, String.length_append, toString_str] at *; omega
  case beginMap =>
    cases h
    have := gen [.M none] it1 (by simp [sws, sw]) (Nat.le_refl _)
    simp [Token.render, Piece.rlen, String.length_append, toString_str] at *; omega
  case tag n =>
    cases h
    have := gen [.T] it1 (by simp [sws, sw]) (Nat.le_refl _)
    simp [Token.render, Piece.rlen, String.length_append, toString_str] at *; omega
  all_goals
    cases h
    have := gen [] it1 (by simp [sws]) (Nat.le_refl _)
    simp only [List.nil_append] at this
    omega

theorem indefStep_phi (msg close : String) (more st : List E) (it : List TokItem) (st' it' : _)
    (em : List Piece) (hm : sws more ≤ 4) (hc : close.length ≤ 6)
    (h : indefStep msg close (.N :: more) st it = .cont st' it' em) :
    renderedLength em + phi st' it' ≤ sws st + tcs it := by
  unfold indefStep at h
  split at h
  · cases h
  · cases h
    have := phi_le st it'
    simp [tcs, tc, Piece.rlen, Token.render]; omega
  · cases h
    have := phi_expand more st it 0 (by omega)
    simpa using this

/-- **every iteration pays for what it writes.** -/
theorem dstep_phi (e : E) (st : List E) (it : List TokItem) (st' it' : _) (em : List Piece)
    (h : dstep e st it = .cont st' it' em) :
    renderedLength em + phi st' it' ≤ phi (e :: st) it := by
  cases e with
  | N =>
    cases it with
    | nil => simp [dstep] at h
    | cons x it1 =>
      cases x with
      | err e => simp [dstep] at h
      | tok t =>
        simp only [dstep] at h
        have h1 := nstep_phi t st it1 st' it' em h
        have h2 := phi_N_cons st (.tok t) it1
        simp only [tc] at h2
        omega
  | S s =>
    simp only [dstep] at h; cases h
    rw [phi_notN _ _ _ (by simp)]
    have := phi_le st it
    simp [sw, Piece.rlen]; omega
  | X s =>
    rw [phi_notN (.X s) _ _ (by simp)]
    simp only [dstep] at h
    have := phi_le st it
    split at h <;> first | (cases h; simp [sw, Piece.rlen]; omega) | cases h
  | T =>
    rw [phi_notN .T _ _ (by simp)]
    simp only [dstep] at h; cases h
    have := phi_expand [.S ")"] st it 1 (by simp [sws, sw])
    simpa [sw] using this
  | A n =>
    rw [phi_notN (.A n) _ _ (by simp)]
    match n with
    | none =>
      have := indefStep_phi _ _ _ st it st' it' em (by simp [sws, sw]) (by decide) h
      simpa [sw] using this
    | some 0 =>
      simp only [dstep] at h; cases h
      have := phi_le st it
      simp [sw, Piece.rlen]; omega
    | some 1 =>
      simp only [dstep] at h; cases h
      have := phi_expand [.A (some 0)] st it 1 (by simp [sws, sw])
      simpa [sw] using this
    | some (n + 2) =>
      simp only [dstep] at h; cases h
      have := phi_expand [.S ", ", .A (some (n + 1))] st it 1 (by simp [sws, sw])
      simpa [sw] using this
  | M n =>
    rw [phi_notN (.M n) _ _ (by simp)]
    match n with
    | none =>
      have := indefStep_phi _ _ _ st it st' it' em (by simp [sws, sw]) (by decide) h
      simpa [sw] using this
    | some 0 =>
      simp only [dstep] at h; cases h
      have := phi_le st it
      simp [sw, Piece.rlen]; omega
    | some 1 =>
      simp only [dstep] at h; cases h
      have := phi_expand [.S ": ", .N, .M (some 0)] st it 1 (by simp [sws, sw])
      simpa [sw] using this
    | some (n + 2) =>
      simp only [dstep] at h; cases h
      have := phi_expand [.S ": ", .N, .S ", ", .M (some (n + 1))] st it 1 (by simp [sws, sw])
      simpa [sw] using this
  | B =>
    rw [phi_notN .B _ _ (by simp)]
    have := indefStep_phi _ _ _ st it st' it' em (by simp [sws, sw]) (by decide) h
    simpa [sw] using this
  | D =>
    rw [phi_notN .D _ _ (by simp)]
    have := indefStep_phi _ _ _ st it st' it' em (by simp [sws, sw]) (by decide) h
    simpa [sw] using this

/-- an early return writes at most `STOP_MAX`. -/
theorem dstep_stop (e : E) (st : List E) (it : List TokItem) (em : List Piece)
    (h : dstep e st it = .stop em) : renderedLength em ≤ STOP_MAX := by
  have ind : ∀ (msg close : String) (more : List E), msg.length ≤ 38 →
      indefStep msg close more st it = .stop em → renderedLength em ≤ STOP_MAX := by
    intro msg close more hm h
    unfold indefStep at h
    split at h
    · cases h; simp [Piece.rlen, STOP_MAX, ERR_CHARGE]; omega
    · cases h
    · cases h
  cases e with
  | N =>
    simp only [dstep] at h
    split at h
    · rename_i t it'
      cases t <;> simp only [nstep] at h <;> (try split at h) <;> cases h
    · cases h; simp [Piece.rlen, STOP_MAX]
    · cases h; simp [Piece.rlen, STOP_MAX]
  | S s => simp [dstep] at h
  | X s =>
    simp only [dstep] at h
    split at h
    · cases h
    · cases h
    · cases h
    · cases h; simp [Piece.rlen, STOP_MAX]
  | T => simp [dstep] at h
  | A n =>
    match n with
    | none => exact ind _ _ _ (by decide) h
    | some 0 => simp [dstep] at h
    | some 1 => simp [dstep] at h
    | some (n + 2) => simp [dstep] at h
  | M n =>
    match n with
    | none => exact ind _ _ _ (by decide) h
    | some 0 => simp [dstep] at h
    | some 1 => simp [dstep] at h
    | some (n + 2) => simp [dstep] at h
  | B => exact ind _ _ _ (by decide) h
  | D => exact ind _ _ _ (by decide) h

/-- **the inner loop**: what it appends is paid by the potential (plus `STOP_MAX` when it returns
    early), and what it leaves in the iterator is still paid for. -/
theorem displayInner_bound (fuel : Nat) (st : List E) (it : List TokItem) (out out' : List Piece)
    (it' : List TokItem) (b : Bool) (h : displayInner fuel st it out = some (out', it', b)) :
    ∃ ex, out' = out ++ ex ∧
      (b = false → renderedLength ex + tcs it' ≤ phi st it) ∧
      (b = true → renderedLength ex ≤ phi st it + STOP_MAX) := by
  induction fuel generalizing st it out with
  | zero => rw [displayInner_zero] at h; cases h
  | succ f ih =>
    cases st with
    | nil =>
      rw [displayInner_nil] at h; cases h
      exact ⟨[], by simp, (fun _ => by simp [phi, sws]), (fun hb => by cases hb)⟩
    | cons e st =>
      rw [displayInner_succ] at h
      cases hd : dstep e st it with
      | stop em =>
        rw [hd] at h; simp only [dnext] at h; cases h
        have := dstep_stop e st it em hd
        exact ⟨em, rfl, (fun hb => by cases hb), (fun _ => by omega)⟩
      | cont st1 it1 em =>
        rw [hd] at h; simp only [dnext] at h
        obtain ⟨ex, h1, h2, h3⟩ := ih st1 it1 (out ++ em) h
        have hp := dstep_phi e st it st1 it1 em hd
        refine ⟨em ++ ex, by rw [h1, List.append_assoc], ?_, ?_⟩
        · intro hb; have := h2 hb; rw [renderedLength_append]; omega
        · intro hb; have := h3 hb; rw [renderedLength_append]; omega

theorem displayOuter_cons' (fuel inner : Nat) (x : TokItem) (it : List TokItem) (out : List Piece) :
    displayOuter (fuel + 1) inner (x :: it) out =
      match displayInner inner [.N] (x :: it) out with
      | none => none
      | some (out', _, true) => some out'
      | some (out', it', false) => displayOuter fuel inner it' out' := by
  conv => lhs; unfold displayOuter
  rfl

/-- **the whole printer**: the output is paid by the cost of the tokens, plus one early return. -/
theorem displayOuter_bound (fuel inner : Nat) (it : List TokItem) (out ps : List Piece)
    (h : displayOuter fuel inner it out = some ps) :
    ∃ ex, ps = out ++ ex ∧ renderedLength ex ≤ tcs it + STOP_MAX := by
  induction fuel generalizing it out with
  | zero => unfold displayOuter at h; cases h
  | succ f ih =>
    cases it with
    | nil =>
      unfold displayOuter at h; cases h
      exact ⟨[], by simp, by simp⟩
    | cons x it =>
      rw [displayOuter_cons'] at h
      have hphi : phi [.N] (x :: it) ≤ tcs (x :: it) := by
        have := phi_N_cons [] x it
        simp only [sws, tcs] at *; omega
      cases hi : displayInner inner [.N] (x :: it) out with
      | none => rw [hi] at h; cases h
      | some r =>
        obtain ⟨o, i, b⟩ := r
        rw [hi] at h
        obtain ⟨ex, h1, h2, h3⟩ := displayInner_bound inner [.N] (x :: it) out o i b hi
        cases b with
        | true =>
          simp only [] at h; cases h
          exact ⟨ex, h1, by have := h3 rfl; omega⟩
        | false =>
          simp only [] at h
          obtain ⟨ex2, e1, e2⟩ := ih i o h
          refine ⟨ex ++ ex2, by rw [e1, h1, List.append_assoc], ?_⟩
          have := h2 rfl
          rw [renderedLength_append]; omega

end Minicbor
