/-
  Helper lemmas for C09, re-framed input (`rf`, Reframe.lean): what the generated decoder does on
  a wire tree that re-frames the derived encoding — heads of any width, indefinite-length
  containers.  Part A: first bytes of valid trees; part B: leaves, `Option`, `Vec`;
  part C: struct / variant bodies through the generic engine (DeriveGen.lean); part D: enums.
-/
import Minicbor.Reframe
import Minicbor.Lemmas.DeriveGen
import Minicbor.Lemmas.SkipTok

namespace Minicbor.Derive
open Minicbor.Dec

/-! ### A. the first byte of a valid wire tree -/

theorem start_headW (maj : Nat) (wd : Width) (n : Nat) (tl : Bytes) (hm : maj < 7) (h : wd.fits n = true) :
    startNB (headW maj wd n ++ tl) = true ∧ startOk (headW maj wd n ++ tl) = true := by
  have hai := Width.ai_le wd n h
  have hb : (u8 (maj * 32 + wd.ai n)).toNat = maj * 32 + wd.ai n := headByte_toNat maj wd n (by omega) h
  have hne : (be wd.bytes n ++ tl).isEmpty = true → ¬ (0x38 ≤ maj * 32 + wd.ai n ∧ maj * 32 + wd.ai n ≤ 0x3b) := by
    intro he hr
    have hl : (be wd.bytes n ++ tl).length = 0 := by
      cases hx : be wd.bytes n ++ tl with
      | nil => rfl
      | cons a b => rw [hx] at he; simp at he
    rw [List.length_append, be_length] at hl
    cases wd <;> simp [Width.bytes, Width.ai, Width.fits] at hl hr h <;> omega
  simp only [headW, List.cons_append, startNB, startOk, hb, Bool.and_eq_true, bne_iff_ne, ne_eq, Bool.or_eq_true,
    Bool.not_eq_true', Bool.and_eq_false_iff, decide_eq_false_iff_not, decide_eq_true_eq]
  refine ⟨⟨by omega, ?_⟩, ⟨by omega, ?_⟩⟩
  all_goals
    by_cases he : (be wd.bytes n ++ tl).isEmpty = true
    · left
      have := hne he
      omega
    · right; simpa using he

theorem startNB_encW (w : WItem) (hv : w.valid = true) : startNB (encW w) = true := by
  cases w with
  | uint wd n => simpa [encW] using (start_headW 0 wd n [] (by decide) (by simpa [WItem.valid] using hv)).1
  | nint wd n => simpa [encW] using (start_headW 1 wd n [] (by decide) (by simpa [WItem.valid] using hv)).1
  | bytes wd b => simp only [encW]; exact (start_headW 2 wd _ b (by decide) (by simpa [WItem.valid] using hv)).1
  | text wd b =>
    simp only [WItem.valid, Bool.and_eq_true] at hv
    simp only [encW]; exact (start_headW 3 wd _ b (by decide) hv.1).1
  | array wd xs =>
    simp only [WItem.valid, Bool.and_eq_true] at hv
    simp only [encW]; exact (start_headW 4 wd _ _ (by decide) hv.1).1
  | map wd kvs =>
    simp only [WItem.valid, Bool.and_eq_true] at hv
    simp only [encW]; exact (start_headW 5 wd _ _ (by decide) hv.1.2).1
  | tag wd n x =>
    simp only [WItem.valid, Bool.and_eq_true] at hv
    simp only [encW]; exact (start_headW 6 wd _ _ (by decide) hv.1).1
  | bytesI cs => simp [encW, startNB]
  | textI cs => simp [encW, startNB]
  | arrayI xs => simp [encW, startNB]
  | mapI kvs => simp [encW, startNB]
  | simple n =>
    simp only [WItem.valid, Bool.or_eq_true, Bool.and_eq_true, decide_eq_true_eq] at hv
    simp only [encW]
    split
    · rename_i h
      have : (u8 (0xe0 + n)).toNat = 0xe0 + n := u8_toNat (by omega)
      simp [startNB, this]; omega
    · simp [startNB]
  | f16 b => simp [encW, startNB]
  | f32 b => simp [encW, startNB]
  | f64 b => simp [encW, startNB]

theorem startOk_encW (w : WItem) (hv : w.valid = true) (hn : isNullW w = false) : startOk (encW w) = true := by
  cases w with
  | uint wd n => simpa [encW] using (start_headW 0 wd n [] (by decide) (by simpa [WItem.valid] using hv)).2
  | nint wd n => simpa [encW] using (start_headW 1 wd n [] (by decide) (by simpa [WItem.valid] using hv)).2
  | bytes wd b => simp only [encW]; exact (start_headW 2 wd _ b (by decide) (by simpa [WItem.valid] using hv)).2
  | text wd b =>
    simp only [WItem.valid, Bool.and_eq_true] at hv
    simp only [encW]; exact (start_headW 3 wd _ b (by decide) hv.1).2
  | array wd xs =>
    simp only [WItem.valid, Bool.and_eq_true] at hv
    simp only [encW]; exact (start_headW 4 wd _ _ (by decide) hv.1).2
  | map wd kvs =>
    simp only [WItem.valid, Bool.and_eq_true] at hv
    simp only [encW]; exact (start_headW 5 wd _ _ (by decide) hv.1.2).2
  | tag wd n x =>
    simp only [WItem.valid, Bool.and_eq_true] at hv
    simp only [encW]; exact (start_headW 6 wd _ _ (by decide) hv.1).2
  | bytesI cs => simp [encW, startOk]
  | textI cs => simp [encW, startOk]
  | arrayI xs => simp [encW, startOk]
  | mapI kvs => simp [encW, startOk]
  | simple n =>
    simp only [WItem.valid, Bool.or_eq_true, Bool.and_eq_true, decide_eq_true_eq] at hv
    have hn' : n ≠ 22 := by simpa [isNullW] using hn
    simp only [encW]
    split
    · rename_i h
      have : (u8 (0xe0 + n)).toNat = 0xe0 + n := u8_toNat (by omega)
      simp [startOk, this]; omega
    · simp [startOk]
  | f16 b => simp [encW, startOk]
  | f32 b => simp [encW, startOk]
  | f64 b => simp [encW, startOk]

theorem isNullW_eq (w : WItem) (h : isNullW w = true) : w = .simple 22 := by
  cases w <;> simp [isNullW] at h
  subst h; rfl

theorem encW_null : encW (.simple 22) = Enc.null := rfl

theorem validAll_get : ∀ (xs : List WItem) (i : Nat) (x : WItem), validAll xs = true → xs[i]? = some x → x.valid = true
  | [], i, x, _, h => by simp at h
  | y :: ys, 0, x, hv, h => by
    simp only [validAll, Bool.and_eq_true] at hv
    simp at h; subst h; exact hv.1
  | y :: ys, i + 1, x, hv, h => by
    simp only [validAll, Bool.and_eq_true] at hv
    simp at h
    exact validAll_get ys i x hv.2 h

theorem validAll_mem : ∀ (xs : List WItem) (x : WItem), validAll xs = true → x ∈ xs → x.valid = true
  | [], x, _, h => by simp at h
  | y :: ys, x, hv, h => by
    simp only [validAll, Bool.and_eq_true] at hv
    rcases List.mem_cons.1 h with rfl | h
    · exact hv.1
    · exact validAll_mem ys x hv.2 h

/-! ### B. leaves, `Option`, `Vec` -/

theorem rf_int_dec (k : IntK) (i : Int) (w : WItem) (rest : Bytes) (hv : k.inRange i = true) (hw : w.valid = true)
    (h : isIntW i w = true) : intAcc k.ty (encW w ++ rest) = .ok i rest := by
  simp only [IntK.inRange, Bool.and_eq_true, decide_eq_true_eq] at hv
  cases w <;> simp [isIntW] at h
  · rename_i wd n
    subst h
    have := (C05.int_accessor_exact k.ty wd false n rest (by simpa [WItem.valid] using hw)).1
      (by simpa [C05.intVal, C05.Representable] using hv)
    simpa [C05.intHead, C05.intVal, encW] using this
  · rename_i wd n
    subst h
    have := (C05.int_accessor_exact k.ty wd true n rest (by simpa [WItem.valid] using hw)).1
      (by simpa [C05.intVal, C05.Representable] using hv)
    simpa [C05.intHead, C05.intVal, encW] using this

theorem rf_bool_dec (b : Bool) (w : WItem) (rest : Bytes) (h : isBoolW b w = true) :
    Dec.bool (encW w ++ rest) = .ok b rest := by
  cases w <;> simp [isBoolW] at h
  subst h
  have : encW (.simple (if b then 21 else 20)) = Enc.bool b := by cases b <;> rfl
  rw [this]; exact bool_enc b rest

theorem rf_text_dec (b : Bytes) (w : WItem) (rest : Bytes) (hw : w.valid = true) (h : isTextW b w = true) :
    Dec.str (encW w ++ rest) = .ok b rest := by
  cases w <;> simp [isTextW] at h
  subst h
  simp only [WItem.valid, Bool.and_eq_true] at hw
  exact C04.str_sound _ _ rest hw.1 hw.2

theorem rf_bytes_dec (b : Bytes) (w : WItem) (rest : Bytes) (hw : w.valid = true) (h : isBytesW b w = true) :
    Dec.bytes (encW w ++ rest) = .ok b rest := by
  cases w <;> simp [isBytesW] at h
  subst h
  exact C04.bytes_sound _ _ rest (by simpa [WItem.valid] using hw)

theorem rf_none_dec (dec : Dec Val) (w : WItem) (rest : Bytes) (h : isNullW w = true) :
    optionDec dec (encW w ++ rest) = .ok .none rest := by
  rw [isNullW_eq w h, encW_null]; exact optionDec_none dec rest

theorem rf_some_dec (dec : Dec Val) (w : WItem) (rest : Bytes) (x : Val) (hw : w.valid = true)
    (hn : isNullW w = false) (hd : dec (encW w ++ rest) = .ok x rest) :
    optionDec dec (encW w ++ rest) = .ok (.some x) rest :=
  optionDec_some dec (encW w) rest x (startOk_encW w hw hn) hd

theorem vecLoopN_rf (dec : Dec Val) (p : Val → WItem → Bool) (f : Val → Val) :
    ∀ (vs : List Val) (xs : List WItem) (rest : Bytes), all2 p vs xs = true →
    (∀ v ∈ vs, ∀ x ∈ xs, p v x = true → ∀ r, dec (encW x ++ r) = .ok (f v) r) →
    vecLoopN dec xs.length (encWs xs ++ rest) = .ok (vs.map f) rest
  | [], [], rest, _, _ => by simp [vecLoopN, encWs]
  | v :: vs, x :: xs, rest, h, hd => by
    simp only [all2, Bool.and_eq_true] at h
    have ih := vecLoopN_rf dec p f vs xs rest h.2 (fun v' hv' x' hx' => hd v' (by simp [hv']) x' (by simp [hx']))
    simp only [List.length_cons, vecLoopN, encWs, List.append_assoc, Dec.bind_run, hd v (by simp) x (by simp) h.1, ih]
    rfl
  | [], _ :: _, _, h, _ => by simp [all2] at h
  | _ :: _, [], _, h, _ => by simp [all2] at h

theorem current_start (bs tl : Bytes) (h : startNB bs = true) :
    ∃ b, Dec.current (bs ++ tl) = .ok b (bs ++ tl) ∧ (b == 0xff) = false := by
  cases bs with
  | nil => simp [startNB] at h
  | cons b t =>
    simp only [startNB, Bool.and_eq_true, bne_iff_ne, ne_eq] at h
    refine ⟨b, by simp [Dec.current_cons], ?_⟩
    have : b ≠ 0xff := by
      intro e; apply h.1; rw [e]; rfl
    simpa using this

theorem vecLoopI_rf (dec : Dec Val) (p : Val → WItem → Bool) (f : Val → Val) :
    ∀ (vs : List Val) (xs : List WItem) (rest : Bytes) (fuel : Nat), xs.length < fuel → all2 p vs xs = true →
    validAll xs = true →
    (∀ v ∈ vs, ∀ x ∈ xs, p v x = true → ∀ r, dec (encW x ++ r) = .ok (f v) r) →
    vecLoopI dec fuel (encWs xs ++ 0xff :: rest) = .ok (vs.map f) rest
  | [], [], rest, fuel + 1, _, _, _, _ => by
    simp only [encWs, List.nil_append, vecLoopI, Dec.bind_run, Dec.current_cons, beq_self_eq_true, if_true, List.map_nil]
    rfl
  | v :: vs, x :: xs, rest, fuel + 1, hf, h, hv, hd => by
    simp only [all2, Bool.and_eq_true] at h
    simp only [validAll, Bool.and_eq_true] at hv
    have ih := vecLoopI_rf dec p f vs xs rest fuel (by simp at hf; omega) h.2 hv.2
      (fun v' hv' x' hx' => hd v' (by simp [hv']) x' (by simp [hx']))
    obtain ⟨b, hb1, hb2⟩ := current_start (encW x) (encWs xs ++ 0xff :: rest) (startNB_encW x hv.1)
    simp only [vecLoopI, encWs, List.append_assoc]
    rw [Dec.bind_run, hb1]
    simp only [hb2, Bool.false_eq_true, if_false]
    rw [Dec.bind_run, hd v (by simp) x (by simp) h.1]
    simp only []
    rw [Dec.bind_run, ih]
    rfl
  | [], _ :: _, _, _, _, h, _, _ => by simp [all2] at h
  | _ :: _, [], _, _, _, h, _, _ => by simp [all2] at h
  | _, _, _, 0, hf, _, _, _ => by omega

theorem encWs_length_ge : ∀ (xs : List WItem), validAll xs = true → xs.length ≤ (encWs xs).length
  | [], _ => by simp
  | x :: xs, hv => by
    simp only [validAll, Bool.and_eq_true] at hv
    have := encWs_length_ge xs hv.2
    have := startNB_length _ (startNB_encW x hv.1)
    simp only [encWs, List.length_append, List.length_cons]
    omega

theorem all2_length {α β : Type} (p : α → β → Bool) : ∀ (as : List α) (bs : List β), all2 p as bs = true → as.length = bs.length
  | [], [], _ => rfl
  | a :: as, b :: bs, h => by
    simp only [all2, Bool.and_eq_true] at h
    simp [all2_length p as bs h.2]
  | [], _ :: _, h => by simp [all2] at h
  | _ :: _, [], h => by simp [all2] at h

/-- `Vec<T>` on a re-framed array (definite of any width, or indefinite). -/
theorem rf_vec_dec (dec : Dec Val) (p : Val → WItem → Bool) (f : Val → Val) (vs : List Val) (w : WItem) (rest : Bytes)
    (hw : w.valid = true)
    (h : (match arrItems w with | some xs => all2 p vs xs | none => false) = true)
    (hd : ∀ v ∈ vs, ∀ x, x.valid = true → p v x = true → ∀ r, dec (encW x ++ r) = .ok (f v) r) :
    vecDec dec (encW w ++ rest) = .ok (.list (vs.map f)) rest := by
  cases w <;> simp [arrItems] at h
  · rename_i wd xs
    simp only [WItem.valid, Bool.and_eq_true] at hw
    have := vecLoopN_rf dec p f vs xs rest h (fun v hv x hx hp => hd v hv x (validAll_mem xs x hw.2 hx) hp)
    simp only [vecDec, encW, List.append_assoc, Dec.bind_run, C04.array_sound wd xs.length _ hw.1, this]
    rfl
  · rename_i xs
    simp only [WItem.valid] at hw
    have hlen := encWs_length_ge xs hw
    have := vecLoopI_rf dec p f vs xs rest ((encWs xs ++ 0xff :: rest).length + 1)
      (by simp only [List.length_append]; omega) h hw
      (fun v hv x hx hp => hd v hv x (validAll_mem xs x hw hx) hp)
    simp only [vecDec, encW, List.cons_append, List.append_assoc, List.singleton_append, List.nil_append, Dec.bind_run,
      C04.array_indef, Dec.remaining, this]
    rfl

/-! ### C. struct / variant bodies -/

/-- the tag check on a re-framed tag head (any width). -/
theorem tag_rf (t : Option Nat) (x y : WItem) (r : Bytes) (hx : x.valid = true) (h : untagW t x = some y) :
    tagCheck t (encW x ++ r) = .ok () (encW y ++ r) ∧ y.valid = true := by
  cases t with
  | none =>
    simp only [untagW] at h
    cases h
    exact ⟨rfl, hx⟩
  | some n =>
    cases x <;> simp [untagW] at h
    rename_i wd m z
    obtain ⟨hm, rfl⟩ := h
    subst hm
    simp only [WItem.valid, Bool.and_eq_true] at hx
    refine ⟨?_, hx.2⟩
    simp [tagCheck, encW, Dec.bind_run, C04.tag_sound wd m _ hx.1]

theorem action_rf (fd : FDec) (x y : WItem) (r : Bytes) (v' : Val) (hx : x.valid = true)
    (ht : untagW fd.a.tag x = some y) (hd : fd.dec (encW y ++ r) = .ok v' r) :
    action fd (encW x ++ r) = .ok (some v') r := by
  have hb : bareNull fd (encW x ++ r) = .ok false (encW x ++ r) := by
    cases ht' : fd.a.tag with
    | none => exact bareNull_untagged fd _ ht'
    | some n =>
      rw [ht'] at ht
      cases x <;> simp [untagW] at ht
      exact bareNull_start fd _ r (startOk_encW _ hx (by simp [isNullW]))
  rw [action_of_not_bare _ _ hb, Dec.bind_run, (tag_rf fd.a.tag x y r hx ht).1]
  simp only [catchVariant, hd]

theorem lookupVal_of_field : ∀ (fs : Fields) (vs : List Val) (b : FAttr) (u : FTy), (liveIdxs fs).Nodup →
    hasFields fs vs = true → (b, u) ∈ fs → b.skip = false → ∃ v, lookupVal fs vs b.idx = some (b, u, v)
  | [], _, _, _, _, _, h, _ => by simp at h
  | (a, t) :: fs, [], _, _, _, hv, _, _ => by simp [hasFields] at hv
  | (a, t) :: fs, v :: vs, b, u, hnd, hv, h, hs => by
    simp only [hasFields, Bool.and_eq_true] at hv
    rcases List.mem_cons.1 h with e | h'
    · cases e
      exact ⟨v, by simp [lookupVal, hs]⟩
    · cases has : a.skip
      · have hnd' : a.idx ∉ liveIdxs fs ∧ (liveIdxs fs).Nodup := by simpa [liveIdxs, has] using hnd
        obtain ⟨w, hw⟩ := lookupVal_of_field fs vs b u hnd'.2 hv.2 h' hs
        have hne : a.idx ≠ b.idx := by
          intro e; apply hnd'.1; rw [e]; exact mem_liveIdxs fs b u h' hs
        have hb : (a.idx == b.idx) = false := by simpa using hne
        exact ⟨w, by simp [lookupVal, has, hb, hw]⟩
      · have hnd' : (liveIdxs fs).Nodup := by simpa [liveIdxs, has] using hnd
        obtain ⟨w, hw⟩ := lookupVal_of_field fs vs b u hnd' hv.2 h' hs
        exact ⟨w, by simp [lookupVal, has, hw]⟩

theorem rfFields_lookup : ∀ (fs : Fields) (vs : List Val) (cell : Nat → Option WItem) (i : Nat) (a : FAttr) (t : FTy)
    (v : Val), rfFields fs vs cell = true → lookupVal fs vs i = some (a, t, v) → ∀ x, cell i = some x →
    ∃ y, untagW a.tag x = some y ∧ rfWith a.codec (rf t) v y = true
  | [], vs, _, _, _, _, _, _, h, _, _ => by cases vs <;> simp [lookupVal] at h
  | (a', t') :: fs, [], _, _, _, _, _, _, h, _, _ => by simp [lookupVal] at h
  | (a', t') :: fs, v' :: vs, cell, i, a, t, v, hr, h, x, hx => by
    simp only [rfFields, Bool.and_eq_true, Bool.or_eq_true] at hr
    simp only [lookupVal] at h
    split at h
    · rename_i hcond
      simp only [Bool.and_eq_true, Bool.not_eq_true', beq_iff_eq] at hcond
      cases h
      rcases hr.1 with hs | hc
      · rw [hcond.1] at hs; cases hs
      · rw [hcond.2, hx] at hc
        simp only at hc
        cases hu : untagW a'.tag x with
        | none => rw [hu] at hc; simp at hc
        | some y => rw [hu] at hc; exact ⟨y, rfl, hc⟩
    · exact rfFields_lookup fs vs cell i a t v hr.2 h x hx

/-- every field's decoder reads every re-framing of the field's item. -/
def FieldsRF : Fields → List Val → Prop
  | (a, t) :: fs, v :: vs =>
      (a.skip = false → ∀ y, y.valid = true → rfWith a.codec (rf t) v y = true →
        ∀ r, decWith a.codec (decTy t) (encW y ++ r) = .ok (withDefaults t v) r) ∧ FieldsRF fs vs
  | _, _ => True

theorem FieldsRF_lookup : ∀ (fs : Fields) (vs : List Val) (i : Nat) (a : FAttr) (t : FTy) (v : Val),
    FieldsRF fs vs → lookupVal fs vs i = some (a, t, v) → ∀ y, y.valid = true → rfWith a.codec (rf t) v y = true →
    ∀ r, decWith a.codec (decTy t) (encW y ++ r) = .ok (withDefaults t v) r
  | [], vs, _, _, _, _, _, h => by cases vs <;> simp [lookupVal] at h
  | (a', t') :: fs, [], _, _, _, _, _, h => by simp [lookupVal] at h
  | (a', t') :: fs, v' :: vs, i, a, t, v, hC, h => by
    simp only [lookupVal] at h
    split at h
    · rename_i hcond
      simp only [Bool.and_eq_true, Bool.not_eq_true', beq_iff_eq] at hcond
      cases h
      exact hC.1 hcond.1
    · exact FieldsRF_lookup fs vs i a t v hC.2 h

/-- the reader's action on the re-framed item of its own field. -/
theorem stepRF_field (fs : Fields) (vs : List Val) (hnd : (liveIdxs fs).Nodup) (hty : hasFields fs vs = true)
    (hitems : FieldsRF fs vs) (cell : Nat → Option WItem) (hrf : rfFields fs vs cell = true)
    (i : Nat) (x : WItem) (hx : x.valid = true) (hc : cell i = some x) (r : Bytes)
    (b : FAttr) (u : FTy) (hbu : (b, u) ∈ fs) (hbs : b.skip = false) (hbi : b.idx = i) :
    action (fdOf b u) (encW x ++ r) = .ok (rhoSame fs vs fs i) r := by
  obtain ⟨v, hl⟩ := lookupVal_of_field fs vs b u hnd hty hbu hbs
  rw [hbi] at hl
  obtain ⟨y, hy1, hy2⟩ := rfFields_lookup fs vs cell i b u v hrf hl x hc
  have hyv := (tag_rf b.tag x y r hx hy1).2
  have hd := FieldsRF_lookup fs vs i b u v hitems hl y hyv hy2 r
  simp only [rhoSame, hl]
  exact action_rf (fdOf b u) x y r _ hx hy1 hd

/-- if every field on the wire has been decoded to its value and every other field is nil, the
    initialiser rebuilds the value. -/
theorem readerVals_self (σ : Nat → Option Val) : ∀ (fs : Fields) (vs : List Val), acceptedFields fs = true →
    hasFields fs vs = true → (liveIdxs fs).Nodup →
    (∀ i a t v, lookupVal fs vs i = some (a, t, v) →
      σ i = some (withDefaults t v) ∨ (σ i = none ∧ isNilField a t v = true)) →
    readerVals σ fs = defaultsFields fs vs
  | [], [], _, _, _, _ => rfl
  | (a, t) :: fs, v :: vs, hacc, hty, hnd, h => by
    simp only [acceptedFields, Bool.and_eq_true] at hacc
    simp only [hasFields, Bool.and_eq_true] at hty
    cases hs : a.skip
    · have hnd' : a.idx ∉ liveIdxs fs ∧ (liveIdxs fs).Nodup := by simpa [liveIdxs, hs] using hnd
      have ih := readerVals_self σ fs vs hacc.2 hty.2 hnd'.2 (by
        intro i a' t' v' hl
        apply h i a' t' v'
        have hi : a.idx ≠ i := by
          intro e
          have := lookupVal_none_of_not_mem fs vs i (by rw [← e]; exact hnd'.1)
          rw [this] at hl; cases hl
        have hb : (a.idx == i) = false := by simpa using hi
        simp [lookupVal, hs, hb, hl])
      have hc : codecOk a.codec t = true := by
        have := hacc.1.1
        simp only [fieldAttrOk, hs, Bool.false_eq_true, if_false, Bool.and_eq_true] at this
        exact this.1.2
      simp only [readerVals, defaultsFields, hs, Bool.false_eq_true, if_false, ih]
      congr 1
      rcases h a.idx a t v (by simp [lookupVal, hs]) with h1 | ⟨h1, h2⟩
      · rw [h1]
      · rw [h1]
        have := nil_resolves a t v hc hty.1 h2
        cases hsi : slotInit t with
        | some x => rw [hsi] at this; simp at this; simp [this]
        | none => rw [hsi] at this; simp only at this; rw [this]; rfl
    · have hnd' : (liveIdxs fs).Nodup := by simpa [liveIdxs, hs] using hnd
      have ih := readerVals_self σ fs vs hacc.2 hty.2 hnd' (by
        intro i a' t' v' hl
        apply h i a' t' v'
        simp [lookupVal, hs, hl])
      simp only [readerVals, defaultsFields, hs, if_true, ih]
  | [], _ :: _, _, h, _, _ => by simp [hasFields] at h
  | _ :: _, [], _, h, _, _ => by simp [hasFields] at h

theorem self_hopt (σ : Nat → Option Val) (fs : Fields) (vs : List Val) (hacc : acceptedFields fs = true)
    (hty : hasFields fs vs = true) (hnd : (liveIdxs fs).Nodup)
    (h : ∀ i a t v, lookupVal fs vs i = some (a, t, v) →
      σ i = some (withDefaults t v) ∨ (σ i = none ∧ isNilField a t v = true)) :
    ∀ b u, (b, u) ∈ fs → b.skip = false → σ b.idx = none → slotInit u = none → (nilOf b u).isSome = true := by
  intro b u hbu hbs hσ hsi
  obtain ⟨v, hl⟩ := lookupVal_of_field fs vs b u hnd hty hbu hbs
  obtain ⟨hc, hv, _⟩ := lookupVal_typed fs vs b.idx b u v hacc hty hl
  rcases h b.idx b u v hl with h1 | ⟨_, h2⟩
  · rw [h1] at hσ; cases hσ
  · have := nil_resolves b u v hc hv h2
    rw [hsi] at this
    simp only at this
    rw [this]; rfl

/-! the bytes of an item list as cells / entries -/

theorem catX_congr (X Y : Nat → Bytes) : ∀ (n c : Nat), (∀ i, c ≤ i → i < c + n → X i = Y i) → catX X c n = catX Y c n
  | 0, _, _ => by simp [catX_zero]
  | n + 1, c, h => by
    rw [catX_succ, catX_succ, h c (Nat.le_refl _) (by omega),
      catX_congr X Y n (c + 1) (fun i h1 h2 => h i (by omega) (by omega))]

/-- the bytes of cell `i` of an item list. -/
def cellBytes (xs : List WItem) (i : Nat) : Bytes :=
  match xs[i]? with
  | some x => encW x
  | none => []

theorem encWs_catX : ∀ (xs : List WItem) (c : Nat), catX (fun i => cellBytes xs (i - c)) c xs.length = encWs xs
  | [], c => by simp [catX_zero, encWs]
  | x :: xs, c => by
    rw [List.length_cons, catX_succ]
    have h0 : cellBytes (x :: xs) (c - c) = encW x := by simp [cellBytes]
    rw [h0, encWs]
    congr 1
    rw [← encWs_catX xs (c + 1)]
    apply catX_congr
    intro i h1 _
    have : i - c = (i - (c + 1)) + 1 := by omega
    simp [cellBytes, this]

theorem encWs_cells (xs : List WItem) : encWs xs = catX (cellBytes xs) 0 xs.length := by
  have := encWs_catX xs 0
  simpa using this.symm

def toEntry (e : Nat × WItem × WItem) : Entry := (e.1, encW e.2.1, encW e.2.2)

theorem entriesW_spec : ∀ (kvs : List WItem) (es : List (Nat × WItem × WItem)), entriesW kvs = some es →
    encWs kvs = catE (es.map toEntry) ∧ kvs.length = 2 * es.length ∧
    (validAll kvs = true → ∀ e ∈ es, (∃ wd, e.2.1 = .uint wd e.1 ∧ wd.fits e.1 = true) ∧ e.2.2.valid = true)
  | [], es, h => by
    simp only [entriesW] at h
    cases h
    exact ⟨rfl, rfl, fun _ e he => by simp at he⟩
  | [a], es, h => by cases a <;> simp [entriesW] at h
  | a :: x :: rest, es, h => by
    cases a with
    | uint wd n =>
      simp only [entriesW, Option.map_eq_some_iff] at h
      obtain ⟨es', hes', rfl⟩ := h
      obtain ⟨h1, h2, h3⟩ := entriesW_spec rest es' hes'
      refine ⟨?_, ?_, ?_⟩
      · simp only [encWs, List.map_cons, catE, toEntry, h1]
      · simp only [List.length_cons, h2]; omega
      · intro hv e he
        simp only [validAll, Bool.and_eq_true] at hv
        rcases List.mem_cons.1 he with rfl | he'
        · exact ⟨⟨wd, rfl, by simpa [WItem.valid] using hv.1⟩, hv.2.1⟩
        · exact h3 hv.2.2 e he'
    | _ => simp [entriesW] at h

theorem find_key {β : Type} : ∀ (es : List (Nat × β)) (e : Nat × β), (es.map (·.1)).Nodup → e ∈ es →
    es.find? (fun q => q.1 == e.1) = some e
  | [], _, _, h => by simp at h
  | q :: es, e, hnd, h => by
    have hnd' : q.1 ∉ es.map (·.1) ∧ (es.map (·.1)).Nodup := List.nodup_cons.1 hnd
    rcases List.mem_cons.1 h with rfl | h'
    · simp [List.find?]
    · have hne : q.1 ≠ e.1 := by
        intro e'; apply hnd'.1; rw [e']; exact List.mem_map.2 ⟨e, h', rfl⟩
      have hb : (q.1 == e.1) = false := by simpa using hne
      simp only [List.find?, hb]
      exact find_key es e hnd'.2 h'

theorem mem_presentIdxs (fs : Fields) (vs : List Val) (i : Nat) :
    i ∈ presentIdxs fs vs ↔ ∃ p ∈ encFields fs vs, p.nil = false ∧ p.idx = i := by
  simp only [presentIdxs, List.mem_map, List.mem_filter, Bool.not_eq_true']
  constructor
  · rintro ⟨p, ⟨hp, hn⟩, rfl⟩
    exact ⟨p, (sortP_perm _).mem_iff.1 hp, hn, rfl⟩
  · rintro ⟨p, hp, hn, rfl⟩
    exact ⟨p, ⟨(sortP_perm _).mem_iff.2 hp, hn⟩, rfl⟩

theorem presentIdxs_nodup (fs : Fields) (vs : List Val) (hty : hasFields fs vs = true) (hnd : (liveIdxs fs).Nodup) :
    (presentIdxs fs vs).Nodup := by
  have nd' : (idxs (encFields fs vs)).Nodup := by rw [liveIdxs_eq_idxs fs vs hty]; exact hnd
  have ndS : (idxs (sortP (encFields fs vs))).Nodup := (idxs_perm (sortP_perm _)).nodup_iff.2 nd'
  exact List.Nodup.sublist (List.Sublist.map _ List.filter_sublist) ndS

/-- **a struct / variant body in any re-framing** (array / map, definite of any head width or
    indefinite-length, every field item re-framed): the generated statements and the initialiser
    rebuild the value. -/
theorem body_reframed (enc : Encoding) (fs : Fields) (vs : List Val) (body : WItem) (rest : Bytes)
    (hacc : acceptedFields fs = true) (hnd : (liveIdxs fs).Nodup) (hty : hasFields fs vs = true)
    (hval : body.valid = true) (cell : Nat → Option WItem) (hc : bodyCells enc fs vs body = some cell)
    (hrf : rfFields fs vs cell = true) (hitems : FieldsRF fs vs) :
    fieldsDec enc (decFields fs) (encW body ++ rest) = .ok (defaultsFields fs vs) rest := by
  have hspec := C08.fields_spec fs vs hacc hty
  cases enc with
  | array =>
    simp only [bodyCells] at hc
    cases hai : arrItems body with
    | none => rw [hai] at hc; simp at hc
    | some xs =>
      rw [hai] at hc
      simp only at hc
      split at hc
      · rename_i hcond
        simp only [Bool.and_eq_true, beq_iff_eq] at hcond
        cases hc
        have hvall : validAll xs = true := by
          cases body <;> simp [arrItems] at hai
          · subst hai; simp only [WItem.valid, Bool.and_eq_true] at hval; exact hval.2
          · subst hai; simpa [WItem.valid] using hval
        -- the cells
        have hstep : ∀ i, i < xs.length → StepH fs (rhoSame fs vs fs i) i (cellBytes xs i) := by
          intro i hi r
          obtain ⟨x, hx⟩ : ∃ x, xs[i]? = some x := ⟨xs[i], by simp [hi]⟩
          have hxv := validAll_get xs i x hvall hx
          have hcb : cellBytes xs i = encW x := by simp [cellBytes, hx]
          rw [hcb]
          constructor
          · intro hni
            have hg := List.all_eq_true.1 hcond.2 i (by simp [hi])
            simp only [Bool.or_eq_true, List.contains_eq_mem, decide_eq_true_eq, hx] at hg
            rcases hg with hg | hg
            · exact absurd hg hni
            · rw [isNullW_eq x hg, encW_null]; exact skip_null r
          · intro b u hbu hbs hbi
            exact stepRF_field fs vs hnd hty hitems _ hrf i x hxv hx r b u hbu hbs hbi
        have hst : ∀ i, i < xs.length → startNB (cellBytes xs i) = true := by
          intro i hi
          obtain ⟨x, hx⟩ : ∃ x, xs[i]? = some x := ⟨xs[i], by simp [hi]⟩
          have hcb : cellBytes xs i = encW x := by simp [cellBytes, hx]
          rw [hcb]; exact startNB_encW x (validAll_get xs i x hvall hx)
        -- what the slots hold afterwards
        have hσ : ∀ i a t v, lookupVal fs vs i = some (a, t, v) →
            ovr (fun _ => none) (rhoSame fs vs fs) 0 xs.length i = some (withDefaults t v) ∨
            (ovr (fun _ => none) (rhoSame fs vs fs) 0 xs.length i = none ∧ isNilField a t v = true) := by
          intro i a t v hl
          by_cases hi : i < xs.length
          · left
            simp [ovr, hi, rhoSame, hl]
          · right
            refine ⟨by simp [ovr, hi], ?_⟩
            cases hn : isNilField a t v
            · exfalso
              obtain ⟨_, hai', hmem⟩ := lookupVal_mem fs vs i a t v hl
              rw [hspec] at hmem
              obtain ⟨q, hq, hqe⟩ := List.mem_map.1 hmem
              have e1 := congrArg Piece.nil hqe
              have e2 := congrArg Piece.idx hqe
              simp only [toBytes_nil, toBytes_idx] at e1 e2
              rw [hcond.1] at hi
              cases hm : maxPresent (specFields fs vs) with
              | none =>
                have := maxPresent_none hm q hq
                rw [e1, hn] at this; cases this
              | some m =>
                simp only [arrLen, hm] at hi
                have := maxPresent_ge hm q hq (by rw [e1]; exact hn)
                omega
            · rfl
        have hopt := self_hopt _ fs vs hacc hty hnd hσ
        have hrv := readerVals_self _ fs vs hacc hty hnd hσ
        cases body <;> simp [arrItems] at hai
        · rename_i wd ys
          subst hai
          simp only [WItem.valid, Bool.and_eq_true] at hval
          have := fieldsDec_arrN fs (rhoSame fs vs fs) (headW 4 wd ys.length) ys.length (cellBytes ys) rest hnd
            (fun r => C04.array_sound wd ys.length r hval.1) hstep hopt
          rw [hrv] at this
          simpa [encW, encWs_cells ys, List.append_assoc] using this
        · rename_i ys
          subst hai
          have := fieldsDec_arrI fs (rhoSame fs vs fs) ys.length (cellBytes ys) rest hnd hstep hst hopt
          rw [hrv] at this
          simpa [encW, encWs_cells ys, List.append_assoc] using this
      · simp at hc
  | map =>
    simp only [bodyCells] at hc
    cases hmi : mapItems body with
    | none => rw [hmi] at hc; simp at hc
    | some kvs =>
      rw [hmi] at hc
      simp only at hc
      cases hes : entriesW kvs with
      | none => rw [hes] at hc; simp at hc
      | some es =>
        rw [hes] at hc
        simp only at hc
        split at hc
        · rename_i hkeys
          have hkeys' : es.map (·.1) = presentIdxs fs vs := by simpa using hkeys
          cases hc
          have hvall : validAll kvs = true := by
            cases body <;> simp [mapItems] at hmi
            · subst hmi; simp only [WItem.valid, Bool.and_eq_true] at hval; exact hval.2
            · subst hmi; simp only [WItem.valid, Bool.and_eq_true] at hval; exact hval.2
          obtain ⟨hbytes, hlen, hvals⟩ := entriesW_spec kvs es hes
          have hvals' := hvals hvall
          have hndK : (es.map (·.1)).Nodup := by rw [hkeys']; exact presentIdxs_nodup fs vs hty hnd
          have hndE : ((es.map toEntry).map (·.1)).Nodup := by
            have : (es.map toEntry).map (·.1) = es.map (·.1) := by simp [toEntry, Function.comp_def]
            rw [this]; exact hndK
          have hkeysE : (es.map toEntry).map (·.1) = presentIdxs fs vs := by
            have : (es.map toEntry).map (·.1) = es.map (·.1) := by simp [toEntry, Function.comp_def]
            rw [this]; exact hkeys'
          have hidx32 : ∀ e ∈ es, e.1 < 4294967296 := by
            intro e he
            have : e.1 ∈ presentIdxs fs vs := by rw [← hkeys']; exact List.mem_map.2 ⟨e, he, rfl⟩
            obtain ⟨p, hp, _, hpi⟩ := (mem_presentIdxs fs vs e.1).1 this
            have := mem_encFields_idx fs vs hacc hty p hp
            simp [U32] at this; omega
          have hkey : ∀ e ∈ es.map toEntry, ∀ r, Dec.intAcc .u32 (e.2.1 ++ r) = .ok (e.1 : Int) r := by
            intro e he r
            obtain ⟨q, hq, rfl⟩ := List.mem_map.1 he
            obtain ⟨⟨wd, hk, hfit⟩, _⟩ := hvals' q hq
            have := C05.int_accessor_ok .u32 wd false q.1 r hfit (by simp) (by
              have := hidx32 q hq
              simp [Dec.IntTy.max, Dec.IntTy.u32]; omega)
            simpa [toEntry, hk, encW, C05.intHead, C05.intVal] using this
          have hstK : ∀ e ∈ es.map toEntry, startNB e.2.1 = true := by
            intro e he
            obtain ⟨q, hq, rfl⟩ := List.mem_map.1 he
            obtain ⟨⟨wd, hk, hfit⟩, _⟩ := hvals' q hq
            simp only [toEntry, hk]
            exact startNB_encW _ (by simpa [WItem.valid] using hfit)
          have hstep : ∀ e ∈ es.map toEntry, StepH fs (rhoSame fs vs fs e.1) e.1 e.2.2 := by
            intro e he r
            obtain ⟨q, hq, rfl⟩ := List.mem_map.1 he
            obtain ⟨_, hxv⟩ := hvals' q hq
            have hmem : q.1 ∈ presentIdxs fs vs := by rw [← hkeys']; exact List.mem_map.2 ⟨q, hq, rfl⟩
            obtain ⟨p, hp, _, hpi⟩ := (mem_presentIdxs fs vs q.1).1 hmem
            have hlive : q.1 ∈ liveIdxs fs := by rw [← hpi]; exact encFields_idx_live fs vs p hp
            constructor
            · intro hni; exact absurd hlive hni
            · intro b u hbu hbs hbi
              have hcell : (fun i => (es.find? (fun e => e.1 == i)).map (·.2.2)) q.1 = some q.2.2 := by
                simp only [find_key es q hndK hq, Option.map_some]
              exact stepRF_field fs vs hnd hty hitems _ hrf q.1 q.2.2 hxv hcell r b u hbu hbs hbi
          have hσ : ∀ i a t v, lookupVal fs vs i = some (a, t, v) →
              ovrE (fun _ => none) (rhoSame fs vs fs) ((es.map toEntry).map (·.1)) i = some (withDefaults t v) ∨
              (ovrE (fun _ => none) (rhoSame fs vs fs) ((es.map toEntry).map (·.1)) i = none ∧ isNilField a t v = true) := by
            intro i a t v hl
            rw [hkeysE]
            by_cases hi : i ∈ presentIdxs fs vs
            · left
              simp [ovrE, hi, rhoSame, hl]
            · right
              refine ⟨by simp [ovrE, hi], ?_⟩
              cases hn : isNilField a t v
              · exfalso
                apply hi
                obtain ⟨_, hai', hmem⟩ := lookupVal_mem fs vs i a t v hl
                exact (mem_presentIdxs fs vs i).2 ⟨_, hmem, hn, hai'⟩
              · rfl
          have hopt := self_hopt _ fs vs hacc hty hnd hσ
          have hrv := readerVals_self _ fs vs hacc hty hnd hσ
          have hEl : (es.map toEntry).length = es.length := by simp
          cases body <;> simp [mapItems] at hmi
          · rename_i wd ys
            subst hmi
            simp only [WItem.valid, Bool.and_eq_true] at hval
            have hn2 : ys.length / 2 = (es.map toEntry).length := by rw [hEl, hlen]; omega
            have := fieldsDec_mapN fs (rhoSame fs vs fs) (headW 5 wd (ys.length / 2)) (es.map toEntry) rest hnd
              (fun r => by rw [← hn2]; exact C04.map_sound wd (ys.length / 2) r hval.1.2) hndE hkey hstep hopt
            rw [hrv] at this
            simpa [encW, hbytes, List.append_assoc] using this
          · rename_i ys
            subst hmi
            have := fieldsDec_mapI fs (rhoSame fs vs fs) (es.map toEntry) rest hnd hndE hkey hstK hstep hopt
            rw [hrv] at this
            simpa [encW, hbytes, List.append_assoc] using this
        · simp at hc

/-! ### D. enums, transparent structs, codecs -/

theorem skip_indef_empty (isMap : Bool) (rest : Bytes) :
    Dec.skip true ((if isMap then (0xbf : UInt8) else 0x9f) :: 0xff :: rest) = .ok () rest := by
  unfold Dec.skip
  rw [Dec.bind_run]
  simp only [Dec.remaining]
  have e : ((if isMap then (0xbf : UInt8) else 0x9f) :: 0xff :: rest : Bytes).length + 2 = (rest.length + 2) + 1 + 1 := by simp
  rw [e]
  have h1 := Dec.arm_indef true SkipSt.init isMap (0xff :: rest)
  have h2 := Dec.arm_brk true ⟨0, 1, []⟩ rest
  simp only [indefSt, brkSt, SkipSt.init, SkipSt.counting] at h1 h2
  simp at h1 h2
  simp [skipLoop, skipRunning, SkipSt.init, Dec.bind_run, h1, h2, SkipSt.counting, satAdd, U64MAX, skipPost, popZeros]

theorem skip_def_empty (isMap : Bool) (wd : Width) (rest : Bytes) :
    Dec.skip true (headW (if isMap then 5 else 4) wd 0 ++ rest) = .ok () rest := by
  apply skip_leaf
  have hf : wd.fits 0 = true := by cases wd <;> decide
  cases isMap
  · have := Dec.arm_array true SkipSt.init wd 0 rest hf
    simpa [defSt] using this
  · have := Dec.arm_map true SkipSt.init wd 0 rest hf
    simpa [defSt, satMul2] using this

/-- `skip()` on the (re-framed) empty body of a unit variant. -/
theorem skip_emptyW (enc : Encoding) (body : WItem) (rest : Bytes) (h : isEmptyW enc body = true) :
    Dec.skip true (encW body ++ rest) = .ok () rest := by
  cases enc with
  | array =>
    cases body <;> simp [isEmptyW, arrItems] at h
    · rename_i wd xs
      cases xs with
      | nil => simpa [encW, encWs] using skip_def_empty false wd rest
      | cons => simp at h
    · rename_i xs
      cases xs with
      | nil => simpa [encW, encWs] using skip_indef_empty false rest
      | cons => simp at h
  | map =>
    cases body <;> simp [isEmptyW, mapItems] at h
    · rename_i wd xs
      cases xs with
      | nil => simpa [encW, encWs] using skip_def_empty true wd rest
      | cons => simp at h
    · rename_i xs
      cases xs with
      | nil => simpa [encW, encWs] using skip_indef_empty true rest
      | cons => simp at h

/-- the fields of the `k`-th variant. -/
def nthFields : Variants → Nat → Fields
  | [], _ => []
  | (_, fs) :: _, 0 => fs
  | _ :: rest, k + 1 => nthFields rest k

theorem hasVars_nth : ∀ (vars : Variants) (k : Nat) (vs : List Val), hasVars vars k vs = true →
    ∃ va, vars[k]? = some (va, nthFields vars k) ∧ hasFields (nthFields vars k) vs = true ∧
      defaultsVars vars k vs = defaultsFields (nthFields vars k) vs
  | [], _, _, h => by simp [hasVars] at h
  | (va, fs) :: rest, 0, vs, h => by
    simp only [hasVars] at h
    exact ⟨va, by simp [nthFields], by simpa [nthFields] using h, by simp [defaultsVars, nthFields]⟩
  | (va, fs) :: rest, k + 1, vs, h => by
    simp only [hasVars] at h
    obtain ⟨va', h1, h2, h3⟩ := hasVars_nth rest k vs h
    exact ⟨va', by simpa [nthFields] using h1, by simpa [nthFields] using h2, by simpa [defaultsVars, nthFields] using h3⟩

theorem rfVars_nth (e : EAttr) : ∀ (vars : Variants) (k : Nat) (vs : List Val) (w : WItem) (va : VAttr) (fs : Fields),
    vars[k]? = some (va, fs) → rfVars e vars k vs w = rfVars e [(va, fs)] 0 vs w
  | [], _, _, _, _, _, h => by simp at h
  | (va', fs') :: rest, 0, vs, w, va, fs, h => by
    simp at h
    obtain ⟨rfl, rfl⟩ := h
    simp only [rfVars]
  | (va', fs') :: rest, k + 1, vs, w, va, fs, h => by
    simp at h
    simp only [rfVars]
    exact rfVars_nth e rest k vs w va fs h

theorem findVariant_nth (e : EAttr) : ∀ (vars : Variants) (k pos : Nat) (va : VAttr) (fs : Fields),
    (vars.map (·.1.idx)).Nodup → vars[k]? = some (va, fs) →
    ∀ bs, findVariant (decVars e vars) pos va.idx bs = (do let vs ← varBody e va fs; pure (Val.enum (pos + k) vs) : Dec Val) bs
  | [], _, _, _, _, _, h => by simp at h
  | (va', fs') :: rest, 0, pos, va, fs, _, h => by
    intro bs
    simp at h
    obtain ⟨rfl, rfl⟩ := h
    rw [decVars_cons]
    simp [findVariant]
  | (va', fs') :: rest, k + 1, pos, va, fs, hnd, h => by
    intro bs
    simp at h
    have hnd' : va'.idx ∉ rest.map (·.1.idx) ∧ (rest.map (·.1.idx)).Nodup := List.nodup_cons.1 hnd
    have hmem : (va, fs) ∈ rest := List.mem_of_getElem? h
    have hne : va'.idx ≠ va.idx := by
      intro e'; apply hnd'.1; rw [e']; exact List.mem_map.2 ⟨(va, fs), hmem, rfl⟩
    have hb : (va'.idx == va.idx) = false := by simpa using hne
    rw [decVars_cons]
    simp only [findVariant, hb, Bool.false_eq_true, if_false]
    rw [findVariant_nth e rest k (pos + 1) va fs hnd'.2 h bs]
    have : pos + 1 + k = pos + (k + 1) := by omega
    rw [this]

theorem isUintW_eq (n : Nat) (w : WItem) (h : isUintW n w = true) : ∃ wd, w = .uint wd n := by
  cases w <;> simp [isUintW] at h
  rename_i wd m
  exact ⟨wd, by rw [h]⟩

theorem uint_u32 (wd : Width) (n : Nat) (rest : Bytes) (hv : (WItem.uint wd n).valid = true) (hn : n < 4294967296) :
    Dec.intAcc .u32 (encW (.uint wd n) ++ rest) = .ok (n : Int) rest := by
  have := C05.int_accessor_ok .u32 wd false n rest (by simpa [WItem.valid] using hv) (by simp) (by
    simp [Dec.IntTy.max, Dec.IntTy.u32]; omega)
  simpa [encW, C05.intHead, C05.intVal] using this

theorem pair_inv (va : VAttr) (enc : Encoding) (fs : Fields) (vs : List Val) (w' : WItem)
    (h : (match pairItems w' with
      | some (kx, bx) =>
          isUintW va.idx kx &&
          (match untagW va.tag bx with
           | some body =>
               (match va.shape with
                | .unit => isEmptyW enc body
                | _ =>
                    (match bodyCells enc fs vs body with
                     | some cell => rfFields fs vs cell
                     | none => false))
           | none => false)
      | none => false) = true) :
    ∃ kx bx body, pairItems w' = some (kx, bx) ∧ isUintW va.idx kx = true ∧ untagW va.tag bx = some body ∧
      (match va.shape with
       | .unit => isEmptyW enc body
       | _ =>
           (match bodyCells enc fs vs body with
            | some cell => rfFields fs vs cell
            | none => false)) = true := by
  cases hp : pairItems w' with
  | none => rw [hp] at h; simp at h
  | some p =>
    obtain ⟨kx, bx⟩ := p
    rw [hp] at h
    simp only [Bool.and_eq_true] at h
    cases hub : untagW va.tag bx with
    | none => rw [hub] at h; simp at h
    | some body =>
      rw [hub] at h
      exact ⟨kx, bx, body, rfl, h.1, hub, h.2⟩

/-- the two shapes of the wrapper. -/
theorem pairItems_inv (w : WItem) (kx bx : WItem) (h : pairItems w = some (kx, bx)) :
    (∃ wd, w = .array wd [kx, bx]) ∨ w = .arrayI [kx, bx] := by
  cases w with
  | array wd xs =>
    match xs, h with
    | [a, b], h => simp [pairItems] at h; obtain ⟨rfl, rfl⟩ := h; exact Or.inl ⟨wd, rfl⟩
    | [], h => simp [pairItems] at h
    | [_], h => simp [pairItems] at h
    | _ :: _ :: _ :: _, h => simp [pairItems] at h
  | arrayI xs =>
    match xs, h with
    | [a, b], h => simp [pairItems] at h; obtain ⟨rfl, rfl⟩ := h; exact Or.inr rfl
    | [], h => simp [pairItems] at h
    | [_], h => simp [pairItems] at h
    | _ :: _ :: _ :: _, h => simp [pairItems] at h
  | _ => simp [pairItems] at h

theorem seq_run {α β γ : Type} (A : Dec β) (F : β → Dec α) (G : α → Dec γ) (bs : Bytes) (a : α) (r : Bytes)
    (h : (A >>= F) bs = .ok a r) : (do let k ← A; let v ← F k; G v : Dec γ) bs = G a r := by
  simp only [Dec.bind_run] at h ⊢
  cases hA : A bs with
  | ok k r1 => rw [hA] at h; simp only at h ⊢; rw [h]
  | err e r1 => rw [hA] at h; cases h
  | panic => rw [hA] at h; cases h

/-- the wrapper of an enum, in either form, around whatever reads the index (`A`) and the body (`F`):
    the head, the two items, then (indefinite form) the break. -/
theorem wrapper_run {α β : Type} (w kx bx : WItem) (hp : pairItems w = some (kx, bx)) (hw : w.valid = true) (rest : Bytes)
    (A : Dec β) (F : β → Dec α) (a : α) (hm : ∀ r, (A >>= F) (encW kx ++ (encW bx ++ r)) = .ok a r) :
    (do
      let indef ← (do
        let n ← Dec.array
        match n with
        | some k => if k == 2 then pure false else Dec.fail .message
        | none => pure true : Dec Bool)
      let k ← A
      let v ← F k
      wrapperEnd indef
      pure v : Dec α) (encW w ++ rest) = .ok a rest := by
  rcases pairItems_inv w kx bx hp with ⟨wd, rfl⟩ | rfl
  · simp only [WItem.valid, validAll, Bool.and_eq_true, Bool.and_true] at hw
    have harr := C04.array_sound wd 2 (encW kx ++ (encW bx ++ rest)) hw.1
    have hbytes : encW (.array wd [kx, bx]) ++ rest = headW 4 wd 2 ++ (encW kx ++ (encW bx ++ rest)) := by
      simp [encW, encWs, List.append_assoc]
    rw [hbytes, Dec.bind_run, Dec.bind_run, harr]
    simp only [beq_self_eq_true, if_true, Dec.pure_run]
    rw [seq_run A F _ _ a rest (hm rest)]
    simp [wrapperEnd, Dec.bind_run, Dec.pure_run]
  · have hbytes : encW (.arrayI [kx, bx]) ++ rest = 0x9f :: (encW kx ++ (encW bx ++ (0xff :: rest))) := by
      simp [encW, encWs, List.append_assoc]
    have harr : Dec.array (0x9f :: (encW kx ++ (encW bx ++ (0xff :: rest)))) = .ok none (encW kx ++ (encW bx ++ (0xff :: rest))) :=
      C04.array_indef _
    rw [hbytes, Dec.bind_run, Dec.bind_run, harr]
    simp only [Dec.pure_run]
    rw [seq_run A F _ _ a (0xff :: rest) (hm (0xff :: rest))]
    simp [wrapperEnd, Dec.bind_run, Dec.pure_run, datatype_break, skip_break]

/-- **an enum in any re-framing** (the pair `[index, body]` definite, of any head width, or indefinite). -/
theorem enum_reframed (e : EAttr) (vars : Variants) (k : Nat) (vs : List Val) (w : WItem) (rest : Bytes)
    (hacc : accepted (.enum e vars) = true) (hv : hasVars vars k vs = true) (hw : w.valid = true)
    (hrf : rf (.enum e vars) (.enum k vs) w = true) (hitems : FieldsRF (nthFields vars k) vs) :
    decTy (.enum e vars) (encW w ++ rest) = .ok (.enum k (defaultsVars vars k vs)) rest := by
  simp only [accepted, Bool.and_eq_true] at hacc
  obtain ⟨va, hnth, hty, hdef⟩ := hasVars_nth vars k vs hv
  generalize hfs : nthFields vars k = fs at hnth hty hdef hitems
  have hmem : (va, fs) ∈ vars := List.mem_of_getElem? hnth
  obtain ⟨hidx, htag, haccF, hndF, hunit, hio⟩ := acceptedVars_mem e vars va fs hacc.1.1.2 hmem
  have hnd := C08.nodupNat_nodup _ hacc.1.2
  simp only [rf] at hrf
  cases hu : untagW e.tag w with
  | none => rw [hu] at hrf; simp at hrf
  | some w' =>
    rw [hu] at hrf
    simp only at hrf
    rw [rfVars_nth e vars k vs w' va fs hnth] at hrf
    simp only [rfVars] at hrf
    obtain ⟨htc, hw'⟩ := tag_rf e.tag w w' rest hw hu
    have hfind := findVariant_nth e vars k 0 va fs hnd hnth
    simp only [decTy, enumDec]
    rw [Dec.bind_run, htc]
    simp only []
    rw [hdef]
    have hidx' : va.idx < 4294967296 := by simp [U32] at hidx; omega
    cases hix : e.indexOnly
    · rw [hix] at hrf
      simp only [Bool.false_eq_true, if_false] at hrf
      obtain ⟨kx, bx, body, hpair, hkx, hub, hcond⟩ := pair_inv va _ fs vs w' hrf
      obtain ⟨wk, rfl⟩ := isUintW_eq va.idx kx hkx
      have hvalid : (WItem.uint wk va.idx).valid = true ∧ bx.valid = true := by
        rcases pairItems_inv w' _ bx hpair with ⟨wd, rfl⟩ | rfl <;>
          simp only [WItem.valid, validAll, Bool.and_eq_true, Bool.and_true] at hw' <;> simp [WItem.valid, hw']
      -- what is read between the head of the wrapper and its end
      have hm : ∀ r, (do let k ← Dec.intAcc .u32; findVariant (decVars e vars) 0 k.toNat : Dec Val)
          (encW (.uint wk va.idx) ++ (encW bx ++ r)) = .ok (.enum k (defaultsFields fs vs)) r := by
        intro r
        have hk := uint_u32 wk va.idx (encW bx ++ r) hvalid.1 hidx'
        obtain ⟨htb, hbody⟩ := tag_rf va.tag bx body r hvalid.2 hub
        rw [Dec.bind_run, hk]
        simp only [Int.toNat_natCast]
        rw [hfind]
        simp only [Nat.zero_add, varBody]
        cases hsh : va.shape
        · -- unit variant: the body is skipped
          have hfs' := hunit hsh
          subst hfs'
          have hvs : vs = [] := by cases vs <;> simp [hasFields] at hty ⊢
          subst hvs
          rw [hsh] at hcond
          simp only at hcond
          simp only [hix, Bool.false_eq_true, if_false, Dec.bind_run, htb, skip_emptyW _ body r hcond, Dec.pure_run,
            defaultsFields]
        all_goals
          rw [hsh] at hcond
          simp only at hcond
          cases hbc : bodyCells (va.enc.getD (e.enc.getD .array)) fs vs body with
          | none => rw [hbc] at hcond; simp at hcond
          | some cell =>
            rw [hbc] at hcond
            have := body_reframed _ fs vs body r haccF hndF hty hbody cell hbc hcond hitems
            simp only [Dec.bind_run, htb, this, Dec.pure_run]
      simp only [Bool.false_eq_true, if_false]
      exact wrapper_run w' (.uint wk va.idx) bx hpair hw' rest (Dec.intAcc .u32) (fun k => findVariant (decVars e vars) 0 k.toNat) _ hm
    · rw [hix] at hrf
      simp only [if_true] at hrf
      obtain ⟨wk, rfl⟩ := isUintW_eq va.idx w' hrf
      have hk := uint_u32 wk va.idx rest hw' hidx'
      have hsh := hio hix
      have hfs' := hunit hsh
      subst hfs'
      have hvs : vs = [] := by cases vs <;> simp [hasFields] at hty ⊢
      subst hvs
      simp only [if_true, Dec.bind_run, Dec.pure_run, hk, Int.toNat_natCast]
      rw [hfind]
      simp [varBody, hsh, hix, Dec.bind_run, defaultsFields, wrapperEnd]

/-- the nil-aware custom codec on a re-framed item. -/
theorem nilu_rf (i : Int) (y : WItem) (r : Bytes) (hi : IntK.u32.inRange i = true) (hy : y.valid = true)
    (h : rfWith .nilu (rf (.int .u32)) (.int i) y = true) :
    decWith .nilu (decTy (.int .u32)) (encW y ++ r) = .ok (.int i) r := by
  simp [IntK.inRange, IntK.ty, IntTy.lo, IntTy.hi, IntTy.u32] at hi
  have h2 := of_decide_eq_true hi.2
  simp only [rfWith] at h
  by_cases h0 : i = 0
  · subst h0
    simp only [beq_self_eq_true, if_true] at h
    rw [isNullW_eq y h, encW_null]
    simp [decWith, Dec.bind_run, datatype_null, skip_null]
  · have hne : (i == 0) = false := by simpa using h0
    simp only [hne, Bool.false_eq_true, if_false] at h
    obtain ⟨wd, rfl⟩ := isUintW_eq _ y h
    have hnn : isNullW (.uint wd i.toNat) = false := rfl
    obtain ⟨ty, h1, h3⟩ := datatype_startOk (encW (.uint wd i.toNat)) r (startOk_encW _ hy hnn)
    have hk := uint_u32 wd i.toNat r hy (by omega)
    have hcast : ((i.toNat : Nat) : Int) = i := by omega
    simp [decWith, Dec.bind_run, h1, h3, hk, hcast]

/-- byte-string fields (incl. the kinds that exist only through `with = "minicbor::bytes"`). -/
theorem blob_rf (t : FTy) (v : Val) (y : WItem) (r : Bytes) (hb : fieldBlob t = true) (hv : hasTy t v = true)
    (hy : y.valid = true) (h : rf t v y = true) : decTy t (encW y ++ r) = .ok (withDefaults t v) r := by
  cases t with
  | blob k =>
    cases v <;> simp [hasTy] at hv
    simp only [rf] at h
    simp only [decTy, withDefaults, Dec.bind_run, rf_bytes_dec _ y r hy h]
    rfl
  | option t' =>
    cases t' <;> simp [fieldBlob] at hb
    cases v <;> simp [hasTy] at hv
    · simp only [rf] at h
      simp only [decTy, withDefaults]
      exact rf_none_dec _ y r h
    · rename_i k x
      cases x <;> simp [hasTy] at hv
      simp only [rf, Bool.and_eq_true, Bool.not_eq_true'] at h
      simp only [decTy, withDefaults]
      apply rf_some_dec _ y r _ hy h.1
      simp only [Dec.bind_run, rf_bytes_dec _ y r hy h.2]
      rfl
  | _ => simp [fieldBlob] at hb

end Minicbor.Derive
