/-
  Support for complete finite tables checked by kernel evaluation (`decide +kernel`).
  A table over `[lo, lo+n)` is `allFrom lo n p = true`; big tables are split into chunks
  (one theorem per chunk keeps the kernel's per-declaration caches small, which measurably
  speeds the check up) and glued together with `allFrom_append`.
-/
namespace Minicbor

/-- `p lo && p (lo+1) && … && p (lo+n-1)` -/
def allFrom (lo : Nat) : Nat → (Nat → Bool) → Bool
  | 0, _ => true
  | n + 1, p => p (lo + n) && allFrom lo n p

theorem allFrom_spec {lo n : Nat} {p : Nat → Bool} (H : allFrom lo n p = true) :
    ∀ h, lo ≤ h → h < lo + n → p h = true := by
  induction n with
  | zero => intro h h1 h2; omega
  | succ n ih =>
    simp only [allFrom, Bool.and_eq_true] at H
    intro h h1 h2
    by_cases hh : h = lo + n
    · subst hh; exact H.1
    · exact ih H.2 h h1 (by omega)

theorem allFrom_of {lo n : Nat} {p : Nat → Bool} (H : ∀ h, lo ≤ h → h < lo + n → p h = true) :
    allFrom lo n p = true := by
  induction n with
  | zero => rfl
  | succ n ih =>
    simp only [allFrom, Bool.and_eq_true]
    exact ⟨H _ (by omega) (by omega), ih (fun h h1 h2 => H h h1 (by omega))⟩

theorem allFrom_append {lo mid n m k : Nat} {p : Nat → Bool}
    (h1 : allFrom lo n p = true) (h2 : allFrom mid m p = true)
    (hm : mid = lo + n) (hk : k = n + m) : allFrom lo k p = true := by
  subst hm hk
  apply allFrom_of
  intro h ha hb
  by_cases hc : h < lo + n
  · exact allFrom_spec h1 h ha hc
  · exact allFrom_spec h2 h (by omega) (by omega)

end Minicbor
