/-
  Helper lemmas for the minicbor-io model (`Minicbor/Frame.lean`): benign scripts, the
  fill / drain loops, frames.
-/
import Minicbor.Frame

namespace Minicbor.Frame

@[simp] theorem zeros_length (n : Nat) : (zeros n).length = n := by simp [zeros]

@[simp] theorem frame_length (p : Bytes) : (frame p).length = 4 + p.length := by
  simp [frame]

theorem fromBe_be4 (n : Nat) (h : n < 4294967296) : fromBe (be 4 n) = n :=
  fromBe_be 4 n (by simpa using h)

/-- well-behaved answers of a stream that neither fails nor ends: positive transfers and,
    for blocking streams, `Interrupted`. -/
def Benign : List Ev → Prop
  | [] => True
  | .io k :: sc => 0 < k ∧ Benign sc
  | .intr :: sc => Benign sc
  | _ :: _ => False

theorem Benign.nil : Benign [] := trivial

/-- **std `read_exact` / the prefix loop under any fragmentation and `Interrupted` placement**:
    the loop obtains exactly the next `need` bytes of the stream if they exist, and otherwise
    everything there is followed by `Ok(0)`. -/
theorem fill_benign : ∀ (sc : List Ev), Benign sc → ∀ (need : Nat) (acc bytes : Bytes),
    ∃ sc', Benign sc' ∧
      fill need acc bytes sc =
        if need ≤ bytes.length then (.done (acc ++ bytes.take need), ⟨bytes.drop need, sc'⟩)
        else (.short (acc ++ bytes), ⟨[], sc'⟩) := by
  intro sc
  induction sc with
  | nil =>
    intro _ need acc bytes
    exact ⟨[], trivial, by simp [fill]⟩
  | cons ev sc ih =>
    intro hb need acc bytes
    by_cases h0 : need = 0
    · subst h0
      exact ⟨ev :: sc, hb, by simp [fill]⟩
    · cases ev with
      | io k =>
        obtain ⟨hk, hb'⟩ := hb
        by_cases hlen : bytes.length = 0
        · have : bytes = [] := List.eq_nil_of_length_eq_zero hlen
          subst this
          refine ⟨sc, hb', ?_⟩
          have : ¬ need ≤ 0 := by omega
          simp [fill, h0, this]
        · have hn : min (min k need) bytes.length ≠ 0 := by omega
          obtain ⟨sc', hbs, heq⟩ := ih hb' (need - min (min k need) bytes.length)
            (acc ++ bytes.take (min (min k need) bytes.length)) (bytes.drop (min (min k need) bytes.length))
          refine ⟨sc', hbs, ?_⟩
          simp only [fill, h0, hn, if_false]
          rw [heq]
          generalize hnn : min (min k need) bytes.length = n at *
          have hn1 : n ≤ need := by omega
          have hn2 : n ≤ bytes.length := by omega
          by_cases hle : need ≤ bytes.length
          · have : need - n ≤ (List.drop n bytes).length := by simp; omega
            simp only [this, hle, if_true]
            have e1 : List.take n bytes ++ List.take (need - n) (List.drop n bytes) = List.take need bytes := by
              have := List.take_add (l := bytes) (i := n) (j := need - n)
              rw [← this]; congr 1; omega
            have e2 : List.drop (need - n) (List.drop n bytes) = List.drop need bytes := by
              rw [List.drop_drop]; congr 1; omega
            rw [List.append_assoc, e1, e2]
          · have : ¬ need - n ≤ (List.drop n bytes).length := by simp; omega
            simp only [this, hle, if_false]
            rw [List.append_assoc, List.take_append_drop]
      | intr =>
        obtain ⟨sc', hbs, heq⟩ := ih hb need acc bytes
        exact ⟨sc', hbs, by simp only [fill, h0, if_false]; exact heq⟩
      | zero => exact absurd hb (by simp [Benign])
      | fail => exact absurd hb (by simp [Benign])
      | pend => exact absurd hb (by simp [Benign])

/-- **std `write_all` under any short writes and `Interrupted` placement**: everything is
    delivered, in order. -/
theorem drain_benign : ∀ (sc : List Ev), Benign sc → ∀ (data out : Bytes),
    ∃ sc', Benign sc' ∧ drain data out sc = (.done, ⟨out ++ data, sc'⟩) := by
  intro sc
  induction sc with
  | nil => intro _ data out; exact ⟨[], trivial, by simp [drain]⟩
  | cons ev sc ih =>
    intro hb data out
    by_cases h0 : data.length = 0
    · have : data = [] := List.eq_nil_of_length_eq_zero h0
      subst this
      exact ⟨ev :: sc, hb, by simp [drain]⟩
    · cases ev with
      | io k =>
        obtain ⟨hk, hb'⟩ := hb
        have hn : min k data.length ≠ 0 := by omega
        obtain ⟨sc', hbs, heq⟩ := ih hb' (data.drop (min k data.length)) (out ++ data.take (min k data.length))
        refine ⟨sc', hbs, ?_⟩
        simp only [drain, h0, hn, if_false]
        rw [heq, List.append_assoc, List.take_append_drop]
      | intr =>
        obtain ⟨sc', hbs, heq⟩ := ih hb data out
        exact ⟨sc', hbs, by simp only [drain, h0, if_false]; exact heq⟩
      | zero => exact absurd hb (by simp [Benign])
      | fail => exact absurd hb (by simp [Benign])
      | pend => exact absurd hb (by simp [Benign])

/-- whatever the sink does, `write_all` hands it a prefix of the data, in order. -/
theorem drain_prefix : ∀ (sc : List Ev) (data out : Bytes),
    ∃ t, (drain data out sc).2.out = out ++ t ∧ t <+: data := by
  intro sc
  induction sc with
  | nil => intro data out; exact ⟨data, by simp [drain], List.prefix_refl _⟩
  | cons ev sc ih =>
    intro data out
    by_cases h0 : data.length = 0
    · exact ⟨[], by simp [drain, h0], List.nil_prefix⟩
    · cases ev with
      | io k =>
        by_cases hn : min k data.length = 0
        · exact ⟨[], by simp [drain, h0, hn], List.nil_prefix⟩
        · obtain ⟨t, ht, hp⟩ := ih (data.drop (min k data.length)) (out ++ data.take (min k data.length))
          refine ⟨data.take (min k data.length) ++ t, ?_, ?_⟩
          · simp only [drain, h0, hn, if_false]; rw [ht, List.append_assoc]
          · obtain ⟨s, hs⟩ := hp
            exact ⟨s, by rw [List.append_assoc, hs, List.take_append_drop]⟩
      | intr =>
        obtain ⟨t, ht, hp⟩ := ih data out
        exact ⟨t, by simp only [drain, h0, if_false]; exact ht, hp⟩
      | zero => exact ⟨[], by simp [drain, h0], List.nil_prefix⟩
      | fail => exact ⟨[], by simp [drain, h0], List.nil_prefix⟩
      | pend => exact ⟨[], by simp [drain, h0], List.nil_prefix⟩

/-- what `fill` has collected. -/
def Fill.got : Fill → Bytes
  | .done g => g
  | .short g => g
  | .fail _ g => g

/-- the loop never collects more than it was asked for (whatever the source does). -/
theorem fill_got_length : ∀ (sc : List Ev) (need : Nat) (acc bytes : Bytes),
    (fill need acc bytes sc).1.got.length ≤ acc.length + need := by
  intro sc
  induction sc with
  | nil =>
    intro need acc bytes
    unfold fill
    split <;> simp [Fill.got] <;> omega
  | cons ev sc ih =>
    intro need acc bytes
    by_cases h0 : need = 0
    · simp [fill, h0, Fill.got]
    · cases ev with
      | io k =>
        by_cases hn : min (min k need) bytes.length = 0
        · simp [fill, h0, hn, Fill.got]
        · simp only [fill, h0, hn, if_false]
          have hle : min (min k need) bytes.length ≤ need := by omega
          generalize min (min k need) bytes.length = n at *
          have := ih (need - n) (acc ++ bytes.take n) (bytes.drop n)
          simp only [List.length_append, List.length_take] at this
          omega
      | intr => simp only [fill, h0, if_false]; exact ih need acc bytes
      | zero => simp [fill, h0, Fill.got]
      | fail => simp [fill, h0, Fill.got]
      | pend => simp [fill, h0, Fill.got]

theorem frames_append (ps qs : List Bytes) : frames (ps ++ qs) = frames ps ++ frames qs := by
  induction ps with
  | nil => rfl
  | cons p ps ih => simp [frames, ih]

end Minicbor.Frame
