/-
  Since the K5 repair (docs/K5-candidate.diff; `Derive.bareNull`) no value triggers the hazard that
  `benign` used to exclude: `benign w r v = true` for all `w`, `r`, `v`.  The predicate is still what
  the compatibility lemmas thread through their induction; this file discharges it.
-/
import Minicbor.Compat
namespace Minicbor.Derive

mutual
theorem benignP_always : ∀ (w r : FTy) (v : Val), benignP true w r v = true
  | .option w, r, v => by
    cases r <;> cases v <;> simp [benignP]
    exact benignP_always w _ _
  | .vec w, r, v => by
    cases r <;> cases v <;> simp [benignP]
    intro x _
    exact benignP_always w _ x
  | .struct a fs, r, v => by
    cases r <;> cases v <;> simp [benignP]
    rename_i b gs vs
    split
    · split
      · exact benignOne_always fs _ vs
      · rfl
    · simp [k5Hit, benignFields_always fs gs vs]
  | .enum a vs, r, v => by
    cases r <;> cases v <;> simp [benignP]
    exact benignVars_always a _ vs _ _ _
  | .int _, r, v => by cases r <;> cases v <;> simp [benignP]
  | .bool, r, v => by cases r <;> cases v <;> simp [benignP]
  | .text _, r, v => by cases r <;> cases v <;> simp [benignP]
  | .blob _, r, v => by cases r <;> cases v <;> simp [benignP]
termination_by structural w => w
theorem benignOne_always : ∀ (fs : Fields) (u : FTy) (vs : List Val), benignOne true fs u vs = true
  | [], u, vs => by simp [benignOne]
  | [(a, t)], u, vs => by
    cases vs with
    | nil => simp [benignOne]
    | cons v vs => cases vs <;> simp [benignOne, benignP_always t u v]
  | _ :: _ :: _, u, vs => by simp [benignOne]
termination_by structural fs => fs
theorem benignFields_always : ∀ (fs gs : Fields) (vs : List Val), benignFields true fs gs vs = true
  | [], gs, vs => by simp [benignFields]
  | (fa, t) :: fs, gs, [] => by simp [benignFields]
  | (fa, t) :: fs, gs, v :: vs => by
    simp only [benignFields, Bool.and_eq_true]
    refine ⟨?_, benignFields_always fs gs vs⟩
    split
    · rfl
    · split
      · rfl
      · exact benignP_always t _ v
termination_by structural fs => fs
theorem benignVars_always (a b : EAttr) : ∀ (vs us : Variants) (k : Nat) (fvs : List Val), benignVars true a b vs us k fvs = true
  | [], us, k, fvs => by simp [benignVars]
  | (va, fs) :: rest, us, 0, fvs => by
    simp only [benignVars]
    split
    · rfl
    · split
      · rfl
      · rfl
      · simp [k5Hit, benignFields_always fs _ fvs]
  | (va, fs) :: rest, us, k + 1, fvs => by
    simp only [benignVars]
    exact benignVars_always a b rest us k fvs
termination_by structural vs => vs
end

theorem benign_always (w r : FTy) (v : Val) : benign w r v = true := benignP_always w r v

end Minicbor.Derive
