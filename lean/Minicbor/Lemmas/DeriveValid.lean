/-
  Consequence of `spec_valid` (DeriveSpecValid.lean) and C06.skip_exact: `skip()` gets across
  every derived encoding that fits a slice — the fact C10 needs for fields / variant bodies the
  reader does not know.  Also: the items inside a struct / variant body are no longer than the body.
-/
import Minicbor.Lemmas.DeriveSpecValid
import Minicbor.Thm.C06

namespace Minicbor.Derive

/-! ### skip gets across every derived encoding -/

theorem skip_encPref (i : Item) (rest : Bytes) (hv : PV i) (hl : (encPref i).length < 2 ^ 64) :
    Dec.skip true (encPref i ++ rest) = .ok () rest :=
  C06.skip_exact (prefTree i) rest hv hl

/-- **skip() consumes exactly the derived encoding of any well-typed value.** -/
theorem skip_encTy (t : FTy) (v : Val) (rest : Bytes) (ha : accepted t = true) (hv : hasTy t v = true)
    (hl : (encTy t v).length < 2 ^ 64) : Dec.skip true (encTy t v ++ rest) = .ok () rest := by
  rw [C08.enc_spec t v ha hv] at hl ⊢
  exact skip_encPref _ rest (spec_valid t v ha hv) hl

/-! ### lengths: the parts of a body are no longer than the body -/

theorem encPrefs_mem_length : ∀ (xs : List Item) (x : Item), x ∈ xs → (encPref x).length ≤ (encPrefs xs).length
  | [], _, h => by simp at h
  | y :: ys, x, h => by
    rw [encPrefs_cons, List.length_append]
    rcases List.mem_cons.1 h with rfl | h
    · omega
    · have := encPrefs_mem_length ys x h; omega

theorem mapStmts_piece_le : ∀ (S : List (Piece Bytes)) (p : Piece Bytes), p ∈ S → p.nil = false →
    (tagBytes p.tag ++ p.body).length ≤ (mapStmts S).length
  | [], _, h, _ => by simp at h
  | q :: S, p, h, hn => by
    simp only [mapStmts, List.length_append]
    rcases List.mem_cons.1 h with rfl | h
    · simp only [hn, Bool.not_false, if_true, List.length_append]; omega
    · have := mapStmts_piece_le S p h hn
      simp only [List.length_append] at this
      omega

/-- array encoding: every cell of the documented array is no longer than the frame. -/
theorem cell_le_frame (qs : List (Piece Item)) (nd : (idxs qs).Nodup)
    (hok : ∀ p ∈ qs, p.idx < U32 ∧ tagOk p.tag = true) (m i : Nat) (hm : maxPresent qs = some m) (hi : i ≤ m) :
    (encPref (cellAt qs i)).length ≤ (frame .array (qs.map toBytes)).length := by
  rw [frame_spec .array qs nd hok]
  simp only [specBody, specArray_eq, hm]
  obtain ⟨q, hq, hqm, _⟩ := maxPresent_mem hm
  have hm32 : m < U32 := by rw [← hqm]; exact (hok q hq).1
  rw [encPref_array _ (by simp [U64, U32] at *; omega), List.length_append]
  have := encPrefs_mem_length ((List.range (m + 1)).map (cellAt qs)) (cellAt qs i)
    (List.mem_map.2 ⟨i, by simp; omega, rfl⟩)
  omega

/-- map encoding: every entry's item is no longer than the frame. -/
theorem entry_le_frame (ps : List (Piece Bytes)) (p : Piece Bytes) (hp : p ∈ ps) (hn : p.nil = false) :
    (tagBytes p.tag ++ p.body).length ≤ (frame .map ps).length := by
  have := mapStmts_piece_le (sortP ps) p ((sortP_perm ps).mem_iff.2 hp) hn
  simp only [frame, frameMap, List.length_append] at this ⊢
  omega

end Minicbor.Derive
