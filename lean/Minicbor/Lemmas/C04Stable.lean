/-
  C04 infrastructure: **stability under extension of the input**.

  `Stable m`: run `m` on `bs` and on `bs ++ q`.
    * if the short run succeeds, the long run succeeds with the same value and `q` appended to
      the remaining input (this half is `Ext` of Lemmas/SkipExt.lean);
    * if the short run fails with a class other than end-of-input, the long run fails with the
      same class at the same place.
  So the only outcome of a run that can change when bytes are appended is `end of input`.
  Consequence (`Stable.prefix_eoi`): if `m` succeeds on `p ++ q` and has consumed some of `q`, then
  on `p` alone it fails with the end-of-input class — never success, never another class.

  The relation is stated between two actions (`ExtRel m m'`) so that fuelled loops, whose fuel
  is computed from the length of the remaining input, can be related at two different fuels.
-/
import Minicbor.Skip
import Minicbor.Lemmas.NoPanic

namespace Minicbor.Dec

/-- outcome `x` (short input) is reproduced by outcome `y` (input extended by `q`). -/
def Res.ExtTo (q : Bytes) : Res α → Res α → Prop
  | .ok a r, y => y = .ok a (r ++ q)
  | .err e r, y => e = .eoi ∨ y = .err e (r ++ q)
  | .panic, _ => True

/-- `m'` on an extended input reproduces every outcome of `m` other than end-of-input. -/
def ExtRel (m m' : Dec α) : Prop := ∀ bs q, Res.ExtTo q (m bs) (m' (bs ++ q))

/-- stability of one action under extension of its input. -/
abbrev Stable (m : Dec α) : Prop := ExtRel m m

namespace ExtRel

theorem pure (a : α) : ExtRel (Pure.pure a : Dec α) (Pure.pure a) := by
  intro bs q; rfl

theorem fail (e : Err) : ExtRel (Dec.fail e : Dec α) (Dec.fail e) := by
  intro bs q; exact .inr rfl

theorem panic (m' : Dec α) : ExtRel (Dec.panic : Dec α) m' := by
  intro bs q; trivial

theorem read : ExtRel Dec.read Dec.read := by
  intro bs q
  cases bs with
  | nil => exact .inl rfl
  | cons b bs => rfl

theorem current : ExtRel Dec.current Dec.current := by
  intro bs q
  cases bs with
  | nil => exact .inl rfl
  | cons b bs => rfl

theorem peek : ExtRel Dec.peek Dec.peek := by
  intro bs q
  match bs with
  | [] => exact .inl rfl
  | [_] => exact .inl rfl
  | _ :: _ :: _ => rfl

theorem readSlice (n : Nat) : ExtRel (Dec.readSlice n) (Dec.readSlice n) := by
  intro bs q
  unfold Dec.readSlice
  by_cases hn : n ≤ bs.length
  · have : n ≤ (bs ++ q).length := by simp; omega
    simp only [hn, this, if_true, Res.ExtTo, List.take_append_of_le_length hn,
      List.drop_append_of_le_length hn]
  · simp only [hn, if_false]; exact .inl rfl

theorem bind {m m' : Dec α} {f g : α → Dec β} (hm : ExtRel m m') (hf : ∀ a, ExtRel (f a) (g a)) :
    ExtRel (m >>= f) (m' >>= g) := by
  intro bs q
  rw [Dec.bind_run, Dec.bind_run]
  have h := hm bs q
  cases hmb : m bs with
  | ok a r =>
    rw [hmb] at h; simp only [Res.ExtTo] at h
    rw [h]; exact hf a r q
  | err e r =>
    rw [hmb] at h; simp only [Res.ExtTo] at h
    rcases h with h | h
    · exact .inl h
    · rw [h]; exact .inr rfl
  | panic => trivial

theorem ite {c : Prop} [Decidable c] {a b a' b' : Dec α} (ha : ExtRel a a') (hb : ExtRel b b') :
    ExtRel (if c then a else b) (if c then a' else b') := by
  split <;> assumption

end ExtRel

/-- discharge `ExtRel` / `Stable` goals for code built from the primitives, `if` and `match`. -/
macro "stable" : tactic =>
  `(tactic| repeat' (first
      | exact ExtRel.pure _ | exact ExtRel.fail _ | exact ExtRel.read | exact ExtRel.current
      | exact ExtRel.peek | exact ExtRel.readSlice _ | exact ExtRel.panic _
      | assumption | solve_by_elim -exfalso -symm (maxDepth := 2)
      | refine ExtRel.bind ?_ (fun _ => ?_) | apply ExtRel.ite | split | dsimp only))

/-- a loop whose fuel is the length of the remaining input plus a constant. -/
theorem Stable.withRemaining {loop : Nat → Dec α} (c : Nat)
    (h : ∀ f f', f ≤ f' → ExtRel (loop f) (loop f')) :
    Stable (Dec.remaining >>= fun r => loop (r.length + c)) := by
  intro bs q
  simp only [Dec.bind_run, Dec.remaining]
  exact h _ _ (by simp) bs q

/-! ### what stability buys -/

theorem Stable.ok_ext {m : Dec α} (hs : Stable m) {bs : Bytes} {a : α} {r : Bytes} (q : Bytes)
    (h : m bs = .ok a r) : m (bs ++ q) = .ok a (r ++ q) := by
  have := hs bs q; rw [h] at this; exact this

theorem Stable.err_ext {m : Dec α} (hs : Stable m) {bs : Bytes} {e : Err} {r : Bytes} (q : Bytes)
    (h : m bs = .err e r) (hne : e ≠ .eoi) : m (bs ++ q) = .err e (r ++ q) := by
  have := hs bs q; rw [h] at this
  rcases this with h1 | h1
  · exact absurd h1 hne
  · exact h1

/-- **strict prefixes fail with end-of-input.**  If `m` succeeds on `p ++ q` and what remains is
    shorter than `q` (it has consumed part of `q`), then on `p` alone `m` reports end of input. -/
theorem Stable.prefix_eoi {m : Dec α} (hs : Stable m) (hp : NoPanic m) {p q : Bytes} {a : α} {r0 : Bytes}
    (h : m (p ++ q) = .ok a r0) (hlen : r0.length < q.length) : ∃ r, m p = .err .eoi r := by
  cases hmp : m p with
  | ok a' r =>
    rw [hs.ok_ext q hmp] at h
    injection h with _ h2
    rw [← h2] at hlen; simp at hlen; omega
  | err e r =>
    by_cases he : e = .eoi
    · subst he; exact ⟨r, rfl⟩
    · rw [hs.err_ext q hmp he] at h; cases h
  | panic => exact absurd hmp (hp p)

/-- … in particular every strict prefix of an input that is consumed completely. -/
theorem Stable.prefix_eoi_nil {m : Dec α} (hs : Stable m) (hp : NoPanic m) {p q : Bytes} {a : α}
    (h : m (p ++ q) = .ok a []) (hq : q ≠ []) : ∃ r, m p = .err .eoi r :=
  hs.prefix_eoi hp h (by cases q with | nil => exact absurd rfl hq | cons _ _ => simp)

/-! ### the accessors -/

theorem Stable.typeOf (b : UInt8) : Stable (Dec.typeOf b) := by
  unfold Dec.typeOf; stable

theorem Stable.typeMismatch (b : UInt8) : Stable (Dec.typeMismatch b : Dec α) := by
  unfold Dec.typeMismatch
  have := Stable.typeOf b
  stable

theorem Stable.unsigned (b : UInt8) : Stable (Dec.unsigned b) := by
  unfold Dec.unsigned
  have := @Stable.typeMismatch Nat b
  stable

theorem Stable.tryAs (v m : Nat) : Stable (Dec.tryAs v m) := by
  unfold Dec.tryAs; stable

theorem Stable.u64ToUsize (n : Nat) : Stable (Dec.u64ToUsize n) := by
  unfold Dec.u64ToUsize; stable

theorem Stable.intAcc (t : IntTy) : Stable (Dec.intAcc t) := by
  unfold Dec.intAcc
  have := Stable.unsigned
  have := Stable.tryAs
  have := @Stable.typeMismatch Int
  stable

theorem Stable.bool : Stable Dec.bool := by
  unfold Dec.bool
  have := @Stable.typeMismatch Bool
  stable

theorem Stable.f16 : Stable Dec.f16 := by
  unfold Dec.f16
  have := @Stable.typeMismatch Nat
  stable

theorem Stable.f32 (half : Bool) : Stable (Dec.f32 half) := by
  unfold Dec.f32
  have := @Stable.typeMismatch Nat
  have := Stable.f16
  stable

theorem Stable.f64 (half : Bool) : Stable (Dec.f64 half) := by
  unfold Dec.f64
  have := @Stable.typeMismatch Nat
  have := Stable.f16
  have := Stable.f32 half
  stable

theorem Stable.char : Stable Dec.char := by
  unfold Dec.char
  have := Stable.intAcc .u32
  stable

theorem Stable.bytes : Stable Dec.bytes := by
  unfold Dec.bytes
  have := @Stable.typeMismatch Bytes
  have := Stable.unsigned
  have := Stable.u64ToUsize
  stable

theorem Stable.str : Stable Dec.str := by
  unfold Dec.str
  have := @Stable.typeMismatch Bytes
  have := Stable.unsigned
  have := Stable.u64ToUsize
  stable

theorem Stable.container (maj : Nat) : Stable (Dec.container maj) := by
  unfold Dec.container
  have := @Stable.typeMismatch (Option Nat)
  have := Stable.unsigned
  stable

theorem Stable.array : Stable Dec.array := Stable.container _
theorem Stable.map : Stable Dec.map := Stable.container _

theorem Stable.tag : Stable Dec.tag := by
  unfold Dec.tag
  have := @Stable.typeMismatch Nat
  have := Stable.unsigned
  stable

theorem Stable.null : Stable Dec.null := by
  unfold Dec.null
  have := @Stable.typeMismatch Unit
  stable

theorem Stable.undefined : Stable Dec.undefined := by
  unfold Dec.undefined
  have := @Stable.typeMismatch Unit
  stable

theorem Stable.simple : Stable Dec.simple := by
  unfold Dec.simple
  have := @Stable.typeMismatch Nat
  stable

theorem Stable.datatype : Stable Dec.datatype := by
  unfold Dec.datatype
  have := Stable.typeOf
  stable

/-- the chunk loop at two fuels. -/
theorem ExtRel.chunkLoop (text : Bool) (f f' : Nat) (hf : f ≤ f') :
    ExtRel (Dec.chunkLoop text f) (Dec.chunkLoop text f') := by
  induction f generalizing f' with
  | zero => unfold Dec.chunkLoop; exact ExtRel.panic _
  | succ f ih =>
    cases f' with
    | zero => omega
    | succ f' =>
      have ih' := ih f' (by omega)
      unfold Dec.chunkLoop
      have := Stable.str
      have := Stable.bytes
      stable

theorem Stable.stringIter (text : Bool) : Stable (Dec.stringIter text) := by
  unfold Dec.stringIter
  have := @Stable.typeMismatch (List Bytes)
  have := Stable.unsigned
  have := Stable.u64ToUsize
  have := Stable.withRemaining 1 (ExtRel.chunkLoop text)
  stable

theorem Stable.bytesIter : Stable Dec.bytesIter := Stable.stringIter _
theorem Stable.strIter : Stable Dec.strIter := Stable.stringIter _

/-! ### `skip` -/

theorem Stable.skipString (text : Bool) : Stable (Dec.skipString text) := by
  unfold Dec.skipString
  have := Stable.stringIter text
  stable

theorem Stable.skipIndefinite (alloc : Bool) (s : SkipSt) : Stable (Dec.skipIndefinite alloc s) := by
  unfold Dec.skipIndefinite; stable

theorem Stable.skipArm (alloc : Bool) (s : SkipSt) : Stable (Dec.skipArm alloc s) := by
  unfold Dec.skipArm
  have := @Stable.typeMismatch SkipArm
  have := Stable.unsigned
  have := Stable.intAcc
  have := Stable.skipString
  have := Stable.array
  have := Stable.map
  have := Stable.skipIndefinite alloc
  stable

theorem Stable.skipPost (alloc : Bool) (s : SkipSt) : Stable (Dec.skipPost alloc s) := by
  unfold Dec.skipPost; stable

theorem ExtRel.skipLoop (alloc : Bool) (f f' : Nat) (hf : f ≤ f') (s : SkipSt) :
    ExtRel (Dec.skipLoop alloc f s) (Dec.skipLoop alloc f' s) := by
  induction f generalizing f' s with
  | zero => unfold Dec.skipLoop; exact ExtRel.panic _
  | succ f ih =>
    cases f' with
    | zero => omega
    | succ f' =>
      have ih' := ih f' (by omega)
      unfold Dec.skipLoop
      have := Stable.skipArm alloc
      have := Stable.skipPost alloc
      stable

theorem Stable.skip (alloc : Bool) : Stable (Dec.skip alloc) := by
  unfold Dec.skip
  exact Stable.withRemaining 2 (fun f f' h => ExtRel.skipLoop alloc f f' h SkipSt.init)

end Minicbor.Dec
