/-
  What one iteration of the `skip` loop consumes ("tokens"): for every kind of head that a
  valid wire tree can start with, `skipArm` on the bytes of that token followed by anything
  returns the rest untouched, together with an explicit description of the new state.
  The number of bytes an iteration consumes does not depend on the state.
-/
import Minicbor.Skip
import Minicbor.Lemmas.Head

namespace Minicbor
open Dec

/-- decoding the initial byte `k + a` of a head of major type `k / 32`. -/
theorem head_byte (k a : Nat) (hk : k % 32 = 0) (hk' : k ≤ 224) (ha : a ≤ 27) :
    (u8 (k + a)).toNat = k + a ∧ majorOf (u8 (k + a)) = k ∧ infoOf (u8 (k + a)) = u8 a := by
  have h : (u8 (k + a)).toNat = k + a := by rw [u8_toNat_mod]; omega
  refine ⟨h, ?_, ?_⟩
  · unfold majorOf; rw [h]; omega
  · unfold infoOf; rw [h]; congr 1; omega

theorem u8_ne_31 (a : Nat) (ha : a ≤ 27) : u8 a ≠ 31 := by
  intro h
  have : (u8 a).toNat = (31 : UInt8).toNat := by rw [h]
  rw [u8_toNat_mod] at this
  simp at this; omega

theorem u8_ne_255 (a : Nat) (ha : a < 255) : u8 a ≠ 255 := by
  intro h
  have : (u8 a).toNat = (255 : UInt8).toNat := by rw [h]
  rw [u8_toNat_mod] at this
  simp at this; omega

/-! ### strings -/

/-- a definite-length string (either kind) is drained by `bytes_iter` / `str_iter`. -/
theorem Dec.stringIter_def (text : Bool) (w : Width) (n : Nat) (b rest : Bytes) (hlen : b.length = n)
    (h : w.fits n = true) (hu : text = true → validUtf8 b = true) :
    stringIter text (headW (if text then 3 else 2) w n ++ (b ++ rest))
      = .ok (if n = 0 then [] else [b]) rest := by
  have ha := Width.ai_le w _ h
  have hn := Width.fits_lt w _ h
  have hn' : n < 18446744073709551616 := by omega
  have h31 := u8_ne_31 _ ha
  have hu' := Dec.unsigned_head w _ (b ++ rest) h
  have hrs : readSlice n (b ++ rest) = .ok b rest := by rw [← hlen]; exact Dec.readSlice_append b rest
  cases text
  · obtain ⟨h1, h2, h3⟩ := head_byte 64 _ (by omega) (by omega) ha
    by_cases hz : n = 0
    · subst hz
      have : b = [] := List.eq_nil_of_length_eq_zero hlen
      subst this
      simp [stringIter, headW, Dec.bind_run, h2, h3, h31, hu', u64ToUsize] at *
    · simp [stringIter, headW, Dec.bind_run, h2, h3, h31, hu', u64ToUsize, hn', hz, hrs]
  · obtain ⟨h1, h2, h3⟩ := head_byte 96 _ (by omega) (by omega) ha
    have hv := hu rfl
    by_cases hz : n = 0
    · subst hz
      have : b = [] := List.eq_nil_of_length_eq_zero hlen
      subst this
      simp [stringIter, headW, Dec.bind_run, h2, h3, h31, hu', u64ToUsize] at *
    · simp [stringIter, headW, Dec.bind_run, h2, h3, h31, hu', u64ToUsize, hn', hz, hrs, hv]

/-- one definite chunk read by `bytes()` / `str()`. -/
theorem Dec.chunk_def (text : Bool) (w : Width) (b rest : Bytes)
    (h : w.fits b.length = true) (hu : text = true → validUtf8 b = true) :
    (if text then Dec.str else Dec.bytes) (headW (if text then 3 else 2) w b.length ++ (b ++ rest))
      = .ok b rest := by
  have ha := Width.ai_le w _ h
  have hn := Width.fits_lt w _ h
  have hn' : b.length < 18446744073709551616 := by omega
  have h31 := u8_ne_31 _ ha
  have hu' := Dec.unsigned_head w _ (b ++ rest) h
  have hrs : readSlice b.length (b ++ rest) = .ok b rest := Dec.readSlice_append b rest
  cases text
  · obtain ⟨h1, h2, h3⟩ := head_byte 64 _ (by omega) (by omega) ha
    simp [Dec.bytes, headW, Dec.bind_run, h2, h3, h31, hu', u64ToUsize, hn', hrs]
  · obtain ⟨h1, h2, h3⟩ := head_byte 96 _ (by omega) (by omega) ha
    have hv := hu rfl
    simp [Dec.str, headW, Dec.bind_run, h2, h3, h31, hu', u64ToUsize, hn', hrs, hv]

theorem encChunks_length_ge (maj : Nat) (cs : List (Width × Bytes)) :
    cs.length ≤ (encChunks maj cs).length := by
  induction cs with
  | nil => simp [encChunks]
  | cons c cs ih =>
    obtain ⟨w, b⟩ := c
    simp [encChunks, headW]; omega

/-- the chunk loop on the chunks of a valid indefinite string, followed by the break byte. -/
theorem Dec.chunkLoop_chunks (text : Bool) (cs : List (Width × Bytes)) (fuel : Nat) (rest : Bytes)
    (hv : chunksValid text cs = true) (hf : cs.length < fuel) :
    chunkLoop text fuel (encChunks (if text then 3 else 2) cs ++ 0xff :: rest)
      = .ok (cs.map (·.2)) rest := by
  induction cs generalizing fuel with
  | nil =>
    cases fuel with
    | zero => simp at hf
    | succ f => simp [chunkLoop, encChunks, Dec.bind_run]
  | cons c cs ih =>
    obtain ⟨w, b⟩ := c
    cases fuel with
    | zero => simp at hf
    | succ f =>
      simp only [chunksValid, Bool.and_eq_true] at hv
      obtain ⟨⟨hfit, hutf⟩, hrest⟩ := hv
      have ha := Width.ai_le w _ hfit
      have hu : text = true → validUtf8 b = true := by
        intro ht; subst ht; simpa using hutf
      have hc := Dec.chunk_def text w b (encChunks (if text then 3 else 2) cs ++ 0xff :: rest) hfit hu
      have ih' := ih f hrest (by simp at hf; omega)
      have hne : u8 ((if text = true then 3 else 2) * 32 + w.ai b.length) ≠ 255 := by
        apply u8_ne_255; cases text <;> simp <;> omega
      have e : encChunks (if text = true then 3 else 2) ((w, b) :: cs) ++ 0xff :: rest
          = headW (if text = true then 3 else 2) w b.length
              ++ (b ++ (encChunks (if text = true then 3 else 2) cs ++ 0xff :: rest)) := by
        simp [encChunks, List.append_assoc]
      rw [e]
      unfold chunkLoop
      have hcur : Dec.current (headW (if text = true then 3 else 2) w b.length
              ++ (b ++ (encChunks (if text = true then 3 else 2) cs ++ 0xff :: rest)))
          = .ok (u8 ((if text = true then 3 else 2) * 32 + w.ai b.length))
              (headW (if text = true then 3 else 2) w b.length
              ++ (b ++ (encChunks (if text = true then 3 else 2) cs ++ 0xff :: rest))) := by
        simp [headW]
      rw [Dec.bind_run, hcur]
      simp only [beq_iff_eq, hne, if_false]
      rw [Dec.bind_run, hc]
      simp only []
      rw [Dec.bind_run, ih']
      simp

/-- an indefinite-length string (either kind) with valid chunks is drained. -/
theorem Dec.stringIter_indef (text : Bool) (cs : List (Width × Bytes)) (rest : Bytes)
    (hv : chunksValid text cs = true) :
    stringIter text (u8 ((if text then 3 else 2) * 32 + 31)
        :: (encChunks (if text then 3 else 2) cs ++ 0xff :: rest))
      = .ok (cs.map (·.2)) rest := by
  have hl := encChunks_length_ge (if text then 3 else 2) cs
  have hcl := Dec.chunkLoop_chunks text cs
      ((encChunks (if text then 3 else 2) cs ++ 0xff :: rest).length + 1) rest hv
      (by simp; omega)
  have e31 : u8 31 = 31 := rfl
  cases text
  · simp [stringIter, Dec.bind_run, majorOf, infoOf, remaining, e31] at hcl ⊢
    exact hcl
  · simp [stringIter, Dec.bind_run, majorOf, infoOf, remaining, e31] at hcl ⊢
    exact hcl

/-! ### the arms of `skip`'s `match` -/

theorem Dec.arm_uint (alloc : Bool) (s : SkipSt) (w : Width) (n : Nat) (rest : Bytes)
    (h : w.fits n = true) :
    skipArm alloc s (headW 0 w n ++ rest) = .ok (.next s) rest := by
  have ha := Width.ai_le w n h
  have hn := Width.fits_lt w n h
  have h1 : (w.ai n) % 256 ≤ 27 := by omega
  have h2 : n ≤ 18446744073709551615 := by omega
  simp [skipArm, headW, Dec.bind_run, h1, intAcc, Dec.unsigned_head w n rest h, tryAs, IntTy.u64, h2]

theorem Dec.arm_nint (alloc : Bool) (s : SkipSt) (w : Width) (n : Nat) (rest : Bytes)
    (h : w.fits n = true) :
    skipArm alloc s (headW 1 w n ++ rest) = .ok (.next s) rest := by
  have ha := Width.ai_le w n h
  have hn := Width.fits_lt w n h
  have h1 : ¬ (32 + w.ai n) % 256 ≤ 27 := by omega
  have h2 : 32 ≤ (32 + w.ai n) % 256 := by omega
  have h3 : (32 + w.ai n) % 256 ≤ 59 := by omega
  have h4 : (32 + w.ai n) % 256 - 32 = w.ai n := by omega
  have h5 : n ≤ 18446744073709551615 := by omega
  simp [skipArm, headW, Dec.bind_run, h1, h2, h3, h4, intAcc, Dec.unsigned_head w n rest h, tryAs,
    IntTy.int, h5]

/-- `skipArm` only looks at the initial byte to choose the string arms. -/
theorem Dec.arm_string (alloc : Bool) (s : SkipSt) (text : Bool) (b0 : UInt8) (tl rest : Bytes)
    (cs : List Bytes)
    (hb : b0.toNat / 32 = (if text then 3 else 2))
    (hs : stringIter text (b0 :: tl) = .ok cs rest) :
    skipArm alloc s (b0 :: tl) = .ok (.next s) rest := by
  have hlt := b0.toNat_lt
  cases text
  · have h1 : ¬ b0.toNat ≤ 27 := by simp at hb; omega
    have h2 : ¬ (32 ≤ b0.toNat ∧ b0.toNat ≤ 59) := by simp at hb; omega
    have h3 : 64 ≤ b0.toNat ∧ b0.toNat ≤ 95 := by simp at hb; omega
    simp [skipArm, Dec.bind_run, h1, h2, h3, skipString, hs]
  · have h1 : ¬ b0.toNat ≤ 27 := by simp at hb; omega
    have h2 : ¬ (32 ≤ b0.toNat ∧ b0.toNat ≤ 59) := by simp at hb; omega
    have h3 : ¬ (64 ≤ b0.toNat ∧ b0.toNat ≤ 95) := by simp at hb; omega
    have h4 : 96 ≤ b0.toNat ∧ b0.toNat ≤ 127 := by simp at hb; omega
    simp [skipArm, Dec.bind_run, h1, h2, h3, h4, skipString, hs]

/-- state after a definite array/map head announcing `n` further items (for maps `n` is already doubled). -/
def defSt (alloc : Bool) (s : SkipSt) (n : Nat) : SkipSt :=
  if n = 0 ∧ alloc = true then s else skipDefinite alloc s n

/-- state after an indefinite array/map head (`none`: the no-alloc build gives up). -/
def indefSt (alloc : Bool) (s : SkipSt) : Option SkipSt :=
  if alloc && !s.counting then some { s with stack := none :: s.stack }
  else if s.nr < 2 then some { s with ir := satAdd s.ir 1 }
  else if alloc then
    some { nr := 0, ir := 0, stack := none :: some (s.nr - 1) :: (List.replicate s.ir none ++ s.stack) }
  else none

/-- state after a break byte. -/
def brkSt (alloc : Bool) (s : SkipSt) : SkipSt :=
  if alloc && !s.counting then
    match s.stack with
    | none :: rest => { s with stack := rest }
    | _ => s
  else { s with ir := s.ir - 1 }

theorem Dec.skipIndefinite_eq (alloc : Bool) (s : SkipSt) (rest : Bytes) :
    skipIndefinite alloc s rest
      = match indefSt alloc s with
        | some s' => .ok s' rest
        | none => .err .message rest := by
  unfold skipIndefinite indefSt
  split
  · rfl
  · split
    · rfl
    · split <;> rfl

theorem Dec.arm_bytes (alloc : Bool) (s : SkipSt) (w : Width) (b rest : Bytes)
    (h : w.fits b.length = true) :
    skipArm alloc s (headW 2 w b.length ++ (b ++ rest)) = .ok (.next s) rest := by
  have ha := Width.ai_le w _ h
  have hs := Dec.stringIter_def false w b.length b rest rfl h (by simp)
  obtain ⟨h1, -, -⟩ := head_byte 64 _ (by omega) (by omega) ha
  simp only [headW, List.cons_append] at hs ⊢
  refine Dec.arm_string alloc s false _ _ _ _ ?_ hs
  simp only [Bool.false_eq_true, if_false]
  rw [show 2 * 32 = 64 from rfl, h1]; omega

theorem Dec.arm_text (alloc : Bool) (s : SkipSt) (w : Width) (b rest : Bytes)
    (h : w.fits b.length = true) (hv : validUtf8 b = true) :
    skipArm alloc s (headW 3 w b.length ++ (b ++ rest)) = .ok (.next s) rest := by
  have ha := Width.ai_le w _ h
  have hs := Dec.stringIter_def true w b.length b rest rfl h (fun _ => hv)
  obtain ⟨h1, -, -⟩ := head_byte 96 _ (by omega) (by omega) ha
  simp only [headW, List.cons_append] at hs ⊢
  refine Dec.arm_string alloc s true _ _ _ _ ?_ hs
  simp only [if_true]
  rw [show 3 * 32 = 96 from rfl, h1]; omega

theorem Dec.arm_bytesI (alloc : Bool) (s : SkipSt) (cs : List (Width × Bytes)) (rest : Bytes)
    (hv : chunksValid false cs = true) :
    skipArm alloc s (0x5f :: (encChunks 2 cs ++ 0xff :: rest)) = .ok (.next s) rest := by
  have hs := Dec.stringIter_indef false cs rest hv
  exact Dec.arm_string alloc s false _ _ _ _ (by decide) hs

theorem Dec.arm_textI (alloc : Bool) (s : SkipSt) (cs : List (Width × Bytes)) (rest : Bytes)
    (hv : chunksValid true cs = true) :
    skipArm alloc s (0x7f :: (encChunks 3 cs ++ 0xff :: rest)) = .ok (.next s) rest := by
  have hs := Dec.stringIter_indef true cs rest hv
  exact Dec.arm_string alloc s true _ _ _ _ (by decide) hs

theorem Dec.arm_simple (alloc : Bool) (s : SkipSt) (n : Nat) (rest : Bytes)
    (h : (n < 24 || (32 ≤ n && n < 256)) = true) :
    skipArm alloc s ((if n < 24 then [u8 (0xe0 + n)] else [0xf8, u8 n]) ++ rest)
      = .ok (.next s) rest := by
  by_cases hn : n < 24
  · have h0 : (u8 (224 + n)).toNat = 224 + n := by rw [u8_toNat_mod]; omega
    have h1 : ¬ 224 + n ≤ 27 := by omega
    have h2 : ¬ 224 + n ≤ 59 := by omega
    have h3 : ¬ 224 + n ≤ 95 := by omega
    have h4 : ¬ 224 + n ≤ 127 := by omega
    have h5 : ¬ 224 + n ≤ 159 := by omega
    have h6 : ¬ 224 + n ≤ 191 := by omega
    have h7 : ¬ 224 + n ≤ 219 := by omega
    have h8 : 224 + n ≤ 251 := by omega
    have h9 : infoOf (u8 (224 + n)) = u8 n := by unfold infoOf; rw [h0]; congr 1; omega
    have h10 : n % 256 ≤ 23 := by omega
    simp only [hn, if_true, List.cons_append, List.nil_append]
    simp [skipArm, Dec.bind_run, h0, h1, h2, h3, h4, h5, h6, h7, h8, h9, unsigned, h10]
  · have hn2 : n < 256 := by simp at h; omega
    have e24 : infoOf 0xf8 = u8 24 := by decide
    simp only [hn, if_false, List.cons_append, List.nil_append]
    simp [skipArm, Dec.bind_run, e24, unsigned]

theorem Dec.arm_float (alloc : Bool) (s : SkipSt) (k bits : Nat) (rest : Bytes)
    (hk : k = 2 ∨ k = 4 ∨ k = 8) :
    skipArm alloc s ((if k = 2 then (0xf9 : UInt8) else if k = 4 then 0xfa else 0xfb) :: (be k bits ++ rest))
      = .ok (.next s) rest := by
  have e1 : infoOf 0xf9 = u8 25 := by decide
  have e2 : infoOf 0xfa = u8 26 := by decide
  have e3 : infoOf 0xfb = u8 27 := by decide
  rcases hk with rfl | rfl | rfl
  · simp [skipArm, Dec.bind_run, e1, unsigned, Dec.readSlice_be]
  · simp [skipArm, Dec.bind_run, e2, unsigned, Dec.readSlice_be]
  · simp [skipArm, Dec.bind_run, e3, unsigned, Dec.readSlice_be]

theorem Dec.arm_tag (alloc : Bool) (s : SkipSt) (w : Width) (n : Nat) (rest : Bytes)
    (h : w.fits n = true) :
    skipArm alloc s (headW 6 w n ++ rest) = .ok (.cont s) rest := by
  have ha := Width.ai_le w n h
  obtain ⟨h0, -, h9⟩ := head_byte 192 _ (by omega) (by omega) ha
  have h1 : ¬ 192 + w.ai n ≤ 27 := by omega
  have h2 : ¬ 192 + w.ai n ≤ 59 := by omega
  have h3 : ¬ 192 + w.ai n ≤ 95 := by omega
  have h4 : ¬ 192 + w.ai n ≤ 127 := by omega
  have h5 : ¬ 192 + w.ai n ≤ 159 := by omega
  have h6 : ¬ 192 + w.ai n ≤ 191 := by omega
  have h7 : 192 + w.ai n ≤ 219 := by omega
  simp [skipArm, headW, Dec.bind_run, h0, h1, h2, h3, h4, h5, h6, h7, h9, Dec.unsigned_head w n rest h]

theorem Dec.arm_array (alloc : Bool) (s : SkipSt) (w : Width) (n : Nat) (rest : Bytes)
    (h : w.fits n = true) :
    skipArm alloc s (headW 4 w n ++ rest) = .ok (.next (defSt alloc s n)) rest := by
  have ha := Width.ai_le w n h
  obtain ⟨h0, hm, h9⟩ := head_byte 128 _ (by omega) (by omega) ha
  have h31 := u8_ne_31 _ ha
  have h1 : ¬ 128 + w.ai n ≤ 27 := by omega
  have h2 : ¬ 128 + w.ai n ≤ 59 := by omega
  have h3 : ¬ 128 + w.ai n ≤ 95 := by omega
  have h4 : ¬ 128 + w.ai n ≤ 127 := by omega
  have h5 : 128 + w.ai n ≤ 159 := by omega
  have hc : Dec.array (u8 (128 + w.ai n) :: (be w.bytes n ++ rest)) = .ok (some n) rest := by
    simp [Dec.array, container, Dec.bind_run, hm, h9, h31, Dec.unsigned_head w n rest h]
  unfold defSt
  cases n with
  | zero => cases alloc <;> simp [skipArm, headW, Dec.bind_run, h0, h1, h2, h3, h4, h5, hc]
  | succ k => simp [skipArm, headW, Dec.bind_run, h0, h1, h2, h3, h4, h5, hc]

theorem Dec.arm_map (alloc : Bool) (s : SkipSt) (w : Width) (n : Nat) (rest : Bytes)
    (h : w.fits n = true) :
    skipArm alloc s (headW 5 w n ++ rest) = .ok (.next (defSt alloc s (satMul2 n))) rest := by
  have ha := Width.ai_le w n h
  obtain ⟨h0, hm, h9⟩ := head_byte 160 _ (by omega) (by omega) ha
  have h31 := u8_ne_31 _ ha
  have h1 : ¬ 160 + w.ai n ≤ 27 := by omega
  have h2 : ¬ 160 + w.ai n ≤ 59 := by omega
  have h3 : ¬ 160 + w.ai n ≤ 95 := by omega
  have h4 : ¬ 160 + w.ai n ≤ 127 := by omega
  have h5 : ¬ 160 + w.ai n ≤ 159 := by omega
  have h6 : 160 + w.ai n ≤ 191 := by omega
  have hc : Dec.map (u8 (160 + w.ai n) :: (be w.bytes n ++ rest)) = .ok (some n) rest := by
    simp [Dec.map, container, Dec.bind_run, hm, h9, h31, Dec.unsigned_head w n rest h]
  unfold defSt
  cases n with
  | zero => cases alloc <;> simp [skipArm, headW, Dec.bind_run, h0, h1, h2, h3, h4, h5, h6, hc, satMul2]
  | succ k =>
    have : satMul2 (k + 1) ≠ 0 := by unfold satMul2 U64MAX; split <;> omega
    simp [skipArm, headW, Dec.bind_run, h0, h1, h2, h3, h4, h5, h6, hc, this]

/-- the head of an indefinite array (`0x9f`) or map (`0xbf`). -/
theorem Dec.arm_indef (alloc : Bool) (s : SkipSt) (isMap : Bool) (rest : Bytes) :
    skipArm alloc s ((if isMap then (0xbf : UInt8) else 0x9f) :: rest)
      = match indefSt alloc s with
        | some s' => .ok (.next s') rest
        | none => .err .message rest := by
  have hi := Dec.skipIndefinite_eq alloc s rest
  cases isMap
  · have hc : Dec.array (0x9f :: rest) = .ok none rest := by
      simp [Dec.array, container, Dec.bind_run, majorOf, infoOf]; rfl
    simp [skipArm, Dec.bind_run, hc, hi]
    cases indefSt alloc s <;> rfl
  · have hc : Dec.map (0xbf :: rest) = .ok none rest := by
      simp [Dec.map, container, Dec.bind_run, majorOf, infoOf]; rfl
    simp [skipArm, Dec.bind_run, hc, hi]
    cases indefSt alloc s <;> rfl

theorem Dec.arm_brk (alloc : Bool) (s : SkipSt) (rest : Bytes) :
    skipArm alloc s (0xff :: rest) = .ok (.next (brkSt alloc s)) rest := by
  unfold brkSt
  simp [skipArm, Dec.bind_run]
  split
  · split <;> simp_all
  · rfl

end Minicbor
