/-
  The map built from one attribute never holds an order-sensitive pair, and its entries have
  pairwise different kinds; hence its entries are pairwise independent.
-/
import Minicbor.Lemmas.AttrsPerm

namespace Minicbor.Attrs

/-- no pending `is_nil` next to a bare `encode_with`, no pending `nil` next to a bare `decode_with`
    (either would have been absorbed on arrival). -/
def InvCl (c : Cl) : Prop :=
  (c.isNil.isSome = true → ∀ e n, c.codec ≠ some (.enc e n)) ∧ (c.nil.isSome = true → ∀ d m, c.codec ≠ some (.dec d m))

set_option hygiene false in
macro "split_cl2" : tactic => `(tactic|
  (rcases codec with _ | ⟨e0, _ | n0⟩ | ⟨d0, _ | m0⟩ | ⟨e0, _ | n0, d0, _ | m0⟩ | ⟨p0, _ | _⟩ <;>
   cases nil <;> cases isNil <;> cases hasNil <;> cases cborLen))

set_option maxHeartbeats 4000000 in
theorem insertCl_inv (c c' : Cl) (v : Val) (hi : InvCl c) (h : insertCl c v = .ok c') : InvCl c' := by
  obtain ⟨codec, nil, isNil, hasNil, cborLen⟩ := c
  cases v with
  | codec cc =>
    rcases cc with ⟨e, _ | n⟩ | ⟨d, _ | m⟩ | ⟨e, _ | n, d, _ | m⟩ | ⟨p, _ | _⟩ <;>
    split_cl2 <;> simp [insertCl, CC.isModule] at h <;> subst h <;> simp_all [InvCl]
  | isNil z => split_cl2 <;> simp [insertCl, CC.isModule] at h <;> subst h <;> simp_all [InvCl]
  | nil z => split_cl2 <;> simp [insertCl, CC.isModule] at h <;> subst h <;> simp_all [InvCl]
  | hasNil => split_cl2 <;> simp [insertCl, CC.isModule] at h <;> subst h <;> simp_all [InvCl]
  | cborLen q => split_cl2 <;> simp [insertCl, CC.isModule] at h <;> subst h <;> simp_all [InvCl]
  | _ => simp [insertCl] at h; subst h; exact hi

def Inv (a : A) : Prop := InvCl a.cl

theorem inv_empty : Inv {} := by simp [Inv, InvCl]

theorem tryInsert_inv (l : Level) (a a' : A) (v : Val) (hi : Inv a) (h : tryInsert l a v = .ok a') : Inv a' := by
  unfold tryInsert at h
  split at h
  · cases h
  · split at h
    · cases h2 : insertCl a.cl v with
      | error e => rw [h2] at h; cases h
      | ok c => rw [h2] at h; cases h; exact insertCl_inv a.cl c v hi h2
    · cases h2 : insertRs a.rs v with
      | error e => rw [h2] at h; cases h
      | ok r => rw [h2] at h; cases h; exact hi

theorem insertItems_inv (l : Level) : ∀ (items : List Item) (a a' : A), Inv a → insertItems l a items = .ok a' → Inv a'
  | [], a, a', hi, h => by simp [insertItems] at h; subst h; exact hi
  | it :: rest, a, a', hi, h => by
    simp only [insertItems] at h
    cases h1 : it.toVal with
    | error e => rw [h1] at h; cases h
    | ok v =>
      rw [h1] at h; simp only at h
      cases h2 : tryInsert l a v with
      | error e => rw [h2] at h; cases h
      | ok a2 => rw [h2] at h; exact insertItems_inv l rest a2 a' (tryInsert_inv l a a2 v hi h2) h

/-- the map parsed from one attribute satisfies the invariant. -/
theorem ofAttr_inv (l : Level) (att : Attr) (m : A) (h : ofAttr l att = .ok m) : Inv m := by
  cases att with
  | n i =>
    simp only [ofAttr] at h
    cases h1 : parseIdx false i with
    | error e => rw [h1] at h; cases h
    | ok v => rw [h1] at h; exact tryInsert_inv l {} m v inv_empty h
  | b i =>
    simp only [ofAttr] at h
    cases h1 : parseIdx true i with
    | error e => rw [h1] at h; cases h
    | ok v => rw [h1] at h; exact tryInsert_inv l {} m v inv_empty h
  | cbor items => exact insertItems_inv l items {} m inv_empty h
  | other => simp [ofAttr] at h; subst h; exact inv_empty

/-! ### the entries of a map -/

theorem mem_entries (a : A) (v : Val) : v ∈ a.entries ↔
    (match v with
     | .codec c => a.codec = some c | .encoding e => a.encoding = some e | .index b i => a.index = some (b, i)
     | .indexOnly => a.indexOnly = true | .transparent => a.transparent = true | .typeParam t => a.typeParam = some t
     | .nil p => a.nil = some p | .isNil p => a.isNil = some p | .hasNil => a.hasNil = true
     | .contextBound bs => a.contextBound = some bs | .cborLen p => a.cborLen = some p | .tag t => a.tag = some t
     | .skip => a.skip = true) := by
  cases v <;> simp [A.entries, Option.mem_toList]

/-- the kinds, in slot order. -/
def allKinds : List Kind :=
  [.codec, .encoding, .index, .indexOnly, .transparent, .typeParam, .nil, .isNil, .hasNil, .contextBound, .cborLen, .tag, .skip]

theorem sub_opt {α : Type} (o : Option α) (f : α → Val) (k : Kind) (hk : ∀ x, (f x).kind = k) :
    ((o.map f).toList.map Val.kind).Sublist [k] := by
  cases o with
  | none => simp
  | some x => simp [hk x]

theorem sub_bool (b : Bool) (v : Val) : ((if b then [v] else []).map Val.kind).Sublist [v.kind] := by
  cases b <;> simp

/-- the entries' kinds are a sublist of the list of all kinds: one entry per kind at most. -/
theorem entries_kinds_sublist (a : A) : (a.entries.map Val.kind).Sublist allKinds := by
  unfold A.entries allKinds
  simp only [List.map_append]
  have h := fun {l1 l2 l3 l4 : List Kind} (h1 : l1.Sublist l2) (h2 : l3.Sublist l4) => List.Sublist.append h1 h2
  exact h (h (h (h (h (h (h (h (h (h (h (h
    (sub_opt a.codec Val.codec .codec (fun _ => rfl))
    (sub_opt a.encoding Val.encoding .encoding (fun _ => rfl)))
    (sub_opt a.index (fun p => Val.index p.1 p.2) .index (fun _ => rfl)))
    (sub_bool a.indexOnly .indexOnly))
    (sub_bool a.transparent .transparent))
    (sub_opt a.typeParam Val.typeParam .typeParam (fun _ => rfl)))
    (sub_opt a.nil Val.nil .nil (fun _ => rfl)))
    (sub_opt a.isNil Val.isNil .isNil (fun _ => rfl)))
    (sub_bool a.hasNil .hasNil))
    (sub_opt a.contextBound Val.contextBound .contextBound (fun _ => rfl)))
    (sub_opt a.cborLen Val.cborLen .cborLen (fun _ => rfl)))
    (sub_opt a.tag Val.tag .tag (fun _ => rfl)))
    (sub_bool a.skip .skip)

theorem entries_kinds_nodup (a : A) : (a.entries.map Val.kind).Nodup :=
  (entries_kinds_sublist a).nodup (by decide)

/-- **the entries of a map built from one attribute are pairwise independent.** -/
theorem entries_indep (a : A) (hi : Inv a) : a.entries.Pairwise Indep := by
  have hk : a.entries.Pairwise (fun v w => v.kind ≠ w.kind) := by
    have := entries_kinds_nodup a
    rw [List.Nodup, List.pairwise_map] at this
    exact this
  refine hk.imp_of_mem ?_
  intro v w hv hw hne
  refine ⟨hne, ?_⟩
  intro hb
  rw [mem_entries] at hv hw
  obtain ⟨h1, h2⟩ := hi
  cases v <;> cases w <;> simp [Bad] at hb
  all_goals (rename_i x y)
  · -- codec, nil
    cases x <;> simp [Bad] at hb
    simp only at hv hw
    exact h2 (by simp [A.nil] at hw; simp [hw]) _ _ (by simpa [A.codec] using hv)
  · -- codec, isNil
    cases x <;> simp [Bad] at hb
    simp only at hv hw
    exact h1 (by simp [A.isNil] at hw; simp [hw]) _ _ (by simpa [A.codec] using hv)
  · cases y <;> simp [Bad] at hb
    simp only at hv hw
    exact h2 (by simp [A.nil] at hv; simp [hv]) _ _ (by simpa [A.codec] using hw)
  · cases y <;> simp [Bad] at hb
    simp only at hv hw
    exact h1 (by simp [A.isNil] at hv; simp [hv]) _ _ (by simpa [A.codec] using hw)

end Minicbor.Attrs
