/-
  Further facts about balanced call sequences: every definite head of the denotation is shortest;
  without `begin_*` calls the denotation is the preferred tree of its value; C11's independent token
  reader recovers the value; and every valid wire tree is the denotation of its own token list.
-/
import Minicbor.Lemmas.BalancedEnc
import Minicbor.Lemmas.TokenCanon

namespace Minicbor
open C11

theorem forall_mem_split {α : Type} {p : α → Prop} {a b : List α} (h : ∀ t ∈ a ++ b, p t) :
    (∀ t ∈ a, p t) ∧ (∀ t ∈ b, p t) :=
  ⟨fun t ht => h t (List.mem_append_left _ ht), fun t ht => h t (List.mem_append_right _ ht)⟩

theorem forall_mem_tail {α : Type} {p : α → Prop} {x : α} {a : List α} (h : ∀ t ∈ x :: a, p t) :
    ∀ t ∈ a, p t :=
  fun t ht => h t (List.mem_cons_of_mem _ ht)

/-! ### shortest heads -/

theorem chunksShortest_pref (cs : List Bytes) : chunksShortest (prefChunks cs) = true := by
  induction cs with
  | nil => rfl
  | cons c cs ih => simpa [prefChunks, chunksShortest] using ih

theorem intW_shortest (v : Int) : shortest (intW v) = true := by
  unfold intW; split <;> simp [shortest]

theorem scalar_shortest {t : Token} {w : WItem} (hs : scalarW t = some w) : shortest w = true := by
  cases t <;> simp only [scalarW, Option.some.injEq, reduceCtorEq] at hs <;> subst hs <;>
    first | exact intW_shortest _ | simp [shortest]

/-- every definite head a balanced call sequence writes has the shortest width — no hypothesis
    on the arguments. -/
theorem Balanced.shortest {ts : List Token} {ws : List WItem} (h : Balanced ts ws) :
    shortestL ws = true := by
  induction h with
  | nil => rfl
  | scalar hs _ ih => simp [shortestL, scalar_shortest hs, ih]
  | array _ hl _ ihx ih => subst hl; simp [shortestL, Minicbor.shortest, ihx, ih]
  | @map n _ _ kvs _ _ hl _ ihx ih =>
    have : kvs.length / 2 = n := by omega
    simp [shortestL, Minicbor.shortest, ihx, ih, this]
  | tag _ _ ihx ih =>
    simp only [shortestL, Bool.and_true] at ihx
    simp [shortestL, Minicbor.shortest, ihx, ih]
  | arrayI _ _ ihx ih => simp [shortestL, Minicbor.shortest, ihx, ih]
  | mapI _ _ _ ihx ih => simp [shortestL, Minicbor.shortest, ihx, ih]
  | bytesI _ ih => simp [shortestL, Minicbor.shortest, chunksShortest_pref, ih]
  | textI _ ih => simp [shortestL, Minicbor.shortest, chunksShortest_pref, ih]

/-! ### C11's `preferred` (shortest heads and no signalling half NaN) -/

theorem chunksPreferred_pref (cs : List Bytes) : chunksPreferred (prefChunks cs) = true := by
  induction cs with
  | nil => rfl
  | cons c cs ih => simpa [prefChunks, chunksPreferred] using ih

theorem intW_preferred (v : Int) : preferred (intW v) = true := by
  unfold intW; split <;> simp [preferred]

theorem scalar_preferred {t : Token} {w : WItem} (hs : scalarW t = some w) (hok : t.callOk) :
    preferred w = true := by
  cases t <;> simp only [scalarW, Option.some.injEq, reduceCtorEq] at hs <;> subst hs
  case f16 x =>
    have h : x < 4294967296 := by simpa [Token.callOk, Token.ok] using hok
    simp [preferred, f32ToF16_quiet x h]
  all_goals first | exact intW_preferred _ | simp [preferred]

theorem Balanced.preferred {ts : List Token} {ws : List WItem} (h : Balanced ts ws)
    (hok : ∀ t ∈ ts, t.callOk) : preferredL ws = true := by
  induction h with
  | nil => rfl
  | @scalar t w ts ws hs _ ih =>
    simp [preferredL, scalar_preferred hs (hok t (by simp)), ih (forall_mem_tail hok)]
  | array _ hl _ ihx ih =>
    obtain ⟨gx, gt⟩ := forall_mem_split (forall_mem_tail hok)
    subst hl; simp [preferredL, C11.preferred, ihx gx, ih gt]
  | @map n _ _ kvs _ _ hl _ ihx ih =>
    obtain ⟨gx, gt⟩ := forall_mem_split (forall_mem_tail hok)
    have : kvs.length / 2 = n := by omega
    simp [preferredL, C11.preferred, ihx gx, ih gt, this]
  | tag _ _ ihx ih =>
    obtain ⟨gx, gt⟩ := forall_mem_split (forall_mem_tail hok)
    have := ihx gx
    simp only [preferredL, Bool.and_true] at this
    simp [preferredL, C11.preferred, this, ih gt]
  | arrayI _ _ ihx ih =>
    obtain ⟨gx, gt⟩ := forall_mem_split (forall_mem_tail hok)
    simp [preferredL, C11.preferred, ihx gx, ih (forall_mem_tail gt)]
  | mapI _ _ _ ihx ih =>
    obtain ⟨gx, gt⟩ := forall_mem_split (forall_mem_tail hok)
    simp [preferredL, C11.preferred, ihx gx, ih (forall_mem_tail gt)]
  | bytesI _ ih =>
    obtain ⟨_, gt⟩ := forall_mem_split (forall_mem_tail hok)
    simp [preferredL, C11.preferred, chunksPreferred_pref, ih (forall_mem_tail gt)]
  | textI _ ih =>
    obtain ⟨_, gt⟩ := forall_mem_split (forall_mem_tail hok)
    simp [preferredL, C11.preferred, chunksPreferred_pref, ih (forall_mem_tail gt)]

/-! ### definite-length only -/

theorem intW_definite (v : Int) : definite (intW v) = true := by
  unfold intW; split <;> rfl

theorem scalar_definite {t : Token} {w : WItem} (hs : scalarW t = some w) : definite w = true := by
  cases t <;> simp only [scalarW, Option.some.injEq, reduceCtorEq] at hs <;> subst hs <;>
    first | exact intW_definite _ | rfl

theorem Balanced.definite {ts : List Token} {ws : List WItem} (h : Balanced ts ws)
    (hb : ∀ t ∈ ts, t.isBegin = false) : definiteL ws = true := by
  induction h with
  | nil => rfl
  | scalar hs _ ih => simp [definiteL, scalar_definite hs, ih (forall_mem_tail hb)]
  | array _ _ _ ihx ih =>
    obtain ⟨gx, gt⟩ := forall_mem_split (forall_mem_tail hb)
    simp [definiteL, Minicbor.definite, ihx gx, ih gt]
  | map _ _ _ ihx ih =>
    obtain ⟨gx, gt⟩ := forall_mem_split (forall_mem_tail hb)
    simp [definiteL, Minicbor.definite, ihx gx, ih gt]
  | tag _ _ ihx ih =>
    obtain ⟨gx, gt⟩ := forall_mem_split (forall_mem_tail hb)
    have := ihx gx
    simp only [definiteL, Bool.and_true] at this
    simp [definiteL, Minicbor.definite, this, ih gt]
  | arrayI _ _ _ _ => exact absurd (hb .beginArray (by simp)) (by simp [Token.isBegin])
  | mapI _ _ _ _ _ => exact absurd (hb .beginMap (by simp)) (by simp [Token.isBegin])
  | bytesI _ _ => exact absurd (hb .beginBytes (by simp)) (by simp [Token.isBegin])
  | textI _ _ => exact absurd (hb .beginString (by simp)) (by simp [Token.isBegin])

mutual
/-- a definite-length tree with shortest heads IS the preferred tree of its value. -/
theorem prefTree_value (w : WItem) (hd : definite w = true) (hs : shortest w = true) :
    prefTree (value w) = w := by
  cases w with
  | uint w n => simp only [shortest, beq_iff_eq] at hs; simp only [value, prefTree, hs]
  | nint w n => simp only [shortest, beq_iff_eq] at hs; simp only [value, prefTree, hs]
  | bytes w b => simp only [shortest, beq_iff_eq] at hs; simp only [value, prefTree, hs]
  | text w b => simp only [shortest, beq_iff_eq] at hs; simp only [value, prefTree, hs]
  | bytesI cs => simp [definite] at hd
  | textI cs => simp [definite] at hd
  | arrayI xs => simp [definite] at hd
  | mapI kvs => simp [definite] at hd
  | array w xs =>
    simp only [shortest, Bool.and_eq_true, beq_iff_eq] at hs
    simp only [definite] at hd
    simp only [value, prefTree, values_length, prefTrees_values xs hd hs.2, ← hs.1]
  | map w kvs =>
    simp only [shortest, Bool.and_eq_true, beq_iff_eq] at hs
    simp only [definite] at hd
    simp only [value, prefTree, values_length, prefTrees_values kvs hd hs.2, ← hs.1]
  | tag w n x =>
    simp only [shortest, Bool.and_eq_true, beq_iff_eq] at hs
    simp only [definite] at hd
    simp only [value, prefTree, prefTree_value x hd hs.2, ← hs.1]
  | simple n => rfl
  | f16 b => rfl
  | f32 b => rfl
  | f64 b => rfl
theorem prefTrees_values (ws : List WItem) (hd : definiteL ws = true) (hs : shortestL ws = true) :
    prefTrees (values ws) = ws := by
  cases ws with
  | nil => rfl
  | cons x xs =>
    simp only [definiteL, Bool.and_eq_true] at hd
    simp only [shortestL, Bool.and_eq_true] at hs
    simp only [values, prefTrees, prefTree_value x hd.1 hs.1, prefTrees_values xs hd.2 hs.2]
end

/-! ### the value: C11's independent reader `itemOfTokens` agrees -/

theorem parseN_succ (f n : Nat) (ts : List Token) :
    parseN (f + 1) (n + 1) ts =
      (parseItem f ts).bind fun p => (parseN f n p.2).map fun q => (p.1 :: q.1, q.2) := by
  simp only [parseN]
  rcases parseItem f ts with _ | ⟨x, r⟩ <;> rfl

theorem parseUntil_brk (f : Nat) (ts : List Token) : parseUntil (f + 1) (.brk :: ts) = some ([], ts) := by
  simp only [parseUntil]

theorem parseUntil_step (f : Nat) (ts : List Token) (h : ∀ r, ts ≠ .brk :: r) :
    parseUntil (f + 1) ts =
      (parseItem f ts).bind fun p => (parseUntil f p.2).map fun q => (p.1 :: q.1, q.2) := by
  cases ts with
  | nil =>
    simp only [parseUntil]
    rcases parseItem f [] with _ | ⟨x, r⟩ <;> rfl
  | cons t ts =>
    cases t
    case brk => exact absurd rfl (h ts)
    all_goals
      simp only [parseUntil]
      rcases parseItem f _ with _ | ⟨x, r⟩ <;> rfl

theorem joinChunks_pref (cs : List Bytes) : joinChunks (prefChunks cs) = cs.flatten := by
  induction cs with
  | nil => rfl
  | cons c cs ih => simpa [prefChunks, joinChunks] using ih

theorem balChunks_parse (text : Bool) (ts : List Token) (cs : List Bytes) (r : List Token)
    (h : balChunks text ts = some (cs, r)) :
    parseChunks text ts = some (joinChunks (prefChunks cs), r) := by
  induction ts generalizing cs with
  | nil => simp [balChunks] at h
  | cons t ts ih =>
    cases t <;> cases text <;>
      simp only [balChunks, Bool.false_eq_true, if_false, if_true, Option.map_eq_some_iff,
        Option.some.injEq, Prod.mk.injEq, reduceCtorEq] at h
    case bytes.false b =>
      obtain ⟨⟨cs', r'⟩, h1, rfl, rfl⟩ := h
      simp [parseChunks, ih cs' h1, prefChunks, joinChunks]
    case string.true b =>
      obtain ⟨⟨cs', r'⟩, h1, rfl, rfl⟩ := h
      simp [parseChunks, ih cs' h1, prefChunks, joinChunks]
    case brk.false => obtain ⟨rfl, rfl⟩ := h; rfl
    case brk.true => obtain ⟨rfl, rfl⟩ := h; rfl

theorem value_intW (v : Int) : value (intW v) = C03.intItem v := by
  unfold intW C03.intItem; split <;> rfl

/-- whenever the balance checker reads an item, C11's token reader reads its value (same fuel). -/
theorem bal_parse (f : Nat) :
    (∀ ts w r, balItem f ts = some (w, r) → parseItem f ts = some (value w, r)) ∧
    (∀ n ts ws r, balN f n ts = some (ws, r) → parseN f n ts = some (values ws, r)) ∧
    (∀ ts ws r, balUntil f ts = some (ws, r) → parseUntil f ts = some (values ws, r)) := by
  induction f with
  | zero =>
    refine ⟨?_, ?_, ?_⟩
    · intro ts w r h; simp [balItem] at h
    · intro n ts ws r h
      cases n with
      | zero =>
        simp only [balN, Option.some.injEq, Prod.mk.injEq] at h
        obtain ⟨rfl, rfl⟩ := h; rfl
      | succ n => simp [balN] at h
    · intro ts ws r h; simp [balUntil] at h
  | succ f ih =>
    obtain ⟨ihI, ihN, ihU⟩ := ih
    refine ⟨?_, ?_, ?_⟩
    · intro ts w r h
      cases ts with
      | nil => simp [balItem] at h
      | cons t ts =>
        simp only [balItem] at h
        cases hs : scalarW t with
        | some w' =>
          simp only [hs, Option.some.injEq, Prod.mk.injEq] at h
          obtain ⟨rfl, rfl⟩ := h
          cases t <;> simp only [scalarW, Option.some.injEq, reduceCtorEq] at hs <;> subst hs <;>
            simp only [parseItem, value, value_intW]
        | none =>
          simp only [hs] at h
          cases t <;> simp only [reduceCtorEq, Option.map_eq_some_iff, Prod.mk.injEq] at h
          case array n =>
            obtain ⟨⟨xs, r'⟩, h1, rfl, rfl⟩ := h
            simp only [parseItem, ihN _ _ _ _ h1, value, Option.map_some]
          case map n =>
            obtain ⟨⟨xs, r'⟩, h1, rfl, rfl⟩ := h
            simp only [parseItem, ihN _ _ _ _ h1, value, Option.map_some]
          case tag n =>
            obtain ⟨⟨x, r'⟩, h1, rfl, rfl⟩ := h
            simp only [parseItem, ihI _ _ _ h1, value, Option.map_some]
          case beginArray =>
            obtain ⟨⟨xs, r'⟩, h1, rfl, rfl⟩ := h
            simp only [parseItem, ihU _ _ _ h1, value, Option.map_some]
          case beginMap =>
            cases hu : balUntil f ts with
            | none => simp [hu] at h
            | some p =>
              obtain ⟨kvs, r'⟩ := p
              simp only [hu] at h
              split at h
              · simp only [Option.some.injEq, Prod.mk.injEq] at h
                obtain ⟨rfl, rfl⟩ := h
                simp only [parseItem, ihU _ _ _ hu, value, Option.map_some]
              · simp at h
          case beginBytes =>
            obtain ⟨⟨cs, r'⟩, h1, rfl, rfl⟩ := h
            simp only [parseItem, balChunks_parse _ _ _ _ h1, value, Option.map_some]
          case beginString =>
            obtain ⟨⟨cs, r'⟩, h1, rfl, rfl⟩ := h
            simp only [parseItem, balChunks_parse _ _ _ _ h1, value, Option.map_some]
    · intro n ts ws r h
      cases n with
      | zero =>
        simp only [balN, Option.some.injEq, Prod.mk.injEq] at h
        obtain ⟨rfl, rfl⟩ := h; rfl
      | succ n =>
        rw [balN_succ] at h
        simp only [Option.bind_eq_some_iff, Option.map_eq_some_iff, Prod.mk.injEq] at h
        obtain ⟨⟨x, r1⟩, hi, ⟨xs, r2⟩, h1, rfl, rfl⟩ := h
        rw [parseN_succ, ihI _ _ _ hi]
        simp [ihN _ _ _ _ h1, values]
    · intro ts ws r h
      by_cases hb : ∃ r', ts = .brk :: r'
      · obtain ⟨r', rfl⟩ := hb
        simp only [balUntil_brk, Option.some.injEq, Prod.mk.injEq] at h
        obtain ⟨rfl, rfl⟩ := h
        rfl
      · rw [balUntil_step f ts (fun r' e => hb ⟨r', e⟩)] at h
        simp only [Option.bind_eq_some_iff, Option.map_eq_some_iff, Prod.mk.injEq] at h
        obtain ⟨⟨x, r1⟩, hi, ⟨xs, r2⟩, h1, rfl, rfl⟩ := h
        rw [parseUntil_step f ts (fun r' e => hb ⟨r', e⟩), ihI _ _ _ hi]
        simp [ihU _ _ _ h1, values]

theorem balTop_nil_inv (f : Nat) (ts : List Token) (h : balTop f ts = some []) : ts = [] := by
  cases ts with
  | nil => rfl
  | cons t ts =>
    cases f with
    | zero => simp [balTop] at h
    | succ f =>
      rw [balTop_step] at h
      simp [Option.bind_eq_some_iff] at h

/-- a call sequence denoting a single item: the token reader returns that item's value. -/
theorem balanced_single_value (ts : List Token) (w : WItem) (h : balanced ts = some [w]) :
    itemOfTokens ts = some (value w) := by
  unfold balanced at h
  cases ts with
  | nil => simp [balTop] at h
  | cons t ts =>
    rw [balTop_step] at h
    simp only [Option.bind_eq_some_iff, Option.map_eq_some_iff] at h
    obtain ⟨⟨x, r⟩, hi, q, h1, h2⟩ := h
    simp only [List.cons.injEq] at h2
    obtain ⟨rfl, rfl⟩ := h2
    have hr := balTop_nil_inv _ _ h1
    subst hr
    have := (bal_parse _).1 _ _ _ hi
    simp only [itemOfTokens, this]

/-! ### completeness: every valid wire tree is the denotation of its token list -/

theorem chunkToks_bytes (cs : List (Width × Bytes)) :
    chunkToks false cs = (cs.map Prod.snd).map Token.bytes := by
  induction cs with
  | nil => rfl
  | cons c cs ih => obtain ⟨w, b⟩ := c; simp [chunkToks, ih]

theorem chunkToks_text (cs : List (Width × Bytes)) :
    chunkToks true cs = (cs.map Prod.snd).map Token.string := by
  induction cs with
  | nil => rfl
  | cons c cs ih => obtain ⟨w, b⟩ := c; simp [chunkToks, ih]

theorem canonChunks_eq_pref (cs : List (Width × Bytes)) : canonChunks cs = prefChunks (cs.map Prod.snd) := by
  induction cs with
  | nil => rfl
  | cons c cs ih => obtain ⟨w, b⟩ := c; simp only [canonChunks, ih, prefChunks, List.map_cons]

theorem scalarW_uintTok (w : Width) (n : Nat) : scalarW (uintTok w n) = some (.uint (prefWidth n) n) := by
  cases w <;> rfl

theorem intW_neg (n : Nat) : intW (-1 - (n : Int)) = .nint (prefWidth n) n := by
  unfold intW
  rw [if_neg (by omega)]
  have : (-1 - (-1 - (n : Int))).toNat = n := by omega
  rw [this]

theorem scalarW_nintTok (w : Width) (n : Nat) : scalarW (nintTok w n) = some (.nint (prefWidth n) n) := by
  cases w <;> simp only [nintTok] <;> (try split) <;> simp only [scalarW, intW_neg]

theorem scalarW_simpleTok (n : Nat) : scalarW (simpleTok n) = some (.simple n) := by
  unfold simpleTok
  (repeat' split) <;> simp_all [scalarW]

mutual
theorem toks_balanced (w : WItem) (hv : w.valid = true) : Balanced (toks w) [canon w] := by
  cases w with
  | uint w n => exact .scalar (scalarW_uintTok w n) .nil
  | nint w n => exact .scalar (scalarW_nintTok w n) .nil
  | bytes w b => exact .scalar rfl .nil
  | text w b => exact .scalar rfl .nil
  | bytesI cs =>
    simp only [toks, canon, chunkToks_bytes, canonChunks_eq_pref]
    exact .bytesI .nil
  | textI cs =>
    simp only [toks, canon, chunkToks_text, canonChunks_eq_pref]
    exact .textI .nil
  | array w xs =>
    simp only [WItem.valid, Bool.and_eq_true] at hv
    have := Balanced.array (toksL_balanced xs hv.2) (canonL_length xs) .nil
    simpa [toks, canon] using this
  | arrayI xs =>
    simp only [WItem.valid] at hv
    exact .arrayI (toksL_balanced xs hv) .nil
  | map w kvs =>
    simp only [WItem.valid, Bool.and_eq_true, beq_iff_eq] at hv
    have hl : (canonL kvs).length = 2 * (kvs.length / 2) := by rw [canonL_length]; omega
    have := Balanced.map (toksL_balanced kvs hv.2) hl .nil
    simpa [toks, canon] using this
  | mapI kvs =>
    simp only [WItem.valid, Bool.and_eq_true, beq_iff_eq] at hv
    exact .mapI (toksL_balanced kvs hv.2) (by rw [canonL_length]; exact hv.1) .nil
  | tag w n x =>
    simp only [WItem.valid, Bool.and_eq_true] at hv
    have := Balanced.tag (n := n) (toks_balanced x hv.2) .nil
    simpa [toks, canon] using this
  | simple n => exact .scalar (scalarW_simpleTok n) .nil
  | f16 b =>
    simp only [WItem.valid, decide_eq_true_eq] at hv
    exact .scalar (by simp only [scalarW, half_roundtrip b hv, canon]) .nil
  | f32 b => exact .scalar rfl .nil
  | f64 b => exact .scalar rfl .nil
theorem toksL_balanced (ws : List WItem) (hv : validAll ws = true) : Balanced (toksL ws) (canonL ws) := by
  cases ws with
  | nil => exact .nil
  | cons x xs =>
    simp only [validAll, Bool.and_eq_true] at hv
    exact (toks_balanced x hv.1).cons_item (toksL_balanced xs hv.2)
end

end Minicbor
